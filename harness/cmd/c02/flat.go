package main

// Operands with a FLAT or POINT bounding box (Line2D(l,0), Box2D with a zero side, Circle2D(0),
// Cylinder3D(0,r,0), Extrude3D(s,0), extrusions of flat profiles) under every combinator that builds its box
// from its children's boxes - union, array, elongate, rotate-union, rotate-copy, rigid placement, offset - alone
// and nested, and each such tree once more as an operand of an enclosing Union2D/3D next to ordinary operands
// (generator: harness/shapes/flat.go, shared with cmd/c01).
//
// Why a stratum of its own: the node oracle of a union (oracles.go) has to excuse an operand whose value is
// below the distance to its own box ("material outside its own box": the box-pruned Union2D may legitimately
// miss it, the defect is the operand's, C01).  An inner union / array / elongation that DROPS a flat operand
// from its box (a special case "an empty box adds nothing" in Box2.Extend and friends) produces exactly such an
// operand, so the node oracle of the enclosing union stays silent although the union is no longer the
// pointwise minimum of its leaves.  Here the reference does not look at any box: Ref is the named operation
// (plain minimum, translation back with the inverse from exact rational arithmetic, clamp, polar fold) applied
// to the LEAVES' Evaluate, and the points are derived from the PARAMETERS (extreme points of the leaves mapped
// forward by the generator's own arithmetic, and points around them), so a dropped operand is probed where it
// really is.

import (
	"fmt"
	"math"

	"github.com/deadsy/sdfx/sdf"
	v2 "github.com/deadsy/sdfx/vec/v2"
	v3 "github.com/deadsy/sdfx/vec/v3"
	"verifharness/shapes"
)

// a point where the reference itself jumps (sector boundary of a rotate-copy fold) decides nothing
func refStable2(ref func(v2.Vec) float64, p v2.Vec, want, scale float64) bool {
	e := 1e-9 * scale
	for _, d := range []v2.Vec{{X: e}, {X: -e}, {Y: e}, {Y: -e}} {
		if math.Abs(ref(p.Add(d))-want) > 1e-6*scale {
			return false
		}
	}
	return true
}
func refStable3(ref func(v3.Vec) float64, p v3.Vec, want, scale float64) bool {
	e := 1e-9 * scale
	for _, d := range []v3.Vec{{X: e}, {X: -e}, {Y: e}, {Y: -e}, {Z: e}, {Z: -e}} {
		if math.Abs(ref(p.Add(d))-want) > 1e-6*scale {
			return false
		}
	}
	return true
}

func (h *harness) flatRef2(t *shapes.P2, stratum string) {
	h.r.Case("oracle/flat/"+stratum, "flat2:"+t.Desc, len(t.Kids) > 0)
	h.hist["flat2/trees"]++
	h.walk(t.N2, 0) // the node oracles of every combinator in the tree
	if t.Ref == nil {
		return
	}
	v := viol{h, "flat2-pointwise", t.Desc, t.Coq}
	pts := append([]v2.Vec{}, t.Wit...)
	for _, w := range t.Wit { // around the probe points: the operand is the nearest one there
		for k := 0; k < 2; k++ {
			r := []float64{0.05, 0.3, 1, 3}[h.rng.Intn(4)]
			pts = append(pts, v2.Vec{X: w.X + h.rng.Uniform(-r, r), Y: w.Y + h.rng.Uniform(-r, r)})
		}
	}
	for i := 0; i+1 < len(t.Wit) && i < 24; i++ { // between probe points of (possibly) different operands
		a, b := t.Wit[i], t.Wit[h.rng.Intn(len(t.Wit))]
		s := h.rng.Float()
		pts = append(pts, v2.Vec{X: a.X + s*(b.X-a.X), Y: a.Y + s*(b.Y-a.Y)})
	}
	pts = append(pts, h.pts2(t.Go, 8)...)
	for _, p := range pts {
		if !finite(p.X, p.Y) {
			continue
		}
		got, want := t.Go.Evaluate(p), t.Ref(p)
		scale := math.Max(1, p.Length())
		h.hist["flat2/points"]++
		if closeTo(got, want, scale) {
			continue
		}
		if !refStable2(t.Ref, p, want, scale) {
			h.hist["flat2/points-on-a-jump-of-the-reference"]++
			continue
		}
		v.at(p, fmt.Sprintf("Evaluate(%v) = %v, but the named operations applied to the leaves (plain minimum, no boxes) give %v; inside/outside %v vs %v", p, got, want, got < 0, want < 0))
		return
	}
}

func (h *harness) flatRef3(t *shapes.P3, stratum string) {
	h.r.Case("oracle/flat/"+stratum, "flat3:"+t.Desc, len(t.Kids) > 0)
	h.hist["flat3/trees"]++
	h.walk(t.N3, 0)
	if t.Ref == nil {
		return
	}
	v := viol{h, "flat3-pointwise", t.Desc, t.Coq}
	pts := append([]v3.Vec{}, t.Wit...)
	for _, w := range t.Wit {
		for k := 0; k < 2; k++ {
			r := []float64{0.05, 0.3, 1, 3}[h.rng.Intn(4)]
			pts = append(pts, v3.Vec{X: w.X + h.rng.Uniform(-r, r), Y: w.Y + h.rng.Uniform(-r, r), Z: w.Z + h.rng.Uniform(-r, r)})
		}
	}
	for i := 0; i+1 < len(t.Wit) && i < 24; i++ {
		a, b := t.Wit[i], t.Wit[h.rng.Intn(len(t.Wit))]
		s := h.rng.Float()
		pts = append(pts, v3.Vec{X: a.X + s*(b.X-a.X), Y: a.Y + s*(b.Y-a.Y), Z: a.Z + s*(b.Z-a.Z)})
	}
	pts = append(pts, h.pts3(t.Go, 8)...)
	for _, p := range pts {
		if !finite(p.X, p.Y, p.Z) {
			continue
		}
		got, want := t.Go.Evaluate(p), t.Ref(p)
		scale := math.Max(1, p.Length())
		h.hist["flat3/points"]++
		if closeTo(got, want, scale) {
			continue
		}
		if !refStable3(t.Ref, p, want, scale) {
			h.hist["flat3/points-on-a-jump-of-the-reference"]++
			continue
		}
		v.at(p, fmt.Sprintf("Evaluate(%v) = %v, but the named operations applied to the leaves (plain minimum, no boxes) give %v; inside/outside %v vs %v", p, got, want, got < 0, want < 0))
		return
	}
}

// an enclosing union next to ordinary operands placed near and far: the pruned Union2D must still find the
// flat operand inside its inner composite
func (h *harness) enclose2(g *shapes.Gen, t *shapes.P2) *shapes.P2 {
	ks := []*shapes.P2{t}
	for n := h.rng.Range(1, 2); n > 0; n-- {
		b := shapes.PTransform2(g.ThickLeaf2(), sdf.Translate2d(v2.Vec{X: h.rng.Dyadic(12, 2), Y: h.rng.Dyadic(12, 2)}), false, "translate ")
		if h.rng.Bool() {
			ks = append(ks, b)
		} else {
			ks = append([]*shapes.P2{b}, ks...)
		}
	}
	return shapes.PUnion2(ks...)
}
func (h *harness) enclose3(g *shapes.Gen, t *shapes.P3) *shapes.P3 {
	ks := []*shapes.P3{t}
	for n := h.rng.Range(1, 2); n > 0; n-- {
		b := shapes.PTransform3(shapes.PSphere(float64(h.rng.Range(2, 12))/8), sdf.Translate3d(v3.Vec{X: h.rng.Dyadic(12, 2), Y: h.rng.Dyadic(12, 2), Z: h.rng.Dyadic(6, 2)}), false, "translate ")
		if h.rng.Bool() {
			ks = append(ks, b)
		} else {
			ks = append([]*shapes.P3{b}, ks...)
		}
	}
	return shapes.PUnion3(ks...)
}

var flatLevelNames = []string{"union", "array", "elongate", "rotate-union", "rotate-copy", "transform", "offset"}

func (h *harness) flatStrata(rep int) {
	g := &shapes.Gen{R: h.rng, NoBlend: true, OffsetOnlyLb: true}
	// the plainest members first
	circ := shapes.PCircle(0.5)
	at := func(x, y float64) *shapes.P2 {
		return shapes.PTransform2(circ, sdf.Translate2d(v2.Vec{X: x, Y: y}), false, "translate ")
	}
	line := shapes.PLine2(10, 0)
	for _, t := range []*shapes.P2{
		shapes.PUnion2(shapes.PUnion2(at(-4, 0), line), at(4, 3)),
		shapes.PUnion2(at(4, 3), shapes.PUnion2(line, at(-4, 0))),
		shapes.PUnion2(shapes.PElongate2(shapes.PLine2(4, 0), v2.Vec{X: 0, Y: 6}), at(5, 4)),
		shapes.PUnion2(shapes.PArray2(shapes.PLine2(1, 0), 3, 1, v2.Vec{X: 3, Y: 0}), at(2, 3)),
		shapes.PUnion2(shapes.PArray2(shapes.PBox2(v2.Vec{}, 0), 2, 2, v2.Vec{X: 4, Y: 2}), at(1, 3)),
		shapes.PUnion2(shapes.PUnion2(at(-4, 0), shapes.PBox2(v2.Vec{X: 0, Y: 8}, 0)), at(3, 3)),
	} {
		h.flatRef2(t, "plain")
	}
	sph := shapes.PSphere(0.5)
	at3 := func(x, y, z float64) *shapes.P3 {
		return shapes.PTransform3(sph, sdf.Translate3d(v3.Vec{X: x, Y: y, Z: z}), false, "translate ")
	}
	disc := shapes.PCylinder(0, 4, 0)
	for _, t := range []*shapes.P3{
		shapes.PUnion3(shapes.PUnion3(at3(-6, 0, 0), disc), at3(3, 3, 2)),
		shapes.PUnion3(shapes.PElongate3(shapes.PExtrude(line, 0), v3.Vec{Z: 4}), at3(5, 4, 1)),
		shapes.PUnion3(shapes.PArray3(shapes.PExtrude(shapes.PBox2(v2.Vec{X: 2, Y: 2}, 0), 0), 1, 1, 2, v3.Vec{Z: 3}), at3(2, 2, 1)),
	} {
		h.flatRef3(t, "plain")
	}
	for it := 0; it < rep; it++ {
		for leaf := 0; leaf < 6; leaf++ {
			for first := range flatLevelNames {
				t := g.Flat2(h.rng.Range(1, 3), leaf, first, h.rng.Intn(3) == 0)
				h.flatRef2(t, "2d/"+flatLevelNames[first])
				h.flatRef2(h.enclose2(g, t), "2d/"+flatLevelNames[first]+"/in-union")
			}
		}
		for leaf := 0; leaf < 4; leaf++ {
			for first := range flatLevelNames {
				t := g.Flat3(h.rng.Range(1, 2), leaf, first, h.rng.Intn(3) == 0)
				h.flatRef3(t, "3d/"+flatLevelNames[first])
				h.flatRef3(h.enclose3(g, t), "3d/"+flatLevelNames[first]+"/in-union")
			}
		}
	}
}
