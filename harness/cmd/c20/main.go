package main

// C20: canonical-form equality of triangle sets (model: coq/Algo/Canon.v) and
// exact-arithmetic oracles for the Delaunay triangulation.

import (
	"encoding/json"
	"fmt"
	"math"
	"math/big"
	"os"
	"path/filepath"
	"sort"
	"strings"

	"github.com/deadsy/sdfx/render"
	"github.com/deadsy/sdfx/sdf"
	v2 "github.com/deadsy/sdfx/vec/v2"
	. "verifharness/kit"
	"verifharness/rendergen"
)

func main() { Main("C20", checkC20, stateGen, rendergen.Gen) }

func triTerm(t render.TriangleI) string {
	return fmt.Sprintf("(%s,%s,%s)", CZ(t[0]), CZ(t[1]), CZ(t[2]))
}
func trisTerm(ts []render.TriangleI) string {
	xs := make([]string, len(ts))
	for i, t := range ts {
		xs[i] = triTerm(t)
	}
	return CList(xs)
}
func cloneTris(ts []render.TriangleI) render.TriangleISet {
	return append(render.TriangleISet{}, ts...)
}
func rotTri(t render.TriangleI, k int) render.TriangleI {
	for ; k > 0; k-- {
		t = render.TriangleI{t[1], t[2], t[0]}
	}
	return t
}

type c20Corpus struct {
	Equals []struct {
		A, B [][3]int
	} `json:"equals"`
	Points [][][2]float64 `json:"points"`
}

var dcases = &Cases{Kind: "delaunay", Imports: "From Sdfx Require Import Algo.DelaunayCorr.\nOpen Scope float_scope.", Type: "dcase", Fn: "dmismatches", PerShard: 40}
var pcases = &Cases{Kind: "incircle", Imports: "From Sdfx Require Import Algo.DelaunayCorr.\nOpen Scope float_scope.", Type: "pcase", Fn: "pmismatches", PerShard: 1500}
var slcases = &Cases{Kind: "slow", Imports: "From Sdfx Require Import Algo.DelaunayCorr.\nOpen Scope float_scope.", Type: "slcase", Fn: "slmismatches", PerShard: 60}
var scases = &Cases{Kind: "super", Imports: "From Sdfx Require Import Algo.DelaunayCorr.\nOpen Scope float_scope.", Type: "scase", Fn: "smismatches", PerShard: 200}
var did = 0
var panicSeen = map[string]bool{}

func checkC20(c *Ctx, r *Report) error {
	rng := NewRng(c.Seed)
	cs := &Cases{Kind: "canon", Imports: "From Sdfx Require Import Algo.Canon.\nOpen Scope Z_scope.", Type: "Canon.case", Fn: "Canon.mismatches", PerShard: 400}
	id := 0
	var corpus c20Corpus
	if b, err := os.ReadFile(filepath.Join(c.Verif, "corpus", "C20.json")); err == nil {
		if err := json.Unmarshal(b, &corpus); err != nil {
			return err
		}
	}
	equalsCase := func(stratum string, a, b []render.TriangleI, mustEqual bool) {
		id++
		res, p1 := safeEquals(a, b)
		can, p2 := safeCanonical(a)
		if p1 != nil || p2 != nil {
			r.Case(stratum, fmt.Sprintf("equals:%v|%v", a, b), len(a) >= 2)
			if pk := fmt.Sprintf("equals-panic:%d:%v", len(a), p1); panicSeen[pk] {
				return
			} else {
				panicSeen[pk] = true
			}
			r.Violate(fmt.Sprintf("equals-panic:%d:%v", len(a), p1), fmt.Sprintf("Equals / Canonical panics on two sets of %d triangles: %v %v", len(a), p1, p2),
				map[string]interface{}{"a": a, "b": b})
			return
		}
		cs.Add(fmt.Sprintf("(%d%%N, %s, %s, %s, %s)", id, trisTerm(a), trisTerm(b), CB(res), trisTerm(can)))
		key := fmt.Sprintf("equals:%v|%v", a, b)
		r.Case(stratum, key, len(a) >= 2)
		if id%97 == 1 {
			r.Sample(map[string]interface{}{"kind": "equals", "a": a, "b": b, "go_result": res})
		}
		if mustEqual && !res {
			r.Violate(key, fmt.Sprintf("Equals is false on a reordered/rotated copy of the same triangle set (%d triangles)", len(a)),
				map[string]interface{}{"a": a, "b": b})
		}
	}
	for _, e := range corpus.Equals {
		var a, b []render.TriangleI
		for _, t := range e.A {
			a = append(a, render.TriangleI(t))
		}
		for _, t := range e.B {
			b = append(b, render.TriangleI(t))
		}
		equalsCase("corpus", a, b, true)
	}
	n := TierN(c.Tier, 1200, 20000, 6000)
	for k := 0; k < n; k++ {
		// sizes: small (all permutations matter), around the insertion-sort limit 12, large
		var sz int
		switch k % 4 {
		case 0:
			sz = rng.Range(0, 4)
		case 1:
			sz = rng.Range(5, 13)
		case 2:
			sz = rng.Range(13, 40)
		default:
			sz = rng.Range(2, 9)
		}
		nv := rng.Range(3, 3+2*sz) // few vertices => many equal leading indices
		if k%5 == 0 {
			nv = rng.Range(3, 6)
		}
		a := make([]render.TriangleI, sz)
		for i := range a {
			p := rng.Perm(nv)
			a[i] = render.TriangleI{p[0], p[1], p[2]}
		}
		b := make([]render.TriangleI, sz)
		for i, j := range rng.Perm(sz) {
			b[i] = rotTri(a[j], rng.Intn(3))
		}
		switch {
		case k%3 != 2 || sz == 0:
			equalsCase(fmt.Sprintf("reordered-copy/size<=%d", bucket(sz)), a, b, true)
		case k%6 == 2:
			// flip the winding of one triangle: a different set
			i := rng.Intn(sz)
			b[i] = render.TriangleI{b[i][0], b[i][2], b[i][1]}
			equalsCase("winding-flipped", a, b, false)
		default:
			i := rng.Intn(sz)
			b[i][rng.Intn(3)] = nv + rng.Intn(3)
			equalsCase("one-index-changed", a, b, false)
		}
	}
	// different lengths
	equalsCase("length-differs", []render.TriangleI{{0, 1, 2}}, []render.TriangleI{{0, 1, 2}, {1, 2, 3}}, false)
	if err := cs.Write(c.Out); err != nil {
		return err
	}
	// synthetic index-triple sets over the whole int range, every reordering / rotation of tiny sets,
	// 1000-triple sets, Less on probe lists: synth.go (own random stream)
	if err := synthStratum(c, r); err != nil {
		return err
	}

	// ---- Delaunay: exact oracles on the implementation
	for _, ps := range corpus.Points {
		vs := make(v2.VecSet, len(ps))
		for i, p := range ps {
			vs[i] = v2.Vec{X: p[0], Y: p[1]}
		}
		delaunayCase(r, "corpus", vs)
	}
	nd := TierN(c.Tier, 150, 3000, 600)
	for k := 0; k < nd; k++ {
		var npts int
		var stratum string
		switch k % 5 {
		case 0:
			npts, stratum = rng.Range(3, 6), "tiny"
		case 1, 2:
			npts, stratum = rng.Range(7, 24), "small"
		case 3:
			npts, stratum = rng.Range(25, 45), "medium"
		default:
			npts, stratum = rng.Range(60, 200), "large(no slow)"
		}
		vs := make(v2.VecSet, npts)
		off := v2.Vec{}
		if k%7 == 3 {
			off = v2.Vec{X: rng.Dyadic(200, 3), Y: rng.Dyadic(200, 3)}
			stratum += "/offset"
		}
		// elongated sets: aspect 20..200, along x or along y (the super triangle must scale with the larger extent)
		aspect, alongY := 1.0, false
		if k%9 == 4 || k%9 == 8 {
			aspect = []float64{20, 50, 200}[rng.Intn(3)]
			alongY = k%9 == 8
			stratum += fmt.Sprintf("/strip%g", aspect)
			if alongY {
				stratum += "y"
			}
			if npts > 40 {
				npts = rng.Range(10, 40)
				vs = make(v2.VecSet, npts)
			}
		}
		clustered := k%11 == 5
		if clustered {
			stratum += "/clustered"
		}
		for i := range vs {
			x, y := rng.Dyadic(16, 12), rng.Dyadic(16, 12)
			if clustered && i%2 == 0 {
				x, y = x/16, y/16
			}
			if aspect > 1 {
				if alongY {
					x /= aspect
				} else {
					y /= aspect
				}
			}
			vs[i] = v2.Vec{X: x + off.X, Y: y + off.Y}
		}
		delaunayCase(r, stratum, vs)
	}
	// near-collinear hull clusters, squeezed to the boundary of the (scale-aware, exactly decided) class: nch.go.
	// Own random stream, so that the strata above see the same inputs as before.
	nchStratum(r, NewRng(c.Seed^0xC20C20C20), TierN(c.Tier, 50, 600, 300), TierN(c.Tier, 30, 300, 100))
	// the slow reference on its own: too few points (error), degenerate sets (collinear, lattice =
	// cocircular, duplicates), unsorted order, and generic small sets: model vs Go triangle for triangle
	ns := TierN(c.Tier, 60, 1200, 120)
	for k := 0; k < ns; k++ {
		var vs v2.VecSet
		pt := func() v2.Vec { return v2.Vec{X: rng.Dyadic(8, 6), Y: rng.Dyadic(8, 6)} }
		switch k % 6 {
		case 0: // 0..2 points: error
			for i := 0; i < k/6%3; i++ {
				vs = append(vs, pt())
			}
		case 1: // collinear
			a, d := pt(), pt()
			for i := 0; i < 3+rng.Intn(4); i++ {
				vs = append(vs, v2.Vec{X: a.X + float64(i)*d.X, Y: a.Y + float64(i)*d.Y})
			}
		case 2: // lattice points: many cocircular quadruples
			w := 2 + rng.Intn(2)
			for i := 0; i < w; i++ {
				for j := 0; j < w+rng.Intn(2); j++ {
					vs = append(vs, v2.Vec{X: float64(i), Y: float64(j)})
				}
			}
		case 3: // duplicates
			for i := 0; i < 3+rng.Intn(5); i++ {
				vs = append(vs, pt())
			}
			vs = append(vs, vs[rng.Intn(len(vs))])
		case 4: // generic, rounding regime, unsorted
			for i := 0; i < 3+rng.Intn(10); i++ {
				vs = append(vs, v2.Vec{X: rng.Uniform(-5, 5), Y: rng.Uniform(-5, 5)})
			}
		default: // generic dyadic, unsorted
			for i := 0; i < 3+rng.Intn(10); i++ {
				vs = append(vs, pt())
			}
		}
		slowCase(vs)
		r.Case(fmt.Sprintf("slow/%d", k%6), "slow:"+ptsKey(vs), len(vs) >= 3)
	}
	// InCircumcircle / Circumcenter: predicate cases incl. the horizontal-edge branches
	np := TierN(c.Tier, 1500, 30000, 3000)
	for k := 0; k < np; k++ {
		pt := func() v2.Vec { return v2.Vec{X: rng.Dyadic(8, 6), Y: rng.Dyadic(8, 6)} }
		a, b, cc, p := pt(), pt(), pt(), pt()
		switch k % 6 {
		case 0:
			b.Y = a.Y // y1 == y2 branch
		case 1:
			cc.Y = b.Y // y2 == y3 branch
		case 2:
			b.Y, cc.Y = a.Y, a.Y // coincident error
		case 3:
			a, b, cc, p = v2.Vec{X: rng.Uniform(-5, 5), Y: rng.Uniform(-5, 5)}, v2.Vec{X: rng.Uniform(-5, 5), Y: rng.Uniform(-5, 5)}, v2.Vec{X: rng.Uniform(-5, 5), Y: rng.Uniform(-5, 5)}, v2.Vec{X: rng.Uniform(-9, 9), Y: rng.Uniform(-9, 9)}
		}
		did++
		t := sdf.Triangle2{a, b, cc}
		in, dn := t.InCircumcircle(p)
		pcases.Add(fmt.Sprintf("(%d%%N, (%s,%s), (%s,%s), (%s,%s), (%s,%s), %s, %s)", did, CF(a.X), CF(a.Y), CF(b.X), CF(b.Y), CF(cc.X), CF(cc.Y), CF(p.X), CF(p.Y), CB(in), CB(dn)))
		r.Case("incircle", fmt.Sprintf("ic:%x,%x,%x,%x,%x,%x,%x,%x", a.X, a.Y, b.X, b.Y, cc.X, cc.Y, p.X, p.Y), true)
	}
	if err := slcases.Write(c.Out); err != nil {
		return err
	}
	if err := scases.Write(c.Out); err != nil {
		return err
	}
	if err := dcases.Write(c.Out); err != nil {
		return err
	}
	if err := pcases.Write(c.Out); err != nil {
		return err
	}
	r.Rule = "equals cases: random index-triple sets (sizes 0..40, few distinct vertex ids so that leading indices collide) against a randomly reordered and per-triple rotated copy, or a copy with one winding flipped / one index changed; non-trivial = at least 2 triangles, distinct by (a,b). synthetic equals cases (synth.go): index triples that do not come from a triangulation, indices over the whole int range (0, small, 10^k+-1, 2^k+-1 for k=15..62, MaxInt; negative down to MinInt in their own stratum; pools {x, x+N, x+2N} for N = 2^w, w=1..62, or 10^k; adjacent values at 2^53, 2^62, MaxInt-8), fans with equal first/second components, carry pairs (a,b,c+N)/(a,b+1,c) and (a,b+N,c)/(a+1,b,c); sizes 1,2,3 with every reordering x every rotation, 4..40 and 1000 with random and structured reorderings (reversed, shifted, ascending, descending, all-rot1/2); changed copies (winding reversed, one index moved by +-1 / +-2^k / +-10^6, compensating moves, components exchanged between two triples, a duplicate for one triple; at the first / last / a random position of the sorted form); expected result from a map of least-first rotations (no order), canonical forms of copies identical and equal to the independently sorted reference; Less: irreflexive, asymmetric, total, transitive on probe lists, values against Canon.less. delaunay cases: random dyadic point sets (3..200 points, offset and clustered strata) checked with exact rational predicates; non-trivial = robustly in general position (relative orientation/incircle margins > 1e-7) so the exact answer is well defined; distinct by point list. hull-cluster cases: 3..5 close, nearly collinear hull vertices (spacing 1e-1..1e-4 of the extent, defect 1e-3..1e-12, bumps out / in / alternating, axis-parallel or slanted side, optionally on a long nearly straight side, scales 1/8..8), the defect log-bisected down to the boundary of the scale-aware class that is decided in exact integer arithmetic (no super-triangle vertex within sqrt(2) radii of an exact Delaunay triangle's circumcentre, every in-circle decision with relative margin >= 1e-14 x conditioning and absolute margin >= 1e-9); inside that class: exact empty-circle test without margin, 2n-2-h, fast = slow."
	r.Trusted = append(r.Trusted, "hand model coq/Algo/Canon.v of TriangleI.Canonical/Less/Equals tied by differential execution (cases_canon_*.v, cases_canonsyn_*.v, cases_canonbig_*.v; Less values cases_less_*.v)",
		"independent reference for triangle-set equality in harness/cmd/c20/synth.go (multiset of least-index-first rotations in a Go map; lexicographic comparator)",
		"hand model coq/Algo/Delaunay.v of Delaunay2d / superTriangle / InCircumcircle / Circumcenter at primitive floats: the returned triangle list (order included) and the predicate values compared exactly (cases_delaunay_*.v, cases_incircle_*.v)",
		"exact rational Delaunay oracles (math/big) in harness/cmd/c20/main.go, exact integer in-circle / orientation predicates and the class test of the hull-cluster stratum in harness/cmd/c20/nch.go")
	r.Assumptions = append(r.Assumptions, "whole-triangulation correctness (hull coverage, 2n-2-h, fast = slow) is searched with exact oracles, not proved (C20 partial)",
		"point sets that are not robustly in general position are counted but not asserted")
	return nil
}

func bucket(n int) int {
	switch {
	case n <= 4:
		return 4
	case n <= 12:
		return 12
	}
	return 40
}

// ---- exact predicates

func rat(x float64) *big.Rat { return new(big.Rat).SetFloat64(x) }

// orient > 0 for counter-clockwise a,b,c
func orient(a, b, c v2.Vec) *big.Rat {
	abx := new(big.Rat).Sub(rat(b.X), rat(a.X))
	aby := new(big.Rat).Sub(rat(b.Y), rat(a.Y))
	acx := new(big.Rat).Sub(rat(c.X), rat(a.X))
	acy := new(big.Rat).Sub(rat(c.Y), rat(a.Y))
	return new(big.Rat).Sub(new(big.Rat).Mul(abx, acy), new(big.Rat).Mul(aby, acx))
}

// incircle > 0 iff d strictly inside the circumcircle of ccw a,b,c
func incircle(a, b, c, d v2.Vec) *big.Rat {
	row := func(p v2.Vec) [3]*big.Rat {
		x := new(big.Rat).Sub(rat(p.X), rat(d.X))
		y := new(big.Rat).Sub(rat(p.Y), rat(d.Y))
		s := new(big.Rat).Add(new(big.Rat).Mul(x, x), new(big.Rat).Mul(y, y))
		return [3]*big.Rat{x, y, s}
	}
	m := [3][3]*big.Rat{row(a), row(b), row(c)}
	mul := func(x, y *big.Rat) *big.Rat { return new(big.Rat).Mul(x, y) }
	sub := func(x, y *big.Rat) *big.Rat { return new(big.Rat).Sub(x, y) }
	det := new(big.Rat)
	det.Add(det, mul(m[0][0], sub(mul(m[1][1], m[2][2]), mul(m[1][2], m[2][1]))))
	det.Sub(det, mul(m[0][1], sub(mul(m[1][0], m[2][2]), mul(m[1][2], m[2][0]))))
	det.Add(det, mul(m[0][2], sub(mul(m[1][0], m[2][1]), mul(m[1][1], m[2][0]))))
	return det
}

func f64(x *big.Rat) float64 { f, _ := x.Float64(); return f }

// robustGP: relative margins of all orientation (3-subsets) and incircle (4-subsets) predicates; n small.
func robustGP(vs v2.VecSet, tol float64) bool {
	n := len(vs)
	mn, mx := vs.Min(), vs.Max()
	L := math.Max(mx.X-mn.X, mx.Y-mn.Y)
	if L == 0 {
		return false
	}
	for i := 0; i < n; i++ {
		for j := i + 1; j < n; j++ {
			for k := j + 1; k < n; k++ {
				o := f64(orient(vs[i], vs[j], vs[k]))
				if math.Abs(o) < tol*L*L {
					return false
				}
				if n > 26 {
					continue
				}
				a, b, cc := vs[i], vs[j], vs[k]
				if o < 0 {
					b, cc = cc, b
				}
				for l := k + 1; l < n; l++ {
					if math.Abs(f64(incircle(a, b, cc, vs[l]))) < tol*L*L*L*L {
						return false
					}
				}
			}
		}
	}
	return true
}

func hullCount(vs v2.VecSet) int {
	idx := make([]int, len(vs))
	for i := range idx {
		idx[i] = i
	}
	sort.Slice(idx, func(a, b int) bool {
		if vs[idx[a]].X != vs[idx[b]].X {
			return vs[idx[a]].X < vs[idx[b]].X
		}
		return vs[idx[a]].Y < vs[idx[b]].Y
	})
	var h []int
	for pass := 0; pass < 2; pass++ {
		start := len(h)
		for _, i := range idx {
			for len(h) >= start+2 && orient(vs[h[len(h)-2]], vs[h[len(h)-1]], vs[i]).Sign() <= 0 {
				h = h[:len(h)-1]
			}
			h = append(h, i)
		}
		h = h[:len(h)-1]
		for l, rr := 0, len(idx)-1; l < rr; l, rr = l+1, rr-1 {
			idx[l], idx[rr] = idx[rr], idx[l]
		}
	}
	return len(h)
}

func ptsKey(vs v2.VecSet) string {
	var b strings.Builder
	for _, p := range vs {
		fmt.Fprintf(&b, "%x,%x;", p.X, p.Y)
	}
	return b.String()
}

func delaunayCase(r *Report, stratum string, in v2.VecSet) {
	n := len(in)
	// robustly general position, and no point closer than 1e-4 (relative) to a hull edge line:
	// thinner hull triangles are the listed known finding (finite super triangle)
	robust := n <= 45 && robustGP(in, 1e-7) && !nearHullEdge(in, 1e-4)
	if strings.HasPrefix(stratum, "corpus") {
		robust = n <= 45 && robustGP(in, 1e-7)
	}
	delaunayCore(r, stratum, in, robust, false)
}

// delaunayCore: robust = the set is inside the class where the exact answer is claimed (count and fast = slow
// are asserted); exact = the class was decided by the scale-aware exact test of nch.go, so that ANY input point
// strictly inside a circumcircle (exact integer in-circle test, no margin) is a failure.
func delaunayCore(r *Report, stratum string, in v2.VecSet, robust, exact bool) {
	n := len(in)
	key := "delaunay:" + ptsKey(in)
	r.Case("delaunay/"+stratum, key, robust)
	// Delaunay2d sorts its argument in place: give it a copy and keep that copy for indices
	vs := append(v2.VecSet{}, in...)
	ts, err := render.Delaunay2d(vs)
	input := map[string]interface{}{"points": ptsList(in)}
	if err != nil {
		r.Violate(key, "Delaunay2d returned an error on "+fmt.Sprint(n)+" distinct points: "+err.Error(), input)
		return
	}
	if r.Evaluations%53 == 0 {
		r.Sample(map[string]interface{}{"kind": "delaunay", "points": ptsList(in), "triangles": len(ts)})
	}
	if n >= 2 {
		if st, err := render.VerifSuperTriangle(vs); err == nil {
			did++
			var ps []string
			for _, p := range vs {
				ps = append(ps, fmt.Sprintf("(%s,%s)", CF(p.X), CF(p.Y)))
			}
			scases.Add(fmt.Sprintf("(%d%%N, %s, (%s,%s,%s,%s,%s,%s))", did, CList(ps), CF(st[0].X), CF(st[0].Y), CF(st[1].X), CF(st[1].Y), CF(st[2].X), CF(st[2].Y)))
		}
	}
	if n >= 2 && n <= 45 {
		// the whole Bowyer-Watson run against the Gallina model (vs is now x-sorted, as the algorithm saw it)
		did++
		var ps, tl []string
		for _, p := range vs {
			ps = append(ps, fmt.Sprintf("(%s,%s)", CF(p.X), CF(p.Y)))
		}
		for _, t := range ts {
			tl = append(tl, fmt.Sprintf("(%d,%d,%d)%%Z", t[0], t[1], t[2]))
		}
		dcases.Add(fmt.Sprintf("(%d%%N, %s, %s)", did, CList(ps), CList(tl)))
	}
	if n <= 14 {
		slowCase(vs)
	}
	mn, mx := vs.Min(), vs.Max()
	L := math.Max(mx.X-mn.X, mx.Y-mn.Y)
	if exact {
		tl := make([][3]int, len(ts))
		for i, t := range ts {
			tl[i] = [3]int(t)
			if t[0] < 0 || t[1] < 0 || t[2] < 0 || t[0] >= n || t[1] >= n || t[2] >= n {
				r.Violate(key, fmt.Sprintf("triangle %v has an index outside [0,%d)", t, n), input)
				return
			}
		}
		if bad, what := exactEmptyCircle(vs, tl); bad {
			r.Violate(key, what+fmt.Sprintf(" (%d triangles, 2n-2-h=%d)", len(ts), 2*n-2-hullCount(vs)), input)
			return
		}
	}
	// empty circumcircle, with a margin so that only well-defined failures count
	for _, t := range ts {
		a, b, cc := vs[t[0]], vs[t[1]], vs[t[2]]
		o := orient(a, b, cc)
		if o.Sign() == 0 {
			if robust {
				r.Violate(key, fmt.Sprintf("degenerate (collinear) triangle %v in the triangulation", t), input)
				return
			}
			continue
		}
		if o.Sign() < 0 {
			b, cc = cc, b
		}
		for i, p := range vs {
			if i == t[0] || i == t[1] || i == t[2] {
				continue
			}
			if d := f64(incircle(a, b, cc, p)); d > 1e-7*L*L*L*L {
				r.Violate(key, fmt.Sprintf("point %d lies strictly inside the circumcircle of triangle %v (exact incircle determinant %.3g, scale %.3g)", i, t, d, L), input)
				return
			}
		}
	}
	if !robust {
		return
	}
	h := hullCount(vs)
	if len(ts) != 2*n-2-h {
		r.Violate(key, fmt.Sprintf("%d triangles for n=%d, h=%d (2n-2-h=%d)", len(ts), n, h, 2*n-2-h), input)
		return
	}
	// fast = slow as sets (the slow reference is O(n^4)); both on the x-sorted copy so indices agree
	slow, err := render.Delaunay2dSlow(append(v2.VecSet{}, vs...))
	if err != nil {
		r.Violate(key, "Delaunay2dSlow error: "+err.Error(), input)
		return
	}
	if !cloneTris(ts).Equals(cloneTris(slow)) {
		r.Violate(key, fmt.Sprintf("fast (%d triangles) differs from the slow reference (%d triangles) on a robustly general-position set", len(ts), len(slow)), input)
	}
}

// slowCase: Delaunay2dSlow on these points (in this order) against the Gallina model
// Algo/DelaunaySlow.v, triangle for triangle in emission order (error <-> None).
func slowCase(vs v2.VecSet) {
	did++
	var ps, tl []string
	for _, p := range vs {
		ps = append(ps, fmt.Sprintf("(%s,%s)", CF(p.X), CF(p.Y)))
	}
	ts, err := render.Delaunay2dSlow(append(v2.VecSet{}, vs...))
	if err != nil {
		slcases.Add(fmt.Sprintf("(%d%%N, %s, None)", did, CList(ps)))
		return
	}
	for _, t := range ts {
		tl = append(tl, fmt.Sprintf("(%d,%d,%d)%%nat", t[0], t[1], t[2]))
	}
	slcases.Add(fmt.Sprintf("(%d%%N, %s, Some %s)", did, CList(ps), CList(tl)))
}

func ptsList(vs v2.VecSet) [][2]float64 {
	o := make([][2]float64, len(vs))
	for i, p := range vs {
		o[i] = [2]float64{p.X, p.Y}
	}
	return o
}

// nearHullEdge: some point lies within tol*L of the line through two consecutive hull vertices
// (other than those two).
func nearHullEdge(vs v2.VecSet, tol float64) bool {
	n := len(vs)
	mn, mx := vs.Min(), vs.Max()
	L := math.Max(mx.X-mn.X, mx.Y-mn.Y)
	for i := 0; i < n; i++ {
		for j := 0; j < n; j++ {
			if i == j {
				continue
			}
			// is (i,j) a hull edge: all other points strictly on the left or on the line
			hull := true
			for k := 0; k < n && hull; k++ {
				if k != i && k != j && orient(vs[i], vs[j], vs[k]).Sign() < 0 {
					hull = false
				}
			}
			if !hull {
				continue
			}
			el := math.Hypot(vs[j].X-vs[i].X, vs[j].Y-vs[i].Y)
			for k := 0; k < n; k++ {
				if k == i || k == j {
					continue
				}
				if d := f64(orient(vs[i], vs[j], vs[k])) / el; math.Abs(d) < tol*L {
					return true
				}
			}
		}
	}
	return false
}
