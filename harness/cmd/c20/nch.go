package main

// C20, stratum "hull-cluster": point sets with a cluster of 3..5 close, NEARLY collinear convex-hull
// vertices (spacing 1e-1 .. 1e-4 of the extent, collinearity defect 1e-3 .. 1e-12 of the extent,
// bumps outwards / inwards / alternating, on an axis-parallel or slanted side, optionally with far
// points nearly on the same line), pushed as close to the boundary of the claimed class as the
// exact-arithmetic class test allows (log-bisection on the defect).
//
// The class ("robustly general position" made scale-aware; everything is decided with exact integer
// arithmetic on the float coordinates, against the SPECIFIED super triangle 2*4096 x extent, not the
// implementation's):
//   (G) no exactly collinear triple, no exactly cocircular quadruple (P and P + super vertices);
//   (S) no super-triangle vertex in or near the circumcircle of an exact Delaunay triangle of P:
//       (d2 - r2)/r2 >= 1 for the three super vertices (this is the listed known finding
//       "finite super triangle": thin hull triangles with circumradius beyond ~0.7 x the super
//       triangle's distance are outside the class);
//   (N) every in-circle decision the incremental algorithm can meet has a relative margin well above
//       double rounding: for every triangle T of P + super vertices (at least one vertex in P) and every
//       other point p of P: |d2 - r2| >= 1e-14 * max(r2, d2) * (1 + 2*dist(p,T)/shortest edge of T)
//       and |d2 - r2| >= 1e-9 (the code's absolute epsilon is 1e-12).
// Calibration (unchanged tree, 15 000 squeezed sets, 6 seeds, 5 000 of them with (N) loosened to 1e-15 / 1e-16
// and (S) to 0.2 / 0.05): no failure of any oracle inside the class; on 1 500 unsqueezed sets the unchanged code
// failed only where (S) < 0 (a super vertex strictly inside an exact Delaunay circumcircle).
//
// Oracles inside the class: exact empty-circumcircle (any input point strictly inside, no margin needed),
// 2n-2-h, fast = slow as sets; plus the Gallina model run on the same input (cases_delaunay).

import (
	"fmt"
	"math"
	"math/big"
	"sort"

	v2 "github.com/deadsy/sdfx/vec/v2"
	. "verifharness/kit"
)

// ---- exact integer arithmetic on float coordinates

type ipt struct{ x, y *big.Int }

// toInts scales all coordinates by one power of two (2^-e) so that they become integers: exact.
func toInts(vs []v2.Vec) (pts []ipt, e int) {
	first := true
	for _, p := range vs {
		for _, c := range [2]float64{p.X, p.Y} {
			if c == 0 {
				continue
			}
			_, ex := math.Frexp(c) // c = fr * 2^ex, 53-bit fr
			if first || ex-53 < e {
				e, first = ex-53, false
			}
		}
	}
	cv := func(c float64) *big.Int {
		if c == 0 {
			return new(big.Int)
		}
		fr, ex := math.Frexp(c)
		z := big.NewInt(int64(math.Ldexp(fr, 53))) // exact
		return z.Lsh(z, uint(ex-53-e))
	}
	pts = make([]ipt, len(vs))
	for i, p := range vs {
		pts[i] = ipt{cv(p.X), cv(p.Y)}
	}
	return pts, e
}

// iorient > 0 for counter-clockwise a,b,c
func iorient(a, b, c ipt) *big.Int {
	abx := new(big.Int).Sub(b.x, a.x)
	aby := new(big.Int).Sub(b.y, a.y)
	acx := new(big.Int).Sub(c.x, a.x)
	acy := new(big.Int).Sub(c.y, a.y)
	abx.Mul(abx, acy)
	aby.Mul(aby, acx)
	return abx.Sub(abx, aby)
}

func idet3(m [3][3]*big.Int) *big.Int {
	mul := func(x, y *big.Int) *big.Int { return new(big.Int).Mul(x, y) }
	sub := func(x, y *big.Int) *big.Int { return new(big.Int).Sub(x, y) }
	det := new(big.Int)
	det.Add(det, mul(m[0][0], sub(mul(m[1][1], m[2][2]), mul(m[1][2], m[2][1]))))
	det.Sub(det, mul(m[0][1], sub(mul(m[1][0], m[2][2]), mul(m[1][2], m[2][0]))))
	det.Add(det, mul(m[0][2], sub(mul(m[1][0], m[2][1]), mul(m[1][1], m[2][0]))))
	return det
}

// triMinors: the four 3x3 minors of the lifted 4x4 in-circle determinant that depend on the triangle only:
// incircle(a,b,c,d) = -dx*M[0] + dy*M[1] - wd*M[2] + M[3]  (w = x^2+y^2; M[2] = orient(a,b,c));
// > 0 iff d lies strictly inside the circumcircle of the counter-clockwise triangle a,b,c.
type triMinors [4]*big.Int

func ilift(p ipt) *big.Int {
	w := new(big.Int).Mul(p.x, p.x)
	return w.Add(w, new(big.Int).Mul(p.y, p.y))
}

func minors(a, b, c ipt, wa, wb, wc *big.Int) triMinors {
	one := big.NewInt(1)
	return triMinors{
		idet3([3][3]*big.Int{{a.y, wa, one}, {b.y, wb, one}, {c.y, wc, one}}),
		idet3([3][3]*big.Int{{a.x, wa, one}, {b.x, wb, one}, {c.x, wc, one}}),
		idet3([3][3]*big.Int{{a.x, a.y, one}, {b.x, b.y, one}, {c.x, c.y, one}}),
		idet3([3][3]*big.Int{{a.x, a.y, wa}, {b.x, b.y, wb}, {c.x, c.y, wc}}),
	}
}

func (m triMinors) incircle(d ipt, wd *big.Int) *big.Int {
	z := new(big.Int).Mul(d.y, m[1])
	z.Sub(z, new(big.Int).Mul(d.x, m[0]))
	z.Sub(z, new(big.Int).Mul(wd, m[2]))
	return z.Add(z, m[3])
}

// ifloat: z * 2^sh as a float64 (rounded; only used for margins, never for a sign)
func ifloat(z *big.Int, sh int) float64 {
	m, _ := new(big.Float).SetInt(z).Float64()
	return math.Ldexp(m, sh)
}

// ---- the specified super triangle (render/delaunay.go: 4096 * 2 * larger extent around the box centre)

func specSuper(vs v2.VecSet) [3]v2.Vec {
	mn, mx := vs.Min(), vs.Max()
	cx, cy := (mn.X+mx.X)/2, (mn.Y+mx.Y)/2
	k := math.Max(mx.X-mn.X, mx.Y-mn.Y) * 2 * 4096
	return [3]v2.Vec{{X: cx - k, Y: cy - k}, {X: cx, Y: cy + k}, {X: cx + k, Y: cy - k}}
}

// ---- class measures

const (
	nchTolSuper = 1.0   // (S)
	nchTolNoise = 1e-14 // (N), relative
	nchTolAbs   = 1e-9  // (N), absolute
)

type nchMeasure struct {
	exactGP  bool     // (G)
	noiseMin float64  // (N): min |d2-r2| / (max(r2,d2) * (1 + cond))
	absMin   float64  // (N): min |d2-r2|
	superMin float64  // (S): min over exact Delaunay triangles of P and super vertices of (d2-r2)/r2
	dt       [][3]int // exact Delaunay triangles of P (counter-clockwise)
	hull     int      // exact number of hull vertices
	ip       []ipt    // integer coordinates of P (then the super vertices)
}

func (m *nchMeasure) inClass() bool {
	return m.exactGP && m.superMin >= nchTolSuper && m.noiseMin >= nchTolNoise && m.absMin >= nchTolAbs
}

// nchMeasureOf: all triples x all points, exact.  O((n+3)^3 n) big.Int operations: n <= ~25.
func nchMeasureOf(vs v2.VecSet) *nchMeasure {
	n := len(vs)
	sp := specSuper(vs)
	all := append(append([]v2.Vec{}, vs...), sp[:]...)
	ip, e := toInts(all)
	N := n + 3
	w := make([]*big.Int, N)
	for i := range w {
		w[i] = ilift(ip[i])
	}
	m := &nchMeasure{exactGP: true, noiseMin: math.Inf(1), absMin: math.Inf(1), superMin: math.Inf(1), ip: ip}
	dd := make([][]float64, N)
	for i := range dd {
		dd[i] = make([]float64, N)
		for j := range dd[i] {
			dd[i][j] = math.Hypot(all[i].X-all[j].X, all[i].Y-all[j].Y)
		}
	}
	for i := 0; i < n; i++ {
		for j := i + 1; j < N; j++ {
			for k := j + 1; k < N; k++ {
				a, b, c := i, j, k
				o := iorient(ip[a], ip[b], ip[c])
				if o.Sign() == 0 {
					m.exactGP = false
					continue
				}
				if o.Sign() < 0 {
					b, c = c, b
				}
				mn := minors(ip[a], ip[b], ip[c], w[a], w[b], w[c])
				of := math.Abs(ifloat(o, 2*e))
				l1, l2, l3 := dd[a][b], dd[b][c], dd[c][a]
				lmin := math.Min(l1, math.Min(l2, l3))
				r2 := (l1 * l2 * l3) * (l1 * l2 * l3) / (4 * of * of)
				onlyP := k < n
				empty := onlyP
				var sup [3]float64
				for l := 0; l < N; l++ {
					if l == i || l == j || l == k || (!onlyP && l >= n) {
						continue
					}
					det := mn.incircle(ip[l], w[l])
					if det.Sign() == 0 {
						m.exactGP = false
						if l < n {
							empty = false
						}
						continue
					}
					q := -ifloat(det, 4*e) / of // d2 - r2
					if l >= n {
						sup[l-n] = q / r2
						continue
					}
					if q < 0 {
						empty = false
					}
					dmin := math.Min(dd[l][a], math.Min(dd[l][b], dd[l][c]))
					m.noiseMin = math.Min(m.noiseMin, math.Abs(q)/(math.Max(r2, r2+q)*(1+2*dmin/lmin)))
					m.absMin = math.Min(m.absMin, math.Abs(q))
				}
				if empty {
					m.dt = append(m.dt, [3]int{a, b, c})
					for _, s := range sup {
						m.superMin = math.Min(m.superMin, s)
					}
				}
			}
		}
	}
	m.hull = ihullCount(ip[:n], vs)
	return m
}

func ihullCount(ip []ipt, vs v2.VecSet) int {
	idx := make([]int, len(vs))
	for i := range idx {
		idx[i] = i
	}
	sort.Slice(idx, func(a, b int) bool {
		if vs[idx[a]].X != vs[idx[b]].X {
			return vs[idx[a]].X < vs[idx[b]].X
		}
		return vs[idx[a]].Y < vs[idx[b]].Y
	})
	var h []int
	for pass := 0; pass < 2; pass++ {
		start := len(h)
		for _, i := range idx {
			for len(h) >= start+2 && iorient(ip[h[len(h)-2]], ip[h[len(h)-1]], ip[i]).Sign() <= 0 {
				h = h[:len(h)-1]
			}
			h = append(h, i)
		}
		h = h[:len(h)-1]
		for l, rr := 0, len(idx)-1; l < rr; l, rr = l+1, rr-1 {
			idx[l], idx[rr] = idx[rr], idx[l]
		}
	}
	return len(h)
}

// ---- generator

type nchParams struct {
	seed      uint64  // everything but eps is drawn from this
	sRel, eps float64 // vertex spacing / extent, collinearity defect / extent
	sign      int     // +1 bumps outwards (all cluster points are hull vertices), -1 inwards, 0 alternating
	m         int     // cluster size 3..5
	rot       int     // 0..3: side parallel to an axis (bottom, right, top, left); 4: slanted
	nInt      int     // other points
	ends      bool    // two far points nearly on the same line (a long nearly straight hull side)
	gap       float64 // clearance of the other points from the side, / extent
	scale     float64
}

func (p nchParams) stratum() string {
	s := "hull-cluster/" + map[int]string{1: "out", -1: "in", 0: "zigzag"}[p.sign]
	if p.ends {
		s += "/long-side"
	}
	if p.rot < 4 {
		s += "/axis"
	}
	return s
}

func genNCH(p nchParams) v2.VecSet {
	r := NewRng(p.seed)
	const L = 10.0
	var loc []v2.Vec
	g := p.gap * L
	for i := 0; i < p.nInt; i++ {
		loc = append(loc, v2.Vec{X: r.Uniform(-5, 5), Y: -5 + g + r.Float()*(10-g)})
	}
	s, d := p.sRel*L, p.eps*L
	x := r.Uniform(-2, 2)
	for i := 0; i < p.m; i++ {
		y := -5.0
		if i > 0 && i < p.m-1 {
			h := d * (0.5 + 0.5*r.Float())
			switch {
			case p.sign > 0, p.sign == 0 && i%2 == 0:
				y -= h
			default:
				y += h
			}
		}
		loc = append(loc, v2.Vec{X: x, Y: y})
		x += s * (0.5 + r.Float())
	}
	if p.ends {
		loc = append(loc, v2.Vec{X: -4.5 - 0.5*r.Float(), Y: -5 + d*r.Uniform(-2, 2)}, v2.Vec{X: 4.5 + 0.5*r.Float(), Y: -5 + d*r.Uniform(-2, 2)})
	}
	sn, cs := math.Sincos(r.Uniform(0, 2*math.Pi))
	out := make(v2.VecSet, len(loc))
	for i, q := range loc {
		switch p.rot {
		case 0:
			out[i] = q
		case 1:
			out[i] = v2.Vec{X: -q.Y, Y: q.X}
		case 2:
			out[i] = v2.Vec{X: -q.X, Y: -q.Y}
		case 3:
			out[i] = v2.Vec{X: q.Y, Y: -q.X}
		default:
			out[i] = v2.Vec{X: q.X*cs - q.Y*sn, Y: q.X*sn + q.Y*cs}
		}
		out[i].X *= p.scale
		out[i].Y *= p.scale
	}
	for i, j := range r.Perm(len(out)) {
		out[i], out[j] = out[j], out[i]
	}
	return out
}

func logUniform(r *Rng, lo, hi float64) float64 {
	return math.Exp(r.Uniform(math.Log(lo), math.Log(hi)))
}

// nchSqueeze: the smallest defect (down to 1e-12 of the extent, log-bisection to ~1/4 decade) that keeps the
// configuration inside the class; grows the defect first if the drawn one is outside.
func nchSqueeze(p nchParams) (nchParams, *nchMeasure) {
	ms := nchMeasureOf(genNCH(p))
	for !ms.inClass() && p.eps < 1e-3 {
		p.eps *= 10
		ms = nchMeasureOf(genNCH(p))
	}
	if !ms.inClass() {
		return p, ms
	}
	q := p
	q.eps = 1e-12
	if mlo := nchMeasureOf(genNCH(q)); mlo.inClass() {
		return q, mlo
	}
	lo, hi, mhi := q.eps, p.eps, ms
	for it := 0; it < 5 && hi/lo > 1.8; it++ {
		q.eps = math.Sqrt(lo * hi)
		if mm := nchMeasureOf(genNCH(q)); mm.inClass() {
			hi, mhi = q.eps, mm
		} else {
			lo = q.eps
		}
	}
	q.eps = hi
	return q, mhi
}

// nchStratum runs the stratum: nsq squeezed configurations and npl configurations at the drawn defect.
func nchStratum(r *Report, rng *Rng, nsq, npl int) {
	for k := 0; k < nsq+npl; k++ {
		p := nchParams{seed: rng.U64(), sRel: logUniform(rng, 1e-4, 1e-1), eps: logUniform(rng, 1e-12, 1e-3),
			sign: rng.Intn(3) - 1, m: rng.Range(3, 5), rot: rng.Intn(6), nInt: rng.Range(4, 13),
			ends: rng.Intn(4) == 0, gap: logUniform(rng, 1e-3, 1e-1), scale: 1}
		if p.rot > 4 {
			p.rot = 4
		}
		if rng.Intn(4) == 0 {
			p.scale = []float64{0.125, 8, 1.0 / 3}[rng.Intn(3)]
		}
		var ms *nchMeasure
		st := p.stratum()
		if k < nsq {
			p, ms = nchSqueeze(p)
			st += "/squeezed"
		} else {
			ms = nchMeasureOf(genNCH(p))
		}
		vs := genNCH(p)
		if ms.inClass() {
			delaunayCore(r, st, vs, true, true)
		} else {
			delaunayCore(r, st+"/outside-class", vs, false, false)
		}
	}
}

// exactEmptyCircle: first (triangle, point) with the point strictly inside the circumcircle, exact; also
// reports degenerate triangles.  vs is the x-sorted vertex list the triangle indices refer to.
func exactEmptyCircle(vs v2.VecSet, ts [][3]int) (bad bool, what string) {
	ip, e := toInts(vs)
	w := make([]*big.Int, len(ip))
	for i := range w {
		w[i] = ilift(ip[i])
	}
	for _, t := range ts {
		a, b, c := t[0], t[1], t[2]
		o := iorient(ip[a], ip[b], ip[c])
		if o.Sign() == 0 {
			return true, fmt.Sprintf("degenerate (collinear) triangle %v in the triangulation", t)
		}
		if o.Sign() < 0 {
			b, c = c, b
		}
		mn := minors(ip[a], ip[b], ip[c], w[a], w[b], w[c])
		for i := range vs {
			if i == a || i == b || i == c {
				continue
			}
			if det := mn.incircle(ip[i], w[i]); det.Sign() > 0 {
				l1 := math.Hypot(vs[a].X-vs[b].X, vs[a].Y-vs[b].Y)
				l2 := math.Hypot(vs[b].X-vs[c].X, vs[b].Y-vs[c].Y)
				l3 := math.Hypot(vs[c].X-vs[a].X, vs[c].Y-vs[a].Y)
				of := math.Abs(ifloat(o, 2*e))
				r2 := (l1 * l2 * l3) * (l1 * l2 * l3) / (4 * of * of)
				return true, fmt.Sprintf("point %d lies strictly inside the circumcircle of triangle %v (exact in-circle test; r2-d2 = %.3g, r2 = %.3g)", i, t, ifloat(det, 4*e)/of, r2)
			}
		}
	}
	return false, ""
}
