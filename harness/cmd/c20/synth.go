package main

// C20, synthetic index-triple sets (round str4).
//
// The triangle sets of the other strata use a handful of small vertex ids.  TriangleI is [3]int, and the
// canonical-form equality is claimed (and proved on the model, over Z) for ALL index triples: an order that
// is only correct for small indices - a packed sort key t0<<2w | t1<<w | t2, a key t0*N*N + t1*N + t2, a
// comparison through float64 / int32 / uint64 / a difference that overflows / a decimal string - ties or
// mis-orders distinct triples, the sort leaves them in input order and Equals becomes order dependent.
// This file generates sets that do NOT come from a triangulation:
//
//   - index pools over the whole int range: 0, small, 10^k+-1, 2^k+-1 for k = 15..62, MaxInt, and negative
//     values down to MinInt (own stratum), pools {x, x+N, x+2N} for N = 2^w (w = 1..62) or 10^k, pools of
//     adjacent values at a large base (2^53.., 2^62.., MaxInt-8..);
//   - many equal first / second components ("fans" (lo, s, x_i)) and engineered carry pairs
//     (a, b, c+N) / (a, b+1, c) and (a, b+N, c) / (a+1, b, c), which collide under every key that gives a
//     component fewer than log2(N) bits (or N values);
//   - sizes 1, 2, 3 with EVERY reordering and EVERY rotation (3, 18, 162 copies), 4..40 (around the
//     insertion-sort limit of sort.Sort) and 1000 with random and structured reorderings (reversal, cyclic
//     shifts, ascending, descending: pattern-detecting sorts treat ties differently per pattern);
//   - copies with one triple changed: winding reversed (each of the three swaps), one index moved by
//     +-1, +-2^16, +-2^21, +-2^31, +-2^32, +-2^42, +-2^53, +-2^62, +-10^6, compensating changes in two triples
//     (a sum key stays the same), components exchanged between two triples (an xor / sum key stays the
//     same), one triple replaced by a duplicate of another; the changed triple is the first / last / a random
//     one of the sorted form.
//
// Oracles on the implementation (failing inputs): Equals(a, b) = (multiset of least-first rotations of a =
// that of b), decided with a map and no order at all; the canonical forms of two reordered / rotated copies
// are identical; Canonical() = least-first rotations sorted by (t0, t1, t2) with an independent comparator;
// TriangleIByIndex.Less is irreflexive, asymmetric, total on distinct triples and transitive on probe lists
// (a failure is confirmed by Equals on the two or three triples involved and reported with that input).
// Tie with the model: every Equals result and canonical form (cases_canonsyn_*.v, cases_canonbig_*.v:
// Canon.mismatches) and every sampled Less value (cases_less_*.v: Canon.lmismatches, Less = Canon.less).

import (
	"fmt"
	"hash/fnv"
	"math"
	"sort"
	"strings"

	"github.com/deadsy/sdfx/render"
	. "verifharness/kit"
)

type tri = render.TriangleI

// ---- independent reference (no use of the implementation's order)

func triDistinct(t tri) bool { return t[0] != t[1] && t[1] != t[2] && t[0] != t[2] }

// refCanon: the rotation with the least index first (t must have three different indices).
func refCanon(t tri) tri {
	switch {
	case t[0] < t[1] && t[0] < t[2]:
		return t
	case t[1] < t[0] && t[1] < t[2]:
		return tri{t[1], t[2], t[0]}
	}
	return tri{t[2], t[0], t[1]}
}

func refLess(s, t tri) bool {
	for k := 0; k < 3; k++ {
		if s[k] != t[k] {
			return s[k] < t[k]
		}
	}
	return false
}

// refSameSet: equal as multisets of least-first rotations; a map, no order involved.
func refSameSet(a, b []tri) bool {
	if len(a) != len(b) {
		return false
	}
	m := make(map[tri]int, len(a))
	for _, t := range a {
		m[refCanon(t)]++
	}
	for _, t := range b {
		c := refCanon(t)
		if m[c] == 0 {
			return false
		}
		m[c]--
	}
	return true
}

func refCanonicalSet(a []tri) []tri {
	o := make([]tri, len(a))
	for i, t := range a {
		o[i] = refCanon(t)
	}
	sort.SliceStable(o, func(i, j int) bool { return refLess(o[i], o[j]) })
	return o
}

func sameList(a, b []tri) bool {
	if len(a) != len(b) {
		return false
	}
	for i := range a {
		if a[i] != b[i] {
			return false
		}
	}
	return true
}

// ---- index values

var pow2s, pow10s []int

func init() {
	for w := uint(1); w <= 62; w++ {
		pow2s = append(pow2s, 1<<w)
	}
	for p := 10; p > 0 && p <= 1000000000000000000; p *= 10 {
		pow10s = append(pow10s, p)
	}
}

func boundaryValues(negative bool) []int {
	vs := []int{0, 1, 2, 3, 5, 7, 9, 10, 11, 99, 100, 101, 255, 256, 257, 999, 1000, 1001}
	for _, k := range []uint{15, 16, 17, 20, 21, 22, 24, 30, 31, 32, 33, 40, 41, 42, 43, 48, 52, 53, 54, 61, 62} {
		p := 1 << k
		vs = append(vs, p-1, p, p+1)
	}
	for _, p := range pow10s[3:] {
		vs = append(vs, p-1, p, p+1)
	}
	vs = append(vs, math.MaxInt, math.MaxInt-1, math.MaxInt-2)
	if negative {
		vs = append(vs, -1, -2, -3, -(1 << 16), -(1 << 21), -(1<<21)-1, -(1 << 31), -(1<<31)-1, -(1 << 32), -(1 << 42), -(1<<53)-1, -(1 << 62),
			math.MinInt, math.MinInt+1, math.MinInt+2)
	}
	return vs
}

func randN(rng *Rng) int {
	if rng.Intn(4) == 0 {
		return pow10s[rng.Intn(len(pow10s))]
	}
	// the field widths people pick, and every other one
	if rng.Intn(3) == 0 {
		return 1 << []uint{8, 10, 16, 20, 21, 24, 31, 32, 42, 53}[rng.Intn(10)]
	}
	return pow2s[rng.Intn(len(pow2s))]
}

func dedup(vs []int) []int {
	seen := map[int]bool{}
	var o []int
	for _, v := range vs {
		if !seen[v] {
			seen[v] = true
			o = append(o, v)
		}
	}
	return o
}

// pool: (kind, values); kind names the stratum
func randPool(rng *Rng, k int) (string, []int) {
	switch k % 6 {
	case 0: // whole non-negative range
		b := boundaryValues(false)
		m := rng.Range(3, 8)
		var vs []int
		for i := 0; i < m; i++ {
			vs = append(vs, b[rng.Intn(len(b))])
		}
		vs = append(vs, rng.Intn(4))
		return "spread", dedup(vs)
	case 1: // with negative indices
		b := boundaryValues(true)
		m := rng.Range(3, 8)
		vs := []int{-1 - rng.Intn(3), b[len(b)-1-rng.Intn(15)]}
		for i := 0; i < m; i++ {
			vs = append(vs, b[rng.Intn(len(b))])
		}
		return "negative", dedup(vs)
	case 2, 3: // x, x+N, x+2N
		n := randN(rng)
		var vs []int
		for i, m := 0, rng.Range(2, 4); i < m; i++ {
			x := rng.Intn(8)
			vs = append(vs, x, x+n)
			if n <= 1<<61 && rng.Bool() {
				vs = append(vs, x+2*n)
			}
			if n > 4 && rng.Bool() {
				vs = append(vs, n-1-rng.Intn(2))
			}
		}
		return "shifted", dedup(vs)
	case 4: // adjacent values at a large base
		bases := []int{1 << 21, 1 << 31, 1 << 32, 1 << 42, 1 << 53, 1 << 62, math.MaxInt - 8, 1<<53 - 4, 1<<24 - 2, 1000000 - 3}
		base := bases[rng.Intn(len(bases))]
		var vs []int
		for i, m := 0, rng.Range(3, 8); i < m; i++ {
			vs = append(vs, base+i)
		}
		if rng.Bool() {
			vs = append(vs, rng.Intn(3))
		}
		return "adjacent-large", dedup(vs)
	}
	// small dense ids next to one or two far ones
	var vs []int
	for i, m := 0, rng.Range(3, 6); i < m; i++ {
		vs = append(vs, i)
	}
	b := boundaryValues(false)
	vs = append(vs, b[rng.Intn(len(b))], b[rng.Intn(len(b))])
	return "dense+far", dedup(vs)
}

func randDistinctTri(rng *Rng, pool []int) tri {
	p := rng.Perm(len(pool))
	return tri{pool[p[0]], pool[p[1]], pool[p[2]]}
}

// carryPair: two triples (already least-first) that collide under a key with fewer than N values per component
func carryPair(rng *Rng, n int) []tri {
	a := rng.Intn(4)
	b := a + 1 + rng.Intn(4)
	c := a + 1 + rng.Intn(6)
	var s, t tri
	if rng.Bool() {
		s, t = tri{a, b, c + n}, tri{a, b + 1, c}
	} else {
		s, t = tri{a, b + n, c}, tri{a + 1, b, c}
	}
	if n > math.MaxInt-16 || !triDistinct(s) || !triDistinct(t) || refCanon(s) != s || refCanon(t) != t || s == t {
		return nil
	}
	return []tri{s, t}
}

// synthSet: sz triples with three different indices each, in random rotation
func synthSet(rng *Rng, k, sz int) (string, []tri) {
	kind, pool := randPool(rng, k)
	for len(pool) < 3 {
		pool = dedup(append(pool, rng.Intn(16)))
	}
	var ts []tri
	mn := pool[0]
	for _, v := range pool {
		if v < mn {
			mn = v
		}
	}
	var others []int
	for _, v := range pool {
		if v != mn {
			others = append(others, v)
		}
	}
	fan := rng.Intn(2) == 0
	s1, s2 := others[rng.Intn(len(others))], others[rng.Intn(len(others))]
	for len(ts) < sz {
		switch {
		case !strings.HasPrefix(kind, "negative") && rng.Intn(4) == 0 && len(ts)+2 <= sz:
			ts = append(ts, carryPair(rng, randN(rng))...)
		case fan:
			s := s1
			if rng.Intn(3) == 0 {
				s = s2
			}
			x := others[rng.Intn(len(others))]
			if x == s {
				continue
			}
			if rng.Bool() {
				ts = append(ts, tri{mn, s, x})
			} else {
				ts = append(ts, tri{mn, x, s})
			}
		case rng.Intn(12) == 0 && len(ts) > 0:
			ts = append(ts, ts[rng.Intn(len(ts))]) // a duplicate: sets are multisets
		default:
			ts = append(ts, randDistinctTri(rng, pool))
		}
	}
	for i := range ts {
		ts[i] = rotTri(ts[i], rng.Intn(3))
	}
	rng2 := rng.Perm(len(ts))
	o := make([]tri, len(ts))
	for i, j := range rng2 {
		o[i] = ts[j]
	}
	return kind, o
}

// bigSet: ~sz triples: long fans over small and large third components, carry pairs for every N, spread triples
func bigSet(rng *Rng, sz int) []tri {
	var ts []tri
	b := boundaryValues(false)
	for len(ts) < sz/3 {
		lo := rng.Intn(3)
		s := lo + 1 + rng.Intn(3)
		x := b[rng.Intn(len(b))] + rng.Intn(3)
		if x < 0 {
			x = rng.Intn(1000)
		}
		t := tri{lo, s, x}
		if rng.Bool() {
			t = tri{lo, x, s}
		}
		if triDistinct(t) && refCanon(t) == t {
			ts = append(ts, t)
		}
	}
	for len(ts) < 2*sz/3 {
		ts = append(ts, carryPair(rng, randN(rng))...)
	}
	for len(ts) < sz {
		i, j, k := b[rng.Intn(len(b))], b[rng.Intn(len(b))], rng.Intn(2000)
		if t := (tri{i, j, k}); triDistinct(t) {
			ts = append(ts, t)
		}
	}
	o := make([]tri, len(ts))
	for i, j := range rng.Perm(len(ts)) {
		o[i] = rotTri(ts[j], rng.Intn(3))
	}
	return o
}

// ---- reorderings

func permuted(a []tri, p []int, rot func(i int) int) []tri {
	o := make([]tri, len(a))
	for i, j := range p {
		o[i] = rotTri(a[j], rot(i))
	}
	return o
}

func allPerms(n int) [][]int {
	if n == 0 {
		return [][]int{{}}
	}
	var out [][]int
	for _, p := range allPerms(n - 1) {
		for pos := 0; pos <= len(p); pos++ {
			q := append(append(append([]int{}, p[:pos]...), n-1), p[pos:]...)
			out = append(out, q)
		}
	}
	return out
}

// structuredCopies: reversal, cyclic shifts, ascending / descending in the reference order, all-rot1, all-rot2
func structuredCopies(rng *Rng, a []tri) (names []string, out [][]tri) {
	n := len(a)
	id := make([]int, n)
	for i := range id {
		id[i] = i
	}
	rr := func(int) int { return rng.Intn(3) }
	rev := make([]int, n)
	for i := range rev {
		rev[i] = n - 1 - i
	}
	names, out = append(names, "reversed"), append(out, permuted(a, rev, rr))
	sh := func(k int) []int {
		p := make([]int, n)
		for i := range p {
			p[i] = (i + k) % n
		}
		return p
	}
	names, out = append(names, "shift1"), append(out, permuted(a, sh(1), rr))
	names, out = append(names, "shift-half"), append(out, permuted(a, sh(n/2), rr))
	asc := append([]int{}, id...)
	sort.SliceStable(asc, func(i, j int) bool { return refLess(refCanon(a[asc[i]]), refCanon(a[asc[j]])) })
	names, out = append(names, "ascending"), append(out, permuted(a, asc, rr))
	desc := make([]int, n)
	for i := range desc {
		desc[i] = asc[n-1-i]
	}
	names, out = append(names, "descending"), append(out, permuted(a, desc, rr))
	names, out = append(names, "all-rot1"), append(out, permuted(a, id, func(int) int { return 1 }))
	names, out = append(names, "all-rot2"), append(out, permuted(a, id, func(int) int { return 2 }))
	return
}

// ---- changed copies

var deltas = []int{1, 2, 1 << 16, 1 << 21, 1 << 31, 1 << 32, 1 << 42, 1 << 53, 1 << 62, 1000000}

func addOK(v, d int) (int, bool) {
	s := v + d
	if (d > 0 && s < v) || (d < 0 && s > v) {
		return 0, false
	}
	return s, true
}

// sortedPos: index in b of the triple that comes first / last in the reference order, or a random one
func sortedPos(rng *Rng, b []tri, how int) int {
	best := 0
	switch how % 3 {
	case 0:
		for i := range b {
			if refLess(refCanon(b[i]), refCanon(b[best])) {
				best = i
			}
		}
	case 1:
		for i := range b {
			if refLess(refCanon(b[best]), refCanon(b[i])) {
				best = i
			}
		}
	default:
		best = rng.Intn(len(b))
	}
	return best
}

// changedCopy mutates b (a reordered copy) in one of the listed ways; ok = every triple still has three different indices
func changedCopy(rng *Rng, b []tri, m int) (string, bool) {
	n := len(b)
	i := sortedPos(rng, b, rng.Intn(3))
	switch m % 6 {
	case 0:
		sw := [][2]int{{1, 2}, {0, 1}, {0, 2}}[rng.Intn(3)]
		b[i][sw[0]], b[i][sw[1]] = b[i][sw[1]], b[i][sw[0]]
		return "winding-reversed", true
	case 1, 2:
		d := deltas[rng.Intn(len(deltas))]
		if m%6 == 2 {
			d = randN(rng)
		}
		k := rng.Intn(3)
		v, ok := addOK(b[i][k], d)
		if !ok || rng.Bool() {
			if w, ok2 := addOK(b[i][k], -d); ok2 {
				v, ok = w, true
			}
		}
		if !ok {
			return "", false
		}
		b[i][k] = v
		return "one-index-moved", triDistinct(b[i])
	case 3:
		if n < 2 {
			return "", false
		}
		j := (i + 1 + rng.Intn(n-1)) % n
		d := deltas[rng.Intn(len(deltas))]
		k := rng.Intn(3)
		v, ok1 := addOK(b[i][k], d)
		w, ok2 := addOK(b[j][k], -d)
		if !ok1 || !ok2 {
			return "", false
		}
		b[i][k], b[j][k] = v, w
		return "compensating-moves", triDistinct(b[i]) && triDistinct(b[j])
	case 4:
		if n < 2 {
			return "", false
		}
		j := (i + 1 + rng.Intn(n-1)) % n
		k := rng.Intn(3)
		// exchange the k-th component of the least-first forms
		ci, cj := refCanon(b[i]), refCanon(b[j])
		ci[k], cj[k] = cj[k], ci[k]
		b[i], b[j] = ci, cj
		return "components-exchanged", triDistinct(b[i]) && triDistinct(b[j])
	}
	if n < 2 {
		return "", false
	}
	j := (i + 1 + rng.Intn(n-1)) % n
	b[i] = rotTri(b[j], rng.Intn(3))
	return "duplicate-for-one", true
}

// safeEquals / safeCanonical: a panic of the implementation is a failing input, not a crash of the harness
func safeEquals(a, b []tri) (res bool, panicked interface{}) {
	defer func() { panicked = recover() }()
	return cloneTris(a).Equals(cloneTris(b)), nil
}

func safeCanonical(a []tri) (can []tri, panicked interface{}) {
	defer func() { panicked = recover() }()
	return cloneTris(a).Canonical(), nil
}

// ---- the stratum

func synthStratum(c *Ctx, r *Report) error {
	rng := NewRng(c.Seed ^ 0x5C20D15C)
	imp := "From Sdfx Require Import Algo.Canon.\nOpen Scope Z_scope."
	syn := &Cases{Kind: "canonsyn", Imports: imp, Type: "Canon.case", Fn: "Canon.mismatches", PerShard: 120}
	big := &Cases{Kind: "canonbig", Imports: imp, Type: "Canon.case", Fn: "Canon.mismatches", PerShard: 1}
	lcs := &Cases{Kind: "less", Imports: imp, Type: "Canon.lcase", Fn: "Canon.lmismatches", PerShard: 1000}
	id := 1000000

	// failing inputs are collected and handed to the report at the end, the most telling first: the equality
	// test itself before the order behind it, non-negative indices before negative ones, small sets before large
	type found struct {
		prio, neg, size int
		key, what       string
		input           interface{}
	}
	var founds []found
	seenKey := map[string]bool{}
	viol := func(prio int, key, what string, input interface{}, sets ...[]tri) {
		if seenKey[key] || len(founds) > 4000 {
			return
		}
		seenKey[key] = true
		f := found{prio: prio, key: key, what: what, input: input}
		for _, ts := range sets {
			f.size += len(ts)
			for _, t := range ts {
				if t[0] < 0 || t[1] < 0 || t[2] < 0 {
					f.neg = 1
				}
			}
		}
		founds = append(founds, f)
	}
	short := func(ts []tri) interface{} {
		if len(ts) <= 24 {
			return ts
		}
		return map[string]interface{}{"len": len(ts), "first": ts[:12], "last": ts[len(ts)-12:]}
	}
	// pairCase: one Equals evaluation with every oracle; a, b hold triples with three different indices
	pairCase := func(cs *Cases, stratum string, a, b []tri) {
		id++
		want := refSameSet(a, b)
		res, p1 := safeEquals(a, b)
		can, p2 := safeCanonical(a)
		if p1 != nil || p2 != nil {
			viol(0, fmt.Sprintf("equals-panic:%d:%v", len(a), p1), fmt.Sprintf("Equals / Canonical panics on two sets of %d triangles: %v %v", len(a), p1, p2),
				map[string]interface{}{"a": a, "b": b}, a, b)
			return
		}
		cs.Add(fmt.Sprintf("(%d%%N, %s, %s, %s, %s)", id, trisTerm(a), trisTerm(b), CB(res), trisTerm(can)))
		var key, akey string
		if len(a) <= 40 {
			key = fmt.Sprintf("equals:%v|%v", a, b)
			akey = fmt.Sprint(a)
		} else {
			ha := fnv.New64a()
			fmt.Fprint(ha, a)
			akey = fmt.Sprintf("%d triples #%x %v..", len(a), ha.Sum64(), a[:3])
			h := fnv.New64a()
			fmt.Fprint(h, a, b)
			key = fmt.Sprintf("equals:%d triples #%x %v..|%v..", len(a), h.Sum64(), a[:3], b[:3])
		}
		r.Case("synthetic/"+stratum, key, true)
		if id%211 == 1 {
			r.Sample(map[string]interface{}{"kind": "equals-synthetic", "a": short(a), "b": short(b), "go_result": res})
		}
		input := map[string]interface{}{"a": a, "b": b}
		switch {
		case want && !res:
			viol(0, key, fmt.Sprintf("Equals is false on a reordered/rotated copy of the same triangle set (%d triangles, stratum %s)", len(a), stratum), input, a, b)
			return
		case !want && res:
			viol(0, key, fmt.Sprintf("Equals is true for two different triangle sets (%d triangles, stratum %s)", len(a), stratum), input, a, b)
			return
		}
		if want {
			if cb := cloneTris(b).Canonical(); !sameList(can, cb) {
				viol(1, key, fmt.Sprintf("the canonical forms of a triangle set and of its reordered/rotated copy differ (%d triangles)", len(a)), input, a, b)
				return
			}
		}
		if ref := refCanonicalSet(a); !sameList(can, ref) {
			at := 0
			for at < len(ref) && at < len(can) && can[at] == ref[at] {
				at++
			}
			viol(3, "canonical:"+akey, fmt.Sprintf("Canonical() is not the list of least-index-first rotations sorted by (t0,t1,t2): differs from the reference at position %d of %d", at, len(a)),
				map[string]interface{}{"set": a, "go_canonical": short(can), "reference": short(ref)}, a)
		}
	}

	// 1. sizes 1, 2, 3: every reordering x every rotation, then changed copies
	nTiny := TierN(c.Tier, 16, 240, 80)
	for k := 0; k < nTiny; k++ {
		sz := []int{1, 2, 3, 3, 2, 3, 1, 2}[k%8]
		if c.Tier == "quick" && sz == 3 && k%16 >= 8 {
			sz = 2
		}
		kind, a := synthSet(rng, k, sz)
		rots := 1
		for i := 0; i < sz; i++ {
			rots *= 3
		}
		for _, p := range allPerms(sz) {
			for rc := 0; rc < rots; rc++ {
				b := permuted(a, p, func(i int) int {
					x := rc
					for ; i > 0; i-- {
						x /= 3
					}
					return x % 3
				})
				pairCase(syn, fmt.Sprintf("all-reorderings/size%d/%s", sz, kind), a, b)
			}
		}
		for m := 0; m < 12; m++ {
			b := permuted(a, rng.Perm(sz), func(int) int { return rng.Intn(3) })
			if what, ok := changedCopy(rng, b, m); ok {
				pairCase(syn, what+"/size<=3", a, b)
			}
		}
	}
	// 2. sizes 4..40: random and structured reorderings, changed copies
	nMid := TierN(c.Tier, 75, 1500, 400)
	for k := 0; k < nMid; k++ {
		var sz int
		switch k % 5 {
		case 0:
			sz = rng.Range(4, 8)
		case 1, 2:
			sz = rng.Range(9, 14) // sort.Sort switches to insertion sort at 12
		case 3:
			sz = rng.Range(15, 26)
		default:
			sz = rng.Range(27, 40)
		}
		kind, a := synthSet(rng, k, sz)
		bk := kind
		for m := 0; m < 2; m++ {
			pairCase(syn, "reordered/"+bk, a, permuted(a, rng.Perm(sz), func(int) int { return rng.Intn(3) }))
		}
		_, copies := structuredCopies(rng, a)
		for _, j := range []int{k % len(copies), (k/7 + 3) % len(copies)} {
			pairCase(syn, "structured-reordering/"+bk, a, copies[j])
		}
		// two reordered copies against each other (neither is in the generation order)
		pairCase(syn, "copy-vs-copy/"+bk, copies[(k+1)%len(copies)], permuted(a, rng.Perm(sz), func(int) int { return rng.Intn(3) }))
		for m := 0; m < 4; m++ {
			b := permuted(a, rng.Perm(sz), func(int) int { return rng.Intn(3) })
			if what, ok := changedCopy(rng, b, k+m); ok {
				pairCase(syn, what+"/"+fmt.Sprintf("size<=%d", bucket(sz)), a, b)
			}
		}
	}
	// 3. 1000 triples
	nBig := TierN(c.Tier, 1, 12, 4)
	for k := 0; k < nBig; k++ {
		a := bigSet(rng, 1000)
		names, copies := structuredCopies(rng, a)
		pairCase(big, "reordered/size1000", a, permuted(a, rng.Perm(len(a)), func(int) int { return rng.Intn(3) }))
		j := int(c.Seed+uint64(k)) % len(copies)
		pairCase(big, names[j]+"/size1000", a, copies[j])
		for m := 0; m < 3; m++ {
			b := permuted(a, rng.Perm(len(a)), func(int) int { return rng.Intn(3) })
			if what, ok := changedCopy(rng, b, int(c.Seed)+k+2*m); ok {
				pairCase(big, what+"/size1000", a, b)
			}
		}
	}

	// 4. Less on probe lists: order axioms on the implementation, values against the model
	lessOf := func(s, t tri) bool { return render.TriangleIByIndex{s, t}.Less(0, 1) }
	confirm := func(key, what string, set []tri) {
		// the order defect as an Equals failure on the triples involved, if it shows there
		for _, p := range allPerms(len(set)) {
			b := permuted(set, p, func(int) int { return 0 })
			if res, pn := safeEquals(set, b); refSameSet(set, b) && pn == nil && !res {
				viol(0, key, what+"; Equals is false on these triples reordered", map[string]interface{}{"a": set, "b": b}, set, b)
				return
			}
		}
		viol(2, key, what, map[string]interface{}{"triples": set}, set)
	}
	nProbe := TierN(c.Tier, 24, 200, 100)
	perList := TierN(c.Tier, 110, 300, 150)
	for k := 0; k < nProbe; k++ {
		kind, a := synthSet(rng, k, rng.Range(8, 20))
		var l []tri
		seen := map[tri]bool{}
		for _, t := range a {
			if ct := refCanon(t); !seen[ct] {
				seen[ct] = true
				l = append(l, ct)
			}
		}
		bad := false
		for i := 0; i < len(l) && !bad; i++ {
			for j := 0; j < len(l) && !bad; j++ {
				x, y := lessOf(l[i], l[j]), lessOf(l[j], l[i])
				key := fmt.Sprintf("less:%v,%v", l[i], l[j])
				switch {
				case i == j && x:
					viol(2, key, fmt.Sprintf("Less(t,t) is true for t=%v", l[i]), map[string]interface{}{"t": l[i]}, []tri{l[i]})
					bad = true
				case i != j && !x && !y:
					confirm(key, fmt.Sprintf("Less ties the different triples %v and %v (neither is less)", l[i], l[j]), []tri{l[i], l[j]})
					bad = true
				case i != j && x && y:
					confirm(key, fmt.Sprintf("Less holds in both directions for %v and %v", l[i], l[j]), []tri{l[i], l[j]})
					bad = true
				}
			}
		}
		for m := 0; m < 400 && !bad; m++ {
			p, q, s := l[rng.Intn(len(l))], l[rng.Intn(len(l))], l[rng.Intn(len(l))]
			if lessOf(p, q) && lessOf(q, s) && !lessOf(p, s) {
				confirm(fmt.Sprintf("less:%v,%v,%v", p, q, s), fmt.Sprintf("Less is not transitive: %v < %v < %v but not %v < %v", p, q, s, p, s), []tri{p, q, s})
				bad = true
			}
		}
		r.Case("synthetic/less-order-axioms/"+kind, fmt.Sprintf("lessprobe:%v", l), len(l) >= 2)
		// values against Canon.less: pairs of the probe list, and arbitrary triples (equal components allowed)
		_, pool := randPool(rng, k+1)
		for m := 0; m < perList; m++ {
			s, t := l[rng.Intn(len(l))], l[rng.Intn(len(l))]
			if m%4 == 3 {
				s = tri{pool[rng.Intn(len(pool))], pool[rng.Intn(len(pool))], pool[rng.Intn(len(pool))]}
				t = s
				if rng.Bool() {
					t[rng.Intn(3)] = pool[rng.Intn(len(pool))]
				} else {
					t = tri{pool[rng.Intn(len(pool))], pool[rng.Intn(len(pool))], pool[rng.Intn(len(pool))]}
				}
			}
			id++
			lcs.Add(fmt.Sprintf("(%d%%N, %s, %s, %s)", id, triTerm(s), triTerm(t), CB(lessOf(s, t))))
		}
	}
	r.Case("synthetic/less-values", "less-values", true)

	// 5. triples with repeated indices: no rotation-invariance is claimed for them (Canon.distinct3);
	// the three branches of Canonical and the sort are compared with the model only
	nDeg := TierN(c.Tier, 60, 1500, 300)
	for k := 0; k < nDeg; k++ {
		_, pool := randPool(rng, k)
		sz := rng.Range(1, 10)
		a := make([]tri, sz)
		for i := range a {
			x, y := pool[rng.Intn(len(pool))], pool[rng.Intn(len(pool))]
			a[i] = rotTri(tri{x, x, y}, rng.Intn(3))
			if rng.Intn(4) == 0 {
				a[i] = tri{x, x, x}
			}
			if rng.Intn(3) == 0 {
				a[i] = tri{x, y, pool[rng.Intn(len(pool))]}
			}
		}
		b := permuted(a, rng.Perm(sz), func(int) int { return 0 })
		id++
		res := cloneTris(a).Equals(cloneTris(b))
		can := cloneTris(a).Canonical()
		syn.Add(fmt.Sprintf("(%d%%N, %s, %s, %s, %s)", id, trisTerm(a), trisTerm(b), CB(res), trisTerm(can)))
		r.Case("synthetic/repeated-indices(model only)", fmt.Sprintf("equals:%v|%v", a, b), false)
	}
	sort.SliceStable(founds, func(i, j int) bool {
		x, y := founds[i], founds[j]
		if x.prio != y.prio {
			return x.prio < y.prio
		}
		if x.neg != y.neg {
			return x.neg < y.neg
		}
		return x.size < y.size
	})
	for i, f := range founds {
		if i == 12 {
			break // leave room for the other strata (the report keeps 50)
		}
		r.Violate(f.key, f.what, f.input)
	}
	for _, cs := range []*Cases{syn, big, lcs} {
		if err := cs.Write(c.Out); err != nil {
			return err
		}
	}
	return nil
}
