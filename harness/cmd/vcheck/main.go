package main

import (
	"flag"
	"fmt"
	"os"
)

type Ctx struct {
	Tier, Out, Repo, Verif, Replay, Focus string
	Seed                                   uint64
}

var checks = map[string]func(*Ctx, *Report) error{}

func main() {
	if len(os.Args) < 2 {
		fmt.Println("usage: vcheck <ID>|gen [flags]")
		os.Exit(2)
	}
	id := os.Args[1]
	fs := flag.NewFlagSet(id, flag.ExitOnError)
	c := &Ctx{}
	fs.StringVar(&c.Tier, "tier", "quick", "quick|thorough|search")
	fs.StringVar(&c.Out, "out", ".", "output directory")
	fs.StringVar(&c.Repo, "repo", "/repo", "sdfx source tree")
	fs.StringVar(&c.Verif, "verif", "/verif", "verif directory")
	fs.StringVar(&c.Replay, "replay", "", "replay file")
	fs.StringVar(&c.Focus, "focus", "", "case ids to focus the search on")
	fs.Uint64Var(&c.Seed, "seed", 1, "seed")
	fs.Parse(os.Args[2:])
	if id == "gen" {
		if err := runGen(c); err != nil {
			fmt.Println("gen:", err)
			os.Exit(1)
		}
		return
	}
	f, ok := checks[id]
	if !ok {
		fmt.Println("unknown property", id)
		os.Exit(2)
	}
	r := NewReport(id, c.Tier, c.Seed)
	if err := f(c, r); err != nil {
		fmt.Println(id, "harness error:", err)
		os.Exit(1)
	}
	if err := r.Write(c.Out); err != nil {
		fmt.Println(err)
		os.Exit(1)
	}
}
