package main

// Translators: regenerate coq/Generated/*.v from the current source tree.

import (
	"bytes"
	"os"
	"path/filepath"
)

type genFn func(c *Ctx) (name string, content []byte, err error)

var generators []genFn

func writeIfChanged(path string, b []byte) error {
	old, err := os.ReadFile(path)
	if err == nil && bytes.Equal(old, b) {
		return nil
	}
	return os.WriteFile(path, b, 0o644)
}

func runGen(c *Ctx) error {
	for _, g := range generators {
		name, b, err := g(c)
		if err != nil {
			return err
		}
		if err := writeIfChanged(filepath.Join(c.Out, name), b); err != nil {
			return err
		}
	}
	return nil
}
