package main

// TRANSL: the syntactic tie between the Go source and the Gallina model.
// `gen` re-translates sdf/matrix.go (harness/exprgen -> Generated/MatrixExpr.v) and the vector and
// box methods (incl. MinMaxDist2, VecSet.Min/Max), blend/extrusion helpers, Evaluate methods and
// constructors - loop-free ones and the ones with loops: Union, Array, RotateUnion, RotateCopy, Slice,
// Revolve, the twisted extrusions - (harness/sdfgen -> Generated/SdfExpr.v) from the current source tree; Props/TRANSL.v then states, per Go function, that the generated definition equals the
// hand-written model function for all arguments over an arbitrary Ops (Sdf/GenEq.v).  A semantic
// edit of one of these Go functions breaks the theorem of that name.  `run` only records which
// functions were translated (there is nothing to sample: the obligation is the proof).

import (
	"fmt"

	"verifharness/exprgen"
	. "verifharness/kit"
	"verifharness/sdfgen"
)

func main() { Main("TRANSL", check, exprgen.Gen, sdfgen.Gen) }

func check(c *Ctx, r *Report) error {
	res, err := sdfgen.Translate(c.Repo)
	if err != nil {
		return err
	}
	targets := map[string]bool{}
	for _, t := range sdfgen.Targets() {
		targets[t.Pkg+"."+t.Key] = true
	}
	nt := 0
	for _, d := range res.Defs {
		stratum := "callee"
		if targets[d.Pkg+"."+d.Key] {
			stratum = "target"
			nt++
		}
		r.Case(stratum, d.Name, true)
		r.Sample(map[string]interface{}{"go": d.Pkg + "." + d.Key, "gallina": d.Name, "at": d.Pos, "params": d.Params, "result": d.Ret})
	}
	r.Coverage["translated"] = res.Names()
	r.Coverage["targets"] = nt
	r.Rule = "one case per Go function translated into Generated/SdfExpr.v; the obligations are the TRANSL_* theorems"
	r.Trusted = []string{
		"harness/sdfgen and harness/exprgen (Go AST -> Gallina, syntactic; literals mapped exactly: 0,1,2,0.5 by name, integers by ofZ, dyadic decimals p/2^k and decimals n/10^k by cst)",
		"sdfgen loops: `for .. range xs` and `for i := 0; i < len(xs); i++` become range_loop over xs (one normal form; the body may read the index, the element or xs[i]), `for i := a; i < n; i++` / `for i := range n` become count_loop (coq/Num/Loop.v), over the tuple of variables the body assigns (nested, `continue` at the top level of the body); xs[i] = v is list_set, xs[i] is nth, append is ++, make([]T, n) is repeat zero n, [n]T arrays are lists of known length; Go int is Z",
		"sdfgen reads every non-test .go file of the package directories (build tag verif): declarations may move between files; function-local constants stand for their value; `switch` is the if-chain it abbreviates; a helper taking the struct as a parameter is translated like a method of it",
		"sdfgen normal forms: (-x)*y, x*(-y), (-x)/y, x/(-y) are written -(x*y), -(x/y) (the same float64 up to the sign bit of a NaN); a constant product/quotient the Go compiler folds exactly is accepted only when the float64 evaluation of the rounded operands gives the correctly rounded exact value (checked per constant, e.g. 1.5*Pi)",
		"Ops fields stand for the float64 operations of the same name (omax = math.Max, ofmod = math.Mod, ...)",
	}
	r.Assumptions = []string{
		"wrapped SDFs (s.sdf.Evaluate) and function-valued fields (s.extrude, s.max) are pure functions (C09/C10 effect summaries)",
		"wrapped SDF arguments of constructors are non-nil (`x == nil` is translated to false, as the model's k_xxx assume)",
		"index expressions are in range and integer arithmetic does not overflow (Go would panic / wrap; nth returns the zero value, Z is unbounded): the tie is about executions that do not panic",
		"slices are not aliased: a slice variable that is written by index was bound to a fresh value (make, literal, result of a call); a loop bound is not modified by the loop body (both are checked by the translator and refused otherwise)",
		"Union2D/Union3D: operands are non-nil (the nil-stripping loop is translated with `x != nil` = true)",
		"not translated (tied by the sampled correspondence of the property checks only): Center2D/CenterAndScale2D/LineOf/Multi/Orient (compositions), Interval.Overlap, the quadtree / clipping code of sdf/mesh2.go and sdf/box2.go, sdf/poly.go, sdf/bezier.go (sdf/screw.go: harness/threadgen)",
		"an object is what its Evaluate and BoundingBox methods return; SetMin/SetMax/SetExtrude are translated as the new values of the fields they assign, which are the model's MinK/MaxK/extrusion arguments (UnionSDF2.SetMin: plus the blend flag)",
	}
	if nt != len(targets) {
		return fmt.Errorf("translated %d of %d targets", nt, len(targets))
	}
	return nil
}
