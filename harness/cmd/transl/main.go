package main

// TRANSL: the syntactic tie between the Go source and the Gallina model.
// `gen` re-translates sdf/matrix.go (harness/exprgen -> Generated/MatrixExpr.v) and the vector and
// box methods, blend/extrusion helpers, Evaluate methods and loop-free constructors
// (harness/sdfgen -> Generated/SdfExpr.v) from the current source tree; Props/TRANSL.v then states, per Go function, that the generated definition equals the
// hand-written model function for all arguments over an arbitrary Ops (Sdf/GenEq.v).  A semantic
// edit of one of these Go functions breaks the theorem of that name.  `run` only records which
// functions were translated (there is nothing to sample: the obligation is the proof).

import (
	"fmt"

	"verifharness/exprgen"
	. "verifharness/kit"
	"verifharness/sdfgen"
)

func main() { Main("TRANSL", check, exprgen.Gen, sdfgen.Gen) }

func check(c *Ctx, r *Report) error {
	res, err := sdfgen.Translate(c.Repo)
	if err != nil {
		return err
	}
	targets := map[string]bool{}
	for _, t := range sdfgen.Targets() {
		targets[t.Pkg+"."+t.Key] = true
	}
	nt := 0
	for _, d := range res.Defs {
		stratum := "callee"
		if targets[d.Pkg+"."+d.Key] {
			stratum = "target"
			nt++
		}
		r.Case(stratum, d.Name, true)
		r.Sample(map[string]interface{}{"go": d.Pkg + "." + d.Key, "gallina": d.Name, "at": d.Pos, "params": d.Params, "result": d.Ret})
	}
	r.Coverage["translated"] = res.Names()
	r.Coverage["targets"] = nt
	r.Rule = "one case per Go function translated into Generated/SdfExpr.v; the obligations are the TRANSL_* theorems"
	r.Trusted = []string{
		"harness/sdfgen and harness/exprgen (Go AST -> Gallina, syntactic; literals mapped exactly: 0,1,2,0.5 by name, integers by ofZ, decimals n/10^k by cst)",
		"Ops fields stand for the float64 operations of the same name (omax = math.Max, ofmod = math.Mod, ...)",
	}
	r.Assumptions = []string{
		"wrapped SDFs (s.sdf.Evaluate) and function-valued fields (s.extrude, s.max) are pure functions (C09/C10 effect summaries)",
		"wrapped SDF arguments of constructors are non-nil (`x == nil` is translated to false, as the model's k_xxx assume)",
		"constructors with loops (Union, Array, RotateUnion, RotateCopy, Revolve, Slice, TwistExtrude, ScaleTwistExtrude), MinMaxDist2 and VecSet.Min/Max are not translated: tied by the sampled correspondence of C01/C02/C03/C16 only",
		"an object is what its Evaluate and BoundingBox methods return; SetMin/SetMax/SetExtrude mutators are the model's MinK/MaxK/extrusion arguments",
	}
	if nt != len(targets) {
		return fmt.Errorf("translated %d of %d targets", nt, len(targets))
	}
	return nil
}
