package main

// C06: mesh vertices lie on the surface; the mesh is complete and accurate.
// Model: coq/Render/Sample.v (lattice arithmetic of the uniform renderer, two-layer cache),
// coq/Render/InterpR.v (error bounds); cases evaluated by coq/Render/C06Corr.v.
// Direct oracles on real renders of shapes with known surface: |f(v)| bounds (plane, sphere,
// 1-Lipschitz), vertices in the padded sample box, every triangle inside one cell of the lattice of
// (box, cells), padding, completeness (surface points near the mesh), normals versus gradient, volume
// convergence.  Dimensions of the inputs besides shape / box / resolution / absolute scale:
//   histories   the renderer object has handled other models (other sizes, Info only, another object
//               with another cell count in between) before the checked render; also compared with a
//               fresh object
//   gain        the uniform renderers get gain * shape (gain 2..1000, constant or directional): a
//               field that over-estimates the distance; also compared cell for cell with the shape

import (
	"encoding/json"
	"fmt"
	"math"
	"os"
	"path/filepath"
	"sort"

	"github.com/deadsy/sdfx/render"
	"github.com/deadsy/sdfx/sdf"
	v3 "github.com/deadsy/sdfx/vec/v3"
	. "verifharness/kit"
	mk "verifharness/marchkit"
	sk "verifharness/samplekit"
	"verifharness/rendergen"
	"verifharness/tabgen"
)

func main() {
	Main("C06", check, stateGen, func(c *Ctx) (string, []byte, error) { return tabgen.Gen(c.Repo) }, rendergen.Gen)
}

const imp = "From Sdfx Require Import Render.C06Corr.\nOpen Scope float_scope."

type Spec struct {
	Renderer string    `json:"renderer"` // uniform | octree | mc (marchingCubes(box, step) through the hook)
	Cells    int       `json:"cells,omitempty"`
	Step     float64   `json:"step,omitempty"`
	BBMin    []float64 `json:"bbmin"`
	BBMax    []float64 `json:"bbmax"`
	Shape    *sk.Field `json:"shape"`
	Note     string    `json:"note,omitempty"`
	// renderer reuse: these specs are handled first, in order, by the SAME renderer object (entries with
	// another cell count: by one second object of the same kind per cell count, interleaved); the oracles are
	// applied to the render of this spec, which must also equal the render by a fresh renderer object
	Prev []Spec `json:"prev,omitempty"`
	// (entries of Prev) only Info is called for this model, not Render
	InfoOnly bool `json:"info_only,omitempty"`
	// over-estimating field: the renderer is given Gain * (1 + |GainDir . (p - centre of the box)|) * shape
	// instead of the shape: same solid, same surface, but the value over-estimates the distance by a
	// constant (GainDir absent) or position dependent factor >= Gain.  The oracles use the shape itself.
	Gain    float64   `json:"gain,omitempty"`
	GainDir []float64 `json:"gaindir,omitempty"`
}

// the field handed to the renderer
func (s *Spec) rendered(F sk.F3) func(v3.Vec) float64 {
	if s.Gain == 0 {
		return F.F
	}
	k := s.Gain
	if s.GainDir == nil {
		return func(p v3.Vec) float64 { return k * F.F(p) }
	}
	w := vec(s.GainDir)
	c := vec(s.BBMin).Add(vec(s.BBMax)).MulScalar(0.5)
	return func(p v3.Vec) float64 { return k * (1 + math.Abs(w.Dot(p.Sub(c)))) * F.F(p) }
}

// no render of these harness inputs needs more evaluations than this (64 cells: < 3e5 lattice points);
// a renderer that asks for more (a lattice far too fine for the model) is stopped and reported
const evalCap = 3000000

func (s *Spec) key() string {
	b, _ := json.Marshal(s)
	return string(b)
}

type corpus struct {
	Specs []Spec `json:"specs"`
}

type state struct {
	r       *Report
	out     string // output directory (the report is written from inside a render that runs away)
	u3      *Cases
	id      int
	coqTris int
	maxF    map[string]float64 // worst |f(v)| / bound per kind
	ordMin  float64
	ords    []float64
	// triangles of CSG shapes whose normal was compared with the gradient
	normalsCSG int
	// zero-area triangles (end, midpoint, end) of the both-ends-close branch (known finding), renders with some
	midTris, midRenders int
	midWitness          interface{}
}

// midpointTriangle: the three vertices are a, a + 0.5 (b - a), b in some order, a and b differing along one axis
func midpointTriangle(t sdf.Triangle3) bool {
	for k := 0; k < 3; k++ {
		m, a, b := t[k], t[(k+1)%3], t[(k+2)%3]
		d := b.Sub(a)
		axes := 0
		for _, x := range []float64{d.X, d.Y, d.Z} {
			if x != 0 {
				axes++
			}
		}
		if axes != 1 {
			continue
		}
		if m == (v3.Vec{X: a.X + 0.5*(b.X-a.X), Y: a.Y + 0.5*(b.Y-a.Y), Z: a.Z + 0.5*(b.Z-a.Z)}) ||
			m == (v3.Vec{X: b.X + 0.5*(a.X-b.X), Y: b.Y + 0.5*(a.Y-b.Y), Z: b.Z + 0.5*(a.Z-b.Z)}) {
			return true
		}
	}
	return false
}

func vec(a []float64) v3.Vec { return v3.Vec{X: a[0], Y: a[1], Z: a[2]} }

// closest point on triangle (Ericson)
func distPointTri(p v3.Vec, t sdf.Triangle3) float64 {
	a, b, c := t[0], t[1], t[2]
	ab, ac, ap := b.Sub(a), c.Sub(a), p.Sub(a)
	d1, d2 := ab.Dot(ap), ac.Dot(ap)
	if d1 <= 0 && d2 <= 0 {
		return ap.Length()
	}
	bp := p.Sub(b)
	d3, d4 := ab.Dot(bp), ac.Dot(bp)
	if d3 >= 0 && d4 <= d3 {
		return bp.Length()
	}
	vc := d1*d4 - d3*d2
	if vc <= 0 && d1 >= 0 && d3 <= 0 {
		v := d1 / (d1 - d3)
		return p.Sub(a.Add(ab.MulScalar(v))).Length()
	}
	cp := p.Sub(c)
	d5, d6 := ab.Dot(cp), ac.Dot(cp)
	if d6 >= 0 && d5 <= d6 {
		return cp.Length()
	}
	vb := d5*d2 - d1*d6
	if vb <= 0 && d2 >= 0 && d6 <= 0 {
		w := d2 / (d2 - d6)
		return p.Sub(a.Add(ac.MulScalar(w))).Length()
	}
	va := d3*d6 - d5*d4
	if va <= 0 && (d4-d3) >= 0 && (d5-d6) >= 0 {
		w := (d4 - d3) / ((d4 - d3) + (d5 - d6))
		return p.Sub(b.Add(c.Sub(b).MulScalar(w))).Length()
	}
	den := 1 / (va + vb + vc)
	v, w := vb*den, vc*den
	return p.Sub(a.Add(ab.MulScalar(v)).Add(ac.MulScalar(w))).Length()
}

func signedVolume(ts []sdf.Triangle3) float64 {
	// relative to a vertex of the mesh: for a closed mesh the value does not depend on the reference point,
	// and far from the origin the triple products do not cancel
	s := 0.0
	if len(ts) == 0 {
		return 0
	}
	o := ts[0][0]
	for _, t := range ts {
		s += t[0].Sub(o).Dot(t[1].Sub(o).Cross(t[2].Sub(o)))
	}
	return s / 6
}

func grad(f func(v3.Vec) float64, p v3.Vec, d float64) v3.Vec {
	return v3.Vec{
		X: (f(v3.Vec{X: p.X + d, Y: p.Y, Z: p.Z}) - f(v3.Vec{X: p.X - d, Y: p.Y, Z: p.Z})) / (2 * d),
		Y: (f(v3.Vec{X: p.X, Y: p.Y + d, Z: p.Z}) - f(v3.Vec{X: p.X, Y: p.Y - d, Z: p.Z})) / (2 * d),
		Z: (f(v3.Vec{X: p.X, Y: p.Y, Z: p.Z + d}) - f(v3.Vec{X: p.X, Y: p.Y, Z: p.Z - d})) / (2 * d),
	}
}

type rendered struct {
	tris       []sdf.Triangle3
	rec        *sk.Recorder3
	lo, hi     v3.Vec  // sample box
	hmax, diag float64 // largest cell edge, cell diagonal
	xs, ys, zs []float64
}

func (st *state) render(sp *Spec, F sk.F3, fail func(string)) *rendered {
	bb := sdf.Box3{Min: vec(sp.BBMin), Max: vec(sp.BBMax)}
	field := &sk.Fn3{F: sp.rendered(F), BB: bb}
	rec := &sk.Recorder3{S: field}
	capped := &mk.Counted3{S: rec, Max: evalCap}
	// a render that asks for more than evalCap evaluations cannot be stopped (worker goroutines) and may need
	// hours: the input is recorded and the run ends here
	runaway := func(what string) func() {
		return func() {
			fail(fmt.Sprintf("%s evaluated the model more than %d times (at most 64 cells a side are ever requested): the lattice is not the one of this model and cell count; run ended", what, evalCap))
			st.u3.Write(st.out)
			st.r.Write(st.out)
			os.Exit(0)
		}
	}
	capped.OnExceed = runaway("the render")
	col := &sk.TriCollector{}
	newObj := func(cells int) render.Render3 {
		if sp.Renderer == "uniform" {
			return render.NewMarchingCubesUniform(cells)
		}
		return render.NewMarchingCubesOctree(cells)
	}
	var obj render.Render3
	objs := map[int]render.Render3{} // one renderer object per cell count, for the whole history
	switch sp.Renderer {
	case "uniform", "octree":
		obj = newObj(sp.Cells)
		objs[sp.Cells] = obj
	case "mc":
		// rendered below (a panic of the renderer is a failing input)
	default:
		fail("bad renderer " + sp.Renderer)
		return nil
	}
	panicked := func() (msg string) {
		defer func() {
			if e := recover(); e != nil {
				msg = fmt.Sprint(e)
			}
		}()
		if sp.Renderer == "mc" {
			render.VerifMarchingCubes(capped, bb, sp.Step, col)
		}
		return ""
	}
	if sp.Renderer == "mc" {
		if msg := panicked(); msg != "" {
			fail("renderer panicked: " + msg)
			return nil
		}
	}
	renderObj := func(s sdf.SDF3, w sdf.Triangle3Writer) (msg string) {
		defer func() {
			if e := recover(); e != nil {
				msg = fmt.Sprint(e)
			}
		}()
		obj.Render(s, w)
		return ""
	}
	if obj != nil {
		// the reference of a history: the same model through a renderer object that has seen nothing else
		var fresh *sk.TriCollector
		if len(sp.Prev) > 0 {
			fresh = &sk.TriCollector{}
			fo := newObj(sp.Cells)
			fo.Render(&mk.Counted3{S: field, Max: evalCap, OnExceed: runaway("a fresh renderer object")}, fresh)
		}
		for i := range sp.Prev {
			p := &sp.Prev[i]
			Fp, err := p.Shape.Build3(sk.Grid3{Res: 1}, 0, nil)
			if err != nil {
				fail("bad spec: " + err.Error())
				return nil
			}
			cells := p.Cells
			if cells == 0 {
				cells = sp.Cells
			}
			po := objs[cells]
			if po == nil {
				po = newObj(cells)
				objs[cells] = po
			}
			ps := &mk.Counted3{S: &sk.Fn3{F: p.rendered(Fp), BB: sdf.Box3{Min: vec(p.BBMin), Max: vec(p.BBMax)}}, Max: evalCap,
				OnExceed: runaway(fmt.Sprintf("step %d of the history", i+1))}
			obj = po
			if p.InfoOnly {
				if msg := func() (msg string) {
					defer func() {
						if e := recover(); e != nil {
							msg = fmt.Sprint(e)
						}
					}()
					po.Info(ps)
					return ""
				}(); msg != "" {
					fail(fmt.Sprintf("Info panicked on step %d of the sequence: %s", i+1, msg))
					return nil
				}
				continue
			}
			if msg := renderObj(ps, &sk.TriCollector{}); msg != "" {
				fail("renderer panicked on an earlier render of the sequence: " + msg)
				return nil
			}
			if ps.Exceeded() {
				fail(fmt.Sprintf("step %d of the sequence (after %d earlier calls on the same renderer object) evaluated its model more than %d times: the lattice is not the one of this model and cell count", i+1, i, evalCap))
				return nil
			}
		}
		obj = objs[sp.Cells]
		if len(sp.Prev) > 0 {
			obj.Info(field) // as the output routines do, right before Render
		}
		if msg := renderObj(capped, col); msg != "" {
			fail("renderer panicked: " + msg)
			return nil
		}
		if fresh != nil && !capped.Exceeded() {
			same := len(fresh.T) == len(col.T)
			for k := 0; same && k < len(col.T); k++ {
				same = fresh.T[k] == col.T[k]
			}
			if !same {
				fail(fmt.Sprintf("after %d earlier calls on the same renderer object the render has %d triangles from %d evaluations and differs from the render by a fresh renderer object (%d triangles): the mesh depends on the history of the renderer object", len(sp.Prev), len(col.T), len(rec.P), len(fresh.T)))
			}
		}
	}
	if capped.Exceeded() {
		fail(fmt.Sprintf("the renderer evaluated the model more than %d times (%d cells requested): the lattice is not the one of this model and cell count", evalCap, sp.Cells))
		return nil
	}
	out := &rendered{tris: col.T, rec: rec}
	var xs, ys, zs []float64
	for _, p := range rec.P {
		xs, ys, zs = append(xs, p.X), append(ys, p.Y), append(zs, p.Z)
	}
	if sp.Renderer == "octree" {
		resolution := bb.Size().MaxComponent() / float64(sp.Cells)
		g := sk.Grid3{Origin: bb.ScaleAboutCenter(1.01).Min, Res: 0.5 * resolution}
		// number of levels: a fresh renderer on a field that is huge everywhere evaluates the top centre only
		probe := &sk.Recorder3{S: &sk.Fn3{F: func(v3.Vec) float64 { return 1e300 }, BB: bb}}
		render.NewMarchingCubesOctree(sp.Cells).Render(probe, &sk.TriCollector{})
		levels := 0
		if len(probe.P) == 1 {
			if i, _, _, ok := g.Index(probe.P[0]); ok {
				for l := 2; l < 40; l++ {
					if i == 1<<(uint(l)-2) {
						levels = l
					}
				}
			}
		}
		if levels == 0 {
			fail(fmt.Sprintf("octree: the probe render does not start at the centre of a top cube of the lattice origin %v, res %v", g.Origin, g.Res))
			return nil
		}
		side := float64(int(1)<<uint(levels-1)) * g.Res
		out.lo, out.hi = g.Origin, g.Origin.AddScalar(side)
		out.hmax = 2 * g.Res
		out.diag = math.Sqrt(3) * out.hmax
		// the box the lattice starts from is centred on the bounding box (from centre and size, not with the
		// code under test); origin and top cube contain the bounding box
		if msg := mk.CheckScaled3(bb); msg != "" {
			fail(msg)
		}
		if !(out.lo.X <= bb.Min.X && out.lo.Y <= bb.Min.Y && out.lo.Z <= bb.Min.Z && out.hi.X >= bb.Max.X && out.hi.Y >= bb.Max.Y && out.hi.Z >= bb.Max.Z) {
			fail(fmt.Sprintf("octree sample cube [%v,%v] does not contain the bounding box [%v,%v]: the cells of the lattice over the part outside are never visited", out.lo, out.hi, bb.Min, bb.Max))
		}
		for q, p := range rec.P {
			if _, _, _, ok := g.Index(p); !ok {
				fail(fmt.Sprintf("octree evaluation %d at %v is not a point of the lattice origin %v res %v", q, p, g.Origin, g.Res))
				break
			}
		}
		return out
	}
	if len(rec.P) == 0 {
		fail("renderer evaluated no point")
		return nil
	}
	out.xs, out.ys, out.zs = sk.SortedDistinct(xs), sk.SortedDistinct(ys), sk.SortedDistinct(zs)
	nx, ny, nz := len(out.xs)-1, len(out.ys)-1, len(out.zs)-1
	if nx < 1 || ny < 1 || nz < 1 {
		fail("degenerate lattice")
		return nil
	}
	if len(rec.P) != (nx+1)*(ny+1)*(nz+1) {
		fail(fmt.Sprintf("uniform renderer evaluated %d points on a %dx%dx%d lattice (expected every lattice point exactly once: %d)", len(rec.P), nx, ny, nz, (nx+1)*(ny+1)*(nz+1)))
		return nil
	}
	out.lo = v3.Vec{X: out.xs[0], Y: out.ys[0], Z: out.zs[0]}
	out.hi = v3.Vec{X: out.xs[nx], Y: out.ys[ny], Z: out.zs[nz]}
	sp3 := func(a []float64) float64 {
		m := 0.0
		for i := 1; i < len(a); i++ {
			m = math.Max(m, a[i]-a[i-1])
		}
		return m
	}
	hx, hy, hz := sp3(out.xs), sp3(out.ys), sp3(out.zs)
	out.hmax = math.Max(hx, math.Max(hy, hz))
	out.diag = math.Sqrt(hx*hx + hy*hy + hz*hz)
	return out
}

// layer table [x][y*(nz+1)+z] from the recorded (point, value) pairs
func layers(o *rendered) ([][]float64, bool) {
	ix := func(a []float64, v float64) int { return sort.SearchFloat64s(a, v) }
	nx, ny, nz := len(o.xs)-1, len(o.ys)-1, len(o.zs)-1
	vals := make([][]float64, nx+1)
	seen := make([][]bool, nx+1)
	for x := range vals {
		vals[x] = make([]float64, (ny+1)*(nz+1))
		seen[x] = make([]bool, (ny+1)*(nz+1))
	}
	for q, p := range o.rec.P {
		x, y, z := ix(o.xs, p.X), ix(o.ys, p.Y), ix(o.zs, p.Z)
		if seen[x][y*(nz+1)+z] {
			return nil, false
		}
		seen[x][y*(nz+1)+z] = true
		vals[x][y*(nz+1)+z] = o.rec.V[q]
	}
	return vals, true
}

func (st *state) do(sp *Spec, stratum string, rng *Rng) {
	r := st.r
	key := sp.key()
	fail := func(what string) { r.Violate(key, "C06 "+what, sp) }
	F, err := sp.Shape.Build3(sk.Grid3{Res: 1}, 0, nil)
	if err != nil {
		fail("bad spec: " + err.Error())
		return
	}
	o := st.render(sp, F, fail)
	if o == nil {
		return
	}
	bb := sdf.Box3{Min: vec(sp.BBMin), Max: vec(sp.BBMax)}
	r.Case(stratum, key, len(o.tris) > 0)
	scale := bb.Size().MaxComponent()
	kind := sp.Shape.Kind
	// --- lattice of the uniform renderer: padding of at least half a cell on every side
	if sp.Renderer == "uniform" {
		inc := scale / float64(sp.Cells)
		pad := 0.5 * inc * (1 - 1e-9)
		if !(o.lo.X <= bb.Min.X-pad && o.lo.Y <= bb.Min.Y-pad && o.lo.Z <= bb.Min.Z-pad &&
			o.hi.X >= bb.Max.X+pad && o.hi.Y >= bb.Max.Y+pad && o.hi.Z >= bb.Max.Z+pad) {
			fail(fmt.Sprintf("sample box [%v,%v] does not contain the bounding box [%v,%v] with half a cell (%g) of padding", o.lo, o.hi, bb.Min, bb.Max, 0.5*inc))
		}
		if o.hmax > inc*(1+1e-9) {
			fail(fmt.Sprintf("cell size %g exceeds the requested %g", o.hmax, inc))
		}
	}
	// --- vertices
	// "to rounding": relative 1e-9 of the model size, plus the documented snapping window of mcInterpolate
	// (a crossing within epsilon = 1e-12 of a lattice point is put on it) which matters for tiny models only
	const snapAllowance = 1.0001e-12
	tol := 1e-9*scale + snapAllowance
	worst := 0.0
	// the tight bounds are those of the linear zero crossing of the (constant multiple of the) distance itself
	tight := sp.GainDir == nil
	// --- cell-size arithmetic: every triangle comes from ONE cell of the lattice of (box, cells)
	cellOf := func(a []float64, org, h, lo float64) (float64, float64) {
		if a != nil { // uniform: the sampled lattice lines
			i := sort.SearchFloat64s(a, lo+tol) - 1 // last line <= lo + tol
			if i < 0 {
				i = 0
			}
			if i > len(a)-2 {
				i = len(a) - 2
			}
			return a[i], a[i+1]
		}
		i := math.Floor((lo + tol - org) / h)
		return org + i*h, org + (i+1)*h
	}
	for ti, t := range o.tris {
		for ax := 0; ax < 3; ax++ {
			c := func(v v3.Vec) float64 { return [3]float64{v.X, v.Y, v.Z}[ax] }
			lo, hi := math.Min(c(t[0]), math.Min(c(t[1]), c(t[2]))), math.Max(c(t[0]), math.Max(c(t[1]), c(t[2])))
			var a []float64
			if sp.Renderer != "octree" {
				a = [][]float64{o.xs, o.ys, o.zs}[ax]
			}
			c0, c1 := cellOf(a, c(o.lo), o.hmax, lo)
			if hi > c1+tol || lo < c0-tol {
				fail(fmt.Sprintf("triangle %d %v spans [%g, %g] along axis %d: not inside one cell of the lattice of this box and cell count (cell [%g, %g], cell size %g)", ti, t, lo, hi, ax, c0, c1, o.hmax))
				return
			}
		}
	}
	// --- no emitted triangle has two identical vertices or zero area (its Normal() is NaN and agrees with
	// no gradient): where the field is inside the snapping window at lattice points along an edge or corner
	// of the solid several crossings of one cell snap onto the same corner, and only the degenerate-triangle
	// filter of mcToTriangles keeps these out of the mesh
	{
		ident, flat, first := 0, 0, -1
		mid, firstMid := 0, -1
		for ti, t := range o.tris {
			switch {
			case t[0] == t[1] || t[1] == t[2] || t[2] == t[0]:
				ident++
			case t[1].Sub(t[0]).Cross(t[2].Sub(t[0])) == v3.Vec{}:
				if midpointTriangle(t) {
					// (corner, midpoint of the lattice edge, other corner): the both-ends-close branch of
					// mcInterpolate; known finding, see below
					mid++
					if firstMid < 0 {
						firstMid = ti
					}
					continue
				}
				flat++
			default:
				continue
			}
			if first < 0 {
				first = ti
			}
		}
		if first >= 0 {
			t := o.tris[first]
			fail(fmt.Sprintf("%s: %d of %d emitted triangles have two identical vertices, %d more have three collinear vertices: zero area, e.g. triangle %d %v with Normal() = %v (lattice values inside the snapping window along an edge of the solid; the degenerate-triangle filter let them through)",
				kind, ident, len(o.tris), flat, first, t, t.Normal()))
			return
		}
		// KNOWN FINDING (unchanged tree): when BOTH ends of a lattice edge are inside the snapping window with
		// different sign (a face of the solid within 1e-12 of a lattice layer, rounding of either sign along it)
		// mcInterpolate returns the midpoint of the edge while the crossings of the neighbouring edges snap onto
		// its two ends: the triangle (end, midpoint, end) has three DISTINCT collinear vertices, passes
		// Degenerate(0), and is emitted with zero area and Normal() = NaN.  The witness in the corpus is replayed
		// on every run (known_findings.jsonl); generated inputs count these triangles and go on, so that no new
		// key appears: the class where "no zero-area triangle" is claimed is: no lattice edge with both end values
		// inside the window and of different sign.
		st.midTris += mid
		if mid > 0 {
			st.midRenders++
			if st.midRenders == 1 && stratum != "corpus" {
				st.midWitness = map[string]interface{}{"spec": sp, "triangle": o.tris[firstMid], "count": mid, "triangles": len(o.tris)}
			}
			if stratum == "corpus" {
				t := o.tris[firstMid]
				fail(fmt.Sprintf("%s: %d of %d emitted triangles have zero area with three distinct collinear vertices (end, midpoint, end of one lattice edge), e.g. triangle %d %v with Normal() = %v: both ends of the lattice edge are inside the snapping window with different sign, mcInterpolate takes the midpoint and Degenerate(0) only looks for identical vertices",
					kind, mid, len(o.tris), firstMid, t, t.Normal()))
			}
		}
	}
	for ti, t := range o.tris {
		for _, v := range t {
			if v.X < o.lo.X-tol || v.Y < o.lo.Y-tol || v.Z < o.lo.Z-tol || v.X > o.hi.X+tol || v.Y > o.hi.Y+tol || v.Z > o.hi.Z+tol {
				fail(fmt.Sprintf("triangle %d has vertex %v outside the sampled box [%v,%v]", ti, v, o.lo, o.hi))
				return
			}
			fv := F.F(v)
			switch kind {
			case "plane":
				if !tight {
					break
				}
				worst = math.Max(worst, math.Abs(fv)/tol)
				if math.Abs(fv) > tol {
					fail(fmt.Sprintf("plane: vertex %v of triangle %d has f = %g (> 1e-9 * %g + 1e-12): not the zero crossing of its lattice edge", v, ti, fv, scale))
					return
				}
			case "sphere":
				R := sp.Shape.R
				if o.hmax < R && tight {
					b := o.hmax * o.hmax / (8 * (R - o.hmax))
					worst = math.Max(worst, -fv/b)
					if fv > 1e-11*scale+snapAllowance || fv < -b*(1+1e-9)-1e-11*scale-snapAllowance {
						fail(fmt.Sprintf("sphere R=%g h=%g: vertex %v has f = %g outside [-h^2/(8(R-h)), 0] = [%g, 0]", R, o.hmax, v, fv, -b))
						return
					}
				}
			}
			// any 1-Lipschitz field: |f(v)| <= h ; for the exact fields this is the distance to the surface
			// (a vertex lies on a lattice edge whose ends straddle the surface, whatever multiple of the
			// distance the renderer was given)
			if math.Abs(fv) > o.hmax*(1+1e-9) {
				fail(fmt.Sprintf("%s: vertex %v of triangle %d has |f| = %g > cell size %g", kind, v, ti, math.Abs(fv), o.hmax))
				return
			}
		}
	}
	if worst > st.maxF[kind] {
		st.maxF[kind] = worst
	}
	// --- enclosed volume of spheres and boxes: the mesh lies within one cell of the surface, so the
	// volume differs from the exact one by at most a shell of thickness h (factor 2 for curvature)
	if (kind == "sphere" || kind == "box") && len(o.tris) > 0 {
		var exact, area float64
		if kind == "sphere" {
			R := sp.Shape.R
			exact, area = 4.0/3*math.Pi*R*R*R, 4*math.Pi*R*R
		} else {
			h := sp.Shape.H
			exact, area = 8*h[0]*h[1]*h[2], 8*(h[0]*h[1]+h[1]*h[2]+h[0]*h[2])
		}
		if vol := signedVolume(o.tris); math.Abs(vol-exact) > 2*area*o.hmax+1e-9*exact {
			fail(fmt.Sprintf("%s: enclosed volume %g, exact %g: differs by more than a shell of two cells (area %g, cell %g)", kind, vol, exact, area, o.hmax))
		}
	}
	// --- normals against the gradient (exact primitives; slivers skipped)
	resolved := kind == "plane" || (kind == "sphere" && sp.Shape.R > o.diag) ||
		(kind == "box" && math.Min(sp.Shape.H[0], math.Min(sp.Shape.H[1], sp.Shape.H[2])) > 1.5*o.diag)
	if resolved {
		for ti, t := range o.tris {
			n := t[1].Sub(t[0]).Cross(t[2].Sub(t[0]))
			if n.Length() < 1e-6*o.hmax*o.hmax {
				continue
			}
			c := t[0].Add(t[1]).Add(t[2]).MulScalar(1.0 / 3)
			if kind == "box" {
				// the gradient of a box is defined on its faces away from the edges only
				d := c.Sub(vec(sp.Shape.C)).Abs().Sub(vec(sp.Shape.H))
				near := 0
				for _, x := range []float64{d.X, d.Y, d.Z} {
					if x > -o.diag {
						near++
					}
				}
				if near != 1 {
					continue
				}
			}
			g := grad(F.F, c, 1e-6*scale)
			if n.Dot(g) <= 0 {
				fail(fmt.Sprintf("%s: triangle %d %v has normal %v against the gradient %v", kind, ti, t, n, g))
				return
			}
		}
	}
	// CSG (unions / differences of boxes and spheres): the gradient exists on the smooth parts of the surface.
	// A triangle is compared where the field is smooth over its whole cell: the (numerical) unit gradients at
	// the centroid and at the eight points centroid + (+-h, +-h, +-h) agree to 0.9 (for CSG of boxes: the same
	// face is active at all nine, the field is affine on the cell and the triangle lies in that face)
	if kind == "union" || kind == "diff" || kind == "inter" {
		dg := 1e-6 * scale
		compared := 0
		for ti, t := range o.tris {
			n := t[1].Sub(t[0]).Cross(t[2].Sub(t[0]))
			if !(n.Length() >= 1e-6*o.hmax*o.hmax) {
				continue
			}
			c := t[0].Add(t[1]).Add(t[2]).MulScalar(1.0 / 3)
			g := grad(F.F, c, dg)
			if gl := g.Length(); gl < 0.5 || gl > 1.5 {
				continue
			}
			g = g.Normalize()
			smooth := true
			for q := 0; q < 8 && smooth; q++ {
				d := v3.Vec{X: o.hmax * float64(2*(q&1)-1), Y: o.hmax * float64(2*(q>>1&1)-1), Z: o.hmax * float64(2*(q>>2&1)-1)}
				gq := grad(F.F, c.Add(d), dg)
				smooth = gq.Length() > 0.5 && gq.Normalize().Dot(g) > 0.9
			}
			if !smooth {
				continue
			}
			compared++
			if n.Dot(g) <= 0 {
				fail(fmt.Sprintf("%s: triangle %d %v on a smooth part of the surface has normal %v against the gradient %v", kind, ti, t, n, g))
				return
			}
		}
		st.normalsCSG += compared
	}
	// --- completeness: resolvable surface points are within one cell diagonal of the mesh
	var samples []v3.Vec
	ns := 60
	switch kind {
	case "sphere":
		c, R := vec(sp.Shape.C), sp.Shape.R
		if R > 2*o.diag {
			for i := 0; i < ns; i++ {
				d := v3.Vec{X: rng.Uniform(-1, 1), Y: rng.Uniform(-1, 1), Z: rng.Uniform(-1, 1)}
				if d.Length() < 0.1 {
					continue
				}
				samples = append(samples, c.Add(d.Normalize().MulScalar(R)))
			}
		}
	case "box":
		c, h := vec(sp.Shape.C), vec(sp.Shape.H)
		if h.X > 2*o.diag && h.Y > 2*o.diag && h.Z > 2*o.diag {
			for i := 0; i < ns; i++ {
				u := []float64{rng.Uniform(-1, 1) * (h.X - o.diag), rng.Uniform(-1, 1) * (h.Y - o.diag), rng.Uniform(-1, 1) * (h.Z - o.diag)}
				a := rng.Intn(3)
				hh := []float64{h.X, h.Y, h.Z}
				u[a] = hh[a] * pick(rng, -1, 1)
				samples = append(samples, c.Add(vec(u)))
			}
		}
	case "plane":
		n := vec(sp.Shape.C).Normalize()
		for i := 0; i < ns; i++ {
			p := v3.Vec{X: rng.Uniform(bb.Min.X, bb.Max.X), Y: rng.Uniform(bb.Min.Y, bb.Max.Y), Z: rng.Uniform(bb.Min.Z, bb.Max.Z)}
			p = p.Sub(n.MulScalar(F.F(p)))
			if p.X > bb.Min.X && p.Y > bb.Min.Y && p.Z > bb.Min.Z && p.X < bb.Max.X && p.Y < bb.Max.Y && p.Z < bb.Max.Z {
				samples = append(samples, p)
			}
		}
	}
	for _, p := range samples {
		best := math.Inf(1)
		for _, t := range o.tris {
			if d := distPointTri(p, t); d < best {
				best = d
			}
		}
		if best > o.diag {
			fail(fmt.Sprintf("%s: surface point %v is %g from the mesh (%d triangles), more than one cell diagonal %g", kind, p, best, len(o.tris), o.diag))
			return
		}
	}
	// --- over-estimating fields: the uniform walk looks at signs and at ratios of values along sign-changing
	// edges only: g * shape (g > 0) has the cells of the shape itself, triangle for triangle, and for constant g
	// the same vertices
	if sp.Gain != 0 && sp.Renderer != "octree" {
		base := *sp
		base.Gain, base.GainDir, base.Prev = 0, nil, nil
		ob := st.render(&base, F, fail)
		if ob == nil {
			return
		}
		tiny := false // values inside the (absolute) snapping window of mcInterpolate are not scale invariant
		for _, v := range ob.rec.V {
			if v != 0 && math.Abs(v) < 1e-9 {
				tiny = true
			}
		}
		if !tiny {
			if len(ob.tris) != len(o.tris) {
				fail(fmt.Sprintf("%s: the field times %g%s (same solid, same signs at every lattice point) renders to %d triangles, the field itself to %d", kind, sp.Gain, map[bool]string{true: "", false: " (1 + |w.(p-c)|)"}[tight], len(o.tris), len(ob.tris)))
				return
			}
			for ti := range o.tris {
				for k := 0; k < 3 && tight; k++ {
					if d := o.tris[ti][k].Sub(ob.tris[ti][k]).Length(); d > tol {
						fail(fmt.Sprintf("%s: vertex %d of triangle %d moves by %g when the field is multiplied by %g (the zero crossing of a lattice edge depends on the ratio of its end values only)", kind, k, ti, d, sp.Gain))
						return
					}
				}
			}
		}
	}
	r.Sample(map[string]interface{}{"spec": sp, "triangles": len(o.tris), "evaluations": len(o.rec.P), "cell": o.hmax, "surface_samples": len(samples)})
	// --- correspondence with the model (uniform walk, small lattices)
	if sp.Renderer != "octree" && len(o.rec.P) <= 4000 && st.coqTris > 0 {
		vals, ok := layers(o)
		if !ok {
			fail("a lattice point was evaluated twice")
			return
		}
		st.coqTris -= len(o.rec.P)
		st.id++
		ls := make([]string, len(vals))
		for i, l := range vals {
			ls[i] = sk.CFloats(l)
		}
		st.u3.Add(fmt.Sprintf("(%d%%N, %s, %s, %d%%Z, %s, %s, (%s, %s, %s), %s, %s)", st.id, sk.CF3(bb.Min), sk.CF3(bb.Max), sp.Cells, CF(sp.Step),
			CB(sp.Renderer == "uniform"), sk.CFloats(o.xs), sk.CFloats(o.ys), sk.CFloats(o.zs), CList(ls), sk.CTris(o.tris)))
	}
}

func pick(rng *Rng, xs ...float64) float64 { return xs[rng.Intn(len(xs))] }

// bounding box of the spec: contains the shape with a margin, not necessarily cubic
func boxAround(c v3.Vec, h v3.Vec) ([]float64, []float64) {
	return []float64{c.X - h.X, c.Y - h.Y, c.Z - h.Z}, []float64{c.X + h.X, c.Y + h.Y, c.Z + h.Z}
}

func genSpec(rng *Rng, renderer string, cells int) *Spec {
	sp := &Spec{Renderer: renderer, Cells: cells}
	dy := rng.Intn(3) > 0 // dyadic parameters: exact arithmetic, ceil exact
	num := func(lo, hi float64) float64 {
		if dy {
			return math.Round(rng.Uniform(lo, hi)*8) / 8
		}
		return rng.Uniform(lo, hi)
	}
	c := v3.Vec{X: num(-2, 2), Y: num(-2, 2), Z: num(-2, 2)}
	switch rng.Intn(6) {
	case 0, 1: // sphere, R/h from 2 to 50: bounding box side 2R => h = 2R/cells
		R := num(0.5, 3)
		if R == 0 {
			R = 1
		}
		sp.Shape = &sk.Field{Kind: "sphere", C: []float64{c.X, c.Y, c.Z}, R: R}
		sp.BBMin, sp.BBMax = boxAround(c, v3.Vec{X: R, Y: R, Z: R})
	case 2: // plane of arbitrary orientation and offset through a box
		n := v3.Vec{X: rng.Uniform(-1, 1), Y: rng.Uniform(-1, 1), Z: rng.Uniform(-1, 1)}
		if rng.Intn(4) == 0 {
			n = v3.Vec{X: pick(rng, 0, 1, -1), Y: pick(rng, 0, 1), Z: 1} // lattice aligned / diagonal
		}
		h := v3.Vec{X: num(0.5, 2) + 0.25, Y: num(0.5, 2) + 0.25, Z: num(0.5, 2) + 0.25}
		d := n.Normalize().Dot(c) + rng.Uniform(-0.3, 0.3)*h.MinComponent()
		if dy && rng.Intn(3) == 0 {
			d = n.Normalize().Dot(c)
		}
		sp.Shape = &sk.Field{Kind: "plane", C: []float64{n.X, n.Y, n.Z}, R: d}
		sp.BBMin, sp.BBMax = boxAround(c, h)
	case 3: // box (exact distance field), faces possibly on lattice planes
		h := v3.Vec{X: num(0.25, 2) + 0.125, Y: num(0.25, 2) + 0.125, Z: num(0.25, 2) + 0.125}
		sp.Shape = &sk.Field{Kind: "box", C: []float64{c.X, c.Y, c.Z}, H: []float64{h.X, h.Y, h.Z}}
		sp.BBMin, sp.BBMax = boxAround(c, h)
	case 4: // union of two spheres (1-Lipschitz, not an exact distance inside)
		R1, R2 := num(0.5, 1.5)+0.125, num(0.25, 1)+0.125
		c2 := c.Add(v3.Vec{X: num(0, 1.5), Y: num(-0.5, 0.5), Z: 0})
		sp.Shape = &sk.Field{Kind: "union", A: &sk.Field{Kind: "sphere", C: []float64{c.X, c.Y, c.Z}, R: R1},
			B: &sk.Field{Kind: "sphere", C: []float64{c2.X, c2.Y, c2.Z}, R: R2}}
		sp.BBMin = []float64{math.Min(c.X-R1, c2.X-R2), math.Min(c.Y-R1, c2.Y-R2), math.Min(c.Z-R1, c2.Z-R2)}
		sp.BBMax = []float64{math.Max(c.X+R1, c2.X+R2), math.Max(c.Y+R1, c2.Y+R2), math.Max(c.Z+R1, c2.Z+R2)}
	default: // box minus sphere
		h := v3.Vec{X: num(0.5, 1.5) + 0.25, Y: num(0.5, 1.5) + 0.25, Z: num(0.5, 1.5) + 0.25}
		R := 0.75 * h.MinComponent()
		c2 := c.Add(v3.Vec{X: h.X, Y: h.Y, Z: 0})
		sp.Shape = &sk.Field{Kind: "diff", A: &sk.Field{Kind: "box", C: []float64{c.X, c.Y, c.Z}, H: []float64{h.X, h.Y, h.Z}},
			B: &sk.Field{Kind: "sphere", C: []float64{c2.X, c2.Y, c2.Z}, R: R}}
		sp.BBMin, sp.BBMax = boxAround(c, h)
	}
	if renderer == "mc" {
		sp.Step = (sp.BBMax[0] - sp.BBMin[0]) / float64(cells) * pick(rng, 1, 1, 0.9, 1.1)
		// marchingCubes samples exactly the box it is given: pad it so that the surface stays inside
		for a := 0; a < 3; a++ {
			sp.BBMin[a] -= sp.Step
			sp.BBMax[a] += sp.Step
		}
	}
	return sp
}

// scaleSpec multiplies the whole scene (bounding box, shape) by k
func scaleField(f *sk.Field, k float64) *sk.Field {
	if f == nil {
		return nil
	}
	g := *f
	mul := func(a []float64) []float64 {
		o := make([]float64, len(a))
		for i, x := range a {
			o[i] = x * k
		}
		return o
	}
	switch f.Kind {
	case "sphere":
		g.C, g.R = mul(f.C), f.R*k
	case "box":
		g.C, g.H = mul(f.C), mul(f.H)
	case "plane":
		g.R = f.R * k // C is the normal
	}
	g.A, g.B = scaleField(f.A, k), scaleField(f.B, k)
	return &g
}
func scaleSpec(sp *Spec, k float64) *Spec {
	o := *sp
	o.BBMin, o.BBMax = make([]float64, 3), make([]float64, 3)
	for a := 0; a < 3; a++ {
		o.BBMin[a], o.BBMax[a] = sp.BBMin[a]*k, sp.BBMax[a]*k
	}
	o.Step = sp.Step * k
	o.Shape = scaleField(sp.Shape, k)
	return &o
}

// volume of the rendered sphere against 4/3 pi R^3 at cells, 2*cells, 4*cells: observed order
func (st *state) volumeOrder(rng *Rng, renderer string, base int, far v3.Vec) {
	r := st.r
	R := 1 + rng.Float()
	c := v3.Vec{X: rng.Uniform(-0.3, 0.3), Y: rng.Uniform(-0.3, 0.3), Z: rng.Uniform(-0.3, 0.3)}
	c = c.Add(far.MulScalar(2 * R)) // far: in units of the size of the sphere
	F := sk.Sphere(c, R)
	exact := 4.0 / 3 * math.Pi * R * R * R
	var errs []float64
	for _, n := range []int{base, 2 * base, 4 * base} {
		// mean over three bounding boxes with unequal margins: the phase of the lattice against the sphere varies
		e := 0.0
		for ph := 0; ph < 3; ph++ {
			mn := []float64{c.X - R*(1+0.3*rng.Float()), c.Y - R*(1+0.3*rng.Float()), c.Z - R*(1+0.3*rng.Float())}
			mx := []float64{c.X + R*(1+0.3*rng.Float()), c.Y + R*(1+0.3*rng.Float()), c.Z + R*(1+0.3*rng.Float())}
			sp := &Spec{Renderer: renderer, Cells: n, BBMin: mn, BBMax: mx, Shape: &sk.Field{Kind: "sphere", C: []float64{c.X, c.Y, c.Z}, R: R}}
			o := st.render(sp, F, func(w string) { r.Violate(sp.key(), "C06 "+w, sp) })
			if o == nil {
				return
			}
			// relative to the resolution actually used (the cell is max side / n)
			e += math.Abs(signedVolume(o.tris)-exact) / exact / (o.hmax * o.hmax) / 3
		}
		errs = append(errs, e)
	}
	key := fmt.Sprintf("volume:%s/base%d/R%.6f/c%v", renderer, base, R, c)
	r.Case("volume/"+renderer, key, true)
	// order over the two octaves (the pairwise ratios oscillate with the position of the lattice)
	// errs are relative errors divided by h^2: second order means they stay bounded; the observed order is
	// 2 - log2(errs[2]/errs[0]) / 2
	ord := 2 - math.Log2(errs[2]/errs[0])/2
	st.ords = append(st.ords, ord)
	if ord < st.ordMin {
		st.ordMin = ord
	}
	if ord < 1.8 {
		r.Violate(key, fmt.Sprintf("C06 volume of the %s render of a sphere converges with order %.2f < 1.8 (relative errors / h^2: %v at %d, %d, %d cells)", renderer, ord, errs, base, 2*base, 4*base), key)
	}
}

func check(c *Ctx, r *Report) error {
	rng := NewRng(c.Seed)
	st := &state{r: r, out: c.Out, u3: &Cases{Kind: "uni3", Imports: imp, Type: "ucase3", Fn: "umismatches3", InfoFn: "uinexact3", PerShard: 4}, maxF: map[string]float64{}, ordMin: math.Inf(1)}
	st.coqTris = TierN(c.Tier, 40000, 300000, 20000)
	var specs []Spec
	if b, err := os.ReadFile(filepath.Join(c.Verif, "corpus", "C06.json")); err == nil {
		var cp corpus
		if err := json.Unmarshal(b, &cp); err != nil {
			return fmt.Errorf("corpus: %v", err)
		}
		specs = cp.Specs
	}
	if c.Replay != "" {
		b, err := os.ReadFile(c.Replay)
		if err != nil {
			return err
		}
		var rp struct {
			Failing []struct {
				Input Spec `json:"input"`
			} `json:"failing_inputs"`
		}
		if err := json.Unmarshal(b, &rp); err != nil {
			return err
		}
		specs = nil
		for _, f := range rp.Failing {
			if f.Input.Shape != nil {
				specs = append(specs, f.Input)
			}
		}
	}
	for i := range specs {
		st.do(&specs[i], "corpus", rng)
	}
	if c.Replay == "" {
		// ---- mcInterpolate itself (through the C05 hook): bit-exact against the model (coq/Render/Interp.v at
		// primitive floats, cases evaluated by Render/MarchCorr.v) and, directly, "the vertex is the linear zero
		// crossing of its lattice edge": corner values of magnitude 1e-13 .. 1e-3 (log-uniform) on either or both
		// ends, equal values, values straddling the documented epsilon = 1e-12
		ics := &Cases{Kind: "mcinterp", Imports: "From Sdfx Require Import Render.MarchCorr.\nOpen Scope Z_scope.", Type: "icase3", Fn: "imismatches3", InfoFn: "iinexact3", PerShard: 1500}
		ni := TierN(c.Tier, 1500, 20000, 5000)
		for k := 0; k < ni; k++ {
			small := func() float64 { return math.Pow(10, rng.Uniform(-13, -3)) }
			gen := func() float64 { return rng.Uniform(0.05, 2) }
			var a, b float64
			var stratum string
			switch k % 6 {
			case 0:
				a, b, stratum = small(), gen(), "one end 1e-13..1e-3"
			case 1:
				a, b, stratum = gen(), small(), "other end 1e-13..1e-3"
			case 2:
				a, b, stratum = small(), small(), "both ends 1e-13..1e-3"
			case 3:
				a = small()
				b, stratum = a, "equal magnitudes"
			case 4:
				a, b, stratum = 1e-12*rng.Uniform(0.5, 2), 1e-12*rng.Uniform(0.5, 2), "straddling epsilon"
			default:
				a, b, stratum = gen(), gen(), "generic"
			}
			v1, v2 := -a, b
			if rng.Bool() {
				v1, v2 = b, -a
			}
			if k%6 == 3 && k%12 == 3 {
				v2 = v1 // equal values, no crossing
				stratum = "equal values"
			}
			x := 0.0
			if k%9 == 4 {
				x = math.Round(rng.Uniform(-2, 2)*8) / 8
				v1, v2 = v1+x, v2+x
			}
			sc := []float64{1, 1, 1e-5, 1e3}[k%4]
			p1 := v3.Vec{X: rng.Uniform(-3, 3) * sc, Y: rng.Uniform(-3, 3) * sc, Z: rng.Uniform(-3, 3) * sc}
			p2 := p1
			h := rng.Uniform(0.01, 1) * sc
			switch k % 3 {
			case 0:
				p2.X += h
			case 1:
				p2.Y += h
			default:
				p2.Z += h
			}
			g := render.VerifMcInterpolate(p1, p2, v1, v2, x)
			st.id++
			ics.Add(fmt.Sprintf("(%d%%N, %s, %s, %s, %s, %s, %s)", st.id, sk.CF3(p1), sk.CF3(p2), CF(v1), CF(v2), CF(x), sk.CF3(g)))
			key := fmt.Sprintf("mcInterpolate:%x,%x,%x|%v|%v", v1, v2, x, p1, p2)
			straddle := (v1 < x) != (v2 < x)
			r.Case("mcInterpolate/"+stratum, key, straddle)
			if !straddle {
				continue
			}
			d := p2.Sub(p1)
			t := g.Sub(p1).Dot(d) / d.Dot(d)
			in := map[string]interface{}{"p1": p1, "p2": p2, "v1": v1, "v2": v2, "x": x}
			if off := g.Sub(p1.Add(d.MulScalar(t))).Length(); t < -1e-9 || t > 1+1e-9 || off > 1e-9*(h+p1.Length()) {
				r.Violate(key, fmt.Sprintf("C06 mcInterpolate result %v is not on the lattice edge %v-%v (t=%g)", g, p1, p2, t), in)
			} else if lv := (v1 - x) + t*(v2-v1); math.Abs(lv) > 1.0001e-12+1e-9*(math.Abs(v1-x)+math.Abs(v2-x)) {
				r.Violate(key, fmt.Sprintf("C06 vertex is not the linear zero crossing of its lattice edge: values %g, %g at the ends (level %g), vertex at t=%g where the interpolated value is %g off the level", v1, v2, x, t, lv), in)
			}
		}
		if err := ics.Write(c.Out); err != nil {
			return err
		}
	}
	if c.Replay == "" {
		// small lattices first (they also go to Coq), then resolutions up to 64
		small := []int{3, 4, 5, 6, 7, 8}
		large := []int{10, 12, 16, 20, 25, 32, 40, 50, 64}
		reps := TierN(c.Tier, 3, 10, 5)
		for rep := 0; rep < reps; rep++ {
			for _, n := range small {
				for _, rd := range []string{"uniform", "mc", "octree"} {
					sp := genSpec(rng, rd, n)
					st.do(sp, fmt.Sprintf("%s/%s/cells<=8", rd, sp.Shape.Kind), rng)
				}
			}
			for _, n := range large {
				if c.Tier == "quick" && rep > 0 && n > 32 {
					continue
				}
				for _, rd := range []string{"uniform", "octree"} {
					sp := genSpec(rng, rd, n)
					st.do(sp, fmt.Sprintf("%s/%s/cells>8", rd, sp.Shape.Kind), rng)
				}
			}
		}
		// non-cubic lattices: boxes and spheres whose bounding box has three different extents, all 6 orderings
		// of the axes (the layer cache is indexed y*(nz+1)+z: cell counts along x, y, z must all differ somewhere)
		for rep := 0; rep < TierN(c.Tier, 1, 4, 2); rep++ {
			ext := []float64{1, 1.5, 2}
			if rep > 0 {
				ext = []float64{0.5 + rng.Float(), 1.6 + rng.Float(), 2.7 + rng.Float()}
			}
			for _, pm := range [][3]int{{0, 1, 2}, {0, 2, 1}, {1, 0, 2}, {1, 2, 0}, {2, 0, 1}, {2, 1, 0}} {
				h := []float64{ext[pm[0]], ext[pm[1]], ext[pm[2]]}
				ctr := v3.Vec{X: math.Round(rng.Uniform(-2, 2)*4) / 4, Y: math.Round(rng.Uniform(-2, 2)*4) / 4, Z: math.Round(rng.Uniform(-2, 2)*4) / 4}
				cc := []float64{ctr.X, ctr.Y, ctr.Z}
				mn, mx := boxAround(ctr, vec(h))
				for _, rd := range []string{"uniform", "mc", "octree"} {
					n := []int{7, 12, 19}[rng.Intn(3)]
					for _, sh := range []*sk.Field{{Kind: "box", C: cc, H: h}, {Kind: "sphere", C: cc, R: 0.9 * math.Min(h[0], math.Min(h[1], h[2]))}} {
						sp := &Spec{Renderer: rd, Cells: n, BBMin: append([]float64(nil), mn...), BBMax: append([]float64(nil), mx...), Shape: sh}
						if rd == "mc" {
							sp.Step = (mx[0] - mn[0]) / float64(n) * pick(rng, 1, 0.9, 1.1)
							for a := 0; a < 3; a++ {
								sp.BBMin[a] -= sp.Step
								sp.BBMax[a] += sp.Step
							}
						}
						st.do(sp, fmt.Sprintf("noncubic/%s/%s/axes%d%d%d", rd, sh.Kind, pm[0], pm[1], pm[2]), rng)
					}
				}
			}
		}
		// absolute scale is a generated dimension: the same generator at model sizes 1e-5 .. 1e3 (tolerances in
		// the code are absolute, the property is not)
		for rep := 0; rep < TierN(c.Tier, 2, 8, 4); rep++ {
			for _, sc := range []float64{1e-5, 1e-4, 1e-3, 1e3} {
				for _, rd := range []string{"uniform", "octree"} {
					n := []int{8, 20, 40}[rng.Intn(3)]
					sp := scaleSpec(genSpec(rng, rd, n), sc)
					st.do(sp, fmt.Sprintf("scale=%g/%s/%s", sc, rd, sp.Shape.Kind), rng)
				}
			}
		}
		// axis-aligned planes a hair (1e-9 .. 1e-6 model units, either side) off a lattice layer: the lattice of
		// (box, cells) is read from a first render, the plane is then placed against one of its layers
		for rep := 0; rep < TierN(c.Tier, 6, 40, 12); rep++ {
			for _, rd := range []string{"uniform", "octree"} {
				n := []int{10, 20, 33, 40}[rng.Intn(4)]
				ctr := v3.Vec{X: rng.Uniform(-1, 1), Y: rng.Uniform(-1, 1), Z: rng.Uniform(-1, 1)}
				if rep%2 == 0 {
					ctr = v3.Vec{}
				}
				mn, mx := boxAround(ctr, v3.Vec{X: 1, Y: 1 + 0.25*float64(rep%3), Z: 1})
				axis := rng.Intn(3)
				nrm := []float64{0, 0, 0}
				nrm[axis] = 1
				probe := &Spec{Renderer: rd, Cells: n, BBMin: mn, BBMax: mx, Shape: &sk.Field{Kind: "plane", C: nrm, R: []float64{ctr.X, ctr.Y, ctr.Z}[axis] + 0.01}}
				Fp, _ := probe.Shape.Build3(sk.Grid3{Res: 1}, 0, nil)
				o := st.render(probe, Fp, func(w string) { r.Violate(probe.key(), "C06 "+w, probe) })
				if o == nil {
					continue
				}
				var layersA []float64
				if rd == "uniform" {
					layersA = [][]float64{o.xs, o.ys, o.zs}[axis]
				} else {
					// corner layers of the octree lattice inside the bounding box
					bbx := sdf.Box3{Min: vec(mn), Max: vec(mx)}
					res := 0.5 * bbx.Size().MaxComponent() / float64(n)
					o0 := []float64{o.lo.X, o.lo.Y, o.lo.Z}[axis]
					for k := 0; o0+float64(2*k)*res < mx[axis]; k++ {
						if o0+float64(2*k)*res > mn[axis] {
							layersA = append(layersA, o0+float64(2*k)*res)
						}
					}
				}
				if len(layersA) < 4 {
					continue
				}
				layer := layersA[1+rng.Intn(len(layersA)-2)]
				delta := math.Pow(10, rng.Uniform(-9, -6)) * pick(rng, 1, -1)
				sp := &Spec{Renderer: rd, Cells: n, BBMin: mn, BBMax: mx, Shape: &sk.Field{Kind: "plane", C: nrm, R: layer + delta},
					Note: fmt.Sprintf("plane %g off the lattice layer %v of axis %d", delta, layer, axis)}
				st.do(sp, fmt.Sprintf("plane-near-layer/%s", rd), rng)
			}
		}
		// renderer reuse: ONE renderer object renders solids with EQUAL bounding boxes one after the other
		// (sphere, cube, union of spheres, ...); every render must pass all the oracles above
		for rep := 0; rep < TierN(c.Tier, 2, 8, 4); rep++ {
			for _, rd := range []string{"octree", "uniform"} {
				n := []int{8, 12, 20, 40}[rng.Intn(4)]
				R := []float64{1, 2.5, 10}[rng.Intn(3)]
				ctr := v3.Vec{X: math.Round(rng.Uniform(-2, 2)*4) / 4, Y: math.Round(rng.Uniform(-2, 2)*4) / 4, Z: math.Round(rng.Uniform(-2, 2)*4) / 4}
				mn, mx := boxAround(ctr, v3.Vec{X: R, Y: R, Z: R})
				cc := []float64{ctr.X, ctr.Y, ctr.Z}
				shapes := []*sk.Field{
					{Kind: "sphere", C: cc, R: R},
					{Kind: "box", C: cc, H: []float64{R, R, R}},
					{Kind: "sphere", C: cc, R: 0.5 * R},
					{Kind: "box", C: []float64{ctr.X + 0.25*R, ctr.Y, ctr.Z - 0.25*R}, H: []float64{0.5 * R, 0.75 * R, 0.5 * R}},
					{Kind: "union", A: &sk.Field{Kind: "sphere", C: []float64{ctr.X - 0.4*R, ctr.Y, ctr.Z}, R: 0.6 * R}, B: &sk.Field{Kind: "sphere", C: []float64{ctr.X + 0.5*R, ctr.Y, ctr.Z}, R: 0.5 * R}},
				}
				perm := rng.Perm(len(shapes))
				var prev []Spec
				for q := 0; q < 4; q++ {
					sp := &Spec{Renderer: rd, Cells: n, BBMin: mn, BBMax: mx, Shape: shapes[perm[q]], Prev: append([]Spec(nil), prev...)}
					st.do(sp, fmt.Sprintf("reuse/%s/render%d/%s", rd, q+1, sp.Shape.Kind), rng)
					prev = append(prev, Spec{Renderer: rd, Cells: n, BBMin: mn, BBMax: mx, Shape: shapes[perm[q]]})
				}
			}
		}
		// renderer histories: ONE renderer object is asked for Info / Render of models of DIFFERENT absolute size,
		// position and shape (and a second object of the same kind with another cell count is used in between);
		// the last render must pass every oracle above against the lattice of ITS OWN box and cell count and
		// equal the render by a fresh object
		for rep := 0; rep < TierN(c.Tier, 2, 8, 4); rep++ {
			for _, rd := range []string{"octree", "uniform"} {
				n := []int{8, 12, 20, 40}[rng.Intn(4)]
				model := func(k float64, cells int) Spec {
					m := scaleSpec(genSpec(rng, rd, cells), k)
					return *m
				}
				info := func(m Spec) Spec { m.InfoOnly = true; return m }
				n2 := []int{5, 16, 33}[rng.Intn(3)]
				hist := []struct {
					name string
					prev []Spec
				}{
					{"big-then-small", []Spec{model(10, n)}},
					{"info(big)-then-small", []Spec{info(model(pick(rng, 4, 10, 100), n))}},
					{"small-then-big", []Spec{model(pick(rng, 0.3, 0.5), n)}},
					{"other-cells-interleaved", []Spec{model(3, n2), model(0.5, n), info(model(2, n2))}},
					{"render-info-render", []Spec{model(1, n), info(model(5, n))}},
				}
				for _, h := range hist {
					sp := genSpec(rng, rd, n)
					sp.Prev = h.prev
					st.do(sp, fmt.Sprintf("history/%s/%s/%s", rd, h.name, sp.Shape.Kind), rng)
				}
			}
		}
		// one renderer VALUE, the same sample grid or the same model VALUE again (marchkit/mutate.go): (a) different
		// fields with exactly the same bounding box one after the other, (b) ONE model value rendered, changed in
		// place (SetMin / SetMax / SetExtrude / a parameter of a user-defined field; a CacheSDF2 filling up) and
		// rendered again by the same renderer value.  Every mesh must equal, triangle for triangle, the mesh by a
		// fresh renderer value, and every vertex must lie on a lattice edge straddling the surface of the model AS IT
		// IS NOW: all these fields are 1-Lipschitz, so |f(v)| <= cell edge
		{
			sbCtr := v3.Vec{X: rng.Dyadic(2, 2), Y: rng.Dyadic(2, 2), Z: rng.Dyadic(2, 2)}
			sbA := []float64{1, 2.5, 0.125}[rng.Intn(3)]
			sbT := rng.Float()
			mutK := rng.Uniform(0.5, 1)
			for _, rd := range []string{"octree", "uniform"} {
				cells := []int{24, 16, 11}[rng.Intn(3)]
				newR := func() render.Render3 {
					if rd == "octree" {
						return render.NewMarchingCubesOctree(cells)
					}
					return render.NewMarchingCubesUniform(cells)
				}
				type hist struct {
					stratum string
					steps   []mk.Step3
				}
				var hists []hist
				for _, h := range mk.Histories3(mk.SameBox3(sbCtr, sbA, sbT)) {
					hists = append(hists, hist{"reuse-same-box/" + rd, h})
				}
				for _, m := range mk.Mutables3(sbCtr, sbA, mutK) {
					hists = append(hists, hist{"reuse-mutated-in-place/" + rd, m.History()})
				}
				for hi, hh := range hists {
					var names []string
					for _, s := range hh.steps {
						if s.InfoOnly {
							names = append(names, "Info("+s.Name+")")
						} else {
							names = append(names, s.Name)
						}
					}
					key := fmt.Sprintf("reuse3/%s@%d/%v", rd, cells, names)
					input := map[string]interface{}{"renderer": rd, "cells": cells, "one_renderer_value_handles_in_order": names,
						"note": "a name repeated with another [state] is the SAME model value, changed in place between the calls"}
					nontrivial := false
					diffs := mk.Reuse3(newR, hh.steps, func(i int, s mk.Step3, ts []*sdf.Triangle3) {
						nontrivial = nontrivial || len(ts) > 0
						hcell := s.S.BoundingBox().Size().MaxComponent() / float64(cells)
						k := fmt.Sprintf("%s#%d", key, i)
						if len(ts) == 0 {
							r.Violate(k, fmt.Sprintf("C06 step %d (%s) of the history of one %s renderer value emitted no triangle", i, s.Name, rd), input)
						}
						worst, at := 0.0, v3.Vec{}
						for _, t := range ts {
							for _, v := range t {
								if d := math.Abs(s.S.Evaluate(v)); d > worst {
									worst, at = d, v
								}
							}
						}
						if worst > 1.02*hcell {
							r.Violate(k, fmt.Sprintf("C06 step %d (%s) of the history of one %s renderer value (%d cells): vertex %v has |f(v)| = %g for the model being rendered (a 1-Lipschitz field), the cell edge is %g: not a crossing of a lattice edge that straddles the surface", i, s.Name, rd, cells, at, worst, hcell), input)
						}
					})
					r.Case(hh.stratum, key, nontrivial)
					for _, d := range diffs {
						r.Violate(fmt.Sprintf("%s#%d", key, d.Step), fmt.Sprintf("C06 history %d of one %s renderer value (%d cells), step %d (%s): %s", hi, rd, cells, d.Step, d.Name, d.What), input)
					}
				}
			}
		}
		// over-estimating fields through the sign-only renderers: the same shapes handed over as
		// gain * shape with gain 2, 10, 1000 (constant, or growing along a random direction): the surface and
		// the sign at every lattice point are those of the shape, the value is up to 1000 times the distance.
		// Oracles: everything above against the shape itself, and the mesh of the shape cell for cell
		for rep := 0; rep < TierN(c.Tier, 3, 12, 6); rep++ {
			for _, rd := range []string{"uniform", "mc"} {
				for gi, gain := range []float64{2, 10, 1e3} {
					n := []int{6, 12, 20, 32}[rng.Intn(4)]
					sp := genSpec(rng, rd, n)
					sp.Gain = gain
					tag := "constant"
					if (rep+gi)%2 == 1 {
						// 1 + |w.(p - c)| runs from 1 at the centre to 1..5 at the faces of the box
						w := v3.Vec{X: rng.Uniform(-1, 1), Y: rng.Uniform(-1, 1), Z: rng.Uniform(-1, 1)}
						half := 0.5 * (sp.BBMax[0] - sp.BBMin[0])
						w = w.MulScalar(rng.Uniform(0.5, 4) / (half * math.Max(w.Length(), 0.1)))
						sp.GainDir = []float64{w.X, w.Y, w.Z}
						tag = "directional"
					}
					st.do(sp, fmt.Sprintf("overestimate/gain=%g/%s/%s/%s", gain, tag, rd, sp.Shape.Kind), rng)
				}
			}
		}
		// every family again, the scene 2x .. 1000x its size away from the origin on one, two, three axes
		st.genTranslated(rng, c)
		// CSG of boxes with inner faces, edges, corners on layers of the sampled lattice
		st.genOnLattice(rng, c)
		for rep := 0; rep < TierN(c.Tier, 2, 8, 4); rep++ {
			st.volumeOrder(rng, "uniform", pick3(rng), v3.Vec{})
			st.volumeOrder(rng, "octree", pick3(rng), v3.Vec{})
		}
		{
			offs := mk.Offsets3(func() float64 { return pick(rng, 1, 1, -1) })
			for rep := 0; rep < TierN(c.Tier, 1, 4, 2); rep++ {
				o1, o2 := offs[rng.Intn(len(offs))], offs[rng.Intn(len(offs))]
				st.volumeOrder(rng, "uniform", pick3(rng), v3.Vec{X: o1.V[0], Y: o1.V[1], Z: o1.V[2]})
				st.volumeOrder(rng, "octree", pick3(rng), v3.Vec{X: o2.V[0], Y: o2.V[1], Z: o2.V[2]})
			}
		}
	}
	if err := st.u3.Write(c.Out); err != nil {
		return err
	}
	r.Rule = "a case = one real render (uniform, octree, or marchingCubes on a given box) of one shape with known surface at one resolution 3..64, with every vertex, triangle normal, the containment of every triangle in one lattice cell, the absence of triangles with identical or collinear vertices and a sample of surface points checked; the scene near the origin or 2x .. 1000x its size away from it; CSG of boxes with inner faces on layers of the sampled lattice; possibly after a history of other models handled by the same renderer object (then also compared with a fresh object), possibly of gain * shape with gain up to 1000 (then also compared cell for cell with the render of the shape); non-trivial = the render has triangles; distinct = distinct (renderer, resolution, box, shape, gain, history)"
	r.Coverage["coq_uniform_walk_cases"] = st.u3.Len()
	r.Coverage["worst_f_over_bound"] = st.maxF
	r.Coverage["volume_orders"] = st.ords
	r.Coverage["csg_triangles_normal_compared_with_gradient"] = st.normalsCSG
	r.Coverage["zero_area_midpoint_triangles_in_generated_renders"] = map[string]interface{}{"triangles": st.midTris, "renders": st.midRenders, "first": st.midWitness}
	r.Trusted = []string{
		"hand-written model coq/Render/Sample.v tied by differential execution (evaluation coordinates and triangles bit exact), not by translation",
		"float64 rounding is not proved: bounds are checked with a relative slack of 1e-9 and an absolute 1e-11 * size",
		"the parallel layer evaluation writes f(point i) to slot i (C09, Sys/Sched.v)",
	}
	r.Assumptions = []string{
		"two-sided Hausdorff distance, normals versus gradient and second-order volume convergence are measured on the generated shapes, not proved",
		"completeness is sampled at surface points where a ball of one cell diagonal fits on both sides (spheres with R > 2 diagonals, box faces away from the edges, planes inside the bounding box)",
		"renderer objects: histories of up to 3 earlier Info/Render calls on models 0.3x..100x the size of the rendered one, one or two objects; over-estimating fields: gain 2, 10, 1000, constant or growing linearly along one direction (uniform renderers only; the octree renderer is claimed for fields that never over-estimate)",
		"normals are checked for triangles with area above 1e-6 h^2; on CSG shapes where the unit gradient agrees to 0.9 at the centroid and at centroid + (+-h, +-h, +-h)",
		"placement: every generator family also 2x, 10x, 100x, 1000x the model size away from the origin along one, two, three axes (all three renderers); features on the sampled lattice: through-holes, L-shapes, octant notches, pockets, stairs, blocks with faces on (dyadic scenes: exactly; others also up to 4e-13 off) layers of the lattice learned from a first render, near and far from the origin; every render: no triangle with two identical or three collinear vertices",
	}
	return nil
}

func pick3(rng *Rng) int { return []int{8, 10, 12, 16}[rng.Intn(4)] }
