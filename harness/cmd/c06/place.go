package main

// Strata added after mutation testing, round 4 (see marchkit/place.go):
//   translated   every generator family again with the whole scene moved 2x .. 1000x its size away from the
//                origin along one, two, three axes (bounding box not containing the origin), all renderers,
//                with and without a history of other models on the renderer object
//   on-lattice   CSG of boxes (through-holes, L-shapes, notches, pockets, stairs) whose inner faces lie on, or
//                within the snapping window of, layers of the lattice the renderer samples (learned from a first
//                render of the same box and cell count): rows of exact zeros along edges and corners of the solid

import (
	"fmt"
	"math"

	"github.com/deadsy/sdfx/sdf"
	v3 "github.com/deadsy/sdfx/vec/v3"
	. "verifharness/kit"
	mk "verifharness/marchkit"
	sk "verifharness/samplekit"
)

func translateField(f *sk.Field, d v3.Vec) *sk.Field {
	if f == nil {
		return nil
	}
	g := *f
	switch f.Kind {
	case "sphere", "box":
		g.C = []float64{f.C[0] + d.X, f.C[1] + d.Y, f.C[2] + d.Z}
	case "plane":
		g.R = f.R + vec(f.C).Normalize().Dot(d) // n.p - d
	}
	g.A, g.B = translateField(f.A, d), translateField(f.B, d)
	return &g
}

// translateSpec moves the whole scene (bounding box, shape, history) by d
func translateSpec(sp *Spec, d v3.Vec) *Spec {
	o := *sp
	o.BBMin = []float64{sp.BBMin[0] + d.X, sp.BBMin[1] + d.Y, sp.BBMin[2] + d.Z}
	o.BBMax = []float64{sp.BBMax[0] + d.X, sp.BBMax[1] + d.Y, sp.BBMax[2] + d.Z}
	o.Shape = translateField(sp.Shape, d)
	return &o
}

func specSize(sp *Spec) float64 {
	return math.Max(sp.BBMax[0]-sp.BBMin[0], math.Max(sp.BBMax[1]-sp.BBMin[1], sp.BBMax[2]-sp.BBMin[2]))
}

func (st *state) genTranslated(rng *Rng, c *Ctx) {
	sign := func() float64 {
		if rng.Intn(4) == 0 {
			return -1
		}
		return 1
	}
	for rep := 0; rep < TierN(c.Tier, 1, 4, 2); rep++ {
		for oi, off := range mk.Offsets3(sign) {
			for ri, rd := range []string{"uniform", "mc", "octree"} {
				n := []int{6, 9, 12, 20, 32}[rng.Intn(5)]
				sp := genSpec(rng, rd, n)
				s := specSize(sp)
				d := v3.Vec{X: off.V[0] * s, Y: off.V[1] * s, Z: off.V[2] * s}
				sp = translateSpec(sp, d)
				tag := ""
				if rd != "mc" && (oi+ri+rep)%4 == 0 {
					// the renderer object has handled a model somewhere else before
					other := genSpec(rng, rd, n)
					if rng.Bool() {
						other = translateSpec(other, d.MulScalar(-0.5))
					}
					if rng.Bool() {
						other.InfoOnly = true
					}
					sp.Prev = []Spec{*other}
					tag = "/after-another-model"
				}
				st.do(sp, fmt.Sprintf("translated/%s/%s/%s%s", off.Name, rd, sp.Shape.Kind, tag), rng)
			}
		}
	}
}

// the corner layers of the lattice the renderer samples for (box, cells / step), read from a render of a plane
func (st *state) learnLayers(rd string, n int, step float64, mn, mx []float64) (xs, ys, zs []float64, ok bool) {
	r := st.r
	probe := &Spec{Renderer: rd, Cells: n, Step: step, BBMin: mn, BBMax: mx,
		Shape: &sk.Field{Kind: "plane", C: []float64{0, 0, 1}, R: 0.5*mn[2] + 0.5*mx[2] + 0.01*(mx[2]-mn[2])}}
	Fp, _ := probe.Shape.Build3(sk.Grid3{Res: 1}, 0, nil)
	o := st.render(probe, Fp, func(w string) { r.Violate(probe.key(), "C06 "+w, probe) })
	if o == nil {
		return nil, nil, nil, false
	}
	if rd != "octree" {
		return o.xs, o.ys, o.zs, true
	}
	h := o.hmax
	lay := func(o0, hi float64) []float64 {
		var a []float64
		for k := 0; o0+float64(k)*h <= hi; k++ {
			a = append(a, o0+float64(k)*h)
		}
		return a
	}
	return lay(o.lo.X, o.hi.X), lay(o.lo.Y, o.hi.Y), lay(o.lo.Z, o.hi.Z), true
}

func (st *state) genOnLattice(rng *Rng, c *Ctx) {
	sign := func() float64 { return pick(rng, 1, 1, -1) }
	offs := mk.Offsets3(sign)
	for rep := 0; rep < TierN(c.Tier, 4, 16, 8); rep++ {
		for _, rd := range []string{"uniform", "mc", "octree"} {
			n := []int{8, 10, 12, 16, 20}[rng.Intn(5)]
			// dyadic scenes (cell a power of two, centre on the same grid: every lattice value exact, ceil exact)
			// and general ones
			var ctr, half v3.Vec
			regime := "general"
			if rep%2 == 0 {
				regime = "dyadic"
				inc := pick(rng, 1, 0.5, 0.25, 2)
				s := 0.5 * float64(n) * inc
				half = v3.Vec{X: s, Y: s, Z: s}
				if rep%4 == 2 { // not a cube: fewer cells along two axes
					half.Y -= inc * float64(rng.Range(1, 2))
					half.Z -= inc * float64(rng.Range(0, 3))
				}
				ctr = v3.Vec{X: inc * float64(rng.Range(-4, 4)), Y: inc * float64(rng.Range(-4, 4)), Z: inc * float64(rng.Range(-4, 4))}
			} else {
				s := rng.Uniform(0.5, 5)
				half = v3.Vec{X: s, Y: s * rng.Uniform(0.7, 1), Z: s * rng.Uniform(0.7, 1)}
				ctr = v3.Vec{X: rng.Uniform(-2, 2), Y: rng.Uniform(-2, 2), Z: rng.Uniform(-2, 2)}
			}
			if rep%3 == 1 {
				// far from the origin (a multiple of the size that keeps dyadic scenes dyadic)
				off := offs[rng.Intn(len(offs))]
				s := 2 * half.X
				ctr = ctr.Add(v3.Vec{X: off.V[0] * s, Y: off.V[1] * s, Z: off.V[2] * s})
				regime += "/translated"
			}
			mn, mx := boxAround(ctr, half)
			step := 0.0
			if rd == "mc" {
				step = 2 * half.X / float64(n)
				for a := 0; a < 3; a++ { // marchingCubes samples exactly the box it is given
					mn[a] -= step
					mx[a] += step
				}
			}
			xs, ys, zs, ok := st.learnLayers(rd, n, step, mn, mx)
			if !ok {
				continue
			}
			// faces exactly on their layers (dyadic scenes: exact zeros), or up to 4e-13 off on either side
			// (inside the snapping window |v| < 1e-12; only where the coordinates resolve it)
			mag := math.Max(vec(mn).Abs().MaxComponent(), vec(mx).Abs().MaxComponent())
			jitter := func() float64 {
				if regime == "dyadic" || mag > 50 || rng.Intn(2) == 0 {
					return 0
				}
				return pick(rng, 1e-13, -1e-13, 4e-13, -4e-13)
			}
			// the block is the bounding box given to the renderer, less the margin added for marchingCubes
			bmn, bmx := boxAround(ctr, half)
			fs := mk.FeaturesOnLattice3(xs, ys, zs, sdf.Box3{Min: vec(bmn), Max: vec(bmx)}, rng.Intn, jitter)
			if fs == nil {
				continue
			}
			// quick: a rotating subset of the shapes per lattice
			per := TierN(c.Tier, 4, len(fs), 6)
			for q, k := 0, rng.Intn(len(fs)); q < per && q < len(fs); q, k = q+1, k+1 {
				f := fs[k%len(fs)]
				sp := &Spec{Renderer: rd, Cells: n, Step: step, BBMin: mn, BBMax: mx, Shape: f.F,
					Note: "inner faces on layers of the sampled lattice: " + f.Name}
				st.do(sp, fmt.Sprintf("on-lattice/%s/%s/%s", regime, rd, f.Name), rng)
			}
		}
	}
}
