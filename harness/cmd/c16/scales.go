package main

// C16, the SCALE and ULP-NEIGHBOURHOOD dimension (added after mutation C16d-m2: Interval.Overlap
// comparing the end points with the package tolerance 1e-12 instead of exactly was invisible to
// end points in {0,1,2,3}).
//
// "Two intervals overlap iff they share a value", "the reported squared distances equal the true
// ones" and "pruned equals exhaustive" are statements about ALL magnitudes.  A tolerance, a snap
// to zero, a strict instead of a weak comparison or a forgotten square are each visible only in a
// band of inputs: gaps / overlaps of 0, 1 ulp, a few ulps, 1e-15..1e-9 relative or absolute, and
// whole scenes that are small or large against a fixed constant.  The generators here sweep that
// band for the three oracles of the property:
//
//	overlapPairs   interval pairs whose facing end points differ by every perturbation of perts()
//	               at magnitudes 1e-12..1e12: adjacent (positive, mirrored negative, around 0 with
//	               denormal gaps and -0), point intervals, nested, nearly identical; and pairs
//	               PRODUCED by Box2/Box3.MinMaxDist2 of a near and a farther box (tiny .. huge,
//	               flat and point boxes) whose farthest / nearest distances are the perturbed ones.
//	               Judged by the exact rational "share a value" (here and again inside coqc).
//	scaleBoxes     MinMaxDist2 inputs scaled by 2^e (dyadic regime: results must EQUAL the rational
//	               clamp specification) and by 10^k, per-axis scales, and position classes
//	               "k ulps below / above min / max" next to the five classes of main.go.
//	scaleUnions    operand layouts (random and exact seams) scaled by 2^e and 10^k, and layouts in
//	               which the box of a second operand is at a distance within ulps / 1e-15..1e-9 of
//	               the value of the operand with the closest box (both sides, both operand orders).

import (
	"fmt"
	"math"
	"math/big"

	"github.com/deadsy/sdfx/sdf"
	v2 "github.com/deadsy/sdfx/vec/v2"
	v3 "github.com/deadsy/sdfx/vec/v3"
	. "verifharness/kit"
)

func stepUlps(x float64, k int) float64 {
	for ; k > 0; k-- {
		x = math.Nextafter(x, math.Inf(1))
	}
	for ; k < 0; k++ {
		x = math.Nextafter(x, math.Inf(-1))
	}
	return x
}

// pert moves a value by a small amount; scale is the magnitude of the scene (used for relative
// perturbations of 0).
type pert struct {
	name string
	f    func(x, scale float64) float64
}

var smallSteps = []float64{1e-15, 1e-14, 1e-13, 1e-12, 1e-11, 1e-10, 1e-9}

func perts() []pert {
	ps := []pert{{"0", func(x, _ float64) float64 { return x }}}
	for _, k := range []int{1, 2, 3, 16} {
		k := k
		ps = append(ps, pert{fmt.Sprintf("+%dulp", k), func(x, _ float64) float64 { return stepUlps(x, k) }},
			pert{fmt.Sprintf("-%dulp", k), func(x, _ float64) float64 { return stepUlps(x, -k) }})
	}
	rel := func(r float64) func(x, scale float64) float64 {
		return func(x, scale float64) float64 {
			if x == 0 {
				return r * scale
			}
			return x + r*math.Abs(x)
		}
	}
	for _, s := range smallSteps {
		s := s
		ps = append(ps, pert{fmt.Sprintf("rel+%g", s), rel(s)}, pert{fmt.Sprintf("rel-%g", s), rel(-s)},
			pert{fmt.Sprintf("abs+%g", s), func(x, _ float64) float64 { return x + s }},
			pert{fmt.Sprintf("abs-%g", s), func(x, _ float64) float64 { return x - s }})
	}
	// clearly apart / clearly overlapping at EVERY scale (a fixed tolerance swallows them at small scales)
	ps = append(ps, pert{"rel+0.25", rel(0.25)}, pert{"rel-0.25", rel(-0.25)}, pert{"rel+3", rel(3)})
	return ps
}

// decades: 10^-12 .. 10^12
func decades(step int) (out []int) {
	for e := -12; e <= 12; e += step {
		out = append(out, e)
	}
	return
}

type ivPair struct {
	stratum string
	a, b    sdf.Interval
	src     interface{} // how the pair was produced (MinMaxDist2 pairs)
}

func finite(xs ...float64) bool {
	for _, x := range xs {
		if math.IsNaN(x) || math.IsInf(x, 0) {
			return false
		}
	}
	return true
}

// overlapPairs: see the head of the file.
func overlapPairs(rng *Rng, tier string) (out []ivPair) {
	add := func(stratum string, a0, a1, b0, b1 float64, src interface{}) {
		if !finite(a0, a1, b0, b1) || a0 > a1 || b0 > b1 {
			return // the statement is about intervals (lo <= hi)
		}
		out = append(out, ivPair{stratum, sdf.Interval{a0, a1}, sdf.Interval{b0, b1}, src})
	}
	ps := perts()
	reps := TierN(tier, 1, 6, 3)
	rot := rng.Intn(2)
	for rep := 0; rep < reps; rep++ {
		for _, e := range decades(1) {
			// quick tier: "adjacent" and "points" at every decade, the other shapes at every second decade
			// (alternating, so that neighbouring decades cover all of them)
			shape := 0
			on := func() bool {
				shape++
				return tier != "quick" || (shape+e+rot+24)%2 == 0
			}
			m := math.Pow(10, float64(e))
			x := m * rng.Uniform(1, 2)
			w, w2 := x*rng.Uniform(0.1, 1), x*rng.Uniform(0.1, 1)
			if rep%2 == 1 { // intervals much longer / shorter than the magnitude of the facing end points
				w, w2 = x*rng.Uniform(10, 1000), x*rng.Uniform(1e-9, 1e-3)
			}
			reg := fmt.Sprintf("1e%+03d", e)
			for _, d := range ps {
				y := d.f(x, m)
				s := "/" + reg + "/" + d.name
				shape = 0
				add("overlap/adjacent"+s, x-w, x, y, y+w2, nil)
				if on() {
					add("overlap/adjacent-neg"+s, -x, -(x - w), -(y + w2), -y, nil)
				}
				if on() {
					add("overlap/point-a"+s, x, x, y, y+w2, nil)
				}
				if on() {
					add("overlap/point-b"+s, x-w, x, y, y, nil)
				}
				add("overlap/points"+s, x, x, y, y, nil)
				if on() {
					add("overlap/nested-hi"+s, x-w, x, x-w/2, y, nil)
				}
				if on() {
					add("overlap/nested-lo"+s, x-w, x, d.f(x-w, m), x-w/2, nil)
				}
				if on() {
					add("overlap/identical"+s, x-w, x, d.f(x-w, m), y, nil)
				}
				z := d.f(0, m)
				if on() {
					add("overlap/around0"+s, -w, 0, z, w2, nil)
				}
				if on() {
					add("overlap/around-0"+s, -w, math.Copysign(0, -1), z, w2, nil)
				}
				if on() {
					add("overlap/around0-neg"+s, -w2, -z, 0, w, nil)
				}
			}
		}
	}
	// intervals produced by MinMaxDist2 of a near and a farther box seen from one point
	for rep := 0; rep < reps; rep++ {
		for _, e := range decades(1) {
			s := math.Pow(10, float64(e))
			for dim := 2; dim <= 3; dim++ {
				px, py, pz := s*rng.Uniform(-1, 1), s*rng.Uniform(-1, 1), s*rng.Uniform(-1, 1)
				n0 := v3.Vec{X: px + s*rng.Uniform(0.5, 1), Y: py - s*rng.Uniform(0.1, 1), Z: pz - s*rng.Uniform(0.1, 1)}
				n1 := v3.Vec{X: n0.X + s*rng.Uniform(0.5, 1), Y: py + s*rng.Uniform(0.1, 1), Z: pz + s*rng.Uniform(0.1, 1)}
				kind := "box"
				switch rng.Intn(5) {
				case 0: // a point box: its interval is a single value
					n1, kind = n0, "pointbox"
				case 1: // a flat box
					n1.X, kind = n0.X, "flatbox"
				}
				var i0 sdf.Interval
				if dim == 2 {
					i0 = sdf.Box2{Min: v2.Vec{X: n0.X, Y: n0.Y}, Max: v2.Vec{X: n1.X, Y: n1.Y}}.MinMaxDist2(v2.Vec{X: px, Y: py})
				} else {
					i0 = sdf.Box3{Min: n0, Max: n1}.MinMaxDist2(v3.Vec{X: px, Y: py, Z: pz})
				}
				t := math.Sqrt(i0[1])
				wy, wz, wx := s*rng.Uniform(0.1, 1), s*rng.Uniform(0.1, 1), s*rng.Uniform(0.5, 2)
				for _, d := range ps {
					f0 := v3.Vec{X: px + d.f(t, s), Y: py - wy, Z: pz - wz}
					f1 := v3.Vec{X: f0.X + wx, Y: py + wy, Z: pz + wz}
					var i1 sdf.Interval
					var src interface{}
					if dim == 2 {
						i1 = sdf.Box2{Min: v2.Vec{X: f0.X, Y: f0.Y}, Max: v2.Vec{X: f1.X, Y: f1.Y}}.MinMaxDist2(v2.Vec{X: px, Y: py})
						src = map[string]interface{}{"p": [2]float64{px, py}, "near_box": [4]float64{n0.X, n0.Y, n1.X, n1.Y}, "far_box": [4]float64{f0.X, f0.Y, f1.X, f1.Y}}
					} else {
						i1 = sdf.Box3{Min: f0, Max: f1}.MinMaxDist2(v3.Vec{X: px, Y: py, Z: pz})
						src = map[string]interface{}{"p": [3]float64{px, py, pz}, "near_box": [6]float64{n0.X, n0.Y, n0.Z, n1.X, n1.Y, n1.Z}, "far_box": [6]float64{f0.X, f0.Y, f0.Z, f1.X, f1.Y, f1.Z}}
					}
					add(fmt.Sprintf("overlap/minmaxdist2-%dd-%s/1e%+03d/%s", dim, kind, e, d.name), i0[0], i0[1], i1[0], i1[1], src)
				}
			}
		}
	}
	return out
}

// shareValue: the exact specification, decided on the exact rational values of the end points.
func shareValue(a, b sdf.Interval) bool {
	lo, hi := rat(a[0]), rat(a[1])
	if rat(b[0]).Cmp(lo) > 0 {
		lo = rat(b[0])
	}
	if rat(b[1]).Cmp(hi) < 0 {
		hi = rat(b[1])
	}
	return lo.Cmp(hi) <= 0
}

type ivInput struct {
	A    [2]float64  `json:"interval_a"`
	B    [2]float64  `json:"interval_b"`
	Bits [4]string   `json:"bits"`
	From interface{} `json:"from,omitempty"`
}

// overlapCase evaluates Interval.Overlap in both orders against the exact specification and hands
// the pair to the Coq model (one order per case, alternating).
func overlapCase(r *Report, co *Cases, id *int, stratum string, a, b sdf.Interval, src interface{}) {
	*id++
	share := shareValue(a, b)
	gab, gba := a.Overlap(b), b.Overlap(a)
	if *id%2 == 0 {
		co.Add(fmt.Sprintf("(%d%%N, (%s,%s), (%s,%s), %s)", *id, CF(a[0]), CF(a[1]), CF(b[0]), CF(b[1]), CB(gab)))
	} else {
		co.Add(fmt.Sprintf("(%d%%N, (%s,%s), (%s,%s), %s)", *id, CF(b[0]), CF(b[1]), CF(a[0]), CF(a[1]), CB(gba)))
	}
	key := fmt.Sprintf("overlap:%x,%x,%x,%x", a[0], a[1], b[0], b[1])
	// the stratum of the report is the shape and the decade; the perturbation is part of the key
	r.Case(stratumHead(stratum, 3), key, true)
	for k, g := range []bool{gab, gba} {
		if g == share {
			continue
		}
		x, y := a, b
		if k == 1 {
			x, y = b, a
		}
		gap := new(big.Rat).Sub(rat(math.Max(a[0], b[0])), rat(math.Min(a[1], b[1])))
		gf, _ := gap.Float64()
		r.Violate(key, fmt.Sprintf("Interval{%v,%v}.Overlap(Interval{%v,%v}) = %v but the intervals share a value: %v (largest lower end minus smallest upper end = %g; stratum %s)",
			x[0], x[1], y[0], y[1], g, share, gf, stratum),
			ivInput{A: a, B: b, Bits: [4]string{fmt.Sprintf("%x", a[0]), fmt.Sprintf("%x", a[1]), fmt.Sprintf("%x", b[0]), fmt.Sprintf("%x", b[1])}, From: src})
		break
	}
}

// stratumHead keeps the first n components of a stratum path.
func stratumHead(s string, n int) string {
	for i := 0; i < len(s); i++ {
		if s[i] == '/' {
			n--
			if n == 0 {
				return s[:i]
			}
		}
	}
	return s
}

// ---------------------------------------------------------------- MinMaxDist2 at scales

type boxCase struct {
	stratum   string
	mn, mx, p [3]float64
	dim       int
	exact     bool
}

// coordinate classes 0..4 as genCoord; 5..8: k ulps below min, above min, below max, above max
func genCoordUlp(rng *Rng, lo, hi float64, class int, dy bool) (float64, bool) {
	if class < 5 {
		return genCoord(rng, lo, hi, class, dy), dy
	}
	k := []int{1, 1, 2, 3, 17}[rng.Intn(5)]
	switch class {
	case 5:
		return stepUlps(lo, -k), false
	case 6:
		return stepUlps(lo, k), false
	case 7:
		return stepUlps(hi, -k), false
	}
	return stepUlps(hi, k), false
}

func scaleBoxes(rng *Rng, tier string) (out []boxCase) {
	type regime struct {
		name  string
		f     [3]float64
		exact bool
	}
	var regs []regime
	for _, e := range []int{-40, -27, -13, 13, 27, 40} {
		f := math.Ldexp(1, e)
		regs = append(regs, regime{fmt.Sprintf("2^%d", e), [3]float64{f, f, f}, true})
	}
	for _, k := range []int{-12, -9, -7, -5, -3, 3, 5, 7, 9, 12} {
		f := math.Pow(10, float64(k))
		regs = append(regs, regime{fmt.Sprintf("1e%d", k), [3]float64{f, f, f}, false})
	}
	for i := 0; i < 3; i++ { // one scale per axis: boxes that are huge along one axis and tiny along another
		var f [3]float64
		for a := range f {
			f[a] = math.Pow(10, float64(rng.Range(-12, 12)))
		}
		regs = append(regs, regime{"per-axis", f, false})
	}
	regs = append(regs, regime{"1", [3]float64{1, 1, 1}, false}, regime{"1/dyadic", [3]float64{1, 1, 1}, true})
	n2, n3 := TierN(tier, 10, 81, 40), TierN(tier, 16, 300, 80)
	for _, rg := range regs {
		// the unscaled box; box and point are scaled together (exactly for 2^e)
		var lo0, hi0, lo, hi [3]float64
		for a := 0; a < 3; a++ {
			if rg.exact {
				lo0[a] = rng.Dyadic(32, 3)
				hi0[a] = lo0[a] + float64(rng.Range(0, 96))/8
				if rng.Intn(9) == 0 {
					hi0[a] = lo0[a]
				}
			} else {
				lo0[a] = rng.Uniform(-50, 50)
				hi0[a] = lo0[a] + rng.Uniform(0, 30)
				if rng.Intn(12) == 0 {
					hi0[a] = lo0[a]
				}
			}
			lo[a], hi[a] = lo0[a]*rg.f[a], hi0[a]*rg.f[a]
		}
		gen := func(dim, n int) {
			for k := 0; k < n; k++ {
				var p [3]float64
				ex, ulp := rg.exact, false
				for a := 0; a < dim; a++ {
					c := rng.Intn(9)
					if k%3 == 0 && c >= 5 {
						c = rng.Intn(5)
					}
					if c < 5 {
						p[a] = genCoord(rng, lo0[a], hi0[a], c, rg.exact) * rg.f[a]
					} else {
						p[a], _ = genCoordUlp(rng, lo[a], hi[a], c, false)
						ex, ulp = false, true
					}
				}
				kind := "classes"
				if ulp {
					kind = "ulp-classes"
				}
				out = append(out, boxCase{stratum: fmt.Sprintf("scale/%s/%s", rg.name, kind), dim: dim, exact: ex, p: p, mn: lo, mx: hi})
			}
		}
		gen(2, n2)
		gen(3, n3)
	}
	return out
}

// ---------------------------------------------------------------- unions at scales

func scaleUnion(u unionCase, f float64) unionCase {
	v := u
	v.P = [2]float64{u.P[0] * f, u.P[1] * f}
	v.Blend = u.Blend * f
	if u.Nested == 2 {
		// the inner blend scales with the scene (a fillet that is large against the scene takes the inner
		// union out of the class of operands whose value is at least the distance to their box)
		v.InnerK = 0.25 * f
		if u.InnerK != 0 {
			v.InnerK = u.InnerK * f
		}
	}
	v.Circles, v.Boxes, v.Empty = nil, nil, nil
	for _, c := range u.Circles {
		v.Circles = append(v.Circles, [3]float64{c[0] * f, c[1] * f, c[2] * f})
	}
	for _, b := range u.Boxes {
		v.Boxes = append(v.Boxes, [4]float64{b[0] * f, b[1] * f, b[2] * f, b[3] * f})
	}
	for _, e := range u.Empty {
		v.Empty = append(v.Empty, [4]float64{e[0] * f, e[1] * f, e[2] * f, e[3] * f})
	}
	return v
}

func scaleUnions(rng *Rng, tier string) (out []seamCase) {
	type fac struct {
		name string
		f    float64
	}
	var fs []fac
	for _, e := range []int{-40, -20, -10, 10, 20, 40} {
		fs = append(fs, fac{fmt.Sprintf("2^%d", e), math.Ldexp(1, e)})
	}
	for _, k := range []int{-12, -9, -7, -5, -3, 3, 6, 12} {
		fs = append(fs, fac{fmt.Sprintf("1e%d", k), math.Pow(10, float64(k))})
	}
	nr, ns := TierN(tier, 16, 200, 60), TierN(tier, 10, 120, 40)
	for _, f := range fs {
		for k := 0; k < nr; k++ {
			u, st := genUnion(rng, k, rng.Range(2, 7))
			out = append(out, seamCase{"scale/" + f.name + "/" + stratumHead(st, 1), scaleUnion(u, f.f)})
		}
		seams := seamUnions(rng, 6, 4)
		pm := rng.Perm(len(seams))
		for k := 0; k < ns && k < len(pm); k++ {
			sc := seams[pm[k]]
			out = append(out, seamCase{"scale/" + f.name + "/seam", scaleUnion(sc.u, f.f)})
		}
	}
	// ulp seams: operand i = a disc whose BOX is the closest one to the query point (the point lies
	// beyond a corner of the disc's box, so the disc's value dm exceeds its box distance); operand j =
	// a box whose near face is at distance D = dm perturbed (below: j decides the minimum and must not
	// be pruned; at or above: either way the value is dm); a third operand far away.  The query point
	// is the origin, where the box distance of j and the value of j are the same float.
	ps := perts()
	for _, e := range []int{-9, -6, -3, 0, 3, 6} {
		s := math.Pow(10, float64(e))
		reps := TierN(tier, 1, 8, 3)
		for rep := 0; rep < reps; rep++ {
			rr, t := s*rng.Uniform(0.5, 2), s*rng.Uniform(0.1, 1)
			c := -(rr + t)
			circ, err := sdf.Circle2D(rr)
			if err != nil {
				continue
			}
			dm := sdf.Transform2D(circ, sdf.Translate2d(v2.Vec{X: c, Y: c})).Evaluate(v2.Vec{})
			if !(dm > 0) {
				continue
			}
			hx, hy := s*float64(rng.Range(1, 16))/8, s*rng.Uniform(1, 2)
			for _, d := range ps {
				D := d.f(dm, s)
				if !(D > 0) {
					continue
				}
				u := unionCase{Circles: [][3]float64{{c, c, rr}}, Boxes: [][4]float64{{D + hx, 0, 2 * hx, 2 * hy}, {40 * s, -30 * s, s, s}}}
				out = append(out, seamCase{fmt.Sprintf("ulpseam/1e%d", e), u})
				u.Rev = true
				out = append(out, seamCase{fmt.Sprintf("ulpseam/1e%d/reversed", e), u})
			}
		}
	}
	return out
}
