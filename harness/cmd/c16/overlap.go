package main

// C16, overlapping evaluations: "for every operand set and point" includes operands that are not
// library shapes, and evaluations of the same union that overlap in time (the renderers evaluate
// one shape from many goroutines).  The pruned Evaluate works in two passes over per-operand
// box distances with operand evaluations in between; anything it keeps between the passes must
// belong to ONE evaluation.  The strata here make a second complete evaluation of the same union
// happen between the passes, deterministically:
//
//	reentrant  every operand is a probe operand (harness/concshapes/probe.go): while it is being
//	           evaluated it calls Evaluate of the enclosing union at another point (far away /
//	           inside the scene / the same point; depth <= 2..3), then returns its own value
//	gated      the evaluation is parked inside an operand while another goroutine evaluates the
//	           same union (nested: completely; crossed: up to its own operand, then the first
//	           evaluation finishes first)
//
// with operand counts 1, 2, 63, 64, 65, 100, 300 and random 2..7, plain minimum and PolyMin.
// Oracles: the value of every evaluation (outer and nested) must be the value of EvaluateSlow of
// a second union built from the plain operands (bit-exact with the plain minimum, same sign with
// a blend) and the fold of the operand values; a subset is also sent through the Gallina model.

import (
	"encoding/json"
	"fmt"
	"math"
	"os"

	"github.com/deadsy/sdfx/sdf"
	v2 "github.com/deadsy/sdfx/vec/v2"
	"verifharness/concshapes"
	. "verifharness/kit"
)

// plainOps builds the operands of a union case (library shapes only).
func plainOps(u unionCase) []sdf.SDF2 {
	var ops []sdf.SDF2
	add := func(s sdf.SDF2, pos v2.Vec) { ops = append(ops, sdf.Transform2D(s, sdf.Translate2d(pos))) }
	for _, ci := range u.Circles {
		if s, err := sdf.Circle2D(ci[2]); err == nil {
			add(s, v2.Vec{X: ci[0], Y: ci[1]})
		}
	}
	for _, bi := range u.Boxes {
		add(sdf.Box2D(v2.Vec{X: bi[2], Y: bi[3]}, 0), v2.Vec{X: bi[0], Y: bi[1]})
	}
	for _, e := range u.Empty {
		b := sdf.Box2D(v2.Vec{X: e[3], Y: e[3]}, 0)
		l := sdf.Transform2D(b, sdf.Translate2d(v2.Vec{X: -e[2]}))
		rr := sdf.Transform2D(b, sdf.Translate2d(v2.Vec{X: e[2]}))
		add(sdf.Intersect2D(l, rr), v2.Vec{X: e[0], Y: e[1]})
	}
	if u.Rev {
		for i, j := 0, len(ops)-1; i < j; i, j = i+1, j-1 {
			ops[i], ops[j] = ops[j], ops[i]
		}
	}
	return ops
}

// assemble builds the union of a case from the given operands (nested: the first two operands
// form an inner plain union, which is then ONE operand of the outer union).
func assemble(u unionCase, ops []sdf.SDF2) (top sdf.SDF2, outer []sdf.SDF2) {
	outer = ops
	if u.Nested > 0 && len(ops) >= 3 {
		outer = append([]sdf.SDF2{sdf.Union2D(ops[0], ops[1])}, ops[2:]...)
	}
	top = sdf.Union2D(outer...)
	if un, ok := top.(*sdf.UnionSDF2); ok && u.Blend > 0 {
		un.SetMin(sdf.PolyMin(u.Blend))
	}
	return
}

type overlapInput struct {
	Mode    string          `json:"mode"` // reentrant | gated-nested | gated-crossed
	Case    unionCase       `json:"case"`
	Qs      []concshapes.Pt `json:"candidate_points"`       // where the other evaluations are made (re-entrant: chosen by depth and call index; gated: the first)
	Others  []concshapes.Pt `json:"other_points,omitempty"` // the points at which other evaluations were actually made
	PerLvl  []int           `json:"reentries_per_level,omitempty"`
	Skip    int             `json:"parked_at_operand_call,omitempty"`
	Operand int             `json:"operands"`
}

func overlapStrata(c *Ctx, r *Report, rng *Rng, cu *Cases, id *int, cpOverlap []overlapInput) {
	// the exhaustive value of the reference union and the fold of the operand values at p
	type refs struct {
		slow, manual float64
		terms        []string
	}
	reference := func(u unionCase, ref sdf.SDF2, outer []sdf.SDF2, p v2.Vec, withTerms bool) (x refs) {
		if un, ok := ref.(*sdf.UnionSDF2); ok {
			x.slow = un.EvaluateSlow(p)
		} else {
			x.slow = ref.Evaluate(p)
		}
		for i, o := range outer {
			v := o.Evaluate(p)
			switch {
			case i == 0:
				x.manual = v
			case u.Blend > 0:
				x.manual = sdf.PolyMin(u.Blend)(x.manual, v)
			default:
				x.manual = math.Min(x.manual, v)
			}
			if withTerms {
				bb := o.BoundingBox()
				x.terms = append(x.terms, fmt.Sprintf("((%s,%s,%s,%s), %s)", CF(bb.Min.X), CF(bb.Min.Y), CF(bb.Max.X), CF(bb.Max.Y), CF(v)))
			}
		}
		return
	}
	modelCases := 0
	// a union that holds a lock across its operand evaluations cannot be re-entered and serialises
	// concurrent evaluations: that is not a finding; after two such runs in a row the mode is not tried again
	// (each costs a watchdog timeout)
	blocked := map[bool]int{}
	exec := func(stratum string, inp overlapInput, model bool) {
		u, mode, qs := inp.Case, inp.Mode, inp.Qs
		ops := plainOps(u)
		if len(ops) == 0 || len(qs) == 0 {
			return
		}
		if blocked[mode == "reentrant"] >= 2 {
			r.Case("union/overlap/"+mode+"/skipped-evaluations-are-serialised", "", false)
			return
		}
		pr := &concshapes.Probe{}
		probed, _ := assemble(u, concshapes.Wrap2(ops, pr))
		ref, outer := assemble(u, ops)
		h := concshapes.NewHost2("union2d", probed, ref, pr)
		p := concshapes.Pt{u.P[0], u.P[1]}
		inp.Operand = len(ops)
		inp.Others = nil
		type ev struct {
			p    concshapes.Pt
			got  float64
			what string
		}
		var evs []ev
		switch mode {
		case "reentrant":
			if len(inp.PerLvl) == 0 {
				inp.PerLvl = []int{4, 1}
			}
			res := h.Reentrant(p, qs, inp.PerLvl)
			if res.Blocked {
				blocked[true]++
				r.Case("union/overlap/"+stratum+"/blocked", "", false)
				return // the union holds a lock across operand evaluations: covered by the gated strata
			}
			if res.Panic != "" {
				b, _ := json.Marshal(inp)
				r.Violate("union-overlap:"+string(b), "panic in Union2D Evaluate re-entered from an operand: "+res.Panic, inp)
				return
			}
			blocked[true] = 0
			evs = append(evs, ev{p, res.Got, fmt.Sprintf("the evaluation during whose operand calls %d other evaluation(s) of the same union were made", len(res.Nested))})
			for _, ne := range res.Nested {
				inp.Others = append(inp.Others, ne.Q)
				evs = append(evs, ev{ne.Q, ne.Got, fmt.Sprintf("an evaluation made from inside operand call %d (depth %d) of the evaluation at %v", ne.Call, ne.Depth, u.P)})
			}
		default:
			res := h.Gated(p, qs[0], inp.Skip, mode == "gated-crossed")
			inp.Others = []concshapes.Pt{qs[0]}
			inp.Qs = qs[:1]
			b, _ := json.Marshal(inp)
			if res.Hang != "" || res.Panic != "" {
				r.Violate("union-overlap:"+string(b), "Union2D Evaluate from two goroutines: "+res.Hang+res.Panic, inp)
				return
			}
			if !res.Entered {
				stratum += "/not-parked"
			}
			if res.Blocked {
				blocked[false]++
				stratum += "/serialised"
			} else if res.Entered {
				blocked[false] = 0 // consecutive runs only: a stall of a busy machine is not a lock
			}
			evs = append(evs, ev{p, res.Got, "the evaluation parked inside an operand while another goroutine evaluated the same union"},
				ev{qs[0], res.Got2, "the evaluation that ran while another one of the same union was parked inside an operand"})
		}
		b, _ := json.Marshal(inp)
		key := "union-overlap:" + string(b)
		r.Case("union/overlap/"+stratum, key, true)
		for i, e := range evs {
			pv := v2.Vec{X: e.p[0], Y: e.p[1]}
			x := reference(u, ref, outer, pv, model && i < 2)
			bad := false
			if u.Blend == 0 {
				bad = e.got != x.slow || e.got != x.manual
			} else {
				bad = (e.got < 0) != (x.slow < 0) || (e.got < 0) != (x.manual < 0)
			}
			if bad {
				r.Violate(key, fmt.Sprintf("Union2D of %d operands (blend %v), evaluations of the same union overlapping in time (%s): Evaluate(%v, %v) = %v but EvaluateSlow of the same operands = %v (fold of the operand values %v); %s",
					len(ops), u.Blend, mode, e.p[0], e.p[1], e.got, x.slow, x.manual, e.what), inp)
			}
			if model && i < 2 && len(outer) >= 2 {
				*id++
				modelCases++
				bl := "None"
				if u.Blend > 0 {
					bl = "(Some " + CF(u.Blend) + ")"
				}
				cu.Add(fmt.Sprintf("(%d%%N, %s, (%s,%s), %s, %s, %s)", *id, bl, CF(pv.X), CF(pv.Y), CList(x.terms), CF(e.got), CF(x.slow)))
			}
		}
		if modelCases%41 == 1 && model {
			r.Sample(map[string]interface{}{"kind": "union-overlap", "input": inp, "evaluate": evs[0].got})
		}
	}
	// run draws the other points and the schedule parameters for a case
	run := func(stratum string, u unionCase, mode string, k int, model bool) {
		ops := plainOps(u)
		if len(ops) == 0 {
			return
		}
		ref, _ := assemble(u, ops)
		p := concshapes.Pt{u.P[0], u.P[1]}
		// the other points: far from everything (its box distances prune every operand), inside
		// the scene, at an operand, the same point
		bb := ref.BoundingBox()
		ctr, sz := bb.Center(), bb.Size()
		far := func() concshapes.Pt {
			d := (sz.X + sz.Y + 1) * rng.Uniform(20, 50)
			a := rng.Uniform(0, 2*math.Pi)
			return concshapes.Pt{ctr.X + d*math.Cos(a), ctr.Y + d*math.Sin(a)}
		}
		in := func() concshapes.Pt {
			return concshapes.Pt{ctr.X + sz.X*rng.Uniform(-0.6, 0.6), ctr.Y + sz.Y*rng.Uniform(-0.6, 0.6)}
		}
		at := func() concshapes.Pt {
			ob := ops[rng.Intn(len(ops))].BoundingBox()
			return concshapes.Pt{ob.Center().X, ob.Center().Y}
		}
		qs := []concshapes.Pt{far(), in(), at(), far(), p}
		if k%3 == 1 {
			qs[0], qs[1] = qs[1], qs[0]
		} else if k%3 == 2 {
			qs[0], qs[2] = qs[2], qs[0]
		}
		inp := overlapInput{Mode: mode, Case: u, Qs: qs}
		if mode == "reentrant" {
			inp.PerLvl = []int{4, 1}
			if k%4 == 3 {
				inp.PerLvl = []int{2, 2, 1}
			}
		} else {
			inp.Skip = k % 3 % 2
		}
		exec(stratum, inp, model)
	}
	// replay file / corpus first
	for _, inp := range replayOverlaps(c) {
		exec(inp.Mode+"/replay", inp, true)
	}
	for _, inp := range cpOverlap {
		exec(inp.Mode+"/corpus", inp, true)
	}

	modes := []string{"reentrant", "reentrant", "reentrant", "gated-nested", "gated-crossed"}
	// fixed operand counts
	per := TierN(c.Tier, 30, 300, 100)
	for _, n := range thresholdCounts {
		for k := 0; k < per; k++ {
			u, _ := genUnion(rng, k, n)
			u.Empty = nil
			if k%7 != 3 {
				u.Nested = 0
			}
			if k%3 == 2 && k%2 == 0 {
				u.Blend = 0 // most of the cases use the plain minimum: that is where pruning happens
			}
			mode := modes[k%len(modes)]
			run(fmt.Sprintf("%s/n%d", mode, n), u, mode, k, n < 8 || k < 4)
		}
	}
	// random small unions
	for k := 0; k < TierN(c.Tier, 300, 6000, 1200); k++ {
		u, _ := genUnion(rng, k, rng.Range(2, 7))
		if k%3 == 2 && k%2 == 0 {
			u.Blend = 0
		}
		mode := modes[k%len(modes)]
		run(mode+"/n2-7", u, mode, k, k%3 == 0)
	}
	r.Coverage["union_overlap_model_cases"] = modelCases
}

// replayOverlaps reads the overlap inputs of a replay file written by the check driver.
func replayOverlaps(c *Ctx) (out []overlapInput) {
	if c.Replay == "" {
		return nil
	}
	var rp struct {
		FailingInputs []struct {
			Input json.RawMessage `json:"input"`
		} `json:"failing_inputs"`
	}
	b, err := os.ReadFile(c.Replay)
	if err != nil || json.Unmarshal(b, &rp) != nil {
		return nil
	}
	for _, fi := range rp.FailingInputs {
		var inp overlapInput
		if json.Unmarshal(fi.Input, &inp) == nil && inp.Mode != "" && len(inp.Qs) > 0 {
			out = append(out, inp)
		}
	}
	return
}
