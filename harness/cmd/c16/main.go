package main

// C16: point/box squared-distance intervals (Box2/Box3.MinMaxDist2), Interval.Overlap and
// the bounding-box pruned UnionSDF2.Evaluate against EvaluateSlow.
// Model: coq/Geo/Box.v, coq/Sdf/Union2.v (cases evaluated by coq/Sdf/C16Corr.v).

import (
	"encoding/json"
	"fmt"
	"math"
	"math/big"
	"os"
	"path/filepath"
	"strings"

	"github.com/deadsy/sdfx/sdf"
	v2 "github.com/deadsy/sdfx/vec/v2"
	v3 "github.com/deadsy/sdfx/vec/v3"
	"verifharness/exprgen"
	. "verifharness/kit"
	"verifharness/sdfgen"
)

func main() { Main("C16", check, stateGen, exprgen.Gen, sdfgen.Gen) }

const imp = "From Sdfx Require Import Sdf.C16Corr.\nOpen Scope float_scope."

type corpus struct {
	Box3 []struct {
		Min, Max, P [3]float64
	} `json:"box3"`
	Box2 []struct {
		Min, Max, P [2]float64
	} `json:"box2"`
	Union []unionCase `json:"union"`
	// evaluations of one union overlapping in time (overlap.go)
	Overlap []overlapInput `json:"overlap"`
	// Evaluate / EvaluateSlow / SetMin sequences on one union value (history.go)
	History []histInput `json:"history"`
}

type unionCase struct {
	Blend   float64      `json:"blend"` // 0 = plain minimum, k > 0 = PolyMin(k)
	P       [2]float64   `json:"p"`
	Circles [][3]float64 `json:"circles"`            // x, y, r
	Boxes   [][4]float64 `json:"boxes"`              // cx, cy, sx, sy
	Nested  int          `json:"nested,omitempty"`   // 1: the first two operands form an inner plain Union2D; 2: the inner union gets the blend AFTER the outer was built
	Empty   [][4]float64 `json:"empty"`              // cx, cy, gap, size: Intersect2D of two disjoint boxes at cx-gap and cx+gap (no solid point in its box)
	InnerK  float64      `json:"inner_k,omitempty"`  // nested == 2: the k of the inner PolyMin (0: 0.25; scaled layouts scale it with the scene)
	Rev     bool         `json:"reversed,omitempty"` // the operands (circles, boxes, empty in this order) are passed in reverse order
	// absent operands: Nils[i] nil arguments are passed before operand i of the (outer) Union2D call, entries at and
	// beyond the number of operands after the last one ("strip out any nils": the union denotes the same shape)
	Nils []int `json:"nils,omitempty"`
}

// withNils returns the argument list: the operands with the nil arguments of the pattern in place
func withNils(ops []sdf.SDF2, nils []int) []sdf.SDF2 {
	var args []sdf.SDF2
	for i, o := range ops {
		if i < len(nils) {
			for k := 0; k < nils[i]; k++ {
				args = append(args, nil)
			}
		}
		args = append(args, o)
	}
	for i := len(ops); i < len(nils); i++ {
		for k := 0; k < nils[i]; k++ {
			args = append(args, nil)
		}
	}
	return args
}

// nilPattern: where the absent operands sit among n operands (class k): leading, trailing, one interior
// gap, every gap, a random subset of the gaps with runs of 1..3
func nilPattern(rng *Rng, k, n int) ([]int, string) {
	g := make([]int, n+1)
	switch k % 6 {
	case 0:
		g[0] = rng.Range(1, 2)
		return g, "leading"
	case 1:
		g[n] = rng.Range(1, 2)
		return g, "trailing"
	case 2:
		g[rng.Range(1, n-1)] = rng.Range(1, 2)
		return g, "interior"
	case 3:
		for i := range g {
			g[i] = 1
		}
		return g, "every-gap"
	}
	tot := 0
	for i := range g {
		if rng.Intn(2) == 0 {
			g[i] = rng.Range(1, 3)
			tot += g[i]
		}
	}
	if tot == 0 {
		g[rng.Range(0, n-1)] = 2
	}
	return g, "several"
}

func rat(x float64) *big.Rat { return new(big.Rat).SetFloat64(x) }

// exact clamp specification (rational arithmetic)
func specAxis(lo, hi, p float64) (mn, mx *big.Rat) {
	c := p
	if p < lo {
		c = lo
	} else if p > hi {
		c = hi
	}
	d := new(big.Rat).Sub(rat(p), rat(c))
	mn = new(big.Rat).Mul(d, d)
	a := new(big.Rat).Sub(rat(p), rat(lo))
	a.Mul(a, a)
	b := new(big.Rat).Sub(rat(p), rat(hi))
	b.Mul(b, b)
	mx = a
	if b.Cmp(a) > 0 {
		mx = b
	}
	return
}

func relErr(g float64, s *big.Rat) float64 {
	sf, _ := s.Float64()
	d := new(big.Rat).Sub(rat(g), s)
	df, _ := d.Float64()
	if sf == 0 {
		// a true distance of exactly 0 (point in the box) is reported as 0: no absolute tolerance,
		// a scene may be as small as it likes (the Coq side, qclose, allows 1e-300)
		if math.Abs(df) <= 1e-300 {
			return 0
		}
		return math.Inf(1)
	}
	return math.Abs(df) / math.Abs(sf)
}

// position of p relative to [lo,hi]: 0 below, 1 on lo, 2 inside, 3 on hi, 4 above
func genCoord(rng *Rng, lo, hi float64, class int, dy bool) float64 {
	w := hi - lo
	switch class {
	case 0:
		if dy {
			return lo - float64(rng.Range(1, 64))/8
		}
		return lo - rng.Uniform(1e-9, 3*w+1)
	case 1:
		return lo
	case 2:
		if w == 0 {
			return lo
		}
		if dy {
			k := rng.Range(0, 16)
			return lo + w*float64(k)/16
		}
		return lo + w*rng.Float()
	case 3:
		return hi
	}
	if dy {
		return hi + float64(rng.Range(1, 64))/8
	}
	return hi + rng.Uniform(1e-9, 3*w+1)
}

// thresholdCounts: operand counts of the strata with a fixed number of operands.
var thresholdCounts = []int{1, 2, 63, 64, 65, 100, 300}

// genUnion draws an operand layout with n circles/boxes (+ possibly an operand with an empty
// solid) and a query point; k selects the layout / point / blend regime.
func genUnion(rng *Rng, k, n int) (u unionCase, stratum string) {
	spread := []float64{1, 4, 20, 100}[rng.Intn(4)]
	for i := 0; i < n; i++ {
		x, y := rng.Dyadic(spread, 4), rng.Dyadic(spread, 4)
		if k%5 == 4 && i > 0 { // nested / equal boxes
			x, y = u.P[0], u.P[1]
			if len(u.Circles) > 0 {
				x, y = u.Circles[0][0], u.Circles[0][1]
			}
		}
		if rng.Bool() {
			u.Circles = append(u.Circles, [3]float64{x, y, float64(rng.Range(1, 40)) / 8})
		} else {
			u.Boxes = append(u.Boxes, [4]float64{x, y, float64(rng.Range(1, 40)) / 8, float64(rng.Range(1, 40)) / 8})
		}
	}
	if k%4 == 3 && n >= 3 {
		u.Nested = 1 + k%8/4
	}
	if k%6 == 1 {
		// an operand whose solid is empty (its box is not): pruning must not rely on material in the box
		sz := float64(rng.Range(4, 24)) / 8
		u.Empty = append(u.Empty, [4]float64{rng.Dyadic(spread, 4), rng.Dyadic(spread, 4), sz + float64(rng.Range(1, 16))/8, sz})
	}
	// query points: random, near an operand boundary, at a box corner, far away
	switch k % 4 {
	case 0:
		u.P = [2]float64{rng.Uniform(-spread*1.5, spread*1.5), rng.Uniform(-spread*1.5, spread*1.5)}
	case 1:
		u.P = [2]float64{rng.Dyadic(spread*1.5, 3), rng.Dyadic(spread*1.5, 3)}
	case 2:
		u.P = [2]float64{rng.Uniform(-3, 3) * spread * 10, rng.Uniform(-3, 3) * spread * 10}
	default:
		if len(u.Circles) > 0 {
			ci := u.Circles[rng.Intn(len(u.Circles))]
			u.P = [2]float64{ci[0] + ci[2], ci[1] - ci[2]} // corner of the circle's box
		} else {
			bi := u.Boxes[rng.Intn(len(u.Boxes))]
			u.P = [2]float64{bi[0] - bi[2]/2, bi[1] + bi[3]/2}
		}
	}
	stratum = "plain"
	if k%3 == 2 {
		u.Blend = []float64{0.01, 0.1, 1, 10, 1000}[rng.Intn(5)]
		stratum = "polymin"
	}
	return u, fmt.Sprintf("%s/spread%g", stratum, spread)
}

func check(c *Ctx, r *Report) error {
	rng := NewRng(c.Seed)
	var cp corpus
	if b, err := os.ReadFile(filepath.Join(c.Verif, "corpus", "C16.json")); err == nil {
		if err := json.Unmarshal(b, &cp); err != nil {
			return err
		}
	}
	c2 := &Cases{Kind: "box2", Imports: imp, Type: "case2", Fn: "mismatches2", InfoFn: "inexact2", PerShard: 250}
	c3 := &Cases{Kind: "box3", Imports: imp, Type: "case3", Fn: "mismatches3", InfoFn: "inexact3", PerShard: 300}
	co := &Cases{Kind: "overlap", Imports: imp, Type: "caseo", Fn: "mismatchesoq", PerShard: 2500}
	cu := &Cases{Kind: "union", Imports: imp, Type: "caseu", Fn: "mismatchesu", PerShard: 300}
	id := 0

	box3 := func(stratum string, mn, mx, p v3.Vec, exact bool) {
		id++
		b := sdf.Box3{Min: mn, Max: mx}
		iv := b.MinMaxDist2(p)
		c3.Add(fmt.Sprintf("(%d%%N, %s, (%s,%s,%s,%s,%s,%s), (%s,%s,%s), (%s,%s))", id, CB(exact),
			CF(mn.X), CF(mn.Y), CF(mn.Z), CF(mx.X), CF(mx.Y), CF(mx.Z), CF(p.X), CF(p.Y), CF(p.Z), CF(iv[0]), CF(iv[1])))
		key := fmt.Sprintf("box3:%x,%x,%x|%x,%x,%x|%x,%x,%x", mn.X, mn.Y, mn.Z, mx.X, mx.Y, mx.Z, p.X, p.Y, p.Z)
		r.Case("box3/"+stratum, key, true)
		// direct oracle: exact clamp specification
		lo, hi := new(big.Rat), new(big.Rat)
		for _, ax := range [][3]float64{{mn.X, mx.X, p.X}, {mn.Y, mx.Y, p.Y}, {mn.Z, mx.Z, p.Z}} {
			a, b := specAxis(ax[0], ax[1], ax[2])
			lo.Add(lo, a)
			hi.Add(hi, b)
		}
		if e1, e2 := relErr(iv[0], lo), relErr(iv[1], hi); e1 > 1e-12 || e2 > 1e-12 {
			lf, _ := lo.Float64()
			hf, _ := hi.Float64()
			r.Violate(key, fmt.Sprintf("Box3.MinMaxDist2 = [%g, %g] but the true nearest/farthest squared distances are [%g, %g]", iv[0], iv[1], lf, hf),
				map[string]interface{}{"min": mn, "max": mx, "p": p})
		}
		if id%211 == 0 {
			r.Sample(map[string]interface{}{"kind": "box3", "min": mn, "max": mx, "p": p, "go": iv})
		}
	}
	box2 := func(stratum string, mn, mx, p v2.Vec, exact bool) {
		id++
		b := sdf.Box2{Min: mn, Max: mx}
		iv := b.MinMaxDist2(p)
		c2.Add(fmt.Sprintf("(%d%%N, %s, (%s,%s,%s,%s), (%s,%s), (%s,%s))", id, CB(exact),
			CF(mn.X), CF(mn.Y), CF(mx.X), CF(mx.Y), CF(p.X), CF(p.Y), CF(iv[0]), CF(iv[1])))
		key := fmt.Sprintf("box2:%x,%x|%x,%x|%x,%x", mn.X, mn.Y, mx.X, mx.Y, p.X, p.Y)
		r.Case("box2/"+stratum, key, true)
		lo, hi := new(big.Rat), new(big.Rat)
		for _, ax := range [][3]float64{{mn.X, mx.X, p.X}, {mn.Y, mx.Y, p.Y}} {
			a, b := specAxis(ax[0], ax[1], ax[2])
			lo.Add(lo, a)
			hi.Add(hi, b)
		}
		if e1, e2 := relErr(iv[0], lo), relErr(iv[1], hi); e1 > 1e-12 || e2 > 1e-12 {
			lf, _ := lo.Float64()
			hf, _ := hi.Float64()
			r.Violate(key, fmt.Sprintf("Box2.MinMaxDist2 = [%g, %g] but the true nearest/farthest squared distances are [%g, %g]", iv[0], iv[1], lf, hf),
				map[string]interface{}{"min": mn, "max": mx, "p": p})
		}
		if id%211 == 0 {
			r.Sample(map[string]interface{}{"kind": "box2", "min": mn, "max": mx, "p": p, "go": iv})
		}
	}

	for _, e := range cp.Box3 {
		box3("corpus", v3.Vec{X: e.Min[0], Y: e.Min[1], Z: e.Min[2]}, v3.Vec{X: e.Max[0], Y: e.Max[1], Z: e.Max[2]}, v3.Vec{X: e.P[0], Y: e.P[1], Z: e.P[2]}, false)
	}
	for _, e := range cp.Box2 {
		box2("corpus", v2.Vec{X: e.Min[0], Y: e.Min[1]}, v2.Vec{X: e.Max[0], Y: e.Max[1]}, v2.Vec{X: e.P[0], Y: e.P[1]}, false)
	}

	// all 125 (3D) / 25 (2D) position classes, several boxes each, dyadic-exact and rounding regimes
	reps := TierN(c.Tier, 6, 120, 24)
	for rep := 0; rep < reps; rep++ {
		dy := rep%2 == 0
		mk := func() (float64, float64) {
			if dy {
				lo := rng.Dyadic(32, 3)
				w := float64(rng.Range(0, 96)) / 8
				if rng.Intn(9) == 0 {
					w = 0 // degenerate box
				}
				return lo, lo + w
			}
			lo := rng.Uniform(-50, 50)
			return lo, lo + rng.Uniform(0, 30)
		}
		lx, hx := mk()
		ly, hy := mk()
		lz, hz := mk()
		reg := "rounding"
		if dy {
			reg = "dyadic"
		}
		for cx := 0; cx < 5; cx++ {
			for cy := 0; cy < 5; cy++ {
				px, py := genCoord(rng, lx, hx, cx, dy), genCoord(rng, ly, hy, cy, dy)
				box2(fmt.Sprintf("%s/class%d%d", reg, cx, cy), v2.Vec{X: lx, Y: ly}, v2.Vec{X: hx, Y: hy}, v2.Vec{X: px, Y: py}, dy)
				for cz := 0; cz < 5; cz++ {
					pz := genCoord(rng, lz, hz, cz, dy)
					box3(fmt.Sprintf("%s/class%d%d%d", reg, cx, cy, cz), v3.Vec{X: lx, Y: ly, Z: lz}, v3.Vec{X: hx, Y: hy, Z: hz}, v3.Vec{X: px, Y: py, Z: pz}, dy)
				}
			}
		}
	}

	// Interval.Overlap on all orderings of four endpoints (ties included)
	vals := []float64{0, 1, 2, 3}
	for _, a0 := range vals {
		for _, a1 := range vals {
			for _, b0 := range vals {
				for _, b1 := range vals {
					if a0 > a1 || b0 > b1 {
						continue
					}
					overlapCase(r, co, &id, "overlap/endpoints0123", sdf.Interval{a0, a1}, sdf.Interval{b0, b1}, nil)
				}
			}
		}
	}
	// the same oracle at every magnitude and in the ulp / 1e-15..1e-9 neighbourhood of touching (scales.go)
	for _, pr := range replayPairs(c) {
		overlapCase(r, co, &id, "overlap/replay", pr.a, pr.b, pr.src)
	}
	for _, pr := range overlapPairs(NewRng(c.Seed^0x0e1a9), c.Tier) {
		overlapCase(r, co, &id, pr.stratum, pr.a, pr.b, pr.src)
	}
	// MinMaxDist2 at scales 2^-40..2^40 (exact regime) and 1e-12..1e12, with the ulp position classes (scales.go)
	for _, bc := range scaleBoxes(NewRng(c.Seed^0x5ca1e), c.Tier) {
		if bc.dim == 2 {
			box2(bc.stratum, v2.Vec{X: bc.mn[0], Y: bc.mn[1]}, v2.Vec{X: bc.mx[0], Y: bc.mx[1]}, v2.Vec{X: bc.p[0], Y: bc.p[1]}, bc.exact)
		} else {
			box3(bc.stratum, v3.Vec{X: bc.mn[0], Y: bc.mn[1], Z: bc.mn[2]}, v3.Vec{X: bc.mx[0], Y: bc.mx[1], Z: bc.mx[2]}, v3.Vec{X: bc.p[0], Y: bc.p[1], Z: bc.p[2]}, bc.exact)
		}
	}

	// unions of circles and boxes (operands exact and enclosed by their boxes: the class of the theorem)
	unionHyp := [3]int{}
	union := func(stratum string, u unionCase) {
		id++
		var ops []sdf.SDF2
		var terms []string
		p := v2.Vec{X: u.P[0], Y: u.P[1]}
		add := func(s sdf.SDF2, pos v2.Vec) {
			s = sdf.Transform2D(s, sdf.Translate2d(pos))
			ops = append(ops, s)
			bb := s.BoundingBox()
			terms = append(terms, fmt.Sprintf("((%s,%s,%s,%s), %s)", CF(bb.Min.X), CF(bb.Min.Y), CF(bb.Max.X), CF(bb.Max.Y), CF(s.Evaluate(p))))
		}
		for _, ci := range u.Circles {
			s, err := sdf.Circle2D(ci[2])
			if err != nil {
				continue
			}
			add(s, v2.Vec{X: ci[0], Y: ci[1]})
		}
		for _, bi := range u.Boxes {
			add(sdf.Box2D(v2.Vec{X: bi[2], Y: bi[3]}, 0), v2.Vec{X: bi[0], Y: bi[1]})
		}
		for _, e := range u.Empty {
			b := sdf.Box2D(v2.Vec{X: e[3], Y: e[3]}, 0)
			l := sdf.Transform2D(b, sdf.Translate2d(v2.Vec{X: -e[2]}))
			rr := sdf.Transform2D(b, sdf.Translate2d(v2.Vec{X: e[2]}))
			add(sdf.Intersect2D(l, rr), v2.Vec{X: e[0], Y: e[1]})
		}
		if len(ops) < 2 {
			return
		}
		if u.Rev {
			for i, j := 0, len(ops)-1; i < j; i, j = i+1, j-1 {
				ops[i], ops[j] = ops[j], ops[i]
				terms[i], terms[j] = terms[j], terms[i]
			}
		}
		// nested unions: the operands of the outer union are what the caller passed, the inner union included
		var inner *sdf.UnionSDF2
		if u.Nested > 0 && len(ops) >= 3 {
			inner = sdf.Union2D(ops[0], ops[1]).(*sdf.UnionSDF2)
			bbi := inner.BoundingBox()
			ops = append([]sdf.SDF2{inner}, ops[2:]...)
			terms = append([]string{fmt.Sprintf("((%s,%s,%s,%s), %s)", CF(bbi.Min.X), CF(bbi.Min.Y), CF(bbi.Max.X), CF(bbi.Max.Y), CF(inner.Evaluate(p)))}, terms[2:]...)
		}
		args := ops
		if len(u.Nils) > 0 {
			args = withNils(ops, u.Nils)
		}
		un := sdf.Union2D(args...).(*sdf.UnionSDF2)
		bl := "None"
		if u.Blend > 0 {
			un.SetMin(sdf.PolyMin(u.Blend))
			bl = "(Some " + CF(u.Blend) + ")"
		}
		if inner != nil && u.Nested == 2 {
			ik := u.InnerK
			if ik == 0 {
				ik = 0.25
			}
			inner.SetMin(sdf.PolyMin(ik)) // the operand changes after the outer union was built
			bbi := inner.BoundingBox()
			terms[0] = fmt.Sprintf("((%s,%s,%s,%s), %s)", CF(bbi.Min.X), CF(bbi.Min.Y), CF(bbi.Max.X), CF(bbi.Max.Y), CF(inner.Evaluate(p)))
		}
		ge, gs := un.Evaluate(p), un.EvaluateSlow(p)
		// the fold over the operands the caller passed, evaluated here
		manual := ops[0].Evaluate(p)
		for _, o := range ops[1:] {
			if u.Blend > 0 {
				manual = sdf.PolyMin(u.Blend)(manual, o.Evaluate(p))
			} else {
				manual = math.Min(manual, o.Evaluate(p))
			}
		}
		cu.Add(fmt.Sprintf("(%d%%N, %s, (%s,%s), %s, %s, %s)", id, bl, CF(p.X), CF(p.Y), CList(terms), CF(ge), CF(gs)))
		b, _ := json.Marshal(u)
		key := "union:" + string(b)
		r.Case("union/"+stratum, key, len(ops) >= 2)
		// plain minimum: bit-exact where the operands' computed values satisfy the hypothesis of the pruning
		// theorem in float64, within rounding where they miss it by rounding only (hypLevel in history.go)
		differ := func(a, b float64) bool { return a != b }
		if u.Blend == 0 {
			lvl, mag := hypLevel(ops, p)
			unionHyp[lvl]++
			if stratum == "corpus" {
				// corpus inputs (witnesses of fixed and known findings) are compared bit-exactly whatever the level
			} else if lvl == 1 {
				differ = func(a, b float64) bool { return !closeVals(a, b, mag) }
			} else if lvl == 2 {
				differ = func(a, b float64) bool { return false }
			}
		}
		if u.Blend == 0 && differ(ge, gs) {
			r.Violate(key, fmt.Sprintf("Union2D (plain minimum): pruned Evaluate = %v but exhaustive EvaluateSlow = %v", ge, gs), u)
		}
		if (u.Blend == 0 && differ(ge, manual)) || (u.Blend > 0 && (ge < 0) != (manual < 0)) {
			r.Violate(key, fmt.Sprintf("Union2D Evaluate = %v but folding the values of the operands that were passed gives %v (blend %v, nested %d)", ge, manual, u.Blend, u.Nested), u)
		}
		if u.Blend > 0 && (ge < 0) != (gs < 0) {
			r.Violate(key, fmt.Sprintf("Union2D with PolyMin(%v): pruned Evaluate = %v and exhaustive EvaluateSlow = %v differ in sign", u.Blend, ge, gs), u)
		}
		if len(args) != len(ops) {
			// the twin: the same call without the nil arguments answers bit for bit the same, has the same box
			tw := sdf.Union2D(ops...).(*sdf.UnionSDF2)
			if u.Blend > 0 {
				tw.SetMin(sdf.PolyMin(u.Blend))
			}
			te, ts := tw.Evaluate(p), tw.EvaluateSlow(p)
			same := func(a, b float64) bool {
				return math.Float64bits(a) == math.Float64bits(b) || (math.IsNaN(a) && math.IsNaN(b))
			}
			if !same(ge, te) || !same(gs, ts) {
				r.Violate(key, fmt.Sprintf("Union2D with nil arguments (pattern %v): Evaluate = %v, EvaluateSlow = %v, but the same call without them gives %v, %v", u.Nils, ge, gs, te, ts), u)
			}
			if un.BoundingBox() != tw.BoundingBox() {
				r.Violate(key, fmt.Sprintf("Union2D with nil arguments (pattern %v): bounding box %v, without them %v", u.Nils, un.BoundingBox(), tw.BoundingBox()), u)
			}
		}
		if id%97 == 0 {
			r.Sample(map[string]interface{}{"kind": "union", "case": u, "evaluate": ge, "slow": gs})
		}
	}
	for _, u := range cp.Union {
		union("corpus", u)
	}
	nu := TierN(c.Tier, 1500, 30000, 6000)
	for k := 0; k < nu; k++ {
		u, stratum := genUnion(rng, k, rng.Range(2, 7))
		union(stratum, u)
	}
	// operand counts around sizes an implementation may treat differently (fixed-size buffers,
	// a different data structure for large unions): 63, 64, 65, 100, 300 operands
	for _, n := range thresholdCounts {
		if n < 8 {
			continue // 2..7 are the random stratum above; 1 is not a union (Union2D returns the operand)
		}
		for k := 0; k < TierN(c.Tier, 6, 60, 20); k++ {
			u, stratum := genUnion(rng, 12*k+n%12, n)
			union(fmt.Sprintf("%s/n%d", stratum, n), u)
		}
	}
	// absent operands: the same generators (layouts, points, blends, nesting, empty operands, threshold counts)
	// with nil arguments in every position of the call; pruned = exhaustive = fold = the call without the nils
	{
		nrng := NewRng(c.Seed ^ 0x9115a465)
		for k := 0; k < TierN(c.Tier, 600, 12000, 3000); k++ {
			n := nrng.Range(2, 7)
			if k%50 == 49 {
				n = thresholdCounts[2+nrng.Intn(len(thresholdCounts)-2)]
			}
			u, stratum := genUnion(nrng, k/6, n)
			m := len(u.Circles) + len(u.Boxes) + len(u.Empty)
			if u.Nested > 0 && m >= 3 {
				m--
			}
			if m < 2 {
				continue
			}
			var pat string
			u.Nils, pat = nilPattern(nrng, k, m)
			union("nil-args/"+pat+"/"+stratum, u)
		}
	}
	// exact seams: query points on the boundary of one operand (value exactly 0) inside the box of another (seam.go)
	for _, sc := range seamUnions(NewRng(c.Seed^0x5ea3), TierN(c.Tier, 48, 800, 200), TierN(c.Tier, 8, 16, 12)) {
		union(sc.stratum, sc.u)
	}
	// the layouts at scales 2^-40..2^40 / 1e-12..1e12 and the ulp seams of the pruning comparison (scales.go)
	for _, sc := range scaleUnions(NewRng(c.Seed^0x0ca1e5), c.Tier) {
		union(sc.stratum, sc.u)
	}
	// histories on ONE union value: Evaluate / EvaluateSlow / SetMin sequences with repeated points (history.go)
	historyStrata(c, r, NewRng(c.Seed^0x415707), cu, &id, cp.History)
	// two evaluations of one union overlapping in time (re-entrant and gated operands)
	overlapStrata(c, r, rng, cu, &id, cp.Overlap)

	r.Coverage["union_plain_cases_exact_band_outside"] = unionHyp
	for _, cs := range []*Cases{c2, c3, co, cu} {
		if err := cs.Write(c.Out); err != nil {
			return err
		}
	}
	r.Rule = "boxes x points covering all 5x5(x5) position classes per axis (below / on min / inside / on max / above; degenerate boxes included) in a dyadic-exact regime (results compared EXACTLY with the rational clamp specification) and a rounding regime (relative 1e-12); Interval.Overlap on every ordering of endpoints in {0,1,2,3} and (scales.go) on pairs whose facing end points differ by 0, +-1/2/3/16 ulps, +-1e-15..1e-9 relative and absolute, +-25% and +300%, at every decade 1e-12..1e12: adjacent (positive, mirrored negative, around +0/-0 with denormal gaps), point intervals, nested, nearly identical, and pairs produced by Box2/Box3.MinMaxDist2 of a near and a farther (also flat / point) box with the same perturbations; judged in both orders by the exact rational share-a-value specification here and again inside coqc (float model, rational model, max-lo <= min-hi); MinMaxDist2 also at scales 2^-40..2^40 (dyadic-exact: equal to the rational clamp specification) and 1e-12..1e12 and one scale per axis, with the position classes k ulps below/above min/max next to the five classes (a true distance of 0 must be reported as 0); unions of 2..7 translated circles/boxes (nested, overlapping, far apart) at random / dyadic / far / box-corner points with the plain minimum (pruned must equal exhaustive exactly) and PolyMin(k) for k in 0.01..1000 (same sign). the same generators with 63, 64, 65, 100 and 300 operands (sizes an implementation may treat differently). ABSENT OPERANDS (nil-args strata): the same layouts / points / blends / nested and empty operands / operand counts with nil arguments in the Union2D call - leading, trailing, one interior gap, every gap, random subsets of the gaps with runs of 1..3 - pruned = exhaustive = fold over the non-nil operands (and the model on the stripped list), and Evaluate, EvaluateSlow and the bounding box bit for bit those of the same call without the nil arguments. union/overlap strata: two or more evaluations of ONE union overlapping in time, made deterministic with operands defined in the harness (harness/concshapes/probe.go): re-entrant (every operand, while it is evaluated, calls Evaluate of the enclosing union at another point - far from everything / inside the scene / at an operand / the same point - to depth 2..3, then returns its own value) and gated (an evaluation is parked inside an operand while another goroutine evaluates the same union completely, or up to its own operand with the first one finishing first), for 1, 2, 63, 64, 65, 100, 300 and random 2..7 operands, plain minimum and PolyMin, nested inner unions included; every value, outer and nested, must equal EvaluateSlow of a second union built from the plain operands and the fold of the operand values (exactly / same sign with a blend), a subset also goes through the Gallina model. union layouts (random and seam) scaled by 2^-40..2^40 and 1e-12..1e12, and ulp seams (a box whose face is within ulps / 1e-15..1e-9 of the value of the disc with the closest box, both sides, both operand orders, scales 1e-9..1e6). histories on ONE union value (history.go): Evaluate / EvaluateSlow / SetMin(PolyMin, RoundMin, ChamferMin, ExpMin, PowMin, math.Min) / SetMin on the inner union of a nested union, over a pool of points (same point twice in a row, around a SetMin, alternating, +0/-0 variants), points preferred where the configurations differ in sign (fillets at concave corners); every answer against unions built from scratch in the configuration of that step (Evaluate, EvaluateSlow, fold; bit-exact with the default minimum, same sign with a blend). plain-minimum comparisons are bit-exact where the minimising operands satisfy value >= box distance for the computed float64 numbers, within 1e-9 where they miss it by rounding and two values tie (hypLevel). exact seams: overlapping layouts on a 1/8 grid queried on the boundary of one operand (value exactly 0) inside the box of another, incl. touching / nested / identical / concentric operands. non-trivial = every case (each has a distinct position class/operand layout/schedule); distinct by exact input bits."
	r.Trusted = append(r.Trusted, "hand model coq/Geo/Box.v, coq/Sdf/Union2.v tied by differential execution at FOps (bit-exact expected, 1e-12 relative tolerated) and by the exact QOps clamp specification",
		"Coq port of Go math.Min/Max/Abs (coq/Num/GoMath.v)")
	r.Assumptions = append(r.Assumptions, "union theorem hypotheses (operand value >= distance to its box outside it, solid point inside the box, 1-Lipschitz) are C01/C03 facts about the operands; here operands are translated circles and boxes",
		"float64 rounding is not covered by the real-number theorems; measured by the exact rational comparison on every run",
		"overlapping evaluations: the schedules exercised are the ones in which one evaluation is suspended INSIDE an operand evaluation (re-entrant call or gate) - interleavings inside the union's own loops need real pre-emption and are left to C10 (race detector, effect summaries)")
	_ = strings.Join
	return nil
}
