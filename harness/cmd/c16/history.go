package main

// C16, the HISTORY dimension (added after mutation C16d-m1: a one-entry result memo in
// UnionSDF2.Evaluate, consulted before the blend switch and not reset by SetMin, returned the
// plain-minimum value after a blend had been installed - visible only when ONE union value is
// evaluated, reconfigured and evaluated again at the same point).
//
// "Evaluate returns what evaluating every operand returns" is a statement about every call, not
// only about the first call on a freshly built union.  The strata here run sequences of
//
//	eval p / slow p            Evaluate / EvaluateSlow on the union under test
//	setmin B / setmin-inner B  SetMin on the union / on the inner union it has as an operand, with
//	                           B = PolyMin, RoundMin, ChamferMin, ExpMin, PowMin or math.Min itself
//	                           (the API's way back to the default minimum)
//
// over a small pool of points, so that the same point is evaluated twice in a row, around a
// SetMin, alternating with another point, and as its +0 / -0 variants.  Points are chosen where
// the configurations of the history DISAGREE in sign where possible (fillet regions at concave
// corners), so an answer that belongs to an earlier configuration changes inside/outside.
//
// Oracles, for every answer of the history: a twin union built from scratch in the configuration
// current at that step must give the same answer with Evaluate (the answer is a function of
// operands, blend and point - not of what was asked before), with EvaluateSlow and with the fold
// of the operand values (bit-exact with the default minimum, same sign with a blend); the
// exhaustive comparisons are made where the operands satisfy the hypothesis of the pruning theorem
// at the point (value >= distance to the operand's own box; a blended INNER union may violate it).
// After the history the same object is asked Evaluate and EvaluateSlow at every point once more.
// A subset of the answers also goes through the Gallina model (cases_union).

import (
	"encoding/json"
	"fmt"
	"math"
	"os"
	"strconv"

	"github.com/deadsy/sdfx/sdf"
	v2 "github.com/deadsy/sdfx/vec/v2"
	. "verifharness/kit"
)

type blendCfg struct {
	Kind string  `json:"kind,omitempty"` // "" (never set) | min | poly | round | chamfer | exp | pow
	K    float64 `json:"k,omitempty"`
}

func (b blendCfg) plain() bool { return b.Kind == "" || b.Kind == "min" }

func mkBlend(b blendCfg) sdf.MinFunc {
	switch b.Kind {
	case "poly":
		return sdf.PolyMin(b.K)
	case "round":
		return sdf.RoundMin(b.K)
	case "chamfer":
		return sdf.ChamferMin(b.K)
	case "exp":
		return sdf.ExpMin(b.K)
	case "pow":
		return sdf.PowMin(b.K)
	}
	return math.Min
}

type histOp struct {
	Op    string      `json:"op"`              // eval | slow | setmin | setmin-inner
	P     *[2]float64 `json:"p,omitempty"`     // eval, slow
	Blend *blendCfg   `json:"blend,omitempty"` // setmin, setmin-inner
}

func (o histOp) pt() v2.Vec {
	if o.P == nil {
		return v2.Vec{}
	}
	return v2.Vec{X: o.P[0], Y: o.P[1]}
}

func (o histOp) cfg() blendCfg {
	if o.Blend == nil {
		return blendCfg{Kind: "min"}
	}
	return *o.Blend
}

type histInput struct {
	Case  unionCase `json:"case"` // operands; Case.Blend > 0: PolyMin installed before the first operation
	Ops   []histOp  `json:"history"`
	Notes string    `json:"template,omitempty"`
}

// buildHist builds the union of a case in a given configuration.
func buildHist(u unionCase, oc, ic blendCfg) (top *sdf.UnionSDF2, outer []sdf.SDF2, inner *sdf.UnionSDF2) {
	ops := plainOps(u)
	outer = ops
	if u.Nested > 0 && len(ops) >= 3 {
		inner, _ = sdf.Union2D(ops[0], ops[1]).(*sdf.UnionSDF2)
		if inner != nil {
			if ic.Kind != "" {
				inner.SetMin(mkBlend(ic))
			}
			outer = append([]sdf.SDF2{inner}, ops[2:]...)
		}
	}
	if len(outer) < 2 {
		return nil, outer, inner
	}
	top, _ = sdf.Union2D(outer...).(*sdf.UnionSDF2)
	if top != nil && oc.Kind != "" {
		top.SetMin(mkBlend(oc))
	}
	return
}

// hypLevel decides what is claimed about pruned against exhaustive evaluation at p.  The pruning
// theorem (C16_union_prune_eq) has one hypothesis about the operands: a value is at least the
// distance to the operand's own box.  Pruning can only lose the result when it skips every operand
// that attains the minimum, so only those operands matter.  If the hypothesis holds for their
// COMPUTED numbers (v >= 0 and v*v >= d2, or d2 = 0) pruned and exhaustive evaluation agree in
// float64 as well: rounding is monotone, so v < dm gives d2 <= v*v <= dm*dm and the operand is
// evaluated.  A computed value can fall a few ulps short of the computed box distance (a box
// operand evaluates |p-c|-h, its box distance is p-(c+h): equal as real numbers, not always as
// floats).  Then the minimum is lost only if the operand with the closest box has a value within
// that rounding error above it (a tie in exact arithmetic, e.g. a point on the diagonal of a
// concave corner), and the two evaluations differ by that rounding error.
//
//	0  every minimising operand satisfies the hypothesis in float64 (for the box distance computed
//	   here by clamping AND the one Box2.MinMaxDist2 returns), or misses it by rounding while no
//	   other operand's value is within rounding of the minimum      -> bit-exact comparison
//	1  a minimising operand misses it by rounding (1e-9 relative + 1e-12 of the scene's magnitude)
//	   and another operand's value is within that band of the minimum -> closeVals
//	2  a minimising operand does not satisfy it (e.g. an inner union with a large fillet seen from
//	   outside its box): outside the class of the claim
func hypLevel(outer []sdf.SDF2, p v2.Vec) (level int, mag float64) {
	mag = math.Max(math.Abs(p.X), math.Abs(p.Y))
	vals := make([]float64, len(outer))
	m := math.Inf(1)
	for j, o := range outer {
		bb := o.BoundingBox()
		for _, x := range []float64{bb.Min.X, bb.Min.Y, bb.Max.X, bb.Max.Y} {
			mag = math.Max(mag, math.Abs(x))
		}
		vals[j] = o.Evaluate(p)
		m = math.Min(m, vals[j])
	}
	band := 1e-9*math.Abs(m) + 1e-12*mag
	tie := false
	for _, v := range vals {
		if v != m && v <= m+band {
			tie = true
		}
	}
	for j, o := range outer {
		v := vals[j]
		if v != m {
			continue
		}
		bb := o.BoundingBox()
		dx := math.Max(math.Max(bb.Min.X-p.X, p.X-bb.Max.X), 0)
		dy := math.Max(math.Max(bb.Min.Y-p.Y, p.Y-bb.Max.Y), 0)
		d2 := dx*dx + dy*dy
		d2c := bb.MinMaxDist2(p)[0]
		switch {
		case d2 == 0 && d2c == 0:
		case v >= 0 && v*v >= d2 && v*v >= d2c:
		case v >= math.Sqrt(math.Max(d2, d2c))*(1-1e-9)-1e-12*mag:
			if tie && level < 1 {
				level = 1
			}
		default:
			level = 2
		}
	}
	return
}

// closeVals: agreement up to the rounding of operand values (level 1 of hypLevel)
func closeVals(a, b, mag float64) bool {
	return sameBits(a, b) || math.Abs(a-b) <= 1e-9*math.Max(math.Abs(a), math.Abs(b))+1e-12*mag
}

func sameBits(a, b float64) bool {
	return a == b || (math.IsNaN(a) && math.IsNaN(b))
}

func historyStrata(c *Ctx, r *Report, rng *Rng, cu *Cases, id *int, corpus []histInput) {
	modelCases, histories, sensitive := 0, 0, 0
	hypLevels := [3]int{}
	exec := func(stratum string, inp histInput, model bool) {
		u := inp.Case
		start := blendCfg{}
		if u.Blend > 0 {
			start = blendCfg{"poly", u.Blend}
		}
		A, _, innerA := buildHist(u, start, blendCfg{})
		if A == nil {
			return
		}
		histories++
		b, _ := json.Marshal(inp)
		key := "union-history:" + string(b)
		r.Case("union/history/"+stratum, key, true)
		oc, ic := start, blendCfg{}
		type twin struct {
			top   *sdf.UnionSDF2
			outer []sdf.SDF2
		}
		// a twin is built from scratch for every single reference value: it has no history at all
		get := func() twin {
			t, o, _ := buildHist(u, oc, ic)
			return twin{t, o}
		}
		describe := func(n int) string {
			s := ""
			for i := 0; i <= n && i < len(inp.Ops); i++ {
				o := inp.Ops[i]
				switch o.Op {
				case "eval":
					s += fmt.Sprintf(" Evaluate(%v,%v)", o.pt().X, o.pt().Y)
				case "slow":
					s += fmt.Sprintf(" EvaluateSlow(%v,%v)", o.pt().X, o.pt().Y)
				case "setmin":
					s += fmt.Sprintf(" SetMin(%s %v)", o.cfg().Kind, o.cfg().K)
				default:
					s += fmt.Sprintf(" inner.SetMin(%s %v)", o.cfg().Kind, o.cfg().K)
				}
			}
			return s
		}
		bad := false
		// judge one answer of the object under test against the twin of the current configuration
		judge := func(step int, call string, p v2.Vec, got float64, emit bool) {
			te, ts := get().top.Evaluate(p), get().top.EvaluateSlow(p)
			t := get()
			mf := mkBlend(oc)
			var fold float64
			var terms []string
			for i, o := range t.outer {
				v := o.Evaluate(p)
				if i == 0 {
					fold = v
				} else {
					fold = mf(fold, v)
				}
				if emit {
					bb := o.BoundingBox()
					terms = append(terms, fmt.Sprintf("((%s,%s,%s,%s), %s)", CF(bb.Min.X), CF(bb.Min.Y), CF(bb.Max.X), CF(bb.Max.Y), CF(v)))
				}
			}
			lvl, mag := 0, 0.0
			if oc.plain() {
				lvl, mag = hypLevel(get().outer, p)
				hypLevels[lvl]++
			}
			agree := func(a, b float64) bool {
				switch lvl {
				case 0:
					return sameBits(a, b)
				case 1:
					return closeVals(a, b, mag)
				}
				return true
			}
			var why string
			if oc.plain() {
				// the same entry point of a union without history: always; the other entry point and the
				// fold: where pruned and exhaustive evaluation are claimed to agree
				same, other := te, ts
				if call == "EvaluateSlow" {
					same, other = ts, te
				}
				switch {
				case !sameBits(got, same):
					why = fmt.Sprintf("a union built from scratch in the same configuration returns %s = %v", call, same)
				case !agree(got, other):
					why = fmt.Sprintf("a union built from scratch in the same configuration returns Evaluate = %v and EvaluateSlow = %v", te, ts)
				case (call == "EvaluateSlow" && !sameBits(got, fold)) || !agree(got, fold):
					why = fmt.Sprintf("the minimum of the operand values = %v", fold)
				}
			} else {
				switch {
				case (got < 0) != (te < 0):
					why = fmt.Sprintf("a union built from scratch in the same configuration returns Evaluate = %v: inside/outside differs", te)
				case (got < 0) != (ts < 0):
					why = fmt.Sprintf("EvaluateSlow of the same operands with the same blend = %v: inside/outside differs", ts)
				case (got < 0) != (fold < 0):
					why = fmt.Sprintf("folding the operand values with the blend = %v: inside/outside differs", fold)
				}
			}
			if why != "" && !bad {
				bad = true
				r.Violate(key, fmt.Sprintf("Union2D of %d operands, history on one union value:%s -> %s = %v (outer min: %s %v, inner: %s %v), but %s",
					len(t.outer), describe(step), call, got, orDefault(oc.Kind), oc.K, orDefault(ic.Kind), ic.K, why), inp)
			}
			if emit && call == "Evaluate" && (oc.Kind == "" || oc.Kind == "poly") && len(t.outer) >= 2 {
				*id++
				modelCases++
				bl := "None"
				if oc.Kind == "poly" {
					bl = "(Some " + CF(oc.K) + ")"
				}
				cu.Add(fmt.Sprintf("(%d%%N, %s, (%s,%s), %s, %s, %s)", *id, bl, CF(p.X), CF(p.Y), CList(terms), CF(got), CF(ts)))
			}
		}
		seen := map[[2]uint64]v2.Vec{}
		emitted := 0
		for i, o := range inp.Ops {
			p := o.pt()
			switch o.Op {
			case "eval":
				seen[[2]uint64{math.Float64bits(p.X), math.Float64bits(p.Y)}] = p
				em := model && emitted < 3 && i > 0
				if em {
					emitted++
				}
				judge(i, "Evaluate", p, A.Evaluate(p), em)
			case "slow":
				seen[[2]uint64{math.Float64bits(p.X), math.Float64bits(p.Y)}] = p
				judge(i, "EvaluateSlow", p, A.EvaluateSlow(p), false)
			case "setmin":
				oc = o.cfg()
				A.SetMin(mkBlend(oc))
			case "setmin-inner":
				if innerA != nil {
					ic = o.cfg()
					innerA.SetMin(mkBlend(ic))
				}
			}
		}
		// after the history: the same object, every point once more, both entry points
		for _, p := range seen {
			judge(len(inp.Ops), "EvaluateSlow", p, A.EvaluateSlow(p), false)
			judge(len(inp.Ops), "Evaluate", p, A.Evaluate(p), false)
		}
		if histories%37 == 1 {
			r.Sample(map[string]interface{}{"kind": "union-history", "input": inp})
		}
	}

	for _, inp := range replayHistories(c) {
		exec("replay", inp, true)
	}
	for _, inp := range corpus {
		exec("corpus", inp, true)
	}

	kinds := []string{"poly", "round", "chamfer", "exp", "pow"}
	// a blend with a fillet comparable to the operands (the scene has size ~ sz)
	drawBlend := func(sz float64) blendCfg {
		k := kinds[rng.Intn(len(kinds))]
		switch k {
		case "exp":
			return blendCfg{k, []float64{2, 8, 32}[rng.Intn(3)] / sz}
		case "pow":
			return blendCfg{k, []float64{2, 8}[rng.Intn(2)]}
		}
		return blendCfg{k, sz * []float64{0.125, 0.25, 0.5, 1}[rng.Intn(4)]}
	}
	E := func(p [2]float64) histOp { return histOp{Op: "eval", P: &p} }
	L := func(p [2]float64) histOp { return histOp{Op: "slow", P: &p} }
	S := func(b blendCfg) histOp { return histOp{Op: "setmin", Blend: &b} }
	Si := func(b blendCfg) histOp { return histOp{Op: "setmin-inner", Blend: &b} }
	minCfg := blendCfg{Kind: "min"}

	// points of a layout for the blends b1, b2: candidates all over the scene and at the corners of the
	// intersections of operand boxes (the concave corners of the union), ordered so that points at
	// which the plain minimum and a blend disagree in sign come first
	points := func(u unionCase, b1, b2 blendCfg, n int) (out [][2]float64, sens int) {
		tp, _, _ := buildHist(u, blendCfg{}, blendCfg{})
		t1, _, _ := buildHist(u, b1, blendCfg{})
		t2, _, _ := buildHist(u, b2, blendCfg{})
		if tp == nil {
			return nil, 0
		}
		bb := tp.BoundingBox()
		ctr, sz := bb.Center(), bb.Size()
		var cand [][2]float64
		for k := 0; k < 40; k++ {
			cand = append(cand, [2]float64{ctr.X + sz.X*rng.Uniform(-0.7, 0.7), ctr.Y + sz.Y*rng.Uniform(-0.7, 0.7)})
		}
		bs, _ := seamBoxes(u)
		for i := range bs {
			for j := i + 1; j < len(bs) && len(cand) < 400; j++ {
				lo := [2]float64{math.Max(bs[i].lo[0], bs[j].lo[0]), math.Max(bs[i].lo[1], bs[j].lo[1])}
				hi := [2]float64{math.Min(bs[i].hi[0], bs[j].hi[0]), math.Min(bs[i].hi[1], bs[j].hi[1])}
				if lo[0] > hi[0] || lo[1] > hi[1] {
					continue
				}
				for _, cx := range []float64{lo[0], hi[0]} {
					for _, cy := range []float64{lo[1], hi[1]} {
						for _, t := range []float64{b1.K / 16, b1.K / 6, 0.05} {
							for _, sx := range []float64{-1, 1} {
								for _, sy := range []float64{-1, 1} {
									cand = append(cand, [2]float64{cx + sx*t, cy + sy*t})
								}
							}
						}
					}
				}
			}
		}
		var first, rest [][2]float64
		for _, q := range cand {
			p := v2.Vec{X: q[0], Y: q[1]}
			vp := tp.EvaluateSlow(p)
			if (vp < 0) != (t1.EvaluateSlow(p) < 0) || (vp < 0) != (t2.EvaluateSlow(p) < 0) {
				first = append(first, q)
			} else {
				rest = append(rest, q)
			}
		}
		pick := func(xs [][2]float64, m int) {
			pm := rng.Perm(len(xs))
			for k := 0; k < m && k < len(pm); k++ {
				out = append(out, xs[pm[k]])
			}
		}
		pick(first, n)
		sens = len(out)
		pick(rest, n-len(out))
		return
	}

	templates := []struct {
		name string
		mk   func(p, q [2]float64, b1, b2 blendCfg) []histOp
	}{
		{"eval-setmin-eval", func(p, q [2]float64, b1, b2 blendCfg) []histOp { return []histOp{E(p), S(b1), E(p)} }},
		{"twice-setmin-twice", func(p, q [2]float64, b1, b2 blendCfg) []histOp { return []histOp{E(p), E(p), S(b1), E(p), E(p)} }},
		{"alternating", func(p, q [2]float64, b1, b2 blendCfg) []histOp {
			return []histOp{E(p), E(q), E(p), E(q), S(b1), E(q), E(p), E(q)}
		}},
		{"blend-blend-min", func(p, q [2]float64, b1, b2 blendCfg) []histOp {
			return []histOp{S(b1), E(p), S(b2), E(p), S(minCfg), E(p), E(p), S(b1), E(p)}
		}},
		{"setmin-default", func(p, q [2]float64, b1, b2 blendCfg) []histOp { return []histOp{E(p), S(minCfg), E(p), E(q), E(p)} }},
		{"slow-interleaved", func(p, q [2]float64, b1, b2 blendCfg) []histOp {
			return []histOp{L(p), E(p), S(b1), L(p), E(p), L(q), E(p), E(q)}
		}},
		{"signed-zero", func(p, q [2]float64, b1, b2 blendCfg) []histOp {
			nz := math.Copysign(0, -1)
			a, b, c2, d := [2]float64{0, p[1]}, [2]float64{nz, p[1]}, [2]float64{q[0], 0}, [2]float64{q[0], nz}
			return []histOp{E(a), E(b), E(c2), E(d), S(b1), E(b), E(a), E(d), E(c2), E([2]float64{0, 0}), E([2]float64{nz, nz})}
		}},
		{"inner-setmin", func(p, q [2]float64, b1, b2 blendCfg) []histOp {
			return []histOp{E(p), Si(b1), E(p), E(q), E(p), S(b2), E(p), Si(minCfg), E(p), E(q)}
		}},
		{"random", func(p, q [2]float64, b1, b2 blendCfg) []histOp {
			pts := [][2]float64{p, q, {p[0], q[1]}}
			var ops []histOp
			for k := rng.Range(6, 12); k > 0; k-- {
				pt := pts[rng.Intn(3)]
				switch rng.Intn(8) {
				case 0:
					ops = append(ops, S([]blendCfg{b1, b2, minCfg}[rng.Intn(3)]))
				case 1:
					ops = append(ops, Si([]blendCfg{b1, b2, minCfg}[rng.Intn(3)]))
				case 2:
					ops = append(ops, L(pt))
				default:
					ops = append(ops, E(pt))
					if rng.Bool() {
						ops = append(ops, E(pt))
					}
				}
			}
			return ops
		}},
	}

	run := func(layout string, u unionCase, model bool) {
		u.P = [2]float64{}
		tp, _, _ := buildHist(u, blendCfg{}, blendCfg{})
		if tp == nil {
			return
		}
		sz := tp.BoundingBox().Size()
		scale := math.Max(math.Min(sz.X, sz.Y)/4, 1e-300)
		for ti, t := range templates {
			if t.name == "inner-setmin" && !(u.Nested > 0 && len(plainOps(u)) >= 3) {
				continue
			}
			b1, b2 := drawBlend(scale), drawBlend(scale)
			if ti%2 == 0 {
				b1 = blendCfg{"poly", scale * []float64{0.25, 0.5, 1, 2}[rng.Intn(4)]}
			}
			pts, sens := points(u, b1, b2, 2)
			if len(pts) < 2 {
				continue
			}
			sensitive += sens
			exec(layout+"/"+t.name, histInput{Case: u, Ops: t.mk(pts[0], pts[1], b1, b2), Notes: t.name}, model && ti%3 == 0)
		}
	}

	// crossing bars: every concave corner has a fillet region under every blend
	fixed := []unionCase{
		{Boxes: [][4]float64{{0, 0, 4, 1}, {0, 0, 1, 4}}},
		{Boxes: [][4]float64{{0, 0, 4, 1}, {0, 0, 1, 4}, {10, 10, 1, 1}}, Nested: 1},
		{Boxes: [][4]float64{{0, 0, 1, 4}, {0, 0, 4, 1}, {1, 1, 1, 1}}, Circles: [][3]float64{{-1, -1, 0.75}}},
		{Circles: [][3]float64{{0, 0, 1}, {1.5, 0, 1}}, Boxes: [][4]float64{{0.75, 1, 1, 1}}, Nested: 1},
	}
	for i, u := range fixed {
		run(fmt.Sprintf("fixed%d", i), u, true)
	}
	for k := 0; k < TierN(c.Tier, 20, 400, 80); k++ {
		u, _ := genUnion(rng, k, rng.Range(2, 7))
		u.Blend = 0
		if k%5 == 4 {
			u.Blend = 0.5 // a blend installed before the first evaluation
		}
		if k%2 == 1 && len(plainOps(u)) >= 3 {
			u.Nested = 1
		}
		run("n2-7", u, k%4 == 0)
	}
	seams := seamUnions(rng, TierN(c.Tier, 12, 200, 40), 1)
	seenLayout := map[string]bool{}
	for k, sc := range seams {
		u := sc.u
		u.Blend, u.P = 0, [2]float64{}
		if lb, _ := json.Marshal(u); seenLayout[string(lb)] {
			continue // seamUnions returns one case per query point; a layout is used once here
		} else {
			seenLayout[string(lb)] = true
		}
		if k%2 == 1 && len(plainOps(u)) >= 3 {
			u.Nested = 1
		}
		run("overlapping", u, k%6 == 0)
	}
	for _, n := range []int{64, 65, 300} {
		for k := 0; k < TierN(c.Tier, 1, 6, 2); k++ {
			u, _ := genUnion(rng, k, n)
			u.Blend, u.Empty = 0, nil
			u.Nested = k % 2
			run(fmt.Sprintf("n%d", n), u, false)
		}
	}
	r.Coverage["union_history_model_cases"] = modelCases
	r.Coverage["union_histories"] = histories
	r.Coverage["union_history_answers_exact_band_outside"] = hypLevels
	r.Coverage["union_history_sign_sensitive_points"] = sensitive
}

func orDefault(k string) string {
	if k == "" {
		return "default"
	}
	return k
}

// replayed failing inputs of the driver's replay file
func replayRaw(c *Ctx) (out []json.RawMessage) {
	if c.Replay == "" {
		return nil
	}
	var rp struct {
		FailingInputs []struct {
			Input json.RawMessage `json:"input"`
		} `json:"failing_inputs"`
	}
	b, err := os.ReadFile(c.Replay)
	if err != nil || json.Unmarshal(b, &rp) != nil {
		return nil
	}
	for _, fi := range rp.FailingInputs {
		out = append(out, fi.Input)
	}
	return
}

func replayHistories(c *Ctx) (out []histInput) {
	for _, raw := range replayRaw(c) {
		var inp histInput
		if json.Unmarshal(raw, &inp) == nil && len(inp.Ops) > 0 {
			out = append(out, inp)
		}
	}
	return
}

func replayPairs(c *Ctx) (out []ivPair) {
	for _, raw := range replayRaw(c) {
		var inp struct {
			Bits []string    `json:"bits"`
			From interface{} `json:"from"`
		}
		if json.Unmarshal(raw, &inp) != nil || len(inp.Bits) != 4 {
			continue
		}
		var x [4]float64
		ok := true
		for i, s := range inp.Bits {
			v, err := strconv.ParseFloat(s, 64)
			if err != nil {
				ok = false
			}
			x[i] = v
		}
		if ok {
			out = append(out, ivPair{"overlap/replay", sdf.Interval{x[0], x[1]}, sdf.Interval{x[2], x[3]}, inp.From})
		}
	}
	return
}
