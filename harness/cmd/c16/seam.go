package main

// Exact-seam query points for the pruned union (added after mutation C02c-m1: the pruning test
// `vs[i][0] <= dm*dm` weakened to `<` is visible only where the operand with the closest box
// evaluates to exactly 0 while the point lies in the box of another operand, i.e. on a set of
// measure zero that random and coarse dyadic points hit only by luck).
//
// seamUnions builds overlapping operand layouts on a 1/8 grid and, for every ordered pair (i, j) of
// operands, query points ON the boundary of operand i (an edge of a box, the four tangent points of
// a disc with its box - all evaluate to exactly 0) that lie INSIDE THE BOX of operand j: at the ends,
// the middle and operand i's centre line of the overlap.  Every tie class of the two comparisons of
// UnionSDF2.Evaluate occurs: value of the closest-box operand exactly 0 / box distance of another
// operand exactly 0, several boxes at distance 0 (the first one is taken), corners shared by boxes.
// The cases go through the same `union` closure as the random layouts: pruned Evaluate against
// EvaluateSlow, against the fold of the operand values, and against the Coq model (cases_union).

import (
	"fmt"
	"math"

	. "verifharness/kit"
)

type seamCase struct {
	stratum string
	u       unionCase
}

type seamBox struct{ lo, hi [2]float64 }

// boxes of the plain operands of a layout in operand order (circles first, then boxes)
func seamBoxes(u unionCase) (bs []seamBox, round []bool) {
	for _, c := range u.Circles {
		bs = append(bs, seamBox{[2]float64{c[0] - c[2], c[1] - c[2]}, [2]float64{c[0] + c[2], c[1] + c[2]}})
		round = append(round, true)
	}
	for _, b := range u.Boxes {
		bs = append(bs, seamBox{[2]float64{b[0] - b[2]/2, b[1] - b[3]/2}, [2]float64{b[0] + b[2]/2, b[1] + b[3]/2}})
		round = append(round, false)
	}
	return
}

// points on the boundary of operand i inside the (closed) box of operand j
func seamPoints(a, b seamBox, aRound bool) (out [][2]float64) {
	for ax := 0; ax < 2; ax++ {
		o := 1 - ax
		lo, hi := math.Max(a.lo[o], b.lo[o]), math.Min(a.hi[o], b.hi[o])
		if lo > hi {
			continue
		}
		c := (a.lo[o] + a.hi[o]) / 2
		var along []float64
		if aRound { // a disc touches its box only in the middle of the edge
			if c >= lo && c <= hi {
				along = []float64{c}
			}
		} else {
			along = []float64{lo, (lo + hi) / 2, hi}
			if c >= lo && c <= hi {
				along = append(along, c)
			}
		}
		for _, f := range []float64{a.lo[ax], a.hi[ax]} {
			if f < b.lo[ax] || f > b.hi[ax] {
				continue
			}
			for _, t := range along {
				var p [2]float64
				p[ax], p[o] = f, t
				out = append(out, p)
			}
		}
	}
	return
}

func seamUnions(rng *Rng, layouts, perLayout int) (out []seamCase) {
	// textbook seams (independent of the seed)
	fixed := []unionCase{
		{Boxes: [][4]float64{{0, 0, 2, 2}, {1, 0, 2, 2}}},                                     // two overlapping squares
		{Boxes: [][4]float64{{1, 0, 2, 2}, {0, 0, 2, 2}}},                                     // ... in the other order
		{Circles: [][3]float64{{0, 0, 1}}, Boxes: [][4]float64{{2, 0, 4, 1}, {10, 10, 1, 1}}}, // disc touching the middle of a bar
		{Boxes: [][4]float64{{0, 0, 2, 2}, {2, 0, 2, 2}}},                                     // sharing an edge
		{Boxes: [][4]float64{{0, 0, 2, 2}, {0, 0, 1, 1}}},                                     // nested
		{Boxes: [][4]float64{{0, 0, 1, 1}, {0, 0, 2, 2}}},                                     // nested, inner first
		{Boxes: [][4]float64{{0, 0, 2, 2}, {0, 0, 2, 2}}},                                     // identical
		{Boxes: [][4]float64{{0, 0, 2, 2}, {0.5, 0.5, 1, 1}, {0, 0, 4, 4}}},                   // sharing a corner, inside a third
		{Circles: [][3]float64{{0, 0, 1}, {1, 0, 1}}},                                         // two discs through each other's centre
		{Circles: [][3]float64{{0, 0, 1}, {0, 0, 2}}, Boxes: [][4]float64{{0, 0, 1, 1}}},      // concentric
	}
	emit := func(stratum string, u unionCase, max int) {
		bs, round := seamBoxes(u)
		var pts [][2]float64
		for i := range bs {
			for j := range bs {
				if i != j {
					pts = append(pts, seamPoints(bs[i], bs[j], round[i])...)
				}
			}
		}
		seen := map[[2]float64]bool{}
		var uniq [][2]float64
		for _, p := range pts {
			if !seen[p] {
				seen[p] = true
				uniq = append(uniq, p)
			}
		}
		if max > 0 && len(uniq) > max {
			pm := rng.Perm(len(uniq))
			sel := make([][2]float64, max)
			for k := range sel {
				sel[k] = uniq[pm[k]]
			}
			uniq = sel
		}
		for _, p := range uniq {
			v := u
			v.P = p
			out = append(out, seamCase{stratum, v})
		}
	}
	for _, u := range fixed {
		emit("seam/fixed", u, 0)
	}
	for k := 0; k < layouts; k++ {
		var u unionCase
		n := 2 + k%4
		spread := []float64{0.5, 1, 2, 4}[k/4%4]
		g := func(lim float64) float64 { return rng.Dyadic(lim, 3) }
		for i := 0; i < n; i++ {
			switch {
			case k%3 == 0 || (k%3 == 1 && rng.Bool()):
				u.Boxes = append(u.Boxes, [4]float64{g(spread), g(spread), float64(rng.Range(2, 40)) / 8, float64(rng.Range(2, 40)) / 8})
			default:
				u.Circles = append(u.Circles, [3]float64{g(spread), g(spread), float64(rng.Range(1, 24)) / 8})
			}
		}
		stratum := "seam/plain"
		if k%7 == 6 && n >= 3 {
			u.Nested = 1
			stratum = "seam/nested"
		}
		if k%5 == 4 {
			// an operand without solid in its box among them: exact zeros of the others still decide
			sz := float64(rng.Range(4, 16)) / 8
			u.Empty = append(u.Empty, [4]float64{g(spread), g(spread), sz + float64(rng.Range(1, 8))/8, sz})
		}
		if k%6 == 5 {
			u.Blend = []float64{0.125, 1, 8}[rng.Intn(3)]
			stratum = "seam/polymin"
		}
		emit(fmt.Sprintf("%s/n%d", stratum, n), u, perLayout)
	}
	return out
}
