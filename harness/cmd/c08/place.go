package main

// Strata added after mutation testing, round 4 (marchkit/place.go):
//   translated   the analytic shapes moved 2x .. 1000x their size away from the origin along one or both axes:
//                closed, no zero-length segment, end points within a cell of the boundary, and about the same
//                total length as the render of the shape where it was built
//   on-lattice   rectangles with slots, L-shapes, windows, notches whose inner sides lie on layers of the lattice
//                the renderer samples (learned from a render of a constant field): rows of lattice points with
//                value exactly 0 along sides and at corners of the shape

import (
	"fmt"
	"math"

	"github.com/deadsy/sdfx/render"
	"github.com/deadsy/sdfx/sdf"
	v2 "github.com/deadsy/sdfx/vec/v2"
	. "verifharness/kit"
	mk "verifharness/marchkit"
	sk "verifharness/samplekit"
)

func newR2(rname string, cells int) render.Render2 {
	if rname == "quadtree" {
		return render.NewMarchingSquaresQuadtree(cells)
	}
	return render.NewMarchingSquaresUniform(cells)
}

func placement2(c *Ctx, r *Report, rng *Rng) {
	shapes := analyticShapes()
	sign := func() float64 {
		if rng.Intn(4) == 0 {
			return -1
		}
		return 1
	}
	worstF := func(s sdf.SDF2, ls []*sdf.Line2) float64 {
		w := 0.0
		for _, l := range ls {
			for k := 0; k < 2; k++ {
				w = math.Max(w, math.Abs(s.Evaluate(l[k])))
			}
		}
		return w
	}
	len0 := map[string]float64{}
	for rep := 0; rep < TierN(c.Tier, 2, 6, 3); rep++ {
		for oi, off := range mk.Offsets2(sign) {
			sh := shapes[(oi+5*rep)%len(shapes)]
			if sh.name == "circle-radius-1e-4" {
				sh = shapes[0]
			}
			cells := []int{6, 11, 20, 37}[(oi/3+oi+rep)%4]
			size := sh.s.BoundingBox().Size().MaxComponent()
			d := v2.Vec{X: off.V[0] * size, Y: off.V[1] * size}
			h := size / float64(cells)
			for _, rname := range []string{"uniform", "quadtree"} {
				id0 := fmt.Sprintf("%s/%s/%d", sh.name, rname, cells)
				if _, ok := len0[id0]; !ok {
					len0[id0] = mk.CheckLines2(mk.ToLines(sh.s, newR2(rname, cells)), 1e-6*h).Length
				}
				m := mk.Moved2{S: sh.s, D: d}
				ls := mk.ToLines(m, newR2(rname, cells))
				key := fmt.Sprintf("moved2/%s/%s/%d/%v", sh.name, rname, cells, d)
				input := map[string]interface{}{"shape": sh.name, "moved_by": d, "renderer": rname, "cells": cells}
				r.Case("translated/"+off.Name+"/"+rname, key, len(ls) > 0)
				if len(ls) == 0 {
					r.Violate(key, "no segment emitted for a solid shape", input)
					continue
				}
				res := mk.CheckLines2(ls, 1e-6*h)
				lineOracles(r, key, res, input)
				if w := worstF(m, ls); w > 1.02*h*(1+1e-9)+1e-12*(1+math.Abs(d.X)+math.Abs(d.Y)) {
					r.Violate(key, fmt.Sprintf("end point %g away from the boundary of the moved shape, cell edge %g: not a crossing of a lattice edge that straddles the boundary", w, h), input)
				}
				if l0 := len0[id0]; math.Abs(res.Length-l0) > 8*h+0.02*l0 {
					r.Violate(key, fmt.Sprintf("total length %g of the contour of the moved shape, %g where the shape was built (cell %g): the contour does not move with the shape", res.Length, l0, h), input)
				}
			}
		}
	}
	offs := mk.Offsets2(sign)
	for rep := 0; rep < TierN(c.Tier, 6, 24, 12); rep++ {
		for _, rname := range []string{"uniform", "quadtree"} {
			cells := []int{8, 10, 12, 16, 25}[rng.Intn(5)]
			var ctr, half v2.Vec
			regime := "general"
			if rep%2 == 0 {
				regime = "dyadic"
				inc := []float64{1, 0.5, 0.25, 2}[rng.Intn(4)]
				s := 0.5 * float64(cells) * inc
				half = v2.Vec{X: s, Y: s}
				if rep%4 == 2 {
					half.Y -= inc * float64(rng.Range(1, 3))
				}
				ctr = v2.Vec{X: inc * float64(rng.Range(-4, 4)), Y: inc * float64(rng.Range(-4, 4))}
			} else {
				s := rng.Uniform(0.5, 5)
				half = v2.Vec{X: s, Y: s * rng.Uniform(0.7, 1)}
				ctr = v2.Vec{X: rng.Uniform(-2, 2), Y: rng.Uniform(-2, 2)}
			}
			if rep%3 == 1 {
				off := offs[rng.Intn(len(offs))]
				ctr = ctr.Add(v2.Vec{X: off.V[0] * 2 * half.X, Y: off.V[1] * 2 * half.X})
				regime += "/translated"
			}
			bb := sdf.Box2{Min: ctr.Sub(half), Max: ctr.Add(half)}
			h := 2 * half.X / float64(cells)
			lat, err := mk.Learn2(bb, newR2(rname, cells), 1e-3*h, rname == "quadtree")
			if err != nil {
				r.Violate(fmt.Sprintf("learn2/%s/%v/%d", rname, bb, cells), fmt.Sprintf("%s renderer with %d cells on bounding box %v of a constant field: %v", rname, cells, bb, err),
					map[string]interface{}{"renderer": rname, "bounding_box": bb, "cells": cells})
				continue
			}
			mag := math.Max(math.Max(math.Abs(bb.Min.X), math.Abs(bb.Min.Y)), math.Max(math.Abs(bb.Max.X), math.Abs(bb.Max.Y)))
			jitter := func() float64 {
				if regime == "dyadic" || mag > 50 || rng.Intn(2) == 0 {
					return 0
				}
				return []float64{1e-13, -1e-13, 4e-13, -4e-13}[rng.Intn(4)]
			}
			for _, f := range mk.FeaturesOnLattice2(lat.X, lat.Y, bb, rng.Intn, jitter) {
				F, err := f.F.Build2(sk.Grid2{Res: 1}, 0, nil)
				if err != nil {
					continue
				}
				s := &sk.Fn2{F: F.F, BB: bb}
				ls := mk.ToLines(s, newR2(rname, cells))
				key := fmt.Sprintf("onlattice2/%s/%d/%v/%s", rname, cells, bb, f.F)
				input := map[string]interface{}{"renderer": rname, "cells": cells, "bounding_box": bb, "field": f.F, "shape": f.Name}
				r.Case("on-lattice/"+regime+"/"+rname+"/"+f.Name, key, len(ls) > 0)
				if len(ls) == 0 {
					r.Violate(key, "no segment emitted for a solid shape", input)
					continue
				}
				lineOracles(r, key, mk.CheckLines2(ls, 1e-6*h), input)
				if w := worstF(s, ls); w > 1.02*h*(1+1e-9) {
					r.Violate(key, fmt.Sprintf("end point %g away from the boundary, cell edge %g", w, h), input)
				}
			}
		}
	}
}
