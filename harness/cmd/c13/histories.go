package main

// C13, two further dimensions of the generators (added after mutation testing):
//
//  1. WRITE SCHEDULES of the streaming writer: render.ToSTL is driven by a scripted Render3 whose Write
//     sizes are laid out relative to the buffering constants of the CURRENT source (tBufferSize,
//     tBufferMargin in sdf/triangle3.go): single writes at / above the buffer size while smaller writes
//     are still pending, writes that straddle the threshold or exceed the spare capacity, empty and nil
//     writes, totals that are exact multiples of the buffer size (nothing left for Close), a renderer that
//     re-uses one scratch slice for every Write (the writer must not retain it), and concurrent writers
//     (the buffer has a lock; there the order is free and the oracle is the multiset of records).
//  2. FILE HISTORIES for every writer entry point (SaveSTL and ToSTL): the output path already holds a
//     longer / shorter / equally long file (a valid STL, random bytes, 0xff bytes, ASCII text, nothing at
//     all), the same path is written twice or three times with growing / shrinking / equal / empty
//     meshes and with either writer.  After every step the bytes on disk are checked against the
//     sentences of the property (size = 84+50n, count, records), against a SaveSTL of the same triangles
//     to a fresh path, LoadSTL of the path under test must return the float32 values, and the bytes go to
//     the Gallina model (Stl.save_f / Stl.stream_save_f / Stl.decode) like every other list case.
//
// Every case is described by a small JSON value (schedSpec / histSpec) that is the failing input of a
// violation, is accepted by -replay, and can be kept in corpus/C13.json ("schedules", "histories").

import (
	"bytes"
	"encoding/binary"
	"encoding/json"
	"fmt"
	"math"
	"os"
	"path/filepath"
	"sort"
	"strconv"
	"strings"
	"sync"

	"github.com/deadsy/sdfx/render"
	"github.com/deadsy/sdfx/sdf"
	v3 "github.com/deadsy/sdfx/vec/v3"
	. "verifharness/kit"
)

// ---------------------------------------------------------------- case descriptions

const strataRule = " schedule cases: one streamed file per case, the Write sizes of the scripted Render3 laid out around tBufferSize / tBufferMargin read from sdf/triangle3.go (a single write at or above the buffer size while 1..tBufferSize-1 triangles are pending, threshold-straddling and capacity-exceeding writes, empty and nil writes, exact multiples of the buffer size, random mixtures), with a renderer that re-uses its slice, with the writers used re-entrantly / in parallel on other paths, and with concurrent writers (multiset oracle); triangles carry their index; compared with SaveSTL of the same list byte for byte, LoadSTL of the streamed file, and the model within a budget. history cases: one step (SaveSTL or ToSTL to a path with a given past) per case: the path holds nothing / an empty file / a valid STL / random bytes / 0xff bytes / ASCII text that is longer, equally long or shorter than the output; the same path written two or three times by either writer with shrinking / growing / equal / empty meshes; after every step size = 84+50n, count, records, equality with a SaveSTL to a fresh path, LoadSTL of that path, and the model on its bytes; distinct by the description of the history."

// triSpec denotes a triangle list: explicit (hex float64) or the indexed family idxTri(salt, 0..n-1)
type triSpec struct {
	Hex  [][3][3]string `json:"hex,omitempty"`
	N    int            `json:"n,omitempty"`
	Salt int            `json:"salt,omitempty"`
}

// idxTri: a non-degenerate triangle that carries its index (all values exact in float32)
func idxTri(salt, i int) tri {
	x, y := float64(i), float64(salt%1000)
	return tri{{x, y, 0}, {x + 1, y, 0.5}, {x, y + 1, 0.25}}
}

func (s triSpec) tris() []tri {
	if s.Hex != nil {
		ts := make([]tri, len(s.Hex))
		for i, t := range s.Hex {
			for a := range t {
				for b := range t[a] {
					ts[i][a][b], _ = strconv.ParseFloat(t[a][b], 64)
				}
			}
		}
		return ts
	}
	ts := make([]tri, s.N)
	for i := range ts {
		ts[i] = idxTri(s.Salt, i)
	}
	return ts
}

func explicitSpec(ts []tri) triSpec {
	h := hexTris(ts)
	if h == nil {
		h = [][3][3]string{}
	}
	return triSpec{Hex: h}
}

// schedSpec: one streamed file.  Sizes are the lengths of the successive Write calls (-1 = Write(nil));
// triangles beyond the sum of the sizes are written one per call at the end.
type schedSpec struct {
	Tris  triSpec `json:"tris"`
	Sizes []int   `json:"sizes"`
	Mode  string  `json:"mode"` // "slices" | "reuse" | "concurrent" | "reentrant" | "parallel"
}

// preSpec: what the path holds before the first step; the content is a function of (Kind, Len, Salt)
type preSpec struct {
	Kind string `json:"kind"` // absent | empty | stl | garbage | ff | ascii
	Len  int    `json:"len,omitempty"`
	Salt int    `json:"salt,omitempty"`
}

type histStep struct {
	Op    string  `json:"op"` // save | stream
	Tris  triSpec `json:"tris"`
	Sizes []int   `json:"sizes,omitempty"`
	Mode  string  `json:"mode,omitempty"`
}

type histSpec struct {
	Name  string     `json:"name"` // base name of the path under test
	Pre   preSpec    `json:"pre"`
	Steps []histStep `json:"steps"`
}

func compactJSON(v interface{}) string {
	b, _ := json.Marshal(v)
	return string(b)
}

// ---------------------------------------------------------------- scripted renderers

var poison = &sdf.Triangle3{v3.Vec{X: -7777, Y: -7777, Z: -7777}, v3.Vec{X: -7776, Y: -7777, Z: -7777}, v3.Vec{X: -7777, Y: -7776, Z: -7777}}

// schedRender is a Render3 that delivers mesh according to a schedule
type schedRender struct {
	mesh  []*sdf.Triangle3
	sizes []int
	mode  string
	mid   func() // called by Render after half of its writes (re-entrant use of the writers)
}

func (s *schedRender) Info(sdf.SDF3) string { return "scripted schedule (" + s.mode + ")" }

// batches cuts the mesh by the schedule (a nil entry is a Write(nil))
func (s *schedRender) batches() [][]*sdf.Triangle3 {
	var out [][]*sdf.Triangle3
	i := 0
	for _, n := range s.sizes {
		if n < 0 {
			out = append(out, nil)
			continue
		}
		if i+n > len(s.mesh) {
			n = len(s.mesh) - i
		}
		out = append(out, s.mesh[i:i+n:i+n])
		i += n
	}
	for ; i < len(s.mesh); i++ {
		out = append(out, s.mesh[i:i+1:i+1])
	}
	return out
}

func (s *schedRender) Render(_ sdf.SDF3, out sdf.Triangle3Writer) {
	bs := s.batches()
	switch s.mode {
	case "reuse":
		// one scratch slice for every Write, overwritten as soon as Write returns: a writer must have
		// taken what it needs (the library's buffer appends the pointers to its own slice)
		max := 0
		for _, b := range bs {
			if len(b) > max {
				max = len(b)
			}
		}
		scratch := make([]*sdf.Triangle3, max)
		for _, b := range bs {
			if b == nil {
				out.Write(nil)
				continue
			}
			n := copy(scratch, b)
			out.Write(scratch[:n])
			for i := 0; i < n; i++ {
				scratch[i] = poison
			}
		}
	case "concurrent":
		// the batches are dealt round-robin to 3 goroutines that write at the same time
		var wg sync.WaitGroup
		for g := 0; g < 3; g++ {
			wg.Add(1)
			go func(g int) {
				defer wg.Done()
				for k := g; k < len(bs); k += 3 {
					out.Write(bs[k])
				}
			}(g)
		}
		wg.Wait()
	default:
		for k, b := range bs {
			if k == len(bs)/2 && s.mid != nil {
				s.mid()
			}
			out.Write(b)
		}
	}
	out.Close()
}

// ---------------------------------------------------------------- independent encoder / helpers

// refSTL is the harness's own encoding of a binary STL with zero normals (used for pre-existing files only)
func refSTL(ts []tri) []byte {
	b := make([]byte, 84+50*len(ts))
	binary.LittleEndian.PutUint32(b[80:], uint32(len(ts)))
	for i, t := range ts {
		rec := b[84+50*i:]
		for v := 0; v < 3; v++ {
			for j := 0; j < 3; j++ {
				binary.LittleEndian.PutUint32(rec[12+12*v+4*j:], nearest32(t[v][j]))
			}
		}
	}
	return b
}

func (p preSpec) content() []byte {
	switch p.Kind {
	case "stl":
		n := (p.Len - 84) / 50
		if n < 0 {
			n = 0
		}
		ts := make([]tri, n)
		for i := range ts {
			ts[i] = idxTri(p.Salt+500, 1000+i)
		}
		return refSTL(ts)
	case "garbage":
		g := NewRng(uint64(p.Salt) + 12345)
		b := make([]byte, p.Len)
		for i := range b {
			b[i] = byte(g.U64() >> 7)
		}
		return b
	case "ff":
		return bytes.Repeat([]byte{0xff}, p.Len)
	case "ascii":
		var s strings.Builder
		s.WriteString("solid old\n")
		for i := 0; s.Len() < p.Len; i++ {
			t := idxTri(p.Salt, 2000+i)
			s.WriteString(" facet normal 0 0 1\n  outer loop\n")
			for v := 0; v < 3; v++ {
				fmt.Fprintf(&s, "   vertex %g %g %g\n", t[v][0], t[v][1], t[v][2])
			}
			s.WriteString("  endloop\n endfacet\n")
		}
		return []byte(s.String())[:p.Len]
	}
	return []byte{}
}

// describeDiff says where two STL files differ, in records when both are well-sized
func describeDiff(want, got []byte, ts []tri) string {
	if len(want) != len(got) {
		return fmt.Sprintf("file has %d bytes, batch writer wrote %d to a fresh path", len(got), len(want))
	}
	for i := range want {
		if want[i] != got[i] {
			if i < 84 {
				return fmt.Sprintf("header byte %d is %02x, batch writer wrote %02x", i, got[i], want[i])
			}
			k := (i - 84) / 50
			x := float64(math.Float32frombits(binary.LittleEndian.Uint32(got[84+50*k+12:])))
			return fmt.Sprintf("record %d differs from the batch writer's at byte %d (%02x for %02x); its first coordinate is %g, triangle %d of the input has %g",
				k, i, got[i], want[i], x, k, ts[k][0][0])
		}
	}
	return ""
}

func sortedRecords(b []byte) []string {
	var rs []string
	for o := 84; o+50 <= len(b); o += 50 {
		rs = append(rs, string(b[o:o+50]))
	}
	sort.Strings(rs)
	return rs
}

// ---------------------------------------------------------------- running the cases

type strataEnv struct {
	c      *Ctx
	r      *Report
	rng    *Rng
	tmp    string
	nextID func() int
	emit   func(term string, ntris int) // one Stl.case term for the Gallina model
	gen    func(n int) []tri            // random triangles from the coordinate strata
	bufN   int                          // tBufferSize of the current source
	bufM   int                          // tBufferMargin
	budget int                          // triangles of schedule cases that may still go to the model this run
}

func (e *strataEnv) loadedTerm(path string) (term string, l []tri, err error) {
	defer func() {
		if x := recover(); x != nil {
			term, l, err = "None", nil, fmt.Errorf("LoadSTL panics: %v", x)
		}
	}()
	m, err := render.LoadSTL(path)
	if err != nil {
		return "None", nil, err
	}
	l = fromMesh(m)
	return "(Some " + CFTris(l) + ")", l, nil
}

// stream writes ts to path with ToSTL under the schedule; a panic of the writer is reported, not fatal
func stream(path string, mesh []*sdf.Triangle3, sizes []int, mode string) (what string) {
	return streamMid(path, mesh, sizes, mode, nil)
}

func streamMid(path string, mesh []*sdf.Triangle3, sizes []int, mode string, mid func()) (what string) {
	defer func() {
		if x := recover(); x != nil {
			what = fmt.Sprintf("ToSTL panics: %v", x)
		}
	}()
	render.ToSTL(nil, path, &schedRender{mesh: mesh, sizes: sizes, mode: mode, mid: mid})
	return ""
}

// runSchedule: one streamed file against SaveSTL of the same triangles, the property's sentences, LoadSTL
// of the STREAMED file, and the model
func (e *strataEnv) runSchedule(stratum string, s schedSpec) error {
	id := e.nextID()
	key := "schedule:" + compactJSON(s)
	ts := s.Tris.tris()
	e.r.Case(stratum, key, len(ts) > 0)
	input := map[string]interface{}{"schedule": s}
	mesh := toMesh(ts)
	p1 := filepath.Join(e.tmp, "sched_save.stl")
	p2 := filepath.Join(e.tmp, "sched_stream.stl")
	os.Remove(p1)
	os.Remove(p2)
	if err := render.SaveSTL(p1, mesh); err != nil {
		e.r.Violate(key, "SaveSTL error: "+err.Error(), input)
		return nil
	}
	// "reentrant": in the middle of its writes the renderer itself runs a complete ToSTL and a SaveSTL of
	// other triangles to other paths (package-level scratch state of the writers would be shared);
	// "parallel": a second ToSTL to another path runs at the same time
	var its []tri
	p3 := filepath.Join(e.tmp, "sched_inner_stream.stl")
	p4 := filepath.Join(e.tmp, "sched_inner_save.stl")
	var what string
	switch s.Mode {
	case "reentrant", "parallel":
		its = triSpec{N: e.bufN + 3, Salt: s.Tris.Salt + 1}.tris()
		imesh := toMesh(its)
		os.Remove(p3)
		os.Remove(p4)
		inner := func() string { return stream(p3, imesh, []int{5, e.bufN - 4, 2}, "slices") }
		if s.Mode == "reentrant" {
			var iw string
			what = streamMid(p2, mesh, s.Sizes, "slices", func() {
				iw = inner()
				if err := render.SaveSTL(p4, imesh); err != nil && iw == "" {
					iw = "SaveSTL error: " + err.Error()
				}
			})
			if what == "" {
				what = iw
			}
		} else {
			done := make(chan string)
			go func() { done <- inner() }()
			what = stream(p2, mesh, s.Sizes, "slices")
			if iw := <-done; what == "" {
				what = iw
			}
		}
	default:
		what = stream(p2, mesh, s.Sizes, s.Mode)
	}
	if what != "" {
		e.r.Violate(key, what, input)
		return nil
	}
	if its != nil {
		// the other files written meanwhile
		p5 := filepath.Join(e.tmp, "sched_inner_ref.stl")
		os.Remove(p5)
		if err := render.SaveSTL(p5, toMesh(its)); err != nil {
			e.r.Violate(key, "SaveSTL error: "+err.Error(), input)
			return nil
		}
		want, err := os.ReadFile(p5)
		if err != nil {
			return err
		}
		for _, p := range []string{p3, p4} {
			if p == p4 && s.Mode != "reentrant" {
				continue
			}
			got, err := os.ReadFile(p)
			if err != nil {
				e.r.Violate(key, s.Mode+" use of the writers: "+filepath.Base(p)+" was not written: "+err.Error(), input)
			} else if what := checkBytes(its, got); what != "" {
				e.r.Violate(key, s.Mode+" use of the writers, "+filepath.Base(p)+": "+what, input)
			} else if !bytes.Equal(want, got) {
				e.r.Violate(key, s.Mode+" use of the writers, "+filepath.Base(p)+": "+describeDiff(want, got, its), input)
			}
		}
	}
	sb, err := os.ReadFile(p1)
	if err != nil {
		return err
	}
	tb, err := os.ReadFile(p2)
	if err != nil {
		e.r.Violate(key, "ToSTL wrote no file: "+err.Error(), input)
		return nil
	}
	if s.Mode == "concurrent" {
		// order is free: size, count and the multiset of records
		if len(tb) != len(sb) || binary.LittleEndian.Uint32(tb[80:84]) != uint32(len(ts)) {
			e.r.Violate(key, fmt.Sprintf("concurrent writers: file has %d bytes and count %d for %d triangles", len(tb), binary.LittleEndian.Uint32(tb[80:84]), len(ts)), input)
		} else if a, b := sortedRecords(sb), sortedRecords(tb); strings.Join(a, "") != strings.Join(b, "") {
			e.r.Violate(key, "concurrent writers: the records of the streamed file are not a permutation of the batch writer's records", input)
		}
		if m, err := render.LoadSTL(p2); err != nil || len(m) != len(ts) {
			e.r.Violate(key, fmt.Sprintf("concurrent writers: LoadSTL of the streamed file gives %d triangles, error %v; %d written", len(m), err, len(ts)), input)
		}
		return nil
	}
	lt, loaded, lerr := e.loadedTerm(p2)
	if len(ts) <= e.budget {
		// the model evaluates every record twice (batch and stream): large schedules go to it within a budget,
		// all of them are compared with the batch writer's bytes below
		e.budget -= len(ts)
		e.emit(fmt.Sprintf("(%d%%N, %s,\n %s,\n %s,\n %s)", id, CFTris(ts), PackBytes(sb), PackBytes(tb), lt), len(ts))
	}
	if what := checkBytes(ts, sb); what != "" {
		e.r.Violate(key, "SaveSTL: "+what, input)
	} else if !bytes.Equal(sb, tb) {
		e.r.Violate(key, fmt.Sprintf("streaming writer, Write sizes %v (tBufferSize %d): %s", s.Sizes, e.bufN, describeDiff(sb, tb, ts)), input)
	}
	if lerr != nil {
		e.r.Violate(key, "LoadSTL of the streamed file: "+lerr.Error(), input)
	} else if what := checkLoaded(ts, loaded); what != "" && bytes.Equal(sb, tb) {
		e.r.Violate(key, "LoadSTL of the streamed file: "+what, input)
	}
	return nil
}

// runHistory: the steps of h on one path; every step is checked
func (e *strataEnv) runHistory(stratum string, h histSpec) error {
	dir := filepath.Join(e.tmp, "hist")
	os.RemoveAll(dir)
	if err := os.MkdirAll(dir, 0o755); err != nil {
		return err
	}
	path := filepath.Join(dir, h.Name)
	fresh := filepath.Join(e.tmp, "hist_fresh.stl")
	if h.Pre.Kind != "absent" {
		if err := os.WriteFile(path, h.Pre.content(), 0o644); err != nil {
			return err
		}
	}
	for k, st := range h.Steps {
		id := e.nextID()
		upto := histSpec{Name: h.Name, Pre: h.Pre, Steps: h.Steps[:k+1]}
		key := "history:" + compactJSON(upto)
		input := map[string]interface{}{"history": upto}
		ts := st.Tris.tris()
		e.r.Case(stratum, key, true)
		mesh := toMesh(ts)
		before := int64(-1)
		if fi, err := os.Stat(path); err == nil {
			before = fi.Size()
		}
		ctx := fmt.Sprintf("step %d (%s of %d triangles to a path holding %d bytes)", k+1, st.Op, len(ts), before)
		if before < 0 {
			ctx = fmt.Sprintf("step %d (%s of %d triangles to a new path)", k+1, st.Op, len(ts))
		}
		switch st.Op {
		case "save":
			if err := render.SaveSTL(path, mesh); err != nil {
				e.r.Violate(key, ctx+": SaveSTL error: "+err.Error(), input)
				return nil
			}
		default:
			if what := stream(path, mesh, st.Sizes, st.Mode); what != "" {
				e.r.Violate(key, ctx+": "+what, input)
				return nil
			}
		}
		got, err := os.ReadFile(path)
		if err != nil {
			e.r.Violate(key, ctx+": no file afterwards: "+err.Error(), input)
			return nil
		}
		os.Remove(fresh)
		if err := render.SaveSTL(fresh, mesh); err != nil {
			e.r.Violate(key, "SaveSTL to a fresh path: "+err.Error(), input)
			return nil
		}
		want, err := os.ReadFile(fresh)
		if err != nil {
			return err
		}
		lt, loaded, lerr := e.loadedTerm(path)
		if len(ts) <= 120 {
			// the model on the bytes of the path under test, in both roles (stream = batch is a theorem)
			pk := PackBytes(got)
			e.emit(fmt.Sprintf("(%d%%N, %s,\n %s,\n %s,\n %s)", id, CFTris(ts), pk, pk, lt), len(ts))
		}
		var whats []string
		if what := checkBytes(ts, got); what != "" {
			whats = append(whats, what)
		} else if !bytes.Equal(want, got) {
			whats = append(whats, describeDiff(want, got, ts))
		}
		if lerr != nil {
			whats = append(whats, "LoadSTL of the written file: "+lerr.Error())
		} else if what := checkLoaded(ts, loaded); what != "" {
			whats = append(whats, "LoadSTL of the written file: "+what)
		}
		bad := len(whats) > 0
		if bad {
			e.r.Violate(key, ctx+": "+strings.Join(whats, "; "), input)
		}
		if bad {
			return nil // later steps of a broken history add nothing
		}
	}
	return nil
}

// ---------------------------------------------------------------- generators

// smallWrites splits n into writes of 0..5 triangles, as marching cubes delivers them
func smallWrites(rng *Rng, n int) []int {
	var s []int
	for n > 0 {
		k := rng.Range(0, 5)
		if k > n {
			k = n
		}
		s = append(s, k)
		n -= k
	}
	return s
}

func sum(xs []int) int {
	t := 0
	for _, x := range xs {
		if x > 0 {
			t += x
		}
	}
	return t
}

// scheduleAtoms: write sizes that matter for a buffer flushing at B with spare capacity M
func scheduleAtoms(B, M int) []int {
	return []int{-1, 0, 1, 2, 3, 5, M - 1, M, M + 1, B/2 - 1, B - M - 1, B - M, B - 2, B - 1, B, B + 1, B + M, B + M + 1, 2*B - 1, 2 * B, 2*B + 1, 3*B + 7}
}

func clampSizes(s []int) []int {
	o := s[:0:0]
	for _, x := range s {
		if x < -1 {
			x = 0
		}
		o = append(o, x)
	}
	return o
}

func (e *strataEnv) schedules() error {
	B, M := e.bufN, e.bufM
	rng := e.rng
	salt := 0
	run := func(stratum string, sizes []int, mode string) error {
		salt++
		sizes = clampSizes(sizes)
		return e.runSchedule(stratum, schedSpec{Tris: triSpec{N: sum(sizes), Salt: salt}, Sizes: sizes, Mode: mode})
	}
	// (a) a single large write while smaller writes are pending, then the tail
	for _, pend := range []int{1, M, B - 1} {
		for _, big := range []int{B, B + 1, 2*B + 3} {
			sizes := append(smallWrites(rng, pend), big, 2)
			if err := run("schedule/large-write-while-pending", sizes, "slices"); err != nil {
				return err
			}
		}
	}
	// (b) large writes only / first / last, totals that leave nothing for Close
	for _, sizes := range [][]int{{B}, {B, B}, {B + 1, B - 1}, {2 * B}, {B, 1}, {1, B}, {B - 1, 1}, {B - 1, 1, 1}, {B - 1, M + 2}, {B - 1, B + M + 1, B - 1, 1},
		{0}, {-1}, {}, {0, -1, 0}, {1, 0, -1, 1}, {B, 0}, {0, B, -1}} {
		if err := run("schedule/threshold", sizes, "slices"); err != nil {
			return err
		}
	}
	// (c) random mixtures of the atoms
	atoms := scheduleAtoms(B, M)
	nrand := TierN(e.c.Tier, 40, 300, 120)
	for i := 0; i < nrand; i++ {
		var sizes []int
		for k, n := 0, rng.Range(2, 7); k < n && sum(sizes) < 3*B; k++ {
			if rng.Intn(3) == 0 {
				sizes = append(sizes, smallWrites(rng, rng.Range(1, 12))...)
			} else {
				sizes = append(sizes, atoms[rng.Intn(len(atoms))])
			}
		}
		if err := run("schedule/mixed", sizes, "slices"); err != nil {
			return err
		}
	}
	// (d) the renderer re-uses its slice
	for i := 0; i < TierN(e.c.Tier, 12, 60, 30); i++ {
		sizes := [][]int{{3, B, 2}, {B + 5, B + 5, 1}, {5, 5, 2*B + 1, 5}, {B - 1, 1, B, B}}[i%4]
		if i >= 4 {
			sizes = nil
			for k, n := 0, rng.Range(2, 6); k < n; k++ {
				sizes = append(sizes, atoms[rng.Intn(len(atoms))])
			}
		}
		if err := run("schedule/slice-reused-by-renderer", sizes, "reuse"); err != nil {
			return err
		}
	}
	// (d2) the writers used re-entrantly and in parallel
	for i := 0; i < TierN(e.c.Tier, 4, 20, 10); i++ {
		sizes := append(smallWrites(rng, rng.Range(3, 30)), B, 1, 2)
		if err := run("schedule/writers-reentrant-or-parallel", sizes, []string{"reentrant", "parallel"}[i%2]); err != nil {
			return err
		}
	}
	// (e) concurrent writers
	for i := 0; i < TierN(e.c.Tier, 6, 30, 15); i++ {
		var sizes []int
		for k := 0; k < 120; k++ {
			if k%17 == 5 {
				sizes = append(sizes, atoms[rng.Intn(len(atoms))])
			} else {
				sizes = append(sizes, rng.Range(0, 5))
			}
		}
		if err := run("schedule/concurrent-writers", sizes, "concurrent"); err != nil {
			return err
		}
	}
	return nil
}

var histNames = []string{"part.stl", "solid.stl", "solid_part.stl", "out", "a b.stl", "x.STL", "ünï.stl"}

func (e *strataEnv) histories() error {
	rng := e.rng
	B := e.bufN
	salt := 0
	name := func() string { return histNames[rng.Intn(len(histNames))] }
	// a step with n triangles: small lists from the coordinate strata, larger ones indexed
	step := func(op string, n int) histStep {
		salt++
		st := histStep{Op: op}
		if n <= 12 && rng.Intn(4) != 0 {
			st.Tris = explicitSpec(e.gen(n))
		} else {
			st.Tris = triSpec{N: n, Salt: salt}
			if n == 0 {
				st.Tris = explicitSpec(nil)
			}
		}
		if op == "stream" {
			switch rng.Intn(3) {
			case 0:
				st.Sizes = smallWrites(rng, n)
			case 1:
				st.Sizes = []int{n}
			default:
				st.Sizes = []int{n / 2, -1, n - n/2}
			}
			st.Mode = "slices"
		}
		return st
	}
	ops := []string{"save", "stream"}
	// (a) one step onto every kind of pre-existing file, longer / equal / shorter than the output
	for _, op := range ops {
		for _, kind := range []string{"absent", "empty", "stl", "garbage", "ff", "ascii"} {
			for _, rel := range []string{"longer", "equal", "shorter"} {
				if (kind == "absent" || kind == "empty") && rel != "shorter" {
					continue
				}
				n := rng.Range(2, 9)
				size := 84 + 50*n
				pre := preSpec{Kind: kind, Salt: rng.Intn(1000)}
				switch rel {
				case "longer":
					pre.Len = size + []int{1, 50, 100, 50 * rng.Range(3, 40), rng.Range(1, 5000), 4096}[rng.Intn(6)]
					if kind == "stl" {
						pre.Len = size + 50*[]int{1, 2, rng.Range(3, 90)}[rng.Intn(3)]
					}
				case "equal":
					pre.Len = size
				default:
					pre.Len = []int{1, 83, 84, 85, size - 50, size - 1, rng.Range(0, size-1)}[rng.Intn(7)]
					if kind == "stl" {
						pre.Len = size - 50*rng.Range(1, n)
					}
				}
				if kind == "absent" || kind == "empty" {
					pre.Len = 0
				}
				h := histSpec{Name: name(), Pre: pre, Steps: []histStep{step(op, n)}}
				if err := e.runHistory(fmt.Sprintf("history/%s-over-%s-%s", op, kind, rel), h); err != nil {
					return err
				}
			}
		}
	}
	// (b) the same path twice: every pair of writers, growing / shrinking / equal / to and from the empty mesh,
	// and once across the buffer and bufio sizes
	for _, o1 := range ops {
		for _, o2 := range ops {
			for _, ch := range []string{"shrink", "grow", "equal", "to-empty", "from-empty", "shrink-large"} {
				n1, n2 := rng.Range(4, 12), rng.Range(1, 3)
				switch ch {
				case "grow":
					n1, n2 = n2, n1
				case "equal":
					n2 = n1
				case "to-empty":
					n2 = 0
				case "from-empty":
					n1, n2 = 0, n1
				case "shrink-large":
					n1, n2 = B+rng.Range(1, 60), rng.Range(1, 100)
				}
				h := histSpec{Name: name(), Pre: preSpec{Kind: "absent"}, Steps: []histStep{step(o1, n1), step(o2, n2)}}
				if err := e.runHistory(fmt.Sprintf("history/%s-then-%s/%s", o1, o2, ch), h); err != nil {
					return err
				}
			}
		}
	}
	// (c) random histories of three steps over a random pre-existing file
	for i := 0; i < TierN(e.c.Tier, 12, 200, 60); i++ {
		pre := preSpec{Kind: []string{"absent", "empty", "stl", "garbage", "ff", "ascii"}[rng.Intn(6)], Salt: rng.Intn(1000)}
		if pre.Kind != "absent" && pre.Kind != "empty" {
			pre.Len = rng.Range(1, 1500)
			if pre.Kind == "stl" {
				pre.Len = 84 + 50*rng.Range(0, 30)
			}
		}
		h := histSpec{Name: name(), Pre: pre}
		for k := 0; k < 3; k++ {
			h.Steps = append(h.Steps, step(ops[rng.Intn(2)], []int{0, 1, rng.Range(1, 6), rng.Range(1, 20)}[rng.Intn(4)]))
		}
		if err := e.runHistory("history/random-3-steps", h); err != nil {
			return err
		}
	}
	return nil
}

// scheduleAndHistoryStrata is called by checkC13 between the random lists and the large list
func scheduleAndHistoryStrata(e *strataEnv) error {
	e.bufN, e.bufM = 256, 8
	src := filepath.Join(e.c.Repo, "sdf", "triangle3.go")
	if v, err := SourceIntConst(src, "tBufferSize"); err == nil && v >= 16 && v <= 4096 {
		e.bufN = v
	}
	if v, err := SourceIntConst(src, "tBufferMargin"); err == nil && v >= 2 && v < e.bufN/2 {
		e.bufM = v
	}
	e.budget = TierN(e.c.Tier, 1700, 12000, 6000)
	if e.c.Replay != "" {
		e.budget = 1 << 30
	}
	e.r.Coverage["stream_buffer_constants"] = map[string]int{"tBufferSize": e.bufN, "tBufferMargin": e.bufM}

	// corpus, or the inputs of a replay file
	var stored struct {
		Schedules []schedSpec `json:"schedules"`
		Histories []histSpec  `json:"histories"`
	}
	if e.c.Replay != "" {
		var rp struct {
			Failing []struct {
				Input struct {
					Schedule *schedSpec `json:"schedule"`
					History  *histSpec  `json:"history"`
				} `json:"input"`
			} `json:"failing_inputs"`
		}
		b, err := os.ReadFile(e.c.Replay)
		if err != nil {
			return err
		}
		if err := json.Unmarshal(b, &rp); err != nil {
			return err
		}
		for _, f := range rp.Failing {
			if f.Input.Schedule != nil {
				stored.Schedules = append(stored.Schedules, *f.Input.Schedule)
			}
			if f.Input.History != nil {
				stored.Histories = append(stored.Histories, *f.Input.History)
			}
		}
	} else if b, err := os.ReadFile(filepath.Join(e.c.Verif, "corpus", "C13.json")); err == nil {
		if err := json.Unmarshal(b, &stored); err != nil {
			return err
		}
	}
	for _, s := range stored.Schedules {
		if s.Mode == "" {
			s.Mode = "slices"
		}
		if err := e.runSchedule("schedule/corpus", s); err != nil {
			return err
		}
	}
	for _, h := range stored.Histories {
		if h.Name == "" {
			h.Name = "part.stl"
		}
		if err := e.runHistory("history/corpus", h); err != nil {
			return err
		}
	}
	if e.c.Replay != "" {
		return nil
	}
	if err := e.schedules(); err != nil {
		return err
	}
	return e.histories()
}
