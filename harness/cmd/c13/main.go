package main

// C13: binary STL files are well-formed and round-trip exactly; the streaming
// writer (render.ToSTL) writes the same bytes as the batch writer (SaveSTL);
// well-formed ASCII STL loads to the triangles it lists.
// Model: coq/Io/F32.v, coq/Io/Stl.v, coq/Io/StlLoad.v.

import (
	"bytes"
	"encoding/binary"
	"encoding/json"
	"fmt"
	"math"
	"math/big"
	"os"
	"path/filepath"
	"strconv"
	"strings"

	"github.com/deadsy/sdfx/obj"
	"github.com/deadsy/sdfx/render"
	"github.com/deadsy/sdfx/sdf"
	v3 "github.com/deadsy/sdfx/vec/v3"
	"verifharness/iogen"
	. "verifharness/kit"
)

func main() { Main("C13", checkC13, stateGen, iogen.Gen) }

type tri = [3][3]float64

// ---------------------------------------------------------------- generators

// f32mid returns the midpoint between the float32 with pattern w and its successor (exact in float64)
func f32mid(w uint32) float64 {
	return (float64(math.Float32frombits(w)) + float64(math.Float32frombits(w+1))) / 2
}

var coordStrata = []string{"small-int", "uniform", "float32-exact", "tie", "near-tie", "subnormal32", "underflow",
	"near-max", "overflow", "any-exponent", "zero"}

// coord draws one coordinate of the named stratum
func coord(rng *Rng, stratum string) float64 {
	sign := 1.0
	if rng.Bool() {
		sign = -1
	}
	switch stratum {
	case "small-int":
		return sign * float64(rng.Intn(20))
	case "uniform":
		return rng.Uniform(-100, 100)
	case "float32-exact":
		for {
			f := math.Float32frombits(uint32(rng.U64()))
			if !math.IsNaN(float64(f)) && !math.IsInf(float64(f), 0) {
				return float64(f)
			}
		}
	case "tie", "near-tie":
		// midpoint of two adjacent float32 (normal, subnormal, across a binade, at the overflow threshold)
		var w uint32
		switch rng.Intn(6) {
		case 0:
			w = uint32(rng.Intn(1 << 23)) // subnormal (incl. 0: tie between 0 and the least subnormal)
		case 1:
			w = uint32(rng.Range(1, 254))<<23 | 0x7fffff // mantissa all ones: carry into the exponent
		case 2:
			w = 0x7f7fffff // MaxFloat32: midpoint to 2^128 is the overflow threshold
		case 3:
			w = uint32(rng.Range(1, 254))<<23 | uint32(rng.Intn(1<<23))&^1 // even mantissa: tie rounds down
		default:
			w = uint32(rng.Range(0, 254))<<23 | uint32(rng.Intn(1<<23))
		}
		m := f32mid(w)
		if stratum == "near-tie" {
			if rng.Bool() {
				m = math.Nextafter(m, math.Inf(1))
			} else {
				m = math.Nextafter(m, 0)
			}
		}
		return sign * m
	case "subnormal32":
		return sign * math.Ldexp(1+rng.Float(), rng.Range(-149, -127))
	case "underflow":
		switch rng.Intn(4) {
		case 0:
			return sign * math.Ldexp(1, -150) // exactly half of the least subnormal: ties to zero
		case 1:
			return sign * math.Ldexp(1+rng.Float(), -150)
		case 2:
			return sign * math.Ldexp(1+rng.Float(), rng.Range(-1074, -151))
		}
		return sign * math.Float64frombits(uint64(rng.Intn(1<<20))+1) // float64 subnormal
	case "near-max":
		return sign * math.Ldexp(2-math.Ldexp(1, -rng.Range(20, 30))*(1+rng.Float()), 127)
	case "overflow":
		if rng.Intn(3) == 0 {
			return sign * math.Ldexp(1, 128)
		}
		return sign * math.Ldexp(1+rng.Float(), rng.Range(128, 1023))
	case "any-exponent":
		return sign * math.Ldexp(1+rng.Float(), rng.Range(-160, 135))
	}
	if sign < 0 {
		return math.Copysign(0, -1)
	}
	return 0
}

func genTriangle(rng *Rng, k int) (tri, string) {
	var t tri
	switch k % 8 {
	case 0, 1, 2: // every coordinate from one stratum
		s := coordStrata[rng.Intn(len(coordStrata))]
		for i := range t {
			for j := range t[i] {
				t[i][j] = coord(rng, s)
			}
		}
		return t, "coords:" + s
	case 3, 4: // ordinary geometry: a random non-degenerate triangle at moderate scale
		sc := math.Ldexp(1, rng.Range(-20, 20))
		for i := range t {
			for j := range t[i] {
				t[i][j] = rng.Uniform(-1, 1) * sc
			}
		}
		return t, "geometry"
	case 5: // degenerate: repeated vertex or collinear
		a := [3]float64{rng.Uniform(-5, 5), rng.Uniform(-5, 5), rng.Uniform(-5, 5)}
		d := [3]float64{float64(rng.Range(-3, 3)), float64(rng.Range(-3, 3)), float64(rng.Range(-3, 3))}
		s1, s2 := float64(rng.Range(0, 3)), float64(rng.Range(0, 3))
		t[0] = a
		for j := 0; j < 3; j++ {
			t[1][j] = a[j] + s1*d[j]
			t[2][j] = a[j] + s2*d[j]
		}
		return t, "degenerate"
	case 6: // axis-aligned, coordinates on a coarse grid (exact arithmetic, normals along an axis)
		for i := range t {
			for j := range t[i] {
				t[i][j] = rng.Dyadic(8, 2)
			}
		}
		ax := rng.Intn(3)
		t[1][ax], t[2][ax] = t[0][ax], t[0][ax]
		return t, "axis-aligned"
	}
	// mixed strata per coordinate
	for i := range t {
		for j := range t[i] {
			t[i][j] = coord(rng, coordStrata[rng.Intn(len(coordStrata))])
		}
	}
	return t, "coords:mixed"
}

func toMesh(ts []tri) []*sdf.Triangle3 {
	m := make([]*sdf.Triangle3, len(ts))
	for i, t := range ts {
		m[i] = &sdf.Triangle3{v3.Vec{X: t[0][0], Y: t[0][1], Z: t[0][2]}, v3.Vec{X: t[1][0], Y: t[1][1], Z: t[1][2]}, v3.Vec{X: t[2][0], Y: t[2][1], Z: t[2][2]}}
	}
	return m
}
func fromMesh(m []*sdf.Triangle3) []tri {
	ts := make([]tri, len(m))
	for i, t := range m {
		ts[i] = tri{{t[0].X, t[0].Y, t[0].Z}, {t[1].X, t[1].Y, t[1].Z}, {t[2].X, t[2].Y, t[2].Z}}
	}
	return ts
}

// scripted is a Render3 that writes the given batches
type scripted struct{ batches [][]*sdf.Triangle3 }

func (s *scripted) Render(_ sdf.SDF3, out sdf.Triangle3Writer) {
	for _, b := range s.batches {
		out.Write(b)
	}
	out.Close()
}
func (s *scripted) Info(sdf.SDF3) string { return "scripted" }

// ---------------------------------------------------------------- independent oracles

// nearest32 is float32(x) computed with math/big (round to nearest even), independent of the compiler's conversion
func nearest32(x float64) uint32 {
	if math.IsInf(x, 0) || math.IsNaN(x) {
		return math.Float32bits(float32(x))
	}
	f, _ := new(big.Float).SetFloat64(x).Float32()
	return math.Float32bits(f)
}

// exactNormal returns the unit normal along (b-a)x(c-a) computed with 300-bit arithmetic, and whether the
// triangle is well conditioned (so that the float64 computation of Normal() is accurate to ~1e-9)
func exactNormal(t tri) ([3]float64, bool) {
	bf := func(x float64) *big.Float { return new(big.Float).SetPrec(300).SetFloat64(x) }
	sub := func(a, b *big.Float) *big.Float { return new(big.Float).SetPrec(300).Sub(a, b) }
	mul := func(a, b *big.Float) *big.Float { return new(big.Float).SetPrec(300).Mul(a, b) }
	var e1, e2 [3]*big.Float
	maxc := 0.0
	for i := range t {
		for j := range t[i] {
			if math.IsInf(t[i][j], 0) || math.IsNaN(t[i][j]) {
				return [3]float64{}, false
			}
			maxc = math.Max(maxc, math.Abs(t[i][j]))
		}
	}
	if maxc == 0 || maxc > 1e30 || maxc < 1e-30 {
		return [3]float64{}, false
	}
	for j := 0; j < 3; j++ {
		e1[j] = sub(bf(t[1][j]), bf(t[0][j]))
		e2[j] = sub(bf(t[2][j]), bf(t[0][j]))
	}
	cr := [3]*big.Float{sub(mul(e1[1], e2[2]), mul(e1[2], e2[1])), sub(mul(e1[2], e2[0]), mul(e1[0], e2[2])), sub(mul(e1[0], e2[1]), mul(e1[1], e2[0]))}
	norm := func(v [3]*big.Float) *big.Float {
		s := new(big.Float).SetPrec(300)
		for j := 0; j < 3; j++ {
			s.Add(s, mul(v[j], v[j]))
		}
		return s.Sqrt(s)
	}
	l, l1, l2 := norm(cr), norm(e1), norm(e2)
	lf, l1f, l2f := f64(l), f64(l1), f64(l2)
	// no catastrophic cancellation in b-a, c-a; angle between the edges not tiny
	if l1f < 1e-5*maxc || l2f < 1e-5*maxc || lf < 1e-5*l1f*l2f {
		return [3]float64{}, false
	}
	var n [3]float64
	for j := 0; j < 3; j++ {
		n[j] = f64(new(big.Float).SetPrec(300).Quo(cr[j], l))
	}
	return n, true
}
func f64(x *big.Float) float64 { f, _ := x.Float64(); return f }

// ---------------------------------------------------------------- the check

type c13Corpus struct {
	Lists [][]tri  `json:"lists"`
	Ascii []string `json:"ascii"`
}

func triKey(ts []tri) string {
	var b strings.Builder
	for _, t := range ts {
		for i := range t {
			for j := range t[i] {
				b.WriteString(strconv.FormatUint(math.Float64bits(t[i][j]), 16))
				b.WriteByte(',')
			}
		}
	}
	return b.String()
}

func checkC13(c *Ctx, r *Report) error {
	rng := NewRng(c.Seed)
	tmp, err := os.MkdirTemp("", "c13")
	if err != nil {
		return err
	}
	defer os.RemoveAll(tmp)
	var corpus c13Corpus
	if b, err := os.ReadFile(filepath.Join(c.Verif, "corpus", "C13.json")); err == nil {
		if err := json.Unmarshal(b, &corpus); err != nil {
			return err
		}
	}
	replay := c.Replay != ""
	if replay {
		// re-run only the inputs recorded in a replay file
		var rp struct {
			Failing []struct {
				Input struct {
					Triangles [][3][3]string `json:"triangles"`
					File      *string        `json:"file"`
				} `json:"input"`
			} `json:"failing_inputs"`
		}
		b, err := os.ReadFile(c.Replay)
		if err != nil {
			return err
		}
		if err := json.Unmarshal(b, &rp); err != nil {
			return err
		}
		corpus = c13Corpus{}
		for _, f := range rp.Failing {
			if f.Input.File != nil {
				corpus.Ascii = append(corpus.Ascii, *f.Input.File)
			} else if f.Input.Triangles != nil {
				ts := make([]tri, len(f.Input.Triangles))
				for i, t := range f.Input.Triangles {
					for a := range t {
						for b := range t[a] {
							ts[i][a][b], _ = strconv.ParseFloat(t[a][b], 64)
						}
					}
				}
				corpus.Lists = append(corpus.Lists, ts)
			}
		}
	}
	imports := "From Coq Require String.\nFrom Coq Require Import Uint63.\nFrom Sdfx Require Import Io.F32 Io.Stl Io.StlLoad.\nImport String.StringSyntax.\nOpen Scope N_scope."
	conv := &Cases{Kind: "conv", Imports: imports, Type: "Stl.conv_case", Fn: "Stl.conv_mismatches", PerShard: 2500}
	stl := &Cases{Kind: "stl", Imports: imports, Type: "Stl.case", Fn: "Stl.mismatches", InfoFn: "Stl.inexact", PerShard: 1}
	asc := &Cases{Kind: "ascii", Imports: imports, Type: "StlLoad.case", Fn: "StlLoad.mismatches", PerShard: 60}
	id := 0

	// ---- conversions alone
	nconv := TierN(c.Tier, 12000, 60000, 24000)
	if replay {
		nconv = 0
	}
	for k := 0; k < nconv; k++ {
		s := coordStrata[k%len(coordStrata)]
		x := coord(rng, s)
		if k%97 == 0 { // widening of arbitrary patterns, infinities included
			x = float64(math.Float32frombits(uint32(rng.U64())))
			s = "float32-pattern"
			if math.IsNaN(x) {
				x = math.Inf(1)
			}
		}
		id++
		w := math.Float32bits(float32(x))
		y := float64(float32(x))
		conv.Add(fmt.Sprintf("(%d%%N, %s, 0x%x%%N, %s)", id, CF(x), w, CF(y)))
		key := fmt.Sprintf("conv:%x", math.Float64bits(x))
		r.Case("conversion/"+s, key, true)
		if w != nearest32(x) {
			r.Violate(key, fmt.Sprintf("float32(%x) = %08x is not the nearest float32 (ties to even) %08x", x, w, nearest32(x)), map[string]interface{}{"x": fmt.Sprintf("%x", x)})
		}
	}
	if err := conv.Write(c.Out); err != nil {
		return err
	}

	// ---- triangle lists: SaveSTL, ToSTL, LoadSTL
	var shard []string
	shardTris := 0
	flush := func() {
		if len(shard) > 0 {
			stl.Add(strings.Join(shard, ";\n"))
			shard, shardTris = nil, 0
		}
	}
	listCase := func(stratum string, ts []tri) error {
		id++
		key := "list:" + triKey(ts)
		r.Case(stratum, key, len(ts) > 0)
		mesh := toMesh(ts)
		p1 := filepath.Join(tmp, "save.stl")
		p2 := filepath.Join(tmp, "stream.stl")
		os.Remove(p1)
		os.Remove(p2)
		input := map[string]interface{}{"triangles": hexTris(ts)}
		if len(ts) > 40 {
			input = map[string]interface{}{"n": len(ts), "seed": c.Seed, "stratum": stratum}
		}
		if err := render.SaveSTL(p1, mesh); err != nil {
			r.Violate(key, "SaveSTL error: "+err.Error(), input)
			return nil
		}
		// partition into batches as a renderer would deliver them
		var batches [][]*sdf.Triangle3
		for i := 0; i < len(mesh); {
			n := rng.Range(0, 5)
			if id%3 == 0 {
				n = rng.Range(0, 700)
			}
			if i+n > len(mesh) {
				n = len(mesh) - i
			}
			batches = append(batches, mesh[i:i+n])
			i += n
		}
		render.ToSTL(nil, p2, &scripted{batches})
		sb, err := os.ReadFile(p1)
		if err != nil {
			return err
		}
		tb, err := os.ReadFile(p2)
		if err != nil {
			r.Violate(key, "ToSTL wrote no file: "+err.Error(), input)
			return nil
		}
		loaded, lerr := render.LoadSTL(p1)
		lt := "None"
		if lerr == nil {
			lt = "(Some " + CFTris(fromMesh(loaded)) + ")"
		}
		shard = append(shard, fmt.Sprintf("(%d%%N, %s,\n %s,\n %s,\n %s)", id, CFTris(ts), PackBytes(sb), PackBytes(tb), lt))
		shardTris += len(ts) + 1
		if shardTris > 600 {
			flush()
		}
		if id%7 == 0 && len(ts) <= 2 {
			r.Sample(map[string]interface{}{"kind": "list", "triangles": hexTris(ts), "file_bytes": len(sb)})
		}
		// direct oracles: the sentences of the property, on the real bytes
		if what := checkBytes(ts, sb); what != "" {
			r.Violate(key, "SaveSTL: "+what, input)
		} else if !bytes.Equal(sb, tb) {
			r.Violate(key, "streaming writer: "+firstDiff(sb, tb), input)
		}
		if lerr != nil {
			r.Violate(key, "LoadSTL of the saved file: "+lerr.Error(), input)
		} else if what := checkLoaded(ts, fromMesh(loaded)); what != "" {
			r.Violate(key, "LoadSTL of the saved file: "+what, input)
		}
		return nil
	}
	for _, ts := range corpus.Lists {
		if err := listCase("corpus", ts); err != nil {
			return err
		}
	}
	// lengths: empty, tiny, around the Triangle3Buffer batch (256) and bufio (4096 bytes = 81.9 records) sizes, large
	fixed := []int{0, 1, 2, 3, 80, 81, 82, 255, 256, 257}
	nsmall := TierN(c.Tier, 500, 4000, 1200)
	big := []int{TierN(c.Tier, 2000, 5000, 3500)}
	if c.Tier == "thorough" {
		big = append(big, 4097, 7000)
	}
	k := 0
	gen := func(n int) []tri {
		ts := make([]tri, n)
		for i := range ts {
			k++
			ts[i], _ = genTriangle(rng, k)
		}
		return ts
	}
	if replay {
		fixed, nsmall, big = nil, 0, nil
	}
	for _, n := range fixed {
		if err := listCase(fmt.Sprintf("len=%d", n), gen(n)); err != nil {
			return err
		}
	}
	for i := 0; i < nsmall; i++ {
		n := rng.Range(1, 6)
		if i%10 == 0 {
			n = rng.Range(7, 120)
		}
		if err := listCase("len:"+lenBucket(n), gen(n)); err != nil {
			return err
		}
	}
	// one triangle per stratum of triangles, so that each kind is reported separately
	for i := 0; i < TierN(c.Tier, 300, 2000, 600) && !replay; i++ {
		k++
		t, s := genTriangle(rng, k)
		if err := listCase("single/"+s, []tri{t}); err != nil {
			return err
		}
	}
	// write schedules of the streaming writer and file histories of both writers (histories.go)
	if err := scheduleAndHistoryStrata(&strataEnv{c: c, r: r, rng: rng, tmp: tmp, gen: gen,
		nextID: func() int { id++; return id },
		emit: func(term string, ntris int) {
			shard = append(shard, term)
			shardTris += ntris + 1
			if shardTris > 600 {
				flush()
			}
		}}); err != nil {
		return err
	}
	for _, n := range big {
		if err := listCase("len:large", gen(n)); err != nil {
			return err
		}
	}
	flush()
	if err := stl.Write(c.Out); err != nil {
		return err
	}

	// ---- ASCII listings
	asciiCase := func(stratum string, content []byte, want []tri, wantKnown bool) error {
		id++
		key := "ascii:" + strconv.Quote(string(content))
		if len(content) > 300 {
			key = fmt.Sprintf("ascii:%d bytes,%q...", len(content), string(content[:120]))
		}
		r.Case(stratum, key, true)
		p := filepath.Join(tmp, "a.stl")
		if err := os.WriteFile(p, content, 0o644); err != nil {
			return err
		}
		input := map[string]interface{}{"file": string(content)}
		cls, icls := 1, 1
		var got []tri
		func() {
			defer func() {
				if e := recover(); e != nil {
					cls = 2
					r.Violate(key, fmt.Sprintf("LoadSTL panics on an ASCII listing: %v", e), input)
				}
			}()
			m, err := render.LoadSTL(p)
			if err != nil {
				cls = 0
				if wantKnown {
					r.Violate(key, fmt.Sprintf("LoadSTL returns an error (%v) for a well-formed ASCII listing of %d triangle(s)", err, len(want)), input)
				}
				return
			}
			got = fromMesh(m)
		}()
		func() {
			defer func() {
				if e := recover(); e != nil {
					icls = 2
				}
			}()
			if _, err := obj.ImportSTL(p, 20, 3, 5); err != nil {
				icls = 0
			}
		}()
		if cls == 1 && wantKnown {
			if what := sameTris(want, got); what != "" {
				r.Violate(key, "LoadSTL of a well-formed ASCII listing: "+what, input)
			}
		}
		asc.Add(StlLoadCase(id, content, cls, got, icls))
		if id%5 == 0 {
			r.Sample(map[string]interface{}{"kind": "ascii", "file": string(content), "triangles": len(got)})
		}
		return nil
	}
	for _, a := range corpus.Ascii {
		// corpus listings: the expected triangles are what the vertex lines say
		want := listedTriangles([]byte(a))
		if err := asciiCase("ascii/corpus", []byte(a), want, true); err != nil {
			return err
		}
	}
	nasc := TierN(c.Tier, 400, 3000, 800)
	if replay {
		nasc = 0
	}
	for i := 0; i < nasc; i++ {
		n := rng.Range(0, 4)
		if i%12 == 0 {
			n = rng.Range(5, 40)
		}
		ts := gen(n)
		content, want, style := writeASCII(rng, ts)
		if looksBinary(content) {
			continue
		}
		if err := asciiCase("ascii/"+style, content, want, true); err != nil {
			return err
		}
	}
	if err := asc.Write(c.Out); err != nil {
		return err
	}

	r.Rule = "conversion cases: one float64 per case from 11 strata (exact float32 values, midpoints of adjacent float32 incl. subnormal / carry / overflow-threshold ties and their float64 neighbours, subnormal and underflow range, beyond MaxFloat32, any exponent, signed zeros); distinct by bit pattern. list cases: triangle lists of length 0..large (quick 2000, thorough 7000) whose triangles come from the same coordinate strata, ordinary geometry, degenerate and axis-aligned triangles; written with SaveSTL and with ToSTL through a scripted Render3 that delivers random batches; non-trivial = at least one triangle, distinct by the bit patterns of all coordinates. ascii cases: listings of 0..40 triangles written in several number formats / indentation / line-ending styles; distinct by file content."
	r.Rule += strataRule
	r.Trusted = append(r.Trusted,
		"hand models coq/Io/F32.v, Io/Stl.v, Io/StlLoad.v tied to render/stl.go by differential execution inside coqc: bytes of SaveSTL and ToSTL vs Stl.save_f / Stl.stream_save_f (every byte identical, header text ignored; Normal components within 2^-22), LoadSTL vs Stl.decode, float32 conversions vs F32.narrow32/widen32 bit for bit",
		"harness oracles: math/big rounding to float32, 300-bit exact normal, os file IO",
		"ASCII tokenisation (bufio.Scanner, strings.Fields, strconv.ParseFloat) is an oracle of the model")
	r.Assumptions = append(r.Assumptions,
		"NaN payload/sign bits are not modelled (one NaN class); no NaN vertex coordinates are generated",
		"normal_right_handed is a theorem about the real-number instance of the Normal() text; the float instance is compared with a 300-bit computation on well-conditioned triangles (tolerance 2e-7 per component), not proved (C13_normal partial)",
		"an ASCII file whose size happens to equal 84+50*(little-endian word at offset 80) is read as binary (hypothesis of C13_ascii_load; needs a text file of > 7 GB)")
	return nil
}

func lenBucket(n int) string {
	switch {
	case n <= 6:
		return "1-6"
	case n <= 120:
		return "7-120"
	}
	return "large"
}

func hexTris(ts []tri) [][3][3]string {
	o := make([][3][3]string, len(ts))
	for i, t := range ts {
		for a := range t {
			for b := range t[a] {
				o[i][a][b] = strconv.FormatFloat(t[a][b], 'x', -1, 64)
			}
		}
	}
	return o
}

func firstDiff(a, b []byte) string {
	if len(a) != len(b) {
		return fmt.Sprintf("file has %d bytes, batch writer wrote %d", len(b), len(a))
	}
	for i := range a {
		if a[i] != b[i] {
			return fmt.Sprintf("byte %d is %02x, batch writer wrote %02x", i, b[i], a[i])
		}
	}
	return ""
}

// checkBytes: the sentences of the property about a saved file
func checkBytes(ts []tri, b []byte) string {
	if len(b) != 84+50*len(ts) {
		return fmt.Sprintf("file has %d bytes for %d triangles (want 84+50n = %d)", len(b), len(ts), 84+50*len(ts))
	}
	if cnt := binary.LittleEndian.Uint32(b[80:84]); cnt != uint32(len(ts)) {
		return fmt.Sprintf("count field is %d for %d triangles", cnt, len(ts))
	}
	for i, t := range ts {
		rec := b[84+50*i : 84+50*(i+1)]
		for v := 0; v < 3; v++ {
			for j := 0; j < 3; j++ {
				w := binary.LittleEndian.Uint32(rec[12+12*v+4*j:])
				if want := nearest32(t[v][j]); w != want {
					return fmt.Sprintf("triangle %d vertex %d coordinate %d: stored %08x, float32 rounding of %x is %08x", i, v, j, w, t[v][j], want)
				}
			}
		}
		if rec[48] != 0 || rec[49] != 0 {
			return fmt.Sprintf("triangle %d: attribute bytes %02x %02x", i, rec[48], rec[49])
		}
		if n, ok := exactNormal(t); ok {
			for j := 0; j < 3; j++ {
				s := float64(math.Float32frombits(binary.LittleEndian.Uint32(rec[4*j:])))
				if !(math.Abs(s-n[j]) <= 2e-7) {
					return fmt.Sprintf("triangle %d: stored normal component %d is %g, right-hand-rule unit normal has %g", i, j, s, n[j])
				}
			}
		}
	}
	return ""
}

func checkLoaded(ts, got []tri) string {
	if len(got) != len(ts) {
		return fmt.Sprintf("%d triangles loaded, %d saved", len(got), len(ts))
	}
	for i := range ts {
		for v := 0; v < 3; v++ {
			for j := 0; j < 3; j++ {
				want := float64(math.Float32frombits(nearest32(ts[i][v][j])))
				if math.Float64bits(got[i][v][j]) != math.Float64bits(want) {
					return fmt.Sprintf("triangle %d vertex %d coordinate %d: loaded %x, float32 value of the input is %x", i, v, j, got[i][v][j], want)
				}
			}
		}
	}
	return ""
}

func sameTris(want, got []tri) string {
	if len(got) != len(want) {
		return fmt.Sprintf("%d triangles loaded, %d listed", len(got), len(want))
	}
	for i := range want {
		for v := 0; v < 3; v++ {
			for j := 0; j < 3; j++ {
				if math.Float64bits(got[i][v][j]) != math.Float64bits(want[i][v][j]) {
					return fmt.Sprintf("triangle %d vertex %d coordinate %d: loaded %x, listed %x", i, v, j, got[i][v][j], want[i][v][j])
				}
			}
		}
	}
	return ""
}

func looksBinary(content []byte) bool {
	return len(content) >= 84 && int64(len(content)) == int64(binary.LittleEndian.Uint32(content[80:84]))*50+84
}

// listedTriangles reads the vertex lines of a well-formed listing (harness-side reference)
func listedTriangles(content []byte) []tri {
	lines, _ := StlTokens(content)
	var vs [][3]float64
	for _, f := range lines {
		if len(f) == 4 && f[0] == "vertex" {
			var v [3]float64
			for j := 0; j < 3; j++ {
				v[j], _ = strconv.ParseFloat(f[1+j], 64)
			}
			vs = append(vs, v)
		}
	}
	var ts []tri
	for i := 0; i+2 < len(vs); i += 3 {
		ts = append(ts, tri{vs[i], vs[i+1], vs[i+2]})
	}
	return ts
}

// writeASCII renders a well-formed ASCII STL of the triangles; returns the content and the triangles the
// text denotes (each number as strconv.ParseFloat reads it back)
func writeASCII(rng *Rng, ts []tri) ([]byte, []tri, string) {
	styles := []string{"%g", "%e", "%.9e", "%f", "%.3f", "shortest", "hex"}
	style := styles[rng.Intn(len(styles))]
	num := func(x float64) string {
		switch style {
		case "shortest":
			return strconv.FormatFloat(x, 'g', -1, 64)
		case "hex":
			return strconv.FormatFloat(x, 'x', -1, 64)
		}
		return fmt.Sprintf(style, x)
	}
	eol := "\n"
	if rng.Intn(4) == 0 {
		eol = "\r\n"
	}
	ind := []string{"", " ", "  ", "\t"}[rng.Intn(4)]
	name := []string{"", "part", "a b c", "vertex", "solid_1"}[rng.Intn(5)]
	var b strings.Builder
	b.WriteString("solid " + name + eol)
	want := make([]tri, len(ts))
	for i, t := range ts {
		b.WriteString(ind + "facet normal " + num(0) + " " + num(0) + " " + num(1) + eol)
		b.WriteString(ind + ind + "outer loop" + eol)
		for v := 0; v < 3; v++ {
			b.WriteString(ind + ind + ind + "vertex")
			for j := 0; j < 3; j++ {
				x := t[v][j]
				if math.IsInf(x, 0) {
					x = math.Copysign(1e30, x)
				}
				s := num(x)
				var perr error
				if want[i][v][j], perr = strconv.ParseFloat(s, 64); perr != nil {
					// e.g. %.9e of a value next to MaxFloat64 rounds up out of range: not a well-formed number
					s = strconv.FormatFloat(x, 'g', -1, 64)
					want[i][v][j] = x
				}
				sep := " "
				if rng.Intn(10) == 0 {
					sep = "  "
				}
				b.WriteString(sep + s)
			}
			b.WriteString(eol)
		}
		b.WriteString(ind + ind + "endloop" + eol)
		b.WriteString(ind + "endfacet" + eol)
	}
	b.WriteString("endsolid " + name)
	if rng.Intn(3) != 0 {
		b.WriteString(eol)
	}
	return []byte(b.String()), want, "format=" + style
}
