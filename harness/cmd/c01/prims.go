package main

// The 'prims' stratum of C01: differential execution of the primitives of coq/Sdf/Prim2X.v
// (FlatFlankCam2D, MakeFlatFlankCam, ThreeArcCam2D, MakeThreeArcCam, NewFlange1, ArcSpiral2D, GearRack2D)
// at primitive floats.  Each object is built through the public Go constructor at generated
// parameters (regimes listed below), read back by the hook sdf.VerifDumpTree2 and printed as a term
// of coq/Sdf/Reify.v over exact rationals; coqc interprets the term with the Gallina model at
// primitive floats and compares the box and the values at 24 points (inside, near the box faces,
// up to 3x the box away; for spirals 36 more placed relative to the curve: every angular sector and turn) with BoundingBox()/Evaluate() of the Go object, and evaluates the checker
// wfb2, whose verdict must be the one predicted here.  For ArcSpiral2D - whose constructor and Evaluate
// (unbounded `for` loops, math.Round) are not translated by harness/sdfgen - this is the tie of the
// model to the code; for the others it runs underneath the TRANSL equalities of Sdf/GenEqX.v.
// The enclosure itself is searched on the implementation outside the box (search2) in the parameter
// class where the theorems of Props/C01.v claim it.

import (
	"fmt"
	"math"
	"os"
	"path/filepath"
	"strings"

	"github.com/deadsy/sdfx/sdf"
	v2 "github.com/deadsy/sdfx/vec/v2"
	. "verifharness/kit"
)

type primCase struct {
	stratum, key string
	s            sdf.SDF2
}

func primsStratum(c *Ctx, r *Report, rng *Rng) error {
	var cs []primCase
	add := func(stratum, key string, s sdf.SDF2, err error) {
		if err != nil || s == nil {
			r.Case("prims/rejected/"+stratum, key, false)
			return
		}
		cs = append(cs, primCase{stratum, key, s})
	}
	n := TierN(c.Tier, 10, 60, 30)
	u := rng.Uniform
	for i := 0; i < n; i++ {
		// ---- flat flank cam: smaller nose / larger nose / nearly nested / tiny and huge scale
		sc := []float64{1, 1, 1e-3, 1e3}[i%4]
		b := u(2, 30) * sc
		nn := u(0.1, 0.95) * b
		if i%3 == 1 {
			nn = u(1.05, 3) * b
		}
		gap := u(0.5, 30) * sc
		if i%5 == 4 {
			gap = u(1e-3, 1e-2) * sc // circles nearly nested: sin close to +-1
		}
		d := math.Abs(b-nn) + gap
		s, err := sdf.FlatFlankCam2D(d, b, nn)
		add("flatflank", fmt.Sprintf("FlatFlankCam2D(%v,%v,%v)", d, b, nn), s, err)
		add("flange1", fmt.Sprintf("NewFlange1(%v,%v,%v)", d, b, nn), sdf.NewFlange1(d, b, nn), nil)
		// ---- three arc cam: flank radius from just above the minimum to very flat flanks
		fmin := (b + d + nn) / 2
		f := fmin * []float64{1.0001, 1.02, 1.3, 2, 6, 50}[i%6] * u(1, 1.1)
		s, err = sdf.ThreeArcCam2D(d, b, nn, f)
		add("threearc", fmt.Sprintf("ThreeArcCam2D(%v,%v,%v,%v)", d, b, nn, f), s, err)
		// ---- the design-parameter front ends
		dia := u(10, 60) * sc
		lift := u(0.05, 0.2) * dia
		dur := sdf.DtoR(u(60, 175))
		s, err = sdf.MakeFlatFlankCam(lift, dur, dia)
		add("makeflatflank", fmt.Sprintf("MakeFlatFlankCam(%v,%v,%v)", lift, dur, dia), s, err)
		k := u(1.02, 1.3)
		s, err = sdf.MakeThreeArcCam(lift, dur, dia, k)
		add("makethreearc", fmt.Sprintf("MakeThreeArcCam(%v,%v,%v,%v)", lift, dur, dia, k), s, err)
		// ---- spiral: slopes of both signs, offsets that put part of the curve at negative polar radius,
		// angle ranges of both orders and signs, thin and thick bands
		a := u(0.1, 3)
		if i%4 == 2 {
			a = -a
		}
		k0 := []float64{0, u(1, 30), -u(1, 30), u(-2, 2)}[i%4]
		start := u(-2, 2) * sdf.Tau
		end := start + u(0.3, 6)*sdf.Tau
		if i%3 == 0 {
			end = start + u(0.1, 0.9)*sdf.Tau // less than one turn: there is an angular gap between end and start
		}
		if i%3 == 2 {
			start, end = end, start
		}
		dd := u(0.02, 0.49) * math.Abs(a) * sdf.Tau
		if i%7 == 6 {
			dd = u(1, 5) * math.Abs(a) * sdf.Tau // band wider than the pitch of the spiral
		}
		s, err = sdf.ArcSpiral2D(a, k0, start, end, dd)
		add("spiral", fmt.Sprintf("ArcSpiral2D(%v,%v,%v,%v,%v)", a, k0, start, end, dd), s, err)
		// ---- gear rack
		m := u(0.3, 4) * sc
		kk := sdf.GearRackParms{NumberTeeth: rng.Intn(12) + 1, Module: m, PressureAngle: sdf.DtoR(u(14.5, 25)),
			Backlash: []float64{0, u(0, 0.05) * m}[i%2], BaseHeight: []float64{u(0.1, 2) * m, 0, u(0.01, 0.1) * m}[i%3]}
		s, err = sdf.GearRack2D(&kk)
		add("rack", fmt.Sprintf("GearRack2D(%+v)", kk), s, err)
	}

	// the accepted minimum of the flank radius (the cam degenerates into the flank circle: still certified), and a
	// spiral outside the class of the theorems (negative band half-width: the checker must say so)
	{
		s, err := sdf.ThreeArcCam2D(10, 5, 2, 8.5)
		add("threearc-at-minimum", "ThreeArcCam2D(10,5,2,8.5)", s, err)
		s, err = sdf.ArcSpiral2D(1, 2, 0, 10, -0.25)
		add("spiral-negative-d", "ArcSpiral2D(1,2,0,10,-0.25)", s, err)
	}

	var defs, cases []string
	shard := 0
	flush := func() error {
		if len(cases) == 0 {
			return nil
		}
		var b strings.Builder
		b.WriteString("From Coq Require Import List ZArith NArith QArith Floats.\nImport ListNotations.\n")
		b.WriteString("From Sdfx Require Import Num.Ops Num.QInst Sdf.Reify Sdf.ReifyCheck Sdf.ReifyCorr.\n")
		b.WriteString(strings.Join(defs, "\n"))
		b.WriteString("\nDefinition cases : list rcase := [\n" + strings.Join(cases, ";\n") + "\n].\n")
		b.WriteString("Definition M_prims := Eval vm_compute in (rmismatches cases).\nPrint M_prims.\n")
		b.WriteString("Definition M_prims_verdict := Eval vm_compute in (rstatus_mismatches cases).\nPrint M_prims_verdict.\n")
		b.WriteString("Definition M_prims_builds := Eval vm_compute in (rbuild_mismatches cases).\nPrint M_prims_builds.\n")
		b.WriteString("Definition I_prims := Eval vm_compute in (rinexact cases).\nPrint I_prims.\n")
		err := os.WriteFile(filepath.Join(c.Out, fmt.Sprintf("cases_prims_%d.v", shard)), []byte(b.String()), 0o644)
		shard++
		defs, cases = nil, nil
		return err
	}
	nsearch := TierN(c.Tier, 3000, 20000, 10000)
	status := map[string]int{}
	for id, pc := range cs {
		root := sdf.VerifDumpTree2(pc.s)
		key := "prims:" + pc.key
		if root == nil || root.Kind == "Opaque2" {
			r.Case("prims/"+pc.stratum+"/opaque", key, false)
			continue
		}
		rf := newReifier(fmt.Sprintf("q%d", id+1))
		rootName := rf.emit(root)
		if rf.bad != "" {
			r.Case("prims/"+pc.stratum+"/not-printable", key, false)
			continue
		}
		why := rf.wfOf(root)
		st := stCertified
		if why != "" {
			st = stOutside
		}
		status[pc.stratum+"/"+statusName[st]]++
		r.Case("prims/"+pc.stratum+"/"+statusName[st], key, true)
		bb := pc.s.BoundingBox()
		gb := box2s(bb)
		sz, cen := bb.Size(), bb.Center()
		scale := 1.0
		for _, x := range gb {
			scale = math.Max(scale, math.Abs(x))
		}
		var pts []string
		for i := 0; i < 24; i++ {
			kx := []float64{0.5, 0.5, 1.02, 3}[i%4]
			p := v2.Vec{X: cen.X + rng.Uniform(-1, 1)*sz.X*kx, Y: cen.Y + rng.Uniform(-1, 1)*sz.Y*kx}
			switch i {
			case 0:
				p = v2.Vec{} // the origin: atan2(0, 0), zero polar radius
			case 1:
				p = v2.Vec{X: 0, Y: p.Y} // on the symmetry axis
			case 2:
				p = v2.Vec{X: p.X, Y: 0}
			}
			v := pc.s.Evaluate(p)
			if math.IsNaN(v) || math.IsInf(v, 0) {
				continue
			}
			pts = append(pts, fl(p.X, p.Y, v))
		}
		if root.Kind == "ArcSpiral" {
			// points placed relative to the curve, so that every branch of Evaluate is met: polar angle inside the
			// range, just before the start, just after the end and in the gap of a spiral shorter than a turn; polar
			// radius on the turn through that angle, one turn in and out, inside the first and beyond the last turn
			a, k0, st0, en0, dd := root.F[0], root.F[1], root.F[2], root.F[3], root.F[4]
			for j := 0; j < 36; j++ {
				frac := []float64{-0.6, -0.2, -0.03, 0.02, 0.5, 0.97, 1.04, 1.25, 1.7}[j%9]
				th := st0 + frac*(en0-st0)
				turn := []float64{0, -1, 1, 2}[(j/9)%4]
				rad := a*(th+turn*sdf.Tau) + k0 + []float64{0.3, -0.4, 1.5, -2.5}[j%4]*dd
				p := v2.Vec{X: rad * math.Cos(th), Y: rad * math.Sin(th)}
				v := pc.s.Evaluate(p)
				if math.IsNaN(v) || math.IsInf(v, 0) {
					continue
				}
				pts = append(pts, fl(p.X, p.Y, v))
			}
		}
		defs = append(defs, fmt.Sprintf("(* %d: %s *)", id+1, strings.ReplaceAll(pc.key, "*", "x")))
		defs = append(defs, rf.defs...)
		cases = append(cases, fmt.Sprintf("(%d%%N, T2 %s, %s, %s, %s, %d%%N)", id+1, rootName, fl(gb...), CF(1e-9*scale), CList(pts), st))
		if len(cases) >= 30 {
			if err := flush(); err != nil {
				return err
			}
		}
		// the property itself, where the theorems claim it
		if !finite(gb...) || bb.Min.X > bb.Max.X || bb.Min.Y > bb.Max.Y {
			if st == stCertified {
				r.Violate(key, "BoundingBox() is not finite and ordered: "+fmt.Sprint(bb), map[string]interface{}{"ctor": pc.key})
			}
			continue
		}
		if st != stCertified {
			continue
		}
		if p, d, found := search2(rng, pc.s, nsearch); found && d < -1e-9*math.Max(1, sz.MaxComponent()) {
			r.Violate(key, fmt.Sprintf("%s: Evaluate(%v) = %g < 0 outside BoundingBox() %v", pc.key, p, d, bb),
				map[string]interface{}{"ctor": pc.key, "point": p, "value": d, "box": bb})
		}
	}
	if err := flush(); err != nil {
		return err
	}
	r.Coverage["prims"] = map[string]interface{}{
		"objects_by_stratum_and_verdict": status,
		"rule":                           "cams, flange, spiral and gear rack built through the public constructors at generated parameters (smaller / larger nose, nearly nested circles, flank radius 1.0001x .. 50x the minimum, spiral slopes and offsets of both signs, reversed and negative angle ranges, bands wider than the spiral pitch, rack with and without base / backlash; scales 1e-3 .. 1e3), read back by the hook, replayed inside coqc at primitive floats (box + 24 values per object incl. the origin and the axes, spirals: + 36 points placed relative to the curve - angle inside the range / before the start / after the end / in the gap of a spiral shorter than a turn, radius on that turn, one turn in or out, absolute tolerance 1e-9 x box scale; I_prims lists the objects that are not bit-exact) and put through the checker wfb2; the enclosure is searched outside the box on every object the checker accepts",
	}
	return nil
}
