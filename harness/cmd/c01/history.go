package main

// HISTORY stratum: a box is computed once, in the constructor, from the operands present at that
// moment.  A constructor that keeps the caller's slice (variadic `parts...`, vertex / line /
// triangle / position lists) or the caller's parameter struct instead of a copy evaluates whatever
// the caller writes there LATER while still reporting the old box.  For every constructor that takes
// a slice, a variadic list or a pointer to a parameter struct:
//
//	build the FIRST shape from a caller-owned slice S (spare capacity filled with other operands),
//	check that the constructor left S (all of its capacity) and the pointees untouched,
//	then run one history on S:   overwrite  S[i] = other operands
//	                             reuse      S = S[:0]; append others; build a SECOND shape from S
//	                             append     S = append(S, others...) inside the capacity; second shape
//	                             zero       S[i] = zero value / nil
//	                             pointee    *S[i] = *other (lists of pointers only)
//	and compare BoundingBox() and Evaluate() of the first shape - bit for bit - with what they were
//	before the history and with a twin built from a private deep copy that is never touched; the
//	second shape is compared with its own twin; the enclosure oracle probes the first shape where the
//	LATER operands are (failing input: a point with a negative value outside the box).

import (
	"fmt"
	"math"
	"os"
	"reflect"
	"time"

	"github.com/deadsy/sdfx/obj"
	"github.com/deadsy/sdfx/sdf"
	v2 "github.com/deadsy/sdfx/vec/v2"
	v3 "github.com/deadsy/sdfx/vec/v3"
	. "verifharness/kit"
)

// hshape is a 2D or 3D shape behind one interface (2D points use X, Y).
type hshape struct {
	s2 sdf.SDF2
	s3 sdf.SDF3
}

func h2(s sdf.SDF2, err error) hshape {
	if err != nil || s == nil {
		return hshape{}
	}
	return hshape{s2: s}
}
func h3(s sdf.SDF3, err error) hshape {
	if err != nil || s == nil {
		return hshape{}
	}
	return hshape{s3: s}
}
func (h hshape) isNil() bool { return h.s2 == nil && h.s3 == nil }
func (h hshape) box() [6]float64 {
	if h.s3 != nil {
		b := h.s3.BoundingBox()
		return [6]float64{b.Min.X, b.Min.Y, b.Min.Z, b.Max.X, b.Max.Y, b.Max.Z}
	}
	b := h.s2.BoundingBox()
	return [6]float64{b.Min.X, b.Min.Y, 0, b.Max.X, b.Max.Y, 0}
}
func (h hshape) eval(p v3.Vec) float64 {
	if h.s3 != nil {
		return h.s3.Evaluate(p)
	}
	return h.s2.Evaluate(v2.Vec{X: p.X, Y: p.Y})
}
func (h hshape) contains(p v3.Vec) bool {
	b := h.box()
	in := p.X >= b[0] && p.X <= b[3] && p.Y >= b[1] && p.Y <= b[4]
	if h.s3 != nil {
		in = in && p.Z >= b[2] && p.Z <= b[5]
	}
	return in
}

func sameBits(a, b float64) bool { return math.Float64bits(a) == math.Float64bits(b) }
func sameBox(a, b [6]float64) bool {
	for i := range a {
		if !sameBits(a[i], b[i]) {
			return false
		}
	}
	return true
}

// hscen: one constructor taking a list.
type hscen[T any] struct {
	ctor    string
	a, b    []T               // first operand list; the LATER operands (elsewhere in space)
	build   func([]T) hshape  // passes the slice itself to the constructor (spread or slice argument)
	clone   func(T) T         // deep copy of one element (pointer elements: a new pointee)
	same    func(x, y T) bool // equality of two elements including their pointees
	mutate  func(dst, src T)  // overwrite the pointee of dst with that of src (nil: value elements)
	zero    T
	probes  []v3.Vec // interior points of the a- and of the b-operands
	pointee bool     // whether pointee mutation is inside the claimed class for this constructor
}

type histStats struct {
	Runs, Violations int
	Constructors     map[string]int
	Seconds          map[string]float64 `json:"-"`
	seen             map[string]bool
}

func cloneAll[T any](xs []T, clone func(T) T) []T {
	out := make([]T, len(xs))
	for i, x := range xs {
		out[i] = clone(x)
	}
	return out
}

// under runs f and converts a panic into an error text.
func under(f func()) (msg string) {
	defer func() {
		if x := recover(); x != nil {
			msg = fmt.Sprint(x)
		}
	}()
	f()
	return ""
}

func runHist[T any](r *Report, rng *Rng, st *histStats, sc hscen[T]) {
	hists := []string{"overwrite", "reuse", "append", "zero"}
	if sc.mutate != nil && sc.pointee {
		hists = append(hists, "pointee")
	}
	st.Constructors[sc.ctor] += len(hists)
	t0 := time.Now()
	defer func() { st.Seconds[sc.ctor] += time.Since(t0).Seconds() }()
	// extra probes: random points in the hull of the given ones
	probes := append([]v3.Vec(nil), sc.probes...)
	lo, hi := probes[0], probes[0]
	for _, p := range probes {
		lo, hi = lo.Min(p), hi.Max(p)
	}
	lo, hi = lo.SubScalar(1.5), hi.AddScalar(1.5)
	for i := 0; i < 40; i++ {
		probes = append(probes, v3.Vec{X: rng.Uniform(lo.X, hi.X), Y: rng.Uniform(lo.Y, hi.Y), Z: rng.Uniform(lo.Z, hi.Z)})
	}
	for _, p := range sc.probes { // and a small cloud around every interior point
		for i := 0; i < 6; i++ {
			probes = append(probes, p.Add(v3.Vec{X: rng.Uniform(-0.4, 0.4), Y: rng.Uniform(-0.4, 0.4), Z: rng.Uniform(-0.4, 0.4)}))
		}
	}
	for _, h := range hists {
		h := h
		st.Runs++
		key := "history:" + sc.ctor + "/" + h
		r.Case("history/"+sc.ctor, key, true)
		viol := func(what string, extra map[string]interface{}) {
			if st.seen[key] { // one failing input per constructor and history
				return
			}
			st.seen[key] = true
			st.Violations++
			in := map[string]interface{}{"constructor": sc.ctor, "history": h, "first_operands": fmt.Sprint(sc.a), "later_operands": fmt.Sprint(sc.b)}
			for k, v := range extra {
				in[k] = v
			}
			r.Violate(key, sc.ctor+", history "+h+": "+what, in)
		}
		if msg := under(func() {
			// the caller's slice: the a-operands, spare capacity holding other operands
			S := make([]T, len(sc.a), len(sc.a)+len(sc.b)+3)
			for i := range sc.a {
				S[i] = sc.clone(sc.a[i])
			}
			full := S[:cap(S)]
			for i := len(sc.a); i < len(full); i++ {
				full[i] = sc.clone(sc.b[(i-len(sc.a))%len(sc.b)])
			}
			saved := make([]T, len(full))
			copy(saved, full)
			savedDeep := cloneAll(full, sc.clone)
			A := sc.build(S)
			twin := sc.build(cloneAll(sc.a, sc.clone))
			if A.isNil() || twin.isNil() {
				viol("the constructor rejected the operand list of the scenario", nil)
				return
			}
			// (1) the constructor must leave the caller's memory alone
			for i := range full {
				if !sc.same(full[i], saved[i]) || !sc.same(full[i], savedDeep[i]) {
					where := "element"
					if i >= len(sc.a) {
						where = "spare capacity beyond len, element"
					}
					viol(fmt.Sprintf("the constructor modified the caller's slice (%s %d of %d/%d)", where, i, len(sc.a), len(full)), map[string]interface{}{"index": i})
					break
				}
			}
			box0 := A.box()
			vals0 := make([]float64, len(probes))
			for i, p := range probes {
				vals0[i] = A.eval(p)
				if tv := twin.eval(p); !sameBits(vals0[i], tv) {
					viol(fmt.Sprintf("before any history the shape and its twin from a private copy differ: Evaluate(%v) = %v vs %v", p, vals0[i], tv), map[string]interface{}{"point": p})
					return
				}
			}
			if tb := twin.box(); !sameBox(box0, tb) {
				viol(fmt.Sprintf("before any history the shape and its twin from a private copy have different boxes %v vs %v", box0, tb), nil)
				return
			}
			// (2) the history
			var B, twinB hshape
			second := false
			switch h {
			case "overwrite":
				for i := range S {
					S[i] = sc.clone(sc.b[i%len(sc.b)])
				}
			case "reuse":
				S = S[:0]
				for _, x := range sc.b {
					S = append(S, sc.clone(x))
				}
				B, twinB, second = sc.build(S), sc.build(cloneAll(sc.b, sc.clone)), true
			case "append":
				var want []T
				want = append(want, cloneAll(S, sc.clone)...)
				for _, x := range sc.b {
					S = append(S, sc.clone(x))
					want = append(want, sc.clone(x))
				}
				B, twinB, second = sc.build(S), sc.build(want), true
			case "zero":
				for i := range full {
					full[i] = sc.zero
				}
			case "pointee":
				for i := range S {
					sc.mutate(S[i], sc.b[i%len(sc.b)])
				}
			}
			// (3) the first shape is what it was
			if b := A.box(); !sameBox(b, box0) {
				viol(fmt.Sprintf("BoundingBox() of the first shape changed from %v to %v", box0, b), nil)
			}
			worst, worstP, changed := 0.0, v3.Vec{}, -1
			for i, p := range probes {
				d := A.eval(p)
				if d < worst && !A.contains(p) {
					worst, worstP = d, p
				}
				if !sameBits(d, vals0[i]) && changed < 0 {
					changed = i
				}
			}
			if worst < -1e-9 {
				viol(fmt.Sprintf("Evaluate(%v) = %g < 0 outside BoundingBox() %v of the first shape after the caller changed the slice it was built from", worstP, worst, box0),
					map[string]interface{}{"point": worstP, "value": worst, "box": box0})
			}
			if changed >= 0 {
				p := probes[changed]
				viol(fmt.Sprintf("Evaluate(%v) of the first shape changed from %v to %v (twin from a private copy: %v)", p, vals0[changed], A.eval(p), twin.eval(p)), map[string]interface{}{"point": p})
			}
			// (4) the second shape equals its twin
			if second {
				if B.isNil() != twinB.isNil() {
					viol("the second shape built from the re-used slice and its twin from a private copy: one is nil", nil)
					return
				}
				if B.isNil() {
					return
				}
				if b, tb := B.box(), twinB.box(); !sameBox(b, tb) {
					viol(fmt.Sprintf("second shape built from the re-used slice: BoundingBox() %v, twin from a private copy %v", b, tb), nil)
				}
				for _, p := range probes {
					d, td := B.eval(p), twinB.eval(p)
					if !sameBits(d, td) {
						viol(fmt.Sprintf("second shape built from the re-used slice: Evaluate(%v) = %v, twin from a private copy %v", p, d, td), map[string]interface{}{"point": p})
						break
					}
					if d < -1e-9 && !B.contains(p) {
						viol(fmt.Sprintf("second shape: Evaluate(%v) = %g < 0 outside BoundingBox() %v", p, d, B.box()), map[string]interface{}{"point": p, "value": d})
						break
					}
				}
			}
		}); msg != "" {
			viol("panic: "+msg, nil)
		}
	}
}

// ---------------------------------------------------------------- parameter structs passed by pointer

// deepCopy copies structs, arrays, slices and pointers (no maps / interfaces inside the parameter structs used here).
func deepCopy(v reflect.Value) reflect.Value {
	switch v.Kind() {
	case reflect.Ptr:
		if v.IsNil() {
			return v
		}
		n := reflect.New(v.Type().Elem())
		n.Elem().Set(deepCopy(v.Elem()))
		return n
	case reflect.Struct:
		n := reflect.New(v.Type()).Elem()
		n.Set(v)
		for i := 0; i < v.NumField(); i++ {
			if n.Field(i).CanSet() {
				n.Field(i).Set(deepCopy(v.Field(i)))
			}
		}
		return n
	case reflect.Slice:
		if v.IsNil() {
			return v
		}
		n := reflect.MakeSlice(v.Type(), v.Len(), v.Len())
		for i := 0; i < v.Len(); i++ {
			n.Index(i).Set(deepCopy(v.Index(i)))
		}
		return n
	case reflect.Array:
		n := reflect.New(v.Type()).Elem()
		for i := 0; i < v.Len(); i++ {
			n.Index(i).Set(deepCopy(v.Index(i)))
		}
		return n
	}
	return v
}

// scramble overwrites every numeric / boolean field reachable from v (strings keep their value: names of
// threads and styles are looked up, the values are what the geometry depends on).
func scramble(v reflect.Value) {
	switch v.Kind() {
	case reflect.Ptr:
		if !v.IsNil() {
			scramble(v.Elem())
		}
	case reflect.Struct:
		for i := 0; i < v.NumField(); i++ {
			if v.Field(i).CanSet() {
				scramble(v.Field(i))
			}
		}
	case reflect.Slice, reflect.Array:
		for i := 0; i < v.Len(); i++ {
			scramble(v.Index(i))
		}
	case reflect.Float64, reflect.Float32:
		v.SetFloat(v.Float()*2.75 + 13)
	case reflect.Int, reflect.Int32, reflect.Int64:
		v.SetInt(v.Int() + 5)
	case reflect.Bool:
		v.SetBool(!v.Bool())
	}
}

// histParms: build from a pointer to a parameter struct, then the caller scrambles / zeroes the struct.
func histParms(r *Report, rng *Rng, st *histStats, ctor string, parms interface{}, build func(p interface{}) hshape) {
	t0 := time.Now()
	defer func() { st.Seconds[ctor] += time.Since(t0).Seconds() }()
	for _, h := range []string{"scramble-struct", "zero-struct"} {
		h := h
		st.Runs++
		st.Constructors[ctor]++
		key := "history:" + ctor + "/" + h
		r.Case("history/"+ctor, key, true)
		viol := func(what string, extra map[string]interface{}) {
			if st.seen[key] {
				return
			}
			st.seen[key] = true
			st.Violations++
			in := map[string]interface{}{"constructor": ctor, "history": h, "params": fmt.Sprintf("%+v", reflect.ValueOf(parms).Elem().Interface())}
			for k, v := range extra {
				in[k] = v
			}
			r.Violate(key, ctor+", history "+h+": "+what, in)
		}
		if msg := under(func() {
			p := deepCopy(reflect.ValueOf(parms))
			A := build(p.Interface())
			twin := build(deepCopy(reflect.ValueOf(parms)).Interface())
			if A.isNil() || twin.isNil() {
				viol("the constructor rejected the documented parameters of the scenario", nil)
				return
			}
			box0 := A.box()
			var probes []v3.Vec
			for i := 0; i < 60; i++ {
				k := 0.75
				if i%3 == 0 {
					k = 8 // far outside: where a scrambled (larger) shape would be
				}
				c := v3.Vec{X: (box0[0] + box0[3]) / 2, Y: (box0[1] + box0[4]) / 2, Z: (box0[2] + box0[5]) / 2}
				probes = append(probes, v3.Vec{X: c.X + rng.Uniform(-k, k)*(box0[3]-box0[0]+1e-3), Y: c.Y + rng.Uniform(-k, k)*(box0[4]-box0[1]+1e-3), Z: c.Z + rng.Uniform(-k, k)*(box0[5]-box0[2]+1e-3)})
			}
			vals0 := make([]float64, len(probes))
			for i, q := range probes {
				vals0[i] = A.eval(q)
			}
			if h == "scramble-struct" {
				scramble(p)
			} else {
				p.Elem().Set(reflect.Zero(p.Elem().Type()))
			}
			if b := A.box(); !sameBox(b, box0) {
				viol(fmt.Sprintf("BoundingBox() changed from %v to %v after the caller changed the parameter struct", box0, b), nil)
			}
			if tb := twin.box(); !sameBox(tb, box0) {
				viol(fmt.Sprintf("BoundingBox() %v differs from the twin built from a private copy %v", box0, tb), nil)
			}
			for i, q := range probes {
				d := A.eval(q)
				if !sameBits(d, vals0[i]) || !sameBits(d, twin.eval(q)) {
					viol(fmt.Sprintf("Evaluate(%v) changed from %v to %v after the caller changed the parameter struct (twin: %v)", q, vals0[i], d, twin.eval(q)), map[string]interface{}{"point": q})
					break
				}
			}
		}); msg != "" {
			viol("panic: "+msg, nil)
		}
	}
}

// ---------------------------------------------------------------- the stratum

func historyStratum(c *Ctx, r *Report, rng *Rng) {
	st := &histStats{Constructors: map[string]int{}, Seconds: map[string]float64{}, seen: map[string]bool{}}
	// CubicSpline2D prints debug lines from Evaluate
	devnull, _ := os.OpenFile(os.DevNull, os.O_WRONLY, 0)
	saved := os.Stdout
	if devnull != nil {
		os.Stdout = devnull
		defer func() { os.Stdout = saved; devnull.Close() }()
	}
	rounds := TierN(c.Tier, 2, 12, 6)
	for round := 0; round < rounds; round++ {
		// where the first and the later operands are (the later ones far from the first box)
		j := func() float64 { return rng.Uniform(-1, 1) }
		far := v3.Vec{X: 35 + 5*j(), Y: -28 + 5*j(), Z: 22 + 5*j()}
		if round%2 == 1 {
			far = far.Neg()
		}
		id3 := func(x sdf.SDF3) sdf.SDF3 { return x }
		id2 := func(x sdf.SDF2) sdf.SDF2 { return x }
		eqI3 := func(x, y sdf.SDF3) bool { return x == y }
		eqI2 := func(x, y sdf.SDF2) bool { return x == y }

		// ---- Union3D (with and without nil entries: documented to be stripped)
		ball, _ := sdf.Sphere3D(1)
		brick, _ := sdf.Box3D(v3.Vec{X: 2, Y: 1.5, Z: 1}, 0)
		at3 := func(s sdf.SDF3, p v3.Vec) sdf.SDF3 { return sdf.Transform3D(s, sdf.Translate3d(p)) }
		pa := []v3.Vec{{X: j()}, {X: 3 + j(), Y: j()}, {X: 1, Y: 2.5 + j(), Z: j()}}
		pb := []v3.Vec{far, far.Add(v3.Vec{Y: 3}), far.Add(v3.Vec{X: -4, Z: 2}), far.MulScalar(-0.7)}
		a3 := []sdf.SDF3{at3(ball, pa[0]), at3(brick, pa[1]), at3(ball, pa[2])}
		b3 := []sdf.SDF3{at3(ball, pb[0]), at3(brick, pb[1]), at3(ball, pb[2]), at3(brick, pb[3])}
		pr3 := append(append([]v3.Vec(nil), pa...), pb...)
		runHist(r, rng, st, hscen[sdf.SDF3]{ctor: "sdf.Union3D", a: a3, b: b3, clone: id3, same: eqI3, probes: pr3,
			build: func(s []sdf.SDF3) hshape { return h3(sdf.Union3D(s...), nil) }})
		runHist(r, rng, st, hscen[sdf.SDF3]{ctor: "sdf.Union3D(nil entries)", a: []sdf.SDF3{nil, a3[0], nil, a3[1], a3[2]}, b: b3, clone: id3, same: eqI3, probes: pr3,
			build: func(s []sdf.SDF3) hshape { return h3(sdf.Union3D(s...), nil) }})
		// ---- Union2D
		disc, _ := sdf.Circle2D(1)
		at2 := func(s sdf.SDF2, p v3.Vec) sdf.SDF2 {
			return sdf.Transform2D(s, sdf.Translate2d(v2.Vec{X: p.X, Y: p.Y}))
		}
		flat := func(ps []v3.Vec) []v3.Vec {
			out := make([]v3.Vec, len(ps))
			for i, p := range ps {
				out[i] = v3.Vec{X: p.X, Y: p.Y}
			}
			return out
		}
		rect := sdf.Box2D(v2.Vec{X: 2, Y: 1.5}, 0)
		a2 := []sdf.SDF2{at2(disc, pa[0]), at2(rect, pa[1]), at2(disc, pa[2])}
		b2 := []sdf.SDF2{at2(disc, pb[0]), at2(rect, pb[1]), at2(disc, pb[2]), at2(rect, pb[3])}
		pr2 := flat(pr3)
		runHist(r, rng, st, hscen[sdf.SDF2]{ctor: "sdf.Union2D", a: a2, b: b2, clone: id2, same: eqI2, probes: pr2,
			build: func(s []sdf.SDF2) hshape { return h2(sdf.Union2D(s...), nil) }})
		runHist(r, rng, st, hscen[sdf.SDF2]{ctor: "sdf.Union2D(nil entries)", a: []sdf.SDF2{nil, a2[0], nil, a2[1], a2[2]}, b: b2, clone: id2, same: eqI2, probes: pr2,
			build: func(s []sdf.SDF2) hshape { return h2(sdf.Union2D(s...), nil) }})
		// ---- position / direction lists
		idv3 := func(x v3.Vec) v3.Vec { return x }
		eqv3 := func(x, y v3.Vec) bool { return x == y }
		idv2 := func(x v2.Vec) v2.Vec { return x }
		eqv2 := func(x, y v2.Vec) bool { return x == y }
		to2 := func(ps []v3.Vec) []v2.Vec {
			out := make([]v2.Vec, len(ps))
			for i, p := range ps {
				out[i] = v2.Vec{X: p.X, Y: p.Y}
			}
			return out
		}
		runHist(r, rng, st, hscen[v3.Vec]{ctor: "sdf.Multi3D", a: pa, b: pb, clone: idv3, same: eqv3, probes: pr3,
			build: func(s []v3.Vec) hshape { return h3(sdf.Multi3D(ball, v3.VecSet(s)), nil) }})
		runHist(r, rng, st, hscen[v2.Vec]{ctor: "sdf.Multi2D", a: to2(pa), b: to2(pb), clone: idv2, same: eqv2, probes: pr2,
			build: func(s []v2.Vec) hshape { return h2(sdf.Multi2D(disc, v2.VecSet(s)), nil) }})
		rod, _ := sdf.Cylinder3D(6, 0.8, 0)
		rod = sdf.Transform3D(rod, sdf.Translate3d(v3.Vec{Z: 3}))
		da := []v3.Vec{{X: 1}, {Y: 1, Z: 0.2 + 0.1*j()}}
		db := []v3.Vec{{X: -1, Y: -1, Z: j()}, {Z: -1}, {X: -0.3, Y: 1, Z: -1}}
		var prd []v3.Vec
		for _, d := range append(append([]v3.Vec(nil), da...), db...) {
			prd = append(prd, d.Normalize().MulScalar(2), d.Normalize().MulScalar(5))
		}
		runHist(r, rng, st, hscen[v3.Vec]{ctor: "sdf.Orient3D", a: da, b: db, clone: idv3, same: eqv3, probes: prd,
			build: func(s []v3.Vec) hshape { return h3(sdf.Orient3D(rod, v3.Vec{Z: 1}, v3.VecSet(s)), nil) }})
		// ---- vertex and knot lists
		ngon := func(c v3.Vec, rad float64, n int) []v2.Vec {
			var v []v2.Vec
			for i := 0; i < n; i++ {
				t := 2 * math.Pi * float64(i) / float64(n)
				v = append(v, v2.Vec{X: c.X + rad*math.Cos(t), Y: c.Y + rad*math.Sin(t)})
			}
			return v
		}
		va, vb := ngon(pa[0], 2+0.3*j(), 5), ngon(pb[0], 3+0.3*j(), 7)
		prv := []v3.Vec{{X: pa[0].X, Y: pa[0].Y}, {X: pa[0].X + 1, Y: pa[0].Y}, {X: pb[0].X, Y: pb[0].Y}, {X: pb[0].X - 1.5, Y: pb[0].Y + 1}}
		runHist(r, rng, st, hscen[v2.Vec]{ctor: "sdf.Polygon2D", a: va, b: vb, clone: idv2, same: eqv2, probes: prv,
			build: func(s []v2.Vec) hshape { return h2(sdf.Polygon2D(s)) }})
		runHist(r, rng, st, hscen[v2.Vec]{ctor: "sdf.(*Polygon).AddV2Set+Mesh2D", a: va, b: vb, clone: idv2, same: eqv2, probes: prv,
			build: func(s []v2.Vec) hshape {
				p := sdf.NewPolygon()
				p.AddV2Set(s)
				p.Close()
				return h2(p.Mesh2D())
			}})
		runHist(r, rng, st, hscen[v2.Vec]{ctor: "sdf.CubicSpline2D(+Offset2D)", a: va, b: vb, clone: idv2, same: eqv2, probes: prv,
			build: func(s []v2.Vec) hshape {
				cs, err := sdf.CubicSpline2D(s)
				if err != nil {
					return hshape{}
				}
				return h2(sdf.Offset2D(cs, 0.5), nil)
			}})
		// ---- lists of pointers to segments / triangles
		cloneL := func(l *sdf.Line2) *sdf.Line2 {
			if l == nil {
				return nil
			}
			c := *l
			return &c
		}
		eqL := func(x, y *sdf.Line2) bool { return (x == nil) == (y == nil) && (x == nil || *x == *y) }
		mutL := func(d, s *sdf.Line2) { *d = *s }
		la, lb := sdf.VertexToLine(append([]v2.Vec(nil), va...), true), sdf.VertexToLine(append([]v2.Vec(nil), vb...), true)
		runHist(r, rng, st, hscen[*sdf.Line2]{ctor: "sdf.Mesh2D", a: la, b: lb, clone: cloneL, same: eqL, mutate: mutL, probes: prv, pointee: true,
			build: func(s []*sdf.Line2) hshape { return h2(sdf.Mesh2D(s)) }})
		runHist(r, rng, st, hscen[*sdf.Line2]{ctor: "sdf.Mesh2DSlow", a: la, b: lb, clone: cloneL, same: eqL, mutate: mutL, probes: prv, pointee: true,
			build: func(s []*sdf.Line2) hshape { return h2(sdf.Mesh2DSlow(s)) }})
		cloneT := func(t *sdf.Triangle3) *sdf.Triangle3 {
			if t == nil {
				return nil
			}
			c := *t
			return &c
		}
		eqT := func(x, y *sdf.Triangle3) bool { return (x == nil) == (y == nil) && (x == nil || *x == *y) }
		mutT := func(d, s *sdf.Triangle3) { *d = *s }
		ta := boxTris(pa[0].SubScalar(1), pa[0].AddScalar(1.5), false)
		tb := boxTris(pb[0].SubScalar(2), pb[0].AddScalar(1), false)
		prt := []v3.Vec{pa[0], pa[0].AddScalar(0.5), pb[0], pb[0].SubScalar(1)}
		runHist(r, rng, st, hscen[*sdf.Triangle3]{ctor: "sdf.Mesh3D", a: ta, b: tb, clone: cloneT, same: eqT, mutate: mutT, probes: prt, pointee: true,
			build: func(s []*sdf.Triangle3) hshape { return h3(sdf.Mesh3D(s)) }})
		runHist(r, rng, st, hscen[*sdf.Triangle3]{ctor: "sdf.Mesh3DSlow", a: ta, b: tb, clone: cloneT, same: eqT, mutate: mutT, probes: prt, pointee: true,
			build: func(s []*sdf.Triangle3) hshape { return h3(sdf.Mesh3DSlow(s)) }})
		runHist(r, rng, st, hscen[*sdf.Triangle3]{ctor: "obj.ImportTriMesh", a: ta, b: tb, clone: cloneT, same: eqT, mutate: mutT, probes: prt, pointee: true,
			build: func(s []*sdf.Triangle3) hshape { return h3(obj.ImportTriMesh(s, 20, 3, 5), nil) }})
		// ---- placement matrices
		idm := func(m sdf.M44) sdf.M44 { return m }
		eqm := func(x, y sdf.M44) bool { return x == y }
		slab, _ := sdf.Box3D(v3.Vec{X: 80, Y: 80, Z: 10}, 0)
		if tab, err := obj.NewStraightTab(v3.Vec{X: 6, Y: 1, Z: 2}, 0.1); err == nil {
			ma := []sdf.M44{sdf.Translate3d(v3.Vec{X: 40, Z: 5 + j()}).Mul(sdf.RotateZ(sdf.DtoR(90))), sdf.Translate3d(v3.Vec{Y: 40, Z: 5})}
			mb := []sdf.M44{sdf.Translate3d(v3.Vec{X: -40, Z: 30}), sdf.Translate3d(v3.Vec{Y: -40, Z: -25 + j()}), sdf.Translate3d(far)}
			prm := []v3.Vec{{X: 40, Z: 6}, {Y: 40, Z: 6}, {X: -40, Z: 31}, {Y: -40, Z: -24}, far.Add(v3.Vec{Z: 1}), {}}
			for _, up := range []bool{false, true} {
				up := up
				runHist(r, rng, st, hscen[sdf.M44]{ctor: fmt.Sprintf("obj.AddTabs(upper=%v)", up), a: ma, b: mb, clone: idm, same: eqm, probes: prm,
					build: func(s []sdf.M44) hshape { return h3(obj.AddTabs(slab, tab, up, s), nil) }})
			}
		}
		// ---- parameter structs passed by pointer
		if round == 0 {
			p3 := func(f interface{}) func(p interface{}) hshape {
				return func(p interface{}) hshape {
					out := reflect.ValueOf(f).Call([]reflect.Value{reflect.ValueOf(p)})
					if len(out) == 2 && !out[1].IsNil() {
						return hshape{}
					}
					if out[0].IsNil() {
						return hshape{}
					}
					switch s := out[0].Interface().(type) {
					case sdf.SDF3:
						return hshape{s3: s}
					case sdf.SDF2:
						return hshape{s2: s}
					}
					return hshape{}
				}
			}
			const inch = sdf.MillimetresPerInch
			histParms(r, rng, st, "sdf.GearRack2D", &sdf.GearRackParms{NumberTeeth: 11, Module: (5.0 / 8.0) / 20.0, PressureAngle: sdf.DtoR(20), BaseHeight: 0.025}, p3(sdf.GearRack2D))
			histParms(r, rng, st, "obj.Bolt", &obj.BoltParms{Thread: "M16x2", Style: "hex", Tolerance: 0.3, TotalLength: 50, ShankLength: 10}, p3(obj.Bolt))
			histParms(r, rng, st, "obj.Nut", &obj.NutParms{Thread: "unc_5/8", Style: "knurl", Tolerance: 0.3 / inch}, p3(obj.Nut))
			histParms(r, rng, st, "obj.Washer3D", &obj.WasherParms{Thickness: 2, InnerRadius: 5, OuterRadius: 10, Remove: 0.5}, p3(obj.Washer3D))
			histParms(r, rng, st, "obj.Washer2D", &obj.WasherParms{InnerRadius: 2.90 * 0.5, OuterRadius: 1.89}, p3(obj.Washer2D))
			histParms(r, rng, st, "obj.Standoff3D", &obj.StandoffParms{PillarHeight: 14, PillarDiameter: 4.5, HoleDepth: 11.0, HoleDiameter: 2.6, NumberWebs: 2, WebHeight: 10, WebDiameter: 12, WebWidth: 3.5}, p3(obj.Standoff3D))
			histParms(r, rng, st, "obj.TruncRectPyramid3D", &obj.TruncRectPyramidParms{Size: v3.Vec{X: 57, Y: 14, Z: 28}, BaseAngle: sdf.DtoR(85), BaseRadius: 7, RoundRadius: 1.4}, p3(obj.TruncRectPyramid3D))
			histParms(r, rng, st, "obj.Panel3D", &obj.PanelParms{Size: v2.Vec{X: 75, Y: 140}, CornerRadius: 4, HoleDiameter: 3.5, HoleMargin: [4]float64{7, 7, 7, 7}, HolePattern: [4]string{"x", "xx", "x", "xx"}, Thickness: 5.5}, p3(obj.Panel3D))
			histParms(r, rng, st, "obj.Panel2D", &obj.PanelParms{Size: v2.Vec{X: 120, Y: 80}, CornerRadius: 3, HoleDiameter: 3, HoleMargin: [4]float64{5, 5, 5, 5}, HolePattern: [4]string{"x", "xx", "x.x", "xx.x.xx"}, Thickness: 2}, p3(obj.Panel2D))
			histParms(r, rng, st, "obj.PanelHole3D", &obj.PanelHoleParms{Diameter: 9.4, Thickness: 2.5, Indent: v3.Vec{X: 2, Y: 4, Z: 2}, Offset: 11.0}, p3(obj.PanelHole3D))
			histParms(r, rng, st, "obj.InvoluteGear", &obj.InvoluteGearParms{NumberTeeth: 20, Module: (5.0 / 8.0) / 20.0, PressureAngle: sdf.DtoR(20), RingWidth: 0.05, Facets: 7}, p3(obj.InvoluteGear))
			histParms(r, rng, st, "obj.Knurl3D", &obj.KnurlParms{Length: 21, Radius: 28, Pitch: 7, Height: 2.1, Theta: sdf.DtoR(45)}, p3(obj.Knurl3D))
			histParms(r, rng, st, "obj.Arrow3D", &obj.ArrowParms{Axis: [2]float64{50, 1}, Head: [2]float64{5, 2}, Tail: [2]float64{5, 2}, Style: "cb"}, p3(obj.Arrow3D))
			histParms(r, rng, st, "obj.FingerButton2D", &obj.FingerButtonParms{Width: 4.0, Gap: 0.6, Length: 20.0}, p3(obj.FingerButton2D))
			histParms(r, rng, st, "obj.Angle3D", &obj.AngleParms{X: obj.AngleLeg{Length: 1.25 * inch, Thickness: 0.125 * inch}, Y: obj.AngleLeg{Length: 1.25 * inch, Thickness: 0.125 * inch}, RootRadius: 0.125 * inch, Length: 12 * inch}, p3(obj.Angle3D))
		}
	}
	r.Coverage["histories"] = st
	r.Coverage["histories_rule"] = "per constructor taking a variadic list, a slice or a pointer to a parameter struct: the first shape is built from a caller-owned slice with spare capacity; the constructor must leave the slice (whole capacity) and the pointees untouched; histories overwrite / reuse (re-slice, append, second shape) / append inside the capacity (second shape) / zero / pointee (lists of pointers) / scramble-struct / zero-struct; afterwards BoundingBox() and Evaluate() of the first shape are bit-identical to before and to a twin built from a private deep copy, the second shape to its own twin, and no probe point at the LATER operands has a negative value outside the first box"
}
