package main

import (
	"verifharness/kit"
	"verifharness/stategen"
)

// stateGen regenerates coq/Generated/StateInv.v, the inventory of package-level variables and
// struct fields (and which of them are written outside construction) of the source tree under
// analysis; Props/C01.v requires C01_state_inventory (coq/Sys/StateInvC01.v), which compares
// the part in this property's scope with the expected inventory of coq/Sys/StateInvSpec.v.
// It is listed FIRST in kit.Main's generator list: Main stops at the first translator that gives up on an
// edited tree, and the inventory must be regenerated from that tree all the same (a stale one hides or
// invents differences).
var stateGen kit.GenFn = stategen.Gen
