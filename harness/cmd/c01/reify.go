package main

// The 'reified' stratum of C01: per-object certificates for real library objects.
//
// Every part of the object library (harness/objparts: obj/*.go and the sdf builders, at the
// documented example parameters and at perturbed ones) is read back with the hook
// sdf.VerifDumpTree2/3 into an expression tree and printed as a term of coq/Sdf/Reify.v over exact
// rationals.  coqc then (a) maps the term to primitive floats, interprets it with the model and
// compares box and values with BoundingBox()/Evaluate() of the Go object, and (b) runs the
// boolean checker wfb2/wfb3 of coq/Sdf/ReifyCheck.v on it.  wfb = true plus the theorems
// C01_reified_certificate* is a proof that the (real-number) object denoted by the term keeps
// every negative value inside its box, over all points of space.  This file also predicts the
// verdict (mirror of the checker, with the reason of a failure) so that the evidence can say why
// a part is outside the class; coqc must confirm every predicted verdict.

import (
	"encoding/json"
	"fmt"
	"math"
	"math/big"
	"os"
	"path/filepath"
	"sort"
	"strings"

	"github.com/deadsy/sdfx/sdf"
	v2 "github.com/deadsy/sdfx/vec/v2"
	v3 "github.com/deadsy/sdfx/vec/v3"
	. "verifharness/kit"
	"verifharness/objparts"
)

const (
	stCertified = 0 // wfb = true, no opaque leaf
	stModulo    = 1 // wfb = true, relative to the opaque leaves being enclosed by their boxes
	stOutside   = 2 // wfb = false
)

// qd prints a finite float64 as the exact rational (qd m e) = m * 2^e of Sdf/ReifyCorr.v.
func qd(x float64) string {
	if x == 0 {
		return "(qd 0 0)"
	}
	m, e := math.Frexp(x)
	mi := int64(m * (1 << 53))
	e -= 53
	for mi%2 == 0 {
		mi /= 2
		e++
	}
	z := func(k int64) string {
		if k < 0 {
			return fmt.Sprintf("(%d)", k)
		}
		return fmt.Sprint(k)
	}
	return "(qd " + z(mi) + " " + z(int64(e)) + ")"
}

func qds(xs []float64) string {
	var s []string
	for _, x := range xs {
		s = append(s, qd(x))
	}
	return strings.Join(s, " ")
}

func qlist(xs []float64) string {
	var s []string
	for _, x := range xs {
		s = append(s, qd(x))
	}
	return "[" + strings.Join(s, "; ") + "]"
}

type reifier struct {
	prefix string
	defs   []string
	names  map[int]string
	bad    string // non-empty: the tree cannot be printed (non-finite parameter ...)
	// verdict memo
	wf   map[int]string // "" = well-formed, otherwise the first failing side condition
	cinf map[int]bool
	cl2  map[int]bool
	seen map[int]bool
	// statistics
	kinds   map[string]int
	opaques []*sdf.VerifShape
	inexact int
}

func newReifier(prefix string) *reifier {
	return &reifier{prefix: prefix, names: map[int]string{}, wf: map[int]string{}, cinf: map[int]bool{}, cl2: map[int]bool{},
		seen: map[int]bool{}, kinds: map[string]int{}}
}

func finiteAll(xs []float64) bool {
	for _, x := range xs {
		if math.IsNaN(x) || math.IsInf(x, 0) {
			return false
		}
	}
	return true
}

func minBlend(b sdf.VerifBlend) string {
	switch b.Kind {
	case "def":
		return "qMinDef"
	case "poly":
		return "(qMinPoly " + qd(b.K) + ")"
	case "round":
		return "(qMinRound " + qd(b.K) + ")"
	case "chamfer":
		return "(qMinChamfer " + qd(b.K) + ")"
	}
	return "?"
}

func maxBlend(b sdf.VerifBlend) string {
	switch b.Kind {
	case "def":
		return "qMaxDef"
	case "poly":
		return "(qMaxPoly " + qd(b.K) + ")"
	}
	return "?"
}

func box2s(b sdf.Box2) []float64 { return []float64{b.Min.X, b.Min.Y, b.Max.X, b.Max.Y} }
func box3s(b sdf.Box3) []float64 {
	return []float64{b.Min.X, b.Min.Y, b.Min.Z, b.Max.X, b.Max.Y, b.Max.Z}
}

// emit prints the node (children first) as a Coq definition and returns its name.
func (r *reifier) emit(n *sdf.VerifShape) string {
	if name, ok := r.names[n.ID]; ok {
		return name
	}
	name := fmt.Sprintf("%s_n%d", r.prefix, n.ID)
	r.names[n.ID] = name
	r.kinds[n.Kind]++
	if !n.Exact {
		r.inexact++
	}
	var kids []string
	for _, k := range n.Kids {
		kids = append(kids, r.emit(k))
	}
	if !finiteAll(n.F) || !finiteAll([]float64{n.Min.K, n.Max.K}) {
		r.bad = "non-finite parameter in " + n.Kind
	}
	ty := "QS3"
	if n.Dim == 2 {
		ty = "QS2"
	}
	kid := func(i int) string { return kids[i] }
	z := func(i int) string { return CZ(n.N[i]) }
	var body string
	switch n.Kind {
	case "Opaque2":
		if !finiteAll(box2s(n.Box2)) {
			r.bad = "non-finite box of an opaque leaf"
		}
		r.opaques = append(r.opaques, n)
		body = fmt.Sprintf("ROpaque2 %d%%N (qb2 %s)", n.ID, qds(box2s(n.Box2)))
	case "Opaque3":
		if !finiteAll(box3s(n.Box3)) {
			r.bad = "non-finite box of an opaque leaf"
		}
		r.opaques = append(r.opaques, n)
		body = fmt.Sprintf("ROpaque3 %d%%N (qb3 %s)", n.ID, qds(box3s(n.Box3)))
	case "Mesh2":
		var ss []string
		for _, l := range n.Segs {
			c := []float64{l[0].X, l[0].Y, l[1].X, l[1].Y}
			if !finiteAll(c) {
				r.bad = "non-finite mesh vertex"
			}
			ss = append(ss, "qseg "+qds(c))
		}
		if !finiteAll(box2s(n.Box2)) {
			r.bad = "non-finite mesh box"
		}
		body = fmt.Sprintf("RMesh2 [%s] (qb2 %s)", strings.Join(ss, ";\n    "), qds(box2s(n.Box2)))
	case "Cache2":
		body = "RCache2 " + kid(0)
	case "Circle":
		body = "RCircle " + qd(n.F[0])
	case "Box2D":
		body = fmt.Sprintf("RBox2D (qv2 %s) %s", qds(n.F[0:2]), qd(n.F[2]))
	case "Line2D":
		body = "RLine2D " + qds(n.F)
	case "Offset2":
		body = fmt.Sprintf("ROffset2 %s %s", kid(0), qd(n.F[0]))
	case "Intersect2":
		body = fmt.Sprintf("RIntersect2 %s %s %s", maxBlend(n.Max), kid(0), kid(1))
	case "Difference2":
		body = fmt.Sprintf("RDifference2 %s %s %s", maxBlend(n.Max), kid(0), kid(1))
	case "Cut2":
		body = fmt.Sprintf("RCut2 %s (qv2 %s) (qv2 %s)", kid(0), qds(n.F[0:2]), qds(n.F[2:4]))
	case "Transform2":
		body = fmt.Sprintf("RTransform2 %s %s", kid(0), qlist(n.F))
	case "ScaleUniform2":
		body = fmt.Sprintf("RScaleUniform2 %s %s", kid(0), qd(n.F[0]))
	case "Array2":
		body = fmt.Sprintf("RArray2 %s %s %s %s (qv2 %s)", minBlend(n.Min), kid(0), z(0), z(1), qds(n.F))
	case "RotateUnion2":
		body = fmt.Sprintf("RRotateUnion2 %s %s %s %s", minBlend(n.Min), kid(0), z(0), qlist(n.F))
	case "RotateCopy2":
		body = fmt.Sprintf("RRotateCopy2 %s %s", kid(0), z(0))
	case "Elongate2":
		body = fmt.Sprintf("RElongate2 %s (qv2 %s)", kid(0), qds(n.F))
	case "Union2":
		body = fmt.Sprintf("RUnion2 %s [%s]", minBlend(n.Min), strings.Join(kids, "; "))
	case "Sphere":
		body = "RSphere " + qd(n.F[0])
	case "Box3D":
		body = fmt.Sprintf("RBox3D (qv3 %s) %s", qds(n.F[0:3]), qd(n.F[3]))
	case "Cylinder":
		body = "RCylinder " + qds(n.F)
	case "Cone":
		body = "RCone " + qds(n.F)
	case "Revolve":
		body = fmt.Sprintf("RRevolve %s %s", kid(0), qd(n.F[0]))
	case "Extrude":
		body = fmt.Sprintf("RExtrude %s %s", kid(0), qd(n.F[0]))
	case "TwistExtrude":
		body = fmt.Sprintf("RTwistExtrude %s %s", kid(0), qds(n.F))
	case "ScaleExtrude":
		body = fmt.Sprintf("RScaleExtrude %s %s (qv2 %s)", kid(0), qd(n.F[0]), qds(n.F[1:3]))
	case "ScaleTwistExtrude":
		body = fmt.Sprintf("RScaleTwistExtrude %s %s (qv2 %s)", kid(0), qds(n.F[0:2]), qds(n.F[2:4]))
	case "ExtrudeRounded":
		body = fmt.Sprintf("RExtrudeRounded %s %s", kid(0), qds(n.F))
	case "Loft":
		body = fmt.Sprintf("RLoft %s %s %s", kid(0), kid(1), qds(n.F))
	case "Transform3":
		body = fmt.Sprintf("RTransform3 %s %s", kid(0), qlist(n.F))
	case "ScaleUniform3":
		body = fmt.Sprintf("RScaleUniform3 %s %s", kid(0), qd(n.F[0]))
	case "Union3":
		body = fmt.Sprintf("RUnion3 %s [%s]", minBlend(n.Min), strings.Join(kids, "; "))
	case "Difference3":
		body = fmt.Sprintf("RDifference3 %s %s %s", maxBlend(n.Max), kid(0), kid(1))
	case "Intersect3":
		body = fmt.Sprintf("RIntersect3 %s %s %s", maxBlend(n.Max), kid(0), kid(1))
	case "Cut3":
		body = fmt.Sprintf("RCut3 %s (qv3 %s) (qv3 %s)", kid(0), qds(n.F[0:3]), qds(n.F[3:6]))
	case "Elongate3":
		body = fmt.Sprintf("RElongate3 %s (qv3 %s)", kid(0), qds(n.F))
	case "Array3":
		body = fmt.Sprintf("RArray3 %s %s %s %s %s (qv3 %s)", minBlend(n.Min), kid(0), z(0), z(1), z(2), qds(n.F))
	case "RotateUnion3":
		body = fmt.Sprintf("RRotateUnion3 %s %s %s %s", minBlend(n.Min), kid(0), z(0), qlist(n.F))
	case "RotateCopy3":
		body = fmt.Sprintf("RRotateCopy3 %s %s", kid(0), z(0))
	case "Offset3":
		body = fmt.Sprintf("ROffset3 %s %s", kid(0), qd(n.F[0]))
	case "Shell3":
		body = fmt.Sprintf("RShell3 %s %s", kid(0), qd(n.F[0]))
	case "Screw":
		body = fmt.Sprintf("RScrew %s %s %s", kid(0), qds(n.F), z(0))
	case "FlatFlankCam":
		body = "qFlatFlankCam " + qds(n.F)
	case "ThreeArcCam":
		body = "qThreeArcCam " + qds(n.F)
	case "Flange1":
		body = "qFlange1 " + qds(n.F)
	case "ArcSpiral":
		body = "qArcSpiral " + qds(n.F)
	case "Rack2":
		if !finiteAll(box2s(n.Box2)) {
			r.bad = "non-finite rack box"
		}
		body = fmt.Sprintf("RRack2 %s %s (qb2 %s)", kid(0), qds(n.F), qds(box2s(n.Box2)))
	default:
		r.bad = "hook returned an unknown constructor " + n.Kind
		body = "?"
	}
	r.defs = append(r.defs, fmt.Sprintf("Definition %s : %s := %s.", name, ty, body))
	return name
}

// ---------------------------------------------------------------- verdict (mirror of wfb2/wfb3)

func rat(x float64) *big.Rat { return new(big.Rat).SetFloat64(x) }

func detRat(m []float64, n int) *big.Rat {
	// Laplace expansion on the first row, exact
	if n == 1 {
		return rat(m[0])
	}
	d := new(big.Rat)
	for j := 0; j < n; j++ {
		if m[j] == 0 {
			continue
		}
		var sub []float64
		for i := 1; i < n; i++ {
			for k := 0; k < n; k++ {
				if k != j {
					sub = append(sub, m[i*n+k])
				}
			}
		}
		t := new(big.Rat).Mul(rat(m[j]), detRat(sub, n-1))
		if j%2 == 1 {
			t.Neg(t)
		}
		d.Add(d, t)
	}
	return d
}

func affine(m []float64, n int) bool {
	for j := 0; j < n-1; j++ {
		if m[(n-1)*n+j] != 0 {
			return false
		}
	}
	return m[n*n-1] == 1
}

func isTranslate(m []float64, n int) bool {
	for i := 0; i < n; i++ {
		for j := 0; j < n; j++ {
			want := 0.0
			if i == j {
				want = 1
			}
			if j == n-1 && i < n-1 {
				continue
			}
			if m[i*n+j] != want {
				return false
			}
		}
	}
	return true
}

// rigid: affine and the linear part exactly orthonormal (over the rationals)
func rigid(m []float64, n int) bool {
	if !affine(m, n) {
		return false
	}
	k := n - 1
	for a := 0; a < k; a++ {
		for b := a; b < k; b++ {
			s := new(big.Rat)
			for i := 0; i < k; i++ {
				s.Add(s, new(big.Rat).Mul(rat(m[i*n+a]), rat(m[i*n+b])))
			}
			want := big.NewRat(0, 1)
			if a == b {
				want = big.NewRat(1, 1)
			}
			if s.Cmp(want) != 0 {
				return false
			}
		}
	}
	return true
}

func ratLess(a, b *big.Rat) bool { return a.Cmp(b) < 0 }

// camOK mirrors cam_okb (Sdf/ReifyCheck.v), exactly: 0 < d, 0 <= b, 0 <= n, |b - n| < d
func camOK(d, b, n float64) bool {
	if !(d > 0 && b >= 0 && n >= 0) {
		return false
	}
	diff := new(big.Rat).Sub(rat(b), rat(n))
	return ratLess(diff, rat(d)) && ratLess(new(big.Rat).Neg(diff), rat(d))
}

func meshOK(n *sdf.VerifShape) string {
	bb := n.Box2
	if !(bb.Min.X <= bb.Max.X && bb.Min.Y <= bb.Max.Y) {
		return "Mesh2: stored box not ordered"
	}
	in := func(p v2.Vec) bool { return bb.Min.X <= p.X && p.X <= bb.Max.X && bb.Min.Y <= p.Y && p.Y <= bb.Max.Y }
	cnt := map[v2.Vec]int{}
	norm := func(p v2.Vec) v2.Vec { // -0 and +0 are the same rational
		if p.X == 0 {
			p.X = 0
		}
		if p.Y == 0 {
			p.Y = 0
		}
		return p
	}
	for _, l := range n.Segs {
		if !in(l[0]) || !in(l[1]) {
			return fmt.Sprintf("Mesh2: segment end point %v / %v outside the stored box", l[0], l[1])
		}
		cnt[norm(l[0])]++
		cnt[norm(l[1])]--
	}
	for p, c := range cnt {
		if c != 0 {
			return fmt.Sprintf("Mesh2: segments do not form closed chains (start/end imbalance at %v)", p)
		}
	}
	return ""
}

// meshOffset: Offset2D directly over a mesh whose segments are non-degenerate, offset^2 < MaxFloat64
func meshOffset(k *sdf.VerifShape, off float64) bool {
	if k.Kind != "Mesh2" {
		return false
	}
	for _, l := range k.Segs {
		if l[0].X == l[1].X && l[0].Y == l[1].Y {
			return false
		}
	}
	o := rat(off)
	return new(big.Rat).Mul(o, o).Cmp(rat(math.MaxFloat64)) < 0
}

// meshGapProbe: where the leaf pieces of a mesh do not chain up (a vertex snapped onto a quadtree
// split line in one piece and not in its neighbour), every point to the left whose level falls into the
// gap has crossing number 1.  Returns such a point far outside the box with a negative value.
func meshGapProbe(s sdf.SDF2, n *sdf.VerifShape) (v2.Vec, float64, bool) {
	cnt := map[v2.Vec]int{}
	for _, l := range n.Segs {
		cnt[l[0]]++
		cnt[l[1]]--
	}
	var pts []v2.Vec
	for q, c := range cnt {
		if c != 0 {
			pts = append(pts, q)
		}
	}
	sort.Slice(pts, func(i, j int) bool {
		if pts[i].Y != pts[j].Y {
			return pts[i].Y < pts[j].Y
		}
		return pts[i].X < pts[j].X
	})
	bb := s.BoundingBox()
	for _, q := range pts {
		for dy := -3; dy <= 3; dy++ {
			y := q.Y
			for k := 0; k < dy; k++ {
				y = math.Nextafter(y, math.Inf(1))
			}
			for k := 0; k > dy; k-- {
				y = math.Nextafter(y, math.Inf(-1))
			}
			p := v2.Vec{X: bb.Min.X - 10*(bb.Max.X-bb.Min.X+1), Y: y}
			if d := s.Evaluate(p); d < 0 && !bb.Contains(p) {
				return p, d, true
			}
		}
	}
	return v2.Vec{}, 0, false
}

// meshNodes lists the distinct Mesh2 nodes of a tree.
func meshNodes(n *sdf.VerifShape, seen map[int]bool, out []*sdf.VerifShape) []*sdf.VerifShape {
	if n == nil || seen[n.ID] {
		return out
	}
	seen[n.ID] = true
	if n.Kind == "Mesh2" {
		out = append(out, n)
	}
	for _, k := range n.Kids {
		out = meshNodes(k, seen, out)
	}
	return out
}

func (r *reifier) cl2Of(n *sdf.VerifShape) bool {
	if v, ok := r.cl2[n.ID]; ok {
		return v
	}
	v := false
	switch n.Kind {
	case "Circle", "Sphere", "Box3D", "Cylinder":
		v = true
	case "Box2D":
		v = n.F[2] >= 0
	case "Cache2", "Intersect2", "Difference2", "Cut2", "ScaleUniform2", "Elongate2",
		"Intersect3", "Difference3", "Cut3", "ScaleUniform3", "Elongate3":
		v = r.cl2Of(n.Kids[0])
	case "Transform2":
		v = r.cl2Of(n.Kids[0]) && rigid(n.F, 3)
	case "Transform3":
		v = r.cl2Of(n.Kids[0]) && rigid(n.F, 4)
	case "Union2", "Union3":
		v = true
		for _, k := range n.Kids {
			v = v && r.cl2Of(k)
		}
	}
	r.cl2[n.ID] = v
	return v
}

func (r *reifier) cinfOf(n *sdf.VerifShape) bool {
	if v, ok := r.cinf[n.ID]; ok {
		return v
	}
	either := func(k *sdf.VerifShape) bool { return r.cinfOf(k) || r.cl2Of(k) }
	v := false
	switch n.Kind {
	case "Circle", "Box2D", "Line2D", "Sphere", "Box3D", "Cylinder", "Cone":
		v = true
	case "Cache2", "Intersect2", "Difference2", "Cut2", "ScaleUniform2", "Elongate2",
		"Intersect3", "Difference3", "Cut3", "ScaleUniform3", "Elongate3":
		v = r.cinfOf(n.Kids[0])
	case "Offset2", "Offset3":
		v = either(n.Kids[0]) && n.F[0] >= 0
	case "Transform2":
		v = (r.cinfOf(n.Kids[0]) && isTranslate(n.F, 3)) || (r.cl2Of(n.Kids[0]) && rigid(n.F, 3))
	case "Transform3":
		v = (r.cinfOf(n.Kids[0]) && isTranslate(n.F, 4)) || (r.cl2Of(n.Kids[0]) && rigid(n.F, 4))
	case "Union2", "Union3":
		v = true
		for _, k := range n.Kids {
			v = v && r.cinfOf(k)
		}
	case "Revolve":
		v = either(n.Kids[0]) && n.F[0] == 0
	case "Extrude", "ExtrudeRounded", "Shell3":
		v = either(n.Kids[0])
	case "Loft":
		v = either(n.Kids[0]) && either(n.Kids[1])
	}
	r.cinf[n.ID] = v
	return v
}

// wfOf returns "" when the node is well-formed, otherwise the first failing side condition.
func (r *reifier) wfOf(n *sdf.VerifShape) string {
	if v, ok := r.wf[n.ID]; ok {
		return v
	}
	either := func(k *sdf.VerifShape) bool { return r.cinfOf(k) || r.cl2Of(k) }
	first := func(ks ...*sdf.VerifShape) string {
		for _, k := range ks {
			if w := r.wfOf(k); w != "" {
				return w
			}
		}
		return ""
	}
	maxOK := func() string {
		if n.Max.Kind == "def" || (n.Max.Kind == "poly" && n.Max.K > 0) {
			return ""
		}
		return n.Kind + ": max blend " + n.Max.Kind
	}
	minDef := func() string {
		if n.Min.Kind == "def" {
			return ""
		}
		return n.Kind + ": material-adding min blend " + n.Min.Kind + " (known finding: the fillet leaves the operand boxes)"
	}
	mat := func(dim int) string {
		if !affine(n.F, dim) {
			return n.Kind + ": matrix not affine"
		}
		if detRat(n.F, dim).Sign() == 0 {
			return n.Kind + ": singular matrix"
		}
		return ""
	}
	cond := func(ok bool, why string) string {
		if ok {
			return ""
		}
		return n.Kind + ": " + why
	}
	or := func(ws ...string) string {
		for _, w := range ws {
			if w != "" {
				return w
			}
		}
		return ""
	}
	class := "operand outside the classes LbInf/Lb2 (value >= distance to the box outside it)"
	var w string
	switch n.Kind {
	case "Opaque2", "Opaque3", "Circle", "Sphere", "Box3D", "Cylinder":
	case "Mesh2":
		w = meshOK(n)
	case "Box2D":
		w = cond(n.F[0] >= 0 && n.F[1] >= 0, "negative size")
	case "Line2D":
		w = cond(n.F[0] >= 0 && n.F[1] >= 0, "negative length or rounding")
	case "Cone":
		w = cond(n.F[1] >= 0 && n.F[2] >= 0, "negative radius")
	case "Cache2", "Cut2", "Elongate2", "RotateCopy2", "Revolve", "Cut3", "Elongate3", "RotateCopy3":
		w = first(n.Kids[0])
	case "Offset2":
		w = or(first(n.Kids[0]), cond(n.F[0] >= 0, "negative offset"), cond(either(n.Kids[0]) || meshOffset(n.Kids[0], n.F[0]), class))
	case "Offset3":
		w = or(first(n.Kids[0]), cond(n.F[0] >= 0, "negative offset"), cond(either(n.Kids[0]), class))
	case "Shell3":
		w = or(first(n.Kids[0]), cond(either(n.Kids[0]), class))
	case "Screw":
		w = or(first(n.Kids[0]), cond(n.Kids[0].Kind == "Mesh2" && n.Kids[0].Box2.Max.Y >= 0, "thread profile is not a polygon mesh with a non-negative top"))
	case "Intersect2", "Difference2", "Intersect3", "Difference3":
		w = or(maxOK(), first(n.Kids[0]))
	case "Transform2":
		w = or(first(n.Kids[0]), mat(3))
	case "Transform3":
		w = or(first(n.Kids[0]), mat(4))
	case "ScaleUniform2", "ScaleUniform3":
		w = or(first(n.Kids[0]), cond(n.F[0] > 0, "scale factor <= 0"))
	case "Array2", "Array3":
		w = or(minDef(), first(n.Kids[0]))
	case "RotateUnion2":
		w = or(minDef(), first(n.Kids[0]), mat(3))
	case "RotateUnion3":
		w = or(minDef(), first(n.Kids[0]), mat(4))
	case "Union2", "Union3":
		w = or(minDef(), first(n.Kids...))
	case "Extrude", "TwistExtrude":
		w = or(first(n.Kids[0]), cond(n.F[0] >= 0, "negative height"))
	case "ScaleExtrude":
		w = or(first(n.Kids[0]), cond(n.F[0] > 0 && n.F[1] > 0 && n.F[2] > 0, "height or scale <= 0"))
	case "ScaleTwistExtrude":
		w = or(first(n.Kids[0]), cond(n.F[0] > 0 && n.F[2] > 0 && n.F[3] > 0, "height or scale <= 0"))
	case "ExtrudeRounded":
		w = or(first(n.Kids[0]), cond(n.F[0] >= 0, "negative height"), cond(n.F[1] == 0 || either(n.Kids[0]), class))
	case "Loft":
		w = or(first(n.Kids[0]), first(n.Kids[1]), cond(n.F[1] == 0 || (either(n.Kids[0]) && either(n.Kids[1])), class))
	case "FlatFlankCam", "Flange1":
		w = cond(camOK(n.F[0], n.F[1], n.F[2]), "needs 0 < distance, radii >= 0, |radius difference| < distance")
	case "ThreeArcCam":
		w = cond(camOK(n.F[0], n.F[1], n.F[2]), "needs 0 < distance, radii >= 0, |radius difference| < distance")
	case "ArcSpiral":
		w = cond(n.F[4] >= 0, "negative band half-width d")
	case "Rack2":
		k, bb := n.Kids[0], n.Box2
		w = or(first(k), cond(k.Kind == "Mesh2" && bb.Min.X <= bb.Max.X && bb.Min.Y <= bb.Max.Y && bb.Min.X <= -n.F[1] && n.F[1] <= bb.Max.X &&
			bb.Min.Y <= k.Box2.Min.Y && k.Box2.Max.Y <= bb.Max.Y, "tooth is not a polygon mesh whose y range lies in the rack box, or the rack box does not span [-length, length]"))
	default:
		w = "unknown constructor " + n.Kind
	}
	r.wf[n.ID] = w
	return w
}

// ---------------------------------------------------------------- the stratum

type reifiedPart struct {
	Name   string `json:"name"`
	Status string `json:"status"`
	Why    string `json:"why,omitempty"`
	Nodes  int    `json:"nodes"`
}

var statusName = map[int]string{stCertified: "certified", stModulo: "certified-modulo-opaque-leaves", stOutside: "outside-the-class"}

type reifyBaseline struct {
	Parts map[string]string `json:"parts"` // documented-example part name -> status on the unchanged tree
	// recorded failing inputs (known findings / repaired defects): part name, key, point; replayed every run
	Replay []struct {
		Part  string    `json:"part"`
		Key   string    `json:"key"`
		Point []float64 `json:"point"`
	} `json:"replay"`
}

func fl(xs ...float64) string {
	var s []string
	for _, x := range xs {
		s = append(s, CF(x))
	}
	return "[" + strings.Join(s, "; ") + "]"
}

func reifiedStratum(c *Ctx, r *Report, rng *Rng, parts []objparts.Part) error {
	var base reifyBaseline
	if b, err := os.ReadFile(filepath.Join(c.Verif, "corpus", "C01_reified.json")); err == nil {
		_ = json.Unmarshal(b, &base)
	}
	perShard := 25
	var shards [][]string // each: definitions + case terms
	var curDefs, curCases []string
	curBytes := 0
	flush := func() {
		if len(curCases) == 0 {
			return
		}
		var b strings.Builder
		b.WriteString("From Coq Require Import List ZArith NArith QArith Floats.\nImport ListNotations.\n")
		b.WriteString("From Sdfx Require Import Num.Ops Num.QInst Sdf.Reify Sdf.ReifyCheck Sdf.ReifyCorr.\n")
		b.WriteString(strings.Join(curDefs, "\n"))
		b.WriteString("\nDefinition cases : list rcase := [\n" + strings.Join(curCases, ";\n") + "\n].\n")
		b.WriteString("Definition M_reified := Eval vm_compute in (rmismatches cases).\nPrint M_reified.\n")
		b.WriteString("Definition M_reified_verdict := Eval vm_compute in (rstatus_mismatches cases).\nPrint M_reified_verdict.\n")
		b.WriteString("Definition M_reified_builds := Eval vm_compute in (rbuild_mismatches cases).\nPrint M_reified_builds.\n")
		b.WriteString("Definition I_reified := Eval vm_compute in (rinexact cases).\nPrint I_reified.\n")
		shards = append(shards, []string{b.String()})
		curDefs, curCases = nil, nil
	}
	counts := map[string]int{}
	reasons := map[string]int{}
	kinds := map[string]int{}
	var docParts []reifiedPart
	var regress, improved, missing []string
	seenBase := map[string]bool{}
	npts := 10
	leafBudget := TierN(c.Tier, 1500, 10000, 6000)
	sampledLeaf := map[string]bool{}
	id := 0
	for _, pt := range parts {
		if pt.Unbounded {
			continue
		}
		var root *sdf.VerifShape
		if pt.Dim == 3 {
			root = sdf.VerifDumpTree3(pt.S3)
		} else {
			root = sdf.VerifDumpTree2(pt.S2)
		}
		if root == nil {
			continue
		}
		key := "reified:" + pt.Name + "|" + pt.Params
		if root.Kind == "Opaque2" || root.Kind == "Opaque3" {
			counts["opaque-root (no model: sampled only)"]++
			reasons[root.Why]++
			r.Case("reified/opaque-root", key, false)
			if pt.Doc {
				docParts = append(docParts, reifiedPart{Name: pt.Name, Status: "opaque-root", Why: root.Why, Nodes: 1})
			}
			continue
		}
		id++
		rf := newReifier(fmt.Sprintf("p%d", id))
		rootName := rf.emit(root)
		if rf.bad != "" {
			counts["not printable"]++
			reasons[rf.bad]++
			r.Case("reified/not-printable", key, false)
			continue
		}
		why := rf.wfOf(root)
		st := stCertified
		switch {
		case why != "":
			st = stOutside
		case len(rf.opaques) > 0:
			st = stModulo
		}
		expect := st
		if pt.Doc {
			if b, ok := base.Parts[pt.Name]; ok {
				seenBase[pt.Name] = true
				if b != statusName[st] {
					worse := (b == statusName[stCertified]) || (b == statusName[stModulo] && st == stOutside)
					if worse {
						// the certificate this part had on the unchanged tree is gone: coqc is asked to confirm
						// the old verdict, cannot, and the check reports the part as no longer certified
						regress = append(regress, fmt.Sprintf("%s: %s -> %s (%s)", pt.Name, b, statusName[st], why))
						for k, v := range statusName {
							if v == b {
								expect = k
							}
						}
					} else {
						improved = append(improved, fmt.Sprintf("%s: %s -> %s", pt.Name, b, statusName[st]))
					}
				}
			}
			docParts = append(docParts, reifiedPart{Name: pt.Name, Status: statusName[st], Why: why, Nodes: len(rf.names)})
		}
		counts[statusName[st]]++
		if why != "" {
			reasons[why[:min(len(why), 90)]]++
		}
		for k, v := range rf.kinds {
			kinds[k] += v
		}
		r.Case("reified/"+statusName[st], key, len(rf.names) >= 2)

		// the Go observables: box and values at sample points
		var gb []float64
		var pts []string
		scale := 1.0
		if pt.Dim == 3 {
			bb := pt.S3.BoundingBox()
			gb = box3s(bb)
			sz, cen := bb.Size(), bb.Center()
			for i := 0; i < npts; i++ {
				k := 0.75
				if i%3 == 2 {
					k = 0.5
				}
				p := v3.Vec{X: cen.X + rng.Uniform(-1, 1)*sz.X*k, Y: cen.Y + rng.Uniform(-1, 1)*sz.Y*k, Z: cen.Z + rng.Uniform(-1, 1)*sz.Z*k}
				pts = append(pts, fl(p.X, p.Y, p.Z, pt.S3.Evaluate(p)))
			}
		} else {
			bb := pt.S2.BoundingBox()
			gb = box2s(bb)
			sz, cen := bb.Size(), bb.Center()
			for i := 0; i < npts; i++ {
				k := 0.75
				if i%3 == 2 {
					k = 0.5
				}
				p := v2.Vec{X: cen.X + rng.Uniform(-1, 1)*sz.X*k, Y: cen.Y + rng.Uniform(-1, 1)*sz.Y*k}
				pts = append(pts, fl(p.X, p.Y, pt.S2.Evaluate(p)))
			}
		}
		for _, x := range gb {
			scale = math.Max(scale, math.Abs(x))
		}
		tcon := "T3"
		if pt.Dim == 2 {
			tcon = "T2"
		}
		curDefs = append(curDefs, fmt.Sprintf("(* %d: %s *)", id, strings.ReplaceAll(pt.Name, "*", "x")))
		curDefs = append(curDefs, rf.defs...)
		curCases = append(curCases, fmt.Sprintf("(%d%%N, %s %s, %s, %s, %s, %d%%N)", id, tcon, rootName, fl(gb...), CF(1e-9*scale), CList(pts), expect))
		curBytes += len(curCases[len(curCases)-1])
		for _, d := range rf.defs {
			curBytes += len(d)
		}
		if len(curCases) >= perShard || curBytes > 120000 {
			flush()
			curBytes = 0
		}

		// recorded failing inputs of this part
		violated := map[string]bool{}
		for _, rp := range base.Replay {
			if rp.Part != pt.Name || !pt.Doc {
				continue
			}
			r.Case("reified/corpus-point", rp.Key, true)
			if pt.Dim == 2 && len(rp.Point) == 2 {
				p := v2.Vec{X: rp.Point[0], Y: rp.Point[1]}
				if d, bb := pt.S2.Evaluate(p), pt.S2.BoundingBox(); d < 0 && !bb.Contains(p) {
					violated[rp.Key] = true
					r.Violate(rp.Key, fmt.Sprintf("%s: Evaluate(%v) = %g < 0 outside BoundingBox() %v", pt.Name, p, d, bb),
						map[string]interface{}{"part": pt.Name, "params": pt.Params, "point": p, "value": d, "box": bb})
				}
			} else if pt.Dim == 3 && len(rp.Point) == 3 {
				p := v3.Vec{X: rp.Point[0], Y: rp.Point[1], Z: rp.Point[2]}
				if d, bb := pt.S3.Evaluate(p), pt.S3.BoundingBox(); d < 0 && !bb.Contains(p) {
					violated[rp.Key] = true
					r.Violate(rp.Key, fmt.Sprintf("%s: Evaluate(%v) = %g < 0 outside BoundingBox() %v", pt.Name, p, d, bb),
						map[string]interface{}{"part": pt.Name, "params": pt.Params, "point": p, "value": d, "box": bb})
				}
			}
		}

		// a mesh whose pieces do not chain up: look for the material that leaks through the gap (documented
		// examples only: the keys of known findings must not depend on the seed)
		if pt.Doc && strings.HasPrefix(why, "Mesh2: segments do not form closed chains") && !violated["reified-mesh-gap:"+pt.Name] {
			for _, mn := range meshNodes(root, map[int]bool{}, nil) {
				if mn.S2 == nil {
					continue
				}
				if p, d, found := meshGapProbe(mn.S2, mn); found {
					r.Violate("reified-mesh-gap:"+pt.Name, fmt.Sprintf("polygon mesh of %s: Evaluate(%v) = %g < 0 far outside its BoundingBox() %v: the quadtree pieces do not form closed chains (a vertex snapped onto a split line in one piece only)", pt.Name, p, d, mn.S2.BoundingBox()),
						map[string]interface{}{"part": pt.Name, "params": pt.Params, "point": p, "value": d, "box": mn.S2.BoundingBox()})
					break
				}
			}
		}

		// the leaf hypothesis of a relative certificate: each opaque leaf negative only inside its own box
		if st == stModulo {
			for _, lf := range rf.opaques {
				lk := fmt.Sprintf("%s|%v%v", lf.GoType, lf.Box2, lf.Box3)
				if sampledLeaf[lk] {
					continue
				}
				sampledLeaf[lk] = true
				lkey := "reified-leaf:" + pt.Name + ":" + lf.GoType
				r.Case("reified/opaque-leaf-sampled", lkey, false)
				if lf.Dim == 3 && lf.S3 != nil {
					bb := lf.S3.BoundingBox()
					n := costScaled(leafBudget, func() { lf.S3.Evaluate(bb.Center()) })
					if p, d, found := search3(rng, lf.S3, n); found && d < -1e-9*math.Max(1, bb.Size().MaxComponent()) {
						r.Violate(lkey, fmt.Sprintf("opaque leaf %s of %s: Evaluate(%v) = %g < 0 outside its BoundingBox() %v", lf.GoType, pt.Name, p, d, bb),
							map[string]interface{}{"part": pt.Name, "params": pt.Params, "leaf": lf.GoType, "point": p, "value": d, "box": bb})
					}
				} else if lf.Dim == 2 && lf.S2 != nil {
					bb := lf.S2.BoundingBox()
					n := costScaled(leafBudget, func() { lf.S2.Evaluate(bb.Center()) })
					if p, d, found := search2(rng, lf.S2, n); found && d < -1e-9*math.Max(1, bb.Size().MaxComponent()) {
						r.Violate(lkey, fmt.Sprintf("opaque leaf %s of %s: Evaluate(%v) = %g < 0 outside its BoundingBox() %v", lf.GoType, pt.Name, p, d, bb),
							map[string]interface{}{"part": pt.Name, "params": pt.Params, "leaf": lf.GoType, "point": p, "value": d, "box": bb})
					}
				}
			}
		}
	}
	flush()
	for k, s := range shards {
		if err := os.WriteFile(filepath.Join(c.Out, fmt.Sprintf("cases_reified_%d.v", k)), []byte(s[0]), 0o644); err != nil {
			return err
		}
	}
	for name := range base.Parts {
		if !seenBase[name] {
			missing = append(missing, name)
		}
	}
	sort.Strings(missing)
	sort.Slice(docParts, func(i, j int) bool { return docParts[i].Name < docParts[j].Name })
	r.Coverage["reified"] = map[string]interface{}{
		"parts_by_status":           counts,
		"reasons":                   reasons,
		"constructor_histogram":     kinds,
		"documented_parts":          docParts,
		"no_longer_certified":       regress,
		"newly_certified":           improved,
		"baseline_parts_not_seen":   missing,
		"opaque_leaf_kinds_sampled": len(sampledLeaf),
		"rule":                      "every library part is read back by sdf.VerifDumpTree2/3 and printed over exact rationals; coqc replays the term at primitive floats against BoundingBox()/Evaluate() (10 points, absolute tolerance 1e-9 x box scale) and evaluates the checker wfb; status certified = wfb true and no opaque leaf (Coq theorem C01_reified_certificate3_closed applies: all points of space), certified-modulo-opaque-leaves = wfb true relative to the sampled leaf hypothesis, outside-the-class = a side condition of the theorem fails (reason listed), opaque-root = a Go type without a model (sampled only)",
	}
	if bp := os.Getenv("VERIF_REIFY_BASELINE"); bp != "" {
		if err := writeReifyBaseline(bp, docParts); err != nil {
			return err
		}
	}
	r.Trusted = append(r.Trusted, "reification hook sdf.VerifDumpTree2/3 (/repo/sdf/verif_hooks_c01.go): a wrong dump is caught by the replay of the dumped term against the object's own BoundingBox()/Evaluate(); the certificate is about the real-number object denoted by the dumped term")
	return nil
}

// writeReifyBaseline is used once to record the verdicts of the unchanged tree (VERIF_REIFY_BASELINE=path).
func writeReifyBaseline(path string, docParts []reifiedPart) error {
	b := reifyBaseline{Parts: map[string]string{}}
	if old, err := os.ReadFile(path); err == nil {
		var o reifyBaseline
		if json.Unmarshal(old, &o) == nil {
			b.Replay = o.Replay
		}
	}
	for _, p := range docParts {
		if p.Status != "opaque-root" {
			b.Parts[p.Name] = p.Status
		}
	}
	out, err := json.MarshalIndent(b, "", " ")
	if err != nil {
		return err
	}
	return os.WriteFile(path, out, 0o644)
}
