package main

// Enclosure oracles that do NOT take the region to look in from the box under test.
//
// search2/search3 (main.go) sample a neighbourhood of BoundingBox(): when the box is much too small
// (a constructor that takes the radius of the wrong end of a spiral, drops a term, forgets an
// operand) the material far outside it is never visited.  The oracles here look where the
// PARAMETERS say the shape can be (hint region, witness points on the outline) and trace the
// outline with Evaluate itself: rays from interior points scanned from the outside in, the sign
// change bisected, the support point of each axis direction refined, geometric far probes.

import (
	"math"

	"github.com/deadsy/sdfx/sdf"
	v2 "github.com/deadsy/sdfx/vec/v2"
	v3 "github.com/deadsy/sdfx/vec/v3"
	. "verifharness/kit"
)

// found2 is the most negative value seen outside the box.
type found2 struct {
	s     sdf.SDF2
	bb    sdf.Box2
	best  float64
	p     v2.Vec
	ok    bool
	evals int
}

func (f *found2) at(p v2.Vec) float64 {
	d := f.s.Evaluate(p)
	f.evals++
	if d < f.best && !f.bb.Contains(p) { // NaN compares false
		f.best, f.p, f.ok = d, p, true
	}
	return d
}

// outer2 returns the outermost t in [0,T] on the ray c + t u at which the shape is solid: scan of n steps
// from the outside in, then bisection of the sign change.  Points just inside the crossing are offered to f.
func (f *found2) outer2(c, u v2.Vec, T float64, n int) (float64, bool) {
	at := func(t float64) float64 { return f.at(c.Add(u.MulScalar(t))) }
	for j := n; j >= 0; j-- {
		t := T * float64(j) / float64(n)
		if at(t) < 0 {
			lo, hi := t, T*float64(j+1)/float64(n)
			if j == n {
				return t, true
			}
			for k := 0; k < 40; k++ {
				m := 0.5 * (lo + hi)
				if at(m) < 0 {
					lo = m
				} else {
					hi = m
				}
			}
			// nudged inwards: the value there is macroscopically negative when the surface is regular
			at(lo - 1e-7*T)
			at(lo - 1e-5*T)
			return lo, true
		}
	}
	return 0, false
}

// probe2: witnesses, hint grid, outline trace + support refinement from every centre, far probes, then
// the box-relative search.  hint and wit come from the constructor's PARAMETERS.
func probe2(rng *Rng, s sdf.SDF2, hint sdf.Box2, wit, centres []v2.Vec, far float64, nbox int) (v2.Vec, float64, bool, int) {
	f := &found2{s: s, bb: s.BoundingBox()}
	for _, p := range wit {
		f.at(p)
	}
	hc := hint.Center()
	hs := hint.Size()
	if !(hs.X > 0) {
		hs.X = 1e-9
	}
	if !(hs.Y > 0) {
		hs.Y = 1e-9
	}
	// grid over the hint region and 1.3 x the hint region (both include the hint's own faces)
	const ng = 56
	for _, k := range []float64{1, 1.3} {
		for i := 0; i <= ng; i++ {
			for j := 0; j <= ng; j++ {
				f.at(v2.Vec{X: hc.X + k*hs.X*(float64(i)/ng-0.5), Y: hc.Y + k*hs.Y*(float64(j)/ng-0.5)})
			}
		}
	}
	// outline trace
	cs := append([]v2.Vec{hc, {}}, centres...)
	const nd = 96
	for ci, c := range cs {
		if ci == 1 && (c == hc || c.Sub(hc).Length() > 4*hs.Length()) {
			continue
		}
		T := hs.Length() + c.Sub(hc).Length()
		var pts [nd]v2.Vec
		var has [nd]bool
		any := false
		for i := 0; i < nd; i++ {
			a := 2 * math.Pi * float64(i) / nd
			u := v2.Vec{X: math.Cos(a), Y: math.Sin(a)}
			switch i { // exact axis directions
			case 0:
				u = v2.Vec{X: 1}
			case nd / 4:
				u = v2.Vec{Y: 1}
			case nd / 2:
				u = v2.Vec{X: -1}
			case 3 * nd / 4:
				u = v2.Vec{Y: -1}
			}
			if t, ok := f.outer2(c, u, T, 128); ok {
				pts[i], has[i], any = c.Add(u.MulScalar(t)), true, true
			}
		}
		if !any {
			continue
		}
		// support point of +-x, +-y: golden-section refinement of the direction around the best ray
		for side := 0; side < 4; side++ {
			coord := func(p v2.Vec) float64 {
				switch side {
				case 0:
					return p.X
				case 1:
					return -p.X
				case 2:
					return p.Y
				}
				return -p.Y
			}
			bi, bv := -1, math.Inf(-1)
			for i := 0; i < nd; i++ {
				if has[i] && coord(pts[i]) > bv {
					bi, bv = i, coord(pts[i])
				}
			}
			if bi < 0 {
				continue
			}
			val := func(a float64) float64 {
				u := v2.Vec{X: math.Cos(a), Y: math.Sin(a)}
				if t, ok := f.outer2(c, u, T, 64); ok {
					return coord(c.Add(u.MulScalar(t)))
				}
				return math.Inf(-1)
			}
			step := 2 * math.Pi / nd
			lo, hi := float64(bi)*step-step, float64(bi)*step+step
			const g = 0.6180339887498949
			x1, x2 := hi-g*(hi-lo), lo+g*(hi-lo)
			f1, f2 := val(x1), val(x2)
			for k := 0; k < 18; k++ {
				if f1 < f2 {
					lo, x1, f1 = x1, x2, f2
					x2 = lo + g*(hi-lo)
					f2 = val(x2)
				} else {
					hi, x2, f2 = x2, x1, f1
					x1 = hi - g*(hi-lo)
					f1 = val(x1)
				}
			}
		}
	}
	// far probes: geometric radii up to far (default 1e4) x the hint, 16 directions
	T := hs.Length()
	if !(far > 1) {
		far = 1e4
	}
	lf := math.Log10(far)
	for i := 0; i < 16; i++ {
		a := 2 * math.Pi * float64(i) / 16
		u := v2.Vec{X: math.Cos(a), Y: math.Sin(a)}
		for k := 0; k <= 24; k++ {
			f.at(hc.Add(u.MulScalar(T * math.Pow(10, lf*float64(k)/24))))
		}
	}
	if f.ok {
		return f.p, f.best, true, f.evals
	}
	p, d, ok := search2(rng, s, nbox)
	return p, d, ok, f.evals + nbox
}

// ---------------------------------------------------------------- 3D

type found3 struct {
	s     sdf.SDF3
	bb    sdf.Box3
	best  float64
	p     v3.Vec
	ok    bool
	evals int
}

func (f *found3) at(p v3.Vec) float64 {
	d := f.s.Evaluate(p)
	f.evals++
	if d < f.best && !f.bb.Contains(p) {
		f.best, f.p, f.ok = d, p, true
	}
	return d
}

func (f *found3) outer3(c, u v3.Vec, T float64, n int) (float64, bool) {
	at := func(t float64) float64 { return f.at(c.Add(u.MulScalar(t))) }
	for j := n; j >= 0; j-- {
		t := T * float64(j) / float64(n)
		if at(t) < 0 {
			lo, hi := t, T*float64(j+1)/float64(n)
			if j == n {
				return t, true
			}
			for k := 0; k < 32; k++ {
				m := 0.5 * (lo + hi)
				if at(m) < 0 {
					lo = m
				} else {
					hi = m
				}
			}
			at(lo - 1e-7*T)
			at(lo - 1e-5*T)
			return lo, true
		}
	}
	return 0, false
}

// dirs3: the 6 axis directions, 12 edge and 8 corner diagonals, then a Fibonacci sphere.
func dirs3(n int) []v3.Vec {
	var ds []v3.Vec
	for x := -1; x <= 1; x++ {
		for y := -1; y <= 1; y++ {
			for z := -1; z <= 1; z++ {
				if x != 0 || y != 0 || z != 0 {
					ds = append(ds, v3.Vec{X: float64(x), Y: float64(y), Z: float64(z)}.Normalize())
				}
			}
		}
	}
	for i := 0; i < n; i++ {
		z := 1 - 2*(float64(i)+0.5)/float64(n)
		r := math.Sqrt(1 - z*z)
		a := float64(i) * 2.399963229728653
		ds = append(ds, v3.Vec{X: r * math.Cos(a), Y: r * math.Sin(a), Z: z})
	}
	return ds
}

func probe3(rng *Rng, s sdf.SDF3, hint sdf.Box3, wit, centres []v3.Vec, ndir, nbox int) (v3.Vec, float64, bool, int) {
	f := &found3{s: s, bb: s.BoundingBox()}
	for _, p := range wit {
		f.at(p)
	}
	hc := hint.Center()
	hs := hint.Size()
	for _, c := range []*float64{&hs.X, &hs.Y, &hs.Z} {
		if !(*c > 0) {
			*c = 1e-9
		}
	}
	const ng = 12
	for _, k := range []float64{1, 1.3} {
		for i := 0; i <= ng; i++ {
			for j := 0; j <= ng; j++ {
				for l := 0; l <= ng; l++ {
					f.at(v3.Vec{X: hc.X + k*hs.X*(float64(i)/ng-0.5), Y: hc.Y + k*hs.Y*(float64(j)/ng-0.5), Z: hc.Z + k*hs.Z*(float64(l)/ng-0.5)})
				}
			}
		}
	}
	ds := dirs3(ndir)
	for _, c := range append([]v3.Vec{hc}, centres...) {
		T := hs.Length() + c.Sub(hc).Length()
		for _, u := range ds {
			f.outer3(c, u, T, 64)
		}
	}
	T := hs.Length()
	for _, u := range ds[:26] {
		for k := 0; k <= 16; k++ {
			f.at(hc.Add(u.MulScalar(T * math.Pow(10, 4*float64(k)/16))))
		}
	}
	if f.ok {
		return f.p, f.best, true, f.evals
	}
	p, d, ok := search3(rng, s, nbox)
	return p, d, ok, f.evals + nbox
}
