package main

// Two strata added after mutation testing (generators: harness/shapes/flat.go, look.go).
//
//  look  Transform2D/3D and RotateUnion2D/3D with LOOK-ALIKE matrices: determinant exactly / nearly +-1 without
//        being orthogonal (dyadic axis scalings with product 1, shears, unimodular integer matrices, orthogonal
//        columns of different length, rotation plus a tiny shear, nearly identity / diagonal, symmetric ...), plain
//        non-uniform scalings, each composed with quarter turns / rotations / translations; over primitives and
//        random subtrees, alone and under further box-building combinators (union, array, elongate, rotate-copy,
//        rotate-union, rigid placement).  The random trees of main.go only ever use rotations, mirrors and
//        translations under Transform and RotateZ under RotateUnion3D: a shortcut in M44/M33.Inverse (or MulBox)
//        guarded by "determinant == 1", "orthogonal columns", "nearly diagonal" ... is exact on all of them.
//  flat  operands with a FLAT or POINT bounding box (Line2D(l,0), Box2D with a zero side, Circle2D(0),
//        Cylinder3D(0,r,0), Extrude3D(s,0), extrusions of flat profiles) as children of every combinator that
//        builds its box from its children's boxes, alone and nested (1..3 levels), usually topped by
//        Offset2D/3D, Shell3D or ExtrudeRounded3D so that the zero-measure operand gets an interior.
//
// Oracles: the tree goes through one2/one3 (box and 12 values against the Coq model at primitive floats, box
// finite and ordered, the box-relative search for Evaluate < 0 outside the box) and additionally through the
// PARAMETER-DERIVED probe: the extreme points of the leaves mapped forward through the combinators by the
// generator's own arithmetic (no BoundingBox(), no library Inverse) are points of the closed solid; wherever
// Evaluate is negative at such a point the box must contain it.  (The box-relative search cannot see material
// that a too small box leaves far outside its 2x / 4x / 12x neighbourhood, e.g. a dropped thin operand.)

import (
	"fmt"
	"math"
	"time"

	"github.com/deadsy/sdfx/sdf"
	v2 "github.com/deadsy/sdfx/vec/v2"
	v3 "github.com/deadsy/sdfx/vec/v3"
	. "verifharness/kit"
	"verifharness/shapes"
)

// distance by which p lies outside the box (max-norm; 0 inside)
func outside2(bb sdf.Box2, p v2.Vec) float64 {
	return math.Max(math.Max(bb.Min.X-p.X, p.X-bb.Max.X), math.Max(math.Max(bb.Min.Y-p.Y, p.Y-bb.Max.Y), 0))
}
func outside3(bb sdf.Box3, p v3.Vec) float64 {
	return math.Max(outside2(sdf.Box2{Min: v2.Vec{X: bb.Min.X, Y: bb.Min.Y}, Max: v2.Vec{X: bb.Max.X, Y: bb.Max.Y}}, v2.Vec{X: p.X, Y: p.Y}),
		math.Max(math.Max(bb.Min.Z-p.Z, p.Z-bb.Max.Z), 0))
}

type probeStats struct{ trees, points, negative, withNegative int }

// witProbe2 / witProbe3: the parameter-derived enclosure oracle.  Tolerance: the probe point comes from this harness's
// float arithmetic, the box from the library's, so a point ON the box may be a few ulps outside: 1e-9 relative
// to the size of the configuration, as in the box-relative search.
func witProbe2(r *Report, st *probeStats, t *shapes.P2) {
	bb := t.Go.BoundingBox()
	if !finite(bb.Min.X, bb.Min.Y, bb.Max.X, bb.Max.Y) {
		return // reported by one2
	}
	st.trees++
	neg := false
	for _, w := range t.Wit {
		if !finite(w.X, w.Y) {
			continue
		}
		st.points++
		d := t.Go.Evaluate(w)
		tol := 1e-9 * math.Max(1, math.Max(bb.Size().MaxComponent(), w.Length()))
		if d < -tol {
			neg = true
			st.negative++
			if o := outside2(bb, w); o > tol {
				r.Violate("tree2:"+t.Desc, fmt.Sprintf("Evaluate(%v) = %g < 0 at a point of the solid derived from the parameters, %g outside BoundingBox() %v", w, d, o, bb),
					map[string]interface{}{"tree": t.Desc, "coq": t.Coq, "point": w, "value": d, "box": bb})
				return
			}
		}
	}
	if neg {
		st.withNegative++
	}
}
func witProbe3(r *Report, st *probeStats, t *shapes.P3) {
	bb := t.Go.BoundingBox()
	if !finite(bb.Min.X, bb.Min.Y, bb.Min.Z, bb.Max.X, bb.Max.Y, bb.Max.Z) {
		return
	}
	st.trees++
	neg := false
	for _, w := range t.Wit {
		if !finite(w.X, w.Y, w.Z) {
			continue
		}
		st.points++
		d := t.Go.Evaluate(w)
		tol := 1e-9 * math.Max(1, math.Max(bb.Size().MaxComponent(), w.Length()))
		if d < -tol {
			neg = true
			st.negative++
			if o := outside3(bb, w); o > tol {
				r.Violate("tree3:"+t.Desc, fmt.Sprintf("Evaluate(%v) = %g < 0 at a point of the solid derived from the parameters, %g outside BoundingBox() %v", w, d, o, bb),
					map[string]interface{}{"tree": t.Desc, "coq": t.Coq, "point": w, "value": d, "box": bb})
				return
			}
		}
	}
	if neg {
		st.withNegative++
	}
}

var flatLeaf2Names = []string{"Line2D(l,0)", "Box2D(w,0)", "Box2D(0,h)", "Line2D(0,0)", "Box2D(0,0)", "Circle2D(0)"}
var flatLeaf3Names = []string{"Cylinder3D(0,r,0)", "Extrude3D(s,0)", "Extrude3D(flat,h)", "Extrude3D(flat-tree,0|h)"}
var levelNames = []string{"union", "array", "elongate", "rotate-union", "rotate-copy", "transform", "offset"}

func flatLookStratum(c *Ctx, r *Report, rng *Rng, one3 func(*shapes.N3, string), one2 func(*shapes.N2, string)) {
	started := time.Now()
	g := &shapes.Gen{R: rng, OffsetOnlyLb: true, NoBlend: true}
	var flat, look probeStats
	fams := map[string]int{}

	// ---- the plainest members first (readable failing inputs)
	box3 := shapes.PBox3(v3.Vec{X: 2, Y: 2, Z: 2})
	for _, m := range []struct {
		m sdf.M44
		s string
	}{
		{sdf.Scale3d(v3.Vec{X: 2, Y: 0.5, Z: 1}), "Scale3d(2,0.5,1) "},
		{sdf.Translate3d(v3.Vec{X: 3, Y: -1, Z: 2}).Mul(sdf.Scale3d(v3.Vec{X: 0.25, Y: 2, Z: 2})), "Translate3d(3,-1,2)*Scale3d(0.25,2,2) "},
		{sdf.M44{1, 2, 0, 0, 0, 1, 0, 0, 0, 0, 1, 0, 0, 0, 0, 1}, "shear x+=2y "},
		{sdf.Scale3d(v3.Vec{X: -2, Y: 0.5, Z: 1}), "Scale3d(-2,0.5,1) "},
	} {
		t := shapes.PTransform3(box3, m.m, false, m.s)
		one3(t.N3, "look3/plain/transform")
		witProbe3(r, &look, t)
		if u := shapes.PRotateUnion3(box3, 3, m.m, false, m.s); u != nil {
			one3(u.N3, "look3/plain/rotate-union")
			witProbe3(r, &look, u)
		}
	}
	box2 := shapes.PBox2(v2.Vec{X: 2, Y: 2}, 0)
	for _, m := range []struct {
		m sdf.M33
		s string
	}{
		{sdf.Scale2d(v2.Vec{X: 2, Y: 0.5}), "Scale2d(2,0.5) "},
		{sdf.M33{1, 2, 0, 0, 1, 0, 0, 0, 1}, "shear x+=2y "},
		{sdf.M33{2, 1, 0, 1, 1, 0, 0, 0, 1}, "unimodular [[2,1],[1,1]] "},
		{sdf.Translate2d(v2.Vec{X: 1, Y: -2}).Mul(sdf.Scale2d(v2.Vec{X: -4, Y: 0.25})), "Translate2d(1,-2)*Scale2d(-4,0.25) "},
	} {
		t := shapes.PTransform2(box2, m.m, false, m.s)
		one2(t.N2, "look2/plain/transform")
		witProbe2(r, &look, t)
		if u := shapes.PRotateUnion2(box2, 3, m.m, false, m.s); u != nil {
			one2(u.N2, "look2/plain/rotate-union")
			witProbe2(r, &look, u)
		}
	}
	circ := shapes.PCircle(0.5)
	line := shapes.PLine2(10, 0)
	for _, t := range []*shapes.P2{
		shapes.POffset2(shapes.PUnion2(shapes.PTransform2(circ, sdf.Translate2d(v2.Vec{X: -4}), false, "translate "), line), 0.25),
		shapes.POffset2(shapes.PUnion2(line, shapes.PTransform2(circ, sdf.Translate2d(v2.Vec{X: 4, Y: 3}), false, "translate ")), 0.25),
		shapes.POffset2(shapes.PElongate2(shapes.PLine2(4, 0), v2.Vec{X: 0, Y: 6}), 0.25),
		shapes.POffset2(shapes.PArray2(shapes.PLine2(1, 0), 3, 1, v2.Vec{X: 2, Y: 0}), 0.25),
		shapes.POffset2(shapes.PArray2(shapes.PBox2(v2.Vec{}, 0), 2, 2, v2.Vec{X: 2, Y: 1}), 0.25),
		shapes.POffset2(shapes.PLine2(4, 0), 0.5),
		shapes.POffset2(shapes.PBox2(v2.Vec{}, 0), 0.5),
	} {
		one2(t.N2, "flat2/plain")
		witProbe2(r, &flat, t)
	}
	disc := shapes.PCylinder(0, 1, 0)
	sph := shapes.PSphere(0.5)
	for _, t := range []*shapes.P3{
		shapes.POffset3(shapes.PUnion3(shapes.PTransform3(sph, sdf.Translate3d(v3.Vec{X: -4}), false, "translate "), disc), 0.25),
		shapes.POffset3(shapes.PUnion3(shapes.PExtrude(box2, 0), shapes.PTransform3(sph, sdf.Translate3d(v3.Vec{X: 4, Y: 3, Z: 1}), false, "translate ")), 0.25),
		shapes.POffset3(shapes.PElongate3(disc, v3.Vec{Z: 4}), 0.25),
		shapes.POffset3(shapes.PArray3(shapes.PExtrude(line, 0), 1, 2, 2, v3.Vec{Y: 2, Z: 1}), 0.25),
		shapes.PExtrudeRounded(shapes.PUnion2(shapes.PTransform2(circ, sdf.Translate2d(v2.Vec{X: -4}), false, "translate "), line), 2, 0.5),
	} {
		if t == nil {
			continue
		}
		one3(t.N3, "flat3/plain")
		witProbe3(r, &flat, t)
	}

	// ---- flat / point boxes: every leaf kind under every box-building combinator, alone and nested
	rep := TierN(c.Tier, 1, 12, 4)
	for it := 0; it < rep; it++ {
		for leaf := range flatLeaf2Names {
			for first := range levelNames {
				for _, lv := range []int{1, g.R.Range(2, 3)} {
					t := g.Flat2(lv, leaf, first, g.R.Intn(8) != 0)
					one2(t.N2, "flat2/"+flatLeaf2Names[leaf]+"/"+levelNames[first])
					witProbe2(r, &flat, t)
				}
			}
		}
		for leaf := range flatLeaf3Names {
			for first := range levelNames {
				for _, lv := range []int{1, g.R.Range(2, 3)} {
					t := g.Flat3(lv, leaf, first, g.R.Intn(8) != 0)
					one3(t.N3, "flat3/"+flatLeaf3Names[leaf]+"/"+levelNames[first])
					witProbe3(r, &flat, t)
				}
			}
		}
	}

	// ---- look-alike matrices: every family under Transform and RotateUnion, alone and nested
	for it := 0; it < rep; it++ {
		for fam := 0; fam < shapes.LookFamilies; fam++ {
			for _, ru := range []bool{false, true} {
				op := map[bool]string{false: "transform", true: "rotate-union"}[ru]
				for _, lv := range []int{0, g.R.Range(1, 2)} {
					t3, f3 := g.Look3(fam, g.R.Range(0, 2), lv, ru)
					one3(t3.N3, "look3/"+f3+"/"+op)
					witProbe3(r, &look, t3)
					fams[f3]++
					t2, f2 := g.Look2(fam, g.R.Range(0, 2), lv, ru)
					one2(t2.N2, "look2/"+f2+"/"+op)
					witProbe2(r, &look, t2)
					fams[f2]++
				}
			}
		}
	}
	r.Coverage["flat_look"] = map[string]interface{}{
		"flat_trees": flat.trees, "flat_probe_points": flat.points, "flat_probe_points_with_negative_value": flat.negative, "flat_trees_with_a_negative_probe": flat.withNegative,
		"harness_seconds": math.Round(time.Since(started).Seconds()*100) / 100,
		"look_trees":      look.trees, "look_probe_points": look.points, "look_probe_points_with_negative_value": look.negative, "look_families": fams,
	}
	r.Coverage["flat_look_rule"] = "look: Transform2D/3D and RotateUnion2D/3D (1..3 copies) with a look-alike matrix of each of " + fmt.Sprint(shapes.LookFamilies) + " families (harness/shapes/look.go: determinant exactly / nearly +-1 without being orthogonal - dyadic axis scalings with product +-1, shears, unimodular integer matrices, dense det-1 matrices; orthogonal columns of different length; rotation plus tiny shear; nearly identity / diagonal; symmetric; plain non-uniform scalings), composed with quarter turns / rotations on either side and translations, over primitives and random subtrees (depth <= 2), alone and under 1..2 further box-building combinators. flat: each of 6 two-dimensional and 4 three-dimensional operands with a flat or point bounding box under each of union (any position, thick and flat siblings near and far) / array / elongate / rotate-union / rotate-copy / rigid placement / offset, 1..3 levels deep, 7 of 8 trees topped by Offset2D/3D, Shell3D or ExtrudeRounded3D (only where the operand really is in the LbInf class: translations and quarter turns keep it, rotations keep the Euclidean class, RotateCopy of a Euclidean-class operand is in LbInf). per tree: correspondence with the Coq model (box + 12 values), box finite and ordered, box-relative search, and the parameter-derived probe (extreme points of the leaves mapped forward by the generator's own arithmetic: where Evaluate < 0 there the box must contain the point, 1e-9 relative slack)."
}
