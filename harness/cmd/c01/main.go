package main

// C01: bounding boxes enclose the solid.  Generated expression trees are built through the
// public constructors; BoundingBox() and Evaluate() are compared with the Coq model
// (coq/Sdf/Shape.v at FOps, cases evaluated by coq/Sdf/ShapeCorr.v) and the enclosure itself
// is searched for counterexamples on the implementation (points outside the box with Evaluate < 0).

import (
	"encoding/json"
	"fmt"
	"math"
	"os"
	"path/filepath"
	"sort"
	"strings"
	"time"

	"github.com/deadsy/sdfx/obj"
	"github.com/deadsy/sdfx/sdf"
	v2 "github.com/deadsy/sdfx/vec/v2"
	v3 "github.com/deadsy/sdfx/vec/v3"
	"verifharness/exprgen"
	. "verifharness/kit"
	"verifharness/objparts"
	"verifharness/sdfgen"
	"verifharness/shapes"
)

func main() { Main("C01", check, stateGen, exprgen.Gen, sdfgen.Gen) }

const imp = "From Sdfx Require Import Sdf.ShapeCorr.\nOpen Scope float_scope."

func finite(xs ...float64) bool {
	for _, x := range xs {
		if math.IsNaN(x) || math.IsInf(x, 0) {
			return false
		}
	}
	return true
}

// search3 looks for a point outside the box with a negative value; returns the most negative found
func search3(rng *Rng, s sdf.SDF3, n int) (v3.Vec, float64, bool) {
	bb := s.BoundingBox()
	sz := bb.Size()
	ext := math.Max(sz.MaxComponent(), 1e-3)
	best, bestp, found := 0.0, v3.Vec{}, false
	try := func(p v3.Vec) {
		if bb.Contains(p) {
			return
		}
		if d := s.Evaluate(p); d < best {
			best, bestp, found = d, p, true
		}
	}
	for i := 0; i < n; i++ {
		var p v3.Vec
		if i%8 == 7 { // wider scales: a box that is much too small has its material far outside a 2x neighbourhood
			k := []float64{4, 12}[(i/8)%2]
			c := bb.Center()
			try(v3.Vec{X: c.X + rng.Uniform(-1, 1)*k*(sz.X+ext*0.2), Y: c.Y + rng.Uniform(-1, 1)*k*(sz.Y+ext*0.2), Z: c.Z + rng.Uniform(-1, 1)*k*(sz.Z+ext*0.2)})
			continue
		}
		switch i % 4 {
		case 0: // thin shell just outside one face
			p = v3.Vec{X: rng.Uniform(bb.Min.X, bb.Max.X), Y: rng.Uniform(bb.Min.Y, bb.Max.Y), Z: rng.Uniform(bb.Min.Z, bb.Max.Z)}
			eps := ext * math.Pow(10, -float64(rng.Range(1, 9)))
			switch rng.Intn(6) {
			case 0:
				p.X = bb.Min.X - eps
			case 1:
				p.X = bb.Max.X + eps
			case 2:
				p.Y = bb.Min.Y - eps
			case 3:
				p.Y = bb.Max.Y + eps
			case 4:
				p.Z = bb.Min.Z - eps
			default:
				p.Z = bb.Max.Z + eps
			}
		case 1, 2: // throughout 2x the box
			c := bb.Center()
			p = v3.Vec{X: c.X + rng.Uniform(-1, 1)*(sz.X+ext*0.2), Y: c.Y + rng.Uniform(-1, 1)*(sz.Y+ext*0.2), Z: c.Z + rng.Uniform(-1, 1)*(sz.Z+ext*0.2)}
		default: // near the edges/corners, slightly outside
			pick := func(lo, hi float64) float64 {
				if rng.Bool() {
					return lo - ext*rng.Float()*0.05
				}
				return hi + ext*rng.Float()*0.05
			}
			p = v3.Vec{X: pick(bb.Min.X, bb.Max.X), Y: pick(bb.Min.Y, bb.Max.Y), Z: rng.Uniform(bb.Min.Z-0.05*ext, bb.Max.Z+0.05*ext)}
			if rng.Bool() {
				p.Z, p.X = pick(bb.Min.Z, bb.Max.Z), rng.Uniform(bb.Min.X-0.05*ext, bb.Max.X+0.05*ext)
			}
		}
		try(p)
	}
	return bestp, best, found
}

func search2(rng *Rng, s sdf.SDF2, n int) (v2.Vec, float64, bool) {
	bb := s.BoundingBox()
	sz := bb.Size()
	ext := math.Max(sz.MaxComponent(), 1e-3)
	best, bestp, found := 0.0, v2.Vec{}, false
	for i := 0; i < n; i++ {
		var p v2.Vec
		switch i % 3 {
		case 0:
			if i%8 == 7 { // wider scales (see search3)
				k := []float64{4, 12}[(i/8)%2]
				c := bb.Center()
				p = v2.Vec{X: c.X + rng.Uniform(-1, 1)*k*(sz.X+ext*0.2), Y: c.Y + rng.Uniform(-1, 1)*k*(sz.Y+ext*0.2)}
				break
			}
			p = v2.Vec{X: rng.Uniform(bb.Min.X, bb.Max.X), Y: rng.Uniform(bb.Min.Y, bb.Max.Y)}
			eps := ext * math.Pow(10, -float64(rng.Range(1, 9)))
			switch rng.Intn(4) {
			case 0:
				p.X = bb.Min.X - eps
			case 1:
				p.X = bb.Max.X + eps
			case 2:
				p.Y = bb.Min.Y - eps
			default:
				p.Y = bb.Max.Y + eps
			}
		default:
			c := bb.Center()
			p = v2.Vec{X: c.X + rng.Uniform(-1, 1)*(sz.X+ext*0.2), Y: c.Y + rng.Uniform(-1, 1)*(sz.Y+ext*0.2)}
		}
		if bb.Contains(p) {
			continue
		}
		if d := s.Evaluate(p); d < best {
			best, bestp, found = d, p, true
		}
	}
	return bestp, best, found
}

type corpusT struct {
	Known []string `json:"known_keys"`
}

func ctorKey(m map[string]int) string {
	var ks []string
	for k := range m {
		ks = append(ks, k)
	}
	sort.Strings(ks)
	return strings.Join(ks, "+")
}

func check(c *Ctx, r *Report) error {
	rng := NewRng(c.Seed)
	g := &shapes.Gen{R: rng, OffsetOnlyLb: true}
	c3 := &Cases{Kind: "tree3", Imports: imp, Type: "case3", Fn: "mismatches3", InfoFn: "inexact3", PerShard: 40}
	c2 := &Cases{Kind: "tree2", Imports: imp, Type: "case2", Fn: "mismatches2", InfoFn: "inexact2", PerShard: 60}
	id := 0
	ctors := map[string]int{}
	n3 := TierN(c.Tier, 400, 8000, 1500)
	n2 := TierN(c.Tier, 200, 4000, 800)
	npts := 12
	nsearch := TierN(c.Tier, 1500, 6000, 20000)

	one3 := func(t *shapes.N3, stratum string) {
		id++
		bb := t.Go.BoundingBox()
		var pts []string
		sz := bb.Size()
		cen := bb.Center()
		for i := 0; i < npts; i++ {
			p := v3.Vec{X: cen.X + rng.Uniform(-1, 1)*sz.X*0.75, Y: cen.Y + rng.Uniform(-1, 1)*sz.Y*0.75, Z: cen.Z + rng.Uniform(-1, 1)*sz.Z*0.75}
			if i%4 == 0 { // dyadic points: exact on axes / symmetric positions
				p = v3.Vec{X: rng.Dyadic(4, 2), Y: rng.Dyadic(4, 2), Z: rng.Dyadic(4, 2)}
			}
			v := t.Go.Evaluate(p)
			pts = append(pts, fmt.Sprintf("(%s,%s,%s,%s)", CF(p.X), CF(p.Y), CF(p.Z), CF(v)))
		}
		c3.Add(fmt.Sprintf("(%d%%N, %s, (%s,%s,%s,%s,%s,%s), %s)", id, t.Coq,
			CF(bb.Min.X), CF(bb.Min.Y), CF(bb.Min.Z), CF(bb.Max.X), CF(bb.Max.Y), CF(bb.Max.Z), CList(pts)))
		for k, v := range t.Cl.Ctors {
			ctors[k] += v
		}
		key := "tree3:" + t.Desc
		r.Case(stratum+"/"+fmt.Sprint(len(t.Cl.Ctors))+"ctors", key, len(t.Cl.Ctors) >= 2)
		if id%37 == 0 {
			r.Sample(map[string]interface{}{"id": id, "tree": t.Desc, "box": bb})
		}
		// ---- the property itself, on the implementation
		if !finite(bb.Min.X, bb.Min.Y, bb.Min.Z, bb.Max.X, bb.Max.Y, bb.Max.Z) {
			r.Violate(key, "BoundingBox() is not finite: "+fmt.Sprint(bb), map[string]interface{}{"tree": t.Desc, "coq": t.Coq})
			return
		}
		if bb.Min.X > bb.Max.X || bb.Min.Y > bb.Max.Y || bb.Min.Z > bb.Max.Z {
			r.Violate(key, "BoundingBox() is not ordered: "+fmt.Sprint(bb), map[string]interface{}{"tree": t.Desc, "coq": t.Coq})
			return
		}
		if t.Cl.MinBlend {
			return // material-adding blends: enclosure not claimed (known finding), correspondence only
		}
		if p, d, found := search3(rng, t.Go, nsearch); found && d < -1e-9*math.Max(1, sz.MaxComponent()) {
			r.Violate(key, fmt.Sprintf("Evaluate(%v) = %g < 0 outside BoundingBox() %v", p, d, bb),
				map[string]interface{}{"tree": t.Desc, "coq": t.Coq, "point": p, "value": d, "box": bb})
		}
	}
	one2 := func(t *shapes.N2, stratum string) {
		id++
		bb := t.Go.BoundingBox()
		var pts []string
		sz := bb.Size()
		cen := bb.Center()
		for i := 0; i < npts; i++ {
			p := v2.Vec{X: cen.X + rng.Uniform(-1, 1)*sz.X*0.75, Y: cen.Y + rng.Uniform(-1, 1)*sz.Y*0.75}
			if i%4 == 0 {
				p = v2.Vec{X: rng.Dyadic(4, 2), Y: rng.Dyadic(4, 2)}
			}
			pts = append(pts, fmt.Sprintf("(%s,%s,%s)", CF(p.X), CF(p.Y), CF(t.Go.Evaluate(p))))
		}
		c2.Add(fmt.Sprintf("(%d%%N, %s, (%s,%s,%s,%s), %s)", id, t.Coq, CF(bb.Min.X), CF(bb.Min.Y), CF(bb.Max.X), CF(bb.Max.Y), CList(pts)))
		for k, v := range t.Cl.Ctors {
			ctors[k] += v
		}
		key := "tree2:" + t.Desc
		r.Case(stratum+"/"+fmt.Sprint(len(t.Cl.Ctors))+"ctors", key, len(t.Cl.Ctors) >= 2)
		if !finite(bb.Min.X, bb.Min.Y, bb.Max.X, bb.Max.Y) || bb.Min.X > bb.Max.X || bb.Min.Y > bb.Max.Y {
			r.Violate(key, "BoundingBox() is not finite and ordered: "+fmt.Sprint(bb), map[string]interface{}{"tree": t.Desc, "coq": t.Coq})
			return
		}
		if t.Cl.MinBlend {
			return
		}
		if p, d, found := search2(rng, t.Go, nsearch); found && d < -1e-9*math.Max(1, sz.MaxComponent()) {
			r.Violate(key, fmt.Sprintf("Evaluate(%v) = %g < 0 outside BoundingBox() %v", p, d, bb),
				map[string]interface{}{"tree": t.Desc, "coq": t.Coq, "point": p, "value": d, "box": bb})
		}
	}

	var cp corpusT
	if b, err := os.ReadFile(filepath.Join(c.Verif, "corpus", "C01.json")); err == nil {
		_ = json.Unmarshal(b, &cp)
	}
	corpusTrees(rng, one3, one2)
	knownFindings(r, c.Repo)
	// parameter regimes of the constructors without a model (regimes.go); own stream: the strata below keep their inputs
	regimeStratum(c, r, NewRng(c.Seed^0x5eed0c01))
	// histories: the caller changes the slice / parameter struct a shape was built from (history.go)
	historyStratum(c, r, NewRng(c.Seed^0x5eed0c02))
	// cams, flange, spiral, gear rack: model replayed at primitive floats + checker verdicts (prims.go)
	if err := primsStratum(c, r, NewRng(c.Seed^0x5eed0c03)); err != nil {
		return err
	}

	for k := 0; k < n3; k++ {
		one3(g.Gen3(k%4+1), "tree3/depth<="+fmt.Sprint(k%4+1))
	}
	for k := 0; k < n2; k++ {
		one2(g.Gen2(k%4+1), "tree2/depth<="+fmt.Sprint(k%4+1))
	}
	if err := partsStratum(c, r, rng); err != nil {
		return err
	}
	// look-alike matrices under Transform / RotateUnion, operands with flat or point boxes under every
	// box-building combinator, with parameter-derived probe points (flatlook.go); own generator stream, after
	// the strata above so that those keep their inputs (one2/one3 draw their sample points from rng)
	flatLookStratum(c, r, NewRng(c.Seed^0x5eed0c04), one3, one2)
	if err := c3.Write(c.Out); err != nil {
		return err
	}
	if err := c2.Write(c.Out); err != nil {
		return err
	}
	r.Coverage["constructor_histogram"] = ctors
	r.Rule = "random expression trees (depth <= 4) over 38 constructors built through the public Go API and mirrored as Coq terms; per tree: the six/four box floats and 12 Evaluate values compared with the Coq model at primitive floats, and the enclosure searched with " + fmt.Sprint(nsearch) + " points outside the box (thin shells 1e-1..1e-9 outside each face, 2x the box, edge/corner neighbourhoods). Offset/Shell only over operands in the Lb/LbInf classes and no enclosure claim under material-adding blends (see known findings). non-trivial = at least two distinct constructors in the tree; distinct by tree description. Plus (coverage.regimes_rule) parameter regimes of the constructors without a model with parameter-derived oracles and (coverage.histories_rule) caller-slice / parameter-struct histories against a twin built from a private copy. Plus (coverage.flat_look_rule) look-alike matrices (determinant +-1 without being orthogonal, shears, unimodular, nearly diagonal ...) under Transform / RotateUnion and operands with flat or point bounding boxes under every box-building combinator, with probe points derived from the parameters."
	r.Trusted = append(r.Trusted, "hand model coq/Sdf/Shape.v (constructors + Evaluate) tied by differential execution at FOps; matrix code translated from the Go AST by harness/exprgen on every run",
		"Gallina port of Go math (coq/Num/GoMath.v), itself bit-exact on >1e6 arguments")
	r.Assumptions = append(r.Assumptions, "theorems are over the reals; float64 rounding of box coordinates is not proved (a 1e-9 relative slack is allowed in the search)")
	return nil
}

// knownAt evaluates a recorded (tree, point) pair: a listed known finding or a repaired defect.
func knownAt(r *Report, t *shapes.N3, p v3.Vec) {
	bb := t.Go.BoundingBox()
	d := t.Go.Evaluate(p)
	key := fmt.Sprintf("tree3:%s@%v", t.Desc, p)
	r.Case("corpus/known-point", key, true)
	if !bb.Contains(p) && d < 0 {
		r.Violate(key, fmt.Sprintf("Evaluate(%v) = %g < 0 outside BoundingBox() %v", p, d, bb),
			map[string]interface{}{"tree": t.Desc, "coq": t.Coq, "point": p, "value": d, "box": bb})
	}
}

// corpusTrees replays the trees behind repaired defects and known findings first.
func corpusTrees(rng *Rng, one3 func(*shapes.N3, string), one2 func(*shapes.N2, string)) {
	leaf := func() shapes.Class {
		return shapes.Class{Rigid: true, Lipschitz: true, Lb: true, LbInf: true, Ctors: map[string]int{}}
	}
	// twisted extrusion of a profile translated into the negative quadrant (repaired by baa472f)
	b := sdf.Box2D(v2.Vec{X: 1, Y: 1}, 0)
	m := sdf.Translate2d(v2.Vec{X: -3, Y: -2})
	tb := sdf.Transform2D(b, m)
	coq2 := fmt.Sprintf("(fTransform2 (fBox2D %s %s) %s)", shapes.V2s(v2.Vec{X: 1, Y: 1}), CF(0), shapes.M33s(m))
	cl := leaf()
	cl.Ctors["Box2D"], cl.Ctors["Transform2"], cl.Ctors["TwistExtrude"] = 1, 1, 1
	cl.Lipschitz, cl.Lb, cl.LbInf = false, false, false
	one3(&shapes.N3{Go: sdf.TwistExtrude3D(tb, 1, 1.5), Coq: fmt.Sprintf("(fTwistExtrude %s %s %s)", coq2, CF(1), CF(1.5)),
		Desc: "TwistExtrude(Transform2(Box2D({1 1},0)@(-3,-2)),1,1.5)", Cl: cl}, "corpus")
	cl2 := leaf()
	cl2.Ctors["Box2D"], cl2.Ctors["Transform2"], cl2.Ctors["ScaleTwistExtrude"] = 1, 1, 1
	cl2.Lipschitz, cl2.Lb, cl2.LbInf = false, false, false
	sc := v2.Vec{X: 0.5, Y: 0.5}
	one3(&shapes.N3{Go: sdf.ScaleTwistExtrude3D(tb, 1, 1.5, sc), Coq: fmt.Sprintf("(fScaleTwistExtrude %s %s %s %s)", coq2, CF(1), CF(1.5), shapes.V2s(sc)),
		Desc: "ScaleTwistExtrude(Transform2(Box2D({1 1},0)@(-3,-2)),1,1.5,{0.5 0.5})", Cl: cl2}, "corpus")
}

// knownFindings replays the inputs of the findings listed in known_findings.jsonl.
func knownFindings(r *Report, repo string) {
	leaf := shapes.Class{Ctors: map[string]int{}}
	// (1) offset-like operators over an operand outside the Lb classes: rotated extrusion
	b := sdf.Box2D(v2.Vec{X: 2, Y: 2}, 0)
	e := sdf.Extrude3D(b, 2)
	rot := sdf.Transform3D(e, sdf.RotateX(math.Pi/4))
	knownAt(r, &shapes.N3{Go: sdf.Offset3D(rot, 0.5), Desc: "Offset3(Transform3(Extrude(Box2D({2 2},0),2),RotateX(pi/4)),0.5)", Cl: leaf}, v3.Vec{X: 0, Y: 0, Z: 2})
	sh, _ := sdf.Shell3D(rot, 0.5)
	knownAt(r, &shapes.N3{Go: sh, Desc: "Shell3(Transform3(Extrude(Box2D({2 2},0),2),RotateX(pi/4)),0.5)", Cl: leaf}, v3.Vec{X: 0, Y: 0, Z: 1.6875})
	// (1b) a NEGATIVE offset shrinks the box by |offset|, which is only sound when the operand never
	// overestimates distance: a non-uniformly scaled sphere does (gradient 2 along x)
	sph, _ := sdf.Sphere3D(1)
	sq := sdf.Transform3D(sph, sdf.Scale3d(v3.Vec{X: 0.5, Y: 1, Z: 1}))
	knownAt(r, &shapes.N3{Go: sdf.Offset3D(sq, -0.25), Desc: "Offset3(Transform3(Sphere(1),Scale3d(0.5,1,1)),-0.25)", Cl: leaf}, v3.Vec{X: 0.3, Y: 0, Z: 0})
	// (2) material-adding blend on a union: the fillet leaves the union of the operand boxes
	s1, _ := sdf.Sphere3D(1)
	u := sdf.Union3D(sdf.Transform3D(s1, sdf.Translate3d(v3.Vec{X: -1})), sdf.Transform3D(s1, sdf.Translate3d(v3.Vec{X: 1})))
	u.(*sdf.UnionSDF3).SetMin(sdf.PolyMin(4))
	knownAt(r, &shapes.N3{Go: u, Desc: "Union3[PolyMin(4)](Sphere(1)@(-1,0,0),Sphere(1)@(1,0,0))", Cl: leaf}, v3.Vec{X: 0, Y: 1.0625, Z: 0})
	// (3) the same blend class inside a library part: DrainCover blends body and cross-bar web with
	// PolyMin(WallThickness); with a wall thicker than the cover the fillet reaches below z = 0
	dc, err := obj.DrainCover(&obj.DrainCoverParms{WallDiameter: 146.496484375, WallHeight: 22.7458984375, WallThickness: 5.208984375,
		WallDraft: 0.017368071365060758, OuterWidth: 8.6072265625, InnerWidth: 6.437833786010742, CoverThickness: 4.2912109375,
		GrateNumber: 10, GrateWidth: 1.197265625, GrateDraft: 0.04107659665338217, CrossBarWidth: 1.4912109375, CrossBarWeb: true})
	if err == nil {
		knownAt(r, &shapes.N3{Go: dc, Desc: "obj.DrainCover{146.5,22.75,5.209,...,CoverThickness:4.291,CrossBarWeb:true}", Cl: leaf},
			v3.Vec{X: -41.954353424535114, Y: 1.7818096682062314, Z: -9.5760304360062616e-05})
	}
	// (4) imported triangle meshes: the sign is taken from the plane of the heuristically nearest of N
	// neighbouring triangles, so the value can be negative far outside the mesh (documented example call)
	if im, err := obj.ImportSTL(filepath.Join(repo, "files", "bottle.stl"), 20, 3, 5); err == nil {
		knownAt(r, &shapes.N3{Go: im, Desc: "obj.ImportSTL(files/bottle.stl,20,3,5)", Cl: leaf},
			v3.Vec{X: -39.046413455132715, Y: 9.7042255571507141, Z: 12.045667931637125})
	}
}

// partsStratum: every part of the object library and the opaque sdf constructors (cams, flange,
// rack, spiral, spline, text, voxel, imported meshes, screws ...) built through the public API at
// documented and perturbed parameters: box finite/ordered and no negative value outside it.
// These shapes are outside the Coq model: sampled only (stated in the evidence).
func partsStratum(c *Ctx, r *Report, rng *Rng) error {
	os.Setenv("VERIF_REPO", c.Repo)
	objparts.RepoDir = c.Repo
	parts, errs := objparts.All(NewRng(rng.U64()))
	covered, uncovered, err := objparts.Coverage(c.Repo)
	if err != nil {
		return err
	}
	r.Coverage["library_constructors_covered"] = len(covered)
	r.Coverage["library_constructors_uncovered"] = uncovered
	r.Coverage["library_parts"] = len(parts)
	r.Coverage["library_part_errors"] = errs
	for _, e := range errs {
		r.Violate("part-construction:"+e, "a documented example of the object library fails to construct: "+e, e)
	}
	// the sign of an imported triangle mesh is heuristic (nearest of N neighbours by box) and blends
	// add material: known findings, replayed from the corpus; not asserted on random variants
	skip := func(pt objparts.Part) bool {
		return pt.Source == "obj.ImportSTL" || pt.Source == "obj.ImportTriMesh" ||
			(pt.Source == "obj.DrainCover" && strings.Contains(pt.Params, "CrossBarWeb:true"))
	}
	budget := TierN(c.Tier, 4000, 40000, 20000)
	// CubicSpline2D prints debug lines from Evaluate: silence stdout while sampling
	devnull, _ := os.OpenFile(os.DevNull, os.O_WRONLY, 0)
	saved := os.Stdout
	if devnull != nil {
		os.Stdout = devnull
		defer func() { os.Stdout = saved }()
	}
	for _, pt := range parts {
		key := "part:" + pt.Name + "|" + pt.Params
		r.Case("library/"+pt.Source, key, true)
		if pt.Unbounded {
			continue
		}
		// scale the sample count by the cost of one evaluation
		n := budget
		if pt.Dim == 3 {
			bb := pt.S3.BoundingBox()
			if !finite(bb.Min.X, bb.Min.Y, bb.Min.Z, bb.Max.X, bb.Max.Y, bb.Max.Z) || bb.Min.X > bb.Max.X || bb.Min.Y > bb.Max.Y || bb.Min.Z > bb.Max.Z {
				r.Violate(key, "BoundingBox() is not finite and ordered: "+fmt.Sprint(bb), map[string]interface{}{"part": pt.Name, "params": pt.Params})
				continue
			}
			if skip(pt) {
				continue
			}
			n = costScaled(n, func() { pt.S3.Evaluate(bb.Center()) })
			if p, d, found := search3(rng, pt.S3, n); found && d < -1e-9*math.Max(1, bb.Size().MaxComponent()) {
				r.Violate(key, fmt.Sprintf("library part %s: Evaluate(%v) = %g < 0 outside BoundingBox() %v", pt.Name, p, d, bb),
					map[string]interface{}{"part": pt.Name, "params": pt.Params, "point": p, "value": d, "box": bb})
			}
		} else {
			bb := pt.S2.BoundingBox()
			if !finite(bb.Min.X, bb.Min.Y, bb.Max.X, bb.Max.Y) || bb.Min.X > bb.Max.X || bb.Min.Y > bb.Max.Y {
				r.Violate(key, "BoundingBox() is not finite and ordered: "+fmt.Sprint(bb), map[string]interface{}{"part": pt.Name, "params": pt.Params})
				continue
			}
			n = costScaled(n, func() { pt.S2.Evaluate(bb.Center()) })
			if p, d, found := search2(rng, pt.S2, n); found && d < -1e-9*math.Max(1, bb.Size().MaxComponent()) {
				r.Violate(key, fmt.Sprintf("library part %s: Evaluate(%v) = %g < 0 outside BoundingBox() %v", pt.Name, p, d, bb),
					map[string]interface{}{"part": pt.Name, "params": pt.Params, "point": p, "value": d, "box": bb})
			}
		}
	}
	// per-object certificates: the same parts read back into expression trees (reify.go)
	return reifiedStratum(c, r, rng, parts)
}

// costScaled reduces the sample count for shapes whose Evaluate is slow (text, imported meshes).
func costScaled(n int, eval func()) int {
	t0 := time.Now()
	for i := 0; i < 8; i++ {
		eval()
	}
	per := time.Since(t0).Seconds() / 8
	if per*float64(n) > 0.15 {
		n = int(0.15 / per)
		if n < 200 {
			n = 200
		}
	}
	return n
}
