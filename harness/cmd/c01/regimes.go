package main

// Parameter-regime strata for the primitives WITHOUT a Gallina model (opaque roots of the reified
// stratum: cams, flange, gear rack, spiral, cubic spline, voxel, 2D/3D meshes, imported triangle
// meshes).  The library-parts stratum builds them at the documented example parameters and a few
// perturbed variants; here every constructor argument is driven through its regimes - negative,
// zero, tiny, huge where the constructor accepts it, reversed / swapped angle and range arguments,
// extreme ratios between arguments - and the enclosure is probed with the oracles of probe.go:
// witness points computed from the PARAMETERS (for polar shapes along the whole parameter range, at
// both ends and at the angles of the axis directions), a grid over the region the parameters span,
// the outline traced with Evaluate, far probes.  None of these takes its region from the box under test.
//
// A regime inside the documented domain of the constructor is ASSERTED (box finite, ordered, no
// negative value outside it).  A regime outside it that the constructor nevertheless accepts
// (negative radius, nose circle larger than the base circle ...) is built under recover and
// OBSERVED: counted in the evidence (coverage.regimes), not a violation.  Rejected = the constructor
// returned an error (or panicked on an out-of-domain argument).

import (
	"fmt"
	"math"
	"os"
	"sort"
	"time"

	"github.com/deadsy/sdfx/obj"
	"github.com/deadsy/sdfx/sdf"
	v2 "github.com/deadsy/sdfx/vec/v2"
	v3 "github.com/deadsy/sdfx/vec/v3"
	. "verifharness/kit"
)

type regime2 struct {
	prim, name, params string
	asserted           bool
	build              func() (sdf.SDF2, error)
	hint               sdf.Box2
	wit, centres       []v2.Vec
	far                float64    // bound of the far probes in units of the hint (0 = default)
	spline             *splineAux // CubicSpline2D: set by build
}

// splineAux: the spline under an Offset2D and the offset.
type splineAux struct {
	cs *sdf.CubicSplineSDF2
	r  float64
}

type regime3 struct {
	prim, name, params string
	asserted           bool
	noEnclosure        bool // sign of the value is heuristic (imported triangle meshes): box checks only
	build              func() (sdf.SDF3, error)
	hint               sdf.Box3
	wit, centres       []v3.Vec
	verts              []v3.Vec // vertices of the mesh the box describes (must be inside it)
}

type regimeStats struct {
	Built, Rejected, Panicked, Asserted, Observed int
	Seconds                                       float64  `json:"-"`
	ObservedOutside                               []string `json:",omitempty"`
}

func sq2(r float64) sdf.Box2 { return sdf.Box2{Min: v2.Vec{X: -r, Y: -r}, Max: v2.Vec{X: r, Y: r}} }

// circleWit: points just inside a circle, at dense angles including the exact axis directions.
func circleWit(c v2.Vec, r float64, n int) []v2.Vec {
	var w []v2.Vec
	for _, k := range []float64{1 - 1e-6, 1 - 1e-3} {
		rr := r * k
		w = append(w, c.Add(v2.Vec{X: rr}), c.Add(v2.Vec{X: -rr}), c.Add(v2.Vec{Y: rr}), c.Add(v2.Vec{Y: -rr}))
		for i := 0; i < n; i++ {
			a := 2 * math.Pi * (float64(i) + 0.5) / float64(n)
			w = append(w, c.Add(v2.Vec{X: rr * math.Cos(a), Y: rr * math.Sin(a)}))
		}
	}
	return w
}

// logU: log-uniform in [lo,hi]
func logU(rng *Rng, lo, hi float64) float64 {
	return math.Exp(rng.Uniform(math.Log(lo), math.Log(hi)))
}

// ---------------------------------------------------------------- spiral.go

// spiralRegimes: r = a*theta + k over [start,end] (either order), thickness d.
func spiralRegimes(rng *Rng, nrand int) []regime2 {
	var out []regime2
	tau := sdf.Tau
	mk := func(name string, asserted bool, a, k, start, end, d float64) {
		lo, hi := math.Min(start, end), math.Max(start, end)
		r := func(t float64) float64 { return a*t + k }
		rmax := math.Max(math.Abs(r(lo)), math.Abs(r(hi)))
		// witnesses: the centre line and both flanks along the whole parameter range
		var w []v2.Vec
		turns := (hi - lo) / (2 * math.Pi)
		n := int(math.Min(4096, math.Max(256, 96*turns)))
		pt := func(t, off float64) {
			rr := r(t)
			for _, o := range []float64{0, off, -off} {
				w = append(w, v2.Vec{X: (rr + o) * math.Cos(t), Y: (rr + o) * math.Sin(t)})
			}
		}
		for i := 0; i <= n; i++ {
			pt(lo+(hi-lo)*float64(i)/float64(n), 0.999*d)
		}
		// the angles of the axis directions inside the range (extremes of x and y are near them)
		if turns < 3000 {
			for q := math.Ceil(lo / (math.Pi / 2)); q*(math.Pi/2) <= hi; q++ {
				pt(q*(math.Pi/2), 0.999*d)
			}
		}
		// both ends: the end caps in 16 directions
		for _, t := range []float64{lo, hi} {
			c := v2.Vec{X: r(t) * math.Cos(t), Y: r(t) * math.Sin(t)}
			for i := 0; i < 16; i++ {
				b := 2 * math.Pi * float64(i) / 16
				w = append(w, c.Add(v2.Vec{X: 0.999 * d * math.Cos(b), Y: 0.999 * d * math.Sin(b)}))
			}
		}
		out = append(out, regime2{prim: "sdf.ArcSpiral2D", name: name, asserted: asserted,
			params: fmt.Sprintf("a=%v k=%v start=%v end=%v d=%v", a, k, start, end, d),
			build:  func() (sdf.SDF2, error) { return sdf.ArcSpiral2D(a, k, start, end, d) },
			hint:   sq2(rmax + math.Abs(d)), wit: w,
			// Evaluate walks from the solution angle to the range one turn at a time: keep the walk below ~2e4 turns
			far: math.Max(2, math.Min(1e4, 2e4*tau*math.Abs(a)/(rmax+math.Abs(d)+math.Abs(k)+1e-300)))})
	}
	pi := sdf.Pi
	// named: one per idea (slope sign, offset sign, order and sign of the angles, thickness vs pitch)
	mk("outward", true, 1, 20, 0.25*pi, 8*tau, 1)
	mk("inward(a<0)", true, -1, 30, 0, 2*tau, 1)
	mk("inward/reversed-angles", true, -1, 30, 2*tau, 0, 1)
	mk("outward/reversed-angles", true, 1, 20, 8*tau, 0.25*pi, 1)
	mk("negative-start-angle", true, 1, 0, -3*pi, pi, 0.5)
	mk("negative-angles", true, 0.5, 2, -3*tau, -0.5*tau, 0.4)
	mk("negative-angles/reversed", true, 0.5, 2, -0.5*tau, -3*tau, 0.4)
	mk("through-centre(k<0)", true, 1, -10, 0, 2*tau, 0.5)
	mk("negative-slope/k=0", true, -1, 0, 0.25*pi, 3*tau, 1)
	mk("symmetric-range", true, 1, 0, -2*tau, 2*tau, 0.5)
	mk("k-dominates", true, 0.01, 50, 0, 3*tau, 1)
	mk("k-dominates/inward", true, -0.01, 50, 0, 3*tau, 1)
	mk("tiny-range", true, 1, 5, 1, 1+1e-9, 0.5)
	mk("far-range", true, 0.1, 0, 100*tau, 104*tau, 0.2)
	mk("far-negative-range", true, 0.1, 0, -104*tau, -100*tau, 0.2)
	mk("thick(d>>pitch)", true, 0.1, 1, 0, 4*tau, 50)
	mk("hairline(d tiny)", true, 1, 1, 0, 3*tau, 1e-6)
	mk("tiny-scale", true, 1e-6, 1e-6, 0, 3*tau, 1e-7)
	mk("huge-scale", true, 1e5, 1e6, -tau, 3*tau, 1e4)
	mk("d=0", true, 1, 1, 0, 3*tau, 0)
	mk("a=0(rejected)", true, 0, 1, 0, 3*tau, 1)
	mk("start=end(rejected)", true, 1, 1, 2, 2, 1)
	mk("d<0", false, 1, 5, 0, 3*tau, -1)
	// random combinations of the regimes of every argument
	as := []float64{1, -1, 0.05, -0.05, 30, -30}
	ks := []float64{0, 20, -20, 1e-9, 300, -300}
	rs := [][2]float64{{0, 4 * tau}, {4 * tau, 0}, {-4 * tau, 0}, {-3 * pi, pi}, {-pi, 3 * pi}, {0.3, 0.3 + 1e-3}, {-20 * tau, 20 * tau}, {30 * tau, 33 * tau}, {-33 * tau, -30 * tau}}
	for i := 0; i < nrand; i++ {
		a := as[rng.Intn(len(as))] * rng.Uniform(0.5, 2)
		k := ks[rng.Intn(len(ks))] * rng.Uniform(0.5, 2)
		rg := rs[rng.Intn(len(rs))]
		start, end := rg[0]+rng.Uniform(-1, 1), rg[1]+rng.Uniform(-1, 1)
		pitch := math.Abs(a) * tau
		d := []float64{0.05, 0.45, 3, 1e-6}[rng.Intn(4)] * pitch * rng.Uniform(0.5, 1)
		mk(fmt.Sprintf("rand%d", i), true, a, k, start, end, d)
	}
	return out
}

// ---------------------------------------------------------------- cams.go

func camRegimes(rng *Rng, nrand int) []regime2 {
	var out []regime2
	ff := func(name string, asserted bool, d, b, n float64) {
		R := math.Abs(d) + math.Abs(b) + math.Abs(n)
		w := append(circleWit(v2.Vec{}, b, 64), circleWit(v2.Vec{Y: d}, n, 64)...)
		out = append(out, regime2{prim: "sdf.FlatFlankCam2D", name: name, asserted: asserted,
			params: fmt.Sprintf("distance=%v baseRadius=%v noseRadius=%v", d, b, n),
			build:  func() (sdf.SDF2, error) { return sdf.FlatFlankCam2D(d, b, n) },
			hint:   sq2(R), wit: w, centres: []v2.Vec{{Y: d}}})
	}
	ta := func(name string, asserted bool, d, b, n, f float64) {
		R := math.Abs(d) + math.Abs(b) + math.Abs(n)
		w := append(circleWit(v2.Vec{}, b, 64), circleWit(v2.Vec{Y: d}, n, 64)...)
		out = append(out, regime2{prim: "sdf.ThreeArcCam2D", name: name, asserted: asserted,
			params: fmt.Sprintf("distance=%v baseRadius=%v noseRadius=%v flankRadius=%v", d, b, n, f),
			build:  func() (sdf.SDF2, error) { return sdf.ThreeArcCam2D(d, b, n, f) },
			hint:   sq2(R), wit: w, centres: []v2.Vec{{Y: d}, {Y: d / 2}}})
	}
	mff := func(name string, asserted bool, lift, dur, dia float64) {
		out = append(out, regime2{prim: "sdf.MakeFlatFlankCam", name: name, asserted: asserted,
			params: fmt.Sprintf("lift=%v duration=%v maxDiameter=%v", lift, dur, dia),
			build:  func() (sdf.SDF2, error) { return sdf.MakeFlatFlankCam(lift, dur, dia) },
			hint:   sq2(math.Abs(dia)), wit: circleWit(v2.Vec{}, dia/2-lift, 64), centres: []v2.Vec{{Y: dia/2 - lift}}})
	}
	mta := func(name string, asserted bool, lift, dur, dia, k float64) {
		out = append(out, regime2{prim: "sdf.MakeThreeArcCam", name: name, asserted: asserted,
			params: fmt.Sprintf("lift=%v duration=%v maxDiameter=%v k=%v", lift, dur, dia, k),
			build:  func() (sdf.SDF2, error) { return sdf.MakeThreeArcCam(lift, dur, dia, k) },
			hint:   sq2(math.Abs(dia)), wit: circleWit(v2.Vec{}, dia/2-lift, 64), centres: []v2.Vec{{Y: dia/2 - lift}}})
	}
	// flat flanks: documented domain = nose circle not larger than the base circle, not inside it
	ff("example", true, 30, 20, 5)
	ff("nose=base", true, 30, 20, 20)
	ff("nose<<base", true, 30, 20, 1e-6)
	ff("distance>>radii", true, 1e4, 20, 5)
	ff("nose-barely-outside", true, 15.000001, 20, 5)
	ff("nose-tangent-inside(sin=1)", false, 15, 20, 5)
	ff("nose-inside-base", false, 5, 20, 5)
	ff("distance-tiny", true, 1e-6, 20, 20)
	ff("tiny-scale", true, 3e-6, 2e-6, 5e-7)
	ff("huge-scale", true, 3e6, 2e6, 5e5)
	ff("nose>base", true, 30, 5, 20) // box repaired by c241c7a
	ff("nose>base/close", true, 16, 5, 20)
	ff("distance=0", false, 0, 20, 20)
	ff("distance<0", false, -30, 20, 5)
	ff("base<0", false, 30, -20, 5)
	ff("nose<0", false, 30, 20, -5)
	ff("nose=0", true, 30, 20, 0)
	// three arcs: flank radius from the minimum upwards
	min := func(d, b, n float64) float64 { return (b + d + n) / 2 }
	ta("example", true, 30, 20, 5, 200)
	for i, m := range []float64{1, 1 + 1e-9, 1.0001, 1.02, 1.3, 2, 6, 1e3, 1e6} {
		ta(fmt.Sprintf("flank=%gxmin", m), true, 20.18, 25.66, 9.45, m*min(20.18, 25.66, 9.45))
		ta(fmt.Sprintf("flank=%gxmin/long", m), true, 60, 20, 5, m*min(60, 20, 5))
		_ = i
	}
	ta("flank<min(rejected)", true, 30, 20, 5, 0.99*min(30, 20, 5))
	ta("nose=base", true, 30, 20, 20, 100)
	ta("nose<<base", true, 30, 20, 1e-6, 100)
	ta("distance-tiny", true, 1e-3, 20, 19.9995, 100)
	ta("tiny-scale", true, 3e-6, 2e-6, 5e-7, 2e-5)
	ta("huge-scale", true, 3e6, 2e6, 5e5, 2e7)
	ta("nose>base", true, 30, 5, 20, 100)
	ta("distance=0", false, 0, 20, 20, 100)
	ta("distance<0", false, -30, 20, 5, 100)
	ta("nose<0", false, 30, 20, -5, 100)
	// design-parameter front ends
	mff("example", true, 0.0625, sdf.DtoR(115), 5.0/8.0)
	mta("example", true, 0.0625, sdf.DtoR(115), 5.0/8.0, 1.05)
	for _, dur := range []float64{1, 30, 90, 170, 179.999, 180, 270, -10, 0} {
		mff(fmt.Sprintf("duration=%gdeg", dur), true, 2, sdf.DtoR(dur), 40)
		mta(fmt.Sprintf("duration=%gdeg", dur), dur < 180, 2, sdf.DtoR(dur), 40, 1.05)
	}
	for _, lf := range []float64{1e-9, 0.01, 0.2, 0.45, 0.499999, 0.5, 0.7, 0, -0.1} {
		mff(fmt.Sprintf("lift=%gxdia", lf), true, lf*40, sdf.DtoR(115), 40)
		mta(fmt.Sprintf("lift=%gxdia", lf), true, lf*40, sdf.DtoR(115), 40, 1.05)
	}
	for _, k := range []float64{1, 1 + 1e-9, 1.001, 1.2, 2, 10, 0.9} {
		mta(fmt.Sprintf("k=%g", k), k <= 1.2, 4, sdf.DtoR(115), 40, k)
	}
	mff("dia-tiny", true, 1e-7, sdf.DtoR(115), 1e-6)
	mff("dia-huge", true, 1e5, sdf.DtoR(115), 1e6)
	mff("dia<=0", true, 1, sdf.DtoR(115), 0)
	mta("dia-tiny", true, 1e-7, sdf.DtoR(115), 1e-6, 1.05)
	mta("dia-huge", true, 1e5, sdf.DtoR(115), 1e6, 1.05)
	for i := 0; i < nrand; i++ {
		b := logU(rng, 1e-2, 1e3)
		n := b * []float64{1, 0.999, 0.5, 0.05, 1e-4}[rng.Intn(5)]
		d := (b - n) + b*[]float64{1e-6, 0.01, 0.5, 3, 100}[rng.Intn(5)]*rng.Uniform(0.5, 1)
		ff(fmt.Sprintf("rand%d", i), true, d, b, n)
		ta(fmt.Sprintf("rand%d", i), true, d, b, n, min(d, b, n)*[]float64{1, 1.0001, 1.02, 1.3, 2, 6, 1e3}[rng.Intn(7)]*rng.Uniform(1, 1.1))
		dia := logU(rng, 1e-2, 1e3)
		mff(fmt.Sprintf("rand%d", i), true, rng.Uniform(0.001, 0.49)*dia, sdf.DtoR(rng.Uniform(5, 179)), dia)
		mta(fmt.Sprintf("rand%d", i), true, rng.Uniform(0.001, 0.49)*dia, sdf.DtoR(rng.Uniform(5, 179)), dia, rng.Uniform(1.001, 1.2))
	}
	return out
}

// ---------------------------------------------------------------- flange.go

func flangeRegimes(rng *Rng, nrand int) []regime2 {
	var out []regime2
	mk := func(name string, asserted bool, d, c, s float64) {
		R := math.Abs(d) + math.Abs(c) + math.Abs(s)
		w := append(circleWit(v2.Vec{}, c, 64), circleWit(v2.Vec{X: d}, s, 64)...)
		w = append(w, circleWit(v2.Vec{X: -d}, s, 64)...)
		out = append(out, regime2{prim: "sdf.NewFlange1", name: name, asserted: asserted,
			params: fmt.Sprintf("distance=%v centerRadius=%v sideRadius=%v", d, c, s),
			build:  func() (sdf.SDF2, error) { return sdf.NewFlange1(d, c, s), nil },
			hint:   sq2(R), wit: w, centres: []v2.Vec{{X: d}, {X: -d}}})
	}
	mk("example", true, 13.0/32.0, 5.0/16.0, 5.0/32.0)
	mk("side=centre", true, 30, 10, 10)
	mk("side<<centre", true, 30, 10, 1e-6)
	mk("side=0", true, 30, 10, 0)
	mk("distance>>radii", true, 1e4, 10, 5)
	mk("side-barely-outside", true, 5.000001, 10, 5)
	mk("side-tangent-inside(sin=1)", false, 5, 10, 5)
	mk("side-inside-centre", false, 2, 10, 5)
	mk("tiny-scale", true, 3e-6, 1e-6, 5e-7)
	mk("huge-scale", true, 3e6, 1e6, 5e5)
	mk("side>centre", true, 30, 5, 10) // box repaired by 9483321
	mk("side>centre/close", true, 6, 5, 10)
	mk("distance=0", false, 0, 10, 10)
	mk("distance<0", false, -30, 10, 5)
	mk("centre<0", false, 30, -10, 5)
	mk("side<0", false, 30, 10, -5)
	for i := 0; i < nrand; i++ {
		c := logU(rng, 1e-2, 1e3)
		s := c * []float64{1, 0.999, 0.5, 0.05, 1e-4}[rng.Intn(5)]
		d := (c - s) + c*[]float64{1e-6, 0.01, 0.5, 3, 100}[rng.Intn(5)]*rng.Uniform(0.5, 1)
		mk(fmt.Sprintf("rand%d", i), true, d, c, s)
	}
	return out
}

// ---------------------------------------------------------------- rack.go

func rackRegimes(rng *Rng, nrand int) []regime2 {
	var out []regime2
	mk := func(name string, asserted bool, k sdf.GearRackParms) {
		kk := k
		pitch := math.Pi * math.Abs(k.Module)
		h := math.Abs(k.BaseHeight) + 2.25*math.Abs(k.Module)
		L := pitch * (math.Abs(float64(k.NumberTeeth))/2 + 1)
		// tooth centres at both ends and in the middle, and points just under the tooth tops there
		var cs, w []v2.Vec
		half := float64(k.NumberTeeth) / 2
		for _, i := range []float64{-math.Floor(half), -math.Floor(half) + 1, 0, 1, math.Floor(half) - 1, math.Floor(half)} {
			x := i * pitch
			if math.Abs(x) <= L {
				if i <= 0 {
					cs = append(cs, v2.Vec{X: x, Y: h / 2})
				}
				w = append(w, v2.Vec{X: x, Y: h * (1 - 1e-6)}, v2.Vec{X: x, Y: h * 1e-6})
			}
		}
		for _, sgn := range []float64{-1, 1} {
			x := sgn * pitch * half
			w = append(w, v2.Vec{X: x * (1 - 1e-6), Y: k.BaseHeight / 2}, v2.Vec{X: x * (1 - 1e-6), Y: h * 1e-3}, v2.Vec{X: x * (1 - 1e-6), Y: h * (1 - 1e-3)})
		}
		out = append(out, regime2{prim: "sdf.GearRack2D", name: name, asserted: asserted, params: fmt.Sprintf("%+v", k),
			build: func() (sdf.SDF2, error) { return sdf.GearRack2D(&kk) },
			hint:  sdf.Box2{Min: v2.Vec{X: -L, Y: -0.25 * h}, Max: v2.Vec{X: L, Y: 1.25 * h}}, wit: w, centres: cs})
	}
	base := sdf.GearRackParms{NumberTeeth: 11, Module: (5.0 / 8.0) / 20.0, PressureAngle: sdf.DtoR(20), BaseHeight: 0.025}
	mk("example", true, base)
	for _, n := range []int{1, 2, 3, 100, 2000, 0, -3} {
		k := base
		k.NumberTeeth = n
		mk(fmt.Sprintf("teeth=%d", n), true, k)
	}
	for _, m := range []float64{1e-6, 1e-2, 1, 1e3, 1e6, 0, -1} {
		k := base
		k.Module, k.BaseHeight = m, 0.5*math.Abs(m)
		mk(fmt.Sprintf("module=%g", m), true, k)
	}
	for _, a := range []float64{1e-9, 1, 14.5, 20, 25, 34.9, 45, 60, 89, 0, -20} {
		k := base
		k.PressureAngle = sdf.DtoR(a)
		// beyond ~34.9 degrees the flanks cross before the tip (tooth top of negative width)
		mk(fmt.Sprintf("pressure=%gdeg", a), a <= 34.9, k)
	}
	for _, b := range []float64{0, 1e-9, 0.01, 0.2, 1, 10, -0.01} {
		k := base
		k.Backlash = b * k.Module
		// backlash wider than the tooth top inverts the tip
		mk(fmt.Sprintf("backlash=%gxmodule", b), b <= 0.2, k)
	}
	for _, bh := range []float64{0, 1e-9, 1, 1e3, -1} {
		k := base
		k.BaseHeight = bh * k.Module
		mk(fmt.Sprintf("base=%gxmodule", bh), true, k)
	}
	for i := 0; i < nrand; i++ {
		m := logU(rng, 1e-3, 1e3)
		mk(fmt.Sprintf("rand%d", i), true, sdf.GearRackParms{NumberTeeth: []int{1, 2, 5, 40, 500}[rng.Intn(5)], Module: m,
			PressureAngle: sdf.DtoR([]float64{0.01, 14.5, 20, 25, 34}[rng.Intn(5)]), Backlash: []float64{0, 0.001, 0.05, 0.2}[rng.Intn(4)] * m,
			BaseHeight: []float64{0, 1e-6, 0.5, 20}[rng.Intn(4)] * m})
	}
	return out
}

// ---------------------------------------------------------------- spline.go

// splineRegimes: CubicSplineSDF2.Evaluate is an unsigned distance to the curve, so the solid is
// Offset2D(spline, r): everything within r of the curve.  Witnesses: the curve itself, read back
// through Polygonize (the constructor's own polynomials), which must lie inside the spline's box.
func splineRegimes(rng *Rng, nrand int) []regime2 {
	var out []regime2
	mk := func(name string, asserted bool, knot []v2.Vec, r float64) {
		ks := append([]v2.Vec(nil), knot...)
		lo, hi := ks[0], ks[0]
		for _, p := range ks {
			lo, hi = lo.Min(p), hi.Max(p)
		}
		ext := math.Max(hi.Sub(lo).MaxComponent(), 1e-9)
		rg := regime2{prim: "sdf.CubicSpline2D", name: name, asserted: asserted, params: fmt.Sprintf("Offset2D(CubicSpline2D(%v), %v)", ks, r),
			hint: sdf.Box2{Min: lo.SubScalar(ext + r), Max: hi.AddScalar(ext + r)}, centres: ks, spline: &splineAux{r: r}}
		aux := rg.spline
		rg.build = func() (sdf.SDF2, error) {
			s, err := sdf.CubicSpline2D(append([]v2.Vec(nil), ks...))
			if err != nil {
				return nil, err
			}
			aux.cs, _ = s.(*sdf.CubicSplineSDF2)
			return sdf.Offset2D(s, r), nil
		}
		out = append(out, rg)
	}
	P := func(xy ...float64) []v2.Vec {
		var k []v2.Vec
		for i := 0; i+1 < len(xy); i += 2 {
			k = append(k, v2.Vec{X: xy[i], Y: xy[i+1]})
		}
		return k
	}
	mk("test-example", true, P(-1.5, -1.2, -0.2, 0, 1, 0.5, 5, 1, 10, 2.2, 12, 3.2, -16, -1.2, -18, -3.2), 0.3)
	mk("two-knots", true, P(0, 0, 10, 5), 0.5)
	mk("one-knot(rejected)", true, P(1, 1), 0.5)
	mk("collinear", true, P(0, 0, 1, 1, 2, 2, 5, 5), 0.2)
	mk("axis-aligned", true, P(0, 0, 10, 0, 20, 0), 0.2)
	mk("overshoot(uneven spacing)", true, P(0, 0, 1, 0, 1.01, 10, 1.02, 0, 2, 0), 0.2)
	mk("hairpin", true, P(0, 0, 100, 0, 0, 1, 100, 2), 0.2)
	mk("closed-loop", true, P(10, 0, 0, 10, -10, 0, 0, -10, 10, 0), 0.5)
	mk("self-crossing", true, P(0, 0, 10, 10, 10, 0, 0, 10), 0.5)
	mk("repeated-knot", false, P(0, 0, 5, 5, 5, 5, 10, 0), 0.5)
	mk("far-off-origin", true, P(1e6, 1e6, 1e6+3, 1e6+1, 1e6+5, 1e6-4, 1e6+9, 1e6), 0.5)
	mk("negative-quadrant", true, P(-30, -40, -20, -45, -25, -60, -5, -50), 0.5)
	mk("tiny-scale", true, P(0, 0, 1e-6, 2e-6, 3e-6, -1e-6, 4e-6, 0), 1e-7)
	mk("huge-scale", true, P(0, 0, 1e6, 2e6, 3e6, -1e6, 4e6, 0), 1e4)
	mk("many-knots(>9 splines)", true, P(0, 0, 1, 2, 2, -1, 3, 3, 4, -2, 5, 4, 6, -3, 7, 5, 8, -4, 9, 6, 10, -5, 11, 7, 12, 0), 0.3)
	mk("offset=0", true, P(0, 0, 3, 4, 6, 0), 0)
	for i := 0; i < nrand; i++ {
		n := rng.Range(2, 12)
		sc := logU(rng, 1e-2, 1e3)
		c := v2.Vec{X: rng.Uniform(-3, 3) * sc, Y: rng.Uniform(-3, 3) * sc}
		var k []v2.Vec
		for j := 0; j < n; j++ {
			p := c.Add(v2.Vec{X: rng.Uniform(-1, 1) * sc, Y: rng.Uniform(-1, 1) * sc})
			if j > 0 && rng.Intn(4) == 0 { // very uneven spacing: where a natural spline overshoots its knots
				p = k[j-1].Add(v2.Vec{X: rng.Uniform(-1, 1) * sc * 1e-2, Y: rng.Uniform(-1, 1) * sc})
			}
			k = append(k, p)
		}
		mk(fmt.Sprintf("rand%d", i), true, k, sc*[]float64{0.01, 0.1, 0.5}[rng.Intn(3)])
	}
	return out
}

// ---------------------------------------------------------------- mesh2.go (Mesh2DSlow, and Mesh2D on the same outlines)

func mesh2Regimes(rng *Rng, nrand int) []regime2 {
	var out []regime2
	mk := func(name string, asserted bool, vs ...[]v2.Vec) {
		var lo, hi v2.Vec
		first := true
		var cs, w []v2.Vec
		for _, v := range vs {
			var cen v2.Vec
			for _, p := range v {
				if first {
					lo, hi, first = p, p, false
				}
				lo, hi = lo.Min(p), hi.Max(p)
				cen = cen.Add(p.DivScalar(float64(len(v))))
			}
			cs = append(cs, cen)
			for i, p := range v { // just inside every vertex (towards the middle of the neighbouring vertices and the centroid)
				q := v[(i+1)%len(v)].Add(v[(i+len(v)-1)%len(v)]).MulScalar(0.5)
				w = append(w, p.Add(q.Sub(p).MulScalar(1e-6)), p.Add(cen.Sub(p).MulScalar(1e-6)), p.Add(cen.Sub(p).MulScalar(1e-3)))
				cs = append(cs, p.Add(q.Sub(p).MulScalar(0.3)))
			}
		}
		if len(cs) > 4 {
			cs = cs[:4]
		}
		ext := math.Max(hi.Sub(lo).MaxComponent(), 1e-9)
		lines := func() []*sdf.Line2 {
			var l []*sdf.Line2
			for _, v := range vs {
				l = append(l, sdf.VertexToLine(append([]v2.Vec(nil), v...), true)...)
			}
			return l
		}
		hint := sdf.Box2{Min: lo.SubScalar(0.25 * ext), Max: hi.AddScalar(0.25 * ext)}
		out = append(out, regime2{prim: "sdf.Mesh2DSlow", name: name, asserted: asserted, params: fmt.Sprintf("closed outlines %v", vs),
			build: func() (sdf.SDF2, error) { return sdf.Mesh2DSlow(lines()) }, hint: hint, wit: w, centres: cs})
		out = append(out, regime2{prim: "sdf.Mesh2D", name: name, asserted: asserted, params: fmt.Sprintf("closed outlines %v", vs),
			build: func() (sdf.SDF2, error) { return sdf.Mesh2D(lines()) }, hint: hint, wit: w, centres: cs})
	}
	ngon := func(c v2.Vec, r float64, n int, a0 float64, cw bool) []v2.Vec {
		var v []v2.Vec
		for i := 0; i < n; i++ {
			a := a0 + 2*math.Pi*float64(i)/float64(n)
			if cw {
				a = a0 - 2*math.Pi*float64(i)/float64(n)
			}
			v = append(v, c.Add(v2.Vec{X: r * math.Cos(a), Y: r * math.Sin(a)}))
		}
		return v
	}
	sq := func(c v2.Vec, h float64, cw bool) []v2.Vec {
		v := []v2.Vec{{X: c.X - h, Y: c.Y - h}, {X: c.X + h, Y: c.Y - h}, {X: c.X + h, Y: c.Y + h}, {X: c.X - h, Y: c.Y + h}}
		if cw {
			v[1], v[3] = v[3], v[1]
		}
		return v
	}
	mk("square/ccw", true, sq(v2.Vec{}, 1, false))
	mk("square/cw", true, sq(v2.Vec{}, 1, true))
	mk("square/negative-quadrant", true, sq(v2.Vec{X: -30, Y: -40}, 2, false))
	mk("square/far-off-origin", true, sq(v2.Vec{X: 1e6, Y: -1e6}, 3, false))
	mk("square/tiny", true, sq(v2.Vec{X: 1e-6}, 1e-6, false))
	mk("square/huge", true, sq(v2.Vec{}, 1e6, false))
	mk("triangle/sliver", true, []v2.Vec{{X: 0, Y: 0}, {X: 1000, Y: 0}, {X: 500, Y: 1e-3}})
	mk("triangle/vertical-sliver", true, []v2.Vec{{X: 0, Y: 0}, {X: 1e-3, Y: 500}, {X: 0, Y: 1000}})
	mk("two-islands", true, sq(v2.Vec{X: -50}, 2, false), sq(v2.Vec{X: 70, Y: 30}, 5, false))
	mk("two-islands/mixed-orientation", true, sq(v2.Vec{X: -50}, 2, false), sq(v2.Vec{X: 70, Y: 30}, 5, true))
	mk("ring(hole of opposite orientation)", true, sq(v2.Vec{}, 10, false), sq(v2.Vec{}, 4, true))
	mk("star", true, func() []v2.Vec {
		var v []v2.Vec
		for i := 0; i < 14; i++ {
			a := math.Pi * float64(i) / 7
			r := 10.0
			if i&1 == 1 {
				r = 3
			}
			v = append(v, v2.Vec{X: 5 + r*math.Cos(a), Y: -7 + r*math.Sin(a)})
		}
		return v
	}())
	mk("bow-tie(self-crossing)", false, []v2.Vec{{X: -5, Y: -3}, {X: 5, Y: 3}, {X: 5, Y: -3}, {X: -5, Y: 3}})
	mk("doubled-outline(winding 2)", false, sq(v2.Vec{}, 1, false), sq(v2.Vec{}, 1, false))
	mk("repeated-vertex", false, []v2.Vec{{X: 0, Y: 0}, {X: 4, Y: 0}, {X: 4, Y: 0}, {X: 4, Y: 3}, {X: 0, Y: 3}})
	mk("collinear-vertices", true, []v2.Vec{{X: 0, Y: 0}, {X: 2, Y: 0}, {X: 4, Y: 0}, {X: 4, Y: 3}, {X: 2, Y: 3}, {X: 0, Y: 3}})
	for i := 0; i < nrand; i++ {
		sc := logU(rng, 1e-3, 1e4)
		c := v2.Vec{X: rng.Uniform(-5, 5) * sc, Y: rng.Uniform(-5, 5) * sc}
		mk(fmt.Sprintf("rand%d", i), true, ngon(c, sc, rng.Range(3, 40), rng.Uniform(0, 7), rng.Bool()))
	}
	return out
}

// ---------------------------------------------------------------- voxel.go, mesh3.go, obj/stl.go

func boxTris(lo, hi v3.Vec, flip bool) []*sdf.Triangle3 {
	v := [8]v3.Vec{}
	for i := range v {
		v[i] = v3.Vec{X: lo.X, Y: lo.Y, Z: lo.Z}
		if i&1 != 0 {
			v[i].X = hi.X
		}
		if i&2 != 0 {
			v[i].Y = hi.Y
		}
		if i&4 != 0 {
			v[i].Z = hi.Z
		}
	}
	// outward normals (counter-clockwise seen from outside)
	quads := [6][4]int{{0, 2, 3, 1}, {4, 5, 7, 6}, {0, 1, 5, 4}, {2, 6, 7, 3}, {0, 4, 6, 2}, {1, 3, 7, 5}}
	var ts []*sdf.Triangle3
	for _, q := range quads {
		a, b, c, d := v[q[0]], v[q[1]], v[q[2]], v[q[3]]
		if flip {
			b, d = d, b
		}
		ts = append(ts, &sdf.Triangle3{a, b, c}, &sdf.Triangle3{a, c, d})
	}
	return ts
}

func tetraTris(c v3.Vec, r float64) []*sdf.Triangle3 {
	a := c.Add(v3.Vec{X: r, Y: r, Z: r})
	b := c.Add(v3.Vec{X: r, Y: -r, Z: -r})
	d := c.Add(v3.Vec{X: -r, Y: r, Z: -r})
	e := c.Add(v3.Vec{X: -r, Y: -r, Z: r})
	return []*sdf.Triangle3{{a, b, d}, {a, e, b}, {a, d, e}, {b, e, d}}
}

func triVerts(ts []*sdf.Triangle3) []v3.Vec {
	var v []v3.Vec
	for _, t := range ts {
		v = append(v, t[0], t[1], t[2])
	}
	return v
}

func box3Of(vs []v3.Vec) sdf.Box3 {
	b := sdf.Box3{Min: vs[0], Max: vs[0]}
	for _, p := range vs {
		b.Min, b.Max = b.Min.Min(p), b.Max.Max(p)
	}
	return b
}

func regimes3(rng *Rng, nrand int) []regime3 {
	var out []regime3
	// ---- voxel caches: operand x cell count
	type opnd struct {
		name string
		mk   func() (sdf.SDF3, error)
		hint sdf.Box3
		cs   []v3.Vec
	}
	at := func(s sdf.SDF3, err error, c v3.Vec) (sdf.SDF3, error) {
		if err != nil {
			return nil, err
		}
		return sdf.Transform3D(s, sdf.Translate3d(c)), nil
	}
	cube := func(c v3.Vec, h v3.Vec) sdf.Box3 { return sdf.Box3{Min: c.Sub(h), Max: c.Add(h)} }
	ops := []opnd{
		{"sphere", func() (sdf.SDF3, error) { return sdf.Sphere3D(2) }, cube(v3.Vec{}, v3.Vec{X: 2, Y: 2, Z: 2}), nil},
		{"sphere/negative-octant", func() (sdf.SDF3, error) { s, e := sdf.Sphere3D(2); return at(s, e, v3.Vec{X: -30, Y: -40, Z: -50}) },
			cube(v3.Vec{X: -30, Y: -40, Z: -50}, v3.Vec{X: 2, Y: 2, Z: 2}), nil},
		{"sphere/far-off-origin", func() (sdf.SDF3, error) { s, e := sdf.Sphere3D(2); return at(s, e, v3.Vec{X: 1e5, Y: -1e5, Z: 3e4}) },
			cube(v3.Vec{X: 1e5, Y: -1e5, Z: 3e4}, v3.Vec{X: 2, Y: 2, Z: 2}), nil},
		{"plate(1:1000)", func() (sdf.SDF3, error) { return sdf.Box3D(v3.Vec{X: 1000, Y: 300, Z: 1}, 0) }, cube(v3.Vec{}, v3.Vec{X: 500, Y: 150, Z: 0.5}), nil},
		{"needle(1000:1)", func() (sdf.SDF3, error) { s, e := sdf.Cylinder3D(1000, 0.5, 0); return at(s, e, v3.Vec{Z: 400}) },
			cube(v3.Vec{Z: 400}, v3.Vec{X: 0.5, Y: 0.5, Z: 500}), nil},
		{"tiny-box", func() (sdf.SDF3, error) { return sdf.Box3D(v3.Vec{X: 1e-6, Y: 2e-6, Z: 3e-6}, 0) }, cube(v3.Vec{}, v3.Vec{X: 5e-7, Y: 1e-6, Z: 1.5e-6}), nil},
		{"huge-box", func() (sdf.SDF3, error) { return sdf.Box3D(v3.Vec{X: 1e6, Y: 2e6, Z: 3e6}, 1e5) }, cube(v3.Vec{}, v3.Vec{X: 5e5, Y: 1e6, Z: 1.5e6}), nil},
		{"two-distant-spheres", func() (sdf.SDF3, error) {
			s, e := sdf.Sphere3D(1)
			if e != nil {
				return nil, e
			}
			return sdf.Union3D(sdf.Transform3D(s, sdf.Translate3d(v3.Vec{X: -20})), sdf.Transform3D(s, sdf.Translate3d(v3.Vec{X: 20, Y: 5}))), nil
		}, sdf.Box3{Min: v3.Vec{X: -21, Y: -1, Z: -1}, Max: v3.Vec{X: 21, Y: 6, Z: 1}}, []v3.Vec{{X: -20}, {X: 20, Y: 5}}},
		{"rotated-rounded-box", func() (sdf.SDF3, error) {
			s, e := sdf.Box3D(v3.Vec{X: 8, Y: 2, Z: 3}, 0.5)
			if e != nil {
				return nil, e
			}
			return sdf.Transform3D(s, sdf.Translate3d(v3.Vec{X: 3, Y: -4, Z: 5}).Mul(sdf.RotateZ(0.7)).Mul(sdf.RotateX(-0.4))), nil
		}, cube(v3.Vec{X: 3, Y: -4, Z: 5}, v3.Vec{X: 5, Y: 5, Z: 5}), nil},
	}
	for _, op := range ops {
		for _, cells := range []int{1, 2, 3, 8, 33, 0, -4} {
			op, cells := op, cells
			if cells > 8 && (op.name == "plate(1:1000)" || op.name == "needle(1000:1)") {
				continue
			}
			out = append(out, regime3{prim: "sdf.NewVoxelSDF3", name: fmt.Sprintf("%s/cells=%d", op.name, cells), asserted: cells > 0,
				params: fmt.Sprintf("NewVoxelSDF3(%s, %d, nil)", op.name, cells),
				build: func() (sdf.SDF3, error) {
					s, err := op.mk()
					if err != nil {
						return nil, err
					}
					return sdf.NewVoxelSDF3(s, cells, nil), nil
				}, hint: op.hint, centres: op.cs})
		}
	}
	// ---- triangle meshes: Mesh3D / Mesh3DSlow (Evaluate is a stub: box checks) and ImportTriMesh
	type msh struct {
		name   string
		tris   func() []*sdf.Triangle3
		convex bool
	}
	ms := []msh{
		{"unit-box", func() []*sdf.Triangle3 { return boxTris(v3.Vec{X: -1, Y: -1, Z: -1}, v3.Vec{X: 1, Y: 1, Z: 1}, false) }, true},
		{"box/negative-octant", func() []*sdf.Triangle3 {
			return boxTris(v3.Vec{X: -31, Y: -42, Z: -53}, v3.Vec{X: -30, Y: -40, Z: -50}, false)
		}, true},
		{"box/far-off-origin", func() []*sdf.Triangle3 {
			return boxTris(v3.Vec{X: 1e5, Y: -1e5, Z: 3e4}, v3.Vec{X: 1e5 + 2, Y: -1e5 + 3, Z: 3e4 + 1}, false)
		}, true},
		{"plate(1:1000)", func() []*sdf.Triangle3 {
			return boxTris(v3.Vec{X: -500, Y: -100, Z: 0}, v3.Vec{X: 500, Y: 100, Z: 1}, false)
		}, true},
		{"tiny-box", func() []*sdf.Triangle3 { return boxTris(v3.Vec{}, v3.Vec{X: 1e-6, Y: 2e-6, Z: 3e-6}, false) }, true},
		{"huge-box", func() []*sdf.Triangle3 {
			return boxTris(v3.Vec{X: -1e6, Y: -1e6, Z: -1e6}, v3.Vec{X: 1e6, Y: 2e6, Z: 3e6}, false)
		}, true},
		{"tetrahedron", func() []*sdf.Triangle3 { return tetraTris(v3.Vec{X: 3, Y: -2, Z: 7}, 2) }, true},
		{"single-triangle", func() []*sdf.Triangle3 {
			return []*sdf.Triangle3{{v3.Vec{X: 1}, v3.Vec{Y: 2}, v3.Vec{Z: 3}}}
		}, false},
		{"degenerate-triangle", func() []*sdf.Triangle3 {
			return append(boxTris(v3.Vec{}, v3.Vec{X: 1, Y: 1, Z: 1}, false), &sdf.Triangle3{v3.Vec{X: 9, Y: 9, Z: 9}, v3.Vec{X: 9, Y: 9, Z: 9}, v3.Vec{X: 9, Y: 9, Z: 9}})
		}, false},
		{"two-islands", func() []*sdf.Triangle3 {
			return append(boxTris(v3.Vec{X: -50, Y: -1, Z: -1}, v3.Vec{X: -48, Y: 1, Z: 1}, false), tetraTris(v3.Vec{X: 60, Y: 20, Z: -30}, 3)...)
		}, false},
		{"empty(rejected)", func() []*sdf.Triangle3 { return nil }, false},
	}
	for _, m := range ms {
		m := m
		verts := triVerts(m.tris())
		hint := sdf.Box3{}
		if len(verts) > 0 {
			hint = box3Of(verts)
			hint = hint.Enlarge(hint.Size().MulScalar(0.25).AddScalar(1e-9))
		}
		out = append(out, regime3{prim: "sdf.Mesh3D", name: m.name, asserted: true, params: m.name, verts: verts, hint: hint,
			build: func() (sdf.SDF3, error) { return sdf.Mesh3D(m.tris()) }})
		out = append(out, regime3{prim: "sdf.Mesh3DSlow", name: m.name, asserted: true, params: m.name, verts: verts, hint: hint,
			build: func() (sdf.SDF3, error) { return sdf.Mesh3DSlow(m.tris()) }})
		for _, nb := range [][3]int{{20, 3, 5}, {1, 3, 5}, {3, 2, 2}, {1000, 3, 5}, {8, 1, 50}, {0, 3, 5}, {-1, 3, 5}, {20, 0, 0}, {20, 5, 3}} {
			nb := nb
			inDomain := nb[0] >= 1 && nb[1] >= 1 && nb[2] >= nb[1]
			out = append(out, regime3{prim: "obj.ImportTriMesh", name: fmt.Sprintf("%s/neighbours=%d,children=%d..%d", m.name, nb[0], nb[1], nb[2]),
				asserted: inDomain, noEnclosure: true, params: fmt.Sprintf("ImportTriMesh(%s, %d, %d, %d)", m.name, nb[0], nb[1], nb[2]),
				verts: verts, hint: hint,
				build: func() (sdf.SDF3, error) {
					s := obj.ImportTriMesh(m.tris(), nb[0], nb[1], nb[2])
					if s == nil {
						return nil, fmt.Errorf("nil")
					}
					return s, nil
				}})
		}
	}
	_ = nrand
	return out
}

// ---------------------------------------------------------------- the stratum

func regimeStratum(c *Ctx, r *Report, rng *Rng) {
	nrand := TierN(c.Tier, 24, 400, 120)
	nbox := TierN(c.Tier, 600, 4000, 2000)
	stats := map[string]*regimeStats{}
	st := func(prim string) *regimeStats {
		if stats[prim] == nil {
			stats[prim] = &regimeStats{}
		}
		return stats[prim]
	}
	// CubicSpline2D prints debug lines from Evaluate
	devnull, _ := os.OpenFile(os.DevNull, os.O_WRONLY, 0)
	saved := os.Stdout
	if devnull != nil {
		os.Stdout = devnull
		defer func() { os.Stdout = saved; devnull.Close() }()
	}

	var all2 []regime2
	all2 = append(all2, spiralRegimes(rng, 3*nrand)...)
	all2 = append(all2, camRegimes(rng, nrand)...)
	all2 = append(all2, flangeRegimes(rng, nrand)...)
	all2 = append(all2, rackRegimes(rng, nrand)...)
	all2 = append(all2, splineRegimes(rng, nrand)...)
	all2 = append(all2, mesh2Regimes(rng, nrand)...)
	run2 := func(g regime2) {
		key := "regime:" + g.prim + "/" + g.name + "|" + g.params
		r.Case("regime/"+g.prim, key, true)
		s := st(g.prim)
		t0 := time.Now()
		defer func() { s.Seconds += time.Since(t0).Seconds() }()
		var sh sdf.SDF2
		var err error
		panicked := false
		func() {
			defer func() {
				if x := recover(); x != nil {
					panicked, err = true, fmt.Errorf("panic: %v", x)
				}
			}()
			sh, err = g.build()
		}()
		if panicked {
			s.Panicked++
			if g.asserted {
				r.Violate(key, fmt.Sprintf("%s panics on in-domain parameters (%s): %v", g.prim, g.params, err), map[string]interface{}{"constructor": g.prim, "regime": g.name, "params": g.params})
			}
			return
		}
		if err != nil || sh == nil {
			s.Rejected++
			return
		}
		s.Built++
		report := func(what string, input map[string]interface{}) {
			if g.asserted {
				s.Asserted++
				input["constructor"], input["regime"], input["params"] = g.prim, g.name, g.params
				r.Violate(key, what, input)
			} else {
				s.ObservedOutside = append(s.ObservedOutside, g.name+": "+what)
			}
		}
		if !g.asserted {
			s.Observed++
		}
		func() {
			defer func() {
				if x := recover(); x != nil && g.asserted {
					r.Violate(key, fmt.Sprintf("%s (%s): Evaluate/BoundingBox panics: %v", g.prim, g.params, x), map[string]interface{}{"constructor": g.prim, "regime": g.name, "params": g.params})
				}
			}()
			bb := sh.BoundingBox()
			if !finite(bb.Min.X, bb.Min.Y, bb.Max.X, bb.Max.Y) || bb.Min.X > bb.Max.X || bb.Min.Y > bb.Max.Y {
				report(fmt.Sprintf("%s(%s): BoundingBox() is not finite and ordered: %v", g.prim, g.params, bb), map[string]interface{}{"box": fmt.Sprint(bb)})
				return
			}
			wit := g.wit
			nb := nbox
			if g.prim == "sdf.CubicSpline2D" {
				// the curve itself, and the ring at 0.999 r around a few of its points
				var curve []v2.Vec
				if g.spline.cs != nil {
					curve = g.spline.cs.Polygonize(769).Vertices()
				}
				wit = append(wit, curve...)
				off := g.spline.r
				rr := 0.999 * off
				for i := 0; i < len(curve); i += 8 {
					for k := 0; k < 8; k++ {
						a := 2 * math.Pi * float64(k) / 8
						wit = append(wit, curve[i].Add(v2.Vec{X: rr * math.Cos(a), Y: rr * math.Sin(a)}))
					}
				}
				// Evaluate is a Newton iteration that prints every step: witnesses only, no outline trace
				f := &found2{s: sh, bb: bb}
				for _, p := range wit {
					f.at(p)
				}
				tol := 1e-9 * math.Max(1, math.Max(bb.Size().MaxComponent(), g.hint.Size().MaxComponent()))
				// the curve is the zero set: a point of it outside the box of the spline (= box of the offset shrunk by r)
				ibb := g.spline.cs.BoundingBox()
				for _, p := range curve {
					if finite(p.X, p.Y) && !ibb.Enlarge(v2.Vec{X: 2 * tol, Y: 2 * tol}).Contains(p) {
						report(fmt.Sprintf("%s: curve point %v outside the spline's box %v", g.params, p, ibb), map[string]interface{}{"point": p, "box": ibb})
						return
					}
				}
				if f.ok && f.best < -tol {
					report(fmt.Sprintf("%s: Evaluate(%v) = %g < 0 outside BoundingBox() %v", g.params, f.p, f.best, bb), map[string]interface{}{"point": f.p, "value": f.best, "box": bb})
				}
				return
			}
			if g.prim == "sdf.Mesh2DSlow" || g.prim == "sdf.Mesh2D" {
				nb = nbox / 2
			}
			p, d, found, _ := probe2(rng, sh, g.hint, wit, g.centres, g.far, nb)
			tol := 1e-9 * math.Max(1, math.Max(bb.Size().MaxComponent(), g.hint.Size().MaxComponent()))
			if found && d < -tol {
				report(fmt.Sprintf("%s(%s): Evaluate(%v) = %g < 0 outside BoundingBox() %v", g.prim, g.params, p, d, bb), map[string]interface{}{"point": p, "value": d, "box": bb})
			}
		}()
	}
	for _, g := range all2 {
		run2(g)
	}

	run3 := func(g regime3) {
		key := "regime:" + g.prim + "/" + g.name + "|" + g.params
		r.Case("regime/"+g.prim, key, true)
		s := st(g.prim)
		t0 := time.Now()
		defer func() { s.Seconds += time.Since(t0).Seconds() }()
		var sh sdf.SDF3
		var err error
		panicked := false
		func() {
			defer func() {
				if x := recover(); x != nil {
					panicked, err = true, fmt.Errorf("panic: %v", x)
				}
			}()
			sh, err = g.build()
		}()
		if panicked {
			s.Panicked++
			if g.asserted {
				r.Violate(key, fmt.Sprintf("%s panics on in-domain parameters (%s): %v", g.prim, g.params, err), map[string]interface{}{"constructor": g.prim, "regime": g.name, "params": g.params})
			}
			return
		}
		if err != nil || sh == nil {
			s.Rejected++
			return
		}
		s.Built++
		report := func(what string, input map[string]interface{}) {
			if g.asserted {
				s.Asserted++
				input["constructor"], input["regime"], input["params"] = g.prim, g.name, g.params
				r.Violate(key, what, input)
			} else {
				s.ObservedOutside = append(s.ObservedOutside, g.name+": "+what)
			}
		}
		if !g.asserted {
			s.Observed++
		}
		func() {
			defer func() {
				if x := recover(); x != nil && g.asserted {
					r.Violate(key, fmt.Sprintf("%s (%s): Evaluate/BoundingBox panics: %v", g.prim, g.params, x), map[string]interface{}{"constructor": g.prim, "regime": g.name, "params": g.params})
				}
			}()
			bb := sh.BoundingBox()
			if !finite(bb.Min.X, bb.Min.Y, bb.Min.Z, bb.Max.X, bb.Max.Y, bb.Max.Z) || bb.Min.X > bb.Max.X || bb.Min.Y > bb.Max.Y || bb.Min.Z > bb.Max.Z {
				report(fmt.Sprintf("%s(%s): BoundingBox() is not finite and ordered: %v", g.prim, g.params, bb), map[string]interface{}{"box": fmt.Sprint(bb)})
				return
			}
			for _, v := range g.verts {
				if !bb.Contains(v) {
					report(fmt.Sprintf("%s(%s): mesh vertex %v outside BoundingBox() %v", g.prim, g.params, v, bb), map[string]interface{}{"point": v, "box": bb})
					return
				}
			}
			var p v3.Vec
			var d float64
			var found bool
			if g.noEnclosure {
				p, d, found = search3(rng, sh, 300) // observation only
			} else {
				p, d, found, _ = probe3(rng, sh, g.hint, g.wit, g.centres, 100, nbox)
			}
			tol := 1e-9 * math.Max(1, math.Max(bb.Size().MaxComponent(), g.hint.Size().MaxComponent()))
			if found && d < -tol {
				what := fmt.Sprintf("%s(%s): Evaluate(%v) = %g < 0 outside BoundingBox() %v", g.prim, g.params, p, d, bb)
				if g.noEnclosure { // heuristic sign (known finding): recorded, not asserted
					s.ObservedOutside = append(s.ObservedOutside, g.name+": "+what)
				} else {
					report(what, map[string]interface{}{"point": p, "value": d, "box": bb})
				}
			}
		}()
	}
	for _, g := range regimes3(rng, nrand) {
		run3(g)
	}
	cov := map[string]interface{}{}
	var prims []string
	for k := range stats {
		prims = append(prims, k)
	}
	sort.Strings(prims)
	for _, k := range prims {
		cov[k] = stats[k]
	}
	r.Coverage["regimes"] = cov
	r.Coverage["regimes_rule"] = "per constructor without a model: named regimes of every argument (negative / zero / tiny / huge, reversed or swapped angle and range arguments, extreme ratios) + random combinations; built = accepted by the constructor, rejected = error returned; asserted regimes (documented domain) must have a finite ordered box with no negative value outside it; observed = outside the documented domain but accepted (ObservedOutside lists what was seen there, not a violation). Oracle: witness points from the parameters (spiral: centre line and both flanks along the whole angle range, both end caps, the axis angles; circles of cams/flange at the axis directions; tooth tops and rack ends; spline curve read back through Polygonize), grid over the region the parameters span, outline traced by rays from interior points with bisection and support-point refinement per axis direction, geometric far probes to 1e4 x, then the box-relative search"
}
