package main

// Histories of ONE hierarchical renderer value over (a) different fields with exactly the same bounding box
// (the same lattice, level count and distance-cache keys) and (b) ONE model value that is rendered, changed in
// place (SetMin / SetMax / SetExtrude / a parameter of a user-defined field; a CacheSDF2 filling up) and
// rendered again: see marchkit/mutate.go.  The octree / quadtree renderer must emit what the finest cells of
// the lattice of the model AS IT IS NOW give: every render is compared, element for element, with the render
// by a fresh renderer value (which the other strata compare with the exhaustive evaluation of its lattice).
// All fields are 1-Lipschitz (never over-estimate).

import (
	"fmt"

	"github.com/deadsy/sdfx/render"
	"github.com/deadsy/sdfx/sdf"
	v2 "github.com/deadsy/sdfx/vec/v2"
	v3 "github.com/deadsy/sdfx/vec/v3"
	. "verifharness/kit"
	mk "verifharness/marchkit"
)

func (st *state) genMutated(rng *Rng, c *Ctx) {
	r := st.r
	ctr := v3.Vec{X: rng.Dyadic(2, 2), Y: rng.Dyadic(2, 2), Z: rng.Dyadic(2, 2)}
	a := []float64{1, 2.5, 0.125}[rng.Intn(3)]
	t, k := rng.Float(), rng.Uniform(0.5, 1)
	names := func(n int, name func(i int) (string, bool)) []string {
		var out []string
		for i := 0; i < n; i++ {
			if s, info := name(i); info {
				out = append(out, "Info("+s+")")
			} else {
				out = append(out, s)
			}
		}
		return out
	}
	note := "a name repeated with another [state] is the SAME model value, changed in place between the calls"
	// 3D, octree
	{
		cells := rng.Range(6, 26)
		newR := func() render.Render3 { return render.NewMarchingCubesOctree(cells) }
		type hist struct {
			stratum string
			steps   []mk.Step3
		}
		var hists []hist
		for _, h := range mk.Histories3(mk.SameBox3(ctr, a, t)) {
			hists = append(hists, hist{"reuse3-same-box/octree", h})
		}
		for _, m := range mk.Mutables3(ctr, a, k) {
			hists = append(hists, hist{"reuse3-mutated-in-place/octree", m.History()})
		}
		for _, hh := range hists {
			ns := names(len(hh.steps), func(i int) (string, bool) { return hh.steps[i].Name, hh.steps[i].InfoOnly })
			key := fmt.Sprintf("reuse3/octree@%d/%v", cells, ns)
			input := map[string]interface{}{"renderer": "octree", "cells": cells, "one_renderer_value_handles_in_order": ns, "note": note}
			nontrivial := false
			diffs := mk.Reuse3(newR, hh.steps, func(i int, s mk.Step3, ts []*sdf.Triangle3) { nontrivial = nontrivial || len(ts) > 0 })
			r.Case(hh.stratum, key, nontrivial)
			for _, d := range diffs {
				r.Violate(fmt.Sprintf("%s#%d", key, d.Step), fmt.Sprintf("C07 one octree renderer value (%d cells), step %d (%s): %s", cells, d.Step, d.Name, d.What), input)
			}
		}
	}
	// 2D, quadtree
	{
		cells := rng.Range(6, 70)
		ctr2 := v2.Vec{X: ctr.X, Y: ctr.Y}
		newR := func() render.Render2 { return render.NewMarchingSquaresQuadtree(cells) }
		type hist struct {
			stratum string
			steps   []mk.Step2
		}
		var hists []hist
		for _, h := range mk.Histories2(mk.SameBox2(ctr2, a, t)) {
			hists = append(hists, hist{"reuse2-same-box/quadtree", h})
		}
		for _, m := range mk.Mutables2(ctr2, a, k) {
			hists = append(hists, hist{"reuse2-mutated-in-place/quadtree", m.History()})
		}
		for _, hh := range hists {
			ns := names(len(hh.steps), func(i int) (string, bool) { return hh.steps[i].Name, hh.steps[i].InfoOnly })
			key := fmt.Sprintf("reuse2/quadtree@%d/%v", cells, ns)
			input := map[string]interface{}{"renderer": "quadtree", "cells": cells, "one_renderer_value_handles_in_order": ns, "note": note}
			nontrivial := false
			diffs := mk.Reuse2(newR, hh.steps, func(i int, s mk.Step2, ls []*sdf.Line2) { nontrivial = nontrivial || len(ls) > 0 })
			r.Case(hh.stratum, key, nontrivial)
			for _, d := range diffs {
				r.Violate(fmt.Sprintf("%s#%d", key, d.Step), fmt.Sprintf("C07 one quadtree renderer value (%d cells), step %d (%s): %s", cells, d.Step, d.Name, d.What), input)
			}
		}
	}
}
