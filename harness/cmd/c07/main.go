package main

// C07: hierarchical (octree / quadtree) rendering loses nothing.
// Model: coq/Render/Octree.v (processCube / isEmpty / dcache3, 2D twin), cases evaluated by
// coq/Render/C07Corr.v.  Direct oracle: the triangle / segment multiset of the REAL octree /
// quadtree code versus the evaluation of every finest cell of the same lattice through the real
// mcToTriangles / msToLines; metamorphic: f versus 2^-k f (pruning disabled).

import (
	"encoding/json"
	"fmt"
	"math"
	"math/big"
	"os"
	"path/filepath"
	"strings"

	"github.com/deadsy/sdfx/render"
	"github.com/deadsy/sdfx/sdf"
	v2 "github.com/deadsy/sdfx/vec/v2"
	"github.com/deadsy/sdfx/vec/v2i"
	v3 "github.com/deadsy/sdfx/vec/v3"
	"github.com/deadsy/sdfx/vec/v3i"
	. "verifharness/kit"
	mk "verifharness/marchkit"
	sk "verifharness/samplekit"
	"verifharness/rendergen"
	"verifharness/tabgen"
)

func main() {
	Main("C07", check, stateGen, func(c *Ctx) (string, []byte, error) { return tabgen.Gen(c.Repo) }, rendergen.Gen)
}

const imp = "From Sdfx Require Import Render.C07Corr.\nOpen Scope float_scope."

// Spec is one replayable input.
type Spec struct {
	Dim    int       `json:"dim"`              // 2 | 3
	Path   string    `json:"path"`             // hook: processCube on a lattice chosen here | api: the public renderer
	Top    int       `json:"top,omitempty"`    // hook: Go level of the top cube (>= 1)
	Origin []float64 `json:"origin,omitempty"` // hook
	Res    float64   `json:"res,omitempty"`    // hook: dc.resolution
	BBMin  []float64 `json:"bbmin,omitempty"`  // api: the bounding box the field reports
	BBMax  []float64 `json:"bbmax,omitempty"`
	Cells  int       `json:"cells,omitempty"` // api: meshCells
	Field  *sk.Field `json:"field"`
	Meta   int       `json:"meta,omitempty"` // also render 2^-Meta * field and compare
	Note   string    `json:"note,omitempty"`
	// path "fine": public renderer on a very fine lattice, reference = finest cells overlapping the box
	// path "reuse": ONE renderer object (Renderer: octree | quadtree | uniform) renders Seq in order
	Renderer string `json:"renderer,omitempty"`
	Seq      []Spec `json:"seq,omitempty"`
	// (items of Seq) only Info is called for this model, not Render
	InfoOnly bool `json:"info_only,omitempty"`
}

func (s *Spec) key() string {
	b, _ := json.Marshal(s)
	return string(b)
}

type corpus struct {
	Specs []Spec `json:"specs"`
}

type state struct {
	r       *Report
	o3, o2  *Cases
	l3, l2  *Cases
	id      int
	coqVals int // budget of table values sent to Coq
	hdBelow int // hdiag table entries below the exact half diagonal
	hdAbove int
	hdExact int
	reject  int
	pruned  int
	visited int
	metaSk  int
}

func zt3(i, j, k int) string { return fmt.Sprintf("(%d, %d, %d)%%Z", i, j, k) }
func zt2(i, j int) string    { return fmt.Sprintf("(%d, %d)%%Z", i, j) }

// hdiag entry against the exact value: sign of 4*hd^2 - k*s^2 (k = 3 or 2), s = 2^i * res
func (st *state) hdiagExact(hd []float64, res float64, k int64) {
	for i, h := range hd {
		s := new(big.Rat).SetFloat64(res)
		s.Mul(s, new(big.Rat).SetInt(new(big.Int).Lsh(big.NewInt(1), uint(i))))
		rhs := new(big.Rat).Mul(s, s)
		rhs.Mul(rhs, big.NewRat(k, 1))
		lhs := new(big.Rat).SetFloat64(h)
		lhs.Mul(lhs, lhs)
		lhs.Mul(lhs, big.NewRat(4, 1))
		switch lhs.Cmp(rhs) {
		case -1:
			st.hdBelow++
		case 1:
			st.hdAbove++
		default:
			st.hdExact++
		}
	}
}

// ---------------------------------------------------------------- 3D

type run3 struct {
	g      sk.Grid3
	levels int // dcache levels (top cube has Go level levels-1)
	hd     []float64
	tris   []sdf.Triangle3
	recP   []v3.Vec
	recV   []float64
	tab    *sk.Table3
}

func levelsFromFirst(idx int) (int, bool) {
	// the first point evaluated is the centre of the top cube: index 2^(levels-2) on every axis
	for l := 2; l < 40; l++ {
		if idx == 1<<(uint(l)-2) {
			return l, true
		}
	}
	return 0, false
}

func (st *state) do3(sp *Spec, stratum string) {
	r := st.r
	key := sp.key()
	fail := func(what string) { r.Violate(key, "C07 "+what, sp) }
	var g sk.Grid3
	var levels int
	var bb sdf.Box3
	if sp.Path == "hook" {
		g = sk.Grid3{Origin: v3.Vec{X: sp.Origin[0], Y: sp.Origin[1], Z: sp.Origin[2]}, Res: sp.Res}
		levels = sp.Top + 1
	} else {
		bb = sdf.Box3{Min: v3.Vec{X: sp.BBMin[0], Y: sp.BBMin[1], Z: sp.BBMin[2]}, Max: v3.Vec{X: sp.BBMax[0], Y: sp.BBMax[1], Z: sp.BBMax[2]}}
		resolution := bb.Size().MaxComponent() / float64(sp.Cells)
		g = sk.Grid3{Origin: bb.ScaleAboutCenter(1.01).Min, Res: 0.5 * resolution}
		// learn the number of levels: a field that is huge everywhere is pruned at the top cube
		probe := &sk.Recorder3{S: &sk.Fn3{F: func(v3.Vec) float64 { return 1e300 }, BB: bb}}
		col := &sk.TriCollector{}
		render.NewMarchingCubesOctree(sp.Cells).Render(probe, col)
		if len(probe.P) != 1 || len(col.T) != 0 {
			fail(fmt.Sprintf("probe render of a far-away field evaluated %d points, emitted %d triangles", len(probe.P), len(col.T)))
			return
		}
		i, j, k, ok := g.Index(probe.P[0])
		l, ok2 := levelsFromFirst(i)
		if !ok || !ok2 || i != j || i != k {
			fail(fmt.Sprintf("first evaluation %v is not the centre of a top cube of the lattice origin %v res %v", probe.P[0], g.Origin, g.Res))
			return
		}
		levels = l
		// the box the lattice starts from is the bounding box enlarged by 0.5 % on every side (from centre and
		// size, not with the code under test), and the top cube covers it and the bounding box
		if msg := mk.CheckScaled3(bb); msg != "" {
			fail(msg)
		}
		{
			lo, hi := mk.Scaled3(bb, 1.01)
			side := math.Ldexp(g.Res, levels-1)
			tol := 1e-9*bb.Size().MaxComponent() + 1e-14*math.Max(bb.Min.Abs().MaxComponent(), bb.Max.Abs().MaxComponent())
			o := g.Origin
			if o.X > lo.X+tol || o.Y > lo.Y+tol || o.Z > lo.Z+tol || o.X+side < hi.X-tol || o.Y+side < hi.Y-tol || o.Z+side < hi.Z-tol {
				fail(fmt.Sprintf("top cube [%v, +%g] (levels %d) does not cover the bounding box [%v,%v] enlarged by 0.5 %% on every side [%v,%v]: finest cells of the lattice over the bounding box are never visited", o, side, levels, bb.Min, bb.Max, lo, hi))
			}
		}
		// the top cube must cover the scaled box (exact)
		long := new(big.Rat).SetFloat64(bb.ScaleAboutCenter(1.01).Size().MaxComponent())
		side := new(big.Rat).SetFloat64(g.Res)
		side.Mul(side, new(big.Rat).SetInt(new(big.Int).Lsh(big.NewInt(1), uint(levels-1))))
		if side.Cmp(long) < 0 {
			fail(fmt.Sprintf("top cube (levels %d, side %v) does not cover the scaled box (long axis %v)", levels, side.FloatString(6), long.FloatString(6)))
		}
		st.id++
		st.l3.Add(fmt.Sprintf("(%d%%N, %s, %s, %d%%Z, %s, %s, %d%%nat)", st.id, sk.CF3(bb.Min), sk.CF3(bb.Max), sp.Cells, sk.CF3(g.Origin), CF(g.Res), levels))
	}
	top := levels - 1
	n := 1 << uint(top)
	hd := render.VerifNewDcache3(&sk.Fn3{F: func(v3.Vec) float64 { return 0 }}, g.Origin, g.Res, uint(levels)).Hdiag()
	st.hdiagExact(hd, g.Res, 3)
	F, err := sp.Field.Build3(g, n, hd)
	if err != nil {
		fail("bad spec: " + err.Error())
		return
	}
	var tab *sk.Table3
	if sp.Field.IsTable() {
		tab, _ = sp.Field.Table3(g, n, hd)
		if !sk.LipOnTree3(tab) {
			st.reject++ // outside the claimed class (not 1-Lipschitz on the lattice)
			return
		}
		l := &sk.Lookup3{T: tab, Def: 1}
		F = sk.F3{Name: F.Name, F: l.Evaluate}
	} else {
		tab = sk.Sample3(&sk.Fn3{F: F.F}, g, n)
	}
	render3 := func(f func(v3.Vec) float64) (*sk.Recorder3, []sdf.Triangle3) {
		rec := &sk.Recorder3{S: &sk.Fn3{F: f, BB: bb}}
		col := &sk.TriCollector{}
		if sp.Path == "hook" {
			dc := render.VerifNewDcache3(rec, g.Origin, g.Res, uint(levels))
			dc.ProcessCube(v3i.Vec{}, uint(top), col)
		} else {
			render.NewMarchingCubesOctree(sp.Cells).Render(rec, col)
		}
		return rec, col.T
	}
	rec, tris := render3(F.F)
	// every evaluation is at a lattice point of the cube and paired with the value of that point
	seq := make([]string, len(rec.P))
	for q, p := range rec.P {
		i, j, k, ok := g.Index(p)
		if !ok || i < 0 || j < 0 || k < 0 || i > n || j > n || k > n {
			fail(fmt.Sprintf("evaluation %d at %v is not a lattice point of the top cube", q, p))
			return
		}
		if tab.At(i, j, k) != rec.V[q] && !(math.IsNaN(tab.At(i, j, k)) && math.IsNaN(rec.V[q])) {
			fail(fmt.Sprintf("field not a function: value at lattice point (%d,%d,%d) differs between calls", i, j, k))
			return
		}
		seq[q] = zt3(i, j, k)
	}
	ref := sk.Uniform3(tab)
	lost, extra := sk.DiffTris(ref, tris)
	nontrivial := len(ref) > 0
	r.Case(stratum, key, nontrivial)
	st.visited += len(rec.P)
	if len(lost) > 0 || len(extra) > 0 {
		what := fmt.Sprintf("octree renderer (%s, levels %d) emitted %d triangles, exhaustive evaluation of the %d^3 finest cells emits %d: %d lost, %d extra",
			sp.Path, levels, len(tris), n/2, len(ref), len(lost), len(extra))
		if len(lost) > 0 {
			what += fmt.Sprintf("; first lost %v", lost[0])
		}
		fail(what + "; field " + F.Name)
	}
	// metamorphic: 2^-k f has the same signs and interpolation ratios, and no cube is pruned
	if sp.Meta > 0 {
		k := math.Ldexp(1, -sp.Meta)
		tiny := false
		for _, v := range tab.Vals {
			if v != 0 && math.Abs(v)*k < 1e-9 {
				tiny = true
			}
		}
		if tiny {
			st.metaSk++ // epsilon snapping is not scale invariant for values within 1e-9*2^k of zero
		} else {
			rec2, tris2 := render3(func(p v3.Vec) float64 { return k * F.F(p) })
			a, b := sk.DiffTris(tris, tris2)
			if len(a) > 0 || len(b) > 0 {
				fail(fmt.Sprintf("metamorphic: render(f) and render(2^-%d f) differ: %d only in f, %d only in the scaled render (%d vs %d evaluations)", sp.Meta, len(a), len(b), len(rec.P), len(rec2.P)))
			}
			st.pruned += len(rec2.P) - len(rec.P)
		}
	}
	r.Sample(map[string]interface{}{"spec": sp, "levels": levels, "triangles": len(tris), "evaluations": len(rec.P), "lattice_points": len(tab.Vals)})
	// correspondence with the model inside Coq (small lattices)
	if top <= 4 && st.coqVals >= len(tab.Vals) && !hasNaN(tab.Vals) {
		st.coqVals -= len(tab.Vals)
		st.id++
		st.o3.Add(fmt.Sprintf("(%d%%N, %s, %s, %d%%nat, %s, %s, %s, %s)", st.id, sk.CF3(g.Origin), CF(g.Res), top-1,
			sk.CFloats(tab.Vals), sk.CTris(tris), CList(seq), sk.CFloats(hd)))
	}
}

func hasNaN(xs []float64) bool {
	for _, x := range xs {
		if math.IsNaN(x) || math.IsInf(x, 0) {
			return true
		}
	}
	return false
}

// ---------------------------------------------------------------- 2D

func (st *state) do2(sp *Spec, stratum string) {
	r := st.r
	key := sp.key()
	fail := func(what string) { r.Violate(key, "C07 "+what, sp) }
	var g sk.Grid2
	var levels int
	var bb sdf.Box2
	if sp.Path == "hook" {
		g = sk.Grid2{Origin: v2.Vec{X: sp.Origin[0], Y: sp.Origin[1]}, Res: sp.Res}
		levels = sp.Top + 1
	} else {
		bb = sdf.Box2{Min: v2.Vec{X: sp.BBMin[0], Y: sp.BBMin[1]}, Max: v2.Vec{X: sp.BBMax[0], Y: sp.BBMax[1]}}
		resolution := bb.Size().MaxComponent() / float64(sp.Cells)
		g = sk.Grid2{Origin: bb.ScaleAboutCenter(1.01).Min, Res: 0.5 * resolution}
		probe := &sk.Recorder2{S: &sk.Fn2{F: func(v2.Vec) float64 { return 1e300 }, BB: bb}}
		col := &sk.LineCollector{}
		render.NewMarchingSquaresQuadtree(sp.Cells).Render(probe, col)
		if len(probe.P) != 1 || len(col.L) != 0 {
			fail(fmt.Sprintf("probe render of a far-away field evaluated %d points, emitted %d segments", len(probe.P), len(col.L)))
			return
		}
		i, j, ok := g.Index(probe.P[0])
		l, ok2 := levelsFromFirst(i)
		if !ok || !ok2 || i != j {
			fail(fmt.Sprintf("first evaluation %v is not the centre of a top square of the lattice origin %v res %v", probe.P[0], g.Origin, g.Res))
			return
		}
		levels = l
		if msg := mk.CheckScaled2(bb); msg != "" {
			fail(msg)
		}
		{
			lo, hi := mk.Scaled2(bb, 1.01)
			side := math.Ldexp(g.Res, levels-1)
			tol := 1e-9*bb.Size().MaxComponent() + 1e-14*math.Max(math.Max(math.Abs(bb.Min.X), math.Abs(bb.Min.Y)), math.Max(math.Abs(bb.Max.X), math.Abs(bb.Max.Y)))
			o := g.Origin
			if o.X > lo.X+tol || o.Y > lo.Y+tol || o.X+side < hi.X-tol || o.Y+side < hi.Y-tol {
				fail(fmt.Sprintf("top square [%v, +%g] (levels %d) does not cover the bounding box [%v,%v] enlarged by 0.5 %% on every side [%v,%v]: finest cells of the lattice over the bounding box are never visited", o, side, levels, bb.Min, bb.Max, lo, hi))
			}
		}
		long := new(big.Rat).SetFloat64(bb.ScaleAboutCenter(1.01).Size().MaxComponent())
		side := new(big.Rat).SetFloat64(g.Res)
		side.Mul(side, new(big.Rat).SetInt(new(big.Int).Lsh(big.NewInt(1), uint(levels-1))))
		if side.Cmp(long) < 0 {
			fail(fmt.Sprintf("top square (levels %d) does not cover the scaled box", levels))
		}
		st.id++
		st.l2.Add(fmt.Sprintf("(%d%%N, %s, %s, %d%%Z, %s, %s, %d%%nat)", st.id, sk.CF2(bb.Min), sk.CF2(bb.Max), sp.Cells, sk.CF2(g.Origin), CF(g.Res), levels))
	}
	top := levels - 1
	n := 1 << uint(top)
	hd := render.VerifNewDcache2(&sk.Fn2{F: func(v2.Vec) float64 { return 0 }}, g.Origin, g.Res, uint(levels)).Hdiag()
	st.hdiagExact(hd, g.Res, 2)
	F, err := sp.Field.Build2(g, n, hd)
	if err != nil {
		fail("bad spec: " + err.Error())
		return
	}
	var tab *sk.Table2
	if sp.Field.IsTable() {
		tab, _ = sp.Field.Table2(g, n, hd)
		if !sk.LipOnTree2(tab) {
			st.reject++
			return
		}
		l := &sk.Lookup2{T: tab, Def: 1}
		F = sk.F2{Name: F.Name, F: l.Evaluate}
	} else {
		tab = sk.Sample2(&sk.Fn2{F: F.F}, g, n)
	}
	render2 := func(f func(v2.Vec) float64) (*sk.Recorder2, []sdf.Line2) {
		rec := &sk.Recorder2{S: &sk.Fn2{F: f, BB: bb}}
		col := &sk.LineCollector{}
		if sp.Path == "hook" {
			dc := render.VerifNewDcache2(rec, g.Origin, g.Res, uint(levels))
			dc.ProcessSquare(v2i.Vec{}, uint(top), col)
		} else {
			render.NewMarchingSquaresQuadtree(sp.Cells).Render(rec, col)
		}
		return rec, col.L
	}
	rec, segs := render2(F.F)
	seq := make([]string, len(rec.P))
	for q, p := range rec.P {
		i, j, ok := g.Index(p)
		if !ok || i < 0 || j < 0 || i > n || j > n {
			fail(fmt.Sprintf("evaluation %d at %v is not a lattice point of the top square", q, p))
			return
		}
		if tab.At(i, j) != rec.V[q] {
			fail(fmt.Sprintf("field not a function at lattice point (%d,%d)", i, j))
			return
		}
		seq[q] = zt2(i, j)
	}
	ref := sk.Uniform2(tab)
	lost, extra := sk.DiffLines(ref, segs)
	r.Case(stratum, key, len(ref) > 0)
	st.visited += len(rec.P)
	if len(lost) > 0 || len(extra) > 0 {
		what := fmt.Sprintf("quadtree renderer (%s, levels %d) emitted %d segments, exhaustive evaluation of the %d^2 finest cells emits %d: %d lost, %d extra",
			sp.Path, levels, len(segs), n/2, len(ref), len(lost), len(extra))
		if len(lost) > 0 {
			what += fmt.Sprintf("; first lost %v", lost[0])
		}
		fail(what + "; field " + F.Name)
	}
	if sp.Meta > 0 {
		k := math.Ldexp(1, -sp.Meta)
		tiny := false
		for _, v := range tab.Vals {
			if v != 0 && math.Abs(v)*k < 1e-9 {
				tiny = true
			}
		}
		if tiny {
			st.metaSk++
		} else {
			rec2, segs2 := render2(func(p v2.Vec) float64 { return k * F.F(p) })
			a, b := sk.DiffLines(segs, segs2)
			if len(a) > 0 || len(b) > 0 {
				fail(fmt.Sprintf("metamorphic: render(f) and render(2^-%d f) differ: %d only in f, %d only in the scaled render", sp.Meta, len(a), len(b)))
			}
			st.pruned += len(rec2.P) - len(rec.P)
		}
	}
	r.Sample(map[string]interface{}{"spec": sp, "levels": levels, "segments": len(segs), "evaluations": len(rec.P)})
	if top <= 5 && st.coqVals >= len(tab.Vals) && !hasNaN(tab.Vals) {
		st.coqVals -= len(tab.Vals)
		st.id++
		st.o2.Add(fmt.Sprintf("(%d%%N, %s, %s, %d%%nat, %s, %s, %s, %s)", st.id, sk.CF2(g.Origin), CF(g.Res), top-1,
			sk.CFloats(tab.Vals), sk.CLines(segs), CList(seq), sk.CFloats(hd)))
	}
}

// ---------------------------------------------------------------- generators

func pick(rng *Rng, xs ...float64) float64 { return xs[rng.Intn(len(xs))] }

// a cube of the octree over 0..n: level l >= 1 (side 2^l), origin a multiple of its side
func randCube(rng *Rng, n, dim int) (l int, org []float64) {
	top := 0
	for 1<<uint(top) < n {
		top++
	}
	l = rng.Range(1, top)
	side := 1 << uint(l)
	org = make([]float64, dim)
	for a := range org {
		org[a] = float64(side * rng.Intn(n/side))
	}
	return
}

// fields placed relative to the lattice (all coordinates in lattice units, Rel = true)
// exact: the lattice is dyadic (positions, distances between lattice points and the hdiag table are
// computed without rounding relative to each other), so a surface can be placed exactly at, one ulp
// inside or one ulp outside the pruning threshold; on other lattices the threshold is approached to
// 1e-9 relative only (closer than that the comparison is decided by float64 rounding, which the
// theorems do not cover)
func tieField(rng *Rng, kind string, cen []float64, l int, exact bool) *sk.Field {
	f := &sk.Field{Kind: kind, C: cen, Hd: l, Rel: true}
	if exact {
		f.Ulp = rng.Range(-1, 1)
	} else {
		f.Eps = pick(rng, -1e-9, 1e-9)
	}
	return f
}

func genField3(rng *Rng, n int, exact bool) *sk.Field {
	fn := float64(n)
	l, o := randCube(rng, n, 3)
	s := float64(int(1) << uint(l))
	cen := []float64{o[0] + s/2, o[1] + s/2, o[2] + s/2}
	rndPt := func() []float64 {
		return []float64{rng.Dyadic(fn/2, 3) + fn/2, rng.Dyadic(fn/2, 3) + fn/2, rng.Dyadic(fn/2, 3) + fn/2}
	}
	latPt := func() []float64 {
		return []float64{float64(rng.Intn(n + 1)), float64(rng.Intn(n + 1)), float64(rng.Intn(n + 1))}
	}
	big := &sk.Field{Kind: "sphere", C: []float64{fn / 2, fn / 2, fn/2 + fn*0.35}, R: fn * 0.3, Rel: true}
	switch rng.Intn(12) {
	case 0: // sphere circumscribed about a cube of the tree (the tie), unioned so that some corners are inside
		return &sk.Field{Kind: "union", A: tieField(rng, "sphere", cen, l, exact), B: big}
	case 1: // the complement: the cube sits in a cavity touching its corners
		return &sk.Field{Kind: "scale", R: -1, A: tieField(rng, "sphere", cen, l, exact)}
	case 2: // sphere tangent to a face of a coarse cube from outside
		r := pick(rng, 0.5, 1, 1.5, 2.25, s)
		return &sk.Field{Kind: "sphere", C: []float64{o[0] + s + r, cen[1], cen[2]}, R: r, Rel: true}
	case 3: // sphere inscribed in a coarse cube (tangent from inside), or slightly smaller / larger
		return &sk.Field{Kind: "sphere", C: cen, R: s/2 + pick(rng, 0, 0, -0.125, 0.125), Rel: true}
	case 4: // box with faces on lattice planes: exact zeros at lattice points
		a, b := latPt(), latPt()
		c := []float64{(a[0] + b[0]) / 2, (a[1] + b[1]) / 2, (a[2] + b[2]) / 2}
		h := []float64{math.Abs(a[0]-b[0])/2 + 1, math.Abs(a[1]-b[1])/2 + 1, math.Abs(a[2]-b[2])/2 + 1}
		return &sk.Field{Kind: "box", C: c, H: h, Rel: true}
	case 5: // a re-entrant corner at a cube corner: big box minus a box whose corner is a corner of the cube
		outer := &sk.Field{Kind: "box", C: []float64{fn / 2, fn / 2, fn / 2}, H: []float64{fn * 0.4, fn * 0.4, fn * 0.4}, Rel: true}
		inner := &sk.Field{Kind: "box", C: []float64{o[0] + s + fn, o[1] + s + fn, o[2] + s + fn}, H: []float64{fn, fn, fn}, Rel: true}
		return &sk.Field{Kind: "diff", A: outer, B: inner}
	case 6: // plane through a corner of a cube with the diagonal as normal (f(centre) = +-half diagonal)
		sg := pick(rng, -1, 1)
		return &sk.Field{Kind: "plane", C: []float64{sg, sg, sg}, H: []float64{o[0] + s, o[1] + s, o[2] + s}, R: pick(rng, 0, 0, 0.25, -0.25), Rel: true}
	case 7: // plane of arbitrary orientation
		return &sk.Field{Kind: "plane", C: []float64{rng.Dyadic(1, 4), rng.Dyadic(1, 4), 0.0625 + rng.Float()}, H: rndPt(), R: 0, Rel: true}
	case 8: // thin slab, thinner than a finest cell
		nrm := []float64{rng.Dyadic(1, 3), rng.Dyadic(1, 3), 1}
		p := rndPt()
		th := pick(rng, 0.25, 0.5, 1, 1.5)
		up := &sk.Field{Kind: "plane", C: nrm, H: p, R: th, Rel: true}
		dn := &sk.Field{Kind: "scale", R: -1, A: &sk.Field{Kind: "plane", C: nrm, H: p, R: 0, Rel: true}}
		return &sk.Field{Kind: "inter", A: up, B: dn}
	case 9: // small sphere: smaller than a coarse cube, possibly smaller than a cell
		return &sk.Field{Kind: "sphere", C: rndPt(), R: pick(rng, 0.25, 0.5, 0.75, 1, 1.5, 2.5), Rel: true}
	case 10: // CSG of random spheres and boxes
		f := &sk.Field{Kind: "sphere", C: rndPt(), R: fn * (0.1 + 0.2*rng.Float()), Rel: true}
		for q := rng.Range(1, 3); q > 0; q-- {
			var g *sk.Field
			if rng.Bool() {
				g = &sk.Field{Kind: "sphere", C: rndPt(), R: fn * (0.05 + 0.2*rng.Float()), Rel: true}
			} else {
				g = &sk.Field{Kind: "box", C: rndPt(), H: []float64{1 + fn*0.2*rng.Float(), 1 + fn*0.2*rng.Float(), 1 + fn*0.2*rng.Float()}, Rel: true}
			}
			f = &sk.Field{Kind: []string{"union", "diff", "inter"}[rng.Intn(3)], A: f, B: g}
		}
		return f
	}
	// lattice-lookup field: 0.9 * (one of the above) rounded to a coarse dyadic quantum: any pattern of
	// exact zeros at lattice points; kept only if it is 1-Lipschitz on the lattice (exact test)
	return &sk.Field{Kind: "quant", R: 0.03125, A: genField3(rng, n, exact)}
}

func genField2(rng *Rng, n int, exact bool) *sk.Field {
	fn := float64(n)
	l, o := randCube(rng, n, 2)
	s := float64(int(1) << uint(l))
	cen := []float64{o[0] + s/2, o[1] + s/2}
	rndPt := func() []float64 { return []float64{rng.Dyadic(fn/2, 3) + fn/2, rng.Dyadic(fn/2, 3) + fn/2} }
	latPt := func() []float64 { return []float64{float64(rng.Intn(n + 1)), float64(rng.Intn(n + 1))} }
	big := &sk.Field{Kind: "circle", C: []float64{fn / 2, fn/2 + fn*0.35}, R: fn * 0.3, Rel: true}
	switch rng.Intn(10) {
	case 0:
		return &sk.Field{Kind: "union", A: tieField(rng, "circle", cen, l, exact), B: big}
	case 1:
		return &sk.Field{Kind: "scale", R: -1, A: tieField(rng, "circle", cen, l, exact)}
	case 2:
		r := pick(rng, 0.5, 1, 1.5, 2.25, s)
		return &sk.Field{Kind: "circle", C: []float64{o[0] + s + r, cen[1]}, R: r, Rel: true}
	case 3:
		return &sk.Field{Kind: "circle", C: cen, R: s/2 + pick(rng, 0, 0, -0.125, 0.125), Rel: true}
	case 4:
		a, b := latPt(), latPt()
		c := []float64{(a[0] + b[0]) / 2, (a[1] + b[1]) / 2}
		h := []float64{math.Abs(a[0]-b[0])/2 + 1, math.Abs(a[1]-b[1])/2 + 1}
		return &sk.Field{Kind: "rect", C: c, H: h, Rel: true}
	case 5:
		outer := &sk.Field{Kind: "rect", C: []float64{fn / 2, fn / 2}, H: []float64{fn * 0.4, fn * 0.4}, Rel: true}
		inner := &sk.Field{Kind: "rect", C: []float64{o[0] + s + fn, o[1] + s + fn}, H: []float64{fn, fn}, Rel: true}
		return &sk.Field{Kind: "diff", A: outer, B: inner}
	case 6:
		sg := pick(rng, -1, 1)
		return &sk.Field{Kind: "line", C: []float64{sg, sg}, H: []float64{o[0] + s, o[1] + s}, R: pick(rng, 0, 0, 0.25, -0.25), Rel: true}
	case 7:
		return &sk.Field{Kind: "line", C: []float64{rng.Dyadic(1, 4), 0.0625 + rng.Float()}, H: rndPt(), R: 0, Rel: true}
	case 8:
		f := &sk.Field{Kind: "circle", C: rndPt(), R: pick(rng, 0.25, 0.5, 1, 2.5, fn*0.3), Rel: true}
		for q := rng.Range(0, 2); q > 0; q-- {
			var g *sk.Field
			if rng.Bool() {
				g = &sk.Field{Kind: "circle", C: rndPt(), R: fn * (0.05 + 0.2*rng.Float()), Rel: true}
			} else {
				g = &sk.Field{Kind: "rect", C: rndPt(), H: []float64{1 + fn*0.2*rng.Float(), 1 + fn*0.2*rng.Float()}, Rel: true}
			}
			f = &sk.Field{Kind: []string{"union", "diff"}[rng.Intn(2)], A: f, B: g}
		}
		return f
	}
	return &sk.Field{Kind: "quant", R: 0.03125, A: genField2(rng, n, exact)}
}

func check(c *Ctx, r *Report) error {
	rng := NewRng(c.Seed)
	st := &state{r: r,
		o3: &Cases{Kind: "oct3", Imports: imp, Type: "ocase3", Fn: "omismatches3", InfoFn: "oinexact3", PerShard: 6},
		o2: &Cases{Kind: "quad2", Imports: imp, Type: "ocase2", Fn: "omismatches2", InfoFn: "oinexact2", PerShard: 12},
		l3: &Cases{Kind: "lat3", Imports: imp, Type: "lcase3", Fn: "lmismatches3", InfoFn: "linexact3", PerShard: 500},
		l2: &Cases{Kind: "lat2", Imports: imp, Type: "lcase2", Fn: "lmismatches2", InfoFn: "linexact2", PerShard: 500},
	}
	st.coqVals = TierN(c.Tier, 120000, 600000, 60000)

	// corpus (and replay files) first
	var specs []Spec
	if b, err := os.ReadFile(filepath.Join(c.Verif, "corpus", "C07.json")); err == nil {
		var cp corpus
		if err := json.Unmarshal(b, &cp); err != nil {
			return fmt.Errorf("corpus: %v", err)
		}
		specs = append(specs, cp.Specs...)
	}
	if c.Replay != "" {
		b, err := os.ReadFile(c.Replay)
		if err != nil {
			return err
		}
		var rp struct {
			Failing []struct {
				Input Spec `json:"input"`
			} `json:"failing_inputs"`
		}
		if err := json.Unmarshal(b, &rp); err != nil {
			return err
		}
		specs = nil
		for _, f := range rp.Failing {
			specs = append(specs, f.Input)
		}
	}
	for i := range specs {
		sp := &specs[i]
		switch {
		case sp.Path == "fine":
			st.fine(sp, "corpus")
		case sp.Path == "reuse":
			st.reuse(sp, "corpus")
		case sp.Path == "readback":
			st.readback()
		case sp.Dim == 2:
			st.do2(sp, "corpus")
		default:
			st.do3(sp, "corpus")
		}
	}
	if c.Replay == "" {
		// shapes built by the library's own constructors, rendered through render.ToTriangles (first: a shape
		// away from the origin whose top cube misses part of its bounding box is the most telling failing input)
		libraryShapes(st, rng, c)
		st.readback()
		st.genFine(rng, c)
		st.genReuse(rng, c)
		st.genMutated(rng, c)
		reps := TierN(c.Tier, 5, 40, 20)
		maxTop3 := TierN(c.Tier, 7, 7, 6)
		// hook path: processCube / processSquare on dyadic lattices, every depth
		for rep := 0; rep < reps; rep++ {
			for top := 1; top <= maxTop3; top++ {
				if top >= 6 && rep >= TierN(c.Tier, 1, 4, 1) {
					continue
				}
				n := 1 << uint(top)
				res, exact := pick(rng, 0.5, 0.25, 1, 0.125), true
				if rng.Intn(4) == 0 {
					res, exact = 0.1*(1+rng.Float()), false // rounding regime
				}
				org := []float64{rng.Dyadic(4, 2), rng.Dyadic(4, 2), rng.Dyadic(4, 2)}
				sp := &Spec{Dim: 3, Path: "hook", Top: top, Origin: org, Res: res, Field: genField3(rng, n, exact)}
				if rng.Intn(2) == 0 {
					sp.Meta = 12
				}
				st.do3(sp, fmt.Sprintf("hook3/top%d/%s", top, sp.Field.Kind))
			}
			for top := 1; top <= 8; top++ {
				n := 1 << uint(top)
				res, exact := pick(rng, 0.5, 0.25, 1, 0.125), true
				if rng.Intn(4) == 0 {
					res, exact = 0.1*(1+rng.Float()), false
				}
				sp := &Spec{Dim: 2, Path: "hook", Top: top, Origin: []float64{rng.Dyadic(4, 2), rng.Dyadic(4, 2)}, Res: res, Field: genField2(rng, n, exact)}
				if rng.Intn(2) == 0 {
					sp.Meta = 12
				}
				st.do2(sp, fmt.Sprintf("hook2/top%d/%s", top, sp.Field.Kind))
			}
		}
		// the public renderers: the lattice is the renderer's own (1.01 scaling, levels from log2)
		cells3 := []int{1, 2, 3, 4, 5, 7, 8, 11, 16}
		if c.Tier != "quick" {
			cells3 = append(cells3, 6, 9, 13, 20, 25, 32)
		} else if rng.Intn(2) == 0 {
			cells3 = append(cells3, 32)
		}
		for rep := 0; rep < TierN(c.Tier, 1, 6, 3); rep++ {
			for _, mc := range cells3 {
				sz := []float64{pick(rng, 1, 2, 3, 0.75), pick(rng, 1, 2, 1.5), pick(rng, 1, 2, 2.5)}
				ctr := []float64{rng.Dyadic(2, 2), rng.Dyadic(2, 2), rng.Dyadic(2, 2)}
				sp := &Spec{Dim: 3, Path: "api", Cells: mc,
					BBMin: []float64{ctr[0] - sz[0]/2, ctr[1] - sz[1]/2, ctr[2] - sz[2]/2},
					BBMax: []float64{ctr[0] + sz[0]/2, ctr[1] + sz[1]/2, ctr[2] + sz[2]/2}}
				// the cube of the renderer: levels = ceil(log2(2.02*cells)) + 1
				top := int(math.Ceil(math.Log2(2.02 * float64(mc))))
				sp.Field = genField3(rng, 1<<uint(top), false)
				if rng.Intn(2) == 0 {
					sp.Meta = 12
				}
				st.do3(sp, fmt.Sprintf("api3/cells%d/%s", mc, sp.Field.Kind))
			}
			for _, mc := range []int{1, 2, 3, 5, 8, 13, 21, 40, 64, 100} {
				sz := []float64{pick(rng, 1, 2, 3, 0.75), pick(rng, 1, 2, 1.5)}
				ctr := []float64{rng.Dyadic(2, 2), rng.Dyadic(2, 2)}
				sp := &Spec{Dim: 2, Path: "api", Cells: mc,
					BBMin: []float64{ctr[0] - sz[0]/2, ctr[1] - sz[1]/2},
					BBMax: []float64{ctr[0] + sz[0]/2, ctr[1] + sz[1]/2}}
				top := int(math.Ceil(math.Log2(2.02 * float64(mc))))
				sp.Field = genField2(rng, 1<<uint(top), false)
				if rng.Intn(2) == 0 {
					sp.Meta = 12
				}
				st.do2(sp, fmt.Sprintf("api2/cells%d/%s", mc, sp.Field.Kind))
			}
		}
		// the public renderers again, the bounding box 2x .. 1000x its size away from the origin along one, two,
		// three axes (Min > 0 or Max < 0): the lattice origin, the level count and the cube must follow the box
		{
			sign := func() float64 { return pick(rng, 1, 1, 1, -1) }
			for rep := 0; rep < TierN(c.Tier, 1, 4, 2); rep++ {
				for oi, off := range mk.Offsets3(sign) {
					mc := []int{1, 2, 3, 4, 5, 7, 8, 11, 16}[(oi+rep+rng.Intn(3))%9]
					sz := []float64{pick(rng, 1, 2, 3, 0.75), pick(rng, 1, 2, 1.5), pick(rng, 1, 2, 2.5)}
					m := math.Max(sz[0], math.Max(sz[1], sz[2]))
					ctr := []float64{rng.Dyadic(2, 2) + off.V[0]*m, rng.Dyadic(2, 2) + off.V[1]*m, rng.Dyadic(2, 2) + off.V[2]*m}
					sp := &Spec{Dim: 3, Path: "api", Cells: mc,
						BBMin: []float64{ctr[0] - sz[0]/2, ctr[1] - sz[1]/2, ctr[2] - sz[2]/2},
						BBMax: []float64{ctr[0] + sz[0]/2, ctr[1] + sz[1]/2, ctr[2] + sz[2]/2}}
					top := int(math.Ceil(math.Log2(2.02 * float64(mc))))
					sp.Field = genField3(rng, 1<<uint(top), false)
					st.do3(sp, fmt.Sprintf("api3-translated/%s/%s", off.Name, sp.Field.Kind))
				}
				for oi, off := range mk.Offsets2(sign) {
					mc := []int{1, 2, 3, 5, 8, 13, 21, 40, 64, 100}[(oi+rep+rng.Intn(3))%10]
					sz := []float64{pick(rng, 1, 2, 3, 0.75), pick(rng, 1, 2, 1.5)}
					m := math.Max(sz[0], sz[1])
					ctr := []float64{rng.Dyadic(2, 2) + off.V[0]*m, rng.Dyadic(2, 2) + off.V[1]*m}
					sp := &Spec{Dim: 2, Path: "api", Cells: mc,
						BBMin: []float64{ctr[0] - sz[0]/2, ctr[1] - sz[1]/2},
						BBMax: []float64{ctr[0] + sz[0]/2, ctr[1] + sz[1]/2}}
					top := int(math.Ceil(math.Log2(2.02 * float64(mc))))
					sp.Field = genField2(rng, 1<<uint(top), false)
					st.do2(sp, fmt.Sprintf("api2-translated/%s/%s", off.Name, sp.Field.Kind))
				}
			}
		}
	}

	for _, cs := range []*Cases{st.o3, st.o2, st.l3, st.l2} {
		if err := cs.Write(c.Out); err != nil {
			return err
		}
	}
	r.Rule = "a case = one render of one field on one lattice (depth 1..8) by the real processCube/processSquare or public octree/quadtree renderer, compared as a multiset with the evaluation of every finest cell of the same lattice through the real mcToTriangles/msToLines; non-trivial = the exhaustive evaluation emits at least one triangle/segment; distinct = distinct (lattice, field) specification"
	r.Coverage["coq_octree_cases"] = st.o3.Len()
	r.Coverage["coq_quadtree_cases"] = st.o2.Len()
	r.Coverage["coq_lattice_cases"] = st.l3.Len() + st.l2.Len()
	r.Coverage["rejected_tables_not_lipschitz_on_lattice"] = st.reject
	r.Coverage["sdf_evaluations_by_real_renderers"] = st.visited
	r.Coverage["evaluations_saved_by_pruning_vs_scaled_field"] = st.pruned
	r.Coverage["metamorphic_skipped_values_within_snapping_range"] = st.metaSk
	r.Coverage["hdiag_entries_below_exact_half_diagonal"] = st.hdBelow
	r.Coverage["hdiag_entries_above_exact_half_diagonal"] = st.hdAbove
	r.Coverage["hdiag_entries_exact"] = st.hdExact
	r.Trusted = []string{
		"hand-written model coq/Render/Octree.v tied by differential execution (triangles in order, sequence of SDF calls, hdiag table: bit exact), not by translation",
		"float64 rounding is not proved: theorems are over the reals; the float hdiag entries can be an ulp below the exact half diagonal (counted above)",
		"the field is a function of the point (C10); fields are evaluated at lattice points only",
	}
	r.Assumptions = []string{
		"fields 1-Lipschitz: analytic exact distance fields and min/max of them (rounding aside), lookup tables checked 1-Lipschitz on the lattice in exact arithmetic (others rejected and counted)",
		"metamorphic comparison skipped when a non-zero lattice value scaled by 2^-k falls under the 1e-9 snapping scale (epsilon tests are not scale invariant)",
	}
	return nil
}

// library constructors (exact primitives and their min/max combinations)
func libraryShapes(st *state, rng *Rng, c *Ctx) {
	mkShape := func() (sdf.SDF3, string) {
		switch rng.Intn(4) {
		case 0:
			s, _ := sdf.Sphere3D(0.5 + rng.Float())
			return s, "Sphere3D"
		case 1:
			s, _ := sdf.Box3D(v3.Vec{X: 1 + rng.Float(), Y: 1 + rng.Float(), Z: 0.5 + rng.Float()}, 0)
			return s, "Box3D"
		case 2:
			a, _ := sdf.Sphere3D(1)
			b, _ := sdf.Box3D(v3.Vec{X: 1.5, Y: 1.5, Z: 1.5}, 0)
			return sdf.Difference3D(b, a), "Difference3D(Box3D,Sphere3D)"
		}
		a, _ := sdf.Sphere3D(0.75)
		b, _ := sdf.Sphere3D(0.5)
		b = sdf.Transform3D(b, sdf.Translate3d(v3.Vec{X: 0.75 + 0.5*rng.Float(), Y: 0.25}))
		return sdf.Union3D(a, b), "Union3D(Sphere3D,Sphere3D)"
	}
	// the same shapes 2x .. 1000x their size away from the origin along one, two, three axes
	sign := func() float64 { return pick(rng, 1, 1, 1, -1) }
	for rep := 0; rep < TierN(c.Tier, 1, 3, 2); rep++ {
		for _, off := range mk.Offsets3(sign) {
			s, name := mkShape()
			size := s.BoundingBox().Size().MaxComponent()
			d := v3.Vec{X: off.V[0] * size, Y: off.V[1] * size, Z: off.V[2] * size}
			mc := rng.Range(3, TierN(c.Tier, 16, 32, 24))
			st.lib3(mk.Moved3{S: s, D: d}, name, mc, fmt.Sprintf("lib3:%s moved by %v/cells%d", name, d, mc), "lib3-translated/"+off.Name)
		}
	}
	for rep := 0; rep < TierN(c.Tier, 6, 30, 12); rep++ {
		s, name := mkShape()
		mc := rng.Range(3, TierN(c.Tier, 24, 48, 32))
		st.lib3(s, name, mc, fmt.Sprintf("lib3:%s/cells%d/%d", name, mc, rep), "lib3/"+name)
	}
	_ = strings.Join
}

// one library shape through render.ToTriangles and the public octree renderer against the exhaustive evaluation
// of the finest cells of its lattice; the top cube must contain the bounding box of the shape
func (st *state) lib3(s sdf.SDF3, name string, mc int, key, stratum string) {
	r := st.r
	for once := true; once; once = false {
		rec := &sk.Recorder3{S: s}
		tris := render.ToTriangles(rec, render.NewMarchingCubesOctree(mc))
		bb := s.BoundingBox()
		g := sk.Grid3{Origin: bb.ScaleAboutCenter(1.01).Min, Res: 0.5 * (bb.Size().MaxComponent() / float64(mc))}
		if len(rec.P) == 0 {
			r.Violate(key, "C07 the renderer evaluated no point", key)
			continue
		}
		i, _, _, ok := g.Index(rec.P[0])
		levels, ok2 := levelsFromFirst(i)
		if !ok || !ok2 {
			r.Violate(key, "C07 first evaluation is not the centre of the top cube", key)
			continue
		}
		n := 1 << uint(levels-1)
		if msg := mk.CheckScaled3(bb); msg != "" {
			r.Violate(key, "C07 "+msg, key)
		}
		// the finest cells over the whole bounding box belong to "every finest-level cell of the same lattice":
		// the top cube has to contain the bounding box; what the exhaustive evaluation of the lattice continued
		// over the bounding box emits outside the cube is lost
		side := float64(n) * g.Res
		if o := g.Origin; o.X > bb.Min.X || o.Y > bb.Min.Y || o.Z > bb.Min.Z || o.X+side < bb.Max.X || o.Y+side < bb.Max.Y || o.Z+side < bb.Max.Z {
			cell := 2 * g.Res
			m, m2 := 0.0, 0.0
			for _, x := range []float64{o.X - bb.Min.X, o.Y - bb.Min.Y, o.Z - bb.Min.Z} {
				m = math.Max(m, math.Ceil(x/cell))
			}
			for _, x := range []float64{bb.Max.X - o.X - side, bb.Max.Y - o.Y - side, bb.Max.Z - o.Z - side} {
				m2 = math.Max(m2, math.Ceil(x/cell))
			}
			what := fmt.Sprintf("C07 render.ToTriangles(%s, octree %d): the top cube [%v, +%g] does not contain the bounding box [%v,%v] of the shape", name, mc, o, side, bb.Min, bb.Max)
			if n2 := n + 2*int(m+m2); n2 <= 200 {
				g2 := sk.Grid3{Origin: v3.Vec{X: o.X - m*cell, Y: o.Y - m*cell, Z: o.Z - m*cell}, Res: g.Res}
				outside := 0
				all := sk.Uniform3(sk.Sample3(s, g2, n2))
				for _, t := range all {
					c := t[0].Add(t[1]).Add(t[2]).MulScalar(1.0 / 3)
					if c.X < o.X || c.Y < o.Y || c.Z < o.Z || c.X > o.X+side || c.Y > o.Y+side || c.Z > o.Z+side {
						outside++
					}
				}
				what += fmt.Sprintf(": %d of the %d triangles the exhaustive evaluation of the finest cells of this lattice over the bounding box emits lie outside the cube and are lost (%d emitted)", outside, len(all), len(tris))
			}
			r.Violate(key, what, key)
		}
		tab := sk.Sample3(s, g, n)
		ref := sk.Uniform3(tab)
		var got []sdf.Triangle3
		for _, t := range tris {
			got = append(got, *t)
		}
		lost, extra := sk.DiffTris(ref, got)
		r.Case(stratum, key, len(ref) > 0)
		if len(lost) > 0 || len(extra) > 0 {
			r.Violate(key, fmt.Sprintf("C07 render.ToTriangles(%s, octree %d): %d triangles lost, %d extra against the exhaustive evaluation", name, mc, len(lost), len(extra)), key)
		}
		// metamorphic on the library shape
		s2 := &sk.Fn3{F: func(p v3.Vec) float64 { return s.Evaluate(p) / 4096 }, BB: bb}
		tris2 := render.ToTriangles(s2, render.NewMarchingCubesOctree(mc))
		var got2 []sdf.Triangle3
		for _, t := range tris2 {
			got2 = append(got2, *t)
		}
		tiny := false
		for _, v := range tab.Vals {
			if v != 0 && math.Abs(v)/4096 < 1e-9 {
				tiny = true
			}
		}
		if a, b := sk.DiffTris(got, got2); !tiny && (len(a) > 0 || len(b) > 0) {
			r.Violate(key, fmt.Sprintf("C07 metamorphic %s: %d triangles only with f, %d only with f/4096", name, len(a), len(b)), key)
		}
	}
}
