package main

// Further strata of C07:
//   fine     the public quadtree / octree renderer on a lattice with more than 65536 half-cells per
//            axis (a thin shape, so that the exhaustive reference - the finest cells overlapping the
//            bounding box; everything else is outside the shape - stays affordable)
//   readback the distance caches read back at large lattice indices (any packing / hashing of the
//            index that aliases two lattice points returns another point's value)
//   reuse    ONE renderer object renders several shapes in a row (same box, other boxes, boxes 10 times
//            bigger and 4 times smaller, Info-only calls in between); every output must be the
//            exhaustive evaluation of that shape's own lattice (a cache, cell size or level count
//            surviving between calls gives stale values / another lattice)

import (
	"fmt"
	"math"

	"github.com/deadsy/sdfx/render"
	"github.com/deadsy/sdfx/sdf"
	v2 "github.com/deadsy/sdfx/vec/v2"
	"github.com/deadsy/sdfx/vec/v2i"
	v3 "github.com/deadsy/sdfx/vec/v3"
	"github.com/deadsy/sdfx/vec/v3i"
	. "verifharness/kit"
	mk "verifharness/marchkit"
	sk "verifharness/samplekit"
)

func box3(sp *Spec) sdf.Box3 {
	return sdf.Box3{Min: v3.Vec{X: sp.BBMin[0], Y: sp.BBMin[1], Z: sp.BBMin[2]}, Max: v3.Vec{X: sp.BBMax[0], Y: sp.BBMax[1], Z: sp.BBMax[2]}}
}
func box2(sp *Spec) sdf.Box2 {
	return sdf.Box2{Min: v2.Vec{X: sp.BBMin[0], Y: sp.BBMin[1]}, Max: v2.Vec{X: sp.BBMax[0], Y: sp.BBMax[1]}}
}

// lattice of the public octree / quadtree renderer for a bounding box
func grid3(bb sdf.Box3, cells int) sk.Grid3 {
	return sk.Grid3{Origin: bb.ScaleAboutCenter(1.01).Min, Res: 0.5 * (bb.Size().MaxComponent() / float64(cells))}
}
func grid2(bb sdf.Box2, cells int) sk.Grid2 {
	return sk.Grid2{Origin: bb.ScaleAboutCenter(1.01).Min, Res: 0.5 * (bb.Size().MaxComponent() / float64(cells))}
}

// number of levels the public renderer uses for this box: a fresh renderer on a field that is huge
// everywhere evaluates the centre of the top cube only
func probeLevels3(bb sdf.Box3, cells int, g sk.Grid3) (int, string) {
	probe := &sk.Recorder3{S: &sk.Fn3{F: func(v3.Vec) float64 { return 1e300 }, BB: bb}}
	render.NewMarchingCubesOctree(cells).Render(probe, &sk.TriCollector{})
	if len(probe.P) != 1 {
		return 0, fmt.Sprintf("probe render of a far-away field evaluated %d points", len(probe.P))
	}
	i, j, k, ok := g.Index(probe.P[0])
	l, ok2 := levelsFromFirst(i)
	if !ok || !ok2 || i != j || i != k {
		return 0, fmt.Sprintf("first evaluation %v is not the centre of a top cube of the lattice origin %v res %v", probe.P[0], g.Origin, g.Res)
	}
	return l, ""
}
func probeLevels2(bb sdf.Box2, cells int, g sk.Grid2) (int, string) {
	probe := &sk.Recorder2{S: &sk.Fn2{F: func(v2.Vec) float64 { return 1e300 }, BB: bb}}
	render.NewMarchingSquaresQuadtree(cells).Render(probe, &sk.LineCollector{})
	if len(probe.P) != 1 {
		return 0, fmt.Sprintf("probe render of a far-away field evaluated %d points", len(probe.P))
	}
	i, j, ok := g.Index(probe.P[0])
	l, ok2 := levelsFromFirst(i)
	if !ok || !ok2 || i != j {
		return 0, fmt.Sprintf("first evaluation %v is not the centre of a top square of the lattice origin %v res %v", probe.P[0], g.Origin, g.Res)
	}
	return l, ""
}

// even index range of the finest cells overlapping [lo, hi] (two cells of margin)
func cellRange(lo, hi, org, res float64, n int) (int, int) {
	a := int(math.Floor((lo-org)/res)) - 4
	b := int(math.Ceil((hi-org)/res)) + 4
	if a < 0 {
		a = 0
	}
	a -= a % 2
	if b > n {
		b = n
	}
	return a, b
}

// ---------------------------------------------------------------- very fine lattices

func (st *state) fine(sp *Spec, stratum string) {
	r := st.r
	key := sp.key()
	fail := func(what string) { r.Violate(key, "C07 "+what, sp) }
	if sp.Dim == 2 {
		bb := box2(sp)
		g := grid2(bb, sp.Cells)
		if msg := mk.CheckScaled2(bb); msg != "" {
			fail(msg)
		}
		F, err := sp.Field.Build2(g, 0, nil)
		if err != nil {
			fail("bad spec: " + err.Error())
			return
		}
		rec := &sk.Recorder2{S: &sk.Fn2{F: F.F, BB: bb}}
		col := &sk.LineCollector{}
		render.NewMarchingSquaresQuadtree(sp.Cells).Render(rec, col)
		levels, why := probeLevels2(bb, sp.Cells, g)
		if why != "" {
			fail(why)
			return
		}
		n := 1 << uint(levels-1)
		ia, ib := cellRange(bb.Min.X, bb.Max.X, g.Origin.X, g.Res, n)
		ja, jb := cellRange(bb.Min.Y, bb.Max.Y, g.Origin.Y, g.Res, n)
		var ref []sdf.Line2
		for i := ia; i < ib; i += 2 {
			for j := ja; j < jb; j += 2 {
				var ps [4]v2.Vec
				var vs [4]float64
				for c, o := range sk.CornerOff2 {
					ps[c] = g.Point(i+2*o[0], j+2*o[1])
					vs[c] = F.F(ps[c])
				}
				for _, l := range render.VerifMsToLines(ps, vs, 0) {
					ref = append(ref, *l)
				}
			}
		}
		lost, extra := sk.DiffLines(ref, col.L)
		r.Case(stratum, key, len(ref) > 0)
		st.visited += len(rec.P)
		if len(lost) > 0 || len(extra) > 0 {
			fail(fmt.Sprintf("quadtree renderer on a %d-level lattice (%d half-cells per axis, meshCells %d) emitted %d segments, the finest cells overlapping the bounding box emit %d: %d lost, %d extra; field %s",
				levels, n, sp.Cells, len(col.L), len(ref), len(lost), len(extra), F.Name))
		}
		r.Sample(map[string]interface{}{"spec": sp, "levels": levels, "segments": len(col.L), "evaluations": len(rec.P), "reference_cells": (ib - ia) / 2 * ((jb - ja) / 2)})
		return
	}
	bb := box3(sp)
	g := grid3(bb, sp.Cells)
	if msg := mk.CheckScaled3(bb); msg != "" {
		fail(msg)
	}
	F, err := sp.Field.Build3(g, 0, nil)
	if err != nil {
		fail("bad spec: " + err.Error())
		return
	}
	rec := &sk.Recorder3{S: &sk.Fn3{F: F.F, BB: bb}}
	col := &sk.TriCollector{}
	render.NewMarchingCubesOctree(sp.Cells).Render(rec, col)
	levels, why := probeLevels3(bb, sp.Cells, g)
	if why != "" {
		fail(why)
		return
	}
	n := 1 << uint(levels-1)
	ia, ib := cellRange(bb.Min.X, bb.Max.X, g.Origin.X, g.Res, n)
	ja, jb := cellRange(bb.Min.Y, bb.Max.Y, g.Origin.Y, g.Res, n)
	ka, kb := cellRange(bb.Min.Z, bb.Max.Z, g.Origin.Z, g.Res, n)
	var ref []sdf.Triangle3
	for i := ia; i < ib; i += 2 {
		for j := ja; j < jb; j += 2 {
			for k := ka; k < kb; k += 2 {
				var ps [8]v3.Vec
				var vs [8]float64
				for c, o := range sk.CornerOff3 {
					ps[c] = g.Point(i+2*o[0], j+2*o[1], k+2*o[2])
					vs[c] = F.F(ps[c])
				}
				for _, t := range render.VerifMcToTriangles(ps, vs, 0) {
					ref = append(ref, *t)
				}
			}
		}
	}
	lost, extra := sk.DiffTris(ref, col.T)
	r.Case(stratum, key, len(ref) > 0)
	st.visited += len(rec.P)
	if len(lost) > 0 || len(extra) > 0 {
		fail(fmt.Sprintf("octree renderer on a %d-level lattice (%d half-cells per axis, meshCells %d) emitted %d triangles, the finest cells overlapping the bounding box emit %d: %d lost, %d extra; field %s",
			levels, n, sp.Cells, len(col.T), len(ref), len(lost), len(extra), F.Name))
	}
	r.Sample(map[string]interface{}{"spec": sp, "levels": levels, "triangles": len(col.T), "evaluations": len(rec.P)})
}

func (st *state) genFine(rng *Rng, c *Ctx) {
	// quadtree: more than 65536 half-cells per axis needs 18 levels, meshCells >= 32444
	cells2 := []int{33000, 32444 + rng.Intn(30000)}
	if c.Tier != "quick" {
		cells2 = append(cells2, 65600+rng.Intn(1000), 40000+rng.Intn(20000), 33000+rng.Intn(100))
	}
	for q, mc := range cells2 {
		thin := 1e-4 * float64(rng.Range(1, 4)) // a few cells thick
		long := 0.5
		ctr := []float64{rng.Dyadic(2, 3), rng.Dyadic(2, 3)}
		h := []float64{thin, long}
		if q%2 == 1 {
			h = []float64{long, thin}
		}
		var f *sk.Field
		switch rng.Intn(3) {
		case 0:
			f = &sk.Field{Kind: "rect", C: ctr, H: h}
		case 1: // a thin rectangle with a circular bite
			f = &sk.Field{Kind: "diff", A: &sk.Field{Kind: "rect", C: ctr, H: h}, B: &sk.Field{Kind: "circle", C: []float64{ctr[0] + h[0], ctr[1] + h[1]}, R: 2 * thin}}
		default: // two thin rectangles far apart along the long axis of the lattice
			d := []float64{0, 0}
			d[1-q%2] = 0.25
			a := &sk.Field{Kind: "rect", C: []float64{ctr[0] - d[0], ctr[1] - d[1]}, H: []float64{math.Min(h[0], 0.125), math.Min(h[1], 0.125)}}
			b := &sk.Field{Kind: "rect", C: []float64{ctr[0] + d[0], ctr[1] + d[1]}, H: []float64{math.Min(h[0], 0.125), math.Min(h[1], 0.125)}}
			f = &sk.Field{Kind: "union", A: a, B: b}
		}
		sp := &Spec{Dim: 2, Path: "fine", Cells: mc, Field: f,
			BBMin: []float64{ctr[0] - h[0], ctr[1] - h[1]}, BBMax: []float64{ctr[0] + h[0], ctr[1] + h[1]}}
		st.fine(sp, fmt.Sprintf("fine2/levels>=18/%s", f.Kind))
	}
	// octree: a thin rod; 13 levels always, 18 levels (more than 65536 half-cells) once per run
	cells3 := []int{2100 + rng.Intn(1900), 33000 + rng.Intn(200)}
	if c.Tier == "thorough" {
		cells3 = append(cells3, 8200+rng.Intn(8000), 33000+rng.Intn(30000))
	}
	for q, mc := range cells3 {
		thin := 0.5 / float64(mc) * float64(rng.Range(2, 4))
		ctr := []float64{rng.Dyadic(2, 3), rng.Dyadic(2, 3), rng.Dyadic(2, 3)}
		h := []float64{thin, thin, thin}
		h[(q+rng.Intn(3))%3] = 0.5
		var f *sk.Field
		if rng.Bool() {
			f = &sk.Field{Kind: "box", C: ctr, H: h}
		} else {
			top := []float64{ctr[0] + h[0], ctr[1] + h[1], ctr[2] + h[2]}
			f = &sk.Field{Kind: "diff", A: &sk.Field{Kind: "box", C: ctr, H: h}, B: &sk.Field{Kind: "sphere", C: top, R: 2 * thin}}
		}
		sp := &Spec{Dim: 3, Path: "fine", Cells: mc, Field: f,
			BBMin: []float64{ctr[0] - h[0], ctr[1] - h[1], ctr[2] - h[2]}, BBMax: []float64{ctr[0] + h[0], ctr[1] + h[1], ctr[2] + h[2]}}
		st.fine(sp, fmt.Sprintf("fine3/cells%d/%s", mc/1000*1000, f.Kind))
	}
}

// ---------------------------------------------------------------- cache read-back at large indices

func (st *state) readback() {
	r := st.r
	big := []int{0, 1, 2, 255, 256, 1023, 1024, 65535, 65536, 65537, 1 << 17, 1<<20 + 3, 1 << 21, 1<<21 + 1, 1 << 24, 1<<31 - 1, 1 << 31, 1 << 32, 1<<32 + 1, 1<<40 + 5}
	// 2D
	{
		g := sk.Grid2{Origin: v2.Vec{X: -3, Y: 5}, Res: 0.25}
		id := map[v2i.Vec]float64{}
		f := &sk.Fn2{F: func(p v2.Vec) float64 {
			i, j, _ := g.Index(p)
			return id[v2i.Vec{i, j}]
		}}
		var keys []v2i.Vec
		for _, a := range big {
			for _, b := range big {
				k := v2i.Vec{a, b}
				id[k] = float64(len(keys) + 1)
				keys = append(keys, k)
			}
		}
		dc := render.VerifNewDcache2(f, g.Origin, g.Res, 4)
		bad := ""
		for pass := 0; pass < 2 && bad == ""; pass++ {
			for _, k := range keys {
				p, d := dc.Evaluate(k)
				if d != id[k] || p != g.Point(k.X, k.Y) {
					bad = fmt.Sprintf("dcache2.evaluate(%v) pass %d returned value %v at %v, the field value there is %v (the value of lattice point number %v)", k, pass, d, p, id[k], d)
					break
				}
			}
		}
		if bad == "" && dc.CacheLen() != len(keys) {
			bad = fmt.Sprintf("dcache2 holds %d entries after evaluating %d distinct lattice points", dc.CacheLen(), len(keys))
		}
		r.Case("readback/dcache2", "readback2", true)
		if bad != "" {
			r.Violate("readback:dcache2", "C07 "+bad, &Spec{Dim: 2, Path: "readback"})
		}
	}
	// 3D
	{
		g := sk.Grid3{Origin: v3.Vec{X: -3, Y: 5, Z: 0.5}, Res: 0.25}
		id := map[v3i.Vec]float64{}
		f := &sk.Fn3{F: func(p v3.Vec) float64 {
			i, j, k, _ := g.Index(p)
			return id[v3i.Vec{i, j, k}]
		}}
		var keys []v3i.Vec
		sub := []int{0, 1, 1023, 1024, 65535, 65536, 1 << 20, 1 << 21, 1<<21 + 1, 1 << 31, 1 << 32, 1<<42 + 7}
		for _, a := range sub {
			for _, b := range sub {
				for _, cc := range sub {
					k := v3i.Vec{a, b, cc}
					id[k] = float64(len(keys) + 1)
					keys = append(keys, k)
				}
			}
		}
		dc := render.VerifNewDcache3(f, g.Origin, g.Res, 4)
		bad := ""
		for pass := 0; pass < 2 && bad == ""; pass++ {
			for _, k := range keys {
				p, d := dc.Evaluate(k)
				if d != id[k] || p != g.Point(k.X, k.Y, k.Z) {
					bad = fmt.Sprintf("dcache3.evaluate(%v) pass %d returned value %v at %v, the field value there is %v", k, pass, d, p, id[k])
					break
				}
			}
		}
		if bad == "" && dc.CacheLen() != len(keys) {
			bad = fmt.Sprintf("dcache3 holds %d entries after evaluating %d distinct lattice points", dc.CacheLen(), len(keys))
		}
		r.Case("readback/dcache3", "readback3", true)
		if bad != "" {
			r.Violate("readback:dcache3", "C07 "+bad, &Spec{Dim: 3, Path: "readback"})
		}
	}
}

// ---------------------------------------------------------------- one renderer object, several renders

// a panic of the renderer on a history of valid models is a failing input, not a harness error
func noPanic(f func()) (msg string) {
	defer func() {
		if e := recover(); e != nil {
			msg = fmt.Sprint(e)
		}
	}()
	f()
	return ""
}

func (st *state) reuse(sp *Spec, stratum string) {
	r := st.r
	key := sp.key()
	var o3, u3 render.Render3
	var q2, u2 render.Render2
	switch {
	case sp.Dim == 3 && sp.Renderer == "octree":
		o3 = render.NewMarchingCubesOctree(sp.Cells)
	case sp.Dim == 3 && sp.Renderer == "uniform":
		u3 = render.NewMarchingCubesUniform(sp.Cells)
	case sp.Dim == 2 && sp.Renderer == "quadtree":
		q2 = render.NewMarchingSquaresQuadtree(sp.Cells)
	case sp.Dim == 2 && sp.Renderer == "uniform":
		u2 = render.NewMarchingSquaresUniform(sp.Cells)
	default:
		r.Violate(key, "C07 bad reuse spec", sp)
		return
	}
	for q := range sp.Seq {
		it := &sp.Seq[q]
		fail := func(what string) {
			r.Violate(fmt.Sprintf("%s#%d", key, q), fmt.Sprintf("C07 render %d of %d by one %s object (meshCells %d): %s", q+1, len(sp.Seq), sp.Renderer, sp.Cells, what), sp)
		}
		if sp.Dim == 3 {
			bb := box3(it)
			g := grid3(bb, sp.Cells)
			if msg := mk.CheckScaled3(bb); msg != "" {
				fail(msg)
			}
			F, err := it.Field.Build3(g, 0, nil)
			if err != nil {
				fail("bad spec: " + err.Error())
				return
			}
			s := &sk.Fn3{F: F.F, BB: bb}
			{
				// Info is what the output routines call right before Render; it must not leave anything behind
				// for this or other models
				used := u3
				if o3 != nil {
					used = o3
				}
				used.Info(s)
				if it.InfoOnly {
					continue
				}
			}
			var got, ref []sdf.Triangle3
			if o3 != nil {
				rec := &sk.Recorder3{S: s}
				col := &sk.TriCollector{}
				if msg := noPanic(func() { o3.Render(rec, col) }); msg != "" {
					fail("the renderer panicked: " + msg)
					continue
				}
				got = col.T
				levels, why := probeLevels3(bb, sp.Cells, g)
				if why != "" {
					fail(why)
					continue
				}
				for e, p := range rec.P {
					if _, _, _, ok := g.Index(p); !ok {
						fail(fmt.Sprintf("evaluation %d at %v is not a point of this shape's lattice (origin %v res %v)", e, p, g.Origin, g.Res))
						break
					}
				}
				ref = sk.Uniform3(sk.Sample3(s, g, 1<<uint(levels-1)))
			} else {
				col, col2 := &sk.TriCollector{}, &sk.TriCollector{}
				if msg := noPanic(func() { u3.Render(s, col) }); msg != "" {
					fail("the renderer panicked: " + msg)
					continue
				}
				render.NewMarchingCubesUniform(sp.Cells).Render(s, col2)
				got, ref = col.T, col2.T
			}
			lost, extra := sk.DiffTris(ref, got)
			r.Case(stratum, fmt.Sprintf("%s#%d", key, q), len(ref) > 0)
			if len(lost) > 0 || len(extra) > 0 {
				fail(fmt.Sprintf("%d triangles, the reference (exhaustive evaluation of this shape's own lattice / a fresh renderer) has %d: %d lost, %d extra; field %s", len(got), len(ref), len(lost), len(extra), F.Name))
			}
			continue
		}
		bb := box2(it)
		g := grid2(bb, sp.Cells)
		if msg := mk.CheckScaled2(bb); msg != "" {
			fail(msg)
		}
		F, err := it.Field.Build2(g, 0, nil)
		if err != nil {
			fail("bad spec: " + err.Error())
			return
		}
		s := &sk.Fn2{F: F.F, BB: bb}
		{
			used := u2
			if q2 != nil {
				used = q2
			}
			used.Info(s)
			if it.InfoOnly {
				continue
			}
		}
		var got, ref []sdf.Line2
		if q2 != nil {
			rec := &sk.Recorder2{S: s}
			col := &sk.LineCollector{}
			if msg := noPanic(func() { q2.Render(rec, col) }); msg != "" {
				fail("the renderer panicked: " + msg)
				continue
			}
			got = col.L
			levels, why := probeLevels2(bb, sp.Cells, g)
			if why != "" {
				fail(why)
				continue
			}
			for e, p := range rec.P {
				if _, _, ok := g.Index(p); !ok {
					fail(fmt.Sprintf("evaluation %d at %v is not a point of this shape's lattice (origin %v res %v)", e, p, g.Origin, g.Res))
					break
				}
			}
			ref = sk.Uniform2(sk.Sample2(s, g, 1<<uint(levels-1)))
		} else {
			col, col2 := &sk.LineCollector{}, &sk.LineCollector{}
			if msg := noPanic(func() { u2.Render(s, col) }); msg != "" {
				fail("the renderer panicked: " + msg)
				continue
			}
			render.NewMarchingSquaresUniform(sp.Cells).Render(s, col2)
			got, ref = col.L, col2.L
		}
		lost, extra := sk.DiffLines(ref, got)
		r.Case(stratum, fmt.Sprintf("%s#%d", key, q), len(ref) > 0)
		if len(lost) > 0 || len(extra) > 0 {
			fail(fmt.Sprintf("%d segments, the reference (exhaustive evaluation of this shape's own lattice / a fresh renderer) has %d: %d lost, %d extra; field %s", len(got), len(ref), len(lost), len(extra), F.Name))
		}
	}
}

func (st *state) genReuse(rng *Rng, c *Ctx) {
	for rep := 0; rep < TierN(c.Tier, 2, 8, 4); rep++ {
		for _, rd := range []string{"octree", "uniform"} {
			mc := rng.Range(4, 14)
			// A and B share the bounding box (same lattice, different shapes); C has another box; D is A again
			ctr := []float64{rng.Dyadic(2, 2), rng.Dyadic(2, 2), rng.Dyadic(2, 2)}
			mn, mx := []float64{ctr[0] - 1, ctr[1] - 1, ctr[2] - 1}, []float64{ctr[0] + 1, ctr[1] + 1, ctr[2] + 1}
			a := Spec{BBMin: mn, BBMax: mx, Field: &sk.Field{Kind: "sphere", C: ctr, R: 0.5 + 0.45*rng.Float()}}
			b := Spec{BBMin: mn, BBMax: mx, Field: &sk.Field{Kind: "box", C: []float64{ctr[0] + 0.125, ctr[1], ctr[2] - 0.125}, H: []float64{0.25 + 0.5*rng.Float(), 0.25 + 0.5*rng.Float(), 0.5}}}
			c2 := []float64{ctr[0] + 0.5, ctr[1] - 0.25, ctr[2] + 1}
			cc := Spec{BBMin: []float64{c2[0] - 1.5, c2[1] - 1, c2[2] - 0.75}, BBMax: []float64{c2[0] + 1.5, c2[1] + 1, c2[2] + 0.75},
				Field: &sk.Field{Kind: "union", A: &sk.Field{Kind: "sphere", C: c2, R: 0.6}, B: &sk.Field{Kind: "sphere", C: []float64{c2[0] + 0.7, c2[1], c2[2]}, R: 0.4 + 0.2*rng.Float()}}}
			sp := &Spec{Dim: 3, Path: "reuse", Renderer: rd, Cells: mc, Seq: []Spec{a, b, cc, a}}
			st.reuse(sp, "reuse3/"+rd)
			// models of very different absolute size, Info-only calls in between: D is 10 times, E a quarter of A
			info := func(x Spec) Spec { x.InfoOnly = true; return x }
			c3 := []float64{ctr[0] * 10, ctr[1]*10 + 3, ctr[2] * 10}
			d := Spec{BBMin: []float64{c3[0] - 10, c3[1] - 7.5, c3[2] - 10}, BBMax: []float64{c3[0] + 10, c3[1] + 7.5, c3[2] + 10},
				Field: &sk.Field{Kind: "diff", A: &sk.Field{Kind: "box", C: c3, H: []float64{8, 6, 7}}, B: &sk.Field{Kind: "sphere", C: []float64{c3[0] + 8, c3[1] + 6, c3[2]}, R: 5}}}
			c4 := []float64{ctr[0] - 0.5, ctr[1] + 0.125, ctr[2]}
			e := Spec{BBMin: []float64{c4[0] - 0.25, c4[1] - 0.25, c4[2] - 0.25}, BBMax: []float64{c4[0] + 0.25, c4[1] + 0.25, c4[2] + 0.25},
				Field: &sk.Field{Kind: "sphere", C: c4, R: 0.125 + 0.1*rng.Float()}}
			sp = &Spec{Dim: 3, Path: "reuse", Renderer: rd, Cells: mc, Seq: []Spec{info(d), a, d, e, info(a), cc, info(e), info(d), b}}
			st.reuse(sp, "reuse3-sizes/"+rd)
		}
		for _, rd := range []string{"quadtree", "uniform"} {
			mc := rng.Range(4, 60)
			ctr := []float64{rng.Dyadic(2, 2), rng.Dyadic(2, 2)}
			mn, mx := []float64{ctr[0] - 1, ctr[1] - 1}, []float64{ctr[0] + 1, ctr[1] + 1}
			a := Spec{BBMin: mn, BBMax: mx, Field: &sk.Field{Kind: "circle", C: ctr, R: 0.5 + 0.45*rng.Float()}}
			b := Spec{BBMin: mn, BBMax: mx, Field: &sk.Field{Kind: "rect", C: []float64{ctr[0] + 0.125, ctr[1]}, H: []float64{0.25 + 0.5*rng.Float(), 0.25 + 0.5*rng.Float()}}}
			c2 := []float64{ctr[0] + 0.5, ctr[1] - 0.25}
			cc := Spec{BBMin: []float64{c2[0] - 1.5, c2[1] - 1}, BBMax: []float64{c2[0] + 1.5, c2[1] + 1},
				Field: &sk.Field{Kind: "union", A: &sk.Field{Kind: "circle", C: c2, R: 0.6}, B: &sk.Field{Kind: "circle", C: []float64{c2[0] + 0.7, c2[1]}, R: 0.4 + 0.2*rng.Float()}}}
			sp := &Spec{Dim: 2, Path: "reuse", Renderer: rd, Cells: mc, Seq: []Spec{a, b, cc, a}}
			st.reuse(sp, "reuse2/"+rd)
			info := func(x Spec) Spec { x.InfoOnly = true; return x }
			c3 := []float64{ctr[0] * 10, ctr[1]*10 + 3}
			d := Spec{BBMin: []float64{c3[0] - 10, c3[1] - 7.5}, BBMax: []float64{c3[0] + 10, c3[1] + 7.5},
				Field: &sk.Field{Kind: "diff", A: &sk.Field{Kind: "rect", C: c3, H: []float64{8, 6}}, B: &sk.Field{Kind: "circle", C: []float64{c3[0] + 8, c3[1] + 6}, R: 5}}}
			c4 := []float64{ctr[0] - 0.5, ctr[1] + 0.125}
			e := Spec{BBMin: []float64{c4[0] - 0.25, c4[1] - 0.25}, BBMax: []float64{c4[0] + 0.25, c4[1] + 0.25},
				Field: &sk.Field{Kind: "circle", C: c4, R: 0.125 + 0.1*rng.Float()}}
			sp = &Spec{Dim: 2, Path: "reuse", Renderer: rd, Cells: mc, Seq: []Spec{info(d), a, d, e, info(a), cc, info(e), info(d), b}}
			st.reuse(sp, "reuse2-sizes/"+rd)
		}
	}
}
