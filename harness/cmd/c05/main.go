package main

import (
	"verifharness/tabgen"
	. "verifharness/kit"
)

func main() {
	Main("C05", func(c *Ctx, r *Report) error { return nil }, func(c *Ctx) (string, []byte, error) { return tabgen.Gen(c.Repo) })
}
