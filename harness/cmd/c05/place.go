package main

// Strata added after mutation testing, round 4 (marchkit/place.go):
//   translated   the analytic shapes moved 2x .. 1000x their size away from the origin along one, two, three
//                axes: closed, no identical vertices, positive volume, and the same enclosed volume as the
//                render of the shape where it was built (the mesh moves with the model)
//   on-lattice   blocks with through-holes, L-shapes, notches, pockets, stairs whose inner faces lie on layers
//                of the lattice the renderer samples (learned from a render of a constant field): whole rows
//                of lattice points with value exactly 0 along edges and corners of the solid

import (
	"fmt"
	"math"

	"github.com/deadsy/sdfx/render"
	"github.com/deadsy/sdfx/sdf"
	v3 "github.com/deadsy/sdfx/vec/v3"
	. "verifharness/kit"
	mk "verifharness/marchkit"
	sk "verifharness/samplekit"
)

func newR3(rname string, cells int) render.Render3 {
	if rname == "octree" {
		return render.NewMarchingCubesOctree(cells)
	}
	return render.NewMarchingCubesUniform(cells)
}

func placement3(c *Ctx, r *Report, rng *Rng) {
	shapes := analyticShapes()
	sign := func() float64 {
		if rng.Intn(4) == 0 {
			return -1
		}
		return 1
	}
	// ---- translated
	vol0 := map[string]float64{}
	for rep := 0; rep < TierN(c.Tier, 1, 3, 2); rep++ {
		for oi, off := range mk.Offsets3(sign) {
			sh := shapes[(oi+7*rep)%len(shapes)]
			if sh.name == "sphere-radius-1e-4" {
				sh = shapes[0]
			}
			cells := []int{5, 8, 13, 20}[(oi/len(shapes)+oi+rep)%4]
			size := sh.s.BoundingBox().Size().MaxComponent()
			d := v3.Vec{X: off.V[0] * size, Y: off.V[1] * size, Z: off.V[2] * size}
			for _, rname := range []string{"uniform", "octree"} {
				id0 := fmt.Sprintf("%s/%s/%d", sh.name, rname, cells)
				if _, ok := vol0[id0]; !ok {
					vol0[id0] = mk.CheckMesh3(render.ToTriangles(sh.s, newR3(rname, cells)), 1e-6*size/float64(cells)).Volume
				}
				ts := render.ToTriangles(mk.Moved3{S: sh.s, D: d}, newR3(rname, cells))
				h := size / float64(cells)
				key := fmt.Sprintf("moved3/%s/%s/%d/%v", sh.name, rname, cells, d)
				input := map[string]interface{}{"shape": sh.name, "moved_by": d, "renderer": rname, "cells": cells}
				r.Case("translated/"+off.Name+"/"+rname, key, len(ts) > 0)
				if len(ts) == 0 {
					r.Violate(key, "no triangle emitted for a solid shape", input)
					continue
				}
				res := mk.CheckMesh3(ts, 1e-6*h)
				meshOracles(r, key, res, true, input)
				// both meshes lie within one cell of the same surface (the lattice phase may differ: far from the
				// origin size/cell is no longer an exact integer and ceil adds a layer): the enclosed volumes differ
				// by at most a shell of two cells
				area := 0.0
				for _, t := range ts {
					area += 0.5 * t[1].Sub(t[0]).Cross(t[2].Sub(t[0])).Length()
				}
				if v0 := vol0[id0]; math.Abs(res.Volume-v0) > 2*h*area {
					r.Violate(key, fmt.Sprintf("the mesh of the moved model encloses volume %g, the mesh of the model where it was built %g (%d triangles, area %g, cell %g): more than a shell of two cells apart, the mesh does not move with the model", res.Volume, v0, res.Triangles, area, h), input)
				}
			}
		}
	}
	// ---- features on layers of the sampled lattice
	offs := mk.Offsets3(sign)
	for rep := 0; rep < TierN(c.Tier, 4, 16, 8); rep++ {
		for _, rname := range []string{"uniform", "octree"} {
			cells := []int{8, 10, 12, 16}[rng.Intn(4)]
			var ctr, half v3.Vec
			regime := "general"
			if rep%2 == 0 {
				regime = "dyadic"
				inc := []float64{1, 0.5, 0.25, 2}[rng.Intn(4)]
				s := 0.5 * float64(cells) * inc
				half = v3.Vec{X: s, Y: s, Z: s}
				if rep%4 == 2 {
					half.Y -= inc
					half.Z -= 2 * inc
				}
				ctr = v3.Vec{X: inc * float64(rng.Range(-4, 4)), Y: inc * float64(rng.Range(-4, 4)), Z: inc * float64(rng.Range(-4, 4))}
			} else {
				s := rng.Uniform(0.5, 5)
				half = v3.Vec{X: s, Y: s * rng.Uniform(0.7, 1), Z: s * rng.Uniform(0.7, 1)}
				ctr = v3.Vec{X: rng.Uniform(-2, 2), Y: rng.Uniform(-2, 2), Z: rng.Uniform(-2, 2)}
			}
			if rep%3 == 1 {
				off := offs[rng.Intn(len(offs))]
				ctr = ctr.Add(v3.Vec{X: off.V[0] * 2 * half.X, Y: off.V[1] * 2 * half.X, Z: off.V[2] * 2 * half.X})
				regime += "/translated"
			}
			bb := sdf.Box3{Min: ctr.Sub(half), Max: ctr.Add(half)}
			h := 2 * half.X / float64(cells)
			lat, err := mk.Learn3(bb, newR3(rname, cells), 1e-3*h, rname == "octree")
			if err != nil {
				r.Violate(fmt.Sprintf("learn3/%s/%v/%d", rname, bb, cells), fmt.Sprintf("%s renderer with %d cells on bounding box %v of a constant field: %v", rname, cells, bb, err),
					map[string]interface{}{"renderer": rname, "bounding_box": bb, "cells": cells})
				continue
			}
			mag := math.Max(bb.Min.Abs().MaxComponent(), bb.Max.Abs().MaxComponent())
			jitter := func() float64 {
				if regime == "dyadic" || mag > 50 || rng.Intn(2) == 0 {
					return 0
				}
				return []float64{1e-13, -1e-13, 4e-13, -4e-13}[rng.Intn(4)]
			}
			fs := mk.FeaturesOnLattice3(lat.X, lat.Y, lat.Z, bb, rng.Intn, jitter)
			per := TierN(c.Tier, 4, len(fs), 6)
			for q, k := 0, rng.Intn(len(fs)+1); q < per && q < len(fs); q, k = q+1, k+1 {
				f := fs[k%len(fs)]
				F, err := f.F.Build3(sk.Grid3{Res: 1}, 0, nil)
				if err != nil {
					continue
				}
				ts := render.ToTriangles(&sk.Fn3{F: F.F, BB: bb}, newR3(rname, cells))
				key := fmt.Sprintf("onlattice3/%s/%d/%v/%s", rname, cells, bb, f.F)
				input := map[string]interface{}{"renderer": rname, "cells": cells, "bounding_box": bb, "field": f.F, "shape": f.Name}
				r.Case("on-lattice/"+regime+"/"+rname+"/"+f.Name, key, len(ts) > 0)
				if len(ts) == 0 {
					r.Violate(key, "no triangle emitted for a solid shape", input)
					continue
				}
				meshOracles(r, key, mk.CheckMesh3(ts, 1e-6*h), true, input)
			}
		}
	}
}
