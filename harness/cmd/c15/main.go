package main

// C15: 3MF, DXF and SVG exports contain exactly the supplied geometry.
// Model: coq/Io/Export.v.  The real To3MF/ToDXF/ToSVG/SaveDXF/SaveSVG (and the DXF
// object API) write files from scripted renderers; the files are read back with
// independent readers (archive/zip + encoding/xml, a line parser for DXF) and with
// the libraries' own readers (go3mf.OpenReader, dxf.FromFile); the observables go
// into cases files compared with the Gallina model inside coqc, and are checked
// directly against the property text here (exact decimal rounding with math/big).

import (
	"archive/zip"
	"bufio"
	"bytes"
	"crypto/sha1"
	"encoding/json"
	"encoding/xml"
	"fmt"
	"io"
	"math"
	"math/big"
	"os"
	"path/filepath"
	"regexp"
	"sort"
	"strconv"
	"strings"
	"time"

	"github.com/deadsy/sdfx/render"
	"github.com/deadsy/sdfx/sdf"
	v2 "github.com/deadsy/sdfx/vec/v2"
	v3 "github.com/deadsy/sdfx/vec/v3"
	"github.com/hpinc/go3mf"
	"github.com/yofu/dxf"
	"github.com/yofu/dxf/entity"
	"verifharness/iogen"
	. "verifharness/kit"
)

func main() {
	if len(os.Args) >= 2 && os.Args[1] == "hist" { // one history of exports in a fresh process (hist.go)
		histMain()
		return
	}
	Main("C15", checkC15, stateGen, iogen.Gen)
}

// ------------------------------------------------------------------ inputs

type P3 [3]float64
type Tri [3]P3
type Seg [2][2]float64

// scripted renderers: Write the given chunks in order, then Close (what every renderer in /repo does)
// An optional hook runs from inside Render once `at` chunks have been written (re-entrant exports).
type script3 struct {
	chunks [][]Tri
	at     int
	hook   func()
}

func (s *script3) Info(sdf.SDF3) string { return "scripted" }
func (s *script3) Render(_ sdf.SDF3, out sdf.Triangle3Writer) {
	for i, ch := range s.chunks {
		if s.hook != nil && i == s.at {
			s.hook()
		}
		ts := make([]*sdf.Triangle3, len(ch))
		for i, t := range ch {
			ts[i] = &sdf.Triangle3{v3.Vec{X: t[0][0], Y: t[0][1], Z: t[0][2]}, v3.Vec{X: t[1][0], Y: t[1][1], Z: t[1][2]}, v3.Vec{X: t[2][0], Y: t[2][1], Z: t[2][2]}}
		}
		out.Write(ts)
	}
	if s.hook != nil && s.at >= len(s.chunks) {
		s.hook()
	}
	out.Close()
}

type script2 struct {
	chunks [][]Seg
	at     int
	hook   func()
}

func (s *script2) Info(sdf.SDF2) string { return "scripted" }
func (s *script2) Render(_ sdf.SDF2, out sdf.Line2Writer) {
	for i, ch := range s.chunks {
		if s.hook != nil && i == s.at {
			s.hook()
		}
		out.Write(toLines(ch))
	}
	if s.hook != nil && s.at >= len(s.chunks) {
		s.hook()
	}
	out.Close()
}
func toLines(ch []Seg) []*sdf.Line2 {
	ls := make([]*sdf.Line2, len(ch))
	for i, l := range ch {
		ls[i] = &sdf.Line2{v2.Vec{X: l[0][0], Y: l[0][1]}, v2.Vec{X: l[1][0], Y: l[1][1]}}
	}
	return ls
}

func flatT(ch [][]Tri) (o []Tri) {
	for _, c := range ch {
		o = append(o, c...)
	}
	return
}
func flatS(ch [][]Seg) (o []Seg) {
	for _, c := range ch {
		o = append(o, c...)
	}
	return
}

// the To* functions print a progress line; keep the harness output clean
func quiet(f func()) {
	old := os.Stdout
	if dn, err := os.OpenFile(os.DevNull, os.O_WRONLY, 0); err == nil {
		os.Stdout = dn
		defer func() { os.Stdout = old; dn.Close() }()
	}
	f()
}

// ------------------------------------------------------------------ exact decimals

var reDec = map[int]*regexp.Regexp{}

func decRe(d int) *regexp.Regexp {
	if r, ok := reDec[d]; ok {
		return r
	}
	r := regexp.MustCompile(fmt.Sprintf(`^-?[0-9]+\.[0-9]{%d}$`, d))
	reDec[d] = r
	return r
}

// decInt parses a fixed-point decimal text with exactly d decimals into the integer text*10^d
func decInt(s string, d int) (*big.Int, bool) {
	if !decRe(d).MatchString(s) {
		return nil, false
	}
	n, ok := new(big.Int).SetString(strings.Replace(s, ".", "", 1), 10)
	return n, ok
}

// roundHE returns x*10^d rounded half to even (exact arithmetic)
func roundHE(x *big.Rat, d int) *big.Int {
	sc := new(big.Rat).SetInt(new(big.Int).Exp(big.NewInt(10), big.NewInt(int64(d)), nil))
	y := new(big.Rat).Mul(x, sc)
	fl := new(big.Int).Div(y.Num(), y.Denom()) // Euclidean: floor for positive denominators
	fr := new(big.Rat).Sub(y, new(big.Rat).SetInt(fl))
	switch fr.Cmp(big.NewRat(1, 2)) {
	case -1:
		return fl
	case 1:
		return fl.Add(fl, big.NewInt(1))
	}
	if fl.Bit(0) == 0 {
		return fl
	}
	return fl.Add(fl, big.NewInt(1))
}
func rat(x float64) *big.Rat { return new(big.Rat).SetFloat64(x) }

func zterm(n *big.Int) string {
	if n.Sign() < 0 {
		return "(" + n.String() + ")"
	}
	return n.String()
}

// ------------------------------------------------------------------ keys, terms

func keyOf(kind string, v interface{}) string {
	b, _ := json.Marshal(v)
	if len(b) <= 200 {
		return kind + ":" + string(b)
	}
	return fmt.Sprintf("%s:sha1:%x", kind, sha1.Sum(b))
}

func q3term(p P3) string { return fmt.Sprintf("(%s, %s, %s)", CQ(p[0]), CQ(p[1]), CQ(p[2])) }
func triTerm(t Tri) string {
	return fmt.Sprintf("(%s, %s, %s)", q3term(t[0]), q3term(t[1]), q3term(t[2]))
}
func triChunksTerm(ch [][]Tri) string {
	bs := make([]string, len(ch))
	for i, c := range ch {
		ts := make([]string, len(c))
		for j, t := range c {
			ts[j] = triTerm(t)
		}
		bs[i] = CList(ts)
	}
	return CList(bs)
}
func segTerm(l Seg) string {
	return fmt.Sprintf("((%s, %s), (%s, %s))", CQ(l[0][0]), CQ(l[0][1]), CQ(l[1][0]), CQ(l[1][1]))
}
func segChunksTerm(ch [][]Seg) string {
	bs := make([]string, len(ch))
	for i, c := range ch {
		ts := make([]string, len(c))
		for j, t := range c {
			ts[j] = segTerm(t)
		}
		bs[i] = CList(ts)
	}
	return CList(bs)
}

// xmlOneDocument decodes the root element into v and insists that nothing but white space, comments and
// processing instructions follows it (encoding/xml's Unmarshal stops reading at the end of the root element).
func xmlOneDocument(b []byte, v interface{}) error {
	d := xml.NewDecoder(bytes.NewReader(b))
	if err := d.Decode(v); err != nil {
		return err
	}
	for {
		tok, err := d.Token()
		if err == io.EOF {
			return nil
		}
		if err != nil {
			return fmt.Errorf("after the root element: %v", err)
		}
		switch t := tok.(type) {
		case xml.CharData:
			if len(bytes.TrimSpace(t)) != 0 {
				return fmt.Errorf("text after the end of the root element: %.40q", string(t))
			}
		case xml.Comment, xml.ProcInst:
		default:
			return fmt.Errorf("markup after the end of the root element")
		}
	}
}

// ------------------------------------------------------------------ 3MF

type rawModel struct {
	Unit    string `xml:"unit,attr"`
	Objects []struct {
		ID     string `xml:"id,attr"`
		Type   string `xml:"type,attr"`
		Meshes []struct {
			Vertices []struct {
				X string `xml:"x,attr"`
				Y string `xml:"y,attr"`
				Z string `xml:"z,attr"`
			} `xml:"vertices>vertex"`
			Triangles []struct {
				V1 string `xml:"v1,attr"`
				V2 string `xml:"v2,attr"`
				V3 string `xml:"v3,attr"`
			} `xml:"triangles>triangle"`
		} `xml:"mesh"`
	} `xml:"resources>object"`
	Items []struct {
		ObjectID string `xml:"objectid,attr"`
	} `xml:"build>item"`
}

type mfObs struct {
	verts [][3]*big.Int // units of 1e-4, from the text of the file
	tris  [][3]int
}

// read3MFRaw: zip + XML, nothing from go3mf
func read3MFRaw(path string) (*mfObs, []string) {
	var bad []string
	zr, err := zip.OpenReader(path)
	if err != nil {
		return nil, []string{"file is not a readable zip archive: " + err.Error()}
	}
	defer zr.Close()
	var part *zip.File
	nmodel := 0
	for _, f := range zr.File {
		if strings.HasSuffix(strings.ToLower(f.Name), ".model") {
			part = f
			nmodel++
		}
	}
	if part == nil || nmodel != 1 {
		return nil, []string{fmt.Sprintf("%d model parts in the package", nmodel)}
	}
	rc, err := part.Open()
	if err != nil {
		return nil, []string{err.Error()}
	}
	b, err := io.ReadAll(rc)
	rc.Close()
	if err != nil {
		return nil, []string{err.Error()}
	}
	var m rawModel
	if err := xmlOneDocument(b, &m); err != nil {
		return nil, []string{"model part is not well-formed XML: " + err.Error()}
	}
	if m.Unit != "millimeter" {
		bad = append(bad, fmt.Sprintf("model unit is %q, not millimeter", m.Unit))
	}
	if len(m.Objects) != 1 || len(m.Objects[0].Meshes) != 1 {
		return nil, append(bad, fmt.Sprintf("%d objects in the file (one mesh object expected)", len(m.Objects)))
	}
	o := m.Objects[0]
	if o.Type != "model" && o.Type != "" { // the attribute defaults to "model"
		bad = append(bad, fmt.Sprintf("object type %q", o.Type))
	}
	if len(m.Items) != 1 || m.Items[0].ObjectID != o.ID {
		bad = append(bad, "the build section does not consist of one item referring to the object")
	}
	obs := &mfObs{}
	for i, v := range o.Meshes[0].Vertices {
		var p [3]*big.Int
		for k, s := range []string{v.X, v.Y, v.Z} {
			n, ok := decInt(s, 4)
			if !ok {
				return nil, append(bad, fmt.Sprintf("vertex %d coordinate %q is not a 4-decimal number", i, s))
			}
			p[k] = n
		}
		obs.verts = append(obs.verts, p)
	}
	for i, t := range o.Meshes[0].Triangles {
		var ix [3]int
		for k, s := range []string{t.V1, t.V2, t.V3} {
			n, err := strconv.Atoi(s)
			if err != nil || n < 0 {
				return nil, append(bad, fmt.Sprintf("triangle %d index %q", i, s))
			}
			ix[k] = n
		}
		obs.tris = append(obs.tris, ix)
	}
	return obs, bad
}

func f32key(p P3) [3]float32 {
	k := [3]float32{float32(p[0]), float32(p[1]), float32(p[2])}
	for i := range k {
		if k[i] == 0 {
			k[i] = 0 // -0 and +0 are the same vertex
		}
	}
	return k
}

// check3MF writes the triangles with To3MF and checks the file against the property text.
func check3MF(dir string, chunks [][]Tri) (obs *mfObs, bad []string) {
	path := filepath.Join(dir, "t.3mf")
	os.Remove(path)
	quiet(func() { render.To3MF(nil, path, &script3{chunks: chunks}) })
	return verify3MF(path, flatT(chunks))
}

// verify3MF reads a 3MF file back and checks it against the property text for the supplied triangles.
func verify3MF(path string, in []Tri) (obs *mfObs, bad []string) {
	obs, bad = read3MFRaw(path)
	if obs == nil {
		return nil, bad
	}
	// the library's own reader must see the same thing
	var m go3mf.Model
	if r, err := go3mf.OpenReader(path); err != nil {
		bad = append(bad, "go3mf.OpenReader: "+err.Error())
	} else {
		if err := r.Decode(&m); err != nil {
			bad = append(bad, "go3mf decode: "+err.Error())
		}
		r.Close()
		if m.Units != go3mf.UnitMillimeter {
			bad = append(bad, "go3mf reader: unit is "+m.Units.String())
		}
		if len(m.Resources.Objects) != 1 || m.Resources.Objects[0].Mesh == nil || len(m.Build.Items) != 1 {
			bad = append(bad, "go3mf reader: not one mesh object with one build item")
		} else {
			mesh := m.Resources.Objects[0].Mesh
			if len(mesh.Vertices.Vertex) != len(obs.verts) || len(mesh.Triangles.Triangle) != len(obs.tris) {
				bad = append(bad, "go3mf reader and XML reader disagree on the counts")
			} else {
				for i, v := range mesh.Vertices.Vertex {
					for k := 0; k < 3; k++ {
						f, _ := new(big.Rat).SetFrac(obs.verts[i][k], big.NewInt(10000)).Float32()
						if f != v[k] {
							bad = append(bad, fmt.Sprintf("go3mf reader and XML reader disagree on vertex %d", i))
						}
					}
				}
				for i, t := range mesh.Triangles.Triangle {
					if [3]int{int(t.V1), int(t.V2), int(t.V3)} != obs.tris[i] {
						bad = append(bad, fmt.Sprintf("go3mf reader and XML reader disagree on triangle %d", i))
					}
				}
			}
		}
	}
	// triangles are the inputs in order, winding preserved, coordinates = float32, 4 decimals
	if len(obs.tris) != len(in) {
		bad = append(bad, fmt.Sprintf("%d triangles in the file for %d supplied", len(obs.tris), len(in)))
		return
	}
	first := map[[3]float32]int{}
	for i, t := range in {
		for k := 0; k < 3; k++ {
			ix := obs.tris[i][k]
			if ix >= len(obs.verts) {
				bad = append(bad, fmt.Sprintf("triangle %d refers to vertex %d of %d", i, ix, len(obs.verts)))
				return
			}
			for a := 0; a < 3; a++ {
				want := roundHE(rat(float64(float32(t[k][a]))), 4)
				if want.Cmp(obs.verts[ix][a]) != 0 {
					bad = append(bad, fmt.Sprintf("triangle %d corner %d axis %d: file has %s e-4, supplied %v (float32 %v, %s e-4)",
						i, k, a, obs.verts[ix][a], t[k][a], float32(t[k][a]), want))
					return
				}
			}
			fk := f32key(t[k])
			if j, ok := first[fk]; ok && j != ix {
				bad = append(bad, fmt.Sprintf("the same vertex %v is stored twice (indices %d and %d)", fk, j, ix))
				return
			} else if !ok {
				first[fk] = ix
			}
		}
	}
	used := map[int]bool{}
	for _, ix := range first {
		used[ix] = true
	}
	if len(used) != len(obs.verts) {
		bad = append(bad, fmt.Sprintf("%d vertices in the file, %d referenced by the triangles", len(obs.verts), len(used)))
	}
	return
}

func mfCaseTerm(id int, chunks [][]Tri, obs *mfObs) string {
	vs := make([]string, len(obs.verts))
	for i, v := range obs.verts {
		vs[i] = fmt.Sprintf("(%s, %s, %s)", zterm(v[0]), zterm(v[1]), zterm(v[2]))
	}
	ts := make([]string, len(obs.tris))
	for i, t := range obs.tris {
		ts[i] = fmt.Sprintf("(%d, %d, %d)%%N", t[0], t[1], t[2])
	}
	return fmt.Sprintf("(%d%%N, %s,\n %s%%Z,\n %s)", id, triChunksTerm(chunks), CList(vs), CList(ts))
}

// go3mf's MeshBuilder driven directly (the de-duplication the pinned write3MF used):
// keeps the bucket model of Export.v honest.
func mbCaseTerm(id int, ts []Tri) string {
	var mesh go3mf.Mesh
	mb := go3mf.NewMeshBuilder(&mesh)
	its := make([]string, len(ts))
	in := make([]string, len(ts))
	for i, t := range ts {
		var ix [3]uint32
		var t32 Tri
		for k := 0; k < 3; k++ {
			p := go3mf.Point3D{float32(t[k][0]), float32(t[k][1]), float32(t[k][2])}
			ix[k] = mb.AddVertex(p)
			t32[k] = P3{float64(p[0]), float64(p[1]), float64(p[2])}
		}
		in[i] = triTerm(t32)
		its[i] = fmt.Sprintf("(%d, %d, %d)%%N", ix[0], ix[1], ix[2])
	}
	vs := make([]string, len(mesh.Vertices.Vertex))
	for i, v := range mesh.Vertices.Vertex {
		vs[i] = q3term(P3{float64(v[0]), float64(v[1]), float64(v[2])})
	}
	return fmt.Sprintf("(%d%%N, %s,\n %s,\n %s)", id, CList(in), CList(vs), CList(its))
}

// ------------------------------------------------------------------ DXF

type dxfEnt struct {
	typ, layer string
	c          map[string]string
}

// readDXFRaw: the ENTITIES section as (type, layer, group codes)
func readDXFRaw(path string) ([]dxfEnt, error) {
	f, err := os.Open(path)
	if err != nil {
		return nil, err
	}
	defer f.Close()
	sc := bufio.NewScanner(f)
	sc.Buffer(make([]byte, 1<<20), 1<<24)
	var pairs [][2]string
	for sc.Scan() {
		code := strings.TrimSpace(sc.Text())
		if !sc.Scan() {
			return nil, fmt.Errorf("odd number of lines")
		}
		pairs = append(pairs, [2]string{code, strings.TrimRight(sc.Text(), "\r")})
	}
	var ents []dxfEnt
	in := false
	nsec := 0
	for i := 0; i < len(pairs); i++ {
		p := pairs[i]
		if p[0] == "0" && p[1] == "SECTION" && i+1 < len(pairs) && pairs[i+1][0] == "2" {
			in = pairs[i+1][1] == "ENTITIES"
			if in {
				nsec++
			}
			i++
			continue
		}
		if p[0] == "0" && p[1] == "ENDSEC" {
			in = false
			continue
		}
		if !in {
			continue
		}
		if p[0] == "0" {
			ents = append(ents, dxfEnt{typ: p[1], c: map[string]string{}})
			continue
		}
		if len(ents) == 0 {
			return nil, fmt.Errorf("group code before the first entity")
		}
		e := &ents[len(ents)-1]
		if p[0] == "8" {
			e.layer = p[1]
		}
		if _, dup := e.c[p[0]]; dup && p[0] != "100" {
			return nil, fmt.Errorf("group code %s twice in one entity", p[0])
		}
		e.c[p[0]] = p[1]
	}
	if nsec != 1 {
		return nil, fmt.Errorf("%d ENTITIES sections", nsec)
	}
	// the file is one drawing: the EOF marker is its last group, and the only one (a file written over a longer
	// one without truncation carries the tail of the old file)
	for i, p := range pairs {
		if last := i == len(pairs)-1; (p[0] == "0" && p[1] == "EOF") != last {
			return nil, fmt.Errorf("the EOF marker is not the last (and only the last) group of the file (group %d of %d)", i, len(pairs))
		}
	}
	return ents, nil
}

type dxfObs struct {
	layers []string
	pts    [][6]*big.Int // units of 1e-16 (drawing.New sets the formatter to 16 decimals): start xyz, end xyz
}

var dxfCodes = []string{"10", "20", "30", "11", "21", "31"}

const dxfDecimals = 16

var dxfUnit = new(big.Int).Exp(big.NewInt(10), big.NewInt(dxfDecimals), nil)

func checkDXF(dir string, variant int, chunks [][]Seg) (obs *dxfObs, bad []string) {
	path := filepath.Join(dir, "t.dxf")
	os.Remove(path)
	if err := writeDXFVia(path, variant, chunks, 0, nil); err != nil {
		return nil, []string{err.Error()}
	}
	return verifyDXF(path, flatS(chunks))
}

// writeDXFVia exports the segments through one of the three DXF entry points; hook (optional) runs once
// `at` chunks have been handed over (ToDXF: from inside the renderer; object API: between the Lines calls;
// SaveDXF takes the whole list at once: before the call).
func writeDXFVia(path string, variant int, chunks [][]Seg, at int, hook func()) error {
	switch variant {
	case 0:
		quiet(func() { render.ToDXF(nil, path, &script2{chunks, at, hook}) })
	case 1:
		if hook != nil {
			hook()
		}
		if err := render.SaveDXF(path, toLines(flatS(chunks))); err != nil {
			return fmt.Errorf("SaveDXF: %v", err)
		}
	default:
		d := render.NewDXF(path)
		for i, ch := range chunks {
			if hook != nil && i == at {
				hook()
			}
			d.Lines(toLines(ch))
		}
		if hook != nil && at >= len(chunks) {
			hook()
		}
		if err := d.Save(); err != nil {
			return fmt.Errorf("DXF.Save: %v", err)
		}
	}
	return nil
}

// verifyDXF reads a DXF file back and checks it against the property text for the supplied segments.
func verifyDXF(path string, in []Seg) (obs *dxfObs, bad []string) {
	ents, err := readDXFRaw(path)
	if err != nil {
		return nil, []string{"DXF file not readable: " + err.Error()}
	}
	obs = &dxfObs{}
	for i, e := range ents {
		if e.typ != "LINE" {
			bad = append(bad, fmt.Sprintf("entity %d is a %s, not a LINE", i, e.typ))
			return obs, bad
		}
		var p [6]*big.Int
		for k, code := range dxfCodes {
			n, ok := decInt(strings.TrimSpace(e.c[code]), dxfDecimals)
			if !ok {
				return nil, append(bad, fmt.Sprintf("LINE %d group %s value %q is not a %d-decimal number", i, code, e.c[code], dxfDecimals))
			}
			p[k] = n
		}
		obs.layers = append(obs.layers, e.layer)
		obs.pts = append(obs.pts, p)
	}
	// the library's reader must see the same thing
	if d, err := dxf.FromFile(path); err != nil {
		bad = append(bad, "dxf.FromFile: "+err.Error())
	} else {
		es := d.Entities()
		if len(es) != len(obs.pts) {
			bad = append(bad, fmt.Sprintf("dxf.FromFile sees %d entities, the line parser %d", len(es), len(obs.pts)))
		} else {
			for i, e := range es {
				l, ok := e.(*entity.Line)
				if !ok {
					bad = append(bad, fmt.Sprintf("dxf.FromFile: entity %d is not a LINE", i))
					break
				}
				if l.Layer() == nil || l.Layer().Name() != obs.layers[i] {
					bad = append(bad, fmt.Sprintf("dxf.FromFile: layer of entity %d differs from the line parser's", i))
				}
				for k := 0; k < 6; k++ {
					v := l.Start[k%3]
					if k >= 3 {
						v = l.End[k%3]
					}
					w, _ := new(big.Rat).SetFrac(obs.pts[i][k], dxfUnit).Float64()
					if v != w {
						bad = append(bad, fmt.Sprintf("dxf.FromFile and the line parser disagree on entity %d", i))
					}
				}
			}
		}
	}
	if len(obs.pts) != len(in) {
		bad = append(bad, fmt.Sprintf("%d LINE entities for %d supplied segments", len(obs.pts), len(in)))
		return
	}
	for i, l := range in {
		if obs.layers[i] != "Lines" {
			bad = append(bad, fmt.Sprintf("LINE %d is on layer %q, not Lines", i, obs.layers[i]))
			return
		}
		want := [6]float64{l[0][0], l[0][1], 0, l[1][0], l[1][1], 0}
		for k := 0; k < 6; k++ {
			if w := roundHE(rat(want[k]), dxfDecimals); w.Cmp(obs.pts[i][k]) != 0 {
				bad = append(bad, fmt.Sprintf("LINE %d group %s: file has %s e-16, supplied %v (%s e-16)", i, dxfCodes[k], obs.pts[i][k], want[k], w))
				return
			}
			// 16 decimals are at least 17 significant digits from 1 upwards: the float64 comes back exactly
			if back, _ := new(big.Rat).SetFrac(obs.pts[i][k], dxfUnit).Float64(); (math.Abs(want[k]) >= 1 || want[k] == 0) && back != want[k] {
				bad = append(bad, fmt.Sprintf("LINE %d group %s: %v does not read back exactly (%v)", i, dxfCodes[k], want[k], back))
				return
			}
		}
	}
	return
}

func dxfCaseTerm(id, variant int, chunks [][]Seg, obs *dxfObs) string {
	es := make([]string, len(obs.pts))
	for i, p := range obs.pts {
		es[i] = fmt.Sprintf("(%s%%string, (%s, %s, %s)%%Z, (%s, %s, %s)%%Z)", strconv.Quote(obs.layers[i]),
			zterm(p[0]), zterm(p[1]), zterm(p[2]), zterm(p[3]), zterm(p[4]), zterm(p[5]))
	}
	return fmt.Sprintf("(%d%%N, %d%%N, %s,\n %s)", id, variant, segChunksTerm(chunks), CList(es))
}

// ------------------------------------------------------------------ SVG

type rawSVG struct {
	XMLName xml.Name
	Width   string `xml:"width,attr"`
	Height  string `xml:"height,attr"`
	Lines   []struct {
		X1    string `xml:"x1,attr"`
		Y1    string `xml:"y1,attr"`
		X2    string `xml:"x2,attr"`
		Y2    string `xml:"y2,attr"`
		Style string `xml:"style,attr"`
	} `xml:"line"`
	Other []struct {
		XMLName xml.Name
	} `xml:",any"`
}

type svgObs struct {
	w, h  *big.Int // units of 1e-2
	lines [][4]*big.Int
}

const toSVGStyle = "fill:none;stroke:black;stroke-width:0.1" // render.go svgLineStyle

// near: |p - 100 d| <= 1/2 + 100 |d| 2^-50   (same rule as Export.near2)
func near(p *big.Int, d *big.Rat) bool {
	h := new(big.Rat).Mul(d, big.NewRat(100, 1))
	diff := new(big.Rat).Sub(new(big.Rat).SetInt(p), h)
	diff.Abs(diff)
	tol := new(big.Rat).Mul(new(big.Rat).Abs(h), new(big.Rat).SetFrac(big.NewInt(1), new(big.Int).Lsh(big.NewInt(1), 50)))
	tol.Add(tol, big.NewRat(1, 2))
	return diff.Cmp(tol) <= 0
}

func checkSVG(dir string, variant int, style string, chunks [][]Seg) (obs *svgObs, bad []string) {
	path := filepath.Join(dir, "t.svg")
	os.Remove(path)
	style, err := writeSVGVia(path, variant, style, chunks, 0, nil)
	if err != nil {
		return nil, []string{err.Error()}
	}
	return verifySVG(path, style, flatS(chunks))
}

// writeSVGVia exports the segments through one of the three SVG entry points and returns the line style the
// file must carry (ToSVG has a fixed one); hook as for writeDXFVia.
func writeSVGVia(path string, variant int, style string, chunks [][]Seg, at int, hook func()) (string, error) {
	switch variant {
	case 0:
		style = toSVGStyle
		quiet(func() { render.ToSVG(nil, path, &script2{chunks, at, hook}) })
	case 1:
		if hook != nil {
			hook()
		}
		if err := render.SaveSVG(path, style, toLines(flatS(chunks))); err != nil {
			return style, fmt.Errorf("SaveSVG: %v", err)
		}
	default:
		s := render.NewSVG(path, style)
		for i, ch := range chunks {
			if hook != nil && i == at {
				hook()
			}
			for _, l := range ch {
				s.Line(v2.Vec{X: l[0][0], Y: l[0][1]}, v2.Vec{X: l[1][0], Y: l[1][1]})
			}
		}
		if hook != nil && at >= len(chunks) {
			hook()
		}
		if err := s.Save(); err != nil {
			return style, fmt.Errorf("SVG.Save: %v", err)
		}
	}
	return style, nil
}

// verifySVG reads an SVG file back and checks it against the property text for the supplied segments.
func verifySVG(path, style string, in []Seg) (obs *svgObs, bad []string) {
	b, err := os.ReadFile(path)
	if err != nil {
		return nil, []string{err.Error()}
	}
	var r rawSVG
	if err := xmlOneDocument(b, &r); err != nil {
		return nil, []string{"SVG is not well-formed XML: " + err.Error()}
	}
	if r.XMLName.Local != "svg" {
		return nil, []string{"root element is " + r.XMLName.Local}
	}
	if len(r.Other) != 0 {
		bad = append(bad, fmt.Sprintf("%d elements other than <line> (first: %s)", len(r.Other), r.Other[0].XMLName.Local))
	}
	obs = &svgObs{}
	var ok bool
	if obs.w, ok = decInt(r.Width, 2); !ok {
		return nil, append(bad, fmt.Sprintf("width %q is not a 2-decimal number", r.Width))
	}
	if obs.h, ok = decInt(r.Height, 2); !ok {
		return nil, append(bad, fmt.Sprintf("height %q is not a 2-decimal number", r.Height))
	}
	for i, l := range r.Lines {
		var p [4]*big.Int
		for k, s := range []string{l.X1, l.Y1, l.X2, l.Y2} {
			if p[k], ok = decInt(s, 2); !ok {
				return nil, append(bad, fmt.Sprintf("line %d coordinate %q is not a 2-decimal number", i, s))
			}
		}
		if l.Style != style {
			bad = append(bad, fmt.Sprintf("line %d style %q", i, l.Style))
		}
		obs.lines = append(obs.lines, p)
	}
	if len(obs.lines) != len(in) {
		bad = append(bad, fmt.Sprintf("%d lines for %d supplied segments", len(obs.lines), len(in)))
		return
	}
	if len(in) == 0 {
		if obs.w.Sign() != 0 || obs.h.Sign() != 0 {
			bad = append(bad, "empty drawing with a non-empty canvas")
		}
		return
	}
	// independent extent: sort the coordinates
	var xs, ys []float64
	for _, l := range in {
		xs = append(xs, l[0][0], l[1][0])
		ys = append(ys, l[0][1], l[1][1])
	}
	sort.Float64s(xs)
	sort.Float64s(ys)
	minx, maxx, miny, maxy := rat(xs[0]), rat(xs[len(xs)-1]), rat(ys[0]), rat(ys[len(ys)-1])
	sub := func(a, b *big.Rat) *big.Rat { return new(big.Rat).Sub(a, b) }
	if !near(obs.w, sub(maxx, minx)) || !near(obs.h, sub(maxy, miny)) {
		bad = append(bad, fmt.Sprintf("canvas %s x %s e-2 is not the extent [%v,%v] x [%v,%v]", obs.w, obs.h, xs[0], xs[len(xs)-1], ys[0], ys[len(ys)-1]))
		return
	}
	for i, l := range in {
		want := [4]*big.Rat{sub(rat(l[0][0]), minx), sub(maxy, rat(l[0][1])), sub(rat(l[1][0]), minx), sub(maxy, rat(l[1][1]))}
		for k := 0; k < 4; k++ {
			if !near(obs.lines[i][k], want[k]) {
				f, _ := want[k].Float64()
				bad = append(bad, fmt.Sprintf("line %d coordinate %d: file has %s e-2, expected %v (segment %v, min corner (%v,%v), Y flipped about %v)",
					i, k, obs.lines[i][k], f, l, xs[0], ys[0], ys[len(ys)-1]))
				return
			}
			lim := obs.w
			if k%2 == 1 {
				lim = obs.h
			}
			if obs.lines[i][k].Sign() < 0 || obs.lines[i][k].Cmp(lim) > 0 {
				bad = append(bad, fmt.Sprintf("line %d coordinate %d = %s e-2 lies outside the canvas [0,%s]", i, k, obs.lines[i][k], lim))
				return
			}
		}
	}
	return
}

func svgCaseTerm(id, variant int, chunks [][]Seg, obs *svgObs) string {
	ls := make([]string, len(obs.lines))
	for i, p := range obs.lines {
		ls[i] = fmt.Sprintf("(%s, %s, %s, %s)", zterm(p[0]), zterm(p[1]), zterm(p[2]), zterm(p[3]))
	}
	return fmt.Sprintf("(%d%%N, %d%%N, %s,\n %s%%Z, %s%%Z, %s%%Z)", id, variant, segChunksTerm(chunks), zterm(obs.w), zterm(obs.h), CList(ls))
}

// ------------------------------------------------------------------ generators

const (
	magGrid = iota
	magFloat
	magTiny
	magLarge  // straddles the +-2147.48 bound of the go3mf bucket
	magBound  // a few float32 steps around +-2147.4836
	magAdj    // neighbouring float32 values in [1024, 2148)
	magHuge   // 1e6 .. 1e12
	magSubmic // neighbours less than a micron apart
	nMag
)

var magName = []string{"grid", "float64", "tiny", "large(+-5000)", "bound(2147.48)", "adjacent-float32", "huge", "sub-micron"}

func coord(rng *Rng, mag int) float64 {
	switch mag {
	case magGrid:
		return rng.Dyadic(64, 3)
	case magFloat:
		return rng.Uniform(-100, 100)
	case magTiny:
		switch rng.Intn(4) {
		case 0:
			return rng.Uniform(-1, 1) * 1e-5
		case 1:
			return rng.Uniform(-1, 1) * 1e-9
		case 2:
			return rng.Uniform(-1, 1) * 1e-41 // float32 subnormal
		}
		return rng.Uniform(-1, 1) * 1e-3
	case magLarge:
		return math.Round(rng.Uniform(-5000, 5000)*8) / 8
	case magBound:
		x := float32(2147.4836)
		for k := rng.Range(-6, 6); k != 0; {
			if k > 0 {
				x = math.Nextafter32(x, 1e9)
				k--
			} else {
				x = math.Nextafter32(x, 0)
				k++
			}
		}
		if rng.Bool() {
			x = -x
		}
		return float64(x)
	case magAdj:
		base := float32(rng.Uniform(1024, 2148))
		if rng.Intn(3) == 0 {
			base = float32(rng.Uniform(8, 1024))
		}
		for k := rng.Intn(3); k > 0; k-- {
			base = math.Nextafter32(base, 1e9)
		}
		if rng.Intn(4) == 0 {
			base = -base
		}
		return float64(base)
	case magHuge:
		return rng.Uniform(-1, 1) * math.Pow(10, float64(rng.Range(6, 12)))
	default:
		return float64(rng.Range(-3, 3)) + float64(rng.Range(-30, 30))*1e-7
	}
}

func chunkInts(rng *Rng, n, mode int) []int {
	var cuts []int
	switch mode {
	case 0: // one Write
		cuts = []int{n}
	case 1: // one item per Write
		for i := 0; i < n; i++ {
			cuts = append(cuts, 1)
		}
	case 2: // buffer-size boundaries
		sizes := []int{127, 128, 129, 255, 256, 257, 1, 0, 5}
		for left := n; left > 0; {
			c := sizes[rng.Intn(len(sizes))]
			if c > left {
				c = left
			}
			cuts = append(cuts, c)
			left -= c
		}
	default:
		for left := n; left > 0; {
			c := rng.Range(0, 7)
			if c > left {
				c = left
			}
			cuts = append(cuts, c)
			left -= c
		}
	}
	return cuts
}

func genTris(rng *Rng, k int, mag int) (string, [][]Tri) {
	if mag < 0 {
		mag = k % nMag
	}
	var n int
	var shape string
	switch {
	case k%53 == 7:
		n, shape = 0, "empty"
	case k%11 == 3:
		n, shape = 1, "single"
	case k%97 == 41:
		n, shape = rng.Range(257, 700), "many(>256)"
	case k%13 == 5:
		n, shape = rng.Range(20, 90), "medium"
	default:
		n, shape = rng.Range(2, 12), "small"
	}
	// a vertex pool makes shared vertices; pool size relative to n controls the sharing
	np := 3 + n
	mode := k % 5
	switch mode {
	case 0:
		np = rng.Range(3, 6)
	case 1:
		np = 3 + n/2
	case 2:
		np = 3*n + 3
	}
	pool := make([]P3, np)
	for i := range pool {
		pool[i] = P3{coord(rng, mag), coord(rng, mag), coord(rng, mag)}
		if rng.Intn(6) == 0 { // mix in a small-magnitude axis, +-0
			pool[i][rng.Intn(3)] = []float64{0, math.Copysign(0, -1), 1, -1}[rng.Intn(4)]
		}
	}
	ts := make([]Tri, n)
	for i := range ts {
		if mode == 2 {
			ts[i] = Tri{pool[3*i], pool[3*i+1], pool[3*i+2]}
		} else {
			ts[i] = Tri{pool[rng.Intn(np)], pool[rng.Intn(np)], pool[rng.Intn(np)]} // degenerate corners allowed
		}
		if i > 0 && rng.Intn(9) == 0 {
			ts[i] = ts[rng.Intn(i)] // duplicate triangle
		}
		if i > 0 && rng.Intn(9) == 0 {
			j := rng.Intn(i)
			ts[i] = Tri{ts[j][0], ts[j][2], ts[j][1]} // same triangle, opposite winding
		}
	}
	var chunks [][]Tri
	i := 0
	for _, c := range chunkInts(rng, n, k%4) {
		chunks = append(chunks, ts[i:i+c])
		i += c
	}
	sh := "shared"
	if mode == 2 {
		sh = "disjoint"
	}
	return fmt.Sprintf("%s/%s/%s", shape, magName[mag], sh), chunks
}

func genSegs(rng *Rng, k int) (string, [][]Seg) {
	mags := []int{magGrid, magFloat, magTiny, magLarge, magHuge, magSubmic, magAdj}
	mag := mags[k%len(mags)]
	var n int
	var shape string
	switch {
	case k%47 == 7:
		n, shape = 0, "empty"
	case k%11 == 3:
		n, shape = 1, "single"
	case k%89 == 41:
		n, shape = rng.Range(129, 420), "many(>128)"
	case k%13 == 5:
		n, shape = rng.Range(20, 90), "medium"
	default:
		n, shape = rng.Range(2, 12), "small"
	}
	segs := make([]Seg, n)
	var last [2]float64
	for i := range segs {
		p := [2]float64{coord(rng, mag), coord(rng, mag)}
		q := [2]float64{coord(rng, mag), coord(rng, mag)}
		switch rng.Intn(8) {
		case 0:
			q = p // zero-length segment
		case 1:
			q[0] = p[0] // vertical
		case 2:
			q[1] = p[1] // horizontal
		}
		if i > 0 && k%3 == 0 {
			p = last // a connected polyline: shared end points
		}
		segs[i] = Seg{p, q}
		last = q
		if i > 0 && rng.Intn(9) == 0 {
			segs[i] = segs[rng.Intn(i)] // duplicate
		}
		if i > 0 && rng.Intn(11) == 0 {
			j := rng.Intn(i)
			segs[i] = Seg{segs[j][1], segs[j][0]} // reversed
		}
	}
	var chunks [][]Seg
	i := 0
	for _, c := range chunkInts(rng, n, k%4) {
		chunks = append(chunks, segs[i:i+c])
		i += c
	}
	return fmt.Sprintf("%s/%s", shape, magName[mag]), chunks
}

// ------------------------------------------------------------------ shrinking

// shrink removes items while `fails` keeps failing (greedy, halves first)
func shrinkT(ts []Tri, fails func([]Tri) bool) []Tri {
	for step := len(ts) / 2; step >= 1; step /= 2 {
		for i := 0; i+step <= len(ts) && len(ts) > 1; {
			cand := append(append([]Tri{}, ts[:i]...), ts[i+step:]...)
			if fails(cand) {
				ts = cand
			} else {
				i += step
			}
		}
	}
	return ts
}
func shrinkS(ss []Seg, fails func([]Seg) bool) []Seg {
	for step := len(ss) / 2; step >= 1; step /= 2 {
		for i := 0; i+step <= len(ss) && len(ss) > 1; {
			cand := append(append([]Seg{}, ss[:i]...), ss[i+step:]...)
			if fails(cand) {
				ss = cand
			} else {
				i += step
			}
		}
	}
	return ss
}

// ------------------------------------------------------------------ main

type corpusT struct {
	MF []struct {
		Note   string  `json:"note"`
		Chunks [][]Tri `json:"chunks"`
	} `json:"mf"`
	DXF []struct {
		Note   string  `json:"note"`
		Chunks [][]Seg `json:"chunks"`
	} `json:"dxf"`
	SVG []struct {
		Note   string  `json:"note"`
		Chunks [][]Seg `json:"chunks"`
	} `json:"svg"`
	Ops []struct {
		Note string  `json:"note"`
		Ops  []DxfOp `json:"ops"`
	} `json:"dxfops"`
	Hist []struct {
		Note  string  `json:"note"`
		Steps []HStep `json:"steps"`
	} `json:"hist"`
	Sched []struct {
		Note string    `json:"note"`
		Spec SchedSpec `json:"spec"`
	} `json:"sched"`
}

func finiteT(ch [][]Tri) bool {
	for _, t := range flatT(ch) {
		for _, p := range t {
			for _, x := range p {
				if math.IsNaN(x) || math.Abs(x) > math.MaxFloat32 {
					return false
				}
			}
		}
	}
	return true
}

func checkC15(c *Ctx, r *Report) error {
	rng := NewRng(c.Seed)
	dir := filepath.Join(c.Out, "files")
	if err := os.MkdirAll(dir, 0o755); err != nil {
		return err
	}
	defer os.RemoveAll(dir)
	imp := "From Coq Require Import String.\nFrom Sdfx Require Import Io.Export.\nOpen Scope Q_scope."
	csMF := &Cases{Kind: "mf", Imports: imp, Type: "Export.mf_case", Fn: "Export.mismatches_mf", PerShard: 40}
	csMB := &Cases{Kind: "mb", Imports: imp, Type: "Export.mb_case", Fn: "Export.mismatches_mb", PerShard: 40}
	csDXF := &Cases{Kind: "dxf", Imports: imp, Type: "Export.dxf_case", Fn: "Export.mismatches_dxf", PerShard: 40}
	csSVG := &Cases{Kind: "svg", Imports: imp, Type: "Export.svg_case", Fn: "Export.mismatches_svg", PerShard: 40}
	impOps := "From Coq Require Import String.\nFrom Sdfx Require Import Io.Export Io.ExportOps.\nOpen Scope Q_scope."
	csOPS := &Cases{Kind: "ops", Imports: impOps, Type: "ExportOps.ops_case", Fn: "ExportOps.mismatches_ops", PerShard: 40}
	// write schedules of the streaming entry points (sched.go): their own cases files, a few large cases each
	se := &schedEnv{c: c, r: r, rng: NewRng(c.Seed ^ 0x5c4ed01e5), dir: filepath.Join(dir, "sched"),
		cases: map[string]*Cases{
			"3mf": {Kind: "mf_sched", Imports: imp, Type: "Export.mf_case", Fn: "Export.mismatches_mf", PerShard: 2},
			"dxf": {Kind: "dxf_sched", Imports: imp, Type: "Export.dxf_case", Fn: "Export.mismatches_dxf", PerShard: 4},
			"svg": {Kind: "svg_sched", Imports: imp, Type: "Export.svg_case", Fn: "Export.mismatches_svg", PerShard: 6}},
		budget: map[string]int{"3mf": TierN(c.Tier, 3600, 16000, 9000), "dxf": TierN(c.Tier, 2500, 12000, 7500), "svg": TierN(c.Tier, 2500, 12000, 7500)}}
	if err := os.MkdirAll(se.dir, 0o755); err != nil {
		return err
	}
	se.consts = readSchedConsts(c, r)
	id := 0
	se.nextID = func() int { id++; return id }

	opsCase := func(stratum string, ops []DxfOp) {
		if !validOps(ops) {
			return
		}
		id++
		key := keyOf("dxfops", ops)
		nseg := 0
		for _, o := range ops {
			nseg += len(segsOf(o))
		}
		r.Case("dxf-object-ops/"+stratum, key, nseg >= 1)
		obs, bad := checkDXFOps(dir, ops)
		if id%31 == 4 {
			r.Sample(map[string]interface{}{"kind": "dxfops", "stratum": stratum, "ops": ops, "violations": bad})
		}
		if len(bad) > 0 {
			min := shrinkOps(ops, func(o []DxfOp) bool { _, b := checkDXFOps(dir, o); return len(b) > 0 })
			_, mb := checkDXFOps(dir, min)
			if len(mb) == 0 {
				min, mb = ops, bad
			}
			r.Violate(keyOf("dxfops", min), "DXF (NewDXF + operation sequence + Save): "+mb[0], map[string]interface{}{"kind": "dxfops", "ops": min})
		}
		if obs == nil && len(bad) > 0 {
			obs = []entObs{{layer: "unreadable", v: [6]*big.Int{big.NewInt(-1), big.NewInt(0), big.NewInt(0), big.NewInt(0), big.NewInt(0), big.NewInt(0)}}}
		}
		csOPS.Add(opsCaseTerm(id, ops, obs))
	}

	mfCase := func(stratum string, chunks [][]Tri) {
		id++
		key := keyOf("3mf", chunks)
		n := len(flatT(chunks))
		r.Case("3mf/"+stratum, key, n >= 1)
		obs, bad := check3MF(dir, chunks)
		if id%61 == 1 {
			r.Sample(map[string]interface{}{"kind": "3mf", "stratum": stratum, "triangles": n, "first_chunks": headT(chunks), "violations": bad})
		}
		if len(bad) > 0 {
			// minimise: fewest triangles (one Write) on which the file still differs from the supplied mesh
			min := shrinkT(flatT(chunks), func(ts []Tri) bool { _, b := check3MF(dir, [][]Tri{ts}); return len(b) > 0 })
			mc := [][]Tri{min}
			_, mb := check3MF(dir, mc)
			if len(mb) == 0 {
				mc, mb = chunks, bad
			}
			r.Violate(keyOf("3mf", mc), "3MF: "+mb[0], map[string]interface{}{"kind": "mf", "chunks": mc})
		}
		if obs != nil {
			csMF.Add(mfCaseTerm(id, chunks, obs))
		} else {
			csMF.Add(mfCaseTerm(id, chunks, &mfObs{verts: [][3]*big.Int{{big.NewInt(-1), big.NewInt(-1), big.NewInt(-1)}}}))
		}
	}
	dxfCase := func(stratum string, variant int, chunks [][]Seg) {
		id++
		vn := []string{"ToDXF", "SaveDXF", "DXF.Lines+Save"}[variant]
		key := keyOf("dxf", chunks)
		n := len(flatS(chunks))
		r.Case("dxf/"+vn+"/"+stratum, key, n >= 1)
		obs, bad := checkDXF(dir, variant, chunks)
		if id%61 == 2 {
			r.Sample(map[string]interface{}{"kind": "dxf", "via": vn, "stratum": stratum, "segments": n, "first_chunks": headS(chunks), "violations": bad})
		}
		if len(bad) > 0 {
			min := shrinkS(flatS(chunks), func(ss []Seg) bool { _, b := checkDXF(dir, variant, [][]Seg{ss}); return len(b) > 0 })
			mc := [][]Seg{min}
			_, mb := checkDXF(dir, variant, mc)
			if len(mb) == 0 {
				mc, mb = chunks, bad
			}
			r.Violate(keyOf("dxf", mc), "DXF ("+vn+"): "+mb[0], map[string]interface{}{"kind": "dxf", "variant": variant, "chunks": mc})
		}
		if obs == nil {
			obs = &dxfObs{layers: []string{"unreadable"}, pts: [][6]*big.Int{{big.NewInt(0), big.NewInt(0), big.NewInt(0), big.NewInt(0), big.NewInt(0), big.NewInt(0)}}}
		}
		csDXF.Add(dxfCaseTerm(id, variant, chunks, obs))
	}
	svgCase := func(stratum string, variant int, chunks [][]Seg) {
		id++
		vn := []string{"ToSVG", "SaveSVG", "SVG.Line+Save"}[variant]
		key := keyOf("svg", chunks)
		n := len(flatS(chunks))
		r.Case("svg/"+vn+"/"+stratum, key, n >= 1)
		style := "stroke:red;stroke-width:0.25"
		obs, bad := checkSVG(dir, variant, style, chunks)
		if id%61 == 3 {
			r.Sample(map[string]interface{}{"kind": "svg", "via": vn, "stratum": stratum, "segments": n, "first_chunks": headS(chunks), "violations": bad})
		}
		if len(bad) > 0 {
			min := shrinkS(flatS(chunks), func(ss []Seg) bool { _, b := checkSVG(dir, variant, style, [][]Seg{ss}); return len(b) > 0 })
			mc := [][]Seg{min}
			_, mb := checkSVG(dir, variant, style, mc)
			if len(mb) == 0 {
				mc, mb = chunks, bad
			}
			r.Violate(keyOf("svg", mc), "SVG ("+vn+"): "+mb[0], map[string]interface{}{"kind": "svg", "variant": variant, "chunks": mc})
		}
		if obs == nil {
			obs = &svgObs{w: big.NewInt(-1), h: big.NewInt(-1)}
		}
		csSVG.Add(svgCaseTerm(id, variant, chunks, obs))
	}

	// histories of export calls in this one process (hist.go)
	hdir := filepath.Join(dir, "hist")
	histViol, histDead := 0, false
	histCnt := map[string]int{}
	var histPrior []HStep
	devfull := haveDevFull()
	histCase := func(stratum string, steps []HStep) {
		if histDead || !validHist(steps, 0) {
			return
		}
		key := keyOf("hist", steps)
		h := runHistTimed(hdir, steps, histTimeout)
		bad := []string{histHang}
		written := 0
		if h == nil {
			histDead = true // goroutines of the implementation are stuck: nothing more can be learnt in this process
		} else {
			bad = h.bad
			for _, f := range h.files {
				id++
				if f.step.items() >= 1 {
					written++
				}
				switch f.step.F {
				case "3mf":
					obs := f.mf
					if obs == nil {
						obs = &mfObs{verts: [][3]*big.Int{{big.NewInt(-1), big.NewInt(-1), big.NewInt(-1)}}}
					}
					csMF.Add(mfCaseTerm(id, f.step.T, obs))
				case "dxf":
					obs := f.dxf
					if obs == nil {
						obs = &dxfObs{layers: []string{"unreadable"}, pts: [][6]*big.Int{{big.NewInt(0), big.NewInt(0), big.NewInt(0), big.NewInt(0), big.NewInt(0), big.NewInt(0)}}}
					}
					csDXF.Add(dxfCaseTerm(id, f.step.Via, f.step.S, obs))
				default:
					obs := f.svg
					if obs == nil {
						obs = &svgObs{w: big.NewInt(-1), h: big.NewInt(-1)}
					}
					csSVG.Add(svgCaseTerm(id, f.step.Via, f.step.S, obs))
				}
			}
		}
		r.Case("history/"+stratum, key, written >= 1 && len(steps) >= 2)
		histFeatures(steps, histCnt)
		if stratum == "corpus" || len(bad) > 0 {
			r.Sample(map[string]interface{}{"kind": "history", "stratum": stratum, "steps": headH(steps), "violations": bad})
		}
		if len(bad) > 0 {
			histViol++
			// candidates of the minimisation get a short time limit; the result is confirmed with the full one
			fails := func(c []HStep) bool { b, ok := freshHist(dir, c, 5*time.Second); return ok && len(b) > 0 }
			min, what := steps, bad[0]
			fb, ok := freshHist(dir, steps, histTimeout)
			switch {
			case ok && len(fb) > 0: // the history alone, in a new process
				what = fb[0]
			case ok && fails(append(append([]HStep{}, histPrior...), steps...)): // only after the earlier histories of this run
				min = append(append([]HStep{}, histPrior...), steps...)
			case ok:
				what += " (seen in this process only: neither the history alone nor all histories of this run fail in a new process)"
				ok = false
			}
			if ok && histViol <= 2 {
				if m := shrinkHist(min, fails); len(m) > 0 {
					if b, ok2 := freshHist(dir, m, histTimeout); ok2 && len(b) > 0 {
						min, what = m, b[0]
					}
				}
			}
			r.Violate(keyOf("hist", min), "history of export calls in one process: "+what, map[string]interface{}{"kind": "hist", "steps": min})
		}
		histPrior = append(histPrior, steps...)
	}

	writeAll := func() error {
		r.Coverage["histories"] = histCnt
		r.Coverage["dev_full_available"] = devfull
		for _, cs := range []*Cases{csMF, csMB, csDXF, csSVG, csOPS, se.cases["3mf"], se.cases["dxf"], se.cases["svg"]} {
			if err := cs.Write(c.Out); err != nil {
				return err
			}
		}
		r.Coverage["cases_in_coq"] = map[string]int{"mf": csMF.Len(), "mb": csMB.Len(), "dxf": csDXF.Len(), "svg": csSVG.Len(), "ops": csOPS.Len(),
			"mf_sched": se.cases["3mf"].Len(), "dxf_sched": se.cases["dxf"].Len(), "svg_sched": se.cases["svg"].Len()}
		return nil
	}
	fillReport(r)

	// ---- replay of recorded failing inputs only
	if c.Replay != "" {
		var rp struct {
			FailingInputs []struct {
				Input struct {
					Kind    string          `json:"kind"`
					Variant int             `json:"variant"`
					Chunks  json.RawMessage `json:"chunks"`
					Ops     []DxfOp         `json:"ops"`
					Steps   []HStep         `json:"steps"`
					Spec    *SchedSpec      `json:"spec"`
				} `json:"input"`
			} `json:"failing_inputs"`
		}
		b, err := os.ReadFile(c.Replay)
		if err != nil {
			return err
		}
		if err := json.Unmarshal(b, &rp); err != nil {
			return err
		}
		for k := range se.budget {
			se.budget[k] = 1 << 30
		}
		for _, f := range rp.FailingInputs {
			switch f.Input.Kind {
			case "sched":
				if f.Input.Spec != nil {
					se.run("replay", *f.Input.Spec)
				}
			case "dxfops":
				opsCase("replay", f.Input.Ops)
			case "hist":
				histCase("replay", f.Input.Steps)
			case "mf":
				var ch [][]Tri
				if err := json.Unmarshal(f.Input.Chunks, &ch); err != nil {
					return err
				}
				mfCase("replay", ch)
			case "dxf", "svg":
				var ch [][]Seg
				if err := json.Unmarshal(f.Input.Chunks, &ch); err != nil {
					return err
				}
				if f.Input.Kind == "dxf" {
					dxfCase("replay", f.Input.Variant%3, ch)
				} else {
					svgCase("replay", f.Input.Variant%3, ch)
				}
			}
		}
		return writeAll()
	}

	// ---- corpus first
	var corpus corpusT
	if b, err := os.ReadFile(filepath.Join(c.Verif, "corpus", "C15.json")); err == nil {
		if err := json.Unmarshal(b, &corpus); err != nil {
			return fmt.Errorf("corpus/C15.json: %v", err)
		}
	}
	for _, e := range corpus.MF {
		if !finiteT(e.Chunks) {
			continue
		}
		mfCase("corpus", e.Chunks)
		id++
		csMB.Add(mbCaseTerm(id, flatT(e.Chunks)))
	}
	for _, e := range corpus.DXF {
		for v := 0; v < 3; v++ {
			dxfCase("corpus", v, e.Chunks)
		}
	}
	for _, e := range corpus.SVG {
		for v := 0; v < 3; v++ {
			svgCase("corpus", v, e.Chunks)
		}
	}

	for _, e := range corpus.Ops {
		opsCase("corpus", e.Ops)
	}
	for _, e := range corpus.Hist {
		histCase("corpus", e.Steps)
	}
	for _, e := range corpus.Sched {
		se.run("corpus", e.Spec)
	}

	// ---- generated
	nMF := TierN(c.Tier, 600, 6000, 1500)
	for k := 0; k < nMF; k++ {
		st, ch := genTris(rng, k, -1)
		mfCase(st, ch)
	}
	nMB := TierN(c.Tier, 300, 4000, 600)
	for k := 0; k < nMB; k++ {
		mag := []int{magBound, magAdj, magSubmic, magLarge, magTiny, magFloat, magHuge, magGrid, magAdj, magBound}[k%10]
		_, ch := genTris(rng, k, mag)
		ts := flatT(ch)
		if len(ts) > 60 {
			ts = ts[:60]
		}
		id++
		r.Case("go3mf-meshbuilder/"+magName[mag], keyOf("mb", ts), len(ts) >= 1)
		csMB.Add(mbCaseTerm(id, ts))
	}
	nDXF := TierN(c.Tier, 450, 5000, 1200)
	for k := 0; k < nDXF; k++ {
		st, ch := genSegs(rng, k)
		dxfCase(st, k%3, ch)
	}
	nSVG := TierN(c.Tier, 600, 6000, 1500)
	for k := 0; k < nSVG; k++ {
		st, ch := genSegs(rng, k)
		svgCase(st, (k/2)%3, ch)
	}
	// chains of end-to-end collinear segments through every DXF and SVG entry point
	nChain := TierN(c.Tier, 90, 1800, 360)
	for k := 0; k < nChain; k++ {
		st, ch := genChain(rng, k)
		if k%2 == 0 {
			svgCase(st, (k/2)%3, ch)
		} else {
			dxfCase(st, (k/2)%3, ch)
		}
	}
	// write schedules of To3MF / ToDXF / ToSVG around the buffer thresholds of the current source
	se.strata()
	// histories of one DXF drawing object
	nOps := TierN(c.Tier, 160, 3000, 600)
	for k := 0; k < nOps; k++ {
		st, ops := genOps(rng, k)
		opsCase(st, ops)
	}
	// histories of export calls (failing calls, retries, overwriting, exports inside exports): last, because an
	// implementation whose exports wait for each other leaves stuck goroutines behind
	nHist := TierN(c.Tier, 126, 1512, 504)
	for k := 0; k < nHist && histViol < 8; k++ {
		st, steps := genHist(rng, k, devfull)
		histCase(st, steps)
	}
	return writeAll()
}

func fillReport(r *Report) {
	r.Rule = "3mf: triangle lists built from a vertex pool (shared, duplicate, degenerate, winding-reversed triangles; sizes 0, 1, 2..12, 20..90, 257..700; Write chunkings: one call, one per call, around 127/128/129/255/256/257, random 0..7) in eight magnitude classes (dyadic grid, arbitrary float64, tiny incl. float32 subnormals, +-5000 straddling the go3mf bucket bound 2147.48, float32 neighbours of +-2147.4836, float32 neighbours in [8,2148), 1e6..1e12, sub-micron neighbours; +-0 mixed in). dxf/svg: segment lists (zero-length, axis-parallel, connected polylines, duplicates, reversed; sizes 0, 1, 2..12, 20..90, 129..420) in seven magnitude classes through ToDXF/SaveDXF/DXF.Lines and ToSVG/SaveSVG/SVG.Line. collinear-chain: segments laid end to end along one line with bit-identical shared end points, repeated, reversed and zero-length members (horizontal, vertical, oblique on a dyadic grid) through all six DXF/SVG entry points. dxf-object-ops: histories of one DXF drawing object - NewDXF, then 0..30 random Line/Lines/Points/Triangle/Box calls (Points never / before / between / after the segment operations), Save - compared entity by entity (kind, layer, coordinates, order). go3mf-meshbuilder: the library's AddVertex driven directly on float32 corners. history: sequences of 2..6 export calls in this one process over all formats and entry points (To3MF; ToDXF/SaveDXF/NewDXF+Lines+Save; ToSVG/SaveSVG/NewSVG+Line+Save) - failed-then-retried (a call that cannot write its file: /dev/full = created but every write fails, missing directory, directory as path; then the same geometry to a good path, then geometry sharing vertices / end points with it), same-twice (same path and another path), overwrite (a file written over a larger / smaller earlier file of the same name), nested (an export started from inside the renderer of a To* call or between the calls on a drawing object, itself failing or not, sharing geometry with its host), mixed (all of these at random, formats mixed); payloads related to earlier ones (identical, re-chunked, permuted part, other triangles / segments over the same vertices, part new); every file of a call not made to fail is read back at once and judged like the file of a fresh process (same oracles, same Coq cases), and once more at the end of the history; the whole file must be one document (nothing after the root element / the EOF group). A failing history is confirmed and minimised in fresh processes. Non-trivial = at least one item (history: at least two calls and one non-empty written file); distinct by the full chunked input." + schedRule
	r.Trusted = append(r.Trusted,
		"hand model coq/Io/Export.v of write3MF / NewDXF, SaveDXF, writeDXF / SVG.Line, SVG.Save tied by differential execution (cases_mf, cases_dxf, cases_svg) on files written by the real To3MF/ToDXF/ToSVG/SaveDXF/SaveSVG",
		"model of go3mf MeshBuilder.AddVertex + newvec3IFromVec3 (amd64 float64->int32 conversion) tied by differential execution against the library (cases_mb)",
		"readers: archive/zip + encoding/xml, a DXF group-code parser; cross-checked against go3mf.OpenReader and dxf.FromFile on every file",
		"decimal rounding oracle: math/big round-half-even (Go) and Export.round_he (Coq); float64->float32 conversion by the Go compiler (harness) and Export.f32round (Coq)")
	r.Assumptions = append(r.Assumptions,
		"coordinates are finite and within float32 range for 3MF (NaN/Inf/overflowing inputs are not geometry; with the repaired write3MF a NaN vertex is never merged with another one)",
		"'exact' is read at the precision the formats print: 3MF 4 decimals of the float32 value, DXF 16 decimals (exact float64 round trip from magnitude 1 upwards, checked), SVG 2 decimals of the float64 difference (tolerance: half a unit of the last digit plus one float64 rounding)",
		"the repartition of Write calls into channel batches by Triangle3Buffer/Line2Buffer is not modelled; the theorems show the result does not depend on the batching; that the buffers hand the items on in write order is sampled by the schedule cases (Write sizes around the thresholds read from the source)",
		"histories: nothing is required of a call whose file cannot be written except that it returns; exports running at the same time are produced deterministically (one export started from inside another), not by racing threads",
		"the OPC/zip container, the DXF header/tables and the SVG prologue are the libraries' business; only the geometry, the unit, the object/build structure, the layer name and the line style are observed")
}

func headT(ch [][]Tri) [][]Tri {
	var o [][]Tri
	n := 0
	for _, c := range ch {
		if n >= 3 {
			break
		}
		if len(c) > 3-n {
			c = c[:3-n]
		}
		o = append(o, c)
		n += len(c)
	}
	return o
}
func headH(steps []HStep) []HStep {
	o := make([]HStep, len(steps))
	for i, s := range steps {
		s.T, s.S, s.Inner = headT(s.T), headS(s.S), headH(s.Inner)
		o[i] = s
	}
	return o
}
func headS(ch [][]Seg) [][]Seg {
	var o [][]Seg
	n := 0
	for _, c := range ch {
		if n >= 3 {
			break
		}
		if len(c) > 3-n {
			c = c[:3-n]
		}
		o = append(o, c)
		n += len(c)
	}
	return o
}
