package main

// C15, the WRITE-SCHEDULE dimension of the streaming entry points (added after mutation testing).
//
// To3MF, ToDXF and ToSVG hand the renderer a buffering writer (sdf.Triangle3Buffer / sdf.Line2Buffer)
// that repartitions the renderer's Write calls into channel batches.  The property speaks about the
// file: it holds the items in the order in which the renderer wrote them, whatever the sizes of its
// Write calls.  The built-in renderers write a handful of items per call, and so did the generators
// of this harness (the 127/128/129/255/256/257 chunking reached two 3MF inputs per run); a buffer
// that treats a LARGE write differently (sent past the pending items, adopted instead of copied, cut
// at the spare capacity) was invisible.  A schedule case is one streamed file written by a scripted
// Render3 / Render2 whose Write sizes are laid out around the buffer thresholds of the CURRENT source
// (tBufferSize / tBufferMargin in sdf/triangle3.go, lBufferSize / lBufferMargin in sdf/line.go):
//
//	large-write-while-pending   1, margin, threshold-1 items pending (as one write / as small writes), then a
//	                            single write of N, N+1, 2N+3, then a tail
//	threshold                   the same large writes onto an EMPTY buffer, exact multiples of N (nothing left
//	                            for Close), straddling writes, writes beyond the spare capacity, empty and
//	                            nil writes before / between / after them
//	size-sweep                  k pending, then ONE write of s, then a tail, for a ladder of s from 0 to beyond
//	                            2N (random phase; every s in the thorough tier): a special path keyed to a
//	                            size other than the declared constants
//	mixed                       random mixtures of the threshold atoms, powers of two and small writes
//	slice-owned-by-renderer     the renderer owns the slice it passes: one scratch slice refilled for every
//	                            Write ("refill"), refilled and overwritten with never-written items as soon
//	                            as Write has returned ("poison"), windows of ONE array holding all items, so
//	                            that the spare capacity of a window holds the renderer's future items
//	                            ("windows"): a buffer that keeps or appends into the caller's slice
//	nested                      in the middle of its writes the renderer runs a complete export of the same
//	                            format to another path (state shared between two buffers)
//	concurrent                  three goroutines write the batches at the same time (the buffers have a
//	                            lock); the order is free there: the file must hold a permutation of the
//	                            items and is judged against the input in the order found
//
// Items carry their index (all distinct, neighbours share a vertex / are laid end to end), so a moved,
// lost, repeated or foreign item shows in the decoded file.  Every file is judged by the same Go oracles
// as every other case (verify3MF / verifyDXF / verifySVG on the flat list in write order) and, within a
// budget, by the Gallina model in coqc (cases_*_sched_*.v: Export.mismatches_* on the written chunks).
// A failing schedule is minimised keeping its nature (fewer writes, smaller sizes, plain slices) and is
// reported as {"kind":"sched","spec":...}; -replay and corpus/C15.json ("sched") accept that form.

import (
	"fmt"
	"math/big"
	"os"
	"path/filepath"
	"sync"
	"time"

	"github.com/deadsy/sdfx/render"
	"github.com/deadsy/sdfx/sdf"
	v2 "github.com/deadsy/sdfx/vec/v2"
	v3 "github.com/deadsy/sdfx/vec/v3"
	. "verifharness/kit"
)

// SchedSpec: one streamed file
type SchedSpec struct {
	F     string `json:"f"`              // "3mf" (To3MF) | "dxf" (ToDXF) | "svg" (ToSVG)
	Sizes []int  `json:"sizes"`          // lengths of the successive Write calls; -1 = Write(nil)
	Mode  string `json:"mode"`           // fresh | refill | poison | windows | nested | concurrent
	Geom  string `json:"geom,omitempty"` // "" = strip (small integers) | "frac" (not exact in float32 / 2 decimals)
	Salt  int    `json:"salt,omitempty"` // shifts the items of this case away from those of other cases
}

var schedModes = map[string]bool{"fresh": true, "refill": true, "poison": true, "windows": true, "nested": true, "concurrent": true}

func validSched(s SchedSpec) bool {
	if s.F != "3mf" && s.F != "dxf" && s.F != "svg" {
		return false
	}
	if !schedModes[s.Mode] || (s.Geom != "" && s.Geom != "frac") || s.Salt < 0 || s.Salt > 1<<20 || len(s.Sizes) > 4000 {
		return false
	}
	if s.Mode == "concurrent" && s.Geom != "" {
		return false // the order found in the file is decoded from the integer items
	}
	tot := 0
	for _, n := range s.Sizes {
		if n < -1 || n > 1<<15 {
			return false
		}
		if n > 0 {
			tot += n
		}
	}
	return tot <= 1<<16
}

func (s SchedSpec) total() int {
	t := 0
	for _, n := range s.Sizes {
		if n > 0 {
			t += n
		}
	}
	return t
}

func (s SchedSpec) via() string {
	return map[string]string{"3mf": "To3MF", "dxf": "ToDXF", "svg": "ToSVG"}[s.F]
}

// ------------------------------------------------------------------ items that carry their index

func schedTri(geom string, salt, k int) Tri {
	if geom == "frac" {
		x, y := float64(k)*1.1+0.37, float64(salt%40)*0.3
		return Tri{{x, y, -0.25}, {x + 1.1, y, -0.25}, {x, y + 0.7, 1e-3 * float64(k%97)}}
	}
	x, y := float64(k), float64(salt%50)
	return Tri{{x, y, 0}, {x + 1, y, 0}, {x, y + 1, 0.5}} // corner 1 is corner 0 of the next triangle
}

func schedSeg(geom string, salt, k int) Seg {
	if geom == "frac" {
		x, y := float64(k)*1.1+0.37, -float64(salt%40)*0.3
		return Seg{{x, y}, {x + 1.1, float64(k%5) * 0.21}}
	}
	x, y := float64(k), float64(salt%50)
	return Seg{{x, y}, {x + 1, y + float64(k%3)}}
}

func triPtr(t Tri) *sdf.Triangle3 {
	return &sdf.Triangle3{v3.Vec{X: t[0][0], Y: t[0][1], Z: t[0][2]}, v3.Vec{X: t[1][0], Y: t[1][1], Z: t[1][2]}, v3.Vec{X: t[2][0], Y: t[2][1], Z: t[2][2]}}
}
func segPtr(l Seg) *sdf.Line2 {
	return &sdf.Line2{v2.Vec{X: l[0][0], Y: l[0][1]}, v2.Vec{X: l[1][0], Y: l[1][1]}}
}

// items that no schedule ever writes
var schedPoisonTri = triPtr(Tri{{-7777, -7777, -7777}, {-7776, -7777, -7777}, {-7777, -7776, -7777}})
var schedPoisonSeg = segPtr(Seg{{-7777, -7777}, {-7776, -7775}})

const schedSpare = 7 // unused capacity behind the longest batch of a scratch slice

// driveSched performs the Write calls of a schedule; mk builds item k.  The items themselves are never
// modified (the pointers are shared with the sink by design); what the modes vary is who owns the SLICE.
func driveSched[T any](sizes []int, mode string, mk func(k int) T, poison T, write func([]T) error, mid func()) {
	total, longest := 0, 0
	for _, n := range sizes {
		if n > 0 {
			total += n
			if n > longest {
				longest = n
			}
		}
	}
	k := 0
	switch mode {
	case "windows":
		arr := make([]T, total)
		for i := range arr {
			arr[i] = mk(i)
		}
		for _, n := range sizes {
			if n < 0 {
				write(nil)
				continue
			}
			write(arr[k : k+n]) // the capacity reaches to the end of arr: the renderer's future items
			k += n
		}
	case "refill", "poison":
		scratch := make([]T, 0, longest+schedSpare)
		for _, n := range sizes {
			if n < 0 {
				write(nil)
				continue
			}
			scratch = scratch[:0]
			for i := 0; i < n; i++ {
				scratch = append(scratch, mk(k))
				k++
			}
			write(scratch)
			if mode == "poison" {
				full := scratch[:cap(scratch)]
				for i := range full {
					full[i] = poison
				}
			}
		}
	case "concurrent":
		var bs [][]T
		for _, n := range sizes {
			if n < 0 {
				bs = append(bs, nil)
				continue
			}
			b := make([]T, n)
			for i := range b {
				b[i] = mk(k)
				k++
			}
			bs = append(bs, b)
		}
		var wg sync.WaitGroup
		for g := 0; g < 3; g++ {
			wg.Add(1)
			go func(g int) {
				defer wg.Done()
				for j := g; j < len(bs); j += 3 {
					write(bs[j])
				}
			}(g)
		}
		wg.Wait()
	default: // fresh, nested: a new slice (without spare capacity) for every Write
		for j, n := range sizes {
			if mid != nil && j == len(sizes)/2 {
				mid()
			}
			if n < 0 {
				write(nil)
				continue
			}
			b := make([]T, n)
			for i := range b {
				b[i] = mk(k)
				k++
			}
			write(b)
		}
	}
}

type sched3 struct {
	s   SchedSpec
	mid func()
}

func (r *sched3) Info(sdf.SDF3) string { return "scripted schedule (" + r.s.Mode + ")" }
func (r *sched3) Render(_ sdf.SDF3, out sdf.Triangle3Writer) {
	driveSched(r.s.Sizes, r.s.Mode, func(k int) *sdf.Triangle3 { return triPtr(schedTri(r.s.Geom, r.s.Salt, k)) }, schedPoisonTri, out.Write, r.mid)
	out.Close()
}

type sched2 struct {
	s   SchedSpec
	mid func()
}

func (r *sched2) Info(sdf.SDF2) string { return "scripted schedule (" + r.s.Mode + ")" }
func (r *sched2) Render(_ sdf.SDF2, out sdf.Line2Writer) {
	driveSched(r.s.Sizes, r.s.Mode, func(k int) *sdf.Line2 { return segPtr(schedSeg(r.s.Geom, r.s.Salt, k)) }, schedPoisonSeg, out.Write, r.mid)
	out.Close()
}

// ------------------------------------------------------------------ one case

type schedResult struct {
	chunksT [][]Tri // what went to the file, in write order, cut as written (concurrent: in the order found, one chunk)
	chunksS [][]Seg
	mf      *mfObs
	dxf     *dxfObs
	svg     *svgObs
	bad     []string
}

func (s SchedSpec) chunks() (ct [][]Tri, cs [][]Seg) {
	k := 0
	for _, n := range s.Sizes {
		if n < 0 {
			n = 0
		}
		if s.F == "3mf" {
			c := make([]Tri, n)
			for i := range c {
				c[i] = schedTri(s.Geom, s.Salt, k+i)
			}
			ct = append(ct, c)
		} else {
			c := make([]Seg, n)
			for i := range c {
				c[i] = schedSeg(s.Geom, s.Salt, k+i)
			}
			cs = append(cs, c)
		}
		k += n
	}
	return
}

// export writes the file of a schedule (no verification); a panic of the renderer's side is reported
func (s SchedSpec) export(path string, mid func()) (what string) {
	defer func() {
		if x := recover(); x != nil {
			what = fmt.Sprintf("%s panics: %v", s.via(), x)
		}
	}()
	os.Remove(path)
	quiet(func() {
		switch s.F {
		case "3mf":
			render.To3MF(nil, path, &sched3{s, mid})
		case "dxf":
			render.ToDXF(nil, path, &sched2{s, mid})
		default:
			render.ToSVG(nil, path, &sched2{s, mid})
		}
	})
	return ""
}

// judge reads the file of a schedule back and checks it against the property text
func (s SchedSpec) judge(path string, res *schedResult) {
	ct, cs := s.chunks()
	if s.Mode == "concurrent" {
		// the order is free: find it, insist on a permutation, judge against the items in that order
		n := s.total()
		var found []int
		unit := int64(1)
		switch s.F {
		case "3mf":
			if o, b := read3MFRaw(path); o != nil {
				unit = 10000
				for _, t := range o.tris {
					if t[0] < len(o.verts) {
						found = append(found, schedIndex(o.verts[t[0]][0], unit))
					}
				}
			} else {
				res.bad = b
				return
			}
		case "dxf":
			o, b := verifyDXF(path, nil)
			if o == nil {
				res.bad = b
				return
			}
			for _, p := range o.pts {
				found = append(found, schedIndex(p[0], 0))
			}
		default:
			o, b := verifySVG(path, toSVGStyle, nil)
			if o == nil {
				res.bad = b
				return
			}
			unit = 100
			for _, p := range o.lines {
				found = append(found, schedIndex(p[0], unit))
			}
		}
		seen := make([]bool, n)
		ok := len(found) == n
		for _, k := range found {
			if k < 0 || k >= n || seen[k] {
				ok = false
				break
			}
			seen[k] = true
		}
		if !ok {
			res.bad = []string{fmt.Sprintf("concurrent writers: the %d items of the file are not a permutation of the %d items written (first indices found: %v)", len(found), n, headInts(found, 12))}
			// judged against the write order below, so that the observables still reach the model
		} else if s.F == "3mf" {
			c := make([]Tri, n)
			for i, k := range found {
				c[i] = schedTri(s.Geom, s.Salt, k)
			}
			ct = [][]Tri{c}
		} else {
			c := make([]Seg, n)
			for i, k := range found {
				c[i] = schedSeg(s.Geom, s.Salt, k)
			}
			cs = [][]Seg{c}
		}
	}
	res.chunksT, res.chunksS = ct, cs
	var b []string
	switch s.F {
	case "3mf":
		res.mf, b = verify3MF(path, flatT(ct))
	case "dxf":
		res.dxf, b = verifyDXF(path, flatS(cs))
	default:
		res.svg, b = verifySVG(path, toSVGStyle, flatS(cs))
	}
	res.bad = append(res.bad, b...)
}

// schedIndex: the index carried by an integer item, from its first coordinate in units of 1/unit (0: 1e-16)
func schedIndex(x *big.Int, unit int64) int {
	u := big.NewInt(unit)
	if unit == 0 {
		u = dxfUnit
	}
	q, m := new(big.Int).QuoRem(x, u, new(big.Int))
	if m.Sign() != 0 || !q.IsInt64() || q.Int64() < 0 || q.Int64() > 1<<30 {
		return -1
	}
	return int(q.Int64())
}

func headInts(x []int, n int) []int {
	if len(x) > n {
		return x[:n]
	}
	return x
}

// runSched: the export of the schedule (and, nested: of another one from inside its renderer), read back
func runSched(dir string, s SchedSpec, inner []int) *schedResult {
	res := &schedResult{}
	path := filepath.Join(dir, "sched."+s.F)
	var mid func()
	var ires *schedResult
	var is SchedSpec
	ipath := filepath.Join(dir, "sched_inner."+s.F)
	if s.Mode == "nested" {
		is = SchedSpec{F: s.F, Sizes: inner, Mode: "fresh", Geom: s.Geom, Salt: s.Salt + 1}
		mid = func() {
			ires = &schedResult{}
			if what := is.export(ipath, nil); what != "" {
				ires.bad = []string{what}
			}
		}
	}
	if what := s.export(path, mid); what != "" {
		res.chunksT, res.chunksS = s.chunks()
		res.bad = []string{what}
		return res
	}
	s.judge(path, res)
	if ires != nil {
		if len(ires.bad) == 0 {
			is.judge(ipath, ires)
		}
		if len(ires.bad) > 0 {
			res.bad = append(res.bad, fmt.Sprintf("the export started from inside the renderer (Write sizes %v): %s", inner, ires.bad[0]))
		}
	}
	return res
}

const schedTimeout = 20 * time.Second
const schedHang = "the export did not return"

// runSchedTimed: nil if the export did not come back
func runSchedTimed(dir string, s SchedSpec, inner []int, limit time.Duration) *schedResult {
	old := os.Stdout
	done := make(chan *schedResult, 1)
	go func() { done <- runSched(dir, s, inner) }()
	select {
	case r := <-done:
		return r
	case <-time.After(limit):
		os.Stdout = old // quiet() of the stuck goroutine never gets to restore it
		return nil
	}
}

// shrinkSched: plain slices, integer items, fewer writes, smaller writes - as long as the file stays wrong
func shrinkSched(s SchedSpec, fails func(SchedSpec) bool) SchedSpec {
	budget := 160
	deadline := time.Now().Add(40 * time.Second)
	try := func(c SchedSpec) bool {
		if budget <= 0 || time.Now().After(deadline) || !validSched(c) {
			return false
		}
		budget--
		return fails(c)
	}
	with := func(f func(c *SchedSpec)) SchedSpec {
		c := s
		c.Sizes = append([]int{}, s.Sizes...)
		f(&c)
		return c
	}
	if s.Mode != "fresh" {
		if c := with(func(c *SchedSpec) { c.Mode = "fresh" }); try(c) {
			s = c
		}
	}
	if s.Geom != "" {
		if c := with(func(c *SchedSpec) { c.Geom = "" }); try(c) {
			s = c
		}
	}
	if s.Salt != 0 {
		if c := with(func(c *SchedSpec) { c.Salt = 0 }); try(c) {
			s = c
		}
	}
	for i := 0; i < len(s.Sizes) && len(s.Sizes) > 1; {
		if c := with(func(c *SchedSpec) { c.Sizes = append(c.Sizes[:i], c.Sizes[i+1:]...) }); try(c) {
			s = c
		} else {
			i++
		}
	}
	for i := range s.Sizes {
		if s.Sizes[i] <= 1 {
			continue
		}
		if c := with(func(c *SchedSpec) { c.Sizes[i] = 1 }); try(c) {
			s = c
			continue
		}
		lo, hi := 1, s.Sizes[i] // lo passes, hi fails
		for hi-lo > 1 {
			m := (lo + hi) / 2
			if c := with(func(c *SchedSpec) { c.Sizes[i] = m }); try(c) {
				hi = m
				s = c
			} else {
				lo = m
			}
		}
	}
	return s
}

// ------------------------------------------------------------------ the strata

type schedEnv struct {
	c        *Ctx
	r        *Report
	rng      *Rng
	dir      string
	nextID   func() int
	cases    map[string]*Cases // per format
	budget   map[string]int    // items that may still go to the model, per format
	consts   map[string][2]int // per format: threshold, margin of the buffer behind its To* function
	dead     bool              // an export hangs: goroutines of the implementation are stuck
	viol     int
	salt     int
	reported map[string]bool // keys of the violations reported so far
}

func (e *schedEnv) bufOf(f string) (B, M int) {
	k := e.consts["line"]
	if f == "3mf" {
		k = e.consts["triangle"]
	}
	return k[0], k[1]
}

func (e *schedEnv) innerSizes(f string) []int {
	B, _ := e.bufOf(f)
	return []int{5, B - 4, 2}
}

func (e *schedEnv) run(stratum string, s SchedSpec) {
	if e.dead || e.viol >= 12 || !validSched(s) {
		return
	}
	id := e.nextID()
	key := keyOf("sched", s)
	n := s.total()
	st := "schedule/" + s.via() + "/" + stratum
	e.r.Case(st, key, n >= 1)
	B, _ := e.bufOf(s.F)
	res := runSchedTimed(e.dir, s, e.innerSizes(s.F), schedTimeout)
	input := func(m SchedSpec) map[string]interface{} { return map[string]interface{}{"kind": "sched", "spec": m} }
	if res == nil {
		e.dead = true
		e.viol++
		e.r.Violate(key, fmt.Sprintf("%s, Write sizes %v (%s): %s", s.via(), s.Sizes, s.Mode, schedHang), input(s))
		return
	}
	if id%23 == 5 || (len(res.bad) > 0 && e.viol == 0) {
		e.r.Sample(map[string]interface{}{"kind": "schedule", "stratum": st, "spec": s, "items": n, "violations": res.bad})
	}
	if len(res.bad) > 0 {
		e.viol++
		min, what := s, res.bad[0]
		if e.viol <= 3 {
			inner := e.innerSizes(s.F)
			m := shrinkSched(s, func(c SchedSpec) bool {
				r := runSchedTimed(e.dir, c, inner, 5*time.Second)
				if r == nil {
					e.dead = true
					return false
				}
				return len(r.bad) > 0
			})
			if !e.dead {
				if r := runSchedTimed(e.dir, m, inner, schedTimeout); r != nil && len(r.bad) > 0 {
					min, what = m, r.bad[0]
				}
			}
		}
		if e.reported == nil {
			e.reported = map[string]bool{}
		}
		if mk := keyOf("sched", min); e.reported[mk] {
			min, what = s, res.bad[0] // the minimised form is already reported: keep this one as it was run
		}
		e.reported[keyOf("sched", min)] = true
		e.r.Violate(keyOf("sched", min), fmt.Sprintf("%s, renderer Write sizes %v (buffer threshold %d in the source; slices: %s): %s", min.via(), min.Sizes, B, min.Mode, what), input(min))
	}
	// the model, within the budget (failing cases always)
	if n > e.budget[s.F] && len(res.bad) == 0 {
		return
	}
	e.budget[s.F] -= n
	switch s.F {
	case "3mf":
		obs := res.mf
		if obs == nil {
			obs = &mfObs{verts: [][3]*big.Int{{big.NewInt(-1), big.NewInt(-1), big.NewInt(-1)}}}
		}
		e.cases[s.F].Add(mfCaseTerm(id, res.chunksT, obs))
	case "dxf":
		obs := res.dxf
		if obs == nil {
			obs = &dxfObs{layers: []string{"unreadable"}, pts: [][6]*big.Int{{big.NewInt(0), big.NewInt(0), big.NewInt(0), big.NewInt(0), big.NewInt(0), big.NewInt(0)}}}
		}
		e.cases[s.F].Add(dxfCaseTerm(id, 0, res.chunksS, obs))
	default:
		obs := res.svg
		if obs == nil {
			obs = &svgObs{w: big.NewInt(-1), h: big.NewInt(-1)}
		}
		e.cases[s.F].Add(svgCaseTerm(id, 0, res.chunksS, obs))
	}
}

func schedSmall(rng *Rng, total int) []int {
	var o []int
	for total > 0 {
		n := rng.Range(1, 5)
		if n > total {
			n = total
		}
		o = append(o, n)
		total -= n
	}
	return o
}

// schedAtoms: write sizes that matter for a buffer flushing at B with spare capacity M, and sizes a special
// path might be keyed to instead
func schedAtoms(B, M int) []int {
	return []int{-1, 0, 1, 2, 3, 5, M - 1, M, M + 1, B/2 - 1, B / 2, B - M - 1, B - M, B - 2, B - 1, B, B + 1, B + M, B + M + 1, B + B/2, 2*B - 1, 2 * B, 2*B + 1, 2*B + 3,
		16, 32, 64, 100, 512, 513}
}

func schedClamp(s []int) []int {
	o := make([]int, 0, len(s))
	for _, x := range s {
		if x < -1 {
			x = 0
		}
		o = append(o, x)
	}
	return o
}

func readSchedConsts(c *Ctx, r *Report) map[string][2]int {
	k := map[string][2]int{"triangle": {256, 8}, "line": {128, 4}}
	src := "declared constants of sdf/triangle3.go and sdf/line.go"
	if t, l, err := BufferConsts(c.Repo); err == nil && t >= 8 && t <= 4096 && l >= 8 && l <= 4096 {
		k["triangle"], k["line"] = [2]int{t, 8}, [2]int{l, 4}
	} else {
		src = "defaults 256 / 128 (the thresholds could not be read from the source)"
	}
	if m, err := SourceIntConst(filepath.Join(c.Repo, "sdf", "triangle3.go"), "tBufferMargin"); err == nil && m >= 2 && m < k["triangle"][0]/2 {
		k["triangle"] = [2]int{k["triangle"][0], m}
	}
	if m, err := SourceIntConst(filepath.Join(c.Repo, "sdf", "line.go"), "lBufferMargin"); err == nil && m >= 2 && m < k["line"][0]/2 {
		k["line"] = [2]int{k["line"][0], m}
	}
	r.Coverage["schedule_buffer_constants"] = map[string]interface{}{"tBufferSize": k["triangle"][0], "tBufferMargin": k["triangle"][1],
		"lBufferSize": k["line"][0], "lBufferMargin": k["line"][1], "from": src}
	return k
}

func (e *schedEnv) strata() {
	rng := e.rng
	tier := e.c.Tier
	for _, f := range []string{"3mf", "dxf", "svg"} {
		B, M := e.bufOf(f)
		geom := func() string {
			if rng.Intn(4) == 0 {
				return "frac"
			}
			return ""
		}
		run := func(stratum string, sizes []int, mode string) {
			e.salt++
			g := geom()
			if mode == "concurrent" {
				g = ""
			}
			e.run(stratum, SchedSpec{F: f, Sizes: schedClamp(sizes), Mode: mode, Geom: g, Salt: e.salt})
		}
		// (a) one large write while smaller writes are pending, then a tail
		for _, pend := range []int{1, M, B - 1} {
			for _, big := range []int{B, B + 1, 2*B + 3} {
				pre := []int{pend}
				if rng.Bool() {
					pre = schedSmall(rng, pend)
				}
				run("large-write-while-pending", append(append([]int{}, pre...), big, 2), "fresh")
			}
		}
		// (b) the same onto an empty buffer; totals that leave nothing for Close; straddling; beyond the spare
		// capacity; empty and nil writes
		for _, sizes := range [][]int{{B}, {B + 1}, {2*B + 3}, {B, B}, {B + 1, B - 1}, {2 * B}, {B, 1}, {1, B}, {B - 1, 1}, {B - 1, 1, 1}, {B - 1, M + 2},
			{B - 1, B + M + 1, B - 1, 1}, {B, B + 1, 2*B + 3, 1}, {0}, {-1}, {}, {0, -1, 0}, {1, 0, -1, 1}, {B, 0}, {0, B, -1}, {3, 0, B, -1, 2}, {3, -1, 2*B + 3, 0},
			{B - 1, 0, -1, 1, 0, 1}, {5, 5, 5, 5, 5, 5, 5}} {
			run("threshold", sizes, "fresh")
		}
		// (c) k pending, one write of s, a tail - over a ladder of s
		step := TierN(tier, 9, 1, 4)
		for s := rng.Intn(step); s <= 2*B+M+2; s += step {
			run("size-sweep", []int{[]int{1, 3, M}[rng.Intn(3)], s, 2}, "fresh")
		}
		// (d) random mixtures
		atoms := schedAtoms(B, M)
		for i, n := 0, TierN(tier, 14, 150, 50); i < n; i++ {
			var sizes []int
			tot := 0
			for k, m := 0, rng.Range(2, 7); k < m && tot < 3*B; k++ {
				if rng.Intn(3) == 0 {
					sizes = append(sizes, schedSmall(rng, rng.Range(1, 12))...)
				} else {
					sizes = append(sizes, atoms[rng.Intn(len(atoms))])
				}
				tot = SchedSpec{Sizes: schedClamp(sizes)}.total()
			}
			run("mixed", sizes, "fresh")
		}
		// (e) the renderer owns its slices
		fixed := [][]int{{3, B, 2}, {B + 5, B + 5, 1}, {5, 5, 2*B + 1, 5}, {B - 1, 1, B, B}, {5, 5, 5, 5, 5, 5, 5}, {1, 2*B + 1, 1, 2*B + 1, B}, {B, 0, B + 1, -1, 1, B, 2}, {B / 2, B / 2, B/2 + 1, 3}}
		for i, n := 0, TierN(tier, 15, 120, 45); i < n; i++ {
			mode := []string{"refill", "poison", "windows"}[i%3]
			var sizes []int
			switch j := i / 3; {
			case j < 3:
				sizes = fixed[j]
			case tier == "quick" && rng.Bool():
				sizes = fixed[3+rng.Intn(len(fixed)-3)]
			case tier != "quick" && j < len(fixed):
				sizes = fixed[j]
			default:
				for k, m := 0, rng.Range(2, 6); k < m; k++ {
					sizes = append(sizes, atoms[rng.Intn(len(atoms))])
				}
			}
			run("slice-owned-by-renderer/"+mode, sizes, mode)
		}
		// (f) another export of the same format from inside the renderer
		for i, n := 0, TierN(tier, 2, 16, 6); i < n; i++ {
			run("nested", append(schedSmall(rng, rng.Range(3, 30)), B, 1, B+1, 2), "nested")
		}
		// (g) concurrent writers
		for i, n := 0, TierN(tier, 2, 20, 6); i < n; i++ {
			var sizes []int
			for k := 0; k < 60; k++ {
				if k%17 == 5 {
					sizes = append(sizes, atoms[rng.Intn(len(atoms))])
				} else {
					sizes = append(sizes, rng.Range(0, 5))
				}
			}
			run("concurrent-writers", sizes, "concurrent")
		}
	}
}

const schedRule = " schedule: one streamed file per case through To3MF / ToDXF / ToSVG from a scripted renderer whose Write sizes are laid out around the buffer thresholds read from the current source (tBufferSize/tBufferMargin of sdf/triangle3.go, lBufferSize/lBufferMargin of sdf/line.go; N = threshold): 1 / margin / N-1 items pending (one write or small writes) then a single write of N, N+1, 2N+3 then a tail; the same large writes onto an empty buffer, exact multiples of N, straddling writes, writes beyond the spare capacity, empty and nil writes before / between / after; k pending + one write of s + tail over a ladder of s in 0..2N+margin+2 (random phase, every s in the thorough tier); random mixtures of the threshold atoms, powers of two and small writes; renderers that own their slice (one scratch slice refilled per Write, refilled and overwritten with never-written items after each Write, windows of one array whose spare capacity holds the future items); another export of the same format started from inside the renderer; three goroutines writing at once (order free: the file must hold a permutation of the items and is judged in the order found). Items carry their index (all distinct; integer coordinates, or fractions that are exact neither in float32 nor at two decimals); every file is judged by the same oracles as all other cases against the flat list in write order, and by the Gallina model within an item budget; failing schedules are minimised (plain slices, fewer and smaller writes)."
