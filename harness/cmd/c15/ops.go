package main

// C15, operation sequences on ONE drawing object (model: coq/Io/ExportOps.v):
// NewDXF, then any interleaving of Line / Lines / Points / Triangle / Box, then Save;
// the file must hold exactly the entities the sequence supplies - kind, layer,
// coordinates, order - whatever came before each operation.  Also: chains of
// end-to-end collinear segments for every DXF/SVG entry point.

import (
	"fmt"
	"math"
	"math/big"
	"os"
	"path/filepath"
	"strconv"
	"strings"

	"github.com/deadsy/sdfx/render"
	"github.com/deadsy/sdfx/sdf"
	v2 "github.com/deadsy/sdfx/vec/v2"
	"github.com/yofu/dxf"
	"github.com/yofu/dxf/entity"
	. "verifharness/kit"
)

// DxfOp: K = line (Segs[0]), lines (Segs), points (Pts, R), triangle (Pts[0..2]), box (Pts[0]=min, Pts[1]=max)
type DxfOp struct {
	K    string       `json:"k"`
	Segs []Seg        `json:"segs,omitempty"`
	Pts  [][2]float64 `json:"pts,omitempty"`
	R    float64      `json:"r,omitempty"`
}

type expEnt struct {
	circle bool
	layer  string
	v      [6]float64 // LINE: start xyz, end xyz; CIRCLE: centre xyz, radius, 0, 0
}

func lineEnt(l Seg) expEnt {
	return expEnt{false, "Lines", [6]float64{l[0][0], l[0][1], 0, l[1][0], l[1][1], 0}}
}

// segsOf: the segments an operation supplies, as documented in render/dxf.go
func segsOf(o DxfOp) []Seg {
	switch o.K {
	case "line", "lines":
		return o.Segs
	case "triangle":
		return []Seg{{o.Pts[0], o.Pts[1]}, {o.Pts[1], o.Pts[2]}, {o.Pts[2], o.Pts[0]}}
	case "box":
		mn, mx := o.Pts[0], o.Pts[1]
		c1, c3 := [2]float64{mx[0], mn[1]}, [2]float64{mn[0], mx[1]}
		return []Seg{{mn, c1}, {c1, mx}, {mx, c3}, {c3, mn}}
	}
	return nil
}

func expected(ops []DxfOp) (es []expEnt) {
	for _, o := range ops {
		if o.K == "points" {
			for _, p := range o.Pts {
				es = append(es, expEnt{true, "Points", [6]float64{p[0], p[1], 0, o.R, 0, 0}})
			}
			continue
		}
		for _, l := range segsOf(o) {
			es = append(es, lineEnt(l))
		}
	}
	return
}

func validOps(ops []DxfOp) bool {
	for _, o := range ops {
		switch o.K {
		case "line":
			if len(o.Segs) != 1 {
				return false
			}
		case "lines", "points":
		case "triangle":
			if len(o.Pts) != 3 {
				return false
			}
		case "box":
			if len(o.Pts) != 2 {
				return false
			}
		default:
			return false
		}
	}
	return true
}

func runDXFOps(path string, ops []DxfOp) error {
	d := render.NewDXF(path)
	vec := func(p [2]float64) v2.Vec { return v2.Vec{X: p[0], Y: p[1]} }
	for _, o := range ops {
		switch o.K {
		case "line":
			d.Line(toLines(o.Segs)[0])
		case "lines":
			d.Lines(toLines(o.Segs))
		case "points":
			vs := make(v2.VecSet, len(o.Pts))
			for i, p := range o.Pts {
				vs[i] = vec(p)
			}
			d.Points(vs, o.R)
		case "triangle":
			d.Triangle(sdf.Triangle2{vec(o.Pts[0]), vec(o.Pts[1]), vec(o.Pts[2])})
		case "box":
			d.Box(&sdf.Box2{Min: vec(o.Pts[0]), Max: vec(o.Pts[1])})
		}
	}
	return d.Save()
}

type entObs struct {
	circle bool
	layer  string
	v      [6]*big.Int // units of 1e-16
}

var circleCodes = []string{"10", "20", "30", "40"}

func checkDXFOps(dir string, ops []DxfOp) (obs []entObs, bad []string) {
	path := filepath.Join(dir, "ops.dxf")
	os.Remove(path)
	if err := runDXFOps(path, ops); err != nil {
		return nil, []string{"DXF.Save: " + err.Error()}
	}
	ents, err := readDXFRaw(path)
	if err != nil {
		return nil, []string{"DXF file not readable: " + err.Error()}
	}
	for i, e := range ents {
		o := entObs{layer: e.layer}
		codes := dxfCodes
		switch e.typ {
		case "LINE":
		case "CIRCLE":
			o.circle = true
			codes = circleCodes
		default:
			return nil, []string{fmt.Sprintf("entity %d is a %s (LINE or CIRCLE expected)", i, e.typ)}
		}
		for k := range o.v {
			o.v[k] = big.NewInt(0)
		}
		for k, code := range codes {
			n, ok := decInt(strings.TrimSpace(e.c[code]), dxfDecimals)
			if !ok {
				return nil, []string{fmt.Sprintf("%s %d group %s value %q is not a %d-decimal number", e.typ, i, code, e.c[code], dxfDecimals)}
			}
			o.v[k] = n
		}
		obs = append(obs, o)
	}
	// the library's reader must see the same thing
	if d, err := dxf.FromFile(path); err != nil {
		bad = append(bad, "dxf.FromFile: "+err.Error())
	} else if es := d.Entities(); len(es) != len(obs) {
		bad = append(bad, fmt.Sprintf("dxf.FromFile sees %d entities, the line parser %d", len(es), len(obs)))
	} else {
		for i, e := range es {
			var v [6]float64
			isC := false
			switch t := e.(type) {
			case *entity.Line:
				v = [6]float64{t.Start[0], t.Start[1], t.Start[2], t.End[0], t.End[1], t.End[2]}
			case *entity.Circle:
				isC = true
				v = [6]float64{t.Center[0], t.Center[1], t.Center[2], t.Radius, 0, 0}
			default:
				bad = append(bad, fmt.Sprintf("dxf.FromFile: entity %d is neither LINE nor CIRCLE", i))
				continue
			}
			if isC != obs[i].circle || e.Layer() == nil || e.Layer().Name() != obs[i].layer {
				bad = append(bad, fmt.Sprintf("dxf.FromFile and the line parser disagree on kind/layer of entity %d", i))
			}
			for k := 0; k < 6; k++ {
				if w, _ := new(big.Rat).SetFrac(obs[i].v[k], dxfUnit).Float64(); w != v[k] {
					bad = append(bad, fmt.Sprintf("dxf.FromFile and the line parser disagree on entity %d", i))
					break
				}
			}
		}
	}
	want := expected(ops)
	if len(obs) != len(want) {
		bad = append(bad, fmt.Sprintf("%d entities in the file for %d supplied (%d operations)", len(obs), len(want), len(ops)))
		return
	}
	for i, w := range want {
		kind := map[bool]string{false: "LINE", true: "CIRCLE"}
		if obs[i].circle != w.circle {
			bad = append(bad, fmt.Sprintf("entity %d is a %s, the sequence supplies a %s there", i, kind[obs[i].circle], kind[w.circle]))
			return
		}
		if !w.circle && obs[i].layer != "Lines" {
			bad = append(bad, fmt.Sprintf("entity %d: LINE (%v,%v)-(%v,%v) is on layer %q, not Lines", i, w.v[0], w.v[1], w.v[3], w.v[4], obs[i].layer))
			return
		}
		for k := 0; k < 6; k++ {
			if x := roundHE(rat(w.v[k]), dxfDecimals); x.Cmp(obs[i].v[k]) != 0 {
				bad = append(bad, fmt.Sprintf("entity %d (%s) value %d: file has %s e-16, supplied %v", i, kind[w.circle], k, obs[i].v[k], w.v[k]))
				return
			}
		}
	}
	return
}

func vec2Term(p [2]float64) string { return fmt.Sprintf("(%s, %s)", CQ(p[0]), CQ(p[1])) }
func segsTerm(ss []Seg) string {
	ts := make([]string, len(ss))
	for i, s := range ss {
		ts[i] = segTerm(s)
	}
	return CList(ts)
}

func opsCaseTerm(id int, ops []DxfOp, obs []entObs) string {
	ot := make([]string, len(ops))
	for i, o := range ops {
		switch o.K {
		case "line":
			ot[i] = "OpLine " + segTerm(o.Segs[0])
		case "lines":
			ot[i] = "OpLines " + segsTerm(o.Segs)
		case "points":
			ps := make([]string, len(o.Pts))
			for j, p := range o.Pts {
				ps[j] = vec2Term(p)
			}
			ot[i] = fmt.Sprintf("OpPoints %s %s", CList(ps), CQ(o.R))
		case "triangle":
			ot[i] = fmt.Sprintf("OpTriangle %s %s %s", vec2Term(o.Pts[0]), vec2Term(o.Pts[1]), vec2Term(o.Pts[2]))
		case "box":
			ot[i] = fmt.Sprintf("OpBox %s %s", vec2Term(o.Pts[0]), vec2Term(o.Pts[1]))
		}
	}
	es := make([]string, len(obs))
	for i, e := range obs {
		k := 0
		if e.circle {
			k = 1
		}
		es[i] = fmt.Sprintf("(%d%%N, %s%%string, (%s, %s, %s)%%Z, (%s, %s, %s)%%Z)", k, strconv.Quote(e.layer),
			zterm(e.v[0]), zterm(e.v[1]), zterm(e.v[2]), zterm(e.v[3]), zterm(e.v[4]), zterm(e.v[5]))
	}
	return fmt.Sprintf("(%d%%N, %s,\n %s)", id, CList(ot), CList(es))
}

// genOps: a random history of the drawing object.  The stratum names where Points calls sit
// relative to the segment-producing operations.
func genOps(rng *Rng, k int) (string, []DxfOp) {
	mags := []int{magGrid, magFloat, magLarge, magTiny, magHuge}
	mag := mags[k%len(mags)]
	pt := func() [2]float64 { return [2]float64{coord(rng, mag), coord(rng, mag)} }
	n := rng.Range(1, 7)
	switch {
	case k%29 == 11:
		n = 0
	case k%17 == 5:
		n = rng.Range(8, 30)
	}
	pPoints := []int{0, 4, 2, 3}[k%4] // 0: never, else one in pPoints operations is a Points call
	ops := make([]DxfOp, n)
	for i := range ops {
		kind := rng.Intn(4)
		if pPoints > 0 && rng.Intn(pPoints) == 0 {
			kind = 4
		}
		switch kind {
		case 0:
			ops[i] = DxfOp{K: "line", Segs: []Seg{{pt(), pt()}}}
		case 1:
			ss := make([]Seg, rng.Range(0, 5))
			for j := range ss {
				ss[j] = Seg{pt(), pt()}
				if j > 0 && rng.Intn(3) == 0 {
					ss[j][0] = ss[j-1][1]
				}
			}
			ops[i] = DxfOp{K: "lines", Segs: ss}
		case 2:
			ops[i] = DxfOp{K: "triangle", Pts: [][2]float64{pt(), pt(), pt()}}
		case 3:
			a, b := pt(), pt()
			mn := [2]float64{math.Min(a[0], b[0]), math.Min(a[1], b[1])}
			mx := [2]float64{math.Max(a[0], b[0]), math.Max(a[1], b[1])}
			ops[i] = DxfOp{K: "box", Pts: [][2]float64{mn, mx}}
		default:
			ps := make([][2]float64, rng.Range(0, 4))
			for j := range ps {
				ps[j] = pt()
			}
			ops[i] = DxfOp{K: "points", Pts: ps, R: float64(rng.Range(1, 40)) / 8}
		}
	}
	return fmt.Sprintf("%s/%s", opsShape(ops), magName[mag]), ops
}

func opsShape(ops []DxfOp) string {
	firstP, lastP, firstS, lastS := -1, -1, -1, -1
	for i, o := range ops {
		if o.K == "points" {
			if firstP < 0 {
				firstP = i
			}
			lastP = i
		} else if len(segsOf(o)) > 0 {
			if firstS < 0 {
				firstS = i
			}
			lastS = i
		}
	}
	switch {
	case len(ops) == 0:
		return "empty"
	case firstP < 0:
		return "segments-only"
	case firstS < 0:
		return "points-only"
	case firstP > lastS:
		return "points-after-all-segments"
	case lastP < firstS:
		return "points-before-all-segments"
	}
	return "points-interleaved"
}

func shrinkOps(ops []DxfOp, fails func([]DxfOp) bool) []DxfOp {
	for step := len(ops) / 2; step >= 1; step /= 2 {
		for i := 0; i+step <= len(ops) && len(ops) > 1; {
			cand := append(append([]DxfOp{}, ops[:i]...), ops[i+step:]...)
			if fails(cand) {
				ops = cand
			} else {
				i += step
			}
		}
	}
	// then thin the lists inside the operations
	for i := range ops {
		for len(ops[i].Segs) > 1 && ops[i].K == "lines" {
			c := append([]DxfOp{}, ops...)
			c[i].Segs = ops[i].Segs[1:]
			if !fails(c) {
				break
			}
			ops = c
		}
		for len(ops[i].Pts) > 0 && ops[i].K == "points" {
			c := append([]DxfOp{}, ops...)
			c[i].Pts = ops[i].Pts[1:]
			if !fails(c) {
				break
			}
			ops = c
		}
	}
	return ops
}

// genChain: segments laid end to end along one straight line, consecutive ones sharing
// a bit-identical end point (what a contour renderer emits along a straight edge), with
// repeated, reversed and zero-length members mixed in.  Coordinates stay on a dyadic
// grid (or the chain is axis-parallel) so that the collinearity is exact in float64.
func genChain(rng *Rng, k int) (string, [][]Seg) {
	var b, d [2]float64
	dirName := ""
	switch k % 4 {
	case 0:
		b, d, dirName = [2]float64{coord(rng, magFloat), coord(rng, magFloat)}, [2]float64{rng.Uniform(0.1, 3), 0}, "horizontal/float64"
		if rng.Bool() {
			d[0] = -d[0]
		}
	case 1:
		b, d, dirName = [2]float64{coord(rng, magLarge), coord(rng, magLarge)}, [2]float64{0, float64(rng.Range(1, 16)) / 8}, "vertical/large"
		if rng.Bool() {
			d[1] = -d[1]
		}
	case 2:
		b = [2]float64{rng.Dyadic(64, 3), rng.Dyadic(64, 3)}
		d, dirName = [2]float64{float64(rng.Range(-8, 8)) / 4, float64(rng.Range(1, 8)) / 4}, "oblique/grid"
	default:
		b = [2]float64{rng.Dyadic(64, 3), rng.Dyadic(64, 3)}
		d, dirName = [2]float64{float64(rng.Range(1, 8)) / 8, float64(rng.Range(-8, 8)) / 8}, "oblique/grid"
	}
	at := func(t int) [2]float64 { return [2]float64{b[0] + float64(t)*d[0], b[1] + float64(t)*d[1]} }
	n := rng.Range(2, 10)
	if k%19 == 7 {
		n = rng.Range(130, 300)
	}
	segs := make([]Seg, 0, n)
	t := 0
	last := at(0)
	for len(segs) < n {
		switch rng.Intn(10) {
		case 0: // zero-length at the running end
			segs = append(segs, Seg{last, last})
		case 1: // the previous segment again
			if len(segs) > 0 {
				segs = append(segs, segs[len(segs)-1])
			}
		case 2: // turn round: same line, opposite direction, from the running end
			t -= rng.Range(1, 3)
			q := at(t)
			segs = append(segs, Seg{last, q})
			last = q
		case 3: // a gap, then carry on
			t += rng.Range(1, 3)
			last = at(t)
		default: // carry straight on from the running end
			t += rng.Range(1, 3)
			q := at(t)
			segs = append(segs, Seg{last, q})
			last = q
		}
	}
	var chunks [][]Seg
	i := 0
	for _, c := range chunkInts(rng, len(segs), k%4) {
		chunks = append(chunks, segs[i:i+c])
		i += c
	}
	return "collinear-chain/" + dirName, chunks
}
