package main

// C15, one-process HISTORIES of export calls.  The property speaks about every file an
// export writes, whatever the process did before: a history is a sequence of export calls
// (3MF, DXF, SVG; To*, Save* and the object APIs) in which
//   - some calls FAIL (path in a directory that does not exist, a directory as path,
//     /dev/full: the file can be created but every write fails),
//   - later calls export the same geometry again, or geometry sharing vertices / segments
//     with what a failed or earlier call was given,
//   - files are written over earlier (larger or smaller) files,
//   - an export runs while another one is under way (started from inside the renderer of a
//     To* call, or between the calls on a drawing object: deterministic interleaving).
// Every file of a call that was not made to fail is read back at once and judged exactly
// like the file of a fresh process (same Go oracles, same Coq model cases); at the end of
// the history the last file written to each path is judged once more.  A failing history is
// confirmed and minimised in FRESH processes (`c15 hist`), so that the reported input does
// not depend on what this process did before.

import (
	"bytes"
	"encoding/json"
	"fmt"
	"os"
	"os/exec"
	"path/filepath"
	"strconv"
	"strings"
	"time"

	"github.com/deadsy/sdfx/render"
	. "verifharness/kit"
)

type HStep struct {
	F     string  `json:"f"`               // "3mf" | "dxf" | "svg"
	Via   int     `json:"via"`             // 0: To3MF/ToDXF/ToSVG, 1: SaveDXF/SaveSVG, 2: NewDXF+Lines+Save / NewSVG+Line+Save
	Fault string  `json:"fault,omitempty"` // "" | "nodir" | "isdir" | "devfull"
	Path  int     `json:"path"`            // file name index: the same index in a later step overwrites the file
	Style int     `json:"style,omitempty"` // svg line style (Save*, object API)
	T     [][]Tri `json:"t,omitempty"`
	S     [][]Seg `json:"s,omitempty"`
	At    int     `json:"at,omitempty"`    // Inner runs once this many chunks have been handed over
	Inner []HStep `json:"inner,omitempty"` // exports performed while this one is under way
}

var histStyles = []string{"stroke:red;stroke-width:0.25", "fill:none;stroke:blue;stroke-width:2", "stroke:#0a0"}

const devFull = "/dev/full"

func haveDevFull() bool {
	st, err := os.Stat(devFull)
	return err == nil && st.Mode()&os.ModeCharDevice != 0
}

func validHist(steps []HStep, depth int) bool {
	if depth > 3 {
		return false
	}
	for _, s := range steps {
		switch s.F {
		case "3mf":
			if s.Via != 0 || len(s.S) != 0 || !finiteT(s.T) {
				return false
			}
		case "dxf", "svg":
			if s.Via < 0 || s.Via > 2 || len(s.T) != 0 {
				return false
			}
		default:
			return false
		}
		switch s.Fault {
		case "", "nodir", "isdir", "devfull":
		default:
			return false
		}
		if s.Path < 0 || s.Path > 9 || s.Style < 0 || s.Style >= len(histStyles) || s.At < 0 {
			return false
		}
		if len(s.Inner) > 0 && s.Via == 1 {
			return false // Save* takes the whole list in one call: nothing can happen in between
		}
		if !validHist(s.Inner, depth+1) {
			return false
		}
	}
	return true
}

func (s *HStep) items() int {
	if s.F == "3mf" {
		return len(flatT(s.T))
	}
	return len(flatS(s.S))
}

func (s *HStep) name() string {
	n := map[string][]string{"3mf": {"To3MF"}, "dxf": {"ToDXF", "SaveDXF", "NewDXF+Lines+Save"}, "svg": {"ToSVG", "SaveSVG", "NewSVG+Line+Save"}}[s.F][s.Via]
	if s.Fault != "" {
		n += "[" + s.Fault + "]"
	}
	return n
}

// one completed, not faulted export of a history, read back
type histFile struct {
	step  *HStep
	label string // position in the history, e.g. "step 2" or "step 1.0" (first inner export of step 1)
	path  string
	style string
	mf    *mfObs
	dxf   *dxfObs
	svg   *svgObs
	bad   []string
}

type histRun struct {
	dir   string
	files []*histFile
	last  map[string]*histFile // path -> last export written there
	bad   []string
}

func (h *histRun) verify(f *histFile) []string {
	switch f.step.F {
	case "3mf":
		var b []string
		f.mf, b = verify3MF(f.path, flatT(f.step.T))
		return b
	case "dxf":
		var b []string
		f.dxf, b = verifyDXF(f.path, flatS(f.step.S))
		return b
	}
	var b []string
	f.svg, b = verifySVG(f.path, f.style, flatS(f.step.S))
	return b
}

func (h *histRun) run(steps []HStep, depth int, prefix string) {
	for i := range steps {
		s := &steps[i]
		label := fmt.Sprintf("%s%d", prefix, i)
		// the file name carries the nesting depth: an inner export never writes the file of an enclosing one
		path := filepath.Join(h.dir, fmt.Sprintf("h%d_%d.%s", depth, s.Path, s.F))
		switch s.Fault {
		case "nodir":
			path = filepath.Join(h.dir, "no-such-directory", "h."+s.F)
		case "isdir":
			path = filepath.Join(h.dir, "a-directory")
			os.MkdirAll(path, 0o755)
		case "devfull":
			path = devFull
			if !haveDevFull() { // never create a regular file of that name
				path = filepath.Join(h.dir, "no-such-directory", "h."+s.F)
			}
		}
		var hook func()
		if len(s.Inner) > 0 {
			inner := s.Inner
			hook = func() { h.run(inner, depth+1, label+".") }
		}
		style := histStyles[s.Style]
		var err error
		switch s.F {
		case "3mf":
			quiet(func() { render.To3MF(nil, path, &script3{s.T, s.At, hook}) })
		case "dxf":
			err = writeDXFVia(path, s.Via, s.S, s.At, hook)
		case "svg":
			style, err = writeSVGVia(path, s.Via, style, s.S, s.At, hook)
		}
		if s.Fault != "" {
			continue // nothing is promised about a call that cannot write its file, except that it returns
		}
		f := &histFile{step: s, label: label, path: path, style: style}
		if err != nil {
			f.bad = []string{err.Error()}
		} else {
			f.bad = h.verify(f)
		}
		h.files = append(h.files, f)
		h.last[path] = f
		if len(f.bad) > 0 {
			h.bad = append(h.bad, fmt.Sprintf("step %s (%s, %d items) of the history: %s", label, s.name(), s.items(), f.bad[0]))
		}
	}
}

// runHist performs the history in this process; files live in dir (emptied first).
func runHist(dir string, steps []HStep) *histRun {
	os.RemoveAll(dir)
	os.MkdirAll(dir, 0o755)
	h := &histRun{dir: dir, last: map[string]*histFile{}}
	h.run(steps, 0, "")
	// the later exports must not have touched the files written earlier
	for _, f := range h.files {
		if h.last[f.path] != f || len(f.bad) > 0 {
			continue
		}
		g := *f
		if b := h.verify(&g); len(b) > 0 {
			h.bad = append(h.bad, fmt.Sprintf("step %s (%s): its file was right when written but not at the end of the history: %s", f.label, f.step.name(), b[0]))
		}
	}
	return h
}

const histTimeout = 30 * time.Second

// runHistTimed: nil if the history did not come back (exports waiting for each other)
func runHistTimed(dir string, steps []HStep, limit time.Duration) *histRun {
	done := make(chan *histRun, 1)
	go func() { done <- runHist(dir, steps) }()
	select {
	case h := <-done:
		return h
	case <-time.After(limit):
		return nil
	}
}

const histHang = "the exports of the history did not return (one export waits for another)"

// histMain is `c15 hist <dir> [seconds]`: history (JSON) on stdin, verdict (JSON list of violations) on stdout
func histMain() {
	limit := histTimeout
	if len(os.Args) >= 4 {
		if n, err := strconv.Atoi(os.Args[3]); err == nil && n > 0 {
			limit = time.Duration(n) * time.Second
		}
	}
	var steps []HStep
	if err := json.NewDecoder(os.Stdin).Decode(&steps); err != nil || len(os.Args) < 3 || !validHist(steps, 0) {
		fmt.Println("c15 hist: bad input")
		os.Exit(2)
	}
	h := runHistTimed(os.Args[2], steps, limit)
	bad := []string{histHang}
	if h != nil {
		bad = h.bad
		if bad == nil {
			bad = []string{}
		}
	}
	b, _ := json.Marshal(bad)
	os.Stdout.Write(b)
}

// freshHist runs the history in a new process; ok=false if that could not be done
func freshHist(dir string, steps []HStep, limit time.Duration) (bad []string, ok bool) {
	exe, err := os.Executable()
	if err != nil {
		return nil, false
	}
	in, _ := json.Marshal(steps)
	cmd := exec.Command(exe, "hist", filepath.Join(dir, "fresh"), strconv.Itoa(int(limit/time.Second)))
	cmd.Stdin = bytes.NewReader(in)
	var out bytes.Buffer
	cmd.Stdout = &out
	if err := cmd.Start(); err != nil {
		return nil, false
	}
	done := make(chan error, 1)
	go func() { done <- cmd.Wait() }()
	select {
	case err = <-done:
	case <-time.After(limit + 10*time.Second):
		cmd.Process.Kill()
		<-done
		return []string{histHang}, true
	}
	// the exporters print on stdout too (errors of the failing calls): the verdict is the last line
	lines := strings.Split(strings.TrimSpace(out.String()), "\n")
	if err != nil || json.Unmarshal([]byte(lines[len(lines)-1]), &bad) != nil {
		return nil, false
	}
	return bad, true
}

// shrinkHist: fewer steps, no inner exports, smaller payloads, as long as a fresh process still fails
func shrinkHist(steps []HStep, fails func([]HStep) bool) []HStep {
	budget := 120
	deadline := time.Now().Add(90 * time.Second)
	try := func(c []HStep) bool {
		if budget <= 0 || time.Now().After(deadline) {
			return false
		}
		budget--
		return fails(c)
	}
	clone := func(s []HStep) []HStep {
		b, _ := json.Marshal(s)
		var c []HStep
		json.Unmarshal(b, &c)
		return c
	}
	// hoist inner exports out (they become ordinary steps before their host), then drop steps
	for i := 0; i < len(steps); i++ {
		if len(steps[i].Inner) == 0 {
			continue
		}
		c := clone(steps)
		inner := c[i].Inner
		c[i].Inner, c[i].At = nil, 0
		c = append(append(append([]HStep{}, c[:i]...), inner...), c[i:]...)
		if try(c) {
			steps = c
			i = -1
		}
	}
	for step := len(steps) / 2; step >= 1; step /= 2 {
		for i := 0; i+step <= len(steps) && len(steps) > 1; {
			c := append(clone(steps[:i]), clone(steps[i+step:])...)
			if try(c) {
				steps = c
			} else {
				i += step
			}
		}
	}
	// payloads: one chunk, then fewer items
	for i := range steps {
		if steps[i].F == "3mf" {
			ts := flatT(steps[i].T)
			ts = shrinkT(ts, func(x []Tri) bool { c := clone(steps); c[i].T, c[i].At = [][]Tri{x}, 0; return try(c) })
			c := clone(steps)
			c[i].T, c[i].At = [][]Tri{ts}, 0
			if try(c) {
				steps = c
			}
		} else {
			ss := flatS(steps[i].S)
			ss = shrinkS(ss, func(x []Seg) bool { c := clone(steps); c[i].S, c[i].At = [][]Seg{x}, 0; return try(c) })
			c := clone(steps)
			c[i].S, c[i].At = [][]Seg{ss}, 0
			if try(c) {
				steps = c
			}
		}
	}
	return steps
}

// ------------------------------------------------------------------ generators

// related payloads: the same items again, a part of them, the same vertices in other
// triangles / segments, mixed with new ones
func relatedT(rng *Rng, prev [][]Tri, k int) [][]Tri {
	p := flatT(prev)
	if len(p) == 0 {
		_, ch := genTris(rng, 2*rng.Intn(500), -1)
		return ch
	}
	var ts []Tri
	switch rng.Intn(5) {
	case 0: // the same mesh again, same chunking
		return prev
	case 1: // the same mesh again, cut differently
		ts = p
	case 2: // a part of it, in another order
		for _, i := range rng.Perm(len(p))[:1+rng.Intn(len(p))] {
			ts = append(ts, p[i])
		}
	case 3: // other triangles over the same vertices
		n := rng.Range(1, 8)
		for i := 0; i < n; i++ {
			ts = append(ts, Tri{p[rng.Intn(len(p))][rng.Intn(3)], p[rng.Intn(len(p))][rng.Intn(3)], p[rng.Intn(len(p))][rng.Intn(3)]})
		}
	default: // some of its vertices, some new ones
		_, ch := genTris(rng, 2*rng.Intn(500), -1)
		ts = flatT(ch)
		for i := range ts {
			if rng.Bool() {
				ts[i][rng.Intn(3)] = p[rng.Intn(len(p))][rng.Intn(3)]
			}
		}
		if rng.Bool() {
			ts = append(ts, p[rng.Intn(len(p))])
		}
	}
	var chunks [][]Tri
	i := 0
	for _, c := range chunkInts(rng, len(ts), k%4) {
		chunks = append(chunks, ts[i:i+c])
		i += c
	}
	return chunks
}

func relatedS(rng *Rng, prev [][]Seg, k int) [][]Seg {
	p := flatS(prev)
	if len(p) == 0 {
		_, ch := genSegs(rng, 2*rng.Intn(500))
		return ch
	}
	var ss []Seg
	switch rng.Intn(5) {
	case 0:
		return prev
	case 1:
		ss = p
	case 2:
		for _, i := range rng.Perm(len(p))[:1+rng.Intn(len(p))] {
			ss = append(ss, p[i])
		}
	case 3: // other segments between the same end points (the extent may shrink: SVG shift and flip change)
		n := rng.Range(1, 8)
		for i := 0; i < n; i++ {
			ss = append(ss, Seg{p[rng.Intn(len(p))][rng.Intn(2)], p[rng.Intn(len(p))][rng.Intn(2)]})
		}
	default:
		_, ch := genSegs(rng, 2*rng.Intn(500))
		ss = flatS(ch)
		for i := range ss {
			if rng.Bool() {
				ss[i][rng.Intn(2)] = p[rng.Intn(len(p))][rng.Intn(2)]
			}
		}
		if rng.Bool() {
			ss = append(ss, p[rng.Intn(len(p))])
		}
	}
	var chunks [][]Seg
	i := 0
	for _, c := range chunkInts(rng, len(ss), k%4) {
		chunks = append(chunks, ss[i:i+c])
		i += c
	}
	return chunks
}

// payload sizes: mostly small (the Coq side evaluates every written file), sometimes beyond the channel buffers
func histKey(rng *Rng, big bool) int {
	for {
		k := rng.Intn(2000)
		large := k%97 == 41 || k%89 == 41
		medium := k%13 == 5
		if big && large {
			return k
		}
		if !big && !large && !(medium && rng.Intn(3) != 0) {
			return k
		}
	}
}

var histFaults = []string{"devfull", "nodir", "isdir"}

// genHist: the k-th history.  Shapes:
//
//	failed-then-retried   a failing call, then the same geometry to a good path, then related geometry
//	same-twice            the same geometry three times (same path, another path)
//	overwrite             a file written over a larger / smaller / other-format-sized earlier one
//	nested                an export started while another is under way (optionally failing / related)
//	mixed                 2..6 calls, all formats and entry points, failures and inner exports at random
func genHist(rng *Rng, k int, devfull bool) (string, []HStep) {
	shape := []string{"failed-then-retried", "same-twice", "overwrite", "nested", "mixed", "failed-then-retried", "nested"}[k%7]
	fmtOf := []string{"3mf", "dxf", "svg"}[(k/7)%3]
	big := k%25 == 9
	fault := func() string {
		f := histFaults[rng.Intn(len(histFaults))]
		if k%2 == 0 {
			f = "devfull" // the call that creates its file and then fails to fill it
		}
		if f == "devfull" && !devfull {
			f = "nodir"
		}
		return f
	}
	mk := func(f string, prev *HStep) HStep {
		s := HStep{F: f, Path: rng.Intn(2)}
		if f != "3mf" {
			s.Via = rng.Intn(3)
		}
		if f == "svg" {
			s.Style = rng.Intn(len(histStyles))
		}
		if prev != nil && prev.F == "3mf" && f != "3mf" {
			prev = nil
		} else if prev != nil && prev.F != "3mf" && f == "3mf" {
			prev = nil
		}
		if f == "3mf" {
			if prev != nil {
				s.T = relatedT(rng, prev.T, rng.Intn(4))
			} else {
				_, s.T = genTris(rng, histKey(rng, big), -1)
			}
		} else {
			if prev != nil {
				s.S = relatedS(rng, prev.S, rng.Intn(4))
			} else {
				_, s.S = genSegs(rng, histKey(rng, big))
			}
		}
		return s
	}
	nchunks := func(s *HStep) int {
		if s.F == "3mf" {
			return len(s.T)
		}
		return len(s.S)
	}
	var steps []HStep
	switch shape {
	case "failed-then-retried":
		a := mk(fmtOf, nil)
		a.Fault = fault()
		b := a // the retry: same geometry, same entry point (or another one of the format), good path
		b.Fault = ""
		if b.F != "3mf" && rng.Bool() {
			b.Via = rng.Intn(3)
		}
		c := mk(fmtOf, &a)
		steps = []HStep{a, b, c}
		if rng.Intn(3) == 0 { // a success before the failure
			steps = append([]HStep{mk(fmtOf, &a)}, steps...)
		}
		if rng.Intn(3) == 0 { // two failures in a row
			a2 := mk(fmtOf, &a)
			a2.Fault = fault()
			steps = append([]HStep{a, a2}, steps[1:]...)
		}
	case "same-twice":
		a := mk(fmtOf, nil)
		b, c := a, a
		c.Path = 1 - a.Path
		if a.F != "3mf" {
			b.Via, c.Via = rng.Intn(3), rng.Intn(3)
		}
		steps = []HStep{a, b, c}
	case "overwrite":
		a := mk(fmtOf, nil)
		b := mk(fmtOf, &a)
		b.Path = a.Path
		if rng.Bool() { // small first, then large
			a, b = b, a
		}
		c := mk(fmtOf, &b)
		c.Path = a.Path
		steps = []HStep{a, b, c}
		if rng.Intn(3) == 0 {
			steps[1].Fault = fault()
		}
	case "nested":
		a := mk(fmtOf, nil)
		if a.Via == 1 {
			a.Via = 2 * rng.Intn(2)
		}
		in := mk(fmtOf, &a)
		if rng.Intn(4) == 0 {
			in = mk([]string{"3mf", "dxf", "svg"}[rng.Intn(3)], nil)
		}
		if rng.Intn(3) == 0 {
			in.Fault = fault()
		}
		a.At = rng.Intn(nchunks(&a) + 1)
		a.Inner = []HStep{in}
		if rng.Intn(3) == 0 {
			a.Inner = append(a.Inner, mk(fmtOf, &a))
		}
		steps = []HStep{a, mk(fmtOf, &a)}
		if rng.Intn(3) == 0 { // the host itself cannot write its file; the inner one can
			steps[0].Fault = fault()
		}
	default:
		n := rng.Range(2, 6)
		for i := 0; i < n; i++ {
			f := fmtOf
			if rng.Intn(3) == 0 {
				f = []string{"3mf", "dxf", "svg"}[rng.Intn(3)]
			}
			var prev *HStep
			if i > 0 && rng.Intn(4) != 0 {
				prev = &steps[rng.Intn(i)]
			}
			s := mk(f, prev)
			if rng.Intn(3) == 0 {
				s.Fault = fault()
			}
			if s.Via != 1 && rng.Intn(4) == 0 {
				in := mk(f, &s)
				if rng.Intn(3) == 0 {
					in.Fault = fault()
				}
				s.At = rng.Intn(nchunks(&s) + 1)
				s.Inner = []HStep{in}
			}
			steps = append(steps, s)
		}
	}
	size := "small"
	if big {
		size = "beyond-buffers"
	}
	return fmt.Sprintf("%s/%s/%s", shape, fmtOf, size), steps
}

// histFeatures: what the history exercises (coverage counters)
func histFeatures(steps []HStep, cnt map[string]int) {
	failedBefore := false
	var walk func(ss []HStep, depth int)
	walk = func(ss []HStep, depth int) {
		for i := range ss {
			s := &ss[i]
			if s.Fault != "" {
				cnt["failing-call/"+s.F+"/"+s.Fault]++
				failedBefore = true
			} else {
				cnt["written-file/"+s.name()]++
				if failedBefore {
					cnt["written-after-a-failed-call/"+s.F]++
				}
			}
			if depth > 0 {
				cnt["export-inside-export/"+s.F]++
			}
			walk(s.Inner, depth+1)
		}
	}
	walk(steps, 0)
}
