package main

// C04: the polygon SDF (sdf.Polygon2D / Mesh2D, quadtree accelerated) against the brute-force
// reference (sdf.Mesh2DSlow) and an exact rational specification (crossing number written with
// cross products + exact squared segment distance), on the full grid
//   {vertex xs, quadtree split-line xs, box xs, far} x {vertex ys, split-line ys, box ys, far}
// plus random points.  Model: coq/Sdf/Poly.v (cases evaluated by coq/Sdf/C04Corr.v).
// Since "fix: Box2.lineIntersect clips by coordinates" no polygon is outside the claimed class:
// vertices and edges on, 1..3 ulp and 1e-12..1e-7 next to split lines are generated in every tier.

import (
	"encoding/json"
	"fmt"
	"hash/fnv"
	"math"
	"math/big"
	"os"
	"path/filepath"
	"sort"
	"strings"

	"github.com/deadsy/sdfx/sdf"
	v2 "github.com/deadsy/sdfx/vec/v2"
	"verifharness/exprgen"
	. "verifharness/kit"
	"verifharness/sdfgen"
)

// gen: Generated/SdfExpr.v (newLineInfo, lineInfo.minDistance2, lineInfo.winding translated from the
// current source; Sdf/GenEqPoly.v, an obligation of Props/C04.v) and the MatrixExpr.v it imports
func main() { Main("C04", check, stateGen, exprgen.Gen, sdfgen.Gen) }

const imp = "From Sdfx Require Import Sdf.C04Corr.\nOpen Scope float_scope."

// ---------------------------------------------------------------- corpus

type corpusPoly struct {
	Name   string       `json:"name"`
	V      [][2]float64 `json:"v"`
	Points [][2]float64 `json:"points"`      // replayed in addition to the grid
	Only   bool         `json:"only_points"` // evaluate the listed points only (a fixed key set)
}

type corpusFile struct {
	Polygons []corpusPoly `json:"polygons"`
}

// ---------------------------------------------------------------- exact arithmetic

func rat(x float64) *big.Rat { return new(big.Rat).SetFloat64(x) }

type seg struct{ ax, ay, bx, by float64 }

// sign of cross(b-a, p-a), exact (float filter, rational fallback)
func crossSign(s seg, px, py float64) int {
	vx, vy := s.bx-s.ax, s.by-s.ay
	wx, wy := px-s.ax, py-s.ay
	t1, t2 := vx*wy, vy*wx
	c := t1 - t2
	if bound := 8 * 2.3e-16 * (math.Abs(t1) + math.Abs(t2)); math.Abs(c) > bound && !math.IsInf(c, 0) {
		if c > 0 {
			return 1
		}
		return -1
	}
	rvx := new(big.Rat).Sub(rat(s.bx), rat(s.ax))
	rvy := new(big.Rat).Sub(rat(s.by), rat(s.ay))
	rwx := new(big.Rat).Sub(rat(px), rat(s.ax))
	rwy := new(big.Rat).Sub(rat(py), rat(s.ay))
	a := new(big.Rat).Mul(rvx, rwy)
	b := new(big.Rat).Mul(rvy, rwx)
	return a.Cmp(b)
}

// the specification crossing number (half-open rule on the exact coordinates)
func exactWinding(segs []seg, px, py float64) int {
	wn := 0
	for _, s := range segs {
		if s.ay <= py {
			if s.by > py && crossSign(s, px, py) > 0 {
				wn++
			}
		} else if s.by <= py && crossSign(s, px, py) < 0 {
			wn--
		}
	}
	return wn
}

func segDist2Float(s seg, px, py float64) float64 {
	vx, vy := s.bx-s.ax, s.by-s.ay
	wx, wy := px-s.ax, py-s.ay
	c := wx*vx + wy*vy
	vv := vx*vx + vy*vy
	if c <= 0 {
		return wx*wx + wy*wy
	}
	if c >= vv {
		ux, uy := px-s.bx, py-s.by
		return ux*ux + uy*uy
	}
	k := vx*wy - vy*wx
	return k * k / vv
}

func segDist2Exact(s seg, px, py float64) *big.Rat {
	vx := new(big.Rat).Sub(rat(s.bx), rat(s.ax))
	vy := new(big.Rat).Sub(rat(s.by), rat(s.ay))
	wx := new(big.Rat).Sub(rat(px), rat(s.ax))
	wy := new(big.Rat).Sub(rat(py), rat(s.ay))
	mul := func(a, b *big.Rat) *big.Rat { return new(big.Rat).Mul(a, b) }
	c := new(big.Rat).Add(mul(wx, vx), mul(wy, vy))
	vv := new(big.Rat).Add(mul(vx, vx), mul(vy, vy))
	if c.Sign() <= 0 {
		return new(big.Rat).Add(mul(wx, wx), mul(wy, wy))
	}
	if c.Cmp(vv) >= 0 {
		ux := new(big.Rat).Sub(rat(px), rat(s.bx))
		uy := new(big.Rat).Sub(rat(py), rat(s.by))
		return new(big.Rat).Add(mul(ux, ux), mul(uy, uy))
	}
	k := new(big.Rat).Sub(mul(vx, wy), mul(vy, wx))
	return new(big.Rat).Quo(mul(k, k), vv)
}

// exact squared distance from p to the polygon boundary
func exactDist2(segs []seg, px, py, scale float64) *big.Rat {
	est := make([]float64, len(segs))
	mn := math.Inf(1)
	wmax := scale
	for i, s := range segs {
		est[i] = segDist2Float(s, px, py)
		if est[i] < mn {
			mn = est[i]
		}
		wmax = math.Max(wmax, math.Max(math.Abs(px-s.ax), math.Abs(py-s.ay)))
	}
	slack := mn*1e-6 + 1e-9*wmax*math.Sqrt(mn) + 1e-18*wmax*wmax
	var best *big.Rat
	for i, s := range segs {
		if est[i] <= mn+slack {
			d := segDist2Exact(s, px, py)
			if best == nil || d.Cmp(best) < 0 {
				best = d
			}
		}
	}
	return best
}

// ---------------------------------------------------------------- polygon families

type poly struct {
	name   string
	family string
	v      []v2.Vec
	extra  []v2.Vec // additional query points (corpus)
	only   bool     // evaluate only the extra points
	exact  bool     // every cut point is expected to lie exactly on its segment (axis-parallel edges)
	mid    bool     // add the rows/columns midway between consecutive grid levels (strictly inside short walls)
	light  bool     // small grid / few random points (strata that multiply the number of polygons)
	noCoq  bool     // oracles only (very many segments: the Coq cases would dominate the quick tier)
	probe  []qpoint // additional query points with their own stratum (shortedge.go: level with the short edges)
	capDiv int      // > 0: divide the grid cap / number of random points by this (instead of the `light` factors)
	closed bool     // hand over the explicitly closed vertex list v0 .. vn-1, v0
}

// polygonArg returns the vertex list handed to Polygon2D / VertexToLine for the polygon v0 .. vn-1: the open
// list as a rule, the explicitly closed list v0 .. vn-1, v0 (last == first exactly: no closing edge is to
// be added) where asked for.  (Until sdfx bf5538d VertexToLine took a last vertex within 1e-9 of the first
// as "already closed" and left the gap open; open lists with such a closing edge are generated on purpose.)
func polygonArg(v []v2.Vec, closed bool) []v2.Vec {
	if closed && v[0] != v[len(v)-1] {
		return append(append(make([]v2.Vec, 0, len(v)+1), v...), v[0])
	}
	return v
}

// specSegs: the edges of the closed polygon v0 .. vn-1 (v0) straight from the vertex list - consecutive
// pairs plus the closing edge -, independent of the library (sdf.VertexToLine is part of what is checked:
// an edge it leaves out or moves must show up against the oracles).  Repeated vertices give no edge.
func specSegs(v []v2.Vec) []seg {
	var out []seg
	for i, a := range v {
		b := v[(i+1)%len(v)]
		if a != b {
			out = append(out, seg{a.X, a.Y, b.X, b.Y})
		}
	}
	return out
}

func reverse(v []v2.Vec) []v2.Vec {
	n := len(v)
	out := make([]v2.Vec, n)
	for i := range v {
		out[n-1-i] = v[i]
	}
	return out
}

func xform(v []v2.Vec, k float64, dx, dy float64) []v2.Vec {
	out := make([]v2.Vec, len(v))
	for i, p := range v {
		out[i] = v2.Vec{X: p.X*k + dx, Y: p.Y*k + dy}
	}
	return out
}

func roundDy(v []v2.Vec, bits uint) []v2.Vec {
	k := float64(int64(1) << bits)
	out := make([]v2.Vec, len(v))
	for i, p := range v {
		out[i] = v2.Vec{X: math.Round(p.X*k) / k, Y: math.Round(p.Y*k) / k}
	}
	return out
}

func star(n int, R, r, rot float64) []v2.Vec {
	var v []v2.Vec
	for i := 0; i < 2*n; i++ {
		rad := R
		if i%2 == 1 {
			rad = r
		}
		a := rot + float64(i)*math.Pi/float64(n)
		v = append(v, v2.Vec{X: rad * math.Cos(a), Y: rad * math.Sin(a)})
	}
	return v
}

func ngon(n int, rad func(i int) float64, rot float64) []v2.Vec {
	var v []v2.Vec
	for i := 0; i < n; i++ {
		a := rot + 2*math.Pi*float64(i)/float64(n)
		v = append(v, v2.Vec{X: rad(i) * math.Cos(a), Y: rad(i) * math.Sin(a)})
	}
	return v
}

// rectilinear "skyline": a base line and columns of varying height; adjacent columns of equal
// height give collinear horizontal edges, extra vertices on straight edges give collinear pairs.
func skyline(rng *Rng, cols int, unit float64) []v2.Vec {
	v := []v2.Vec{{X: 0, Y: 0}}
	if rng.Bool() { // extra collinear vertex on the base
		v = append(v, v2.Vec{X: float64(cols) * unit / 2, Y: 0})
	}
	v = append(v, v2.Vec{X: float64(cols) * unit, Y: 0})
	for c := cols - 1; c >= 0; c-- {
		h := float64(rng.Range(1, 4)) * unit
		v = append(v, v2.Vec{X: float64(c+1) * unit, Y: h}, v2.Vec{X: float64(c) * unit, Y: h})
	}
	return dedup(v)
}

func dedup(v []v2.Vec) []v2.Vec {
	var out []v2.Vec
	for i, p := range v {
		if i > 0 && p == out[len(out)-1] {
			continue
		}
		out = append(out, p)
	}
	for len(out) > 1 && out[0] == out[len(out)-1] {
		out = out[:len(out)-1]
	}
	return out
}

// comb: a spine with n teeth pointing up
func comb(n int, toothW, gapW, h, spine float64) []v2.Vec {
	v := []v2.Vec{{X: 0, Y: 0}}
	w := float64(n)*toothW + float64(n-1)*gapW
	v = append(v, v2.Vec{X: w, Y: 0})
	x := w
	for i := 0; i < n; i++ {
		v = append(v, v2.Vec{X: x, Y: spine + h})
		x -= toothW
		v = append(v, v2.Vec{X: x, Y: spine + h})
		if i < n-1 {
			v = append(v, v2.Vec{X: x, Y: spine})
			x -= gapW
			v = append(v, v2.Vec{X: x, Y: spine})
		}
	}
	return dedup(v)
}

func rotate(v []v2.Vec, a float64) []v2.Vec {
	c, s := math.Cos(a), math.Sin(a)
	out := make([]v2.Vec, len(v))
	for i, p := range v {
		out[i] = v2.Vec{X: c*p.X - s*p.Y, Y: s*p.X + c*p.Y}
	}
	return out
}

func genPolys(rng *Rng, tier string) []poly {
	var ps []poly
	quick := tier == "quick"
	k := 0
	// both orientations; in the quick tier the clockwise copy of every other shape only
	add := func(family, name string, v []v2.Vec, exact bool) {
		ps = append(ps, poly{name: name, family: family, v: v, exact: exact})
		k++
		if !quick || k%2 == 0 {
			ps = append(ps, poly{name: name + "/cw", family: family + "/cw", v: reverse(v), exact: exact})
		}
	}
	reps := TierN(tier, 1, 5, 3)
	for rep := 0; rep < reps; rep++ {
		tag := fmt.Sprintf("#%d", rep)
		// ---- stars (the family of the known defect), irrational, dyadic and far-offset coordinates
		for _, n := range []int{5, 10, 7} {
			R, r, rot := 1.0, 0.4, 0.0
			if rep > 0 || n == 7 {
				R, r, rot = rng.Uniform(0.5, 20), rng.Uniform(0.2, 0.45), rng.Uniform(0, 1)
				r *= R
			}
			s := star(n, R, r, rot)
			nm := fmt.Sprintf("star%d(R=%g,r=%g,rot=%g)", n, R, r, rot)
			add("star/irrational", nm, s, false)
			add("star/dyadic", nm+"/dy6", roundDy(s, 6), false)
			if !quick || n == 10 {
				add("star/offset", nm+"+off", xform(s, 1, rng.Uniform(-50, 50), rng.Uniform(100, 300)), false)
			}
		}
		// ---- convex
		nc := rng.Range(3, 12)
		add("convex/regular", fmt.Sprintf("regular%d%s", nc, tag), ngon(nc, func(int) float64 { return 1 }, rng.Uniform(0, 1)), false)
		add("convex/regular-axis", fmt.Sprintf("regular%d-axis%s", 2*nc, tag), ngon(2*nc, func(int) float64 { return 2 }, 0), false)
		add("convex/triangle", "triangle"+tag, []v2.Vec{{X: 0, Y: 0}, {X: rng.Dyadic(4, 3) + 5, Y: rng.Dyadic(2, 3)}, {X: rng.Dyadic(2, 3), Y: rng.Dyadic(4, 3) + 5}}, false)
		// ---- rectilinear: dyadic and scaled by an irrational factor, collinear edges
		for j := 0; j < TierN(tier, 1, 2, 2); j++ {
			sk := skyline(rng, rng.Range(3, 9), 1)
			add("rectilinear/dyadic", fmt.Sprintf("skyline%d%s", j, tag), xform(sk, 0.25, rng.Dyadic(8, 2), rng.Dyadic(8, 2)), false)
			add("rectilinear/irrational", fmt.Sprintf("skyline%d%s*sqrt2", j, tag), xform(sk, math.Sqrt2/3, -math.Pi, math.E), false)
		}
		// (fixed axis-parallel shapes: the exact, tolerance 0, winding certificate must hold on their quadtrees)
		add("rectilinear/square", "square"+tag, []v2.Vec{{X: -1, Y: -1}, {X: 1, Y: -1}, {X: 1, Y: 1}, {X: -1, Y: 1}}, true)
		add("rectilinear/square-collinear", "square8"+tag, []v2.Vec{{X: -1, Y: -1}, {X: 0, Y: -1}, {X: 1, Y: -1}, {X: 1, Y: 0}, {X: 1, Y: 1}, {X: 0, Y: 1}, {X: -1, Y: 1}, {X: -1, Y: 0}}, false)
		add("rectilinear/L", "L"+tag, []v2.Vec{{X: 0, Y: 0}, {X: 4, Y: 0}, {X: 4, Y: 1}, {X: 1, Y: 1}, {X: 1, Y: 3}, {X: 0, Y: 3}}, true)
		// ---- combs
		nt := rng.Range(3, 12)
		add("comb/dyadic", fmt.Sprintf("comb%d%s", nt, tag), comb(nt, 0.5, 0.25, 3, 0.5), false)
		add("comb/rotated", fmt.Sprintf("comb%d%s/rot", nt, tag), rotate(comb(nt, 0.3, 0.2, 2, 0.4), rng.Uniform(0.1, 1.4)), false)
		add("comb/fine", fmt.Sprintf("comb%d%s/fine", 4*nt, tag), comb(4*nt, 0.01, 0.01, 1, 0.05), false)
		// ---- thin
		add("thin/sliver", "sliver"+tag, []v2.Vec{{X: 0, Y: 0}, {X: 10, Y: 0.001}, {X: 10, Y: 0.002}}, false)
		add("thin/needle", "needle"+tag, rotate([]v2.Vec{{X: 0, Y: 0}, {X: 100, Y: 0}, {X: 100, Y: 0.01}, {X: 0, Y: 0.01}}, rng.Uniform(0.1, 1.4)), false)
		add("thin/zigzag", "zigzag"+tag, zigzag(rng.Range(4, 10), 0.05), false)
		// ---- many vertices
		n200 := 200
		ph := rng.Uniform(0, 6)
		add("many/200gon", "gon200"+tag, ngon(n200, func(int) float64 { return 3 }, rng.Uniform(0, 0.01)), false)
		add("many/200gon-wavy", "wavy200"+tag, ngon(n200, func(i int) float64 { return 3 + 0.5*math.Sin(ph+float64(i)*2*math.Pi*7/200) }, 0), false)
		if !quick {
			add("many/200gon-dyadic", "gon200dy"+tag, dedup(roundDy(ngon(n200, func(i int) float64 { return 5 + float64(i%3) }, 0), 5)), false)
		}
		// ---- vertices on the split lines: symmetric shapes whose centre lines carry vertices
		add("onsplit/diamond", "diamond"+tag, []v2.Vec{{X: 1, Y: 0}, {X: 0, Y: 1}, {X: -1, Y: 0}, {X: 0, Y: -1}}, false)
		add("onsplit/plus", "plus"+tag, []v2.Vec{{X: 1, Y: -3}, {X: 1, Y: -1}, {X: 3, Y: -1}, {X: 3, Y: 1}, {X: 1, Y: 1}, {X: 1, Y: 3}, {X: -1, Y: 3}, {X: -1, Y: 1}, {X: -3, Y: 1}, {X: -3, Y: -1}, {X: -1, Y: -1}, {X: -1, Y: -3}}, true)
		add("onsplit/octagon0", "octagon0"+tag, ngon(8, func(int) float64 { return 1 }, 0), false)
		// ---- edges lying exactly ON split lines (ownership of shared box edges): the bounding box is
		// [-2,2]^2, so the root box is [-2.02,2.02]^2 with centre exactly (0,0) and level 2 lines at +-1.01
		step := []v2.Vec{{X: -2, Y: -2}, {X: 2, Y: -2}, {X: 2, Y: 0}, {X: 0, Y: 0}, {X: 0, Y: 2}, {X: -2, Y: 2}}
		for q := 0; q < 4; q++ {
			add("onsplit/edge-on-centre-line", fmt.Sprintf("step-rot%d%s", 90*q, tag), step, false)
			step = rot90(step)
		}
		u := []v2.Vec{{X: -2, Y: -2}, {X: 2, Y: -2}, {X: 2, Y: 2}, {X: 1.01, Y: 2}, {X: 1.01, Y: -1.01}, {X: -1.01, Y: -1.01}, {X: -1.01, Y: 2}, {X: -2, Y: 2}}
		for q := 0; q < 4; q++ {
			add("onsplit/edge-on-level2-line", fmt.Sprintf("u-rot%d%s", 90*q, tag), u, false)
			u = rot90(u)
		}
		// ---- short walls ON split lines of every level (root, level 1, level 2, deepest): staircases
		// whose risers and treads lie exactly on the quadtree lines and fit inside one deepest cell
		// (a piece wholly inside a cell takes the early exit of lineIntersect), or span exactly one /
		// two cells.  Both orientations, transposed copies; the grid gets mid rows/columns so that the
		// rows strictly inside the walls are queried on both sides, near, far and outside the box.
		type bbs struct{ x0, x1, y0, y1 float64 }
		boxes := []bbs{{0, 200, 0, 200}}
		if !quick {
			boxes = append(boxes, bbs{-3, 5, 10, 18}, bbs{0.1, 0.1 + math.Pi, -7, -7 + math.Pi})
		}
		for bi, b := range boxes {
			lx, ly := splitLines(b.x0, b.x1, b.y0, b.y1)
			for mode := 0; mode < 3; mode++ {
				nm := fmt.Sprintf("stairs-bb%d-%s%s", bi, []string{"short", "1cell", "2cell"}[mode], tag)
				a := stairs(b.x0, b.x1, b.y0, b.y1, lx, ly, mode)
				t := transpose(stairs(b.y0, b.y1, b.x0, b.x1, ly, lx, mode))
				for _, e := range []struct {
					n string
					v []v2.Vec
				}{{nm, a}, {nm + "/cw", reverse(a)}, {nm + "/T", t}, {nm + "/T/cw", reverse(t)}} {
					if quick && mode > 0 && (e.n == nm+"/cw" || e.n == nm+"/T") {
						continue
					}
					ps = append(ps, poly{name: e.n, family: "onsplit/short-walls-on-lines", v: e.v, mid: true})
				}
			}
		}
		// ---- absolute SCALE as a dimension (the property quantifies over all polygons; the library
		// had absolute tolerances 1e-9 in its clipping): the same shapes multiplied by 1e-9 .. 1e-3 and 1e3 .. 1e6, so
		// that edges and clipped pieces have lengths from 1e-7 up to 1e6 ...
		shapes := []struct {
			n string
			v []v2.Vec
		}{
			{"star5", star(5, 1, 0.4, 0.3)},
			{"L", []v2.Vec{{X: 0, Y: 0}, {X: 4, Y: 0}, {X: 4, Y: 1}, {X: 1, Y: 1}, {X: 1, Y: 3}, {X: 0, Y: 3}}},
			{"heptagon", ngon(7, func(int) float64 { return 1 }, 0.2)},
			{"comb5rot", rotate(comb(5, 0.3, 0.2, 2, 0.4), 0.7)},
			{"arrow", []v2.Vec{{X: 0, Y: 0}, {X: 2, Y: 1}, {X: 0, Y: 2}, {X: 0.5, Y: 1}}},
		}
		scales := []float64{1e-9, 1e-8, 1e-7, 1e-6, 1e-5, 1e-4, 1e-3, 1e3, 1e4, 1e5, 1e6}
		for si, sc := range scales {
			for hi, sh := range shapes {
				if quick && (hi+si)%len(shapes) >= 2 {
					continue // quick: two shapes per scale, rotating
				}
				k := sc * rng.Uniform(0.8, 2.2)
				v := xform(sh.v, k, 0, 0)
				if (si+hi)%3 == 0 {
					v = xform(sh.v, k, rng.Uniform(-3, 3)*k, rng.Uniform(-3, 3)*k)
				}
				if (si+hi)%2 == 1 {
					v = reverse(v)
				}
				ps = append(ps, poly{name: fmt.Sprintf("%s*%.3g%s", sh.n, k, tag), family: fmt.Sprintf("scale/%g", sc), v: v, light: true})
			}
		}
		// ... and outlines with very many very short edges (facetted discs and wavy rings at mm scale)
		for fi, f := range []struct {
			n int
			r float64
		}{{720, 2e-3}, {500, 1e-3}, {1000, 5e-3}, {2000, 2e-2}} {
			if quick && fi >= 2 {
				break
			}
			ph := rng.Uniform(0, 6)
			v := ngon(f.n, func(i int) float64 { return f.r * (1 + 0.05*math.Sin(ph+float64(i)*2*math.Pi*5/float64(f.n))) }, rng.Uniform(0, 0.01))
			if fi%2 == 1 {
				v = reverse(v)
			}
			ps = append(ps, poly{name: fmt.Sprintf("facets%d(r=%g)%s", f.n, f.r, tag), family: "scale/many-short-edges", v: v, light: true, noCoq: quick || f.n > 800})
		}
	}
	return ps
}

// ---------------------------------------------------------------- vertices and edges NEXT TO split lines

func nudge(rng *Rng, c float64) float64 {
	offsets := []float64{0, 1e-10, -1e-10, 5e-10, -5e-10, 9.9e-10, -9.9e-10, 1e-9, -1e-9, 2e-9, -2e-9, 1e-7, -1e-7, 1e-12, -1e-12}
	sel := rng.Intn(4)
	if math.Abs(c) < 1e-100 && sel == 0 {
		sel = 1 // no denormals: a piece shorter than 1e-154 has no unit vector (in Mesh2DSlow too)
	}
	switch sel {
	case 0: // ulps
		for k := rng.Range(-3, 3); k != 0; {
			if k > 0 {
				c = math.Nextafter(c, math.Inf(1))
				k--
			} else {
				c = math.Nextafter(c, math.Inf(-1))
				k++
			}
		}
		return c
	case 1:
		return c + offsets[rng.Intn(len(offsets))]
	case 2: // relative offsets
		return c * (1 + float64(rng.Range(-2, 2))*1e-15*float64(rng.Intn(1000)))
	}
	return c
}

func clampF(c, lo, hi float64) float64 { return math.Max(lo, math.Min(hi, c)) }

// star shaped (hence simple) polygon in the box [x0,x1]x[y0,y1], pinned by four extreme vertices,
// with vertices on / 1..3 ulp / 1e-12 .. 1e-7 next to split lines and crossings of split lines
func nearSplitStar(rng *Rng, x0, x1, y0, y1 float64, n int) []v2.Vec {
	lx, ly := splitLines(x0, x1, y0, y1)
	cx, cy := (x0+x1)/2, (y0+y1)/2
	type av struct {
		a float64
		p v2.Vec
	}
	var vs []av
	add := func(p v2.Vec) { vs = append(vs, av{math.Atan2(p.Y-cy, p.X-cx), p}) }
	add(v2.Vec{X: x0, Y: rng.Uniform(y0, y1)})
	add(v2.Vec{X: x1, Y: rng.Uniform(y0, y1)})
	add(v2.Vec{X: rng.Uniform(x0, x1), Y: y0})
	add(v2.Vec{X: rng.Uniform(x0, x1), Y: y1})
	for i := 0; i < n; i++ {
		var p v2.Vec
		switch rng.Intn(6) {
		case 0:
			p = v2.Vec{X: nudge(rng, lx[rng.Intn(len(lx))]), Y: rng.Uniform(y0, y1)}
		case 1:
			p = v2.Vec{X: rng.Uniform(x0, x1), Y: nudge(rng, ly[rng.Intn(len(ly))])}
		case 2, 3:
			p = v2.Vec{X: nudge(rng, lx[rng.Intn(len(lx))]), Y: nudge(rng, ly[rng.Intn(len(ly))])}
		default:
			p = v2.Vec{X: rng.Uniform(x0, x1), Y: rng.Uniform(y0, y1)}
		}
		add(v2.Vec{X: clampF(p.X, x0, x1), Y: clampF(p.Y, y0, y1)})
	}
	sort.Slice(vs, func(i, j int) bool { return vs[i].a < vs[j].a })
	var out []v2.Vec
	for i, v := range vs {
		if i > 0 && (v.a-vs[i-1].a < 1e-9 || v.p == out[len(out)-1]) {
			continue // one vertex per direction
		}
		out = append(out, v.p)
	}
	return out
}

// staircase whose risers and treads lie on / next to the split lines of every level
func nearSplitStairs(rng *Rng, x0, x1, y0, y1 float64) []v2.Vec {
	lx, ly := splitLines(x0, x1, y0, y1)
	m := len(lx)
	if len(ly) < m {
		m = len(ly)
	}
	v := []v2.Vec{{X: x0, Y: y0}, {X: x1, Y: y0}, {X: x1, Y: y1}}
	cur := y1
	for i := m - 1; i >= 0; i-- {
		x, y := nudge(rng, lx[i]), nudge(rng, ly[i])
		if !(y < cur) || !(x > x0) || !(x < v[len(v)-1].X) {
			continue
		}
		v = append(v, v2.Vec{X: x, Y: cur}, v2.Vec{X: x, Y: y})
		cur = y
	}
	return append(v, v2.Vec{X: x0, Y: cur})
}

// closed polyline (NOT necessarily simple: the specification is the crossing number) whose vertices are
// lattice points of the split lines and box edges, moved by 0..3 ulp: edges along and next to split
// lines, nearly horizontal / vertical edges crossing many cells, edges through box corners
func latticeLoop(rng *Rng, x0, x1, y0, y1 float64, n int) []v2.Vec {
	lx, ly := splitLines(x0, x1, y0, y1)
	lx, ly = append(lx, x0, x1), append(ly, y0, y1)
	ul := func(c float64) float64 {
		k := 0
		if rng.Intn(3) == 0 {
			k = rng.Range(-3, 3)
		}
		if math.Abs(c) < 1e-100 {
			return c + float64(k)*1e-17
		}
		for ; k > 0; k-- {
			c = math.Nextafter(c, math.Inf(1))
		}
		for ; k < 0; k++ {
			c = math.Nextafter(c, math.Inf(-1))
		}
		return c
	}
	v := []v2.Vec{{X: x0, Y: y0}, {X: x1, Y: y1}}
	for i := 0; i < n; i++ {
		p := v2.Vec{X: rng.Uniform(x0, x1), Y: rng.Uniform(y0, y1)}
		if rng.Intn(5) != 0 {
			p = v2.Vec{X: clampF(ul(lx[rng.Intn(len(lx))]), x0, x1), Y: clampF(ul(ly[rng.Intn(len(ly))]), y0, y1)}
		}
		if p != v[len(v)-1] && p != v[0] {
			v = append(v, p)
		}
	}
	return v
}

// the outline of examples/bezier egg1 and relatives: Bezier.Polygon puts vertices at dyadic curve
// parameters, for these heights a few ulp next to the centre lines of the quadtree
func egg(h0, h1, ht float64) []v2.Vec {
	b := sdf.NewBezier()
	b.Add(0, 0).HandleFwd(sdf.DtoR(0), h0)
	b.Add(0, ht).HandleRev(sdf.DtoR(0), h1)
	b.Close()
	p, err := b.Polygon()
	if err != nil {
		panic(err)
	}
	return dedup(p.Vertices())
}

func genNearSplit(rng *Rng, tier string) []poly {
	var ps []poly
	boxes := [][4]float64{{-2, 2, -2, 2}, {0, 200, 0, 200}, {-3, 5, 10, 18}, {0.1, 0.1 + math.Pi, -7, -7 + math.Pi}, {0, 5.767822265625, 0, 16},
		{-1e-3, 2e-3, 0, 1e-3}, {1e5, 3e5, -2e5, 1e5}, {0, 1000, 0, 700}}
	n := TierN(tier, 3, 16, 12)
	for j := 0; j < n; j++ {
		b := boxes[rng.Intn(len(boxes))]
		ps = append(ps, poly{name: fmt.Sprintf("nearsplit-star#%d", j), family: "nearsplit/star", v: nearSplitStar(rng, b[0], b[1], b[2], b[3], rng.Range(3, 30)), light: true})
		b = boxes[rng.Intn(len(boxes))]
		ps = append(ps, poly{name: fmt.Sprintf("nearsplit-stairs#%d", j), family: "nearsplit/stairs", v: nearSplitStairs(rng, b[0], b[1], b[2], b[3]), light: true})
		b = boxes[rng.Intn(len(boxes))]
		ps = append(ps, poly{name: fmt.Sprintf("nearsplit-lattice#%d", j), family: "nearsplit/lattice-loop", v: latticeLoop(rng, b[0], b[1], b[2], b[3], rng.Range(3, 24)), light: true})
		b = boxes[rng.Intn(3)]
		k := math.Pow(10, float64(rng.Range(-9, 6))) * rng.Uniform(1, 2)
		ps = append(ps, poly{name: fmt.Sprintf("nearsplit-scaled#%d*%.3g", j, k), family: "nearsplit/scaled", v: xform(nearSplitStar(rng, b[0], b[1], b[2], b[3], rng.Range(3, 16)), k, 0, 0), light: true})
		if j%3 == 0 {
			ps = append(ps, poly{name: fmt.Sprintf("egg#%d", j), family: "nearsplit/bezier-egg", v: egg(rng.Uniform(1, 13), rng.Uniform(1, 9), 4*float64(rng.Range(1, 6))), light: true})
		}
	}
	for i := range ps {
		if i%2 == 1 {
			ps[i].v = reverse(ps[i].v)
			ps[i].family += "/cw"
		}
	}
	// steep / shallow edges that END on a split line one ulp away from where they start (bounding box
	// [0,200]^2, lines at 100 and 49.5): the rounded cut point falls on the line itself; lineClip keeps
	// it below the larger end coordinate (math.Nextafter), otherwise the cut-off piece runs along the
	// top/right edge of its cell and the next level drops it
	pd := math.Nextafter(100, 0)
	steepV := []v2.Vec{{X: 0, Y: 0}, {X: 200, Y: 0}, {X: 200, Y: 200}, {X: 100, Y: 130}, {X: pd, Y: 10}, {X: 0, Y: 200}}
	shallowH := []v2.Vec{{X: 0, Y: 0}, {X: 200, Y: 0}, {X: 200, Y: 200}, {X: 80, Y: 100}, {X: 10, Y: pd}, {X: 0, Y: 200}}
	for _, e := range []struct {
		n string
		v []v2.Vec
	}{{"steepV", steepV}, {"shallowH", shallowH}, {"steepV/T", transpose(steepV)}, {"shallowH/T", transpose(shallowH)}, {"steepV/cw", reverse(steepV)}, {"shallowH/cw", reverse(shallowH)}} {
		ps = append(ps, poly{name: "edge-ending-on-line/" + e.n, family: "nearsplit/edge-ending-on-line", v: e.v, light: true, mid: true})
	}
	return ps
}

// splitLines returns the interior quadtree split lines (all levels) of the polygon bounding box
// [x0,x1]x[y0,y1], computed by the library itself (root box of Mesh2D, quadrants down to qtMaxLevel).
func splitLines(x0, x1, y0, y1 float64) (lx, ly []float64) {
	s, err := sdf.Polygon2D([]v2.Vec{{X: x0, Y: y0}, {X: x1, Y: y0}, {X: x1, Y: y1}, {X: x0, Y: y1}})
	if err != nil {
		panic(err)
	}
	root := sdf.VerifQtDump(s)
	var rec func(b sdf.Box2, level int)
	rec = func(b sdf.Box2, level int) {
		lx = append(lx, b.Min.X, b.Max.X)
		ly = append(ly, b.Min.Y, b.Max.Y)
		if level == sdf.VerifQtMaxLevel {
			return
		}
		for _, q := range sdf.VerifQuadrants(b) {
			rec(q, level+1)
		}
	}
	rec(root.Box, 0)
	in := func(l []float64, lo, hi float64) []float64 {
		var out []float64
		for _, x := range uniq(l) {
			if x > lo && x < hi {
				out = append(out, x)
			}
		}
		return out
	}
	return in(lx, x0, x1), in(ly, y0, y1)
}

// stairs: the region under a staircase descending from (x1,y1) to (x0,y0).
// mode 0: at every corner (lx[i], ly[i]) a short tread ON the line y=ly[i] ends in a short riser ON
// the line x=lx[i] (both shorter than a deepest cell); mode k=1,2: every riser and tread lies on a
// split line and spans exactly k deepest cells.
func stairs(x0, x1, y0, y1 float64, lx, ly []float64, mode int) []v2.Vec {
	m := len(lx)
	if len(ly) < m {
		m = len(ly)
	}
	v := []v2.Vec{{X: x0, Y: y0}, {X: x1, Y: y0}, {X: x1, Y: y1}}
	if m < 2 {
		return append(v, v2.Vec{X: x0, Y: y1})
	}
	cx, cy := lx[1]-lx[0], ly[1]-ly[0]
	if mode == 0 {
		cur := y1
		for i := m - 1; i >= 0; i-- {
			v = append(v, v2.Vec{X: lx[i] + 0.4*cx, Y: cur}, v2.Vec{X: lx[i] + 0.4*cx, Y: ly[i]},
				v2.Vec{X: lx[i], Y: ly[i]}, v2.Vec{X: lx[i], Y: ly[i] - 0.6*cy})
			cur = ly[i] - 0.6*cy
		}
		return append(v, v2.Vec{X: x0, Y: cur})
	}
	i := m - 1
	v = append(v, v2.Vec{X: lx[i], Y: y1}, v2.Vec{X: lx[i], Y: ly[i]})
	for i-mode >= 0 {
		v = append(v, v2.Vec{X: lx[i-mode], Y: ly[i]}, v2.Vec{X: lx[i-mode], Y: ly[i-mode]})
		i -= mode
	}
	return append(v, v2.Vec{X: x0, Y: ly[i]})
}

func cls(m map[float64]string, x float64) string {
	if c, ok := m[x]; ok {
		return c
	}
	return "mid"
}

func transpose(v []v2.Vec) []v2.Vec {
	out := make([]v2.Vec, len(v))
	for i, p := range v {
		out[len(v)-1-i] = v2.Vec{X: p.Y, Y: p.X} // reversed: keeps the orientation
	}
	return out
}

func rot90(v []v2.Vec) []v2.Vec {
	out := make([]v2.Vec, len(v))
	for i, p := range v {
		out[i] = v2.Vec{X: -p.Y, Y: p.X}
	}
	return out
}

func zigzag(n int, th float64) []v2.Vec {
	var v []v2.Vec
	for i := 0; i <= n; i++ {
		y := 0.0
		if i%2 == 1 {
			y = 1
		}
		v = append(v, v2.Vec{X: float64(i), Y: y})
	}
	for i := n; i >= 0; i-- {
		y := th
		if i%2 == 1 {
			y = 1 + th
		}
		v = append(v, v2.Vec{X: float64(i), Y: y})
	}
	return v
}

// ---------------------------------------------------------------- Coq terms

func segTerm(l sdf.Line2) string {
	return fmt.Sprintf("(%s,%s,%s,%s)", CF(l[0].X), CF(l[0].Y), CF(l[1].X), CF(l[1].Y))
}

func treeTerm(n *sdf.VerifQtNode, b *strings.Builder) {
	if n == nil {
		b.WriteString("FN")
		return
	}
	hdr := fmt.Sprintf("(%s,%s,%s,%s) (%s,%s) %s", CF(n.Box.Min.X), CF(n.Box.Min.Y), CF(n.Box.Max.X), CF(n.Box.Max.Y),
		CF(n.Center.X), CF(n.Center.Y), CF(n.HalfSide))
	if n.Leaf {
		xs := make([]string, len(n.Pieces))
		for i, l := range n.Pieces {
			xs[i] = segTerm(l)
		}
		fmt.Fprintf(b, "(FL %s %s)", hdr, CList(xs))
		return
	}
	fmt.Fprintf(b, "(FQ %s ", hdr)
	for i := 0; i < 4; i++ {
		if i > 0 {
			b.WriteString(" ")
		}
		treeTerm(n.Child[i], b)
	}
	b.WriteString(")")
}

func vertsTerm(v []v2.Vec) string {
	xs := make([]string, len(v))
	for i, p := range v {
		xs[i] = fmt.Sprintf("(%s,%s)", CF(p.X), CF(p.Y))
	}
	return CList(xs)
}

// ---------------------------------------------------------------- the tree walk on the Go side

type treeInfo struct {
	xs, ys  []float64 // box edges and centres of every node
	pieces  []sdf.Line2
	nodes   int
	leaves  int
	depth   int
	cutXs   []float64
	cutYs   []float64
	problem string
}

func walk(n *sdf.VerifQtNode, ti *treeInfo) {
	if n == nil {
		return
	}
	ti.nodes++
	if n.Level > ti.depth {
		ti.depth = n.Level
	}
	ti.xs = append(ti.xs, n.Box.Min.X, n.Box.Max.X, n.Center.X)
	ti.ys = append(ti.ys, n.Box.Min.Y, n.Box.Max.Y, n.Center.Y)
	if n.Leaf {
		ti.leaves++
		ti.pieces = append(ti.pieces, n.Pieces...)
		return
	}
	for _, c := range n.Child {
		walk(c, ti)
	}
}

// assign every piece to the original segment it was clipped from, in chain order (hint for the
// certificate checker; untrusted: the checker verifies the chains).  The pieces of a segment join
// in bit-identical points, so each chain is found by following the joints from the start vertex;
// where several unused pieces start in the same point the one closest to the segment is taken.
func chains(lines []*sdf.Line2, pieces []sdf.Line2) ([][]sdf.Line2, string) {
	byStart := map[v2.Vec][]int{}
	for i, pc := range pieces {
		byStart[pc[0]] = append(byStart[pc[0]], i)
	}
	used := make([]bool, len(pieces))
	out := make([][]sdf.Line2, len(lines))
	for i, l := range lines {
		vx, vy := l[1].X-l[0].X, l[1].Y-l[0].Y
		vv := vx*vx + vy*vy
		cur := l[0]
		for steps := 0; ; steps++ {
			best, bestDev := -1, math.Inf(1)
			for _, j := range byStart[cur] {
				if used[j] {
					continue
				}
				e := pieces[j][1]
				wx, wy := e.X-l[0].X, e.Y-l[0].Y
				k := vx*wy - vy*wx
				dev := k * k / vv
				// the piece runs in the direction of the segment and does not leave its bounding box
				if (e.X-cur.X)*vx+(e.Y-cur.Y)*vy <= 0 {
					continue
				}
				if e.X < math.Min(l[0].X, l[1].X) || e.X > math.Max(l[0].X, l[1].X) || e.Y < math.Min(l[0].Y, l[1].Y) || e.Y > math.Max(l[0].Y, l[1].Y) {
					continue
				}
				if dev < bestDev {
					best, bestDev = j, dev
				}
			}
			if best < 0 {
				return nil, fmt.Sprintf("the pieces of segment %v do not chain up: no piece starts at %v", *l, cur)
			}
			used[best] = true
			out[i] = append(out[i], pieces[best])
			cur = pieces[best][1]
			if cur == l[1] {
				break
			}
			if steps > len(pieces) {
				return nil, fmt.Sprintf("the pieces of segment %v do not chain up", *l)
			}
		}
	}
	for j, u := range used {
		if !u {
			return nil, fmt.Sprintf("piece %v belongs to no segment", pieces[j])
		}
	}
	return out, ""
}

func uniq(xs []float64) []float64 {
	sort.Float64s(xs)
	var out []float64
	for i, x := range xs {
		if i == 0 || x != xs[i-1] {
			out = append(out, x)
		}
	}
	return out
}

type qpoint struct {
	p       v2.Vec
	stratum string
}

func hash(v []v2.Vec) string {
	h := fnv.New64a()
	for _, p := range v {
		fmt.Fprintf(h, "%x,%x;", p.X, p.Y)
	}
	return fmt.Sprintf("%08x", h.Sum64()&0xffffffff)
}

// ---------------------------------------------------------------- the check

func check(c *Ctx, r *Report) error {
	rng := NewRng(c.Seed)
	var cp corpusFile
	if b, err := os.ReadFile(filepath.Join(c.Verif, "corpus", "C04.json")); err == nil {
		if err := json.Unmarshal(b, &cp); err != nil {
			return err
		}
	}
	ctree := &Cases{Kind: "tree", Imports: imp, Type: "tcase", Fn: "mismatches_tree", InfoFn: "inexact_tree", PerShard: 3}
	ceval := &Cases{Kind: "eval", Imports: imp, Type: "ecase", Fn: "mismatches_eval", InfoFn: "inexact_eval", PerShard: 3}

	var polys []poly
	for _, e := range cp.Polygons {
		p := poly{name: e.Name, family: "corpus", only: e.Only}
		for _, q := range e.V {
			p.v = append(p.v, v2.Vec{X: q[0], Y: q[1]})
		}
		for _, q := range e.Points {
			p.extra = append(p.extra, v2.Vec{X: q[0], Y: q[1]})
		}
		polys = append(polys, p)
	}
	polys = append(polys, genPolys(rng, c.Tier)...)
	polys = append(polys, genNearSplit(rng, c.Tier)...)
	polys = append(polys, genShortEdges(NewRng(c.Seed^0x5e04ed9e), c.Tier)...) // own stream: the draws of the strata above stay as they were

	gridCap := TierN(c.Tier, 30000, 150000, 120000)
	nRandom := TierN(c.Tier, 1500, 10000, 6000)
	coqPts := TierN(c.Tier, 48, 120, 60)
	pid := 0 // global point id
	signDis, valDis, certBad, buildBad, nExplicit := 0, 0, 0, 0, 0
	seenKey := map[string]bool{}
	// collected first and reported at the end, wrong inside/outside answers and refused polygons first (the
	// report keeps the first 50 and the driver shows the first of them)
	var collected []Violation
	violate := func(key, what string, input interface{}) {
		if !seenKey[key] {
			seenKey[key] = true
			if len(collected) < 3000 {
				collected = append(collected, Violation{Key: key, What: what, Input: input})
			}
		}
	}
	famCount := map[string]int{}

	for pi, pl := range polys {
		// the specification comes from the vertex list itself, not from what the library makes of it
		segs := specSegs(pl.v)
		arg := polygonArg(pl.v, pl.closed)
		if len(arg) != len(pl.v) {
			nExplicit++
		}
		pname := pl.name + "#" + hash(pl.v)
		fast, err := sdf.Polygon2D(arg)
		if err != nil {
			// a polygon with >= 3 distinct vertices and non-zero edges has an SDF
			if len(segs) < 3 {
				return fmt.Errorf("%s: %v", pl.name, err)
			}
			buildBad++
			violate("build-fast:"+pname, fmt.Sprintf("polygon %s (%d vertices, %d edges of non-zero length): Polygon2D returns the error %q instead of a shape", pl.name, len(pl.v), len(segs), err.Error()),
				map[string]interface{}{"polygon": pl.name, "v": arg})
			continue
		}
		lines := sdf.VertexToLine(arg, true)
		slow, err := sdf.Mesh2DSlow(lines)
		if err != nil {
			buildBad++
			violate("build-slow:"+pname, fmt.Sprintf("polygon %s (%d vertices, %d edges of non-zero length): Mesh2DSlow(VertexToLine(v, true)) returns the error %q instead of a shape", pl.name, len(pl.v), len(segs), err.Error()),
				map[string]interface{}{"polygon": pl.name, "v": arg})
			continue
		}
		root := sdf.VerifQtDump(fast)
		if root == nil {
			return fmt.Errorf("%s: no quadtree dump", pl.name)
		}
		ti := &treeInfo{}
		walk(root, ti)
		famCount[pl.family]++

		// ---- the grid
		bb := fast.BoundingBox()
		size := math.Max(bb.Max.X-bb.Min.X, bb.Max.Y-bb.Min.Y)
		scale := size
		for _, p := range pl.v {
			scale = math.Max(scale, math.Max(math.Abs(p.X), math.Abs(p.Y)))
		}
		var vxs, vys []float64
		for _, p := range pl.v {
			vxs = append(vxs, p.X)
			vys = append(vys, p.Y)
		}
		for _, pc := range ti.pieces { // cut points
			vxs = append(vxs, pc[0].X, pc[1].X)
			vys = append(vys, pc[0].Y, pc[1].Y)
		}
		farx := []float64{bb.Min.X - 10*size, bb.Max.X + 10*size, bb.Min.X - 1e6*size, bb.Max.X + 1e6*size}
		fary := []float64{bb.Min.Y - 10*size, bb.Max.Y + 10*size, bb.Min.Y - 1e6*size, bb.Max.Y + 1e6*size}
		boxx := []float64{bb.Min.X, bb.Max.X}
		boxy := []float64{bb.Min.Y, bb.Max.Y}
		class := map[float64]string{}
		classY := map[float64]string{}
		for _, x := range farx {
			class[x] = "far"
		}
		for _, x := range ti.xs {
			class[x] = "split"
		}
		for _, x := range vxs {
			class[x] = "vertex"
		}
		for _, x := range boxx {
			class[x] = "box"
		}
		for _, y := range fary {
			classY[y] = "far"
		}
		for _, y := range ti.ys {
			classY[y] = "split"
		}
		for _, y := range vys {
			classY[y] = "vertex"
		}
		for _, y := range boxy {
			classY[y] = "box"
		}
		xs := uniq(append(append(append(append([]float64{}, vxs...), ti.xs...), boxx...), farx...))
		ys := uniq(append(append(append(append([]float64{}, vys...), ti.ys...), boxy...), fary...))
		if pl.mid {
			mids := func(l []float64) []float64 {
				out := append([]float64{}, l...)
				for i := 0; i+1 < len(l); i++ {
					if m := l[i] + (l[i+1]-l[i])/2; m > l[i] && m < l[i+1] && math.Abs(l[i]) < 1e5*size+scale && math.Abs(l[i+1]) < 1e5*size+scale {
						out = append(out, m)
					}
				}
				return uniq(out)
			}
			xs, ys = mids(xs), mids(ys)
		}
		var pts []qpoint
		for _, q := range pl.extra {
			pts = append(pts, qpoint{q, "corpus"})
		}
		pts = append(pts, pl.probe...)
		gridCap, nRandom, coqPts := gridCap, nRandom, coqPts
		if pl.light {
			gridCap, nRandom, coqPts = gridCap/8, nRandom/5, coqPts/3
		}
		if pl.capDiv > 0 {
			gridCap, nRandom = gridCap/pl.capDiv, nRandom/pl.capDiv
		}
		full := len(xs)*len(ys) <= gridCap
		if pl.only {
			full = false
		} else if full {
			for _, y := range ys {
				for _, x := range xs {
					pts = append(pts, qpoint{v2.Vec{X: x, Y: y}, "grid/x-" + cls(class, x) + "/y-" + cls(classY, y)})
				}
			}
		} else {
			// every level (row) is kept, columns are subsampled per row
			per := gridCap / len(ys)
			if per < 8 {
				per = 8
			}
			for _, y := range ys {
				for k := 0; k < per; k++ {
					x := xs[rng.Intn(len(xs))]
					pts = append(pts, qpoint{v2.Vec{X: x, Y: y}, "grid/x-" + cls(class, x) + "/y-" + cls(classY, y)})
				}
			}
		}
		// one ulp above / below every vertex level, at split-line and vertex xs
		for _, y := range uniq(append([]float64{}, vys...)) {
			if pl.only {
				break
			}
			nu := 6
			if pl.light {
				nu = 2
			}
			for k := 0; k < nu; k++ {
				x := xs[rng.Intn(len(xs))]
				pts = append(pts, qpoint{v2.Vec{X: x, Y: math.Nextafter(y, math.Inf(1))}, "ulp-above-level"})
				pts = append(pts, qpoint{v2.Vec{X: x, Y: math.Nextafter(y, math.Inf(-1))}, "ulp-below-level"})
			}
		}
		nr := nRandom
		if len(segs) > 100 {
			nr /= 2
		}
		if pl.only {
			nr = 0
		}
		for k := 0; k < nr; k++ {
			m := 0.2 * size
			pts = append(pts, qpoint{v2.Vec{X: rng.Uniform(bb.Min.X-m, bb.Max.X+m), Y: rng.Uniform(bb.Min.Y-m, bb.Max.Y+m)}, "random"})
		}

		// ---- evaluate, direct oracles
		type obs struct {
			q        qpoint
			f, s     float64
			bad      bool
			boundary bool
		}
		var all []obs
		polyViol, polyViolSign := 0, 0 // separate budgets: value disagreements must not use up the room for wrong signs
		for _, q := range pts {
			f, s := fast.Evaluate(q.p), slow.Evaluate(q.p)
			wn := exactWinding(segs, q.p.X, q.p.Y)
			d2 := exactDist2(segs, q.p.X, q.p.Y, scale)
			d2f, _ := d2.Float64()
			de := math.Sqrt(d2f)
			o := obs{q: q, f: f, s: s}
			// points on (or within rounding of) the boundary: the value is 0, its sign is immaterial
			o.boundary = de <= 1e-12*scale
			key := fmt.Sprintf("%s|%x,%x", pname, q.p.X, q.p.Y)
			r.Case(pl.family+"/"+q.stratum, key, true)
			inp := map[string]interface{}{"polygon": pl.name, "v": arg, "p": q.p, "fast": f, "slow": s, "exact_winding": wn, "exact_distance": de}
			neg := func(x float64) bool { return math.Signbit(x) }
			if !o.boundary {
				if neg(f) != (wn != 0) {
					o.bad = true
					signDis++
					if polyViolSign < 8 {
						polyViolSign++
						violate("sign-fast:"+key, fmt.Sprintf("polygon %s at p=(%v,%v): quadtree Evaluate = %v but the exact crossing number is %d (brute force %v): wrong inside/outside answer",
							pl.name, q.p.X, q.p.Y, f, wn, s), inp)
					}
				}
				if neg(s) != (wn != 0) {
					o.bad = true
					signDis++
					if polyViolSign < 8 {
						polyViolSign++
						violate("sign-slow:"+key, fmt.Sprintf("polygon %s at p=(%v,%v): brute-force Evaluate = %v but the exact crossing number is %d",
							pl.name, q.p.X, q.p.Y, s, wn), inp)
					}
				}
			}
			tol := 1e-12*(math.Abs(s)+math.Abs(f)) + 1e-13*scale
			if math.Abs(math.Abs(f)-math.Abs(s)) > tol || math.IsNaN(f) || math.IsNaN(s) {
				o.bad = true
				valDis++
				if polyViol < 12 {
					polyViol++
					violate("value-fast-slow:"+key, fmt.Sprintf("polygon %s at p=(%v,%v): |quadtree Evaluate| = %v differs from |brute force| = %v", pl.name, q.p.X, q.p.Y, math.Abs(f), math.Abs(s)), inp)
				}
			}
			tole := 1e-12*de + 1e-12*math.Max(scale, math.Max(math.Abs(q.p.X), math.Abs(q.p.Y)))
			if math.Abs(math.Abs(f)-de) > tole || math.Abs(math.Abs(s)-de) > tole {
				o.bad = true
				valDis++
				if polyViol < 12 {
					polyViol++
					violate("value-exact:"+key, fmt.Sprintf("polygon %s at p=(%v,%v): |Evaluate| = %v (brute force %v) but the exact distance to the nearest edge is %v", pl.name, q.p.X, q.p.Y, math.Abs(f), math.Abs(s), de), inp)
				}
			}
			all = append(all, o)
		}
		if pi%7 == 0 && len(all) > 0 {
			o := all[len(all)/3]
			r.Sample(map[string]interface{}{"polygon": pl.name, "vertices": len(pl.v), "quadtree_nodes": ti.nodes, "leaf_pieces": len(ti.pieces),
				"grid": fmt.Sprintf("%dx%d full=%v", len(xs), len(ys), full), "p": o.q.p, "fast": o.f, "slow": o.s})
		}

		if pl.noCoq {
			continue
		}
		// ---- Coq cases: the tree (clip model = dump, certificate) ...
		ch, prob := chains(lines, ti.pieces)
		if prob != "" {
			certBad++
			violate("clip:"+pname, "polygon "+pl.name+": "+prob, map[string]interface{}{"polygon": pl.name, "v": arg})
			ch = make([][]sdf.Line2, len(lines))
		}
		var tb strings.Builder
		treeTerm(root, &tb)
		chs := make([]string, len(ch))
		for i, cc := range ch {
			xs := make([]string, len(cc))
			for j, l := range cc {
				xs[j] = segTerm(l)
			}
			chs[i] = CList(xs)
		}
		mode := 0
		if pl.exact {
			mode = 1
		}
		ctree.Add(fmt.Sprintf("(%d%%N, %d%%N, %d%%N, %s,\n %s,\n %s)", pi+1, mode, sdf.VerifQtMaxLevel, vertsTerm(arg), tb.String(), CList(chs)))

		// ... and evaluation at sampled points (every disagreeing point included)
		var sel []obs
		for _, o := range all {
			if o.bad && len(sel) < 40 {
				sel = append(sel, o)
			}
		}
		want := coqPts
		if len(segs) > 60 {
			want = coqPts / 3
		}
		for k := 0; k < want && len(all) > 0; k++ {
			sel = append(sel, all[rng.Intn(len(all))])
		}
		qEvery := 4
		if len(segs) > 60 {
			qEvery = 8
		}
		var pterms []string
		for k, o := range sel {
			pid++
			pterms = append(pterms, fmt.Sprintf("(%d%%N, %s, %s, (%s,%s), %s, %s)", pid, CB(k%qEvery == 0 && !pl.only), CB(o.boundary), CF(o.q.p.X), CF(o.q.p.Y), CF(o.f), CF(o.s)))
		}
		ceval.Add(fmt.Sprintf("(%s,\n %s,\n %s)", vertsTerm(arg), tb.String(), CList(pterms)))
	}

	// ---- build histories in one process (history.go): caller-owned slices re-used after other builds
	histories(c, r, rng, violate, ctree, ceval, &pid, len(polys)+1000)

	rank := func(k string) int {
		switch {
		case strings.HasPrefix(k, "sign-"):
			return 0
		case strings.HasPrefix(k, "build-"):
			return 1
		}
		return 2
	}
	sort.SliceStable(collected, func(i, j int) bool { return rank(collected[i].Key) < rank(collected[j].Key) })
	for _, v := range collected {
		r.Violate(v.Key, v.What, v.Input)
	}
	if err := ctree.Write(c.Out); err != nil {
		return err
	}
	if err := ceval.Write(c.Out); err != nil {
		return err
	}
	r.Coverage["polygons"] = len(polys)
	r.Coverage["families"] = famCount
	r.Coverage["sign_disagreements"] = signDis
	r.Coverage["value_disagreements"] = valDis
	r.Coverage["clip_assignment_failures"] = certBad
	r.Coverage["build_errors"] = buildBad
	r.Coverage["explicitly_closed_vertex_lists"] = nExplicit
	r.Rule = "polygon families (stars incl. the two stars of the earlier repaired defects, convex, rectilinear with collinear/horizontal/vertical edges, combs, thin, 200-gons, shapes with vertices on the quadtree centre lines and with edges lying exactly ON centre and level-2 split lines; both orientations; dyadic, irrational and far-offset coordinates; absolute scale as a dimension: shapes multiplied by 1e-9..1e-3 and 1e3..1e6, facetted outlines with 500..2000 edges of 1e-5..1e-4 length; NEXT TO split lines: star-shaped polygons, staircases and closed lattice loops whose vertices lie 0, +-1..3 ulp, +-1e-12 .. +-2e-9, +-1e-7 from split lines and crossings of split lines of every level, nearly axis-parallel edges crossing many cells, edges through cell corners, at scales 1e-9..1e6, Bezier eggs like examples/bezier egg1; VERY SHORT EDGES (shortedge.go): edge length / extent in {1e-9, 1e-10, 1e-12, a few ulp} x extent in {1e-3, 1, 1e3, 1e6} x {jog = a wall with a step of that size in 8 directions, one / several / all corners chamfered at that distance (almost coincident vertices), two almost coincident vertices on an edge, jog + split} on 8 base shapes, the vertex list starting anywhere so that the short edge is also the first, the last and the CLOSING edge of the list; TINY polygons 1e-10 .. 1e-15 across at the origin and 1e-11 .. 1e-9 across at offsets ~1 and ~1e3; with extra query points on the levels of both ends of every short edge, midway and one ulp above/below, 10 and 1e6 extents to the left and right, inside the extent and 1..1000 edge lengths away, and around the short edge itself) x query points = full grid {vertex and cut-point xs, every quadtree box edge and centre x, bounding box xs, far (10 and 1e6 sizes away)} x {same for y} (rows kept, columns subsampled above the tier's cap), one ulp above/below every vertex level, random points. The specification is computed from the VERTEX LIST (consecutive pairs + closing edge, no tolerance), not from what sdf.VertexToLine returns; a polygon with >= 3 non-zero edges that Polygon2D / Mesh2DSlow refuses is a violation. Open vertex lists as a rule (closing edges of any length, also far below 1e-9), the explicitly closed list v0 .. vn-1, v0 for every third polygon of the short-edge and tiny strata. Oracles per point: sign(quadtree) = sign(brute force) = exact crossing-number sign (rational arithmetic; skipped only where the exact distance is <= 1e-12*scale), | |fast|-|slow| | <= 1e-12 relative + 1e-13*scale, |value| vs exact distance (1e-12 relative + 1e-12*scale). BUILD HISTORIES in one process (history.go): 2..3 caller-owned slots (vertex buffer + []*Line2, with and without spare capacity, segments in polygon order or shuffled) x polygons of 4..400 edges x scripts of Mesh2D / Mesh2DSlow / Polygon2D builds, re-use of a slot for the same and for another polygon, re-evaluation of earlier shapes and alternate evaluation of two live shapes; after every op the caller's data is bit-identical (pointer identity, values, spare capacity), every shape built at any step satisfies the exact oracles and fast = slow and answers bit for bit like the first shape built from the same segments, every earlier shape answers (and dumps) as it did when built; the last quadtree built from a re-used slot of some histories also goes through the model (cases_tree / cases_eval). non-trivial = every case; distinct by polygon hash and exact point bits (histories: history hash, step, point)."
	r.Trusted = append(r.Trusted,
		"hand model coq/Sdf/Poly.v tied by differential execution at FOps: the model of Mesh2D/qtBuild/lineIntersect/lineClip (math.Nextafter = C04Corr.fnextafter) rebuilds the dumped quadtree of every tested polygon bit for bit; eval_fast on the dumped tree and eval_slow on the segments reproduce Evaluate (sign exactly, value within fclose; absolute 2^-40*scale on the boundary)",
		"quadtree dump hook sdf/verif_hooks_c04.go (copies the private fields)",
		"the piece-to-segment assignment passed to well_clipped_check is an untrusted hint; the checker verifies it",
		"certificate execution: chain_check/box_check/nondeg_b at exact rationals, perm_check/ray_check/owner_check (comparisons only) at primitive floats, whose comparisons are exact on finite values")
	r.Assumptions = append(r.Assumptions,
		"closed polylines (the lattice loops need not be simple); 'crossing number <> 0 iff enclosed' (Jordan curve theorem) is not proved: the crossing number with exact cross products is taken as the specification of inside",
		"float64 rounding is not covered by the real-number theorems (C04_mesh2d_fast_eq_slow is about the real instance, where math.Nextafter is the identity); measured on every run against exact rationals",
		"on dumped float trees: the chains have bit-identical joints, original end points and exact ownership (perm_check, ray_check, owner_check and the end points of chain_check hold exactly on every tree); interior cut points of oblique edges lie on their segment only up to rounding and centre + halfSide differs from the box edge by rounding, so on_line and box_check run with slack 2^-40*scale (tolerance 0 is required for the fixed axis-parallel shapes square, L, plus)",
		"pieces shorter than about 1e-154 (squared length underflows) have no unit vector, in Mesh2DSlow as well: vertices at a denormal distance from a split line are not generated")
	return nil
}
