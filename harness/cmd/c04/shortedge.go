package main

// Polygons with VERY SHORT edges relative to their size, and very small polygons (added after mutation
// C04e-m2: sdf.VertexToLine left out the segments that Line2.Degenerate(1e-9) calls degenerate, so a
// simple polygon with a non-zero edge shorter than 1e-9 lost it, the outline stayed open and every point
// level with the gap got the wrong sign; a polygon a few 1e-10 across lost all its edges).
//
// The dimension: edge length / extent in {1e-9, 1e-10, 1e-12, 1e-15 (a few ulp)} x extent in {1e-3, 1,
// 1e3, 1e6} (so absolutely 1e-9 .. 1e-15 at unit scale and 1e-3 .. 1e-9 at the large extents: absolute
// AND relative cut-offs are met) x how the short edge sits in the outline:
//   jog      one vertex doubled and the rest of the outline moved by the short vector (a wall with a tiny
//            step in it), in the 8 compass directions
//   chamfer  a corner cut off at that distance from the vertex (two almost coincident vertices), one
//            corner, several, or all of them
//   split    two almost coincident vertices inserted ON an edge (a collinear short edge)
// the start of the vertex list is rotated, so the short edge is also the first edge, the last edge and
// the CLOSING edge (last vertex -> first vertex) of the list.  Tiny polygons: whole outlines 1e-10 ..
// 1e-15 across at the origin and a few 1e-10 across far from it (offsets ~1 and ~1e3).
// Query points (in addition to the usual grid, which has every vertex level, the levels midway between
// consecutive levels and one ulp above/below each level): on the levels of both end points of every
// short edge, midway and one ulp above/below, far to the left and to the right (10 and 1e6 extents),
// at several distances inside the extent and a few edge lengths away; around the short edge itself.
// Judged as every other polygon: exact crossing number / exact distance of the VERTEX LIST (specSegs)
// and quadtree = brute force.

import (
	"fmt"
	"math"

	v2 "github.com/deadsy/sdfx/vec/v2"
	. "verifharness/kit"
)

func extentOf(v []v2.Vec) (x0, x1, y0, y1, size float64) {
	x0, x1, y0, y1 = v[0].X, v[0].X, v[0].Y, v[0].Y
	for _, p := range v {
		x0, x1, y0, y1 = math.Min(x0, p.X), math.Max(x1, p.X), math.Min(y0, p.Y), math.Max(y1, p.Y)
	}
	return x0, x1, y0, y1, math.Max(x1-x0, y1-y0)
}

// step1 returns c+d, or the neighbouring float in the direction of d where the sum rounds back to c
func step1(c, d float64) float64 {
	if d == 0 {
		return c
	}
	if q := c + d; q != c {
		return q
	}
	return math.Nextafter(c, math.Inf(int(math.Copysign(1, d))))
}

func moveBy(p, d v2.Vec) v2.Vec { return v2.Vec{X: step1(p.X, d.X), Y: step1(p.Y, d.Y)} }

func unitTo(a, b v2.Vec) v2.Vec {
	dx, dy := b.X-a.X, b.Y-a.Y
	l := math.Hypot(dx, dy)
	return v2.Vec{X: dx / l, Y: dy / l}
}

// jog: v0 .. vi, vi+d, vi+1+d, .. vn-1+d
func jog(v []v2.Vec, i int, d v2.Vec) []v2.Vec {
	out := append([]v2.Vec{}, v[:i+1]...)
	for j := i; j < len(v); j++ {
		out = append(out, moveBy(v[j], d))
	}
	return out
}

// chamfer: vertex i replaced by the two points at distance l from it on its two edges
func chamfer(v []v2.Vec, i int, l float64) []v2.Vec {
	n := len(v)
	a, b, c := v[(i+n-1)%n], v[i], v[(i+1)%n]
	u1, u2 := unitTo(b, a), unitTo(b, c)
	out := append([]v2.Vec{}, v[:i]...)
	out = append(out, moveBy(b, v2.Vec{X: u1.X * l, Y: u1.Y * l}), moveBy(b, v2.Vec{X: u2.X * l, Y: u2.Y * l}))
	return append(out, v[i+1:]...)
}

// split: two vertices l apart inserted on the edge i -> i+1 at parameter t
func split(v []v2.Vec, i int, t, l float64) []v2.Vec {
	n := len(v)
	a, b := v[i], v[(i+1)%n]
	u := unitTo(a, b)
	q := v2.Vec{X: a.X + t*(b.X-a.X), Y: a.Y + t*(b.Y-a.Y)}
	out := append([]v2.Vec{}, v[:i+1]...)
	out = append(out, q, moveBy(q, v2.Vec{X: u.X * l, Y: u.Y * l}))
	return append(out, v[i+1:]...)
}

func rotateStart(v []v2.Vec, k int) []v2.Vec {
	n := len(v)
	out := make([]v2.Vec, n)
	for i := range v {
		out[i] = v[(i+k)%n]
	}
	return out
}

// shortEdgeProbes: query points for every edge (closing edge included) shorter than 1e-6 extents
func shortEdgeProbes(v []v2.Vec, maxEdges int) (pts []qpoint, nShort int) {
	x0, x1, _, _, size := extentOf(v)
	n := len(v)
	up, dn := math.Inf(1), math.Inf(-1)
	for i := 0; i < n; i++ {
		a, b := v[i], v[(i+1)%n]
		dx, dy := b.X-a.X, b.Y-a.Y
		l := math.Hypot(dx, dy)
		if l == 0 || l > 1e-6*size {
			continue
		}
		nShort++
		if nShort > maxEdges {
			continue
		}
		my, mx := a.Y+dy/2, a.X+dx/2
		ys := []float64{a.Y, b.Y, my, math.Nextafter(a.Y, up), math.Nextafter(a.Y, dn), math.Nextafter(b.Y, up), math.Nextafter(b.Y, dn)}
		for _, y := range ys {
			for _, x := range []float64{x0 - 1e6*size, x0 - 10*size, x1 + 10*size, x1 + 1e6*size} {
				pts = append(pts, qpoint{v2.Vec{X: x, Y: y}, "level-with-short-edge/far"})
			}
			for _, k := range []float64{0.013, 0.11, 0.5, 1.3} {
				pts = append(pts, qpoint{v2.Vec{X: a.X - k*size, Y: y}, "level-with-short-edge/within-extent"},
					qpoint{v2.Vec{X: a.X + k*size, Y: y}, "level-with-short-edge/within-extent"})
			}
			for _, k := range []float64{1, 3, 30, 1000} {
				pts = append(pts, qpoint{v2.Vec{X: a.X - k*l, Y: y}, "level-with-short-edge/edge-lengths-away"},
					qpoint{v2.Vec{X: a.X + k*l, Y: y}, "level-with-short-edge/edge-lengths-away"})
			}
		}
		// around the edge itself: its midpoint, and off it along the normal
		pts = append(pts, qpoint{v2.Vec{X: mx, Y: my}, "at-short-edge"})
		for _, k := range []float64{0.5, 3, 40} {
			pts = append(pts, qpoint{v2.Vec{X: mx - k*dy, Y: my + k*dx}, "at-short-edge"}, qpoint{v2.Vec{X: mx + k*dy, Y: my - k*dx}, "at-short-edge"})
		}
	}
	return pts, nShort
}

func genShortEdges(rng *Rng, tier string) []poly {
	quick := tier == "quick"
	type shape struct {
		n string
		v []v2.Vec
	}
	bases := func() []shape {
		return []shape{
			{"rect", []v2.Vec{{X: 0, Y: 0}, {X: 2, Y: 0}, {X: 2, Y: 2}, {X: 0, Y: 2}}},
			{"L", []v2.Vec{{X: 0, Y: 0}, {X: 4, Y: 0}, {X: 4, Y: 1}, {X: 1, Y: 1}, {X: 1, Y: 3}, {X: 0, Y: 3}}},
			{"arrow", []v2.Vec{{X: 0, Y: 0}, {X: 2, Y: 1}, {X: 0, Y: 2}, {X: 0.5, Y: 1}}},
			{"heptagon", ngon(7, func(int) float64 { return 1.3 }, rng.Uniform(0, 1))},
			{"star5", star(5, 1.5, 0.6, rng.Uniform(0, 1))},
			{"rect-rot", rotate([]v2.Vec{{X: -1, Y: -0.5}, {X: 1, Y: -0.5}, {X: 1, Y: 0.5}, {X: -1, Y: 0.5}}, rng.Uniform(0.1, 1.4))},
			{"triangle", []v2.Vec{{X: 0, Y: 0}, {X: rng.Dyadic(2, 3) + 3, Y: rng.Dyadic(1, 3)}, {X: rng.Dyadic(1, 3), Y: rng.Dyadic(2, 3) + 3}}},
			{"comb3", comb(3, 0.5, 0.25, 2, 0.5)},
		}
	}
	rels := []float64{1e-9, 1e-10, 1e-12, 1e-15}
	exts := []float64{1, 1e-3, 1e3, 1e6}
	dirs := []v2.Vec{{X: 1, Y: 0}, {X: 0, Y: 1}, {X: -1, Y: 0}, {X: 0, Y: -1}, {X: 0.8, Y: 0.6}, {X: -0.6, Y: 0.8}, {X: -0.8, Y: -0.6}, {X: 0.6, Y: -0.8}}
	ops := []string{"jog", "chamfer1", "chamfer-some", "chamfer-all", "split", "jog+split"}

	var ps []poly
	nCoq := 0
	emit := func(family, name string, v []v2.Vec, coq bool) {
		v = dedup(v)
		if len(v) < 3 {
			return
		}
		probes, nShort := shortEdgeProbes(v, 10)
		if nShort == 0 {
			return
		}
		p := poly{name: name, family: family, v: v, mid: true, light: true, capDiv: 2, probe: probes, noCoq: !coq, closed: len(ps)%3 == 2}
		if coq {
			nCoq++
		}
		ps = append(ps, p)
	}
	k := 0
	phase := rng.Intn(len(ops))
	for ri, rel := range rels {
		for ei, ext := range exts {
			for oi, op := range ops {
				k++
				// quick: one operation per (relative length, extent), rotating with the seed; the jog (the shape
				// of the mutation) for every relative length at unit extent as well
				if quick && (oi+ri+ei+phase)%len(ops) != 0 && !(op == "jog" && ext == 1) {
					continue
				}
				bs := bases()
				b := bs[rng.Intn(len(bs))]
				sc := ext * rng.Uniform(0.7, 1.9)
				v := xform(b.v, sc, 0, 0)
				if rng.Intn(3) == 0 { // off the origin by a few extents
					v = xform(b.v, sc, rng.Uniform(-3, 3)*sc, rng.Uniform(-3, 3)*sc)
				}
				_, _, _, _, size := extentOf(v)
				l := rel * size * rng.Uniform(0.5, 1)
				n := len(v)
				d := dirs[rng.Intn(len(dirs))]
				d = v2.Vec{X: d.X * l, Y: d.Y * l}
				switch op {
				case "jog":
					v = jog(v, rng.Intn(n), d)
				case "chamfer1":
					v = chamfer(v, rng.Intn(n), l)
				case "chamfer-some":
					for i := n - 1; i >= 0; i-- {
						if rng.Intn(3) == 0 || i == 0 {
							v = chamfer(v, i, l*rng.Uniform(0.3, 1))
						}
					}
				case "chamfer-all":
					for i := n - 1; i >= 0; i-- {
						v = chamfer(v, i, l)
					}
				case "split":
					v = split(v, rng.Intn(n), rng.Uniform(0.1, 0.8), l)
				case "jog+split":
					i := rng.Intn(n)
					v = jog(split(v, i, rng.Uniform(0.1, 0.8), l), (i+3)%n, d)
				}
				// where the list starts: anywhere; every third polygon right after / before a short edge, so that
				// the short edge is the closing edge or the first edge of the list
				m := len(v)
				start := rng.Intn(m)
				if k%3 != 0 {
					for j := 0; j < m; j++ {
						a, c := v[j], v[(j+1)%m]
						if math.Hypot(c.X-a.X, c.Y-a.Y) <= 1e-6*size {
							start = (j + k%3) % m // k%3 == 1: the short edge closes the list; 2: it is the last listed edge
							break
						}
					}
				}
				v = rotateStart(v, start)
				if rng.Bool() {
					v = reverse(v)
				}
				name := fmt.Sprintf("%s*%.3g/%s(%.3g)", b.n, sc, op, l)
				// the model sees a few of them per run (quadtree rebuilt, certificate, evaluation)
				coq := len(v) <= 14 && ((quick && nCoq < 3 && rng.Intn(3) == 0) || (!quick && nCoq < 12 && rng.Intn(4) == 0))
				emit(fmt.Sprintf("shortedge/%s/rel=%g", op, rel), name, v, coq)
			}
		}
	}
	// tiny polygons: a few 1e-10 across (and 1e-12, 1e-15) at the origin, a few 1e-10 across far from it
	type tiny struct {
		size, off float64
	}
	tinies := []tiny{{1e-10, 0}, {1e-10, 1}, {1e-10, 1e3}, {1e-12, 0}, {1e-15, 0}, {3e-10, 1}, {1e-9, 1}, {1e-11, 1}}
	for ti, t := range tinies {
		for rep := 0; rep < TierN(tier, 1, 4, 3); rep++ {
			bs := bases()
			b := bs[rng.Intn(len(bs))]
			_, _, _, _, bsz := extentOf(b.v)
			sc := t.size * rng.Uniform(1, 9) / bsz
			ox, oy := t.off*rng.Uniform(-2, 2), t.off*rng.Uniform(0.5, 2)
			v := dedup(xform(b.v, sc, ox, oy))
			if (ti+rep)%2 == 1 {
				v = reverse(v)
			}
			v = rotateStart(v, rng.Intn(len(v)))
			if len(v) < 3 {
				continue
			}
			_, _, _, _, size := extentOf(v)
			// probes: level with every vertex, far left / right
			var probes []qpoint
			x0, x1, _, _, _ := extentOf(v)
			for _, p := range v {
				for _, y := range []float64{p.Y, math.Nextafter(p.Y, math.Inf(1)), math.Nextafter(p.Y, math.Inf(-1))} {
					for _, x := range []float64{x0 - 1e6*size, x0 - 10*size, x0 - 0.4*size, x1 + 0.4*size, x1 + 10*size, x1 + 1e6*size, x0 - 1, x1 + 1} {
						probes = append(probes, qpoint{v2.Vec{X: x, Y: y}, "level-with-vertex/far"})
					}
				}
			}
			coq := len(v) <= 12 && ((quick && ti < 3) || (!quick && rep == 0))
			ps = append(ps, poly{name: fmt.Sprintf("tiny-%s*%.3g+(%.3g,%.3g)", b.n, sc, ox, oy), family: fmt.Sprintf("tiny/size=%g/offset=%g", t.size, t.off),
				v: v, mid: true, light: true, capDiv: 2, probe: probes, noCoq: !coq, closed: (ti+rep)%3 == 2})
		}
	}
	return ps
}
