package main

// C04, the BUILD HISTORY dimension (added after mutation C04d-m1: qtBuild recycled its temporary
// line sets through a package-level sync.Pool and the level-0 call released the CALLER's
// []*Line2 into the pool as well, so the next quadtree build of any polygon overwrote the
// elements of a slice the caller still owned; Mesh2DSlow(m) or a second Mesh2D(m) then described
// a different outline.  Invisible to a check that builds every polygon exactly once, from a
// private slice, fast and slow back to back).
//
// "For any polygon the shape returns the distance / the quadtree version returns what the brute
// force version returns" is a statement about every shape built at any time in a process, not
// about the first shape built from a fresh slice.  A history works on a few SLOTS, each holding
// what a caller owns: a vertex buffer and a []*Line2, with or without spare capacity (spare
// capacity holds sentinels).  Ops:
//
//	mesh k / slow k / poly k   Mesh2D(slot k's segments) / Mesh2DSlow(same) / Polygon2D(slot k's vertex buffer)
//	refill k c                 the caller re-uses slot k's buffers for polygon c (vertex buffer overwritten in
//	                           place where the capacity allows, the segment slice refilled with fresh *Line2;
//	                           no Line2 a shape may hold is ever written by the harness)
//	eval j                     shape j (built earlier) is evaluated again at all its points
//	alt i j                    two shapes alive at once are evaluated alternately at common points, each twice
//
// over polygons of different sizes (5 .. 400 edges; all families of main.go incl. next-to-split
// lines, non-simple lattice loops, scales 1e-6 .. 1e4), with the segments listed in polygon order
// or shuffled.  Oracles:
//
//	after EVERY op   every slot is bit-identical to what the caller last wrote: vertex buffer incl. spare
//	                 capacity, the segment slice element by element (pointer identity, incl. spare capacity)
//	                 and the value of every Line2 it points to
//	at every build   the new shape at the polygon's point set (vertex / cut / split-line / box / far
//	                 levels, random points): sign = exact crossing-number sign, |value| = exact rational
//	                 distance, fast vs slow; and bit-identical to the answers (and the quadtree dump) of the
//	                 FIRST shape of the same kind built from the same segments - the answer is a function
//	                 of the segments, not of what was built before
//	eval / alt / end every shape ever built answers bit for bit as it did right after it was built, its
//	                 quadtree dump is unchanged
//
// The last quadtree shape built from a RE-USED slot of some histories also goes through the
// Gallina model (cases_tree: the model rebuilds the dump from the vertices bit for bit and the
// certificate holds; cases_eval).

import (
	"fmt"
	"math"
	"strings"

	"github.com/deadsy/sdfx/sdf"
	v2 "github.com/deadsy/sdfx/vec/v2"
	. "verifharness/kit"
)

// one polygon: the harness's private truth (never handed to the library)
type histContent struct {
	Name string   `json:"name"`
	V    []v2.Vec `json:"v"`
	Perm []int    `json:"segment_order,omitempty"` // order in which the caller lists the segments (nil: polygon order)

	segs    []seg
	scale   float64
	pts     []v2.Vec
	strat   []string
	wn      []int
	de      []float64
	refFast []float64 // answers of the first quadtree shape built from these segments
	refSlow []float64 // ... of the first brute-force shape
	refDump string
}

type histOp struct {
	Op   string `json:"op"`
	Slot int    `json:"slot"`
	Poly int    `json:"polygon,omitempty"` // refill
	A    int    `json:"a,omitempty"`       // eval, alt: index of the shape (in build order)
	B    int    `json:"b,omitempty"`
}

func (o histOp) String() string {
	switch o.Op {
	case "refill":
		return fmt.Sprintf("refill slot%d polygon%d", o.Slot, o.Poly)
	case "eval":
		return fmt.Sprintf("eval shape%d", o.A)
	case "alt":
		return fmt.Sprintf("alt shape%d shape%d", o.A, o.B)
	}
	return fmt.Sprintf("%s slot%d", o.Op, o.Slot)
}

type history struct {
	Name  string         `json:"history"`
	Polys []*histContent `json:"polygons"`
	Roomy []bool         `json:"slot_has_spare_capacity"`
	Init  []int          `json:"slot_initial_polygon"`
	Ops   []histOp       `json:"ops"`
}

// what a caller owns
type histSlot struct {
	roomy   bool
	buf     []v2.Vec
	m       []*sdf.Line2
	cur     *histContent
	bufSnap []v2.Vec     // buf[:cap]
	mPtr    []*sdf.Line2 // m[:cap]
	mVal    []sdf.Line2  // *m[i], i < cap
}

type histShape struct {
	kind  string // mesh | slow | poly
	c     *histContent
	slot  int
	s     sdf.SDF2
	step  int
	first []float64
	dump  string
	lines []*sdf.Line2 // the caller's segments at build time (mesh only; for the Coq case)
	reuse bool         // built from a slot that had been used for an earlier build
}

func sameBits(a, b float64) bool { return math.Float64bits(a) == math.Float64bits(b) }
func sameVec(a, b v2.Vec) bool   { return sameBits(a.X, b.X) && sameBits(a.Y, b.Y) }

func (s *histSlot) fill(c *histContent) {
	n := len(c.V)
	if cap(s.buf) < n {
		extra := 0
		if s.roomy {
			extra = 3 + n/2
		}
		s.buf = make([]v2.Vec, n, n+extra)
	}
	s.buf = s.buf[:n]
	copy(s.buf, c.V)
	spare := s.buf[n:cap(s.buf)]
	for i := range spare {
		spare[i] = v2.Vec{X: 7e77 + float64(i)*1e62, Y: -7e77}
	}
	lines := sdf.VertexToLine(s.buf, true)
	if c.Perm != nil {
		// (should the library return another number of segments than the polygon has edges, the shapes built
		// from them are reported by the oracles; the harness must not crash on it)
		p := make([]*sdf.Line2, 0, len(lines))
		for _, j := range c.Perm {
			if j < len(lines) {
				p = append(p, lines[j])
			}
		}
		lines = p
	}
	switch {
	case cap(s.m) >= len(lines) && s.m != nil:
		s.m = append(s.m[:0], lines...) // the caller re-uses its slice
	case !s.roomy:
		s.m = lines // exactly what the library returned (cap == len as a rule)
	default:
		s.m = append(make([]*sdf.Line2, 0, len(lines)+3+len(lines)/2), lines...)
	}
	spareM := s.m[len(s.m):cap(s.m)]
	for i := range spareM {
		spareM[i] = &sdf.Line2{{X: 7e77, Y: float64(i)}, {X: -7e77, Y: float64(i)}}
	}
	s.cur = c
	s.bufSnap = append([]v2.Vec(nil), s.buf[:cap(s.buf)]...)
	s.mPtr = append([]*sdf.Line2(nil), s.m[:cap(s.m)]...)
	s.mVal = make([]sdf.Line2, len(s.mPtr))
	for i, l := range s.mPtr {
		s.mVal[i] = *l
	}
}

// intact: "" or what the library changed in the caller's data
func (s *histSlot) intact() string {
	b := s.buf[:cap(s.buf)]
	for i := range b {
		if !sameVec(b[i], s.bufSnap[i]) {
			where := "vertex"
			if i >= len(s.buf) {
				where = "spare capacity element"
			}
			return fmt.Sprintf("%s %d of the caller's vertex slice is now %v, the caller wrote %v", where, i, b[i], s.bufSnap[i])
		}
	}
	m := s.m[:cap(s.m)]
	for i := range m {
		where := "element"
		if i >= len(s.m) {
			where = "spare capacity element"
		}
		if m[i] != s.mPtr[i] {
			now := "nil"
			if m[i] != nil {
				now = fmt.Sprintf("%v", *m[i])
			}
			return fmt.Sprintf("%s %d of the caller's []*Line2 points to another segment: now %s, the caller put %v there", where, i, now, s.mVal[i])
		}
		if !sameVec(m[i][0], s.mVal[i][0]) || !sameVec(m[i][1], s.mVal[i][1]) {
			return fmt.Sprintf("segment %d of the caller's []*Line2 is now %v, it was %v", i, *m[i], s.mVal[i])
		}
	}
	return ""
}

// ---------------------------------------------------------------- polygons and their point sets

func histPolygon(rng *Rng, class int) (string, []v2.Vec) {
	var name string
	var v []v2.Vec
	switch class {
	case 0: // small
		switch rng.Intn(6) {
		case 0:
			n := rng.Range(3, 6)
			name, v = fmt.Sprintf("star%d", n), histStar(rng, n)
		case 1:
			n := rng.Range(3, 12)
			name, v = fmt.Sprintf("regular%d", n), ngon(n, func(int) float64 { return 2 }, rng.Uniform(0, 1))
		case 2:
			name, v = "L", []v2.Vec{{X: 0, Y: 0}, {X: 4, Y: 0}, {X: 4, Y: 1}, {X: 1, Y: 1}, {X: 1, Y: 3}, {X: 0, Y: 3}}
		case 3:
			name, v = "plus", []v2.Vec{{X: 1, Y: -3}, {X: 1, Y: -1}, {X: 3, Y: -1}, {X: 3, Y: 1}, {X: 1, Y: 1}, {X: 1, Y: 3}, {X: -1, Y: 3}, {X: -1, Y: 1}, {X: -3, Y: 1}, {X: -3, Y: -1}, {X: -1, Y: -1}, {X: -1, Y: -3}}
		case 4:
			name, v = "arrow", []v2.Vec{{X: 0, Y: 0}, {X: 2, Y: 1}, {X: 0, Y: 2}, {X: 0.5, Y: 1}}
		default:
			name, v = "skyline", xform(skyline(rng, rng.Range(2, 4), 1), 0.25, rng.Dyadic(8, 2), rng.Dyadic(8, 2))
		}
	case 1: // medium
		boxes := [][4]float64{{-2, 2, -2, 2}, {0, 200, 0, 200}, {-3, 5, 10, 18}, {0.1, 0.1 + math.Pi, -7, -7 + math.Pi}}
		b := boxes[rng.Intn(len(boxes))]
		switch rng.Intn(6) {
		case 0:
			n := rng.Range(8, 20)
			name, v = fmt.Sprintf("star%d", n), histStar(rng, n)
		case 1:
			nt := rng.Range(4, 10)
			name, v = fmt.Sprintf("comb%d/rot", nt), rotate(comb(nt, 0.3, 0.2, 2, 0.4), rng.Uniform(0.1, 1.4))
		case 2:
			name, v = "nearsplit-star", nearSplitStar(rng, b[0], b[1], b[2], b[3], rng.Range(10, 30))
		case 3:
			name, v = "nearsplit-lattice", latticeLoop(rng, b[0], b[1], b[2], b[3], rng.Range(8, 24))
		case 4:
			name, v = "nearsplit-stairs", nearSplitStairs(rng, b[0], b[1], b[2], b[3])
		default:
			name, v = "zigzag", zigzag(rng.Range(6, 14), 0.05)
		}
	default: // large
		n := rng.Range(120, 400)
		ph, w := rng.Uniform(0, 6), float64(rng.Range(3, 9))
		name, v = fmt.Sprintf("wavy%d", n), ngon(n, func(i int) float64 { return 3 + 0.5*math.Sin(ph+float64(i)*2*math.Pi*w/float64(n)) }, rng.Uniform(0, 0.01))
	}
	switch rng.Intn(5) {
	case 0:
		k := math.Pow(10, float64(rng.Range(-6, 4))) * rng.Uniform(1, 2)
		name, v = fmt.Sprintf("%s*%.3g", name, k), xform(v, k, 0, 0)
	case 1:
		name, v = name+"+off", xform(v, 1, rng.Uniform(-50, 50), rng.Uniform(100, 300))
	}
	if rng.Bool() {
		name, v = name+"/cw", reverse(v)
	}
	if v = dedup(v); len(v) < 3 {
		name, v = "L", []v2.Vec{{X: 0, Y: 0}, {X: 4, Y: 0}, {X: 4, Y: 1}, {X: 1, Y: 1}, {X: 1, Y: 3}, {X: 0, Y: 3}}
	}
	return name, v
}

func newContent(rng *Rng, name string, v []v2.Vec, shuffle bool) *histContent {
	c := &histContent{Name: name, V: append([]v2.Vec(nil), v...)}
	n := len(v)
	for i := range v {
		a, b := v[i], v[(i+1)%n]
		c.segs = append(c.segs, seg{a.X, a.Y, b.X, b.Y})
	}
	if shuffle {
		c.Perm = rng.Perm(n)
	}
	x0, x1, y0, y1 := v[0].X, v[0].X, v[0].Y, v[0].Y
	for _, p := range v {
		x0, x1, y0, y1 = math.Min(x0, p.X), math.Max(x1, p.X), math.Min(y0, p.Y), math.Max(y1, p.Y)
		c.scale = math.Max(c.scale, math.Max(math.Abs(p.X), math.Abs(p.Y)))
	}
	size := math.Max(x1-x0, y1-y0)
	c.scale = math.Max(c.scale, size)
	// point set: vertex levels / split lines / box / far, a few columns per row; vertices; random
	lx, ly := splitLines(x0, x1, y0, y1)
	var vxs, vys []float64
	for _, p := range v {
		vxs, vys = append(vxs, p.X), append(vys, p.Y)
	}
	xs := uniq(append(append(append([]float64{}, vxs...), lx...), x0-10*size, x1+10*size, x1+1e6*size))
	vl, sl := uniq(append([]float64{}, vys...)), uniq(append(append([]float64{}, ly...), y0-10*size, y1+1e6*size))
	pick := func(l []float64, max int) []float64 {
		if len(l) <= max {
			return l
		}
		out := make([]float64, 0, max)
		for _, i := range rng.Perm(len(l))[:max] {
			out = append(out, l[i])
		}
		return out
	}
	add := func(p v2.Vec, st string) { c.pts, c.strat = append(c.pts, p), append(c.strat, st) }
	for _, y := range pick(vl, 40) {
		for k := 0; k < 3; k++ {
			add(v2.Vec{X: xs[rng.Intn(len(xs))], Y: y}, "y-vertex-level")
		}
		add(v2.Vec{X: xs[rng.Intn(len(xs))], Y: math.Nextafter(y, math.Inf(1))}, "ulp-above-level")
	}
	for _, y := range pick(sl, 20) {
		for k := 0; k < 3; k++ {
			add(v2.Vec{X: xs[rng.Intn(len(xs))], Y: y}, "y-split-line")
		}
	}
	for k := 0; k < 40; k++ {
		m := 0.2 * size
		add(v2.Vec{X: rng.Uniform(x0-m, x1+m), Y: rng.Uniform(y0-m, y1+m)}, "random")
	}
	c.wn, c.de = make([]int, len(c.pts)), make([]float64, len(c.pts))
	for i, p := range c.pts {
		c.wn[i], c.de[i] = c.spec(p)
	}
	return c
}

func (c *histContent) spec(p v2.Vec) (int, float64) {
	d2f, _ := exactDist2(c.segs, p.X, p.Y, c.scale).Float64()
	return exactWinding(c.segs, p.X, p.Y), math.Sqrt(d2f)
}

// against: "" or how the value differs from the exact specification (tolerances of main.go)
func (c *histContent) against(p v2.Vec, wn int, de, got float64) string {
	if math.IsNaN(got) {
		return "NaN"
	}
	if de > 1e-12*c.scale && math.Signbit(got) != (wn != 0) {
		return fmt.Sprintf("wrong inside/outside answer: the exact crossing number is %d", wn)
	}
	tole := 1e-12*de + 1e-12*math.Max(c.scale, math.Max(math.Abs(p.X), math.Abs(p.Y)))
	if math.Abs(math.Abs(got)-de) > tole {
		return fmt.Sprintf("the exact distance to the nearest edge is %v", de)
	}
	return ""
}

// ---------------------------------------------------------------- scripts

func genHistory(rng *Rng, h int) *history {
	hs := &history{Name: fmt.Sprintf("history#%d", h)}
	nslots := rng.Range(2, 3)
	npoly := nslots + rng.Range(1, 2)
	classes := rng.Perm(3) // the first three polygons have three different sizes
	for k := 0; k < npoly; k++ {
		cl := rng.Intn(2)
		if k < 3 {
			cl = classes[k]
		}
		if cl == 2 && h%3 != 0 {
			cl = 1 // large polygons in every third history only (cost)
		}
		name, v := histPolygon(rng, cl)
		hs.Polys = append(hs.Polys, newContent(rng, name, v, rng.Intn(4) == 0))
	}
	// the last polygon is polygon 0 moved (same number of vertices: a caller that re-fills its buffers with
	// it presents slices of the same address and length as before, with other contents)
	mv := hs.Polys[0]
	k := rng.Uniform(0.5, 2)
	moved := xform(rotate(mv.V, rng.Uniform(0.2, 2.9)), k, rng.Uniform(-1, 1)*mv.scale, rng.Uniform(-1, 1)*mv.scale)
	if len(dedup(moved)) != len(mv.V) {
		moved = xform(mv.V, 2, 0, 0) // vertices a few ulp apart have collapsed: scale by 2 instead (exact)
	}
	hs.Polys = append(hs.Polys, newContent(rng, mv.Name+"/moved", moved, mv.Perm != nil))
	npoly++
	for k := 0; k < nslots; k++ {
		hs.Roomy = append(hs.Roomy, rng.Intn(3) == 0)
		hs.Init = append(hs.Init, k)
	}
	build := []string{"mesh", "slow", "poly"}
	if h%2 == 0 {
		// the canonical re-use script: fast from slot 0, other polygons fast and slow, slot 0 again
		// (brute force, then fast), every earlier shape again, shapes alive at once alternately, then the
		// caller re-uses slot 0 for another polygon
		hs.Ops = []histOp{{Op: "mesh", Slot: 0}, {Op: build[rng.Intn(3)], Slot: 1}, {Op: "slow", Slot: 1}, {Op: "mesh", Slot: 1}}
		nb := 4
		if nslots > 2 {
			hs.Ops = append(hs.Ops, histOp{Op: "poly", Slot: 2}, histOp{Op: "slow", Slot: 2})
			nb += 2
		}
		hs.Ops = append(hs.Ops, histOp{Op: "slow", Slot: 0}, histOp{Op: "mesh", Slot: 0}, histOp{Op: "eval", A: 0},
			histOp{Op: "alt", A: 0, B: nb + 1}, histOp{Op: "alt", A: 0, B: 3}, histOp{Op: "alt", A: nb, B: nb + 1}, histOp{Op: "alt", A: 2, B: nb},
			histOp{Op: "refill", Slot: 0, Poly: npoly - 1}, histOp{Op: "mesh", Slot: 0}, histOp{Op: "slow", Slot: 0},
			histOp{Op: "poly", Slot: 1}, histOp{Op: "eval", A: 0}, histOp{Op: "alt", A: 0, B: nb + 2})
		return hs
	}
	nshapes := 0
	for n := rng.Range(8, 16); len(hs.Ops) < n; {
		switch k := rng.Intn(10); {
		case k < 6 || nshapes < 2:
			hs.Ops = append(hs.Ops, histOp{Op: build[rng.Intn(3)], Slot: rng.Intn(nslots)})
			nshapes++
		case k == 6:
			hs.Ops = append(hs.Ops, histOp{Op: "refill", Slot: rng.Intn(nslots), Poly: rng.Intn(npoly)})
		case k == 7:
			hs.Ops = append(hs.Ops, histOp{Op: "eval", A: rng.Intn(nshapes)})
		default:
			hs.Ops = append(hs.Ops, histOp{Op: "alt", A: rng.Intn(nshapes), B: rng.Intn(nshapes)})
		}
	}
	return hs
}

// ---------------------------------------------------------------- running a history

type histEnv struct {
	r       *Report
	violate func(key, what string, input interface{})
	stale   int // answers / dumps / caller data that changed
	wrong   int // answers that differ from the specification
	builds  int
	evals   int
}

func runHistory(e *histEnv, hs *history) []*histShape {
	slots := make([]*histSlot, len(hs.Roomy))
	used := make([]bool, len(slots))
	for k := range slots {
		slots[k] = &histSlot{roomy: hs.Roomy[k]}
		slots[k].fill(hs.Polys[hs.Init[k]])
	}
	var shapes []*histShape
	step := 0
	var done []string
	fail := func(kind, what string, more map[string]interface{}) {
		inp := map[string]interface{}{"history": hs, "failed_at_step": step, "ops_so_far": done}
		for k, v := range more {
			inp[k] = v
		}
		e.violate("history-"+kind+":"+hs.Name+"#"+histHash(hs), fmt.Sprintf("%s, step %d of [%s]: %s", hs.Name, step, strings.Join(done, "; "), what), inp)
	}
	// every shape ever built answers as it did right after it was built
	recheck := func(j int, why string) {
		sh := shapes[j]
		bad := 0
		for i, p := range sh.c.pts {
			e.evals++
			if g := sh.s.Evaluate(p); !sameBits(g, sh.first[i]) {
				if bad == 0 {
					e.stale++
					fail("stale-shape", fmt.Sprintf("shape%d (%s of polygon %s, built at step %d) now answers %v at p=(%v,%v), it answered %v right after it was built (%s)",
						j, sh.kind, sh.c.Name, sh.step, g, p.X, p.Y, sh.first[i], why), map[string]interface{}{"p": p, "now": g, "before": sh.first[i]})
				}
				bad++
			}
		}
		if sh.dump != "" {
			if d := dumpString(sh.s); d != sh.dump {
				e.stale++
				fail("stale-tree", fmt.Sprintf("the quadtree of shape%d (polygon %s, built at step %d) has changed since it was built (%s)", j, sh.c.Name, sh.step, why), nil)
			}
		}
	}
	callerData := func() {
		for k, s := range slots {
			if prob := s.intact(); prob != "" {
				e.stale++
				fail("caller-data", fmt.Sprintf("slot%d (polygon %s): %s", k, s.cur.Name, prob), map[string]interface{}{"slot": k})
			}
		}
	}
	for _, op := range hs.Ops {
		step++
		done = append(done, op.String())
		switch op.Op {
		case "mesh", "slow", "poly":
			sl := slots[op.Slot]
			c := sl.cur
			sh := &histShape{kind: op.Op, c: c, slot: op.Slot, step: step, reuse: used[op.Slot]}
			var err error
			switch op.Op {
			case "mesh":
				sh.s, err = sdf.Mesh2D(sl.m)
				sh.lines = append([]*sdf.Line2(nil), sl.m...)
			case "slow":
				sh.s, err = sdf.Mesh2DSlow(sl.m)
			default:
				sh.s, err = sdf.Polygon2D(sl.buf)
			}
			used[op.Slot] = true
			e.builds++
			if err != nil {
				fail("build", fmt.Sprintf("%s of polygon %s: %v", op.Op, c.Name, err), nil)
				return shapes
			}
			callerData()
			fastKind := op.Op != "slow"
			if fastKind {
				sh.dump = dumpString(sh.s)
			}
			// the values are a function of the SET of segments (minimum and sum are order independent), the
			// dump lists them in the caller's order
			ref := &c.refSlow
			if fastKind {
				ref = &c.refFast
			}
			sh.first = make([]float64, len(c.pts))
			nbad := 0
			for i, p := range c.pts {
				g := sh.s.Evaluate(p)
				sh.first[i] = g
				e.evals++
				e.r.Case("history/"+op.Op+"/"+c.strat[i], fmt.Sprintf("%s|%s|%d|%d", hs.Name, histHash(hs), step, i), true)
				if prob := c.against(p, c.wn[i], c.de[i], g); prob != "" && nbad == 0 {
					nbad++
					e.wrong++
					fail("spec", fmt.Sprintf("%s (polygon %s) built at this step answers %v at p=(%v,%v): %s", op.Op, c.Name, g, p.X, p.Y, prob),
						map[string]interface{}{"p": p, "got": g, "exact_winding": c.wn[i], "exact_distance": c.de[i]})
				}
				if *ref != nil && !sameBits(g, (*ref)[i]) && nbad == 0 {
					nbad++
					e.stale++
					fail("depends-on-earlier-builds", fmt.Sprintf("%s (polygon %s) built at this step answers %v at p=(%v,%v), the first shape of this kind built from the same segments answered %v",
						op.Op, c.Name, g, p.X, p.Y, (*ref)[i]), map[string]interface{}{"p": p, "got": g, "first": (*ref)[i]})
				}
				// fast against slow (same tolerance as main.go)
				var other []float64
				if fastKind {
					other = c.refSlow
				} else {
					other = c.refFast
				}
				if other != nil && nbad == 0 {
					o := other[i]
					if tol := 1e-12*(math.Abs(o)+math.Abs(g)) + 1e-13*c.scale; math.Abs(math.Abs(g)-math.Abs(o)) > tol || (c.de[i] > 1e-12*c.scale && math.Signbit(g) != math.Signbit(o)) {
						nbad++
						e.wrong++
						fail("fast-slow", fmt.Sprintf("%s (polygon %s) built at this step answers %v at p=(%v,%v), the other implementation answered %v", op.Op, c.Name, g, p.X, p.Y, o),
							map[string]interface{}{"p": p, "got": g, "other": o})
					}
				}
			}
			if *ref == nil {
				*ref = sh.first
			}
			if op.Op == "mesh" || (op.Op == "poly" && c.Perm == nil) {
				if c.refDump == "" {
					c.refDump = sh.dump
				} else if c.refDump != sh.dump {
					e.stale++
					fail("depends-on-earlier-builds-tree", fmt.Sprintf("the quadtree of %s (polygon %s) built at this step differs from the first quadtree built from the same segments", op.Op, c.Name), nil)
				}
			}
			shapes = append(shapes, sh)
		case "refill":
			slots[op.Slot].fill(hs.Polys[op.Poly])
			callerData()
		case "eval":
			recheck(op.A%len(shapes), "after the builds in between")
			callerData()
		case "alt":
			a, b := shapes[op.A%len(shapes)], shapes[op.B%len(shapes)]
			var ps []v2.Vec
			for i := 0; i < 50 && i < len(a.c.pts); i++ {
				ps = append(ps, a.c.pts[(i*7)%len(a.c.pts)])
			}
			for i := 0; i < 50 && i < len(b.c.pts); i++ {
				ps = append(ps, b.c.pts[(i*7)%len(b.c.pts)])
			}
			nbad := 0
			for _, p := range ps {
				a1, b1, a2, b2 := a.s.Evaluate(p), b.s.Evaluate(p), a.s.Evaluate(p), b.s.Evaluate(p)
				e.evals += 4
				if (!sameBits(a1, a2) || !sameBits(b1, b2)) && nbad == 0 {
					nbad++
					e.stale++
					fail("alternate", fmt.Sprintf("two shapes evaluated alternately at p=(%v,%v): shape%d %v then %v, shape%d %v then %v", p.X, p.Y, op.A, a1, a2, op.B, b1, b2), map[string]interface{}{"p": p})
				}
				for _, x := range []struct {
					sh *histShape
					g  float64
				}{{a, a1}, {b, b1}} {
					wn, de := x.sh.c.spec(p)
					if prob := x.sh.c.against(p, wn, de, x.g); prob != "" && nbad == 0 {
						nbad++
						e.wrong++
						fail("alternate-spec", fmt.Sprintf("%s of polygon %s (built at step %d), evaluated alternately with another shape, answers %v at p=(%v,%v): %s",
							x.sh.kind, x.sh.c.Name, x.sh.step, x.g, p.X, p.Y, prob), map[string]interface{}{"p": p, "got": x.g, "exact_winding": wn, "exact_distance": de})
					}
				}
			}
			recheck(op.A%len(shapes), "after alternate evaluation")
			recheck(op.B%len(shapes), "after alternate evaluation")
		}
	}
	step++
	done = append(done, "end: every shape again")
	for j := range shapes {
		recheck(j, "at the end of the history")
	}
	callerData()
	return shapes
}

func dumpString(s sdf.SDF2) string {
	root := sdf.VerifQtDump(s)
	if root == nil {
		return ""
	}
	var b strings.Builder
	treeTerm(root, &b)
	return b.String()
}

func histHash(hs *history) string {
	var all []v2.Vec
	for _, c := range hs.Polys {
		all = append(all, c.V...)
		all = append(all, v2.Vec{X: float64(len(c.Perm))})
	}
	for _, o := range hs.Ops {
		all = append(all, v2.Vec{X: float64(len(o.Op)*100 + o.Slot*10 + o.Poly), Y: float64(o.A*100 + o.B)})
	}
	return hash(all)
}

// histories runs the build-history strata; the last quadtree shape built from a re-used slot of
// the first few histories is added to the Coq cases.
func histories(c *Ctx, r *Report, rng *Rng, violate func(key, what string, input interface{}), ctree, ceval *Cases, pid *int, firstID int) {
	e := &histEnv{r: r, violate: violate}
	n := TierN(c.Tier, 20, 120, 80)
	coqLeft := TierN(c.Tier, 3, 10, 6)
	for h := 0; h < n; h++ {
		hs := genHistory(rng, h)
		shapes := runHistory(e, hs)
		if h == 0 {
			ops := make([]string, len(hs.Ops))
			for i, o := range hs.Ops {
				ops[i] = o.String()
			}
			r.Sample(map[string]interface{}{"history": hs.Name, "polygons": len(hs.Polys), "ops": strings.Join(ops, "; "), "shapes_built": len(shapes)})
		}
		if coqLeft == 0 {
			continue
		}
		for j := len(shapes) - 1; j >= 0; j-- {
			sh := shapes[j]
			if sh.kind != "mesh" || !sh.reuse || sh.c.Perm != nil || len(sh.c.segs) > 40 {
				continue
			}
			// model: rebuilds this late tree from the vertices, certificate, evaluation
			root := sdf.VerifQtDump(sh.s)
			ti := &treeInfo{}
			walk(root, ti)
			ch, prob := chains(sh.lines, ti.pieces)
			if prob != "" {
				violate("history-clip:"+hs.Name+"#"+histHash(hs), hs.Name+", polygon "+sh.c.Name+": "+prob, map[string]interface{}{"history": hs})
				break
			}
			chs := make([]string, len(ch))
			for i, cc := range ch {
				xs := make([]string, len(cc))
				for k, l := range cc {
					xs[k] = segTerm(l)
				}
				chs[i] = CList(xs)
			}
			ctree.Add(fmt.Sprintf("(%d%%N, 0%%N, %d%%N, %s,\n %s,\n %s)", firstID+h, sdf.VerifQtMaxLevel, vertsTerm(sh.c.V), sh.dump, CList(chs)))
			// the brute-force twin of the model's eval case: the first slow answers of this polygon, else a fresh one
			slowAns := sh.c.refSlow
			if slowAns == nil {
				s2, err := sdf.Mesh2DSlow(sdf.VertexToLine(sh.c.V, true))
				if err != nil {
					break
				}
				slowAns = make([]float64, len(sh.c.pts))
				for i, p := range sh.c.pts {
					slowAns[i] = s2.Evaluate(p)
				}
			}
			var pterms []string
			for k := 0; k < 16; k++ {
				i := rng.Intn(len(sh.c.pts))
				*pid++
				p := sh.c.pts[i]
				pterms = append(pterms, fmt.Sprintf("(%d%%N, %s, %s, (%s,%s), %s, %s)", *pid, CB(k%4 == 0), CB(sh.c.de[i] <= 1e-12*sh.c.scale), CF(p.X), CF(p.Y), CF(sh.first[i]), CF(slowAns[i])))
			}
			ceval.Add(fmt.Sprintf("(%s,\n %s,\n %s)", vertsTerm(sh.c.V), sh.dump, CList(pterms)))
			coqLeft--
			break
		}
	}
	r.Coverage["histories"] = n
	r.Coverage["history_builds"] = e.builds
	r.Coverage["history_evaluations"] = e.evals
	r.Coverage["history_changed_answers_or_caller_data"] = e.stale
	r.Coverage["history_spec_disagreements"] = e.wrong
}

func histStar(rng *Rng, n int) []v2.Vec {
	R := rng.Uniform(0.5, 20)
	return star(n, R, R*rng.Uniform(0.2, 0.45), rng.Uniform(0, 1))
}
