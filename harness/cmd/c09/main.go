package main

// C09: rendering is deterministic across runs, schedules, GOMAXPROCS and other renders.
//
//	gen   effsum -> coq/Generated/Effects.v
//	run   (a) the real batch partition of layerYZ.Evaluate (hook render.VerifLayerEvaluate,
//	          an evaluating wrapper that gives every point a unique value and sleeps
//	          pseudo-randomly) recorded as point -> slot and compared with Sched.batch_plan in Coq;
//	          direct oracle: the layer array is map f points.
//	      (a') very large layers (up to 100x / 400x what can be in flight) with an exact field whose
//	          chosen evaluations are held back so that batches complete far out of dispatch order,
//	          alone and next to other layers; one whole render of a thin plate likewise (biglayer.go).
//	      (b) models rendered under GOMAXPROCS 1,2,3,4,8,16, with sleeping Evaluate wrappers,
//	          with other renders before and at the same time: triangle / line sequences and
//	          STL, DXF, SVG bytes must be identical, 3MF identical after unzipping.
import (
	"archive/zip"
	"bytes"
	"crypto/sha256"
	"encoding/binary"
	"encoding/json"
	"flag"
	"fmt"
	"io"
	"math"
	"os"
	"os/exec"
	"path/filepath"
	"runtime"
	"sort"
	"strconv"
	"strings"
	"sync"
	"sync/atomic"
	"time"

	"github.com/deadsy/sdfx/render"
	"github.com/deadsy/sdfx/sdf"
	v2 "github.com/deadsy/sdfx/vec/v2"
	v3 "github.com/deadsy/sdfx/vec/v3"
	"github.com/deadsy/sdfx/vec/v3i"
	"verifharness/concshapes"
	"verifharness/effsum"
	. "verifharness/kit"
	"verifharness/sysgen"
)

func main() {
	if len(os.Args) > 1 && os.Args[1] == "child" {
		childMain(os.Args[2:])
		return
	}
	Main("C09", checkC09, stateGen, func(c *Ctx) (string, []byte, error) { return effsum.Gen(c.Repo) }, sysgen.Gen)
}

// ---------------------------------------------------------------------------- batch plan

// batchSizeOf finds the batch size of layerYZ.Evaluate of the tree under test from its use in the
// batching loop (harness/sysgen), whatever the constant is called and wherever it is declared.
// If the translator does not understand the edited function the tie is already reported as broken by
// the gen step; the run-time part must still be able to look for a failing input, so it falls back to
// any integer constant of the render package whose name ends in "atchSize", then to 100.
func batchSizeOf(repo string) (int, error) {
	if b, err := sysgen.BatchSize(repo); err == nil {
		return b, nil
	}
	ents, err := os.ReadDir(filepath.Join(repo, "render"))
	if err != nil {
		return 0, err
	}
	for _, e := range ents {
		if e.IsDir() || !strings.HasSuffix(e.Name(), ".go") || strings.HasSuffix(e.Name(), "_test.go") {
			continue
		}
		text, err := os.ReadFile(filepath.Join(repo, "render", e.Name()))
		if err != nil {
			continue
		}
		for _, line := range strings.Split(string(text), "\n") {
			f := strings.Fields(line)
			for i := 0; i+2 < len(f); i++ {
				if strings.HasSuffix(f[i], "atchSize") && f[i+1] == "=" {
					if v, err := strconv.Atoi(f[i+2]); err == nil && v > 0 {
						return v, nil
					}
				}
			}
		}
	}
	return 100, nil
}

// recorder gives the j-th point of the layer loop the value j and perturbs the schedule.
type recorder struct {
	idx     map[v3.Vec]int
	unknown int64
	calls   int64
	sleepy  bool
}

func (r *recorder) Evaluate(p v3.Vec) float64 {
	k := atomic.AddInt64(&r.calls, 1)
	if r.sleepy {
		h := uint64(k)*0x9E3779B97F4A7C15 ^ math.Float64bits(p.Z)
		switch h >> 58 {
		case 0:
			time.Sleep(time.Duration(h>>40&63) * time.Microsecond)
		case 1, 2:
			runtime.Gosched()
		}
	}
	j, ok := r.idx[p]
	if !ok {
		atomic.AddInt64(&r.unknown, 1)
		return -1
	}
	return float64(j)
}
func (r *recorder) BoundingBox() sdf.Box3 { return sdf.Box3{} }

type layerCase struct {
	NY     int  `json:"ny"`
	NZ     int  `json:"nz"`
	Sleepy bool `json:"sleepy"`
}

func layerRun(r *Report, cs *Cases, id *int, B, ny, nz int, sleepy bool, stratum string) {
	base := v3.Vec{X: -1.25, Y: -0.75, Z: 0.5}
	inc := v3.Vec{X: 0.125, Y: 0.1, Z: 0.3}
	steps := v3i.Vec{X: 3, Y: ny, Z: nz}
	x := 2
	// the points in the order of the layer loop, with the same floating-point accumulation
	rec := &recorder{idx: map[v3.Vec]int{}, sleepy: sleepy}
	var p v3.Vec
	p.X = base.X + float64(x)*inc.X
	p.Y = base.Y
	n := 0
	for y := 0; y < ny+1; y++ {
		p.Z = base.Z
		for z := 0; z < nz+1; z++ {
			rec.idx[p] = n
			n++
			p.Z += inc.Z
		}
		p.Y += inc.Y
	}
	key := fmt.Sprintf("layer:ny=%d,nz=%d,sleepy=%v", ny, nz, sleepy)
	r.Case("layer/"+stratum, key, n > B)
	input := map[string]interface{}{"ny": ny, "nz": nz, "sleepy": sleepy, "batchSize": B}
	out := render.VerifLayerEvaluate(rec, base, inc, steps, x)
	if len(rec.idx) != n {
		return // two loop points coincide: the wrapper cannot tell them apart (does not happen with these increments)
	}
	*id++
	slots := make([]int, n)
	for j := range slots {
		slots[j] = -1
	}
	bad := ""
	if len(out) != n {
		bad = fmt.Sprintf("layer array has %d cells for %d points", len(out), n)
	}
	for slot, v := range out {
		j := int(v)
		if v != float64(j) || j < 0 || j >= n {
			if bad == "" {
				bad = fmt.Sprintf("cell %d holds %v, which is not the value of any point of the layer", slot, v)
			}
			continue
		}
		if slots[j] >= 0 && bad == "" {
			bad = fmt.Sprintf("the value of point %d is in cells %d and %d", j, slots[j], slot)
		}
		slots[j] = slot
		if j != slot && bad == "" {
			bad = fmt.Sprintf("cell %d holds the value of point %d (layer array is not map f points)", slot, j)
		}
	}
	if rec.unknown > 0 && bad == "" {
		bad = fmt.Sprintf("%d evaluations at points that are not in the layer", rec.unknown)
	}
	if int(rec.calls) != n && bad == "" {
		bad = fmt.Sprintf("%d evaluations for %d points", rec.calls, n)
	}
	xs := make([]string, n)
	for j, s := range slots {
		if s < 0 {
			s = 1 << 30 // never written: no model slot equals this
			if bad == "" {
				bad = fmt.Sprintf("the value of point %d is in no cell", j)
			}
		}
		xs[j] = fmt.Sprintf("%d%%N", s)
	}
	cs.Add(fmt.Sprintf("(%d%%N, %d%%N, %d%%N, %s)", *id, B, n, CList(xs)))
	if bad != "" {
		r.Violate(key, fmt.Sprintf("layerYZ.Evaluate with (ny+1)*(nz+1) = %d points, batch size %d: %s", n, B, bad), input)
	}
	if *id%23 == 1 {
		r.Sample(map[string]interface{}{"kind": "layer", "ny": ny, "nz": nz, "points": n, "batchSize": B, "sleepy": sleepy, "first_slots": slots[:min(n, 6)]})
	}
}

func min(a, b int) int {
	if a < b {
		return a
	}
	return b
}

// ---------------------------------------------------------------------------- determinism

// sleepy3 / sleepy2 delay some evaluations by a pseudo-random, run-dependent amount.
type sleepy3 struct {
	s sdf.SDF3
	k *int64
}

func jitter(k *int64, bits uint64) {
	h := uint64(atomic.AddInt64(k, 1))*0x9E3779B97F4A7C15 ^ bits
	switch h >> 57 {
	case 0:
		time.Sleep(time.Duration(h>>40&31) * time.Microsecond)
	case 1, 2, 3:
		runtime.Gosched()
	}
}
func (w sleepy3) Evaluate(p v3.Vec) float64 {
	jitter(w.k, math.Float64bits(p.X))
	return w.s.Evaluate(p)
}
func (w sleepy3) BoundingBox() sdf.Box3 { return w.s.BoundingBox() }

type sleepy2 struct {
	s sdf.SDF2
	k *int64
}

func (w sleepy2) Evaluate(p v2.Vec) float64 {
	jitter(w.k, math.Float64bits(p.X))
	return w.s.Evaluate(p)
}
func (w sleepy2) BoundingBox() sdf.Box2 { return w.s.BoundingBox() }

// gated3 / gated2 hold the first evaluation of a render until released: the render has then
// created its output object and another render can run from start to end in between.
type gate struct {
	once    sync.Once
	started chan struct{}
	release chan struct{}
}

func newGate() *gate { return &gate{started: make(chan struct{}), release: make(chan struct{})} }
func (g *gate) pass() {
	g.once.Do(func() { close(g.started); <-g.release })
}

type gated3 struct {
	s sdf.SDF3
	g *gate
}

func (w gated3) Evaluate(p v3.Vec) float64 { w.g.pass(); return w.s.Evaluate(p) }
func (w gated3) BoundingBox() sdf.Box3     { return w.s.BoundingBox() }

type gated2 struct {
	s sdf.SDF2
	g *gate
}

func (w gated2) Evaluate(p v2.Vec) float64 { w.g.pass(); return w.s.Evaluate(p) }
func (w gated2) BoundingBox() sdf.Box2     { return w.s.BoundingBox() }

func hashTris(ts []*sdf.Triangle3) string {
	h := sha256.New()
	var b [8]byte
	for _, t := range ts {
		for _, v := range t {
			for _, x := range []float64{v.X, v.Y, v.Z} {
				binary.LittleEndian.PutUint64(b[:], math.Float64bits(x))
				h.Write(b[:])
			}
		}
	}
	return fmt.Sprintf("%d:%x", len(ts), h.Sum(nil)[:8])
}

// collectLines runs a 2D renderer into a slice: the exact segment sequence.
func collectLines(s sdf.SDF2, r render.Render2) []*sdf.Line2 {
	ch := make(chan []*sdf.Line2)
	var lines []*sdf.Line2
	done := make(chan struct{})
	go func() {
		for ls := range ch {
			lines = append(lines, ls...)
		}
		close(done)
	}()
	r.Render(s, sdf.NewLine2Buffer(ch))
	close(ch)
	<-done
	return lines
}

func hashLines(ls []*sdf.Line2) string {
	h := sha256.New()
	var b [8]byte
	for _, l := range ls {
		for _, v := range l {
			for _, x := range []float64{v.X, v.Y} {
				binary.LittleEndian.PutUint64(b[:], math.Float64bits(x))
				h.Write(b[:])
			}
		}
	}
	return fmt.Sprintf("%d:%x", len(ls), h.Sum(nil)[:8])
}

func hashBytes(b []byte) string {
	s := sha256.Sum256(b)
	return fmt.Sprintf("%d:%x", len(b), s[:8])
}

// unzipped: names and decompressed contents of a 3MF package, in name order.
func unzipped(path string) (string, error) {
	zr, err := zip.OpenReader(path)
	if err != nil {
		return "", err
	}
	defer zr.Close()
	var names []string
	content := map[string][]byte{}
	for _, f := range zr.File {
		rc, err := f.Open()
		if err != nil {
			return "", err
		}
		b, err := io.ReadAll(rc)
		rc.Close()
		if err != nil {
			return "", err
		}
		if f.Name == "[Content_Types].xml" {
			// a set of declarations: the OPC library writes it in Go map iteration order
			ls := strings.Split(string(b), "\n")
			sort.Strings(ls)
			b = []byte(strings.Join(ls, "\n"))
		}
		names = append(names, f.Name)
		content[f.Name] = b
	}
	sort.Strings(names)
	h := sha256.New()
	total := 0
	for _, n := range names {
		h.Write([]byte(n))
		h.Write(content[n])
		total += len(content[n])
	}
	if d := os.Getenv("C09_DEBUG"); d != "" {
		for _, n := range names {
			os.WriteFile(filepath.Join(d, fmt.Sprintf("%x-%s", h.Sum(nil)[:4], filepath.Base(n))), content[n], 0o644)
		}
	}
	return fmt.Sprintf("%d entries %d bytes:%x", len(names), total, h.Sum(nil)[:8]), nil
}

type job struct {
	model  string
	rname  string
	sink   string // tri stl 3mf dxf svg
	cells  int
	sleepy bool
	gate   *gate
}

func (j job) key() string { return fmt.Sprintf("%s/%s%d/%s", j.model, j.rname, j.cells, j.sink) }

var fileSeq int64

// observe renders one job and returns the observable (hash of the triangle sequence / file bytes / unzipped 3MF).
func observe(env *concshapes.Env, j job, counter *int64) (string, error) {
	s2, s3, err := build(env, j)
	if err != nil {
		return "", err
	}
	return observeBuilt(env, j, counter, s2, s3)
}

// build constructs the model of a job (sequentially: construction uses the library's process-wide random source).
func build(env *concshapes.Env, j job) (sdf.SDF2, sdf.SDF3, error) {
	f := concshapes.ByName(j.model)
	if f == nil {
		return nil, nil, fmt.Errorf("unknown model %s", j.model)
	}
	return f.Make(env)
}

func observeBuilt(env *concshapes.Env, j job, counter *int64, s2 sdf.SDF2, s3 sdf.SDF3) (string, error) {
	path := filepath.Join(env.Tmp, fmt.Sprintf("c09-%d-%d.%s", os.Getpid(), atomic.AddInt64(&fileSeq, 1), j.sink))
	defer os.Remove(path)
	switch j.sink {
	case "tri", "stl", "3mf":
		s := concshapes.As3(s2, s3)
		if j.sleepy {
			s = sleepy3{s, counter}
		}
		if j.gate != nil {
			s = gated3{s, j.gate}
		}
		var r render.Render3
		switch j.rname {
		case "mcu":
			r = render.NewMarchingCubesUniform(j.cells)
		case "mco":
			r = render.NewMarchingCubesOctree(j.cells)
		default:
			return "", fmt.Errorf("unknown 3D renderer %s", j.rname)
		}
		switch j.sink {
		case "tri":
			return hashTris(render.ToTriangles(s, r)), nil
		case "stl":
			render.ToSTL(s, path, r)
			b, err := os.ReadFile(path)
			if err != nil {
				return "", err
			}
			return hashBytes(b), nil
		default:
			render.To3MF(s, path, r)
			return unzipped(path)
		}
	case "dxf", "svg", "lines":
		if s2 == nil {
			s2 = sdf.Slice2D(s3, v3.Vec{}, v3.Vec{Z: 1})
		}
		var s sdf.SDF2 = s2
		if j.sleepy {
			s = sleepy2{s2, counter}
		}
		if j.gate != nil {
			s = gated2{s, j.gate}
		}
		var r render.Render2
		switch j.rname {
		case "msu":
			r = render.NewMarchingSquaresUniform(j.cells)
		case "msq":
			r = render.NewMarchingSquaresQuadtree(j.cells)
		case "dc2":
			r = render.NewDualContouring2D(j.cells)
		default:
			return "", fmt.Errorf("unknown 2D renderer %s", j.rname)
		}
		if j.sink == "lines" {
			return hashLines(collectLines(s, r)), nil
		}
		if j.sink == "dxf" {
			render.ToDXF(s, path, r)
		} else {
			render.ToSVG(s, path, r)
		}
		b, err := os.ReadFile(path)
		if err != nil {
			return "", err
		}
		return hashBytes(b), nil
	}
	return "", fmt.Errorf("unknown sink %s", j.sink)
}

// ---------------------------------------------------------------------------- other processes

func jobSpec(j job) string { return fmt.Sprintf("%s:%s:%s:%d", j.model, j.rname, j.sink, j.cells) }

func parseJob(sp string) (job, error) {
	f := strings.Split(sp, ":")
	if len(f) != 4 {
		return job{}, fmt.Errorf("bad job %q", sp)
	}
	c, err := strconv.Atoi(f[3])
	return job{model: f[0], rname: f[1], sink: f[2], cells: c}, err
}

// childMain: render the jobs reps times in this process (its GOMAXPROCS comes from the
// environment) and write {job key: [observable per repetition]} as JSON.
func childMain(args []string) {
	fs := flag.NewFlagSet("child", flag.ExitOnError)
	repo := fs.String("repo", "/repo", "")
	tmp := fs.String("tmp", os.TempDir(), "")
	jobs := fs.String("jobs", "", "")
	reps := fs.Int("reps", 1, "")
	result := fs.String("result", "", "")
	fs.Parse(args)
	if dn, err := os.OpenFile(os.DevNull, os.O_WRONLY, 0); err == nil {
		os.Stdout = dn
	}
	env := &concshapes.Env{Repo: *repo, Tmp: *tmp}
	out := map[string][]string{}
	var counter int64
	for rep := 0; rep < *reps; rep++ {
		for _, sp := range strings.Split(*jobs, ",") {
			j, err := parseJob(sp)
			if err != nil {
				fmt.Fprintln(os.Stderr, err)
				os.Exit(2)
			}
			got, err := observe(env, j, &counter)
			if err != nil {
				fmt.Fprintln(os.Stderr, j.key(), err)
				os.Exit(2)
			}
			out[j.key()] = append(out[j.key()], got)
		}
	}
	b, _ := json.Marshal(out)
	if err := os.WriteFile(*result, b, 0o644); err != nil {
		fmt.Fprintln(os.Stderr, err)
		os.Exit(2)
	}
}

// acrossProcesses renders the jobs in one fresh process per GOMAXPROCS value (all processes at
// the same time), reps times each: every observable must equal the first one of the GOMAXPROCS=1 process.
func acrossProcesses(c *Ctx, r *Report, jobs []job, gs []int, reps int) (int, error) {
	self, err := os.Executable()
	if err != nil {
		return 0, err
	}
	specs := make([]string, len(jobs))
	for i, j := range jobs {
		specs[i] = jobSpec(j)
	}
	type res struct {
		g   int
		out map[string][]string
		err error
	}
	ch := make(chan res, len(gs))
	for _, g := range gs {
		go func(g int) {
			rf := filepath.Join(c.Out, fmt.Sprintf("c09-child-%d-%d.json", os.Getpid(), g))
			defer os.Remove(rf)
			cmd := exec.Command(self, "child", "-repo", c.Repo, "-tmp", c.Out, "-jobs", strings.Join(specs, ","), "-reps", fmt.Sprint(reps), "-result", rf)
			cmd.Env = append(os.Environ(), fmt.Sprintf("GOMAXPROCS=%d", g))
			var stderr bytes.Buffer
			cmd.Stderr = &stderr
			if err := cmd.Run(); err != nil {
				ch <- res{g, nil, fmt.Errorf("child GOMAXPROCS=%d: %v: %s", g, err, stderr.String())}
				return
			}
			b, err := os.ReadFile(rf)
			if err != nil {
				ch <- res{g, nil, err}
				return
			}
			var out map[string][]string
			err = json.Unmarshal(b, &out)
			ch <- res{g, out, err}
		}(g)
	}
	all := map[int]map[string][]string{}
	for range gs {
		x := <-ch
		if x.err != nil {
			return 0, x.err
		}
		all[x.g] = x.out
	}
	n := 0
	for _, j := range jobs {
		key := "nondet-process:" + j.key()
		r.Case("process/"+j.rname+"/"+j.sink, key, true)
		want := all[gs[0]][j.key()][0]
		bad := ""
		for _, g := range gs {
			for rep, got := range all[g][j.key()] {
				n++
				if got != want && bad == "" {
					bad = fmt.Sprintf("process with GOMAXPROCS=%d, render #%d: %s", g, rep+1, got)
				}
			}
		}
		if bad != "" {
			r.Violate(key, fmt.Sprintf("%s rendered with %s at %d cells (%s) differs between processes / repetitions: process with GOMAXPROCS=%d, render #1: %s; %s",
				j.model, j.rname, j.cells, j.sink, gs[0], want, bad),
				map[string]interface{}{"model": j.model, "renderer": j.rname, "cells": j.cells, "sink": j.sink, "gomaxprocs": gs, "repetitions": reps})
		}
	}
	return n, nil
}

// ---------------------------------------------------------------------------- file histories

// fileHistories: every file writer must produce the same bytes whatever the output path held
// before (an earlier bigger render, longer / shorter / equally long unrelated content).
func fileHistories(c *Ctx, r *Report, env *concshapes.Env, rng *Rng) (int, error) {
	sph, _ := sdf.Sphere3D(1)
	cir, _ := sdf.Circle2D(1)
	trisOf := func(cells int) []*sdf.Triangle3 { return render.ToTriangles(sph, render.NewMarchingCubesOctree(cells)) }
	linesOf := func(cells int) []*sdf.Line2 { return collectLines(cir, render.NewMarchingSquaresQuadtree(cells)) }
	type writer struct {
		name, ext string
		write     func(path string, cells int) error
	}
	ws := []writer{
		{"ToSTL/mcu", "stl", func(p string, n int) error { render.ToSTL(sph, p, render.NewMarchingCubesUniform(n)); return nil }},
		{"ToSTL/mco", "stl", func(p string, n int) error { render.ToSTL(sph, p, render.NewMarchingCubesOctree(n)); return nil }},
		{"SaveSTL", "stl", func(p string, n int) error { return render.SaveSTL(p, trisOf(n)) }},
		{"To3MF/mcu", "3mf", func(p string, n int) error { render.To3MF(sph, p, render.NewMarchingCubesUniform(n)); return nil }},
		{"ToDXF/msu", "dxf", func(p string, n int) error { render.ToDXF(cir, p, render.NewMarchingSquaresUniform(n)); return nil }},
		{"SaveDXF", "dxf", func(p string, n int) error { return render.SaveDXF(p, linesOf(n)) }},
		{"ToSVG/msq", "svg", func(p string, n int) error { render.ToSVG(cir, p, render.NewMarchingSquaresQuadtree(n)); return nil }},
		{"SaveSVG", "svg", func(p string, n int) error { return render.SaveSVG(p, "fill:none;stroke:black;stroke-width:0.1", linesOf(n)) }},
	}
	read := func(p, ext string) (string, error) {
		if ext == "3mf" {
			u, err := unzipped(p)
			if err != nil {
				return "unreadable 3MF package (" + err.Error() + ")", nil
			}
			return u, nil
		}
		b, err := os.ReadFile(p)
		if err != nil {
			return "", err
		}
		return hashBytes(b), nil
	}
	small, big := 8, 16
	n := 0
	for _, w := range ws {
		fresh := filepath.Join(env.Tmp, fmt.Sprintf("c09-fh-%d-%d.%s", os.Getpid(), atomic.AddInt64(&fileSeq, 1), w.ext))
		if err := w.write(fresh, small); err != nil {
			return n, err
		}
		want, err := read(fresh, w.ext)
		fb, _ := os.ReadFile(fresh)
		os.Remove(fresh)
		if err != nil {
			return n, err
		}
		for _, prior := range []string{"bigger render by the same writer", "longer unrelated content", "equally long unrelated content", "shorter unrelated content", "empty file"} {
			p := filepath.Join(env.Tmp, fmt.Sprintf("c09-fh-%d-%d.%s", os.Getpid(), atomic.AddInt64(&fileSeq, 1), w.ext))
			garbage := func(k int) []byte {
				g := make([]byte, k)
				for i := range g {
					g[i] = byte(rng.U64())
				}
				return g
			}
			var err error
			switch prior {
			case "bigger render by the same writer":
				err = w.write(p, big)
			case "longer unrelated content":
				err = os.WriteFile(p, garbage(2*len(fb)+1000), 0o644)
			case "equally long unrelated content":
				err = os.WriteFile(p, garbage(len(fb)), 0o644)
			case "shorter unrelated content":
				err = os.WriteFile(p, garbage(37), 0o644)
			default:
				err = os.WriteFile(p, nil, 0o644)
			}
			if err != nil {
				return n, err
			}
			before, _ := os.Stat(p)
			if err := w.write(p, small); err != nil {
				os.Remove(p)
				return n, err
			}
			got, err := read(p, w.ext)
			after, _ := os.Stat(p)
			os.Remove(p)
			if err != nil {
				return n, err
			}
			key := fmt.Sprintf("file-history:%s|%s", w.name, prior)
			r.Case("file-history/"+w.ext, key, true)
			n++
			if got != want {
				r.Violate(key, fmt.Sprintf("%s of a %d-cell render to a path that held %s (%d bytes) gives %s (%d bytes); to a fresh path it gives %s (%d bytes): the file depends on the history of the path",
					w.name, small, prior, before.Size(), got, after.Size(), want, len(fb)),
					map[string]interface{}{"writer": w.name, "prior": prior, "cells": small, "prior_cells": big})
			}
		}
	}
	return n, nil
}

type c09Corpus struct {
	Layers []layerCase `json:"layers"`
	Models []string    `json:"models"`
}

func checkC09(c *Ctx, r *Report) error {
	var corpus c09Corpus
	if b, err := os.ReadFile(filepath.Join(c.Verif, "corpus", "C09.json")); err == nil {
		if err := json.Unmarshal(b, &corpus); err != nil {
			return err
		}
	}
	rng := NewRng(c.Seed)
	// the library prints one line per file render
	stdout := os.Stdout
	if dn, err := os.OpenFile(os.DevNull, os.O_WRONLY, 0); err == nil {
		os.Stdout = dn
		defer func() { os.Stdout = stdout; dn.Close() }()
	}
	runtime.GOMAXPROCS(16)

	// ---- (a) batch partition
	B, err := batchSizeOf(c.Repo)
	if err != nil {
		return err
	}
	cs := &Cases{Kind: "plan", Imports: "From Sdfx Require Import Sys.Sched.", Type: "Sched.case", Fn: "Sched.mismatches", PerShard: 12}
	id := 0
	for _, l := range corpus.Layers {
		layerRun(r, cs, &id, B, l.NY, l.NZ, l.Sleepy, "corpus")
	}
	// sizes around the multiples of the batch size: (ny+1)*(nz+1) = k*B + d
	for _, d := range []int{-1, 0, 1} {
		for _, k := range []int{1, 2, 3, 7} {
			n := k*B + d
			// factor n as (ny+1)*(nz+1)
			for a := 1; a <= 12; a++ {
				if n%a == 0 {
					layerRun(r, cs, &id, B, a-1, n/a-1, a%2 == 0, fmt.Sprintf("n=kB%+d", d))
				}
			}
		}
	}
	// more batches than the evaluation queue plus the workers can hold at once (queue capacity
	// 100 + one batch per CPU): buffers recycled too early would be overwritten while in use
	for _, side := range []int{109, 127} {
		layerRun(r, cs, &id, B, side, side, false, "queue-overflow")
	}
	for k := 0; k < TierN(c.Tier, 40, 400, 120); k++ {
		var ny, nz int
		switch k % 4 {
		case 0:
			ny, nz = rng.Range(0, 5), rng.Range(0, 5) // fewer points than one batch
		case 1:
			ny, nz = rng.Range(5, 20), rng.Range(5, 20)
		case 2:
			ny, nz = rng.Range(0, 2), rng.Range(60, 400) // thin layers
		default:
			ny, nz = rng.Range(20, 60), rng.Range(20, 60)
		}
		st := "random<B"
		if (ny+1)*(nz+1) >= B {
			st = "random>=B"
		}
		layerRun(r, cs, &id, B, ny, nz, k%3 == 0, st)
	}
	if err := cs.Write(c.Out); err != nil {
		return err
	}
	// very large layers (many times what can be in flight) under adversarial evaluation timing (biglayer.go)
	{
		t0 := time.Now()
		brng := NewRng(c.Seed ^ 0xB16_1A7E5)
		bigLayers(c, r, brng, B)
		wholeRenderTiming(c, r, brng, B)
		r.Coverage["big_layer_seconds"] = math.Round(time.Since(t0).Seconds()*10) / 10
	}

	// ---- (b) determinism of whole renders
	env := &concshapes.Env{Repo: c.Repo, Tmp: c.Out}
	models := append([]string{}, corpus.Models...)
	extra := []string{"union3d-polymin", "bolt", "extrude-cache2d", "voxel3d", "importstl", "extrude-text2d", "gyroid3d", "screw3d", "rotatecopy3d", "array3d", "standoff3d", "twistextrude3d", "loft3d", "shell3d"}
	have := map[string]bool{}
	for _, m := range models {
		have[m] = true
	}
	nm := TierN(c.Tier, 5, len(extra), 9)
	for _, i := range rng.Perm(len(extra)) {
		if len(models) >= nm {
			break
		}
		if !have[extra[i]] {
			models = append(models, extra[i])
			have[extra[i]] = true
		}
	}
	var jobs []job
	cells := TierN(c.Tier, 14, 30, 20)
	for _, m := range models {
		jobs = append(jobs,
			job{model: m, rname: "mcu", sink: "tri", cells: cells},
			job{model: m, rname: "mcu", sink: "stl", cells: cells},
			job{model: m, rname: "mco", sink: "stl", cells: cells},
		)
	}
	for i, m := range models {
		if i%2 == 0 {
			jobs = append(jobs, job{model: m, rname: "mcu", sink: "3mf", cells: cells - 4})
		}
	}
	models2 := []string{"polygon2d", "text2d", "cache2d", "union2d-polymin", "involutegear"}
	for i, m := range models2 {
		jobs = append(jobs,
			job{model: m, rname: []string{"msu", "msq", "dc2"}[i%3], sink: "dxf", cells: 40},
			job{model: m, rname: []string{"msq", "dc2", "msu"}[i%3], sink: "svg", cells: 40},
		)
	}
	var counter int64 = int64(time.Now().UnixNano() & 0xffff) // run-dependent phase of the sleeping wrappers
	ref := map[string]string{}
	configs := 0
	fail := map[string]bool{}
	check := func(j job, config string, got string, err error) error {
		if err != nil {
			return fmt.Errorf("%s (%s): %v", j.key(), config, err)
		}
		configs++
		want, ok := ref[j.key()]
		if !ok {
			ref[j.key()] = got
			return nil
		}
		if got != want && !fail[j.key()] {
			fail[j.key()] = true
			r.Violate("nondet:"+j.key(), fmt.Sprintf("%s rendered with %s differs between runs in one process: reference (GOMAXPROCS=1, first render) %s, under [%s] %s",
				j.model, j.rname, want, config, got), map[string]interface{}{"model": j.model, "renderer": j.rname, "cells": j.cells, "sink": j.sink, "config": config})
		}
		return nil
	}
	// reference: GOMAXPROCS=1, nothing else running
	runtime.GOMAXPROCS(1)
	for _, j := range jobs {
		got, err := observe(env, j, &counter)
		if err := check(j, "GOMAXPROCS=1", got, err); err != nil {
			return err
		}
	}
	// every GOMAXPROCS value, plain and with sleeping wrappers, in a shuffled order (preceding renders differ)
	for _, g := range []int{2, 3, 4, 8, 16, 1} {
		runtime.GOMAXPROCS(g)
		for _, i := range rng.Perm(len(jobs)) {
			j := jobs[i]
			j.sleepy = (i+g)%2 == 0
			if j.sleepy && (j.rname == "mco" || j.sink == "dxf" || j.sink == "svg") && c.Tier == "quick" && (i+g)%4 != 0 {
				j.sleepy = false // the sequential renderers evaluate many more points: sleep less often
			}
			got, err := observe(env, j, &counter)
			if err := check(j, fmt.Sprintf("GOMAXPROCS=%d sleepy=%v after %d other renders", g, j.sleepy, configs), got, err); err != nil {
				return err
			}
		}
	}
	// concurrent renders in the same process: all jobs at once, several rounds
	runtime.GOMAXPROCS(16)
	for round := 0; round < TierN(c.Tier, 2, 6, 3); round++ {
		var wg sync.WaitGroup
		var mu sync.Mutex
		var firstErr error
		perm := rng.Perm(len(jobs))
		for _, i := range perm {
			j := jobs[i]
			if j.sink == "dxf" {
				continue // see the interleaved scenario below (known finding): DXF is claimed for non-overlapping renders only
			}
			j.sleepy = (i+round)%3 == 0 && j.rname == "mcu"
			s2, s3, err := build(env, j)
			if err != nil {
				return err
			}
			wg.Add(1)
			go func(j job) {
				defer wg.Done()
				got, err := observeBuilt(env, j, &counter, s2, s3)
				mu.Lock()
				defer mu.Unlock()
				if e := check(j, fmt.Sprintf("GOMAXPROCS=16 sleepy=%v together with %d concurrent renders", j.sleepy, len(jobs)-1), got, err); e != nil && firstErr == nil {
					firstErr = e
				}
			}(j)
		}
		wg.Wait()
		if firstErr != nil {
			return firstErr
		}
	}
	// a deterministic overlap: render A creates its sink, is held at its first evaluation while
	// render B runs from start to end, then continues
	pairs := [][2]job{
		{{model: "polygon2d", rname: "msu", sink: "dxf", cells: 40}, {model: "involutegear", rname: "msq", sink: "dxf", cells: 40}},
		{{model: "polygon2d", rname: "msu", sink: "svg", cells: 40}, {model: "involutegear", rname: "msq", sink: "svg", cells: 40}},
		{{model: "box3d", rname: "mcu", sink: "stl", cells: cells}, {model: "sphere3d", rname: "mcu", sink: "stl", cells: cells + 3}},
		{{model: "box3d", rname: "mcu", sink: "3mf", cells: cells - 4}, {model: "sphere3d", rname: "mco", sink: "3mf", cells: cells}},
		{{model: "box3d", rname: "mco", sink: "tri", cells: cells}, {model: "sphere3d", rname: "mcu", sink: "tri", cells: cells}},
	}
	for _, pr := range pairs {
		a, b := pr[0], pr[1]
		refA, err := observe(env, a, &counter)
		if err != nil {
			return err
		}
		refB, err := observe(env, b, &counter)
		if err != nil {
			return err
		}
		s2, s3, err := build(env, a)
		if err != nil {
			return err
		}
		ga := a
		ga.gate = newGate()
		type res struct {
			got string
			err error
		}
		done := make(chan res, 1)
		go func() {
			got, err := observeBuilt(env, ga, &counter, s2, s3)
			done <- res{got, err}
		}()
		select {
		case <-ga.gate.started:
		case <-time.After(30 * time.Second):
			k := fmt.Sprintf("history-reuse:%s", a.key())
			r.Case("overlap/"+a.sink, k, true)
			r.Violate(k, fmt.Sprintf("render %s (after an earlier render of the same job in this process) never evaluated its model: its output cannot depend on the model it was given, only on the render history", a.key()),
				map[string]interface{}{"job": a.key()})
			close(ga.gate.release)
			continue
		}
		gotB, err := observe(env, b, &counter)
		close(ga.gate.release)
		ra := <-done
		if err != nil {
			return err
		}
		if ra.err != nil {
			return ra.err
		}
		key := fmt.Sprintf("nondet-overlap:%s|%s", a.key(), b.key())
		r.Case("overlap/"+a.sink, key, true)
		configs += 2
		if ra.got != refA || gotB != refB {
			r.Violate(key, fmt.Sprintf("render A = %s overlapped by render B = %s (B runs from start to end while A is held at its first evaluation): A alone %s, A overlapped %s; B alone %s, B inside A %s",
				a.key(), b.key(), refA, ra.got, refB, gotB), map[string]interface{}{"a": a.key(), "b": b.key()})
		}
	}
	// render histories: two DIFFERENT models with the same bounding box and resolution, rendered
	// back to back by each renderer: B after A must equal B rendered first
	{
		blk, _ := sdf.Box3D(v3.Vec{X: 2, Y: 2, Z: 2}, 0)
		cyl, _ := sdf.Cylinder3D(3, 0.5, 0)
		bored := sdf.Difference3D(blk, cyl)
		sq := sdf.Box2D(v2.Vec{X: 2, Y: 2}, 0)
		ci, _ := sdf.Circle2D(0.5)
		boredSq := sdf.Difference2D(sq, ci)
		type mk3 func() render.Render3
		for name, mk := range map[string]mk3{
			"mcu": func() render.Render3 { return render.NewMarchingCubesUniform(cells) },
			"mco": func() render.Render3 { return render.NewMarchingCubesOctree(cells) }} {
			key := "history:" + name + "/block-then-bored-block"
			r.Case("history/"+name, key, true)
			configs++
			refB := hashTris(render.ToTriangles(bored, mk()))
			_ = render.ToTriangles(blk, mk())
			gotB := hashTris(render.ToTriangles(bored, mk()))
			refA := hashTris(render.ToTriangles(blk, mk()))
			if gotB != refB {
				r.Violate(key, fmt.Sprintf("%s: a bored block rendered right after a plain block with the same bounding box and resolution gives %s, rendered first it gives %s (plain block: %s)", name, gotB, refB, refA),
					map[string]interface{}{"renderer": name, "cells": cells})
			}
		}
		type mk2 func() render.Render2
		hashLines := func(s sdf.SDF2, rr render.Render2) string {
			path := filepath.Join(env.Tmp, fmt.Sprintf("c09-h-%d-%d.svg", os.Getpid(), atomic.AddInt64(&fileSeq, 1)))
			defer os.Remove(path)
			render.ToSVG(s, path, rr)
			b, _ := os.ReadFile(path)
			return hashBytes(b)
		}
		for name, mk := range map[string]mk2{
			"msu": func() render.Render2 { return render.NewMarchingSquaresUniform(40) },
			"msq": func() render.Render2 { return render.NewMarchingSquaresQuadtree(40) }} {
			key := "history:" + name + "/square-then-bored-square"
			r.Case("history/"+name, key, true)
			configs++
			refB := hashLines(boredSq, mk())
			_ = hashLines(sq, mk())
			gotB := hashLines(boredSq, mk())
			if gotB != refB {
				r.Violate(key, fmt.Sprintf("%s: a bored square rendered right after a plain square with the same bounding box and resolution gives %s, rendered first it gives %s", name, gotB, refB),
					map[string]interface{}{"renderer": name})
			}
		}
	}
	// one renderer VALUE of every type handling models of different size in turn (reuse.go)
	configs += rendererValueHistories(c, r, rng)
	// custom sinks behind the public buffer constructors; deep octrees / quadtrees with skewed evaluation time (sinks.go)
	{
		t0 := time.Now()
		srng := NewRng(c.Seed ^ 0x51_4B5)
		configs += customSinks(c, r, srng)
		r.Coverage["custom_sink_seconds"] = math.Round(time.Since(t0).Seconds()*10) / 10
		t0 = time.Now()
		configs += deepTrees(c, r, srng)
		r.Coverage["deep_tree_seconds"] = math.Round(time.Since(t0).Seconds()*10) / 10
	}
	// what the path held before
	runtime.GOMAXPROCS(16)
	nfh, err := fileHistories(c, r, env, rng)
	if err != nil {
		return err
	}
	configs += nfh
	// fine grids (parallel code paths that only long rows / deep trees take), exact sequences,
	// in one fresh process per GOMAXPROCS value, several renders each
	fine := []job{
		{model: "circle2d", rname: "msu", sink: "lines", cells: 150},
		{model: "circle2d", rname: "msq", sink: "lines", cells: 256},
		{model: "polygon2d", rname: "msu", sink: "lines", cells: 100 + rng.Intn(60)},
		{model: "union2d-polymin", rname: "msu", sink: "dxf", cells: 200 + rng.Intn(100)},
		{model: "involutegear", rname: "msq", sink: "svg", cells: 333},
		{model: "hex2d", rname: "msu", sink: "lines", cells: 400},
		{model: "sphere3d", rname: "mco", sink: "tri", cells: 48},
		{model: "box3d", rname: "mco", sink: "stl", cells: 64},
		{model: "union3d-polymin", rname: "mco", sink: "tri", cells: 96 + rng.Intn(32)},
		{model: "cylinder3d", rname: "mco", sink: "stl", cells: 33},
		{model: "sphere3d", rname: "mcu", sink: "stl", cells: 40},
		{model: "cone3d", rname: "mcu", sink: "tri", cells: 56},
	}
	if c.Tier != "quick" {
		fine = append(fine,
			job{model: "text2d", rname: "msu", sink: "lines", cells: 300},
			job{model: "bolt", rname: "mco", sink: "stl", cells: 128},
			job{model: "gyroid3d", rname: "mco", sink: "tri", cells: 100},
			job{model: "cache2d", rname: "msq", sink: "dxf", cells: 400},
			job{model: "extrude-cache2d", rname: "mcu", sink: "tri", cells: 80})
	}
	npr, err := acrossProcesses(c, r, fine, []int{1, 2, 3, 8, 16}, TierN(c.Tier, 3, 8, 4))
	if err != nil {
		return err
	}
	configs += npr
	for _, j := range jobs {
		r.Case("render/"+j.rname+"/"+j.sink, j.key(), true)
	}
	for i, j := range jobs {
		if i%7 == 0 {
			r.Sample(map[string]interface{}{"kind": "render", "job": j.key(), "observable": ref[j.key()]})
		}
	}
	r.Coverage["render_configurations"] = configs
	r.Coverage["batchSize"] = B
	r.Coverage["gomaxprocs"] = []int{1, 2, 3, 4, 8, 16}
	r.Rule = "layer cases: one layerYZ.Evaluate of a (ny+1)*(nz+1) layer through the hook, with an evaluating wrapper that gives the j-th point the value j (and sleeps pseudo-randomly in half of the cases); recorded point->slot list compared with Sched.batch_plan by coqc, and layer = map f points checked directly; sizes: k*B-1, k*B, k*B+1 for k in 1,2,3,7 in every factorisation with ny<12, random small / medium / thin / large layers; non-trivial = more than one batch; distinct by (ny,nz,sleepy). render cases: one (model, renderer, sink) job rendered 1 + 6 + rounds times: alone under GOMAXPROCS=1 (reference), under GOMAXPROCS 2,3,4,8,16,1 in shuffled order with run-dependent sleeping Evaluate wrappers on half of them, and all jobs concurrently; triangle sequence hash / STL, DXF, SVG bytes / unzipped 3MF entries must be identical; non-trivial = always; distinct by job. process cases: fine-grid jobs (2D uniform/quadtree at 100..400 cells as exact segment sequences and DXF/SVG bytes, octree at 33..128 cells and uniform at 40..56 cells as exact triangle sequences and STL bytes) rendered 3+ times in one fresh process per GOMAXPROCS in 1,2,3,8,16, all processes at once; every observable must equal the first render of the GOMAXPROCS=1 process. file-history cases: each of ToSTL (uniform, octree), SaveSTL, To3MF, ToDXF, SaveDXF, ToSVG, SaveSVG writes a small render to a path that already holds a bigger render by the same writer / longer / equally long / shorter unrelated bytes / nothing; the bytes (3MF: unzipped entries) must equal those written to a fresh path. renderer-value histories: one value of each renderer type (uniform / octree cubes, uniform / quadtree squares, 2D dual contouring) is asked for Info / Render of four models of different size, position and shape in four orders (big then small, Info only then another model, repeats); Info strings and exact triangle / segment sequences must equal those of a fresh value. big-layer cases (biglayer.go): one layerYZ.Evaluate through the hook of a layer with about 2.5x, 20x and 100x (thorough: up to 400x) as many points as can be in flight at once ((queue capacity read from the source + evaluation routines + 1) * batch size), square / few long rows / many short rows, with an exact cheap field (point j has value j) whose chosen evaluations are HELD until a stated number of other evaluations of the layer have started: plain, first point of the first batch until all other batches are done, a point inside a batch, all routines but one starved and released in reverse dispatch order, rolling lag (every s-th batch held for 2x / 8x / 32x the in-flight bound), first point of every k-th batch slow, last point held until all others started and then slow; concurrent: the first point of a small (or big) layer A held while 1..3 very large layers of another field are evaluated from start to end; oracle: layer array = map f points cell by cell, every point evaluated once, no evaluation outside the layer; non-trivial = always; distinct by (ny,nz,timing). big-render case: MarchingCubesUniform of a thin plate model (3 cells thick, layers of about 40x the in-flight bound, surface through every cell column) into a hashing Triangle3Writer: plain render, render whose evaluations return the same values but every s-th of them (by ordinal of start, no hook) is held for 8x..32x the in-flight bound, plain render again; exact triangle sequences must be equal. sink cases (sinks.go): a producer - scripted Write/Close histories with known content (chunks of 0..5 elements totalling k*B-1, k*B, k*B+1; single elements; whole-batch and larger chunks; mixtures; the caller reusing its chunk slice or not) and real renders (uniform / octree cubes of a sphere, uniform / quadtree squares and 2D dual contouring of a rounded box, several batches each) - writes through the PUBLIC sdf.NewTriangle3Buffer / sdf.NewLine2Buffer into a channel of capacity 0, 1, 2, 64 whose reader looks at batch i only after batch i+k has been received (k = 0, 1, 2, 3, or after the producer has finished) or sleeps 0.3 / 2 ms per batch, under GOMAXPROCS 1, 2, 16; the sequence of element VALUES seen must equal that seen by a prompt reader of an unbuffered channel (and the script); non-trivial = more than two batches; distinct by (producer, sink). deep-tree cases (sinks.go): MarchingCubesOctree of a rounded bar 2000x2x2 (along a random axis) and MarchingSquaresQuadtree of a rounded strip 2000x2 at 520..2100 cells on the long axis (12, 13 and 14 tree levels; slower tiers also 11 and 15) with wrappers that return the same distances but yield and spin in the evaluations of one half of the model (either half) or of alternate cubes of one of the three levels below the root (either parity), each under one (or two) and 16 CPUs; exact triangle / segment sequences must equal the plain render; non-trivial = more than 1000 triangles / 500 segments; distinct by (model, cells, GOMAXPROCS, skew)."
	r.Trusted = append(r.Trusted,
		"harness/effsum (see C10) for the premise that no map range, math/rand, time, unsynchronised shared store or extra go statement is reachable from Render/Evaluate; the whitelist is coq/Sys/Sched.v section 4",
		"hook render.VerifLayerEvaluate (verif tag) calls evalOnce.Do(evalRoutines), newLayerYZ and layerYZ.Evaluate as marchingCubes does",
		"model Sched.plan_loop of the batching loop of layerYZ.Evaluate, tied twice: by translation (harness/sysgen extracts layerYZ.Evaluate, evalRoutines and marchingCubes into Generated/SysProgs.v; C09_source_layer_is_batch_plan proves that the interpreted loop sends exactly Sched.batch_plan for every layer, C09_source_workers_refine_sched that every interleaving of the extracted routine's statements is a schedule of Sched.v) and by the recorded point->slot association; the batch size is read from its use in the loop, whatever the constant is called",
		"harness/sysgen (classification of Data statements, helper inlining, the check that the loop nest runs over exactly the allocated (ny+1)*(nz+1) points) and the reading of each primitive statement by the interpreters of SchedProg.v",
		"sha256 (first 8 bytes) of the triangle coordinates bit patterns / file bytes as identity of observables")
	r.Assumptions = append(r.Assumptions,
		"everything after the WaitGroup (marching loop, Triangle3Buffer, the single writer goroutine per sink) is a function of the layer arrays: argued from Effects.v (whitelist) and C11, not modelled statement by statement",
		"octree / quadtree / dual-contouring-2D renderers and the file writers are sequential; their determinism is covered by the effect whitelist and the run-time comparison only",
		"third-party output libraries (yofu/dxf, ajstarks/svgo, hpinc/go3mf, qmuntal/opc, gonum) are not analysed; 3MF is compared after unzipping, entry by entry, with [Content_Types].xml taken as a set of lines (qmuntal/opc writes the declarations in Go map iteration order, so raw 3MF bytes differ from run to run - the property asks for decoded content only)",
		"the 3D dual contouring renderers (render/dc, channel API, not a Render3) are covered by the effect whitelist only",
		"the model is given: constructing the same text/bezier shape twice in one process draws different numbers from the library's process-wide pseudo-random source (sdf/bezier.go) unless the source is reset (hook sdf.VerifResetRand); renders do not touch that source (no ERand in render_summaries)",
		"the run-time part exhibits only the schedules the Go scheduler happened to produce, plus the ones forced by holding chosen evaluations (biglayer.go: lags of up to one whole layer of 100x the in-flight bound in the quick tier)")
	return nil
}
