package main

// Two run-time strata of C09 that need no luck of the scheduler to tell a broken tree from a good one.
//
// (1) custom sinks (customSinks): "a given model rendered with a given renderer and resolution yields the
//     identical triangle / segment sequence ... independent of goroutine scheduling": the sequence is what
//     the renderer DELIVERS to the channel handed to the public sdf.NewTriangle3Buffer / sdf.NewLine2Buffer,
//     whoever reads that channel.  The library's own readers (ToTriangles, STL, 3MF, DXF, SVG writers) use an
//     unbuffered channel and finish one batch before they take the next; a caller's sink may queue batches
//     (buffered channel) and look at them later.  Here every producer (real renderers and scripted Write
//     histories with known content) is run into channels of capacity 0, 1, 2, 64 whose reader copies the
//     content of batch i only after batch i+k has been received (k = 0, 1, 2, 3, or "after the producer has
//     finished"), or sleeps per batch: the delivered sequence must equal the one seen by a prompt reader of
//     an unbuffered channel (and, for scripted producers, the script).  A batch slice that is recycled,
//     aliased with a later batch, or a triangle object that is reused shows up deterministically for k >= 2.
//
// (2) deep trees with evaluation-time skew (deepTrees): the octree / quadtree renderers are sequential; the
//     regular strata render at most 128 / 400 cells (9 / 10 tree levels).  Here long thin bars are rendered
//     at 507..2100 cells on the long axis (12, 13, 14 levels; more in the slower tiers) so that the tree is
//     deep while the surface (and the number of evaluations) stays small, with wrappers that return the same
//     distances but make the evaluations of one half of the model (or of alternate stripes of it) slower,
//     under GOMAXPROCS 1 and 16, with opposite skews: the exact triangle / segment sequence must equal that
//     of the plain render.

import (
	"fmt"
	"math"
	"runtime"
	"sync/atomic"
	"time"

	"github.com/deadsy/sdfx/render"
	"github.com/deadsy/sdfx/sdf"
	v2 "github.com/deadsy/sdfx/vec/v2"
	v3 "github.com/deadsy/sdfx/vec/v3"
	. "verifharness/kit"
)

// ---------------------------------------------------------------------------------------------------
// sinks

type sinkCfg struct {
	capacity int           // channel capacity
	lag      int           // copy batch i after batch i+lag was received; <0: after the channel was closed
	sleep    time.Duration // per batch, before looking at it
	procs    int
}

func (s sinkCfg) String() string {
	l := fmt.Sprintf("reads batch i after receiving batch i+%d", s.lag)
	if s.lag == 0 {
		l = "reads every batch at once"
	} else if s.lag < 0 {
		l = "reads all batches after the producer has finished"
	}
	if s.sleep > 0 {
		l += fmt.Sprintf(", sleeps %v per batch", s.sleep)
	}
	return fmt.Sprintf("chan capacity %d, reader %s, GOMAXPROCS=%d", s.capacity, l, s.procs)
}

var nilTri = sdf.Triangle3{{X: math.Inf(1)}, {X: math.Inf(1)}, {X: math.Inf(1)}}
var nilLine = sdf.Line2{{X: math.Inf(1)}, {X: math.Inf(1)}}

// sinkTris runs produce into sdf.NewTriangle3Buffer(ch) and returns the triangle VALUES the reader saw,
// and the batch lengths.
func sinkTris(produce func(w sdf.Triangle3Writer), cfg sinkCfg) ([]sdf.Triangle3, []int) {
	old := runtime.GOMAXPROCS(cfg.procs)
	defer runtime.GOMAXPROCS(old)
	ch := make(chan []*sdf.Triangle3, cfg.capacity)
	type res struct {
		got []sdf.Triangle3
		bl  []int
	}
	done := make(chan res, 1)
	go func() {
		var got []sdf.Triangle3
		var bl []int
		var held [][]*sdf.Triangle3
		flush := func(keep int) {
			for len(held) > keep {
				for _, t := range held[0] {
					if t == nil {
						got = append(got, nilTri)
					} else {
						got = append(got, *t)
					}
				}
				held = held[1:]
			}
		}
		for ts := range ch {
			if cfg.sleep > 0 {
				time.Sleep(cfg.sleep)
			}
			bl = append(bl, len(ts))
			held = append(held, ts)
			if cfg.lag >= 0 {
				flush(cfg.lag)
			}
		}
		flush(0)
		done <- res{got, bl}
	}()
	produce(sdf.NewTriangle3Buffer(ch))
	close(ch)
	r := <-done
	return r.got, r.bl
}

func sinkLines(produce func(w sdf.Line2Writer), cfg sinkCfg) ([]sdf.Line2, []int) {
	old := runtime.GOMAXPROCS(cfg.procs)
	defer runtime.GOMAXPROCS(old)
	ch := make(chan []*sdf.Line2, cfg.capacity)
	type res struct {
		got []sdf.Line2
		bl  []int
	}
	done := make(chan res, 1)
	go func() {
		var got []sdf.Line2
		var bl []int
		var held [][]*sdf.Line2
		flush := func(keep int) {
			for len(held) > keep {
				for _, t := range held[0] {
					if t == nil {
						got = append(got, nilLine)
					} else {
						got = append(got, *t)
					}
				}
				held = held[1:]
			}
		}
		for ts := range ch {
			if cfg.sleep > 0 {
				time.Sleep(cfg.sleep)
			}
			bl = append(bl, len(ts))
			held = append(held, ts)
			if cfg.lag >= 0 {
				flush(cfg.lag)
			}
		}
		flush(0)
		done <- res{got, bl}
	}()
	produce(sdf.NewLine2Buffer(ch))
	close(ch)
	r := <-done
	return r.got, r.bl
}

func diffTris(a, b []sdf.Triangle3) (int, string) {
	for i := 0; i < len(a) && i < len(b); i++ {
		if a[i] != b[i] {
			return i, fmt.Sprintf("element %d: expected %v, delivered %v (%d vs %d elements)", i, a[i], b[i], len(a), len(b))
		}
	}
	if len(a) != len(b) {
		return min(len(a), len(b)), fmt.Sprintf("expected %d elements, delivered %d (equal up to the shorter)", len(a), len(b))
	}
	return -1, ""
}

func diffLines(a, b []sdf.Line2) (int, string) {
	for i := 0; i < len(a) && i < len(b); i++ {
		if a[i] != b[i] {
			return i, fmt.Sprintf("element %d: expected %v, delivered %v (%d vs %d elements)", i, a[i], b[i], len(a), len(b))
		}
	}
	if len(a) != len(b) {
		return min(len(a), len(b)), fmt.Sprintf("expected %d elements, delivered %d (equal up to the shorter)", len(a), len(b))
	}
	return -1, ""
}

// sinkConfigs: every capacity with every kind of reader; GOMAXPROCS alternates.
func sinkConfigs(rng *Rng, quick bool) []sinkCfg {
	var out []sinkCfg
	k := rng.Intn(2)
	for _, capacity := range []int{0, 1, 2, 64} {
		for _, lag := range []int{0, 1, 2, 3, -1} {
			if capacity == 0 && lag == 0 {
				continue // the reference
			}
			k++
			out = append(out, sinkCfg{capacity: capacity, lag: lag, procs: []int{1, 16, 2}[k%3]})
		}
		k++
		out = append(out, sinkCfg{capacity: capacity, lag: 0, sleep: 300 * time.Microsecond, procs: []int{1, 16, 2}[k%3]})
		if capacity > 0 {
			k++
			out = append(out, sinkCfg{capacity: capacity, lag: 1, sleep: 2 * time.Millisecond, procs: []int{1, 16, 2}[k%3]})
		}
	}
	return out
}

// scripted producers: chunk sizes; element j carries the number j in every coordinate slot.
type script struct {
	name   string
	chunks []int
	reuse  bool // the caller reuses its chunk slice after Write has returned (Write copies, as io.Writer asks)
}

func scripts(rng *Rng, B int) []script {
	var out []script
	small := func(total int) []int {
		var cs []int
		for n := 0; n < total; {
			c := rng.Intn(6)
			if n+c > total {
				c = total - n
			}
			cs = append(cs, c)
			n += c
		}
		return cs
	}
	for _, d := range []int{-1, 0, 1} {
		k := 3 + rng.Intn(5)
		out = append(out, script{name: fmt.Sprintf("chunks of 0..5 elements, %d*%d%+d in all", k, B, d), chunks: small(k*B + d), reuse: d == 0})
	}
	ones := make([]int, 5*B+3)
	for i := range ones {
		ones[i] = 1
	}
	out = append(out, script{name: fmt.Sprintf("%d single elements (every batch exactly the threshold)", len(ones)), chunks: ones})
	out = append(out, script{name: "whole-batch and larger chunks", chunks: []int{B, 1, B - 1, 2 * B, 3, 3*B + 7, B, B, 5}, reuse: true})
	var mixed []int
	for i := 0; i < 12; i++ {
		mixed = append(mixed, small(rng.Range(B/2, 2*B))...)
		mixed = append(mixed, rng.Range(B-2, B+9))
	}
	out = append(out, script{name: "small chunks with chunks around the batch size in between", chunks: mixed, reuse: rng.Bool()})
	return out
}

func (s script) total() int {
	n := 0
	for _, c := range s.chunks {
		n += c
	}
	return n
}

func scriptTri(j int) sdf.Triangle3 {
	x := float64(j)
	return sdf.Triangle3{{X: x, Y: x + 0.25, Z: x + 0.5}, {X: -x, Y: x + 0.125, Z: 2 * x}, {X: x + 0.75, Y: -x, Z: 3 * x}}
}
func scriptLine(j int) sdf.Line2 {
	x := float64(j)
	return sdf.Line2{{X: x, Y: x + 0.25}, {X: -x, Y: x + 0.125}}
}

func (s script) tris(w sdf.Triangle3Writer) {
	j := 0
	var chunk []*sdf.Triangle3
	for _, c := range s.chunks {
		if s.reuse {
			chunk = chunk[:0]
		} else {
			chunk = make([]*sdf.Triangle3, 0, c)
		}
		for i := 0; i < c; i++ {
			t := scriptTri(j)
			j++
			chunk = append(chunk, &t)
		}
		w.Write(chunk)
	}
	w.Close()
}

func (s script) lines(w sdf.Line2Writer) {
	j := 0
	var chunk []*sdf.Line2
	for _, c := range s.chunks {
		if s.reuse {
			chunk = chunk[:0]
		} else {
			chunk = make([]*sdf.Line2, 0, c)
		}
		for i := 0; i < c; i++ {
			t := scriptLine(j)
			j++
			chunk = append(chunk, &t)
		}
		w.Write(chunk)
	}
	w.Close()
}

func customSinks(c *Ctx, r *Report, rng *Rng) int {
	n := 0
	quick := c.Tier == "quick"
	cfgs := sinkConfigs(rng, quick)
	ref := sinkCfg{capacity: 0, lag: 0, procs: 16}

	type prod3 struct {
		name    string
		produce func(w sdf.Triangle3Writer)
		truth   []sdf.Triangle3 // nil: the reference reader's sequence
		every   int             // use every n-th configuration (real renders cost more)
	}
	type prod2 struct {
		name    string
		produce func(w sdf.Line2Writer)
		truth   []sdf.Line2
		every   int
	}
	var p3 []prod3
	var p2 []prod2
	for _, s := range scripts(rng, 256) {
		s := s
		truth := make([]sdf.Triangle3, s.total())
		for j := range truth {
			truth[j] = scriptTri(j)
		}
		p3 = append(p3, prod3{name: fmt.Sprintf("scripted Write calls (%s, caller reuses its chunk slice: %v)", s.name, s.reuse), produce: s.tris, truth: truth, every: 1})
	}
	for _, s := range scripts(rng, 128) {
		s := s
		truth := make([]sdf.Line2, s.total())
		for j := range truth {
			truth[j] = scriptLine(j)
		}
		p2 = append(p2, prod2{name: fmt.Sprintf("scripted Write calls (%s, caller reuses its chunk slice: %v)", s.name, s.reuse), produce: s.lines, truth: truth, every: 1})
	}
	sph, _ := sdf.Sphere3D(10)
	m3 := sdf.Transform3D(sph, sdf.Translate3d(v3.Vec{X: 0.37, Y: -0.11, Z: 0.23}))
	c3 := TierN(c.Tier, 26, 40, 30) + rng.Intn(6)
	p3 = append(p3,
		prod3{name: fmt.Sprintf("MarchingCubesUniform(%d) of sphere(10)@(0.37,-0.11,0.23)", c3), produce: func(w sdf.Triangle3Writer) { render.NewMarchingCubesUniform(c3).Render(m3, w) }, every: TierN(c.Tier, 2, 1, 1)},
		prod3{name: fmt.Sprintf("MarchingCubesOctree(%d) of sphere(10)@(0.37,-0.11,0.23)", c3), produce: func(w sdf.Triangle3Writer) { render.NewMarchingCubesOctree(c3).Render(m3, w) }, every: TierN(c.Tier, 2, 1, 1)})
	m2 := sdf.Transform2D(sdf.Box2D(v2.Vec{X: 10, Y: 6}, 1), sdf.Translate2d(v2.Vec{X: 0.37, Y: -0.11}))
	c2 := 260 + rng.Intn(80)
	p2 = append(p2,
		prod2{name: fmt.Sprintf("MarchingSquaresUniform(%d) of rounded box(10,6,1)@(0.37,-0.11)", c2), produce: func(w sdf.Line2Writer) { render.NewMarchingSquaresUniform(c2).Render(m2, w) }, every: TierN(c.Tier, 2, 1, 1)},
		prod2{name: fmt.Sprintf("MarchingSquaresQuadtree(%d) of rounded box(10,6,1)@(0.37,-0.11)", c2), produce: func(w sdf.Line2Writer) { render.NewMarchingSquaresQuadtree(c2).Render(m2, w) }, every: TierN(c.Tier, 2, 1, 1)},
		prod2{name: fmt.Sprintf("DualContouring2D(%d) of rounded box(10,6,1)@(0.37,-0.11)", c2/2), produce: func(w sdf.Line2Writer) { render.NewDualContouring2D(c2/2).Render(m2, w) }, every: TierN(c.Tier, 3, 1, 2)})

	for pi, p := range p3 {
		want, wbl := sinkTris(p.produce, ref)
		key := "sink3:" + p.name
		if p.truth != nil {
			if i, d := diffTris(p.truth, want); i >= 0 {
				r.Case("sink/scripted3", key, true)
				r.Violate(key, fmt.Sprintf("%s into sdf.NewTriangle3Buffer, %s: the delivered sequence is not the written one: %s", p.name, ref, d),
					map[string]interface{}{"producer": p.name, "sink": ref.String(), "first_difference": i})
				continue
			}
		}
		bad := false
		for ci, cfg := range cfgs {
			if (ci+pi)%p.every != 0 {
				continue
			}
			st := "sink/render3"
			if p.truth != nil {
				st = "sink/scripted3"
			}
			r.Case(st, fmt.Sprintf("%s|%s", key, cfg), len(wbl) > 2)
			n++
			got, _ := sinkTris(p.produce, cfg)
			if i, d := diffTris(want, got); i >= 0 && !bad {
				bad = true
				r.Violate(key, fmt.Sprintf("%s into sdf.NewTriangle3Buffer(ch): the triangle sequence delivered to the sink depends on how the sink drains the channel: [%s] sees a different sequence than [%s]: %s (batches of the reference: %d)",
					p.name, cfg, ref, d, len(wbl)),
					map[string]interface{}{"producer": p.name, "sink": cfg.String(), "chan_capacity": cfg.capacity, "reader_lag_batches": cfg.lag, "reader_sleep_ns": cfg.sleep, "gomaxprocs": cfg.procs, "first_difference": i, "batches": len(wbl)})
			}
		}
	}
	for pi, p := range p2 {
		want, wbl := sinkLines(p.produce, ref)
		key := "sink2:" + p.name
		if p.truth != nil {
			if i, d := diffLines(p.truth, want); i >= 0 {
				r.Case("sink/scripted2", key, true)
				r.Violate(key, fmt.Sprintf("%s into sdf.NewLine2Buffer, %s: the delivered sequence is not the written one: %s", p.name, ref, d),
					map[string]interface{}{"producer": p.name, "sink": ref.String(), "first_difference": i})
				continue
			}
		}
		bad := false
		for ci, cfg := range cfgs {
			if (ci+pi)%p.every != 0 {
				continue
			}
			st := "sink/render2"
			if p.truth != nil {
				st = "sink/scripted2"
			}
			r.Case(st, fmt.Sprintf("%s|%s", key, cfg), len(wbl) > 2)
			n++
			got, _ := sinkLines(p.produce, cfg)
			if i, d := diffLines(want, got); i >= 0 && !bad {
				bad = true
				r.Violate(key, fmt.Sprintf("%s into sdf.NewLine2Buffer(ch): the segment sequence delivered to the sink depends on how the sink drains the channel: [%s] sees a different sequence than [%s]: %s (batches of the reference: %d)",
					p.name, cfg, ref, d, len(wbl)),
					map[string]interface{}{"producer": p.name, "sink": cfg.String(), "chan_capacity": cfg.capacity, "reader_lag_batches": cfg.lag, "reader_sleep_ns": cfg.sleep, "gomaxprocs": cfg.procs, "first_difference": i, "batches": len(wbl)})
			}
		}
	}
	return n
}

// ---------------------------------------------------------------------------------------------------
// deep trees

// skew: which evaluations are slow. mode 0: coordinate > 0 (the bars are centred); 1: coordinate < 0;
// 2 / 3: even / odd stripes of width w along the long axis, counted from o (the stripes are the cubes of
// one level of the tree: a renderer that hands sub-trees of any level to goroutines sees a slow and a
// fast sub-tree next to each other).
type skew struct {
	axis, mode int
	o, w       float64 // stripes [o+i*w, o+(i+1)*w)
	n, fast    atomic.Uint64
}

func (k *skew) String() string {
	ax := "xyz"[k.axis : k.axis+1]
	switch k.mode {
	case 0:
		return "evaluations with " + ax + " > 0 slower"
	case 1:
		return "evaluations with " + ax + " < 0 slower"
	case 2:
		return fmt.Sprintf("evaluations in even stripes [%g+i*%g, +%g) along %s slower", k.o, k.w, k.w, ax)
	}
	return fmt.Sprintf("evaluations in odd stripes [%g+i*%g, +%g) along %s slower", k.o, k.w, k.w, ax)
}

func (k *skew) pace(c float64) {
	slow := false
	switch k.mode {
	case 0:
		slow = c > 0
	case 1:
		slow = c < 0
	default:
		slow = (int(math.Floor((c-k.o)/k.w))&1 == 0) == (k.mode == 2)
	}
	if !slow {
		k.fast.Add(1)
		return
	}
	// a slow evaluation yields for as long as evaluations of the other part are making progress next to
	// it (bounded; in a sequential renderer nothing else runs and this is one yield), and burns some
	// time at every 32nd evaluation (no timer: a sleep costs far more than it asks for and the renders
	// evaluate some 10^5 points)
	for i := 0; i < 64; i++ {
		f := k.fast.Load()
		runtime.Gosched()
		for j := 0; j < 40 && k.fast.Load() == f; j++ {
		}
		if k.fast.Load() == f {
			break
		}
	}
	if k.n.Add(1)%32 == 0 {
		for t0 := time.Now(); time.Since(t0) < 20*time.Microsecond; {
		}
	}
}

type skewed3 struct {
	s sdf.SDF3
	k *skew
}

func (s skewed3) Evaluate(p v3.Vec) float64 {
	s.k.pace([]float64{p.X, p.Y, p.Z}[s.k.axis])
	return s.s.Evaluate(p)
}
func (s skewed3) BoundingBox() sdf.Box3 { return s.s.BoundingBox() }

type skewed2 struct {
	s sdf.SDF2
	k *skew
}

func (s skewed2) Evaluate(p v2.Vec) float64 {
	s.k.pace([]float64{p.X, p.Y}[s.k.axis])
	return s.s.Evaluate(p)
}
func (s skewed2) BoundingBox() sdf.Box2 { return s.s.BoundingBox() }

func treeLevels(cells int) int { return int(math.Ceil(math.Log2(2.02*float64(cells)))) + 1 }

func deepTrees(c *Ctx, r *Report, rng *Rng) int {
	n := 0
	old := runtime.GOMAXPROCS(16)
	defer runtime.GOMAXPROCS(old)
	// cells on the long axis for 12, 13, 14 (15, 16) levels: levels = ceil(log2(2.02*cells)) + 1
	// (from 1.5% above the power of two: below that the whole surface lies in one half of the root cube)
	cellsFor := []int{rng.Range(520, 1013), rng.Range(1030, 1300), rng.Range(2045, 2100)}
	if c.Tier != "quick" {
		cellsFor = append(cellsFor, rng.Range(260, 506), rng.Range(1301, 2027), rng.Range(4090, 4200))
	}
	const L = 2000.0
	tris := func(s sdf.SDF3, cells int) []sdf.Triangle3 {
		ts := render.ToTriangles(s, render.NewMarchingCubesOctree(cells))
		out := make([]sdf.Triangle3, len(ts))
		for i, p := range ts {
			out[i] = *p
		}
		return out
	}
	lines := func(s sdf.SDF2, cells int) []sdf.Line2 {
		ls := collectLines(s, render.NewMarchingSquaresQuadtree(cells))
		out := make([]sdf.Line2, len(ls))
		for i, p := range ls {
			out[i] = *p
		}
		return out
	}
	for _, cells := range cellsFor {
		// all four skews under one and many CPUs
		lo := []int{1, 1, 2}[rng.Intn(3)]
		runs := []struct{ procs, mode int }{{lo, 0}, {16, 1}, {16, 2}, {lo, 3}, {16, 0}, {1, 1}, {1, 2}, {16, 3}}
		// stripes = the cubes of one of the three top levels below the root: the root cube has side
		// 2^(levels-2) cells and starts at the minimum of the bounding box scaled by 1.01
		res := L / float64(cells)
		o := -0.5 * 1.01 * L
		w := res * float64(int(1)<<uint(treeLevels(cells)-3-rng.Intn(3)))
		// 3D: a rounded bar L x 2 x 2 along a random axis, a little off centre
		{
			axis := rng.Intn(3)
			size := [3]float64{2, 2, 2}
			size[axis] = L
			bar, err := sdf.Box3D(v3.Vec{X: size[0], Y: size[1], Z: size[2]}, 0.25)
			if err != nil {
				continue
			}
			name := fmt.Sprintf("rounded bar %gx%gx%g", size[0], size[1], size[2])
			key := fmt.Sprintf("deep-octree:%s/mco%d", name, cells)
			runtime.GOMAXPROCS(16)
			want := tris(bar, cells)
			for _, run := range runs {
				k := &skew{axis: axis, mode: run.mode, o: o, w: w}
				r.Case(fmt.Sprintf("deep/octree/levels=%d", treeLevels(cells)), fmt.Sprintf("%s|%d|%d", key, run.procs, run.mode), len(want) > 1000)
				n++
				runtime.GOMAXPROCS(run.procs)
				got := tris(skewed3{bar, k}, cells)
				runtime.GOMAXPROCS(16)
				if i, d := diffTris(want, got); i >= 0 {
					r.Violate(key, fmt.Sprintf("MarchingCubesOctree(%d) (%d tree levels) of a %s: the triangle sequence depends on how long evaluations take: plain render under GOMAXPROCS=16 vs the same distances with %s under GOMAXPROCS=%d: %s",
						cells, treeLevels(cells), name, k, run.procs, d),
						map[string]interface{}{"model": name, "renderer": "MarchingCubesOctree", "cells": cells, "levels": treeLevels(cells), "gomaxprocs": run.procs, "skew": k.String(), "first_difference": i})
					break
				}
			}
		}
		// 2D: a rounded strip L x 2 along a random axis
		{
			axis := rng.Intn(2)
			size := [2]float64{2, 2}
			size[axis] = L
			strip := sdf.Box2D(v2.Vec{X: size[0], Y: size[1]}, 0.25)
			name := fmt.Sprintf("rounded strip %gx%g", size[0], size[1])
			key := fmt.Sprintf("deep-quadtree:%s/msq%d", name, cells)
			runtime.GOMAXPROCS(16)
			want := lines(strip, cells)
			for _, run := range runs {
				k := &skew{axis: axis, mode: run.mode, o: o, w: w}
				r.Case(fmt.Sprintf("deep/quadtree/levels=%d", treeLevels(cells)), fmt.Sprintf("%s|%d|%d", key, run.procs, run.mode), len(want) > 500)
				n++
				runtime.GOMAXPROCS(run.procs)
				got := lines(skewed2{strip, k}, cells)
				runtime.GOMAXPROCS(16)
				if i, d := diffLines(want, got); i >= 0 {
					r.Violate(key, fmt.Sprintf("MarchingSquaresQuadtree(%d) (%d tree levels) of a %s: the segment sequence depends on how long evaluations take: plain render under GOMAXPROCS=16 vs the same distances with %s under GOMAXPROCS=%d: %s",
						cells, treeLevels(cells), name, k, run.procs, d),
						map[string]interface{}{"model": name, "renderer": "MarchingSquaresQuadtree", "cells": cells, "levels": treeLevels(cells), "gomaxprocs": run.procs, "skew": k.String(), "first_difference": i})
					break
				}
			}
		}
	}
	return n
}
