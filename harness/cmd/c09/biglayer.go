package main

// Very large layers under ADVERSARIAL evaluation timing.
//
// "... independent of ... goroutine scheduling, the time individual evaluations take": the layer strata
// of main.go stop at 128 x 128 points (164 batches) and perturb the schedule by short pseudo-random
// sleeps, so every batch still completes within a few batches of its dispatch.  Anything that is only
// correct while batches complete NEARLY in dispatch order (point / request buffers handed out in
// rotation from a ring or pool that is "much larger than what can be in flight", a bounded table of
// outstanding requests, a generation counter that wraps ...) is invisible there.  Here
//
//   - the layer has many times more points than can be in flight at once (queue capacity, read from
//     the source, plus one batch per evaluation routine plus the one being filled, times the batch
//     size): about 2.5x, 20x and 100x that bound in the quick tier (up to 400x in the others);
//   - the field is exact and cheap (the j-th point of the layer loop has the value j), and chosen
//     evaluations are HELD until a given number of other evaluations of the layer have started:
//     first point of the first batch until everything else is done, a point inside a batch, all
//     evaluation routines but one starved and released in reverse dispatch order, a rolling lag
//     (every s-th batch is held for L further evaluations, for several L), every k-th batch slow,
//     the last point of the layer held until all others are done and then slow;
//   - a small layer is held at its first point while a very large layer of ANOTHER field is
//     evaluated from start to end (shared rings / pools), and the other way round.
//
// Oracle: Sched.v's conclusion itself - the layer array equals map f points - cell by cell, plus
// every point evaluated exactly once and no evaluation at a point outside the layer.
//
// One whole render (wholeRenderTiming) observes the property's own observable the same way: a thin
// plate with very large layers, rolling-lag holds keyed on the ordinal of the evaluation (no hook).

import (
	"fmt"
	"go/ast"
	"go/parser"
	"go/token"
	"math"
	"os"
	"path/filepath"
	"runtime"
	"sort"
	"strconv"
	"strings"
	"sync"
	"sync/atomic"
	"time"

	"github.com/deadsy/sdfx/render"
	"github.com/deadsy/sdfx/sdf"
	v3 "github.com/deadsy/sdfx/vec/v3"
	"github.com/deadsy/sdfx/vec/v3i"
	. "verifharness/kit"
)

// queueCapOf reads the capacity of the evaluation request queue(s) from the source of the tree
// under test: the largest n of any package-level `make(chan T, n)` of package render (n an integer
// literal or a package-level integer constant).  100 if nothing is found.
func queueCapOf(repo string) int {
	fset := token.NewFileSet()
	pkgs, err := parser.ParseDir(fset, filepath.Join(repo, "render"), func(fi os.FileInfo) bool {
		return !strings.HasSuffix(fi.Name(), "_test.go")
	}, 0)
	if err != nil {
		return 100
	}
	consts := map[string]int{}
	var caps []ast.Expr
	for _, p := range pkgs {
		for _, f := range p.Files {
			for _, d := range f.Decls {
				gd, ok := d.(*ast.GenDecl)
				if !ok {
					continue
				}
				for _, s := range gd.Specs {
					vs, ok := s.(*ast.ValueSpec)
					if !ok {
						continue
					}
					for i, id := range vs.Names {
						if i >= len(vs.Values) {
							continue
						}
						switch gd.Tok {
						case token.CONST:
							if bl, ok := vs.Values[i].(*ast.BasicLit); ok && bl.Kind == token.INT {
								if v, err := strconv.Atoi(bl.Value); err == nil {
									consts[id.Name] = v
								}
							}
						case token.VAR:
							c, ok := vs.Values[i].(*ast.CallExpr)
							if !ok || len(c.Args) != 2 {
								continue
							}
							if fn, ok := c.Fun.(*ast.Ident); !ok || fn.Name != "make" {
								continue
							}
							if _, ok := c.Args[0].(*ast.ChanType); ok {
								caps = append(caps, c.Args[1])
							}
						}
					}
				}
			}
		}
	}
	best := 0
	for _, e := range caps {
		switch x := e.(type) {
		case *ast.BasicLit:
			if v, err := strconv.Atoi(x.Value); err == nil && v > best {
				best = v
			}
		case *ast.Ident:
			if v, ok := consts[x.Name]; ok && v > best {
				best = v
			}
		}
	}
	if best == 0 {
		return 100
	}
	return best
}

// ---------------------------------------------------------------------------- holds

const holdTimeout = 4 * time.Second

// holdsOff is set once a hold had to be given up (the evaluations it waited for never started: the
// tree under test evaluates with fewer routines than the schedule assumed); later schedules run
// without holds so that the check stays fast.  Not a violation.
var holdsOff atomic.Bool
var holdTimeouts atomic.Int64

// hold: one evaluation that does not return before `until` evaluations of its field have started
// (until = 0: only when released by hand), then sleeps for `after`.
type hold struct {
	at      int64 // point index (timedLayer) or ordinal of the evaluation (timedRender)
	until   int64
	after   time.Duration
	release chan struct{}
	once    sync.Once
	entered atomic.Bool
}

func (h *hold) open() { h.once.Do(func() { close(h.release) }) }
func (h *hold) wait() {
	select {
	case <-h.release:
	case <-time.After(holdTimeout):
		holdTimeouts.Add(1)
		holdsOff.Store(true)
	}
	if h.after > 0 {
		time.Sleep(h.after)
	}
}

// holdSet releases its holds as the count of started evaluations passes their thresholds.
type holdSet struct {
	count   atomic.Int64
	next    atomic.Int64 // smallest threshold still pending
	mu      sync.Mutex
	pending []*hold // sorted by until
	byAt    map[int64]*hold
}

func newHoldSet(hs []*hold) *holdSet {
	s := &holdSet{byAt: map[int64]*hold{}}
	for _, h := range hs {
		h.release = make(chan struct{})
		s.byAt[h.at] = h
		if h.until > 0 {
			s.pending = append(s.pending, h)
		}
	}
	sort.SliceStable(s.pending, func(i, j int) bool { return s.pending[i].until < s.pending[j].until })
	s.next.Store(math.MaxInt64)
	if len(s.pending) > 0 {
		s.next.Store(s.pending[0].until)
	}
	return s
}

// started counts one evaluation and opens every hold whose threshold is reached.
func (s *holdSet) started() int64 {
	c := s.count.Add(1)
	if c >= s.next.Load() {
		s.mu.Lock()
		for len(s.pending) > 0 && s.pending[0].until <= c {
			s.pending[0].open()
			s.pending = s.pending[1:]
		}
		if len(s.pending) > 0 {
			s.next.Store(s.pending[0].until)
		} else {
			s.next.Store(math.MaxInt64)
		}
		s.mu.Unlock()
	}
	return c
}

func (s *holdSet) openAll() {
	for _, h := range s.byAt {
		h.open()
	}
}

// ---------------------------------------------------------------------------- the layer field

// timedLayer: the j-th point of the layer loop has the value off + j; timing by holds / slowEvery.
type timedLayer struct {
	x        float64
	ys, zs   []float64 // coordinates as the layer loop accumulates them
	by, bz   float64
	dy, dz   float64
	off      float64
	hs       *holdSet
	slowStep int // the evaluation of every point with j % slowStep == 0 sleeps for slowFor
	slowFor  time.Duration
	unknown  atomic.Int64
}

func idxOf(xs []float64, base, d, v float64) int {
	k := int((v-base)/d + 0.5)
	for _, c := range [3]int{k, k - 1, k + 1} {
		if c >= 0 && c < len(xs) && xs[c] == v {
			return c
		}
	}
	return -1
}

func (t *timedLayer) Evaluate(p v3.Vec) float64 {
	t.hs.started()
	yi, zi := idxOf(t.ys, t.by, t.dy, p.Y), idxOf(t.zs, t.bz, t.dz, p.Z)
	if yi < 0 || zi < 0 || p.X != t.x {
		t.unknown.Add(1)
		return -1
	}
	j := yi*len(t.zs) + zi
	if len(t.hs.byAt) > 0 {
		if h := t.hs.byAt[int64(j)]; h != nil && !holdsOff.Load() && h.entered.CompareAndSwap(false, true) {
			h.wait()
			return t.off + float64(j)
		}
	}
	if t.slowStep > 0 && j%t.slowStep == 0 {
		time.Sleep(t.slowFor)
	}
	return t.off + float64(j)
}
func (t *timedLayer) BoundingBox() sdf.Box3 { return sdf.Box3{} }

type bigLayer struct {
	ny, nz int
	base   v3.Vec
	inc    v3.Vec
	x      int
	f      *timedLayer
	n      int
}

func newBigLayer(ny, nz int, off float64, hs []*hold) *bigLayer {
	l := &bigLayer{ny: ny, nz: nz, base: v3.Vec{X: -1.25, Y: -0.75, Z: 0.5}, inc: v3.Vec{X: 0.125, Y: 0.1, Z: 0.3}, x: 2}
	l.n = (ny + 1) * (nz + 1)
	f := &timedLayer{x: l.base.X + float64(l.x)*l.inc.X, by: l.base.Y, bz: l.base.Z, dy: l.inc.Y, dz: l.inc.Z, off: off, hs: newHoldSet(hs)}
	v := l.base.Y
	for y := 0; y < ny+1; y++ {
		f.ys = append(f.ys, v)
		v += l.inc.Y
	}
	v = l.base.Z
	for z := 0; z < nz+1; z++ {
		f.zs = append(f.zs, v)
		v += l.inc.Z
	}
	l.f = f
	return l
}

// run evaluates the layer through the hook and compares it with map f points.
func (l *bigLayer) run() (bad string) {
	out := render.VerifLayerEvaluate(l.f, l.base, l.inc, v3i.Vec{X: 3, Y: l.ny, Z: l.nz}, l.x)
	l.f.hs.openAll()
	n, off := l.n, l.f.off
	if len(out) != n {
		return fmt.Sprintf("layer array has %d cells for %d points", len(out), n)
	}
	wrong, first := 0, -1
	for slot, v := range out {
		if v != off+float64(slot) {
			if first < 0 {
				first = slot
			}
			wrong++
		}
	}
	if first >= 0 {
		v := out[first]
		j := v - off
		what := fmt.Sprintf("which is not the value of any point of the layer (values %v .. %v)", off, off+float64(n-1))
		if j == math.Trunc(j) && j >= 0 && j < float64(n) {
			what = fmt.Sprintf("the value of point %d (y=%d, z=%d)", int(j), int(j)/(l.nz+1), int(j)%(l.nz+1))
		}
		return fmt.Sprintf("cell %d (y=%d, z=%d) holds %v, %s; %d of %d cells differ from map f points", first, first/(l.nz+1), first%(l.nz+1), v, what, wrong, n)
	}
	if u := l.f.unknown.Load(); u > 0 {
		return fmt.Sprintf("%d evaluations at points that are not in the layer", u)
	}
	if c := l.f.hs.count.Load(); c != int64(n) {
		return fmt.Sprintf("%d evaluations for %d points", c, n)
	}
	return ""
}

// ---------------------------------------------------------------------------- schedules

type timing struct {
	name     string
	holds    []*hold
	slowStep int
	slowFor  time.Duration
	desc     string
}

func descHolds(hs []*hold) string {
	var s []string
	for i, h := range hs {
		if i == 6 {
			s = append(s, fmt.Sprintf("... (%d holds)", len(hs)))
			break
		}
		s = append(s, fmt.Sprintf("point %d until %d evaluations have started", h.at, h.until))
	}
	return strings.Join(s, "; ")
}

// timings: the adversarial schedules for a layer of n points, batch size B, w evaluation routines,
// inflight = the number of points that can be in flight at once.
func timings(rng *Rng, n, B, w, inflight int) []timing {
	nb := (n + B - 1) / B
	ts := []timing{{name: "plain"}}
	if w < 2 || nb < 4 {
		return ts
	}
	N := int64(n)
	all := N - int64(B) // everything outside one held batch
	ts = append(ts, timing{name: "hold-first", holds: []*hold{{at: 0, until: all}}})
	{
		k := rng.Intn(nb/8 + 1)
		pos := 1 + rng.Intn(B-1)
		ts = append(ts, timing{name: "hold-inside-batch", holds: []*hold{{at: int64(k*B + pos), until: all}}})
	}
	{
		// all routines but one starved, released in reverse dispatch order over the second half of the layer
		m := w - 1
		if m > 8 {
			m = 8
		}
		if m > nb/2 {
			m = nb / 2
		}
		stride := 1 + rng.Intn(3)
		last := N - int64(m*B)
		step := (N / 2) / int64(m)
		var hs []*hold
		for i := 0; i < m; i++ {
			hs = append(hs, &hold{at: int64(i * stride * B), until: last - int64(i)*step})
		}
		ts = append(ts, timing{name: "starve-all-but-one", holds: hs})
	}
	{
		// rolling lag: every stride-th batch is held while `lag` further evaluations start; at most conc at a time
		conc := w - 2
		if conc < 1 {
			conc = 1
		}
		if conc > 6 {
			conc = 6
		}
		limit := N - int64((conc+1)*B)
		for _, mul := range []int{2, 8, 32} {
			lag := mul * inflight
			if rng.Bool() {
				lag += rng.Intn(lag/2 + 1)
			}
			if int64(lag) > N/2 {
				lag = int(N / 2)
			}
			stride := lag/(B*conc) + 2
			var hs []*hold
			for k := rng.Intn(stride); k < nb && len(hs) < 64; k += stride {
				pos := 0
				if rng.Intn(3) == 0 {
					pos = rng.Intn(B)
				}
				at := int64(k*B + pos)
				if at >= N || at+int64(lag) > limit {
					break
				}
				hs = append(hs, &hold{at: at, until: at + int64(lag)})
			}
			if len(hs) > 0 {
				ts = append(ts, timing{name: fmt.Sprintf("rolling-lag-%dx", mul), holds: hs})
			}
			if int64(lag) == N/2 {
				break
			}
		}
	}
	{
		k := 3 + rng.Intn(30)
		if nb/k > 400 {
			k = nb / 400
		}
		ts = append(ts, timing{name: "slow-every-kth-batch", slowStep: k * B, slowFor: 30 * time.Microsecond,
			desc: fmt.Sprintf("the first point of every %d-th batch takes 30us longer", k)})
	}
	ts = append(ts, timing{name: "hold-last", holds: []*hold{{at: N - 1, until: N, after: 2 * time.Millisecond}},
		desc: "the last point of the layer returns 2ms after every other evaluation has started"})
	for i := range ts {
		if ts[i].desc == "" {
			ts[i].desc = descHolds(ts[i].holds)
		}
	}
	return ts
}

// shapeOf picks (ny, nz) with about n points: square, thin (few long rows), or tall (many short rows).
func shapeOf(rng *Rng, n int, kind int) (int, int) {
	switch kind % 3 {
	case 0:
		s := int(math.Sqrt(float64(n)))
		return s + rng.Intn(7), s + rng.Intn(7)
	case 1:
		ny := rng.Intn(4)
		return ny, n/(ny+1) + rng.Intn(50)
	default:
		nz := 2 + rng.Intn(40)
		return n/(nz+1) + rng.Intn(50), nz
	}
}

func bigLayers(c *Ctx, r *Report, rng *Rng, B int) {
	qcap := queueCapOf(c.Repo)
	w := runtime.NumCPU()
	if g := runtime.GOMAXPROCS(0); g > w {
		w = g
	}
	inflight := (qcap + w + 1) * B
	muls := []float64{2.5, 20, 100}
	switch c.Tier {
	case "thorough":
		muls = []float64{2.5, 7, 20, 50, 100, 200, 400}
	case "search":
		muls = []float64{2.5, 20, 60, 100, 250}
	}
	r.Coverage["queue_capacity"] = qcap
	r.Coverage["evaluation_routines_assumed"] = runtime.NumCPU()
	r.Coverage["points_in_flight_bound"] = inflight
	maxPts := 0
	for mi, mul := range muls {
		n := int(mul * float64(inflight))
		kinds := 1
		if c.Tier != "quick" || mul <= 20 {
			kinds = 3
		}
		for kind := 0; kind < kinds; kind++ {
			ny, nz := shapeOf(rng, n, kind+mi)
			pts := (ny + 1) * (nz + 1)
			if pts > maxPts {
				maxPts = pts
			}
			for _, tm := range timings(rng, pts, B, runtime.NumCPU(), inflight) {
				if kind > 0 && c.Tier == "quick" && mul > 2.5 && !strings.HasPrefix(tm.name, "rolling") && tm.name != "hold-first" {
					continue // second and third shape of a big size: the schedules that depend on position only
				}
				key := fmt.Sprintf("big-layer:ny=%d,nz=%d,%s", ny, nz, tm.name)
				r.Case("big-layer/"+tm.name, key, true)
				l := newBigLayer(ny, nz, 0, tm.holds)
				l.f.slowStep, l.f.slowFor = tm.slowStep, tm.slowFor
				if bad := l.run(); bad != "" {
					r.Violate(key, fmt.Sprintf("layerYZ.Evaluate with (ny+1)*(nz+1) = %d points (%.1f x the %d points that can be in flight: queue %d + %d routines + 1, batch size %d), exact field, timing %s [%s]: %s",
						pts, float64(pts)/float64(inflight), inflight, qcap, w, B, tm.name, tm.desc, bad),
						map[string]interface{}{"ny": ny, "nz": nz, "batchSize": B, "timing": tm.name, "holds": tm.desc})
				}
				if tm.name == "hold-first" && mi == len(muls)-1 {
					r.Sample(map[string]interface{}{"kind": "big-layer", "ny": ny, "nz": nz, "points": pts, "timing": tm.name, "holds": tm.desc})
				}
			}
		}
	}
	r.Coverage["largest_layer_points"] = maxPts

	// two layers of different fields at the same time: one held at its first point while the other
	// is evaluated from start to end
	if runtime.NumCPU() >= 2 {
		big := int(muls[len(muls)-1] * float64(inflight))
		for _, sc := range []struct {
			name         string
			na, nb, reps int
		}{
			// the traffic of the other layers adds up while A is held: no bound on the lag
			{"small-held-during-big", 3*B + 5, big, TierN(c.Tier, 3, 8, 4)},
			{"big-held-during-big", int(muls[1] * float64(inflight)), big, 1},
		} {
			nyA, nzA := shapeOf(rng, sc.na, 0)
			nyB, nzB := shapeOf(rng, sc.nb, rng.Intn(3))
			key := fmt.Sprintf("big-layer-concurrent:%s,A=%dx%d,B=%dx%dx%d", sc.name, nyA, nzA, sc.reps, nyB, nzB)
			r.Case("big-layer/concurrent", key, true)
			hA := &hold{at: 0}
			la := newBigLayer(nyA, nzA, -1e9, []*hold{hA})
			done := make(chan string, 1)
			go func() { done <- la.run() }()
			// wait until A's first point is being evaluated (or A has finished without it: holds are off)
			deadline := time.Now().Add(holdTimeout)
			for !hA.entered.Load() && time.Now().Before(deadline) && len(done) == 0 {
				time.Sleep(50 * time.Microsecond)
			}
			badB, nB := "", 0
			for rep := 0; rep < sc.reps && badB == ""; rep++ {
				lb := newBigLayer(nyB, nzB, float64(rep)*1e7, nil)
				nB = lb.n
				if badB = lb.run(); badB != "" {
					badB = fmt.Sprintf("#%d: %s", rep+1, badB)
				}
			}
			hA.open()
			badA := <-done
			if badA != "" || badB != "" {
				msg := ""
				if badA != "" {
					msg = "layer A: " + badA
				}
				if badB != "" {
					if msg != "" {
						msg += "; "
					}
					msg += "layer B" + badB
				}
				r.Violate(key, fmt.Sprintf("layerYZ.Evaluate of layers of different exact fields at the same time (A: point j has value -1e9+j, %d points; B #k: point j has value (k-1)*1e7+j, %d points), the first point of A held until %d layer(s) B have been evaluated from start to end one after the other: %s",
					la.n, nB, sc.reps, msg), map[string]interface{}{"A": []int{nyA, nzA}, "B": []int{nyB, nzB}, "B_layers": sc.reps, "batchSize": B})
			}
		}
	}
	r.Coverage["hold_timeouts"] = holdTimeouts.Load()
}

// ---------------------------------------------------------------------------- a whole render

// plate3 is a cheap model whose surface crosses every (y, z) column of a thin slab: every cell of a
// layer matters for the triangles.
type plate3 struct{ side, thick float64 }

func (p plate3) Evaluate(q v3.Vec) float64 {
	u := q.Y*0.37 + q.Z*0.11
	u -= math.Floor(u)
	v := q.Z*0.29 - q.Y*0.13
	v -= math.Floor(v)
	return q.X - p.thick*0.3*(u+v-1)
}
func (p plate3) BoundingBox() sdf.Box3 {
	return sdf.Box3{Min: v3.Vec{X: -p.thick / 2, Y: -p.side / 2, Z: -p.side / 2}, Max: v3.Vec{X: p.thick / 2, Y: p.side / 2, Z: p.side / 2}}
}

// timedRender has the values of s; the evaluations whose ordinal (in order of their start) is listed
// are held until a given number of evaluations have started.
type timedRender struct {
	s  sdf.SDF3
	hs *holdSet
}

func (t *timedRender) Evaluate(p v3.Vec) float64 {
	c := t.hs.started()
	if len(t.hs.byAt) > 0 {
		if h := t.hs.byAt[c]; h != nil && !holdsOff.Load() && h.entered.CompareAndSwap(false, true) {
			h.wait()
		}
	}
	return t.s.Evaluate(p)
}
func (t *timedRender) BoundingBox() sdf.Box3 { return t.s.BoundingBox() }

// hashWriter is a Triangle3Writer that keeps only a hash of the exact triangle sequence.
type hashWriter struct {
	n int
	h [4]uint64
}

func (w *hashWriter) Write(ts []*sdf.Triangle3) error {
	for _, t := range ts {
		w.n++
		for _, v := range t {
			for i, x := range [3]float64{v.X, v.Y, v.Z} {
				k := &w.h[i]
				*k = (*k ^ math.Float64bits(x)) * 0x100000001B3
				*k ^= *k >> 29
			}
		}
		w.h[3] = w.h[3]*0x9E3779B97F4A7C15 + w.h[0] ^ w.h[1] ^ w.h[2]
	}
	return nil
}
func (w *hashWriter) Close() error   { return nil }
func (w *hashWriter) String() string { return fmt.Sprintf("%d:%016x%016x", w.n, w.h[3], w.h[0]^w.h[1]) }

func wholeRenderTiming(c *Ctx, r *Report, rng *Rng, B int) {
	if runtime.NumCPU() < 2 {
		return
	}
	qcap := queueCapOf(c.Repo)
	w := runtime.NumCPU()
	if g := runtime.GOMAXPROCS(0); g > w {
		w = g
	}
	inflight := (qcap + w + 1) * B
	mul := float64(TierN(c.Tier, 40, 150, 80))
	cells := int(math.Sqrt(mul*float64(inflight))) + rng.Intn(20)
	m := plate3{side: 40, thick: 40 * 1.6 / float64(cells)} // two or three cells thick
	rr := render.NewMarchingCubesUniform(cells)
	key := fmt.Sprintf("big-render:plate/mcu%d", cells)
	r.Case("big-render/mcu", key, true)
	// reference: no holds; counts the evaluations
	ref := &timedRender{s: m, hs: newHoldSet(nil)}
	hw := &hashWriter{}
	rr.Render(ref, hw)
	want := hw.String()
	total := ref.hs.count.Load()
	var lx, ly, lz int
	if k, _ := fmt.Sscanf(rr.Info(m), "%dx%dx%d", &lx, &ly, &lz); k != 3 || lx < 1 {
		return
	}
	layers := int64(lx + 1)
	if total%layers != 0 || hw.n == 0 {
		// not the layer structure this stratum was written for: compare plain renders only
		layers = 1
	}
	N := total / layers
	conc := w - 2
	if conc < 1 {
		conc = 1
	}
	if conc > 6 {
		conc = 6
	}
	var hs []*hold
	desc := ""
	for l := int64(0); l < layers; l++ {
		lag := int64([]int{8, 32, 20, 2}[l%4] * inflight)
		if lag > N/2 {
			lag = N / 2
		}
		stride := lag/int64(conc) + int64(2*B)
		limit := (l+1)*N - int64((conc+1+w)*B)
		for at := l*N + 1 + int64(rng.Intn(B)); at+lag < limit && len(hs) < 200; at += stride {
			hs = append(hs, &hold{at: at, until: at + lag})
		}
		desc += fmt.Sprintf("layer %d: every %d-th evaluation to start is held until %d more have started; ", l, stride, lag)
	}
	tr := &timedRender{s: m, hs: newHoldSet(hs)}
	hw2 := &hashWriter{}
	rr.Render(tr, hw2)
	tr.hs.openAll()
	got := hw2.String()
	// and once more without holds (spontaneous differences)
	hw3 := &hashWriter{}
	rr.Render(m, hw3)
	again := hw3.String()
	r.Coverage["big_render_points_per_layer"] = N
	r.Coverage["big_render_holds"] = len(hs)
	r.Coverage["hold_timeouts"] = holdTimeouts.Load()
	if got != want || again != want {
		r.Violate(key, fmt.Sprintf("MarchingCubesUniform(%d) of a %gx%gx%g plate (%s cells, %d layers of %d points = %.1f x the %d points that can be in flight), exact triangle sequence (count:hash): plain render %s, plain render again %s, render whose evaluations return the same values but %d of them late [%s] %s",
			cells, m.thick, m.side, m.side, rr.Info(m), layers, N, float64(N)/float64(inflight), inflight, want, again, len(hs), strings.TrimSuffix(desc, "; "), got),
			map[string]interface{}{"cells": cells, "model": "plate3", "thick": m.thick, "side": m.side, "holds": desc})
	}
}
