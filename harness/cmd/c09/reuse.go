package main

// Render histories of ONE renderer value: "a given model rendered with a given renderer and resolution
// yields the identical triangle / segment sequence ... independent of ... other renders executed earlier":
// the history stratum of main.go makes a new renderer value for every render; callers also keep one
// value (r := render.NewMarchingCubesOctree(n)) and hand it model after model.  Here one value of every
// renderer type is asked for Info / Render of models of different size, position and shape in turn, and
// every observable (Info string, exact triangle / segment sequence) must equal that of a fresh value.

import (
	"fmt"
	"strings"

	"github.com/deadsy/sdfx/render"
	"github.com/deadsy/sdfx/sdf"
	v2 "github.com/deadsy/sdfx/vec/v2"
	v3 "github.com/deadsy/sdfx/vec/v3"
	. "verifharness/kit"
	mk "verifharness/marchkit"
)

func rendererValueHistories(c *Ctx, r *Report, rng *Rng) int {
	sph := func(R float64) sdf.SDF3 { s, _ := sdf.Sphere3D(R); return s }
	rbox, _ := sdf.Box3D(v3.Vec{X: 5, Y: 7.5, Z: 3}, 0.5)
	cyl, _ := sdf.Cylinder3D(6, 1.25, 0)
	ms3 := []mk.Step3{
		{Name: "sphere(1)", S: sph(1)},
		{Name: "rounded-box(5,7.5,3)@(3,-2,1)", S: sdf.Transform3D(rbox, sdf.Translate3d(v3.Vec{X: 3, Y: -2, Z: 1}))},
		{Name: "cylinder(6,1.25)", S: cyl},
		{Name: "sphere(0.25)@(-1,0.5,0.25)", S: sdf.Transform3D(sph(0.25), sdf.Translate3d(v3.Vec{X: -1, Y: 0.5, Z: 0.25}))},
	}
	circ := func(R float64) sdf.SDF2 { s, _ := sdf.Circle2D(R); return s }
	ms2 := []mk.Step2{
		{Name: "circle(1)", S: circ(1)},
		{Name: "rounded-box(5,7.5)@(3,-2)", S: sdf.Transform2D(sdf.Box2D(v2.Vec{X: 5, Y: 7.5}, 0.5), sdf.Translate2d(v2.Vec{X: 3, Y: -2}))},
		{Name: "box(6,1.25)", S: sdf.Box2D(v2.Vec{X: 6, Y: 1.25}, 0)},
		{Name: "circle(0.25)@(-1,0.5)", S: sdf.Transform2D(circ(0.25), sdf.Translate2d(v2.Vec{X: -1, Y: 0.5}))},
	}
	n := 0
	names3 := func(h []mk.Step3) string {
		var out []string
		for _, st := range h {
			if st.InfoOnly {
				out = append(out, "Info("+st.Name+")")
			} else {
				out = append(out, st.Name)
			}
		}
		return strings.Join(out, ",")
	}
	names2 := func(h []mk.Step2) string {
		var out []string
		for _, st := range h {
			if st.InfoOnly {
				out = append(out, "Info("+st.Name+")")
			} else {
				out = append(out, st.Name)
			}
		}
		return strings.Join(out, ",")
	}
	c3 := TierN(c.Tier, 14, 30, 20) + rng.Intn(5)
	for _, rname := range []string{"mcu", "mco"} {
		newR := func() render.Render3 {
			if rname == "mco" {
				return render.NewMarchingCubesOctree(c3)
			}
			return render.NewMarchingCubesUniform(c3)
		}
		for _, h := range mk.Histories3(ms3) {
			key := fmt.Sprintf("history-value:%s%d/%s", rname, c3, names3(h))
			r.Case("history-value/"+rname, key, true)
			n += len(h)
			for _, d := range mk.Reuse3(newR, h, nil) {
				r.Violate(key, fmt.Sprintf("one %s renderer value (%d cells) handling %s: step %d (%s): %s: the output for this model depends on what the renderer value handled earlier",
					rname, c3, names3(h), d.Step, d.Name, d.What), map[string]interface{}{"renderer": rname, "cells": c3, "one_renderer_value_handles_in_order": strings.Split(names3(h), ",")})
				break
			}
		}
	}
	c2 := 30 + rng.Intn(30)
	for _, rname := range []string{"msu", "msq", "dc2"} {
		newR := func() render.Render2 {
			switch rname {
			case "msq":
				return render.NewMarchingSquaresQuadtree(c2)
			case "dc2":
				return render.NewDualContouring2D(c2)
			}
			return render.NewMarchingSquaresUniform(c2)
		}
		for _, h := range mk.Histories2(ms2) {
			key := fmt.Sprintf("history-value:%s%d/%s", rname, c2, names2(h))
			r.Case("history-value/"+rname, key, true)
			n += len(h)
			for _, d := range mk.Reuse2(newR, h, nil) {
				r.Violate(key, fmt.Sprintf("one %s renderer value (%d cells) handling %s: step %d (%s): %s: the output for this model depends on what the renderer value handled earlier",
					rname, c2, names2(h), d.Step, d.Name, d.What), map[string]interface{}{"renderer": rname, "cells": c2, "one_renderer_value_handles_in_order": strings.Split(names2(h), ",")})
				break
			}
		}
	}
	return n
}
