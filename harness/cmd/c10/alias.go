package main

// Aliased construction (harness/concshapes/alias.go): shapes built from other shapes that are also
// still in use - a cache of a cache, two wrappers around one operand value, a constructor applied
// to its own result, one profile under several extrusions, meshes from one triangle slice - are
// evaluated TOGETHER: goroutine g evaluates member g mod M of the group, all 16 at once, in a child
// process, at full speed (runtime concurrent-map check) and under the race detector.  A constructor
// that builds its result out of the internals of its argument (the same map behind a new mutex)
// leaves every shape correct alone and sequentially; only the members used together expose it.
//
// Oracles: race detector, runtime fault, every value bit-exact against the SAME members built with
// nothing shared and evaluated sequentially (also before the hammering: a constructor that writes
// into its argument changes values without any concurrency), two members rendered at the same time
// against the unshared members rendered alone, and - without any schedule - the heap walk
// concshapes.LockDomains: one map / slice / channel held directly by two struct values that each
// lock their own mutex and have none in common.

import (
	"encoding/json"
	"fmt"
	"hash/fnv"
	"math"
	"os"
	"runtime"
	"strings"
	"sync"
	"time"

	"github.com/deadsy/sdfx/render"
	"github.com/deadsy/sdfx/sdf"
	"verifharness/concshapes"
	. "verifharness/kit"
)

const (
	aliasPrefix = "alias/"
	prePrefix   = "PRE-HAMMER "
)

func runAlias(g *concshapes.AliasGroup, env *concshapes.Env, seed uint64, n, G, R, cells int) (res childResult) {
	res.Family = aliasPrefix + g.Name
	defer func() {
		if x := recover(); x != nil {
			res.Err = fmt.Sprint("panic outside the hammering: ", x)
		}
	}()
	sh, err := g.Make(env, true)
	if err != nil {
		res.Err = "constructor: " + err.Error()
		return
	}
	fr, err := g.Make(env, false)
	if err != nil {
		res.Err = "constructor: " + err.Error()
		return
	}
	if len(sh) != len(fr) || len(sh) == 0 {
		res.Err = "alias group builds different member lists shared / unshared"
		return
	}
	M := len(sh)
	for _, m := range sh {
		res.Members = append(res.Members, m.Name)
	}
	// ---- lock domains (no schedule involved)
	res.AliasShared, res.AliasStats = concshapes.LockDomains(sh)
	if _, st := concshapes.LockDomains(fr); st.LockedHolders > res.AliasStats.LockedHolders {
		res.AliasStats.LockedHolders = st.LockedHolders
	}
	if b, err := json.Marshal(childResult{Family: res.Family, Members: res.Members, AliasShared: res.AliasShared, AliasStats: res.AliasStats}); err == nil {
		os.Stdout.WriteString("\n" + prePrefix + string(b) + "\n")
	}
	h := fnv.New64a()
	h.Write([]byte(g.Name))
	rng := NewRng(seed ^ h.Sum64())
	u3 := func() [3]float64 { return [3]float64{rng.Float(), rng.Float(), rng.Float()} }
	first := func(member string, p concshapes.Pt, got, want float64, when string) {
		res.Mismatches++
		if res.First == "" {
			res.First = fmt.Sprintf("member %s at (%v, %v, %v) %s: %x (%v), the same member built without sharing, evaluated sequentially: %x (%v)",
				member, p[0], p[1], p[2], when, math.Float64bits(got), got, math.Float64bits(want), want)
		}
	}
	// ---- sequentially, before anything ran concurrently: construction must not have changed a member
	for m := 0; m < M; m++ {
		for k := 0; k < 8; k++ {
			p := concshapes.AliasPoint(fr[m], u3(), 1.2)
			got, want := sh[m].Eval(p), fr[m].Eval(p)
			res.Evals++
			if math.Float64bits(got) != math.Float64bits(want) {
				res.SeqMismatches++
				first(sh[m].Name, p, got, want, "sequentially, before any concurrent use")
			}
		}
	}
	// ---- points: goroutine g works on member g mod M; even indices are common to the goroutines of a
	// member (the second half repeats the first: hits and misses of memoising wrappers at the same
	// time), odd indices are private to the goroutine (misses keep coming: a shared table keeps being written)
	common := make([][]concshapes.Pt, M)
	for m := range common {
		common[m] = make([]concshapes.Pt, n)
		for i := range common[m] {
			if i >= n/2 && n >= 4 {
				common[m][i] = common[m][2*rng.Intn(n/4)]
			} else {
				common[m][i] = concshapes.AliasPoint(fr[m], u3(), 1.2)
			}
		}
	}
	pts := make([][]concshapes.Pt, G)
	ref := make([][]float64, G)
	for g := 0; g < G; g++ {
		m := g % M
		pts[g] = make([]concshapes.Pt, n)
		ref[g] = make([]float64, n)
		for i := 0; i < n; i++ {
			if i%2 == 0 {
				pts[g][i] = common[m][i]
			} else {
				pts[g][i] = concshapes.AliasPoint(fr[m], u3(), 1.2)
			}
			ref[g][i] = fr[m].Eval(pts[g][i])
		}
	}
	// ---- all members at once
	var wg sync.WaitGroup
	var mu sync.Mutex
	start := make(chan struct{})
	vals := make([][]float64, G)
	for g := 0; g < G; g++ {
		vals[g] = make([]float64, R*n)
		wg.Add(1)
		go func(g int) {
			defer wg.Done()
			defer func() {
				if x := recover(); x != nil {
					mu.Lock()
					res.Panic = fmt.Sprint(x)
					mu.Unlock()
				}
			}()
			m := sh[g%M]
			<-start
			for r := 0; r < R; r++ {
				for k := 0; k < n; k++ {
					i := (k + g*n/G) % n
					vals[g][r*n+i] = m.Eval(pts[g][i])
				}
			}
		}(g)
	}
	close(start)
	wg.Wait()
	for g := 0; g < G; g++ {
		for r := 0; r < R; r++ {
			for i := 0; i < n; i++ {
				res.Evals++
				if d := vals[g][r*n+i]; math.Float64bits(d) != math.Float64bits(ref[g][i]) {
					first(sh[g%M].Name, pts[g][i], d, ref[g][i], fmt.Sprintf("while %d goroutines evaluate the %d members of the group at once", G, M))
				}
			}
		}
	}
	// the members afterwards, sequentially
	for g := 0; g < G && g < M; g++ {
		for i := 0; i < n; i++ {
			res.Evals++
			if d := sh[g].Eval(pts[g][i]); math.Float64bits(d) != math.Float64bits(ref[g][i]) {
				first(sh[g].Name, pts[g][i], d, ref[g][i], "sequentially, after the concurrent use")
			}
		}
	}
	if cells > 0 && M >= 2 && res.Panic == "" {
		// the last two members rendered at the same time (each render has one worker per CPU) against
		// the unshared members rendered alone with one CPU
		a, b := M-2, M-1
		solid := func(m concshapes.AliasMember) sdf.SDF3 { return concshapes.As3(m.S2, m.S3) }
		old := runtime.GOMAXPROCS(16)
		var ta, tb []*sdf.Triangle3
		var w2 sync.WaitGroup
		w2.Add(2)
		go func() { defer w2.Done(); ta = render.ToTriangles(solid(sh[a]), render.NewMarchingCubesUniform(cells)) }()
		go func() { defer w2.Done(); tb = render.ToTriangles(solid(sh[b]), render.NewMarchingCubesUniform(cells)) }()
		w2.Wait()
		runtime.GOMAXPROCS(1)
		ra := render.ToTriangles(solid(fr[a]), render.NewMarchingCubesUniform(cells))
		rb := render.ToTriangles(solid(fr[b]), render.NewMarchingCubesUniform(cells))
		runtime.GOMAXPROCS(old)
		res.TriN, res.Tri1 = len(ta)+len(tb), len(ra)+len(rb)
		res.HashN, res.Hash1 = triHash(ta)+"+"+triHash(tb), triHash(ra)+"+"+triHash(rb)
		res.Notes = append(res.Notes, "rendered together: "+sh[a].Name+", "+sh[b].Name)
	}
	return
}

// aliasStrata runs every alias group in child processes (full speed, race detector) and reports.
func aliasStrata(c *Ctx, r *Report, self, raceBin string, common []string, only []string) error {
	var names []string
	kinds := map[string]string{}
	for _, g := range concshapes.AliasGroups() {
		kinds[aliasPrefix+g.Name] = g.Kind
		names = append(names, aliasPrefix+g.Name)
	}
	if only != nil {
		names = nil
		for _, n := range only {
			if _, ok := kinds[n]; ok {
				names = append(names, n)
			}
		}
		if len(names) == 0 {
			return nil
		}
	}
	n := TierN(c.Tier, 64, 600, 200)
	rounds := TierN(c.Tier, 2, 6, 3)
	cells := TierN(c.Tier, 10, 24, 14)
	t0 := time.Now()
	plain, err := runChildren(self, os.Environ(), names,
		append(append([]string{}, common...), "-points", fmt.Sprint(n), "-rounds", fmt.Sprint(rounds), "-cells", fmt.Sprint(cells)), 20*time.Minute)
	if err != nil {
		return err
	}
	tPlain := time.Since(t0)
	var raced map[string]*outcome
	if raceBin != "" {
		raced, err = runChildren(raceBin, append(os.Environ(), "GORACE=halt_on_error=0 exitcode=0"), names,
			append(append([]string{}, common...), "-points", fmt.Sprint(n/2), "-rounds", "1", "-cells", "0"), 20*time.Minute)
		if err != nil {
			return err
		}
	}
	locked, sharedNoLock, containers := 0, 0, 0
	lockDone := map[string]bool{}
	for _, name := range names {
		input := map[string]interface{}{"family": name, "seed": c.Seed, "points": n, "goroutines": 16, "rounds": rounds}
		for _, mm := range []struct {
			mode string
			m    map[string]*outcome
		}{{"full-speed", plain}, {"race-detector", raced}} {
			mode, m := mm.mode, mm.m
			if m == nil || m[name] == nil {
				continue
			}
			o := m[name]
			r.Case("alias-"+kinds[name]+"/"+mode, name+"/"+mode, true)
			pre := o.res
			if pre == nil {
				pre = o.pre
			}
			members := ""
			if pre != nil {
				members = strings.Join(pre.Members, ", ")
				input["members"] = pre.Members
			}
			if pre != nil && !lockDone[name] {
				lockDone[name] = true
				containers += pre.AliasStats.Containers
				sharedNoLock += pre.AliasStats.SharedNoLock
				locked += pre.AliasStats.LockedHolders
				for i, s := range pre.AliasShared {
					if i >= 2 {
						break
					}
					r.Violate("alias-lock:"+name, fmt.Sprintf("shapes built from one another and used together (%s; members %s): %s. Evaluating the members concurrently is a data race on it (a Go map: fatal error: concurrent map read and map write)", name, members, s.What),
						map[string]interface{}{"family": name, "members": pre.Members, "shared": s})
				}
			}
			switch {
			case o.races > 0:
				r.Violate("alias-race:"+name, fmt.Sprintf("the race detector reports %d data race(s) while 16 goroutines call Evaluate on the shapes of %s (%s) at the same time - shapes built from one another / around the same operand values, each still in use: %s", o.races, name, members, firstLines(o.race1, 14)), input)
			case o.fatal != "":
				r.Violate("alias-fault:"+name, fmt.Sprintf("runtime fault while 16 goroutines call Evaluate on the shapes of %s (%s) at the same time (%s): %s", name, members, mode, o.fatal), input)
			case o.res == nil:
				r.Violate("alias-fault:"+name, "no result from the child process for "+name, input)
			case o.res.Err != "":
				return fmt.Errorf("alias group %s: %s", name, o.res.Err)
			case o.res.Panic != "":
				r.Violate("alias-fault:"+name, fmt.Sprintf("panic in Evaluate while the shapes of %s are evaluated together (%s): %s", name, mode, o.res.Panic), input)
			case o.res.SeqMismatches > 0:
				r.Violate("alias-value-seq:"+name, fmt.Sprintf("%s: building shapes from one another changed a value without any concurrency (%d of the sequential evaluations differ; %s): %s", name, o.res.SeqMismatches, mode, o.res.First), input)
			case o.res.Mismatches > 0:
				r.Violate("alias-value:"+name, fmt.Sprintf("%s: %d of %d evaluations differ from the members built without sharing and evaluated sequentially (%s); %s", name, o.res.Mismatches, o.res.Evals, mode, o.res.First), input)
			case o.res.Hash1 != o.res.HashN || o.res.Tri1 != o.res.TriN:
				r.Violate("alias-render:"+name, fmt.Sprintf("%s: two members rendered at the same time with NewMarchingCubesUniform (%s: %d triangles, %s) differ from the unshared members rendered alone with GOMAXPROCS 1 (%d triangles, %s) (%s)", name, strings.Join(o.res.Notes, "; "), o.res.TriN, o.res.HashN, o.res.Tri1, o.res.Hash1, mode), input)
			}
		}
	}
	r.Coverage["aliased_construction"] = map[string]interface{}{
		"groups": len(names), "seconds_full_speed": math.Round(tPlain.Seconds()*10) / 10, "seconds_total": math.Round(time.Since(t0).Seconds()*10) / 10,
		"lockdomain_walk": map[string]interface{}{"containers_in_struct_fields": containers, "struct_values_with_a_mutex": locked, "containers_shared_by_lockless_holders": sharedNoLock},
	}
	return nil
}
