package main

// Renderer-level concurrency strata for C10 (the uniform renderer evaluates a shape from one
// worker per CPU; renders may run at the same time):
//   large-layer : a uniform marching-cubes render whose y/z layer has more batches than the
//                 evaluation queue can hold, GOMAXPROCS 16 against GOMAXPROCS 1
//   pair        : two octree (and two uniform) renders of different shapes at the same time
//                 against the same renders alone
// Run in a child process: a runtime fault ("concurrent map writes") kills the process.

import (
	"crypto/sha256"
	"encoding/json"
	"fmt"
	"math"
	"os"
	"os/exec"
	"runtime"
	"sort"
	"sync"
	"time"

	"github.com/deadsy/sdfx/render"
	"github.com/deadsy/sdfx/sdf"
	v3 "github.com/deadsy/sdfx/vec/v3"
	. "verifharness/kit"
)

type renderResult struct {
	Findings []string `json:"findings"`
	Cases    []string `json:"cases"`
}

func triMultisetHash(ts []*sdf.Triangle3) string {
	// order-insensitive (multiset) hash of the triangle coordinates
	hs := make([]string, len(ts))
	for i, t := range ts {
		h := sha256.New()
		for _, v := range t {
			fmt.Fprintf(h, "%x,%x,%x;", math.Float64bits(v.X), math.Float64bits(v.Y), math.Float64bits(v.Z))
		}
		hs[i] = fmt.Sprintf("%x", h.Sum(nil)[:8])
	}
	sort.Strings(hs)
	h := sha256.New()
	for _, s := range hs {
		h.Write([]byte(s))
	}
	return fmt.Sprintf("%d:%x", len(ts), h.Sum(nil)[:8])
}

func renderChild() {
	devnull, _ := os.OpenFile(os.DevNull, os.O_WRONLY, 0)
	out := os.Stdout
	os.Stdout = devnull
	res := renderResult{}
	// a tilted block with a bounding box of about equal extent on all axes, so that a y/z layer
	// at >= 110 cells has more than (100 + one per worker) batches of 100 points
	plate, _ := sdf.Box3D(v3.Vec{X: 8, Y: 8, Z: 8}, 0.5)
	tilted := sdf.Transform3D(plate, sdf.RotateX(0.3).Mul(sdf.RotateY(0.2)))
	sph, _ := sdf.Sphere3D(1)
	blk, _ := sdf.Box3D(v3.Vec{X: 2, Y: 1.6, Z: 1.2}, 0.1)
	cyl, _ := sdf.Cylinder3D(2, 0.7, 0.1)

	// large layer: more than (queue capacity + workers) batches per layer
	for _, cells := range []int{112, 131} {
		name := fmt.Sprintf("large-layer/mcu%d", cells)
		res.Cases = append(res.Cases, name)
		runtime.GOMAXPROCS(1)
		ref := triMultisetHash(render.ToTriangles(tilted, render.NewMarchingCubesUniform(cells)))
		runtime.GOMAXPROCS(16)
		for round := 0; round < 3; round++ {
			if got := triMultisetHash(render.ToTriangles(tilted, render.NewMarchingCubesUniform(cells))); got != ref {
				res.Findings = append(res.Findings, fmt.Sprintf("%s: uniform marching cubes of a tilted plate with GOMAXPROCS=16 gives %s, with GOMAXPROCS=1 %s (workers evaluating a shape concurrently change the result)", name, got, ref))
				break
			}
		}
	}
	// pairs of renders at the same time
	type job struct {
		name string
		s    sdf.SDF3
		mk   func() render.Render3
	}
	jobs := []job{
		{"octree/sphere", sph, func() render.Render3 { return render.NewMarchingCubesOctree(48) }},
		{"octree/block", blk, func() render.Render3 { return render.NewMarchingCubesOctree(56) }},
		{"octree/cylinder", cyl, func() render.Render3 { return render.NewMarchingCubesOctree(40) }},
		{"uniform/sphere", sph, func() render.Render3 { return render.NewMarchingCubesUniform(40) }},
		{"uniform/block", blk, func() render.Render3 { return render.NewMarchingCubesUniform(44) }},
	}
	alone := map[string]string{}
	for _, j := range jobs {
		alone[j.name] = triMultisetHash(render.ToTriangles(j.s, j.mk()))
	}
	for round := 0; round < 4; round++ {
		name := fmt.Sprintf("pair/round%d", round)
		res.Cases = append(res.Cases, name)
		got := make([]string, len(jobs))
		var wg sync.WaitGroup
		for i, j := range jobs {
			wg.Add(1)
			go func(i int, j job) {
				defer wg.Done()
				got[i] = triMultisetHash(render.ToTriangles(j.s, j.mk()))
			}(i, j)
		}
		wg.Wait()
		for i, j := range jobs {
			if got[i] != alone[j.name] {
				res.Findings = append(res.Findings, fmt.Sprintf("%s: %s rendered while the other renders run gives %s, alone %s", name, j.name, got[i], alone[j.name]))
			}
		}
	}
	b, _ := json.Marshal(res)
	out.Write(append(b, '\n'))
}

// renderStrata runs the child and turns its findings (or its death) into violations.
func renderStrata(r *Report) {
	ctxCmd := exec.Command(os.Args[0], "renderchild")
	ctxCmd.Stderr = nil
	done := make(chan struct{})
	var outb []byte
	var err error
	go func() { outb, err = ctxCmd.Output(); close(done) }()
	select {
	case <-done:
	case <-time.After(10 * time.Minute):
		ctxCmd.Process.Kill()
		<-done
		err = fmt.Errorf("timeout")
	}
	var res renderResult
	lines := []byte{}
	if i := lastLine(outb); i != nil {
		lines = i
	}
	if json.Unmarshal(lines, &res) != nil {
		msg := fmt.Sprint(err)
		if ee, ok := err.(*exec.ExitError); ok {
			msg = fmt.Sprintf("%v: %s", err, Tail(string(ee.Stderr), 400))
		}
		r.Case("renders/child", "renders:child", true)
		r.Violate("renders:child-died", "concurrent renders (large uniform layer under GOMAXPROCS 16; octree and uniform renders of different shapes at the same time) ended in a runtime fault: "+msg, nil)
		return
	}
	for _, c := range res.Cases {
		r.Case("renders/"+c[:4], "renders:"+c, true)
	}
	for _, f := range res.Findings {
		r.Violate("renders:"+f[:40], f, nil)
	}
}

func lastLine(b []byte) []byte {
	for len(b) > 0 && (b[len(b)-1] == '\n' || b[len(b)-1] == ' ') {
		b = b[:len(b)-1]
	}
	for i := len(b) - 1; i >= 0; i-- {
		if b[i] == '\n' {
			return b[i+1:]
		}
	}
	return b
}
