package main

// Overlapping evaluations of one shape, made deterministic (harness/concshapes/probe.go): for every
// constructor of package sdf that keeps operands, the operands are probe operands (a type
// defined here, outside the library) which, while they are being evaluated,
//
//	reentrant : call Evaluate of the enclosing shape at another point (depth limited) and then
//	            return their own value - one goroutine, the schedule "evaluation A is pre-empted
//	            inside its operand, evaluation B runs to completion, A resumes";
//	gated     : park evaluation A on a channel while another goroutine runs evaluation B
//	            (nested: completely; crossed: B is parked too, A finishes first).
//
// Every value (A, B and the nested ones) must equal, bit for bit, what a second instance built
// from plain operands returns sequentially.  Any state of the shape that one evaluation writes
// before an operand call and reads after it (scratch buffers kept in the shape, also only beyond
// a size threshold; remembered indices; partial results) gives a failing input here without
// depending on what the scheduler does in the 16-goroutine hammering.
// A shape that holds a lock across its operand's evaluation (CacheSDF2) cannot be re-entered and
// serialises the gated runs: counted, not a finding.

import (
	"fmt"

	"verifharness/concshapes"
	. "verifharness/kit"
)

func probeStrata(c *Ctx, r *Report) {
	n := TierN(c.Tier, 24, 400, 80)
	st := concshapes.ProbeStats{}
	var blocked, serialised []string
	report := func(hd concshapes.Holder, dim int, fs []concshapes.Finding) {
		for i, f := range fs {
			if i >= 2 {
				break
			}
			what := fmt.Sprintf("%s, overlapping evaluations of one shape (%s): Evaluate(%v) = %v but sequential evaluation of the same shape built from plain operands = %v; %s (other point(s) %v)",
				hd.Name, f.Mode, f.P[:dim], f.Got, f.Want, f.What, trim(f.Other, dim))
			r.Violate(fmt.Sprintf("overlap:%s:%s", hd.Name, f.Mode), what, map[string]interface{}{"holder": hd.Name, "finding": f, "seed": c.Seed})
		}
	}
	for _, hd := range concshapes.Holders() {
		h, err := concshapes.NewHolderHost(hd)
		if err != nil {
			r.Violate("overlap-constructor:"+hd.Name, "constructor failed on probe operands (types defined outside the library): "+err.Error(), map[string]interface{}{"holder": hd.Name})
			continue
		}
		before := st.Blocked
		fs := h.SweepReentrant(c.Seed, n, &st)
		r.Case("overlap/reentrant", hd.Name+"/reentrant", true)
		if st.Blocked > before {
			blocked = append(blocked, hd.Name)
		}
		report(hd, h.Dim, fs)
		h, err = concshapes.NewHolderHost(hd)
		if err != nil {
			continue
		}
		before = st.Blocked
		fs = h.SweepGated(c.Seed, n/2+2, &st)
		r.Case("overlap/gated", hd.Name+"/gated", true)
		if st.Blocked > before {
			serialised = append(serialised, hd.Name)
		}
		report(hd, h.Dim, fs)
	}
	r.Coverage["overlap_probes"] = map[string]interface{}{
		"holders": len(concshapes.Holders()), "runs": st.Runs, "evaluations_made_from_inside_operands": st.NestedEvals,
		"evaluations_parked_inside_an_operand": st.Parked, "crossed": st.Crossed,
		"not_reentrant_lock_held_across_operand": blocked, "serialised_under_the_gate": serialised,
	}
}

func trim(ps []concshapes.Pt, d int) [][]float64 {
	var out [][]float64
	for i, p := range ps {
		if i >= 4 {
			break
		}
		out = append(out, p[:d])
	}
	return out
}
