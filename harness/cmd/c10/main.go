package main

// C10: every shape may be Evaluate()d concurrently.
//
//	gen   effsum -> coq/Generated/Effects.v (static effect summaries of every Evaluate / Render)
//	run   for one shape of every constructor family: 16 goroutines evaluate the same points on a
//	      fresh instance, bit-exact comparison with sequential evaluation of another instance;
//	      a NewMarchingCubesUniform render under GOMAXPROCS 1 and 16; all of it in child
//	      processes (a Go map fault kills the process), once in a binary built with -race
//	      when the toolchain can build one, once at full speed.
//	      The counters of the real CacheSDF2 are compared with the atomic cache model in Coq.
import (
	"bufio"
	"bytes"
	"crypto/sha256"
	"encoding/binary"
	"encoding/json"
	"flag"
	"fmt"
	"math"
	"os"
	"os/exec"
	"path/filepath"
	"runtime"
	"strings"
	"sync"
	"time"

	"github.com/deadsy/sdfx/render"
	"github.com/deadsy/sdfx/sdf"
	v2 "github.com/deadsy/sdfx/vec/v2"
	v3 "github.com/deadsy/sdfx/vec/v3"
	"verifharness/concshapes"
	"verifharness/effsum"
	. "verifharness/kit"
)

func main() {
	if len(os.Args) > 1 && os.Args[1] == "child" {
		childMain(os.Args[2:])
		return
	}
	if len(os.Args) > 1 && os.Args[1] == "renderchild" {
		renderChild()
		return
	}
	Main("C10", checkC10, stateGen, func(c *Ctx) (string, []byte, error) { return effsum.Gen(c.Repo) })
}

// ---------------------------------------------------------------------------- child

type childResult struct {
	Family     string   `json:"family"`
	Err        string   `json:"err,omitempty"`
	Evals      int      `json:"evals"`
	Mismatches int      `json:"mismatches"`
	First      string   `json:"first,omitempty"`
	Panic      string   `json:"panic,omitempty"`
	CacheInfo  string   `json:"cache_info,omitempty"` // String() of a CacheSDF2 after the hammering
	CacheIDs   []int    `json:"cache_ids,omitempty"`  // point ids in some order of evaluation
	Tri1       int      `json:"tri1"`
	TriN       int      `json:"triN"`
	Hash1      string   `json:"hash1,omitempty"`
	HashN      string   `json:"hashN,omitempty"`
	Notes      []string `json:"notes,omitempty"`
	// alias groups (alias.go)
	Members       []string                     `json:"members,omitempty"`
	SeqMismatches int                          `json:"seq_mismatches,omitempty"`
	AliasShared   []concshapes.SharedContainer `json:"alias_shared,omitempty"`
	AliasStats    concshapes.LockDomainStats   `json:"alias_stats"`
}

func triHash(ts []*sdf.Triangle3) string {
	h := sha256.New()
	var b [8]byte
	for _, t := range ts {
		for _, v := range t {
			for _, x := range []float64{v.X, v.Y, v.Z} {
				binary.LittleEndian.PutUint64(b[:], math.Float64bits(x))
				h.Write(b[:])
			}
		}
	}
	return fmt.Sprintf("%x", h.Sum(nil))[:16]
}

func points2(bb sdf.Box2, n int, rng *Rng) []v2.Vec {
	c, s := bb.Center(), bb.Size()
	ps := make([]v2.Vec, n)
	for i := range ps {
		ps[i] = v2.Vec{X: c.X + s.X*rng.Uniform(-0.6, 0.6), Y: c.Y + s.Y*rng.Uniform(-0.6, 0.6)}
	}
	return ps
}

func points3(bb sdf.Box3, n int, rng *Rng) []v3.Vec {
	c, s := bb.Center(), bb.Size()
	ps := make([]v3.Vec, n)
	for i := range ps {
		ps[i] = v3.Vec{X: c.X + s.X*rng.Uniform(-0.6, 0.6), Y: c.Y + s.Y*rng.Uniform(-0.6, 0.6), Z: c.Z + s.Z*rng.Uniform(-0.6, 0.6)}
	}
	return ps
}

// hammer: G goroutines evaluate all n points (each starting at a different phase) R times;
// every value is kept: vals[g][r*n+i].
func hammer(n, G, R int, eval func(i int) float64, res *childResult) [][]float64 {
	var wg sync.WaitGroup
	var mu sync.Mutex
	start := make(chan struct{})
	vals := make([][]float64, G)
	for g := 0; g < G; g++ {
		vals[g] = make([]float64, R*n)
		wg.Add(1)
		go func(g int) {
			defer wg.Done()
			defer func() {
				if x := recover(); x != nil {
					mu.Lock()
					res.Panic = fmt.Sprint(x)
					mu.Unlock()
				}
			}()
			<-start
			for r := 0; r < R; r++ {
				for k := 0; k < n; k++ {
					i := (k + g*n/G) % n
					vals[g][r*n+i] = eval(i)
				}
			}
		}(g)
	}
	close(start)
	wg.Wait()
	return vals
}

func sameBits(a, b []float64) bool {
	for i := range a {
		if math.Float64bits(a[i]) != math.Float64bits(b[i]) {
			return false
		}
	}
	return true
}

func compare(vals [][]float64, n, R int, ref []float64, res *childResult) {
	for g := range vals {
		for r := 0; r < R; r++ {
			for i := 0; i < n; i++ {
				d := vals[g][r*n+i]
				res.Evals++
				if math.Float64bits(d) != math.Float64bits(ref[i]) {
					res.Mismatches++
					if res.First == "" {
						res.First = fmt.Sprintf("point #%d: concurrent %x (%v) sequential %x (%v)", i, math.Float64bits(d), d, math.Float64bits(ref[i]), ref[i])
					}
				}
			}
		}
	}
}

func runFamily(f *concshapes.Family, env *concshapes.Env, seed uint64, n, G, R, cells int) (res childResult) {
	res.Family = f.Name
	defer func() {
		if x := recover(); x != nil {
			res.Err = fmt.Sprint("panic outside the hammering: ", x)
		}
	}()
	rng := NewRng(seed)
	// A, A2: two instances built and evaluated sequentially; B: the instance that is hammered
	a2, a3, err := f.Make(env)
	if err != nil {
		res.Err = "constructor: " + err.Error()
		return
	}
	aa2, aa3, _ := f.Make(env)
	b2, b3, err := f.Make(env)
	if err != nil {
		res.Err = "constructor: " + err.Error()
		return
	}
	var evalA, evalAA, evalB func(i int) float64
	if a2 != nil {
		ps := points2(a2.BoundingBox(), n, rng)
		// repeated points: memoising wrappers see hits and misses at the same time
		for i := n / 2; i < n; i++ {
			ps[i] = ps[rng.Intn(n/2)]
		}
		evalA = func(i int) float64 { return a2.Evaluate(ps[i]) }
		evalAA = func(i int) float64 { return aa2.Evaluate(ps[i]) }
		evalB = func(i int) float64 { return b2.Evaluate(ps[i]) }
		defer func() {
			if c, ok := b2.(*sdf.CacheSDF2); ok && res.Err == "" {
				res.CacheInfo = c.String()
				ids := map[v2.Vec]int{}
				for r := 0; r < G*R+1; r++ { // + the sequential pass after the hammering
					for _, p := range ps {
						if _, ok := ids[p]; !ok {
							ids[p] = len(ids)
						}
						res.CacheIDs = append(res.CacheIDs, ids[p])
					}
				}
			}
		}()
	} else {
		ps := points3(a3.BoundingBox(), n, rng)
		evalA = func(i int) float64 { return a3.Evaluate(ps[i]) }
		evalAA = func(i int) float64 { return aa3.Evaluate(ps[i]) }
		evalB = func(i int) float64 { return b3.Evaluate(ps[i]) }
	}
	refA, refAA, refB := make([]float64, n), make([]float64, n), make([]float64, n)
	for i := 0; i < n; i++ {
		refA[i] = evalA(i)
		refAA[i] = evalAA(i)
	}
	vals := hammer(n, G, R, evalB, &res)
	for i := 0; i < n; i++ {
		refB[i] = evalB(i) // the hammered instance, sequentially, afterwards
	}
	if !sameBits(refA, refAA) {
		res.Err = "two instances built one after the other differ sequentially although the random source was reset: construction is not reproducible"
		return
	}
	compare(vals, n, R, refA, &res)
	compare([][]float64{refB}, n, 1, refA, &res)
	if cells > 0 {
		// a fresh instance rendered with all CPUs, then the same instance again with one
		_, _ = a2, a3
		d2, d3, _ := f.Make(env)
		s := concshapes.As3(d2, d3)
		old := runtime.GOMAXPROCS(16)
		tn := render.ToTriangles(s, render.NewMarchingCubesUniform(cells))
		runtime.GOMAXPROCS(1)
		t1 := render.ToTriangles(s, render.NewMarchingCubesUniform(cells))
		runtime.GOMAXPROCS(old)
		res.Tri1, res.TriN, res.Hash1, res.HashN = len(t1), len(tn), triHash(t1), triHash(tn)
	}
	return
}

func childMain(args []string) {
	fs := flag.NewFlagSet("child", flag.ExitOnError)
	repo := fs.String("repo", "/repo", "")
	tmp := fs.String("tmp", os.TempDir(), "")
	fams := fs.String("families", "", "")
	seed := fs.Uint64("seed", 1, "")
	n := fs.Int("points", 200, "")
	G := fs.Int("goroutines", 16, "")
	R := fs.Int("rounds", 1, "")
	cells := fs.Int("cells", 0, "")
	fs.Parse(args)
	runtime.GOMAXPROCS(16)
	env := &concshapes.Env{Repo: *repo, Tmp: *tmp}
	for _, name := range strings.Split(*fams, ",") {
		if strings.HasPrefix(name, aliasPrefix) {
			if g := concshapes.AliasByName(strings.TrimPrefix(name, aliasPrefix)); g != nil {
				os.Stdout.WriteString("\nBEGIN " + name + "\n")
				res := runAlias(g, env, *seed, *n, *G, *R, *cells)
				b, _ := json.Marshal(res)
				os.Stdout.WriteString("\nEND " + name + " " + string(b) + "\n")
			}
			continue
		}
		f := concshapes.ByName(name)
		if f == nil {
			continue
		}
		os.Stdout.WriteString("\nBEGIN " + name + "\n")
		res := runFamily(f, env, *seed, *n, *G, *R, *cells)
		b, _ := json.Marshal(res)
		os.Stdout.WriteString("\nEND " + name + " " + string(b) + "\n")
	}
	os.Stdout.WriteString("\nCHILD-COMPLETE\n")
}

// ---------------------------------------------------------------------------- parent

type outcome struct {
	res    *childResult
	pre    *childResult // alias groups: members and lock domains, printed before the hammering
	races  int
	race1  string
	fatal  string // runtime fatal error / crash text
	timing time.Duration
}

// runChildren runs the families in child processes of bin; a crash is charged to the family that was running.
func runChildren(bin string, env []string, fams []string, args []string, timeout time.Duration) (map[string]*outcome, error) {
	out := map[string]*outcome{}
	rest := fams
	for len(rest) > 0 {
		cmd := exec.Command(bin, append([]string{"child", "-families", strings.Join(rest, ",")}, args...)...)
		cmd.Env = env
		var buf bytes.Buffer
		cmd.Stdout = &buf
		cmd.Stderr = &buf // the same writer: one ordered stream
		done := make(chan error, 1)
		if err := cmd.Start(); err != nil {
			return out, err
		}
		go func() { done <- cmd.Wait() }()
		var werr error
		select {
		case werr = <-done:
		case <-time.After(timeout):
			cmd.Process.Kill()
			werr = fmt.Errorf("timeout after %v", timeout)
			<-done
		}
		cur := ""
		complete := false
		var lines []string
		finish := func() {
			o := out[cur]
			for i, l := range lines {
				if strings.Contains(l, "WARNING: DATA RACE") {
					o.races++
					if o.races == 1 {
						j := i + 16
						if j > len(lines) {
							j = len(lines)
						}
						o.race1 = strings.Join(lines[i:j], "\n")
					}
				}
				if o.fatal == "" && (strings.HasPrefix(l, "fatal error:") || strings.HasPrefix(l, "panic:")) {
					o.fatal = l
				}
				if strings.HasPrefix(l, prePrefix) { // what the child found out before the hammering (survives a crash)
					var pr childResult
					if json.Unmarshal([]byte(strings.TrimPrefix(l, prePrefix)), &pr) == nil {
						o.pre = &pr
					}
				}
			}
		}
		sc := bufio.NewScanner(bytes.NewReader(buf.Bytes()))
		sc.Buffer(make([]byte, 1<<20), 1<<26)
		for sc.Scan() {
			line := sc.Text()
			switch {
			case strings.HasPrefix(line, "BEGIN "):
				cur = strings.TrimPrefix(line, "BEGIN ")
				out[cur] = &outcome{}
				lines = nil
			case strings.HasPrefix(line, "END ") && cur != "":
				js := strings.TrimPrefix(line, "END "+cur+" ")
				var r childResult
				if json.Unmarshal([]byte(js), &r) == nil {
					out[cur].res = &r
				}
				finish()
				cur = ""
			case line == "CHILD-COMPLETE":
				complete = true
			default:
				if cur != "" {
					lines = append(lines, line)
				}
			}
		}
		if cur != "" {
			finish()
		}
		if complete {
			break
		}
		// the child died (or hung) inside `cur`
		if cur == "" {
			return out, fmt.Errorf("child process failed outside any family: %v: %s", werr, tail(buf.String(), 600))
		}
		if out[cur].fatal == "" {
			out[cur].fatal = fmt.Sprintf("child process died: %v: %s", werr, tail(buf.String(), 300))
		}
		idx := -1
		for i, f := range rest {
			if f == cur {
				idx = i
			}
		}
		if idx < 0 {
			break
		}
		rest = rest[idx+1:]
	}
	return out, nil
}

func tail(s string, n int) string {
	if len(s) > n {
		return s[len(s)-n:]
	}
	return s
}

type c10Corpus struct {
	FamiliesFirst  []string `json:"families_first"`
	CacheSequences [][]int  `json:"cache_sequences"`
}

func parseCacheInfo(s string) (reads, hits int, ok bool) {
	_, err := fmt.Sscanf(s, "reads %d hits %d", &reads, &hits)
	return reads, hits, err == nil
}

func idsTerm(ids []int) string {
	xs := make([]string, len(ids))
	for i, x := range ids {
		xs[i] = fmt.Sprintf("%d%%N", x)
	}
	return CList(xs)
}

func checkC10(c *Ctx, r *Report) error {
	var corpus c10Corpus
	if b, err := os.ReadFile(filepath.Join(c.Verif, "corpus", "C10.json")); err == nil {
		if err := json.Unmarshal(b, &corpus); err != nil {
			return err
		}
	}
	all := concshapes.All()
	groups := map[string]string{}
	var names []string
	seen := map[string]bool{}
	for _, f := range all {
		groups[f.Name] = f.Group
	}
	for _, n := range corpus.FamiliesFirst {
		if _, ok := groups[n]; ok && !seen[n] {
			names = append(names, n)
			seen[n] = true
		}
	}
	for _, f := range all {
		if !seen[f.Name] {
			names = append(names, f.Name)
			seen[f.Name] = true
		}
	}
	var aliasOnly []string // nil: every alias group
	if c.Replay != "" {
		var rp struct {
			FailingInputs []struct {
				Input struct {
					Family string `json:"family"`
				} `json:"input"`
			} `json:"failing_inputs"`
		}
		if b, err := os.ReadFile(c.Replay); err == nil && json.Unmarshal(b, &rp) == nil && len(rp.FailingInputs) > 0 {
			names = nil
			aliasOnly = []string{}
			for _, fi := range rp.FailingInputs {
				if _, ok := groups[fi.Input.Family]; ok {
					names = append(names, fi.Input.Family)
				}
				if strings.HasPrefix(fi.Input.Family, aliasPrefix) {
					aliasOnly = append(aliasOnly, fi.Input.Family)
				}
			}
		}
	}
	self, err := os.Executable()
	if err != nil {
		return err
	}
	tmp := c.Out
	// ---- the race-detector build of this very program
	raceBin := filepath.Join(c.Out, "c10race")
	raceNote := ""
	{
		args := []string{"build", "-race", "-tags", "verif"}
		if rp, err := filepath.EvalSymlinks(c.Repo); err == nil && rp != "/repo" {
			// a scratch tree under test (VERIF_REPO): the same harness module, replaced by that tree
			if gm, err := os.ReadFile(filepath.Join(c.Verif, "harness", "go.mod")); err == nil {
				mf := filepath.Join(c.Out, "go.race.mod")
				os.WriteFile(mf, []byte(strings.ReplaceAll(string(gm), "=> /repo", "=> "+rp)), 0o644)
				if gs, err := os.ReadFile(filepath.Join(rp, "go.sum")); err == nil {
					os.WriteFile(filepath.Join(c.Out, "go.race.sum"), gs, 0o644)
				}
				args = append(args, "-modfile", mf)
			}
		}
		cmd := exec.Command("go", append(args, "-o", raceBin, "./cmd/c10")...)
		cmd.Dir = filepath.Join(c.Verif, "harness")
		cmd.Env = append(os.Environ(), "CGO_ENABLED=1")
		t0 := time.Now()
		if out, err := cmd.CombinedOutput(); err != nil {
			raceBin = ""
			raceNote = "go build -race is not available here (" + tail(strings.TrimSpace(string(out)), 200) + "): races are detected only through runtime faults and value mismatches"
		} else {
			raceNote = fmt.Sprintf("race-detector build of the harness: %.1fs", time.Since(t0).Seconds())
		}
	}
	n := TierN(c.Tier, 480, 4000, 1200)
	rounds := TierN(c.Tier, 3, 10, 4)
	cells := TierN(c.Tier, 16, 40, 24)
	common := []string{"-repo", c.Repo, "-tmp", tmp, "-seed", fmt.Sprint(c.Seed), "-goroutines", "16"}
	plain, err := runChildren(self, os.Environ(), names,
		append(common, "-points", fmt.Sprint(n), "-rounds", fmt.Sprint(rounds), "-cells", fmt.Sprint(cells)), 20*time.Minute)
	if err != nil {
		return err
	}
	var raced map[string]*outcome
	if raceBin != "" {
		raced, err = runChildren(raceBin, append(os.Environ(), "GORACE=halt_on_error=0 exitcode=0"), names,
			append(common, "-points", fmt.Sprint(n/3), "-rounds", "1", "-cells", fmt.Sprint(cells/2)), 20*time.Minute)
		if err != nil {
			return err
		}
	}
	// ---- aliased construction: shapes built from one another, evaluated together (alias.go)
	if err := aliasStrata(c, r, self, raceBin, common, aliasOnly); err != nil {
		return err
	}
	if raceBin != "" {
		os.Remove(raceBin)
	}
	cs := &Cases{Kind: "cache", Imports: "From Sdfx Require Import Sys.Lockset.", Type: "Lockset.case", Fn: "Lockset.mismatches", PerShard: 50}
	id := 0
	addCacheCase := func(ids []int, reads, hits int) {
		id++
		cs.Add(fmt.Sprintf("(%d%%N, %s, %d%%N, %d%%N)", id, idsTerm(ids), reads, hits))
	}
	for _, name := range names {
		g := groups[name]
		input := map[string]interface{}{"family": name, "seed": c.Seed, "points": n, "goroutines": 16, "rounds": rounds}
		for _, mm := range []struct {
			mode string
			m    map[string]*outcome
		}{{"full-speed", plain}, {"race-detector", raced}} {
			mode, m := mm.mode, mm.m
			if m == nil {
				continue
			}
			o := m[name]
			if o == nil {
				continue
			}
			r.Case(g+"/"+mode, name+"/"+mode, true)
			switch {
			case o.races > 0:
				r.Violate("race:"+name, fmt.Sprintf("the race detector reports %d data race(s) while 16 goroutines call Evaluate on one %s shape: %s", o.races, name, firstLines(o.race1, 14)), input)
			case o.fatal != "":
				r.Violate("fault:"+name, fmt.Sprintf("runtime fault while 16 goroutines call Evaluate on one %s shape (%s): %s", name, mode, o.fatal), input)
			case o.res == nil:
				r.Violate("fault:"+name, "no result from the child process for "+name, input)
			case strings.Contains(o.res.Err, "differ sequentially"):
				// two instances of the same shape, evaluated one after the other from one goroutine,
				// disagree: Evaluate is not a function of the point (e.g. it spawns goroutines and
				// folds their results in completion order)
				r.Violate("value-seq:"+name, fmt.Sprintf("two fresh %s instances evaluated sequentially at the same points return different values (%s): Evaluate is not a function of the point, so concurrent results cannot equal sequential ones", name, mode), input)
			case o.res.Err != "":
				return fmt.Errorf("family %s: %s", name, o.res.Err)
			case o.res.Panic != "":
				r.Violate("fault:"+name, fmt.Sprintf("panic in Evaluate under concurrency (%s): %s", mode, o.res.Panic), input)
			case o.res.Mismatches > 0:
				r.Violate("value:"+name, fmt.Sprintf("%d of %d concurrent evaluations differ from sequential evaluation (%s); %s", o.res.Mismatches, o.res.Evals, mode, o.res.First), input)
			case o.res.Hash1 != o.res.HashN || o.res.Tri1 != o.res.TriN:
				r.Violate("render:"+name, fmt.Sprintf("NewMarchingCubesUniform render of one instance differs between GOMAXPROCS 1 (%d triangles, %s) and 16 (%d triangles, %s) (%s)", o.res.Tri1, o.res.Hash1, o.res.TriN, o.res.HashN, mode), input)
			}
			if o.res != nil && o.res.CacheInfo != "" {
				reads, hits, ok := parseCacheInfo(o.res.CacheInfo)
				if !ok {
					return fmt.Errorf("cannot parse CacheSDF2.String(): %q", o.res.CacheInfo)
				}
				if len(o.res.CacheIDs) <= 12000 { // larger call sequences are checked below in Go only (size of the Coq term)
					addCacheCase(o.res.CacheIDs, reads, hits)
				}
				distinct := map[int]bool{}
				for _, x := range o.res.CacheIDs {
					distinct[x] = true
				}
				if reads != len(o.res.CacheIDs) || hits != reads-len(distinct) {
					r.Violate("counters:"+name, fmt.Sprintf("after %d concurrent Evaluate calls on %d distinct points CacheSDF2 reports %q (expected reads %d hits %d) (%s)",
						len(o.res.CacheIDs), len(distinct), o.res.CacheInfo, len(o.res.CacheIDs), len(o.res.CacheIDs)-len(distinct), mode), input)
				}
			}
			if mode == "full-speed" && o.res != nil && len(r.Samples) < 6 && (name == "cache2d" || name == "importstl" || name == "voxel3d" || name == "text2d" || name == "union3d-polymin" || name == "bolt") {
				r.Sample(map[string]interface{}{"family": name, "evaluations": o.res.Evals, "mismatches": o.res.Mismatches, "triangles_gomaxprocs1": o.res.Tri1, "triangles_gomaxprocs16": o.res.TriN, "cache": o.res.CacheInfo})
			}
		}
	}
	// ---- the cache model against the real CacheSDF2, sequential call sequences (corpus + random)
	rng := NewRng(c.Seed + 77)
	seqs := append([][]int{}, corpus.CacheSequences...)
	for k := 0; k < TierN(c.Tier, 60, 600, 200); k++ {
		m := rng.Range(0, 40)
		d := rng.Range(1, 12)
		s := make([]int, m)
		for i := range s {
			s[i] = rng.Intn(d)
		}
		seqs = append(seqs, s)
	}
	for _, s := range seqs {
		cache := sdf.Cache2D(sdf.Box2D(v2.Vec{X: 1, Y: 1}, 0)).(*sdf.CacheSDF2)
		for _, x := range s {
			cache.Evaluate(v2.Vec{X: float64(x) * 0.25, Y: 0.5})
		}
		reads, hits := 0, 0
		if len(s) > 0 { // String() divides by reads
			var ok bool
			reads, hits, ok = parseCacheInfo(cache.String())
			if !ok {
				return fmt.Errorf("cannot parse CacheSDF2.String(): %q", cache.String())
			}
		}
		addCacheCase(s, reads, hits)
		r.Case("cache/sequential-counters", fmt.Sprint("seq:", s), len(s) >= 2)
	}
	if err := cs.Write(c.Out); err != nil {
		return err
	}
	r.Coverage["families"] = len(names)
	r.Coverage["race_detector"] = raceNote
	renderStrata(r)
	probeStrata(c, r)
	r.Rule = "one case = one constructor family (primitives, every combinator, wrappers, cache, voxel, mesh import via obj.ImportSTL/ImportTriMesh, text, obj parts) hammered in one mode (full speed / race detector): 16 goroutines evaluate the same point set (half of the points repeated) on a fresh instance, every value compared bit-exactly with sequential evaluation of another instance, then a NewMarchingCubesUniform render under GOMAXPROCS 1 and 16; non-trivial = always (each family has state reachable from Evaluate), distinct by family and mode. cache counter cases: call sequences with 0..40 calls on 1..12 distinct points against the atomic cache model; non-trivial = at least 2 calls. overlap cases: one per operand-holding constructor (unions of 2..300 operands plain/blended, intersect, difference, offset, cut, transform, scale, array, rotate union/copy, elongate, line-of, multi, cache, slice, the extrusions, loft, revolve, screw, orient, shell) and mode: operands are probe operands that re-enter Evaluate of the enclosing shape at other points (one goroutine, deterministic) or park the evaluation while another goroutine evaluates the same shape (nested and crossed schedules); every value compared bit-exactly with a second instance built from plain operands. alias cases: one per alias group (for each of the 64 operand-holding constructors: the stateful first operand itself, two results of the constructor around the same operand values, the constructor applied to its own result, a Cache2D in front of a 2D result; plus 9 hand-written groups: chain of three caches, two Transform3D of one cached extrusion, unions sharing an operand or a leading union, one cached profile under several extrusions, one operand value passed twice, meshes from one triangle slice, texts from one font, polygons/multis from one vertex slice) and mode: goroutine g of 16 evaluates member g mod M, all members at once, values bit-exact against the same members built with nothing shared and evaluated sequentially (also before and after the concurrent phase), the last two members rendered at the same time against the unshared ones rendered alone, and a reflection walk of the heap reachable from the members that reports a map/slice/channel held directly by two struct values with disjoint mutexes; non-trivial = always."
	r.Trusted = append(r.Trusted,
		"harness/effsum: static effect summariser (go/packages + go/ssa of golang.org/x/tools v0.29.0, loaded offline): field-based abstract locations, access-path equality for lock ownership, RLock counted as holding the lock for reads only, callee effects re-rooted at call sites; calls through function values are not followed",
		"the Go memory model is abstracted to: conflicting accesses of two goroutines with no common mutex held",
		"Go race detector (ThreadSanitizer runtime) and the runtime's concurrent-map-access check as run-time oracles; "+raceNote)
	r.Assumptions = append(r.Assumptions,
		"function values stored in shapes (blend functions s.min/s.max, extrude functions, rtreego filters) are pure: effsum lists them as EFunVal and does not follow them",
		"standard-library packages math, math/bits, sort, fmt, errors, strconv, strings are not followed: no shared unsynchronised state (sort's permutation of its argument is listed as a write of that argument)",
		"shapes defined outside sdf, obj, render, render/dc are not covered (only the Evaluate methods of these packages are summarised)",
		"the run-time part exhibits only the schedules the Go scheduler happened to produce on 16 logical CPUs")
	return nil
}

func firstLines(s string, n int) string {
	ls := strings.Split(s, "\n")
	if len(ls) > n {
		ls = ls[:n]
	}
	return strings.Join(ls, " | ")
}
