package main

// Exact-specification oracle for the primitives: sign and squared distance to the un-rounded solid by
// exact projection (math/big rationals), written from the geometry (faces, edges, vertices, slope
// segment), not from the branch structure of the Go code.  The same specification is coq/Sdf/C03Corr.v
// (spec_sd2 at QOps) and is evaluated there on the same inputs.

import (
	"fmt"
	"math"
	"math/big"

	"github.com/deadsy/sdfx/sdf"
	v2 "github.com/deadsy/sdfx/vec/v2"
	v3 "github.com/deadsy/sdfx/vec/v3"
	. "verifharness/kit"
)

type prim struct {
	kind string    // circle box2 line2 sphere box3 cyl cone
	a    []float64 // parameters as passed to the constructor
	len  float64   // cone: |(r1-r0, h)| when exactly representable, else 0
}

func (p *prim) dim() int {
	switch p.kind {
	case "circle", "box2", "line2":
		return 2
	}
	return 3
}

func (p *prim) desc() string {
	return fmt.Sprintf("%s%v", p.kind, p.a)
}

func (p *prim) round() float64 {
	switch p.kind {
	case "circle", "sphere":
		return p.a[0]
	case "box2":
		return p.a[2]
	case "line2":
		return p.a[1]
	case "box3":
		return p.a[3]
	case "cyl":
		return p.a[2]
	case "cone":
		return p.a[3]
	}
	return 0
}

// build returns the evaluator of the real object
func (p *prim) build() (func(x, y, z float64) float64, error) {
	switch p.kind {
	case "circle":
		s, err := sdf.Circle2D(p.a[0])
		if err != nil {
			return nil, err
		}
		return func(x, y, z float64) float64 { return s.Evaluate(v2.Vec{X: x, Y: y}) }, nil
	case "box2":
		s := sdf.Box2D(v2.Vec{X: p.a[0], Y: p.a[1]}, p.a[2])
		return func(x, y, z float64) float64 { return s.Evaluate(v2.Vec{X: x, Y: y}) }, nil
	case "line2":
		s := sdf.Line2D(p.a[0], p.a[1])
		return func(x, y, z float64) float64 { return s.Evaluate(v2.Vec{X: x, Y: y}) }, nil
	case "sphere":
		s, err := sdf.Sphere3D(p.a[0])
		if err != nil {
			return nil, err
		}
		return func(x, y, z float64) float64 { return s.Evaluate(v3.Vec{X: x, Y: y, Z: z}) }, nil
	case "box3":
		s, err := sdf.Box3D(v3.Vec{X: p.a[0], Y: p.a[1], Z: p.a[2]}, p.a[3])
		if err != nil {
			return nil, err
		}
		return func(x, y, z float64) float64 { return s.Evaluate(v3.Vec{X: x, Y: y, Z: z}) }, nil
	case "cyl":
		s, err := sdf.Cylinder3D(p.a[0], p.a[1], p.a[2])
		if err != nil {
			return nil, err
		}
		return func(x, y, z float64) float64 { return s.Evaluate(v3.Vec{X: x, Y: y, Z: z}) }, nil
	case "cone":
		s, err := sdf.Cone3D(p.a[0], p.a[1], p.a[2], p.a[3])
		if err != nil {
			return nil, err
		}
		return func(x, y, z float64) float64 { return s.Evaluate(v3.Vec{X: x, Y: y, Z: z}) }, nil
	}
	return nil, fmt.Errorf("unknown primitive %s", p.kind)
}

func (p *prim) coq() string {
	switch p.kind {
	case "circle":
		return fmt.Sprintf("(PCircle %s)", CF(p.a[0]))
	case "box2":
		return fmt.Sprintf("(PBox2 %s %s %s)", CF(p.a[0]), CF(p.a[1]), CF(p.a[2]))
	case "line2":
		return fmt.Sprintf("(PLine2 %s %s)", CF(p.a[0]), CF(p.a[1]))
	case "sphere":
		return fmt.Sprintf("(PSphere %s)", CF(p.a[0]))
	case "box3":
		return fmt.Sprintf("(PBox3 %s %s %s %s)", CF(p.a[0]), CF(p.a[1]), CF(p.a[2]), CF(p.a[3]))
	case "cyl":
		return fmt.Sprintf("(PCyl %s %s %s)", CF(p.a[0]), CF(p.a[1]), CF(p.a[2]))
	}
	return fmt.Sprintf("(PCone %s %s %s %s %s)", CF(p.a[0]), CF(p.a[1]), CF(p.a[2]), CF(p.a[3]), CF(p.len))
}

// ---------------------------------------------------------------- rational arithmetic

func rat(x float64) *big.Rat      { return new(big.Rat).SetFloat64(x) }
func radd(a, b *big.Rat) *big.Rat { return new(big.Rat).Add(a, b) }
func rsub(a, b *big.Rat) *big.Rat { return new(big.Rat).Sub(a, b) }
func rmul(a, b *big.Rat) *big.Rat { return new(big.Rat).Mul(a, b) }
func rdiv(a, b *big.Rat) *big.Rat { return new(big.Rat).Quo(a, b) }
func rsq(a *big.Rat) *big.Rat     { return new(big.Rat).Mul(a, a) }
func rabs(a *big.Rat) *big.Rat    { return new(big.Rat).Abs(a) }
func rneg(a *big.Rat) *big.Rat    { return new(big.Rat).Neg(a) }
func rhalf(a *big.Rat) *big.Rat   { return rdiv(a, big.NewRat(2, 1)) }
func rrelu(a *big.Rat) *big.Rat   { return rmax(a, new(big.Rat)) }
func rmin(a, b *big.Rat) *big.Rat {
	if a.Cmp(b) <= 0 {
		return a
	}
	return b
}
func rmax(a, b *big.Rat) *big.Rat {
	if a.Cmp(b) >= 0 {
		return a
	}
	return b
}

var rzero = new(big.Rat)

// signed distance to the negative orthant: (sign, squared distance)
func specOrth(ds ...*big.Rat) (int, *big.Rat) {
	pos := false
	sum := new(big.Rat)
	m := ds[0]
	for _, d := range ds {
		if d.Sign() > 0 {
			pos = true
			sum = radd(sum, rsq(d))
		}
		m = rmax(m, d)
	}
	if pos {
		return 1, sum
	}
	return m.Sign(), rsq(m)
}

// squared distance from (x,y) to the segment a + t u, t in [0,1]
func segD2(ax, ay, ux, uy, x, y *big.Rat) *big.Rat {
	vx, vy := rsub(x, ax), rsub(y, ay)
	uu := radd(rsq(ux), rsq(uy))
	vu := radd(rmul(vx, ux), rmul(vy, uy))
	if vu.Sign() <= 0 {
		return radd(rsq(vx), rsq(vy))
	}
	if uu.Cmp(vu) <= 0 {
		return radd(rsq(rsub(vx, ux)), rsq(rsub(vy, uy)))
	}
	return rsub(radd(rsq(vx), rsq(vy)), rdiv(rsq(vu), uu))
}

func specCone(sh, sr0, sr1, rho, z *big.Rat) (int, *big.Rat) {
	ux, uy := rsub(sr1, sr0), radd(sh, sh)
	vx, vz, wz := rsub(rho, sr0), radd(z, sh), rsub(z, sh)
	uu := radd(rsq(ux), rsq(uy))
	cr := rsub(rmul(vx, uy), rmul(vz, ux))
	if cr.Sign() <= 0 && vz.Sign() >= 0 && wz.Sign() <= 0 {
		d := rmin(rsq(wz), rsq(vz))
		if uu.Sign() != 0 {
			d = rmin(d, rdiv(rsq(cr), uu))
		}
		if d.Sign() == 0 {
			return 0, d
		}
		return -1, d
	}
	dtop := radd(rsq(rrelu(rsub(rho, sr1))), rsq(wz))
	dbot := radd(rsq(rrelu(rsub(rho, sr0))), rsq(vz))
	dsl := segD2(sr0, rneg(sh), ux, uy, rho, z)
	return 1, rmin(rmin(dtop, dbot), dsl)
}

// exact (or 256-bit) rho = sqrt(x^2+y^2) as a rational; exact reports whether rho is the float itself
func rhoRat(x, y float64) (*big.Rat, float64, bool) {
	rf := math.Sqrt(x*x + y*y)
	r := rat(rf)
	if rsq(r).Cmp(radd(rsq(rat(x)), rsq(rat(y)))) == 0 {
		return r, rf, true
	}
	s := new(big.Float).SetPrec(300)
	xx := new(big.Float).SetPrec(300).SetFloat64(x)
	yy := new(big.Float).SetPrec(300).SetFloat64(y)
	s.Add(xx.Mul(xx, xx), yy.Mul(yy, yy))
	s.Sqrt(s)
	q, _ := s.Rat(nil)
	return q, rf, false
}

// coneInset returns the exact inset radii for a cone whose slope length is rational
func coneInset(h, r0, r1, rd, l *big.Rat) (sh, sr0, sr1 *big.Rat) {
	ux, uy := rdiv(rsub(r1, r0), l), rdiv(h, l)
	ofs := rdiv(rd, uy)
	one := big.NewRat(1, 1)
	sr0 = rsub(r0, rmul(rsub(one, ux), ofs))
	sr1 = rsub(r1, rmul(radd(one, ux), ofs))
	sh = rsub(rhalf(h), rd)
	return
}

// spec returns sign and squared distance to the un-rounded solid; ok=false when the primitive
// cannot be specified exactly (cone with an irrational slope length)
func (p *prim) spec(x, y, z float64) (s int, d2 *big.Rat, rhoExact bool, rhoF float64, ok bool) {
	X, Y, Z := rat(x), rat(y), rat(z)
	rhoExact, ok = true, true
	switch p.kind {
	case "circle":
		d2 = radd(rsq(X), rsq(Y))
		s = d2.Sign()
	case "sphere":
		d2 = radd(radd(rsq(X), rsq(Y)), rsq(Z))
		s = d2.Sign()
	case "box2":
		r := rat(p.a[2])
		s, d2 = specOrth(rsub(rabs(X), rsub(rhalf(rat(p.a[0])), r)), rsub(rabs(Y), rsub(rhalf(rat(p.a[1])), r)))
	case "box3":
		r := rat(p.a[3])
		s, d2 = specOrth(rsub(rabs(X), rsub(rhalf(rat(p.a[0])), r)), rsub(rabs(Y), rsub(rhalf(rat(p.a[1])), r)),
			rsub(rabs(Z), rsub(rhalf(rat(p.a[2])), r)))
	case "line2":
		d2 = radd(rsq(rrelu(rsub(rabs(X), rhalf(rat(p.a[0]))))), rsq(Y))
		s = d2.Sign()
	case "cyl":
		var R *big.Rat
		R, rhoF, rhoExact = rhoRat(x, y)
		r := rat(p.a[2])
		s, d2 = specOrth(rsub(R, rsub(rat(p.a[1]), r)), rsub(rabs(Z), rsub(rhalf(rat(p.a[0])), r)))
	case "cone":
		var R *big.Rat
		R, rhoF, rhoExact = rhoRat(x, y)
		var L *big.Rat
		if p.len > 0 {
			L = rat(p.len)
		} else {
			// irrational slope length: 300-bit approximation (Go-side oracle only)
			dx := new(big.Float).SetPrec(300).SetFloat64(p.a[2] - p.a[1])
			if p.a[2]-p.a[1] != 0 {
				d := rsub(rat(p.a[2]), rat(p.a[1]))
				dx.SetRat(d)
			}
			hh := new(big.Float).SetPrec(300).SetFloat64(p.a[0])
			t := new(big.Float).SetPrec(300).Mul(dx, dx)
			t.Add(t, new(big.Float).SetPrec(300).Mul(hh, hh))
			t.Sqrt(t)
			L, _ = t.Rat(nil)
			rhoExact = false
		}
		sh, sr0, sr1 := coneInset(rat(p.a[0]), rat(p.a[1]), rat(p.a[2]), rat(p.a[3]), L)
		if sr0.Sign() < 0 || sr1.Sign() < 0 {
			ok = false
			return
		}
		s, d2 = specCone(sh, sr0, sr1, R, Z)
	}
	return
}

type verdict struct {
	ok   bool
	what string
}

// judge compares the Go value with the specification (same rule as C03Corr.spec_ok)
func judge(s int, d2 *big.Rat, rd, g, scale float64, exact bool) verdict {
	if math.IsNaN(g) || math.IsInf(g, 0) {
		return verdict{false, fmt.Sprintf("Evaluate = %g", g)}
	}
	v, r := rat(g), rat(rd)
	w := radd(v, r)
	aw := rabs(w)
	eps := rmul(big.NewRat(1, 1000000000000), radd(radd(big.NewRat(1, 1), rat(scale)), aw))
	lo := new(big.Rat)
	if aw.Cmp(eps) > 0 {
		lo = rsq(rsub(aw, eps))
	}
	hi := rsq(radd(aw, eps))
	d, _ := d2.Float64()
	if exact {
		if rsq(w).Cmp(d2) != 0 {
			return verdict{false, fmt.Sprintf("(Evaluate+round)^2 = %.17g^2 differs from the exact squared distance %.17g in the dyadic-exact regime", g+rd, d)}
		}
	} else if lo.Cmp(d2) > 0 || d2.Cmp(hi) > 0 {
		return verdict{false, fmt.Sprintf("|Evaluate+round| = %.17g but the exact distance is %.17g", math.Abs(g+rd), math.Sqrt(d))}
	}
	near0 := d2.Cmp(rsq(eps)) <= 0
	if (exact || !near0) && w.Sign() != s {
		return verdict{false, fmt.Sprintf("Evaluate+round = %.17g has sign %d, the point is on side %d of the un-rounded solid (distance %.17g)", g+rd, w.Sign(), s, math.Sqrt(d))}
	}
	expect := s
	if s <= 0 {
		if r.Sign() != 0 {
			expect = -1
		}
	} else {
		expect = d2.Cmp(rsq(r))
	}
	nearsurf := rabs(v).Cmp(eps) <= 0
	if (exact || !nearsurf) && v.Sign() != expect {
		return verdict{false, fmt.Sprintf("Evaluate = %.17g has sign %d, expected %d (distance to the un-rounded solid %.17g, round %g)", g, v.Sign(), expect, math.Sqrt(d), rd)}
	}
	return verdict{true, ""}
}
