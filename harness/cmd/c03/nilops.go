package main

// C03, the ABSENT-OPERAND dimension of the list constructors (added after mutation C03e-m3 / C16e-m3:
// Union2D cached the children's bounding boxes at construction in a slice sized and indexed by the
// ARGUMENT position while the nil-stripped child list is appended to; after a nil argument every
// later child was pruned with the box of another argument slot and the union reported 9.01 where the
// distance is 5.98.  No generator passed a nil operand, so argument index = child index everywhere).
//
// Union2D / Union3D are the constructors that accept operand lists; nil entries are valid input
// ("strip out any nils": optional parts of an assembly, and what Multi2D/3D, LineOf2D/3D, Orient3D,
// Array2D/3D, Intersect2D/3D, Difference2D/3D and Union2D/3D themselves return for an empty position
// list / pattern / count / a nil operand).  The denoted shape does not depend on the nils, so the TWIN
// is the same call without them.  Dimensions:
//   pattern   nils in every position: leading, between every pair of operands, trailing, several
//             positions at once (every subset of the gaps for 2 and 3 operands), runs of 2..3 nils,
//             for 2..6 operands
//   source    a literal nil or the nil returned by one of the constructors above
//   operands  (A) translated exact primitives (circle / box, sphere / box) on a dyadic grid - near,
//             overlapping, far apart - with the exact rational union distance as the reference;
//             (B) random trees of the claimed class (shapes.Gen), translated
//   minimum   plain or PolyMin(k)
//   context   the union alone, under Transform / Offset / Extrude, and as an operand of an outer union
//             that has nils of its own
// Oracles: the value is bit for bit the twin's at operand centres, box corners, just outside the
// corners, random and far points, and the bounding boxes are equal; (A) equals the exact minimum of
// the operands' Euclidean signed distances; 1-Lipschitz pair search (searchLip) on the shape built
// WITH the nils (for (B) where the hypotheses of the 2D box pruning hold, as in main.go).

import (
	"fmt"
	"math"
	"strings"

	"github.com/deadsy/sdfx/sdf"
	v2 "github.com/deadsy/sdfx/vec/v2"
	"github.com/deadsy/sdfx/vec/v2i"
	v3 "github.com/deadsy/sdfx/vec/v3"
	"github.com/deadsy/sdfx/vec/v3i"
	. "verifharness/kit"
	"verifharness/shapes"
)

// one operand: the object, how to print it, and (pool A) its exact signed distance
type nilOp struct {
	s2    sdf.SDF2
	s3    sdf.SDF3
	desc  string
	exact func(p []float64) float64 // nil for pool B
	lipOK bool                      // pool B: in the class and meets the pruning hypotheses
	probe [][]float64               // centre, box corners, just outside the corners
}

type nilSource struct {
	name string
	n2   func(a sdf.SDF2) sdf.SDF2
	n3   func(a sdf.SDF3) sdf.SDF3
}

var nilSources = []nilSource{
	{"nil", func(sdf.SDF2) sdf.SDF2 { return nil }, func(sdf.SDF3) sdf.SDF3 { return nil }},
	{"Multi(s,{})", func(a sdf.SDF2) sdf.SDF2 { return sdf.Multi2D(a, nil) }, func(a sdf.SDF3) sdf.SDF3 { return sdf.Multi3D(a, nil) }},
	{"LineOf(s,\"\")", func(a sdf.SDF2) sdf.SDF2 { return sdf.LineOf2D(a, v2.Vec{}, v2.Vec{X: 1}, "") },
		func(a sdf.SDF3) sdf.SDF3 { return sdf.LineOf3D(a, v3.Vec{}, v3.Vec{X: 1}, "") }},
	{"Array(s,0)", func(a sdf.SDF2) sdf.SDF2 { return sdf.Array2D(a, v2i.Vec{X: 0, Y: 1}, v2.Vec{X: 1, Y: 1}) },
		func(a sdf.SDF3) sdf.SDF3 { return sdf.Array3D(a, v3i.Vec{X: 1, Y: 0, Z: 1}, v3.Vec{X: 1, Y: 1, Z: 1}) }},
	{"Intersect(s,nil)", func(a sdf.SDF2) sdf.SDF2 { return sdf.Intersect2D(a, nil) }, func(a sdf.SDF3) sdf.SDF3 { return sdf.Intersect3D(a, nil) }},
	{"Difference(nil,s)", func(a sdf.SDF2) sdf.SDF2 { return sdf.Difference2D(nil, a) }, func(a sdf.SDF3) sdf.SDF3 { return sdf.Difference3D(nil, a) }},
	{"Union()", func(sdf.SDF2) sdf.SDF2 { return sdf.Union2D() }, func(sdf.SDF3) sdf.SDF3 { return sdf.Union3D() }},
	{"Union(nil,nil)", func(sdf.SDF2) sdf.SDF2 { return sdf.Union2D(nil, nil) }, func(sdf.SDF3) sdf.SDF3 { return sdf.Union3D(nil, nil) }},
	{"Orient(s,{})", func(sdf.SDF2) sdf.SDF2 { return nil }, func(a sdf.SDF3) sdf.SDF3 { return sdf.Orient3D(a, v3.Vec{Z: 1}, nil) }},
}

// ---------------------------------------------------------------- operands

func boxProbes(lo, hi []float64) [][]float64 {
	n := len(lo)
	c := make([]float64, n)
	for i := range c {
		c[i] = lo[i] + (hi[i]-lo[i])/2
	}
	out := [][]float64{c}
	for m := 0; m < 1<<n; m++ {
		p, q := make([]float64, n), make([]float64, n)
		for i := 0; i < n; i++ {
			w := hi[i] - lo[i]
			if m>>i&1 == 1 {
				p[i], q[i] = hi[i], hi[i]+0.125*w+0.0625
			} else {
				p[i], q[i] = lo[i], lo[i]-0.125*w-0.0625
			}
		}
		out = append(out, p, q)
	}
	return out
}

func finite(xs ...float64) bool {
	for _, x := range xs {
		if math.IsNaN(x) || math.IsInf(x, 0) {
			return false
		}
	}
	return true
}

// pool A: exact primitives on a dyadic grid
func nilExact2(rng *Rng, spread float64) nilOp {
	c := v2.Vec{X: rng.Dyadic(spread, 3), Y: rng.Dyadic(spread, 3)}
	var o nilOp
	if rng.Bool() {
		rd := float64(rng.Range(1, 24)) / 8
		s, _ := sdf.Circle2D(rd)
		o.s2 = sdf.Transform2D(s, sdf.Translate2d(c))
		o.desc = fmt.Sprintf("Circle(%g)@(%g,%g)", rd, c.X, c.Y)
		o.exact = func(p []float64) float64 {
			d2, _ := radd(rsq(rsub(rat(p[0]), rat(c.X))), rsq(rsub(rat(p[1]), rat(c.Y)))).Float64()
			return math.Sqrt(d2) - rd
		}
	} else {
		sz := v2.Vec{X: float64(rng.Range(1, 32)) / 8, Y: float64(rng.Range(1, 32)) / 8}
		o.s2 = sdf.Transform2D(sdf.Box2D(sz, 0), sdf.Translate2d(c))
		o.desc = fmt.Sprintf("Box2D({%g %g},0)@(%g,%g)", sz.X, sz.Y, c.X, c.Y)
		o.exact = func(p []float64) float64 {
			s, d2 := specOrth(rsub(rabs(rsub(rat(p[0]), rat(c.X))), rhalf(rat(sz.X))), rsub(rabs(rsub(rat(p[1]), rat(c.Y))), rhalf(rat(sz.Y))))
			d, _ := d2.Float64()
			return float64(s) * math.Sqrt(d)
		}
	}
	bb := o.s2.BoundingBox()
	o.probe = boxProbes([]float64{bb.Min.X, bb.Min.Y}, []float64{bb.Max.X, bb.Max.Y})
	o.lipOK = true
	return o
}

func nilExact3(rng *Rng, spread float64) nilOp {
	c := v3.Vec{X: rng.Dyadic(spread, 3), Y: rng.Dyadic(spread, 3), Z: rng.Dyadic(spread, 3)}
	var o nilOp
	if rng.Bool() {
		rd := float64(rng.Range(1, 24)) / 8
		s, _ := sdf.Sphere3D(rd)
		o.s3 = sdf.Transform3D(s, sdf.Translate3d(c))
		o.desc = fmt.Sprintf("Sphere(%g)@(%g,%g,%g)", rd, c.X, c.Y, c.Z)
		o.exact = func(p []float64) float64 {
			d2, _ := radd(radd(rsq(rsub(rat(p[0]), rat(c.X))), rsq(rsub(rat(p[1]), rat(c.Y)))), rsq(rsub(rat(p[2]), rat(c.Z)))).Float64()
			return math.Sqrt(d2) - rd
		}
	} else {
		sz := v3.Vec{X: float64(rng.Range(1, 32)) / 8, Y: float64(rng.Range(1, 32)) / 8, Z: float64(rng.Range(1, 32)) / 8}
		b, _ := sdf.Box3D(sz, 0)
		o.s3 = sdf.Transform3D(b, sdf.Translate3d(c))
		o.desc = fmt.Sprintf("Box3D({%g %g %g},0)@(%g,%g,%g)", sz.X, sz.Y, sz.Z, c.X, c.Y, c.Z)
		o.exact = func(p []float64) float64 {
			s, d2 := specOrth(rsub(rabs(rsub(rat(p[0]), rat(c.X))), rhalf(rat(sz.X))), rsub(rabs(rsub(rat(p[1]), rat(c.Y))), rhalf(rat(sz.Y))),
				rsub(rabs(rsub(rat(p[2]), rat(c.Z))), rhalf(rat(sz.Z))))
			d, _ := d2.Float64()
			return float64(s) * math.Sqrt(d)
		}
	}
	bb := o.s3.BoundingBox()
	o.probe = boxProbes([]float64{bb.Min.X, bb.Min.Y, bb.Min.Z}, []float64{bb.Max.X, bb.Max.Y, bb.Max.Z})
	o.lipOK = true
	return o
}

// pool B: a random tree of the claimed class, translated
func nilTree2(rng *Rng, g *shapes.Gen, spread float64) (nilOp, bool) {
	t := g.Gen2(rng.Range(0, 2))
	c := v2.Vec{X: rng.Dyadic(spread, 3), Y: rng.Dyadic(spread, 3)}
	o := nilOp{s2: sdf.Transform2D(t.Go, sdf.Translate2d(c)), desc: fmt.Sprintf("%s@(%g,%g)", t.Desc, c.X, c.Y)}
	bb := o.s2.BoundingBox()
	if !finite(bb.Min.X, bb.Min.Y, bb.Max.X, bb.Max.Y) {
		return o, false
	}
	o.probe = boxProbes([]float64{bb.Min.X, bb.Min.Y}, []float64{bb.Max.X, bb.Max.Y})
	o.lipOK = inClass(t.Cl, t.Coq) && pruneSound(rng, t) && (t.Cl.Lb || t.Cl.LbInf) && hasInterior(rng, t.Go)
	return o, true
}

func nilTree3(rng *Rng, g *shapes.Gen, spread float64) (nilOp, bool) {
	t := g.Gen3(rng.Range(0, 2))
	c := v3.Vec{X: rng.Dyadic(spread, 3), Y: rng.Dyadic(spread, 3), Z: rng.Dyadic(spread, 3)}
	o := nilOp{s3: sdf.Transform3D(t.Go, sdf.Translate3d(c)), desc: fmt.Sprintf("%s@(%g,%g,%g)", t.Desc, c.X, c.Y, c.Z)}
	bb := o.s3.BoundingBox()
	if !finite(bb.Min.X, bb.Min.Y, bb.Min.Z, bb.Max.X, bb.Max.Y, bb.Max.Z) {
		return o, false
	}
	o.probe = boxProbes([]float64{bb.Min.X, bb.Min.Y, bb.Min.Z}, []float64{bb.Max.X, bb.Max.Y, bb.Max.Z})
	o.lipOK = inClass(t.Cl, t.Coq) && pruneSound(rng, t)
	return o, true
}

// ---------------------------------------------------------------- patterns

// nilPatterns: gaps[i] = number of nils before operand i (gaps[n]: trailing)
func nilPatterns(rng *Rng, n int, all bool, extra int) [][]int {
	var out [][]int
	if all { // every non-empty subset of the gaps, one nil each
		for m := 1; m < 1<<(n+1); m++ {
			g := make([]int, n+1)
			for i := range g {
				g[i] = m >> i & 1
			}
			out = append(out, g)
		}
	} else { // leading, each interior gap, trailing, everywhere
		for i := 0; i <= n; i++ {
			g := make([]int, n+1)
			g[i] = 1
			out = append(out, g)
		}
		g := make([]int, n+1)
		for i := range g {
			g[i] = 1
		}
		out = append(out, g)
	}
	for k := 0; k < extra; k++ { // several, with runs
		g := make([]int, n+1)
		tot := 0
		for i := range g {
			if rng.Intn(2) == 0 {
				g[i] = rng.Range(1, 3)
				tot += g[i]
			}
		}
		if tot == 0 {
			g[rng.Intn(n)] = 2
		}
		out = append(out, g)
	}
	return out
}

func patString(g []int) string {
	xs := make([]string, len(g))
	for i, k := range g {
		xs[i] = fmt.Sprint(k)
	}
	return strings.Join(xs, "")
}

// ---------------------------------------------------------------- one case

type nilCase struct {
	dim     int
	ops     []nilOp
	gaps    []int
	src     int     // index into nilSources; -1: a different source for every nil
	blend   float64 // 0: plain minimum
	context int     // 0 alone, 1 rigid transform, 2 offset, 3 operand of an outer union with nils, 4 (2D operands) extruded
	stratum string
}

func (nc *nilCase) source(rng *Rng, k int) nilSource {
	if nc.src >= 0 {
		return nilSources[nc.src]
	}
	return nilSources[(k*5+len(nc.ops))%len(nilSources)]
}

func nilRun(r *Report, rng *Rng, viol func(key, what string, input map[string]interface{}), nc *nilCase, npairs int) {
	n := len(nc.ops)
	var names []string
	var a2, t2 []sdf.SDF2
	var a3, t3 []sdf.SDF3
	k := 0
	put := func() bool {
		src := nc.source(rng, k)
		k++
		if nc.dim == 2 {
			x := src.n2(nc.ops[0].s2)
			if x != nil {
				return false // this constructor does not return nil (any more): not an absent operand
			}
			a2 = append(a2, x)
		} else {
			x := src.n3(nc.ops[0].s3)
			if x != nil {
				return false
			}
			a3 = append(a3, x)
		}
		names = append(names, src.name)
		return true
	}
	for i := 0; i <= n; i++ {
		for j := 0; j < nc.gaps[i]; j++ {
			if !put() {
				return
			}
		}
		if i < n {
			names = append(names, nc.ops[i].desc)
			if nc.dim == 2 {
				a2, t2 = append(a2, nc.ops[i].s2), append(t2, nc.ops[i].s2)
			} else {
				a3, t3 = append(a3, nc.ops[i].s3), append(t3, nc.ops[i].s3)
			}
		}
	}
	bl := ""
	if nc.blend > 0 {
		bl = fmt.Sprintf("[PolyMin(%g)]", nc.blend)
	}
	desc := fmt.Sprintf("Union%dD%s(%s)", nc.dim, bl, strings.Join(names, ","))
	var fu, ft *field
	var bbu, bbt interface{}
	exact := nc.blend == 0
	switch nc.dim {
	case 2:
		mk := func(args []sdf.SDF2, nils bool) sdf.SDF2 {
			u := sdf.Union2D(args...)
			if us, ok := u.(*sdf.UnionSDF2); ok && nc.blend > 0 {
				us.SetMin(sdf.PolyMin(nc.blend))
			}
			switch nc.context {
			case 1:
				u = sdf.Transform2D(u, sdf.Rotate2d(0.75).Mul(sdf.Translate2d(v2.Vec{X: 0.5, Y: -0.25})))
			case 2:
				u = sdf.Offset2D(u, 0.125)
			case 3:
				far, _ := sdf.Circle2D(0.5)
				fs := sdf.Transform2D(far, sdf.Translate2d(v2.Vec{X: 37, Y: -41}))
				if nils {
					u = sdf.Union2D(nil, u, nil, fs)
				} else {
					u = sdf.Union2D(u, fs)
				}
			}
			return u
		}
		u, t := mk(a2, true), mk(t2, false)
		if nc.context == 4 {
			u3, tw3 := sdf.Extrude3D(u, 2), sdf.Extrude3D(t, 2)
			fu, ft, bbu, bbt = field3(u3, desc), field3(tw3, desc), u3.BoundingBox(), tw3.BoundingBox()
		} else {
			fu, ft, bbu, bbt = field2(u, desc), field2(t, desc), u.BoundingBox(), t.BoundingBox()
		}
	case 3:
		mk := func(args []sdf.SDF3, nils bool) sdf.SDF3 {
			u := sdf.Union3D(args...)
			if us, ok := u.(*sdf.UnionSDF3); ok && nc.blend > 0 {
				us.SetMin(sdf.PolyMin(nc.blend))
			}
			switch nc.context {
			case 1:
				u = sdf.Transform3D(u, sdf.RotateZ(0.75).Mul(sdf.Translate3d(v3.Vec{X: 0.5, Y: -0.25, Z: 1})))
			case 2:
				u = sdf.Offset3D(u, 0.125)
			case 3:
				far, _ := sdf.Sphere3D(0.5)
				fs := sdf.Transform3D(far, sdf.Translate3d(v3.Vec{X: 37, Y: -41, Z: 11}))
				if nils {
					u = sdf.Union3D(nil, u, nil, fs)
				} else {
					u = sdf.Union3D(u, fs)
				}
			}
			return u
		}
		u, t := mk(a3, true), mk(t3, false)
		fu, ft, bbu, bbt = field3(u, desc), field3(t, desc), u.BoundingBox(), t.BoundingBox()
	}
	if nc.context != 0 {
		desc = fmt.Sprintf("context%d(%s)", nc.context, desc)
		fu.desc, ft.desc = desc, desc
		exact = false
	}
	key := "nil-operands:" + desc
	r.Case(nc.stratum, key, true)
	nv := 0
	report := func(k, what string, input map[string]interface{}) {
		if nv < 3 {
			nv++
			input["call"], input["nil_pattern"] = desc, patString(nc.gaps)
			viol(k, what, input)
		}
	}
	if fmt.Sprint(bbu) != fmt.Sprint(bbt) {
		report(key+"|bbox", fmt.Sprintf("%s: bounding box %v, but %v without the nil operands", desc, bbu, bbt), map[string]interface{}{})
	}
	// probe points (context 0: in the frame of the operands)
	var pts [][]float64
	if nc.context == 0 {
		for _, o := range nc.ops {
			pts = append(pts, o.probe...)
		}
	}
	pts = append(pts, boxProbes(ft.lo, ft.hi)...)
	ext := ft.ext()
	for i := 0; i < 40; i++ {
		p := make([]float64, ft.dim)
		for j := range p {
			w := ft.hi[j] - ft.lo[j]
			if !finite(w) {
				w = ext
			}
			p[j] = ft.lo[j] + rng.Uniform(-0.3, 1.3)*w
			if i%8 == 7 {
				p[j] = rng.Uniform(-3, 3) * ext
			}
		}
		pts = append(pts, p)
	}
	for _, p := range pts {
		if !finite(p...) {
			continue
		}
		gu, gt := fu.f(p), ft.f(p)
		if math.Float64bits(gu) != math.Float64bits(gt) && !(math.IsNaN(gu) && math.IsNaN(gt)) {
			report(fmt.Sprintf("%s@%s", key, pstr(p)), fmt.Sprintf("%s: Evaluate%s = %.17g, but the same call without the nil operands gives %.17g", desc, pstr(p), gu, gt),
				map[string]interface{}{"p": p, "value": gu, "without_nils": gt})
			continue
		}
		if exact && nc.ops[0].exact != nil {
			want := math.Inf(1)
			for _, o := range nc.ops {
				want = math.Min(want, o.exact(p))
			}
			if math.Abs(gu-want) > 1e-9*(1+math.Abs(want)+ext) {
				report(fmt.Sprintf("%s@%s", key, pstr(p)), fmt.Sprintf("%s: Evaluate%s = %.17g, but the smallest exact signed distance of its operands is %.17g", desc, pstr(p), gu, want),
					map[string]interface{}{"p": p, "value": gu, "exact": want})
			}
		}
	}
	// context 3 puts the union under a plain Union2D: its box pruning is claimed for operands whose value is at
	// least the distance to their own box (main.go pruneSound); a blended union bulges out of its box
	lipOK := !(nc.dim == 2 && nc.context == 3 && nc.blend > 0)
	for _, o := range nc.ops {
		lipOK = lipOK && o.lipOK
	}
	if lipOK && npairs > 0 {
		if hit, _ := searchLip(rng, fu, npairs); hit != nil {
			report(lipKey(fu, hit.p, hit.q), lipWhat(hit), map[string]interface{}{"p": hit.p, "q": hit.q})
		}
	}
}

// ---------------------------------------------------------------- the stratum

type corpusNilUnion struct {
	Name    string       `json:"name"`
	Circles [][3]float64 `json:"circles"` // x, y, r
	Gaps    []int        `json:"gaps"`
	Points  [][2]float64 `json:"points"`
}

func nilOperandStratum(c *Ctx, r *Report, viol func(key, what string, input map[string]interface{}), corpus []corpusNilUnion, corpusOnly bool) {
	rng := NewRng(mixSeed(c.Seed) ^ 0xab5e47)
	npairs := TierN(c.Tier, 240, 3000, 1500)
	for _, e := range corpus {
		nc := &nilCase{dim: 2, gaps: e.Gaps, src: 0, stratum: "nil-operands/corpus"}
		for _, ci := range e.Circles {
			ci := ci
			s, err := sdf.Circle2D(ci[2])
			if err != nil {
				continue
			}
			o := nilOp{s2: sdf.Transform2D(s, sdf.Translate2d(v2.Vec{X: ci[0], Y: ci[1]})), desc: fmt.Sprintf("Circle(%g)@(%g,%g)", ci[2], ci[0], ci[1]), lipOK: true}
			o.exact = func(p []float64) float64 { return math.Hypot(p[0]-ci[0], p[1]-ci[1]) - ci[2] }
			for _, q := range e.Points {
				o.probe = append(o.probe, []float64{q[0], q[1]})
			}
			nc.ops = append(nc.ops, o)
		}
		if len(nc.ops) >= 2 && len(nc.gaps) == len(nc.ops)+1 {
			nilRun(r, rng, viol, nc, npairs)
		}
	}
	if corpusOnly {
		return
	}
	g := &shapes.Gen{R: rng, Allow: listed}
	count := map[string]int{}
	for dim := 2; dim <= 3; dim++ {
		for pool := 0; pool < 2; pool++ {
			pn := []string{"exact-primitives", "random-trees"}[pool]
			for _, n := range []int{2, 3, 4, 5, 6} {
				reps := 1
				if c.Tier != "quick" {
					reps = 3
				}
				for rep := 0; rep < reps; rep++ {
					pats := nilPatterns(rng, n, n <= 3, TierN(c.Tier, 2, 8, 4))
					for pi, gaps := range pats {
						// a fresh operand layout for every pattern: near / overlapping / far apart
						spread := []float64{2, 6, 20}[rng.Intn(3)]
						nc := &nilCase{dim: dim, gaps: gaps, stratum: fmt.Sprintf("nil-operands/%dD/%s/n%d", dim, pn, n)}
						for len(nc.ops) < n {
							var o nilOp
							ok := true
							switch {
							case pool == 0 && dim == 2:
								o = nilExact2(rng, spread)
							case pool == 0:
								o = nilExact3(rng, spread)
							case dim == 2:
								o, ok = nilTree2(rng, g, spread)
							default:
								o, ok = nilTree3(rng, g, spread)
							}
							if ok {
								nc.ops = append(nc.ops, o)
							}
						}
						nc.src = []int{0, 0, -1, rng.Intn(len(nilSources))}[pi%4]
						if pi%5 == 3 {
							nc.blend = []float64{0.1, 0.5, 2}[rng.Intn(3)]
						}
						if pi%3 == 2 {
							nc.context = 1 + (pi/3)%4
							if nc.context == 4 && dim == 3 {
								nc.context = 3
							}
						}
						nilRun(r, rng, viol, nc, npairs)
						count[fmt.Sprintf("%dD/%s", dim, pn)]++
					}
				}
			}
		}
	}
	r.Coverage["nil_operand_unions"] = count
}
