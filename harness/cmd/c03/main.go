package main

// C03: exact primitives are Euclidean signed distances; compositions are 1-Lipschitz.

import (
	"fmt"
	"strings"

	"verifharness/exprgen"
	. "verifharness/kit"
	"verifharness/shapes"
)

func main() { Main("C03", check, exprgen.Gen) }

// the combinators the property lists (RotateCopy is claimed for symmetric operands only: corpus)
var listed = map[string]bool{
	"Circle": true, "Box2D": true, "Line2D": true, "Offset2": true, "Intersect2": true, "Difference2": true,
	"Cut2": true, "Transform2": true, "ScaleUniform2": true, "Array2": true, "RotateUnion2": true,
	"Elongate2": true, "Union2": true,
	"Sphere": true, "Box3D": true, "Cylinder": true, "Cone": true, "Revolve": true, "Extrude": true,
	"ExtrudeRounded": true, "Transform3": true, "ScaleUniform3": true, "Union3": true, "Difference3": true,
	"Intersect3": true, "Cut3": true, "Elongate3": true, "Array3": true, "RotateUnion3": true,
	"Offset3": true, "Shell3": true,
}

// inClass: the generated tree lies in the class C03_lipschitz is stated for
func inClass(cl shapes.Class, coq string) bool {
	return cl.Lipschitz && !strings.Contains(coq, "MinRound") && !strings.Contains(coq, "MinChamfer")
}

func check(c *Ctx, r *Report) error {
	rng := NewRng(mixSeed(c.Seed))
	g := &shapes.Gen{R: rng, Allow: listed}
	n3 := TierN(c.Tier, 300, 6000, 1500)
	n2 := TierN(c.Tier, 200, 4000, 1000)
	npairs := TierN(c.Tier, 1500, 4000, 6000)
	maxr := 0.0
	for k := 0; k < n3; k++ {
		t := g.Gen3(k%4 + 1)
		if !inClass(t.Cl, t.Coq) {
			continue
		}
		fd := field3(t.Go, t.Desc)
		hit, mr := searchLip(rng, fd, npairs)
		if mr > maxr {
			maxr = mr
		}
		key := "lip3:" + t.Desc
		r.Case("lip3/depth<="+fmt.Sprint(k%4+1), key, len(t.Cl.Ctors) >= 2)
		if hit != nil {
			r.Violate(key+"@"+pstr(hit.p)+"|"+pstr(hit.q),
				fmt.Sprintf("|f(p)-f(q)| = %g > |p-q| = %g (ratio %g): f(p)=%g f(q)=%g", abs(hit.fp-hit.fq), dist(hit.p, hit.q), hit.ratio, hit.fp, hit.fq),
				map[string]interface{}{"tree": t.Desc, "coq": t.Coq, "p": hit.p, "q": hit.q})
		}
	}
	for k := 0; k < n2; k++ {
		t := g.Gen2(k%4 + 1)
		if !inClass(t.Cl, t.Coq) {
			continue
		}
		fd := field2(t.Go, t.Desc)
		hit, mr := searchLip(rng, fd, npairs)
		if mr > maxr {
			maxr = mr
		}
		key := "lip2:" + t.Desc
		r.Case("lip2/depth<="+fmt.Sprint(k%4+1), key, len(t.Cl.Ctors) >= 2)
		if hit != nil {
			r.Violate(key+"@"+pstr(hit.p)+"|"+pstr(hit.q),
				fmt.Sprintf("|f(p)-f(q)| = %g > |p-q| = %g (ratio %g): f(p)=%g f(q)=%g", abs(hit.fp-hit.fq), dist(hit.p, hit.q), hit.ratio, hit.fp, hit.fq),
				map[string]interface{}{"tree": t.Desc, "coq": t.Coq, "p": hit.p, "q": hit.q})
		}
	}
	r.Coverage["max_lipschitz_ratio_seen"] = maxr
	return nil
}

// mixSeed spreads consecutive seeds (kit.NewRng(s) and NewRng(s+1) are the same stream shifted by one draw)
func mixSeed(s uint64) uint64 {
	z := s*0xD1342543DE82EF95 + 0x632BE59BD9B4E019
	z = (z ^ (z >> 32)) * 0xDABA0B6EB09322E3
	z = (z ^ (z >> 29)) * 0x9FB21C651E98DF25
	return z ^ (z >> 32)
}

func abs(x float64) float64 {
	if x < 0 {
		return -x
	}
	return x
}
