package main

// C03: exact primitives are Euclidean signed distances; every shape built from them with the listed
// combinators is 1-Lipschitz.
//   (a) exact-specification oracle for the primitives (oracle.go, prims.go; Coq side coq/Sdf/C03Corr.v)
//   (b) Lipschitz pair search on random expression trees of the claimed class (lip.go)
//   (c) corpus: witnesses of the refuted statements (known findings), replayed first

import (
	"encoding/json"
	"fmt"
	"math"
	"os"
	"path/filepath"
	"strings"

	"github.com/deadsy/sdfx/sdf"
	v2 "github.com/deadsy/sdfx/vec/v2"
	v3 "github.com/deadsy/sdfx/vec/v3"
	"verifharness/exprgen"
	. "verifharness/kit"
	"verifharness/sdfgen"
	"verifharness/shapes"
)

func main() { Main("C03", check, stateGen, exprgen.Gen, sdfgen.Gen) }

const imp = "From Sdfx Require Import Sdf.C03Corr.\nOpen Scope float_scope."

// the combinators the property lists (RotateCopy is claimed for mirror-symmetric operands only: corpus)
var listed = map[string]bool{
	"Circle": true, "Box2D": true, "Line2D": true, "Offset2": true, "Intersect2": true, "Difference2": true,
	"Cut2": true, "Transform2": true, "ScaleUniform2": true, "Array2": true, "RotateUnion2": true,
	"Elongate2": true, "Union2": true,
	"Sphere": true, "Box3D": true, "Cylinder": true, "Cone": true, "Revolve": true, "Extrude": true,
	"ExtrudeRounded": true, "Transform3": true, "ScaleUniform3": true, "Union3": true, "Difference3": true,
	"Intersect3": true, "Cut3": true, "Elongate3": true, "Array3": true, "RotateUnion3": true,
	"Offset3": true, "Shell3": true,
}

// mixSeed spreads consecutive seeds (kit.NewRng(s) and NewRng(s+1) are the same stream shifted by one draw)
func mixSeed(s uint64) uint64 {
	z := s*0xD1342543DE82EF95 + 0x632BE59BD9B4E019
	z = (z ^ (z >> 32)) * 0xDABA0B6EB09322E3
	z = (z ^ (z >> 29)) * 0x9FB21C651E98DF25
	return z ^ (z >> 32)
}

// hasInterior looks for a point of the operand's box with a negative value
func hasInterior(rng *Rng, s sdf.SDF2) bool {
	bb := s.BoundingBox()
	for _, c := range []float64{bb.Min.X, bb.Min.Y, bb.Max.X, bb.Max.Y} {
		if math.IsNaN(c) || math.IsInf(c, 0) {
			return false
		}
	}
	clampP := func(p v2.Vec) v2.Vec {
		return v2.Vec{X: math.Max(bb.Min.X, math.Min(bb.Max.X, p.X)), Y: math.Max(bb.Min.Y, math.Min(bb.Max.Y, p.Y))}
	}
	ext := math.Max(bb.Max.X-bb.Min.X, bb.Max.Y-bb.Min.Y)
	for i := 0; i < 48; i++ {
		p := v2.Vec{X: rng.Uniform(bb.Min.X, bb.Max.X), Y: rng.Uniform(bb.Min.Y, bb.Max.Y)}
		if i == 0 {
			p = bb.Center()
		}
		for it := 0; it < 12; it++ {
			f := s.Evaluate(p)
			if f < 0 {
				return true
			}
			h := 1e-6 * (ext + 1)
			gx := (s.Evaluate(v2.Vec{X: p.X + h, Y: p.Y}) - s.Evaluate(v2.Vec{X: p.X - h, Y: p.Y})) / (2 * h)
			gy := (s.Evaluate(v2.Vec{X: p.X, Y: p.Y + h}) - s.Evaluate(v2.Vec{X: p.X, Y: p.Y - h})) / (2 * h)
			g2 := gx*gx + gy*gy
			if g2 < 1e-12 || math.IsNaN(g2) {
				break
			}
			q := clampP(v2.Vec{X: p.X - 1.05*f*gx/g2, Y: p.Y - 1.05*f*gy/g2})
			if q == p {
				break
			}
			p = q
		}
	}
	return false
}

// pruneSound: every operand of every Union2D with the plain minimum meets the hypotheses of the box
// pruning (value >= distance to its own box, a point of its solid inside its box); lipwf requires it
func pruneSound(rng *Rng, n interface{}) bool {
	switch t := n.(type) {
	case *shapes.N2:
		if strings.HasPrefix(t.Desc, "Union2[MinDef](") {
			for _, k := range t.Kids {
				kk := k.(*shapes.N2)
				if !(kk.Cl.Lb || kk.Cl.LbInf) || !hasInterior(rng, kk.Go) {
					return false
				}
			}
		}
		for _, k := range t.Kids {
			if !pruneSound(rng, k) {
				return false
			}
		}
	case *shapes.N3:
		for _, k := range t.Kids {
			if !pruneSound(rng, k) {
				return false
			}
		}
	}
	return true
}

// inClass: the generated tree lies in the class C03_lipschitz is stated for
func inClass(cl shapes.Class, coq string) bool {
	return cl.Lipschitz && !strings.Contains(coq, "MinRound") && !strings.Contains(coq, "MinChamfer")
}

type corpusT struct {
	Pairs []struct {
		Witness string    `json:"witness"`
		P       []float64 `json:"p"`
		Q       []float64 `json:"q"`
	} `json:"lipschitz_pairs"`
	Offset []struct {
		Witness string    `json:"witness"`
		C       []float64 `json:"c"`
		Radius  float64   `json:"radius"`
	} `json:"offset_exactness"`
	Exact []struct {
		Kind string    `json:"kind"`
		A    []float64 `json:"a"`
		Len  float64   `json:"len"`
		P    []float64 `json:"p"`
	} `json:"exact_points"`
	// polygons replayed by the split-line stratum (splitline.go), unions with absent operands (nilops.go)
	Polygons  []corpusPolygon  `json:"polygons"`
	NilUnions []corpusNilUnion `json:"nil_unions"`
}

// witness trees of the refuted statements
func witness(name string) (*field, bool) {
	c2, _ := sdf.Circle2D(2)
	s2, _ := sdf.Sphere3D(2)
	switch name {
	case "rotatecopy2-halfdisc": // the Coq witness of rotatecopy_asymmetric_refuted
		return field2(sdf.RotateCopy2D(sdf.Cut2D(c2, v2.Vec{}, v2.Vec{X: 1}), 2), "RotateCopy2(Cut2(Circle(2),{0 0},{1 0}),2)"), true
	case "rotatecopy3-halfball":
		return field3(sdf.RotateCopy3D(sdf.Cut3D(s2, v3.Vec{}, v3.Vec{Y: -1}), 2), "RotateCopy3(Cut3(Sphere(2),{0 0 0},{0 -1 0}),2)"), true
	case "rotatecopy2-symmetric": // claimed class: operand mirror-symmetric about the x axis
		b := sdf.Transform2D(sdf.Box2D(v2.Vec{X: 1, Y: 0.5}, 0.125), sdf.Translate2d(v2.Vec{X: 1.5}))
		return field2(sdf.RotateCopy2D(b, 5), "RotateCopy2(Transform2(Box2D({1 0.5},0.125)@(1.5,0)),5)"), true
	case "rotatecopy3-symmetric":
		cy, _ := sdf.Cylinder3D(1, 0.25, 0.0625)
		b := sdf.Transform3D(cy, sdf.Translate3d(v3.Vec{X: 1.25}))
		return field3(sdf.RotateCopy3D(b, 7), "RotateCopy3(Transform3(Cylinder(1,0.25,0.0625)@(1.25,0,0)),7)"), true
	case "union2-empty-operand": // box pruning of Union2D over an operand with an empty solid (the Coq witness of union2_prune_refuted)
		b := sdf.Box2D(v2.Vec{X: 2, Y: 2}, 0)
		a := sdf.Intersect2D(sdf.Transform2D(b, sdf.Translate2d(v2.Vec{X: -2})), sdf.Transform2D(b, sdf.Translate2d(v2.Vec{X: 2})))
		c := sdf.Transform2D(b, sdf.Translate2d(v2.Vec{X: -10.5, Y: 11}))
		return field2(sdf.Union2D(a, c), "Union2[MinDef](Intersect2[MaxDef](Box2D({2 2},0)@(-2,0),Box2D({2 2},0)@(2,0)),Box2D({2 2},0)@(-10.5,11))"), true
	case "offset-two-boxes": // non-convex exact operand: two walls of a slot of half width 0.5
		b := sdf.Box2D(v2.Vec{X: 1, Y: 20}, 0)
		u := sdf.Union2D(sdf.Transform2D(b, sdf.Translate2d(v2.Vec{X: -1})), sdf.Transform2D(b, sdf.Translate2d(v2.Vec{X: 1})))
		return field2(sdf.Offset2D(u, 0.6), "Offset2(Union2[MinDef](Box2D({1 20},0)@(-1,0),Box2D({1 20},0)@(1,0)),0.6)"), true
	}
	return nil, false
}

func lipKey(fd *field, p, q []float64) string {
	return fmt.Sprintf("lip%d:%s@%s|%s", fd.dim, fd.desc, pstr(p), pstr(q))
}
func lipWhat(h *pairHit) string {
	return fmt.Sprintf("not 1-Lipschitz: |f(p)-f(q)| = %g > |p-q| = %g (ratio %.6g); f(p)=%.17g f(q)=%.17g",
		math.Abs(h.fp-h.fq), dist(h.p, h.q), h.ratio, h.fp, h.fq)
}

// replayT is the part of a replay file (written by the driver) this harness reads back
type replayT struct {
	Failing []struct {
		Key   string `json:"key"`
		Input struct {
			Seed uint64 `json:"seed"`
			Tier string `json:"tier"`
		} `json:"input"`
	} `json:"failing_inputs"`
}

func check(c *Ctx, r *Report) error {
	// --replay: re-run with the recorded seed and tier and report only the recorded inputs
	var only map[string]bool
	if c.Replay != "" {
		var rp replayT
		b, err := os.ReadFile(c.Replay)
		if err != nil {
			return err
		}
		if err := json.Unmarshal(b, &rp); err != nil {
			return err
		}
		only = map[string]bool{}
		for _, f := range rp.Failing {
			only[f.Key] = true
			if f.Input.Seed != 0 {
				c.Seed, r.Seed = f.Input.Seed, f.Input.Seed
			}
			if f.Input.Tier != "" {
				c.Tier, r.Tier = f.Input.Tier, f.Input.Tier
			}
		}
	}
	inCorpus := true // the corpus (known findings, regression inputs) is always replayed and reported
	viol := func(key, what string, input map[string]interface{}) {
		if only != nil && !only[key] && !inCorpus {
			return
		}
		input["seed"], input["tier"] = c.Seed, c.Tier
		r.Violate(key, what, input)
	}
	rng := NewRng(mixSeed(c.Seed))
	cases := &Cases{Kind: "prim", Imports: imp, Type: "case", Fn: "mismatches", InfoFn: "inexact", PerShard: 250}
	id := 0
	regions := map[string]int{}

	// ---- one primitive at one point: Go oracle, and a Coq case when rho is exactly representable
	onePoint := func(p *prim, ev func(x, y, z float64) float64, q pt, stratum string) {
		g := ev(q.x, q.y, q.z)
		s, d2, rhoExact, rhoF, ok := p.spec(q.x, q.y, q.z)
		if !ok {
			return
		}
		scale := math.Abs(q.x) + math.Abs(q.y) + math.Abs(q.z)
		for _, a := range p.a {
			scale += math.Abs(a)
		}
		// exact regime: dyadic parameters and point, and the distance is along an axis (no square root of an inexact sum)
		exact := false
		if isDyadicPrim(p) && q.x*4096 == math.Floor(q.x*4096) && q.y*4096 == math.Floor(q.y*4096) && q.z*4096 == math.Floor(q.z*4096) && scale < 1e5 {
			exact = exactRegime(p, q, rhoExact)
		}
		key := fmt.Sprintf("exact:%s@(%.17g,%.17g,%.17g)", p.desc(), q.x, q.y, q.z)
		r.Case("exact/"+p.kind+"/"+stratum, key, true)
		regions[p.kind+"/"+q.stratum]++
		v := judge(s, d2, p.round(), g, scale, exact)
		if !v.ok {
			viol(key, v.what, map[string]interface{}{"primitive": p.kind, "params": p.a, "point": []float64{q.x, q.y, q.z}, "value": g, "exact_regime": exact})
		}
		if rhoExact {
			id++
			cases.Add(fmt.Sprintf("(%d%%N, %s, (%s,%s,%s), %s, %s, %s, %s)", id, p.coq(), CF(q.x), CF(q.y), CF(q.z), CF(rhoF), CF(g), CB(exact), CF(scale)))
			if id%211 == 0 {
				r.Sample(map[string]interface{}{"id": id, "primitive": p.desc(), "point": []float64{q.x, q.y, q.z}, "value": g, "stratum": q.stratum})
			}
		}
	}

	// C03_FIND=<witness>: print a violating pair of a witness tree (used once to fill the corpus)
	if w := os.Getenv("C03_FIND"); w != "" {
		if fd, ok := witness(w); ok {
			hit, mr := searchLip(rng, fd, 400000)
			if hit != nil {
				b, _ := json.Marshal(map[string]interface{}{"witness": w, "p": hit.p, "q": hit.q})
				fmt.Println(string(b), lipWhat(hit))
			} else {
				fmt.Println("no violating pair; max ratio", mr)
			}
		}
	}
	// ---- corpus first
	var cp corpusT
	if b, err := os.ReadFile(filepath.Join(c.Verif, "corpus", "C03.json")); err == nil {
		if err := json.Unmarshal(b, &cp); err != nil {
			return err
		}
	}
	for _, e := range cp.Exact {
		p := &prim{kind: e.Kind, a: e.A, len: e.Len}
		ev, err := p.build()
		if err != nil {
			return fmt.Errorf("corpus primitive %s: %v", p.desc(), err)
		}
		q := pt{e.P[0], e.P[1], 0, "corpus"}
		if len(e.P) > 2 {
			q.z = e.P[2]
		}
		onePoint(p, ev, q, "corpus")
	}
	for _, e := range cp.Pairs {
		fd, ok := witness(e.Witness)
		if !ok {
			return fmt.Errorf("corpus: unknown witness %q", e.Witness)
		}
		key := lipKey(fd, e.P, e.Q)
		r.Case("corpus/pair/"+e.Witness, key, true)
		ex, ratio, fp, fq := fd.excess(e.P, e.Q, fd.ext())
		if ex > 0 {
			viol(key, lipWhat(&pairHit{e.P, e.Q, fp, fq, ratio, ex}), map[string]interface{}{"witness": e.Witness, "tree": fd.desc, "p": e.P, "q": e.Q})
		}
	}
	for _, e := range cp.Offset {
		fd, ok := witness(e.Witness)
		if !ok {
			return fmt.Errorf("corpus: unknown witness %q", e.Witness)
		}
		key := fmt.Sprintf("offset-exact:%s@%s", fd.desc, pstr(e.C))
		r.Case("corpus/offset/"+e.Witness, key, true)
		// exactness at c: some point with the opposite sign (or zero) within |f(c)| * (1 + 1e-6); searched up to `radius`
		fc := fd.f(e.C)
		nearest := math.Inf(1)
		for k := 0; k < 200000; k++ {
			rr := e.Radius * math.Sqrt(rng.Float())
			a := rng.Uniform(0, 2*math.Pi)
			q := []float64{e.C[0] + rr*math.Cos(a), e.C[1] + rr*math.Sin(a)}
			if fd.f(q)*fc <= 0 && rr < nearest {
				nearest = rr
			}
		}
		if nearest > math.Abs(fc)*(1+1e-6)+1e-9 {
			viol(key, fmt.Sprintf("not the Euclidean distance: Evaluate = %.17g at %v but no point of the surface within %g (the nearest sign change found within radius %g is at %g)",
				fc, e.C, math.Abs(fc)*1.000001, e.Radius, nearest), map[string]interface{}{"witness": e.Witness, "tree": fd.desc, "c": e.C})
		}
	}
	// the claimed side of RotateCopy: symmetric operands
	for _, w := range []string{"rotatecopy2-symmetric", "rotatecopy3-symmetric"} {
		fd, _ := witness(w)
		hit, _ := searchLip(rng, fd, TierN(c.Tier, 6000, 60000, 20000))
		r.Case("lip/rotatecopy-symmetric", "lip:"+fd.desc, true)
		if hit != nil {
			viol(lipKey(fd, hit.p, hit.q), lipWhat(hit), map[string]interface{}{"tree": fd.desc, "p": hit.p, "q": hit.q})
		}
	}

	// regression inputs of past mutations: polygons with edges on their quadtree's split lines, unions with nil operands
	splitLineStratum(c, r, viol, cp.Polygons, true)
	nilOperandStratum(c, r, viol, cp.NilUnions, true)

	inCorpus = false
	// ---- (a) primitives
	nprims := TierN(c.Tier, 14, 120, 40)
	npts := TierN(c.Tier, 34, 64, 48)
	for _, p := range genPrims(rng, nprims) {
		ev, err := p.build()
		if err != nil {
			continue // rejected parameter vector (the constructors validate): not a case
		}
		for _, q := range genPoints(rng, p, npts) {
			onePoint(p, ev, q, "generated")
		}
	}
	if err := cases.Write(c.Out); err != nil {
		return err
	}

	// ---- (b) Lipschitz pair search on random trees of the claimed class
	g := &shapes.Gen{R: rng, Allow: listed}
	n3 := TierN(c.Tier, 260, 6000, 1500)
	n2 := TierN(c.Tier, 200, 4000, 1000)
	npairs := TierN(c.Tier, 1500, 4000, 6000)
	maxr := 0.0
	ctors := map[string]int{}
	skipped := map[string]int{}
	run := func(fd *field, cl shapes.Class, coq string, stratum string, tree interface{}) {
		if !inClass(cl, coq) {
			skipped["blend-or-unlisted"]++
			return
		}
		if !pruneSound(rng, tree) {
			skipped["union2-pruning-hypotheses"]++
			return
		}
		hit, mr := searchLip(rng, fd, npairs)
		if mr > maxr {
			maxr = mr
		}
		for k, v := range cl.Ctors {
			ctors[k] += v
		}
		r.Case(stratum, fmt.Sprintf("lip%d:%s", fd.dim, fd.desc), len(cl.Ctors) >= 2)
		if hit != nil {
			viol(lipKey(fd, hit.p, hit.q), lipWhat(hit), map[string]interface{}{"tree": fd.desc, "coq": coq, "p": hit.p, "q": hit.q})
		}
	}
	for k := 0; k < n3; k++ {
		t := g.Gen3(k%4 + 1)
		run(field3(t.Go, t.Desc), t.Cl, t.Coq, "lip3/depth<="+fmt.Sprint(k%4+1), t)
	}
	for k := 0; k < n2; k++ {
		t := g.Gen2(k%4 + 1)
		run(field2(t.Go, t.Desc), t.Cl, t.Coq, "lip2/depth<="+fmt.Sprint(k%4+1), t)
	}
	r.Coverage["max_lipschitz_ratio_seen"] = maxr
	r.Coverage["constructor_histogram"] = ctors
	r.Coverage["trees_outside_claimed_class"] = skipped
	r.Coverage["primitive_regions"] = regions
	r.Coverage["coq_cases"] = cases.Len()
	polygonStratum(c, r, rng)
	splitLineStratum(c, r, viol, nil, false)
	shortEdgeStratum(c, r, viol)
	nilOperandStratum(c, r, viol, nil, false)
	r.Rule = "primitives: parameter vectors in a dyadic-exact and a random regime (rounding 0 / 2^-20 / half / admissible maximum, radius 0, length 0, capsule, pointed cones, rational (Pythagorean) and irrational cone slopes) x points placed by construction in every branch region (27 box regions, the cone's above/below/inside/slope/rim regions, medial axes, rotation axis, exactly on faces/planes/vertices, far away); each Evaluate compared with an exact rational specification in Go (all points) and in Coq at QOps together with the FOps model (points whose rho is exactly representable). Lipschitz: random trees (depth <= 4) over the listed combinators, " + fmt.Sprint(npairs) + " probe pairs each (segments, near-coincident pairs, pairs straddling coordinate planes, box faces, the rotation axis and sector boundaries), violating pairs bisected. POLYGON on its quadtree's split lines (splitline.go): rectilinear skylines filling the bounding box from each of the four sides with breakpoints ON (and 0..3 ulp / 1e-12..1e-7 next to) split lines of every level - risers and treads shorter than a cell, starting on grid crossings, ending on the bounding box, spanning cells -, staircases with risers and treads on the lines (short, 1 cell, 2 cells), steps / U shapes on the centre and level-2 lines in 4 rotations, star-shaped polygons with vertices on lines and crossings, convex hulls of grid crossings (oblique edges through corners of four cells), both orientations, boxes at the origin / off the origin / irrational / 1e-3 / 1e5; query points = full grid {vertex xs, every quadtree box edge, bounding box, 2.5 and 10 sizes away} x {same for y} plus the rows and columns midway between consecutive levels; oracles: exact rational signed distance (crossing-number parity, exact squared distance) at every grid point, |f(p)-f(q)| <= |p-q| for all neighbouring grid points and random probe pairs. POLYGON with very short edges (shortedge.go): edge length / extent in {1e-9, 1e-10, 1e-12, 1e-15} x extent in {1e-3, 1, 1e3, 1e6}, the short edge a jog (8 directions), a chamfered corner (one, several, all), a collinear split, as first / last / closing edge of the list, both orientations, and whole polygons 1e-10 .. 1e-15 across at and off the origin; specification from the VERTEX LIST only (exact rational crossing number and squared distance); Polygon2D on the grid of vertex levels / mid levels / far columns and on probes level with both ends of every short edge (and 1 ulp above / below, midway) 10 and 1e6 extents away, inside the extent and a few edge lengths away, Lipschitz between neighbouring levels and random pairs; Mesh2D and Mesh2DSlow on a segment list built in the harness, at the probes; a constructor rejecting such a simple polygon is a violation. ABSENT OPERANDS (nilops.go): Union2D / Union3D calls with nil arguments in every position (every subset of the gaps for 2 and 3 operands; leading / each interior gap / trailing / everywhere and random runs of 1..3 for 4..6 operands), the nil a literal or what Multi / LineOf / Array / Intersect / Difference / Union / Orient return for an empty list or a nil operand; operands = translated exact primitives (exact rational minimum of the operands' signed distances as reference) or random trees of the claimed class; plain minimum and PolyMin; alone, under Transform / Offset / Extrude and inside an outer union with nils of its own; value and bounding box bit for bit those of the same call without the nils, 1-Lipschitz pair search on the shape built with the nils. non-trivial = every primitive case; trees with >= 2 distinct constructors. distinct by primitive+point / tree description."
	r.Trusted = append(r.Trusted,
		"hand model coq/Sdf/Shape.v tied by differential execution at FOps (here on region-targeted points, in C01 on random trees); matrix code translated from the Go AST by harness/exprgen on every run",
		"the Go re-implementation of the specification (cmd/c03/oracle.go) is only used for points whose rho is not a float; all other points are judged by coqc")
	r.Assumptions = append(r.Assumptions,
		"theorems are over the reals; float64 rounding is measured (tolerance 1e-12 of the scale; exact equality in the dyadic regime along axes), not proved",
		"Union2D with the plain minimum is claimed 1-Lipschitz only under the hypotheses of its box pruning (operand values at least the distance to their own boxes, operands non-empty): generated trees violating them are not searched (counted in trees_outside_claimed_class)",
		"polygon exactness belongs to C04; that the crossing-number interior is the topological interior (Jordan) is not proved")
	return nil
}

// exactRegime: the Go result must equal the rational specification exactly
func exactRegime(p *prim, q pt, rhoExact bool) bool {
	pos := func(ds ...float64) int {
		n := 0
		for _, d := range ds {
			if d > 0 {
				n++
			}
		}
		return n
	}
	switch p.kind {
	case "circle":
		_, _, ex := rhoRat(q.x, q.y)
		return ex
	case "sphere":
		n := math.Sqrt(q.x*q.x + q.y*q.y + q.z*q.z)
		return rsq(rat(n)).Cmp(radd(radd(rsq(rat(q.x)), rsq(rat(q.y))), rsq(rat(q.z)))) == 0
	case "box2":
		return pos(math.Abs(q.x)-(p.a[0]/2-p.a[2]), math.Abs(q.y)-(p.a[1]/2-p.a[2])) <= 1
	case "box3":
		return pos(math.Abs(q.x)-(p.a[0]/2-p.a[3]), math.Abs(q.y)-(p.a[1]/2-p.a[3]), math.Abs(q.z)-(p.a[2]/2-p.a[3])) <= 1
	case "line2":
		return math.Abs(q.x) <= p.a[0]/2 || q.y == 0
	case "cyl":
		rho := math.Sqrt(q.x*q.x + q.y*q.y)
		return rhoExact && pos(rho-(p.a[1]-p.a[2]), math.Abs(q.z)-(p.a[0]/2-p.a[2])) <= 1
	case "cone":
		// only the cap regions of the unrounded cone are free of normalised quantities
		rho := math.Sqrt(q.x*q.x + q.y*q.y)
		sh := p.a[0] / 2
		return rhoExact && p.a[3] == 0 && ((q.z >= sh && rho <= p.a[2]) || (q.z <= -sh && rho <= p.a[1]))
	}
	return false
}
