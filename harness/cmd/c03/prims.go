package main

// Generators: primitive parameter vectors (dyadic-exact regime and random 53-bit regime, rounding radii
// 0 / tiny / half / admissible maximum, degenerate-but-valid sizes) and points that hit every branch
// region by construction.

import (
	"fmt"
	"math"

	. "verifharness/kit"
)

type pt struct {
	x, y, z float64
	stratum string
}

const tiny = 1.0 / (1 << 20)

func dy8(rng *Rng, lo, hi int) float64 { return float64(rng.Range(lo, hi)) / 8 }

// roundings: 0, tiny, half of the maximum, the admissible maximum
func roundings(max float64) []float64 {
	if max <= 0 {
		return []float64{0}
	}
	return []float64{0, math.Min(tiny, max), max / 2, max}
}

// genPrims returns the primitives of one run
func genPrims(rng *Rng, n int) []*prim {
	var ps []*prim
	add := func(kind string, len float64, a ...float64) { ps = append(ps, &prim{kind: kind, a: a, len: len}) }
	pyth := [][3]float64{{3, 4, 5}, {4, 3, 5}, {-3, 4, 5}, {-4, 3, 5}, {5, 12, 13}, {-5, 12, 13}, {0, 1, 1}, {8, 15, 17}, {-12, 5, 13}}
	for k := 0; k < n; k++ {
		dy := k%3 != 2
		sz := func() float64 {
			if dy {
				return float64(rng.Range(1, 24)) / 4
			}
			return rng.Uniform(0.05, 6)
		}
		// circle, sphere (radius 0 is a valid circle)
		r := sz()
		if k%7 == 0 {
			add("circle", 0, 0)
		} else {
			add("circle", 0, r)
		}
		add("sphere", 0, sz())
		// 2D box
		sx, sy := sz(), sz()
		for _, rd := range roundings(math.Min(sx, sy) / 2) {
			if k%4 == 0 || rd == 0 || rng.Intn(3) == 0 {
				add("box2", 0, sx, sy, rd)
			}
		}
		// 2D line
		l := sz()
		if k%9 == 0 {
			l = 0
		}
		add("line2", 0, l, []float64{0, tiny, sz() / 4, sz()}[rng.Intn(4)])
		// 3D box
		bx, by, bz := sz(), sz(), sz()
		for _, rd := range roundings(math.Min(bx, math.Min(by, bz)) / 2) {
			if k%4 == 0 || rd == 0 || rng.Intn(3) == 0 {
				add("box3", 0, bx, by, bz, rd)
			}
		}
		// cylinder; round = radius is the capsule
		h, cr := sz(), sz()
		for _, rd := range roundings(math.Min(cr, h/2)) {
			if k%4 == 0 || rd == 0 || rng.Intn(3) == 0 {
				add("cyl", 0, h, cr, rd)
			}
		}
		if h >= 2*cr {
			add("cyl", 0, h, cr, cr)
		} else {
			add("cyl", 0, 2*cr+sz(), cr, cr)
		}
		// cone: rational slope (Pythagorean) or random
		var ch, r0, r1, ln float64
		if k%4 != 3 {
			t := pyth[rng.Intn(len(pyth))]
			kk := float64(rng.Range(1, 12)) / 8
			if !dy {
				kk = rng.Uniform(0.05, 1.5)
			}
			ch = t[1] * kk
			ln = t[2] * kk
			base := 0.0
			if rng.Intn(4) != 0 {
				base = float64(rng.Range(0, 16)) / 8
			}
			if t[0] >= 0 {
				r0, r1 = base, base+t[0]*kk
			} else {
				r1, r0 = base, base-t[0]*kk
			}
			// the products must be exact for the length to be the exact norm
			if rsq(rat(ln)).Cmp(radd(rsq(rsub(rat(r1), rat(r0))), rsq(rat(ch)))) != 0 {
				ln = 0
			}
		} else {
			ch, r0, r1 = sz(), sz()*0.7, sz()*0.7
			if rng.Intn(4) == 0 {
				r1 = 0
			}
		}
		L := math.Hypot(r1-r0, ch)
		ux, uy := (r1-r0)/L, ch/L
		maxr := ch / 2
		if 1-ux > 1e-12 {
			maxr = math.Min(maxr, r0*uy/(1-ux))
		}
		if 1+ux > 1e-12 {
			maxr = math.Min(maxr, r1*uy/(1+ux))
		}
		maxr *= 1 - 1.0/(1<<16) // stay strictly admissible under rounding of the stored inset radii
		if dy && maxr > 0 {
			maxr = math.Floor(maxr*256) / 256
		}
		for _, rd := range roundings(maxr) {
			if k%4 == 0 || rd == 0 || rng.Intn(3) == 0 {
				add("cone", ln, ch, r0, r1, rd)
			}
		}
	}
	return ps
}

// ---------------------------------------------------------------- points

// coordinate relative to a threshold s >= 0: class 0 inside, 1 exactly on, 2 outside
func axisVal(rng *Rng, s float64, class int, dy bool) float64 {
	sg := 1.0
	if rng.Bool() {
		sg = -1
	}
	switch class {
	case 0:
		if s <= 0 {
			return 0
		}
		if dy {
			return sg * s * float64(rng.Range(0, 15)) / 16
		}
		return sg * s * rng.Float()
	case 1:
		return sg * s
	}
	if dy {
		return sg * (s + float64(rng.Range(1, 40))/8)
	}
	return sg * (s + rng.Uniform(1e-9, 4))
}

func isDyadicPrim(p *prim) bool {
	for _, a := range p.a {
		if a*1024 != math.Floor(a*1024) && a != tiny {
			return false
		}
	}
	return true
}

// the inset half sizes / radii as the Go constructors compute them
func coneFields(p *prim) (sh, sr0, sr1, ux, uy float64) {
	h, r0, r1, rd := p.a[0], p.a[1], p.a[2], p.a[3]
	sh = h/2 - rd
	dx, dyy := r1-r0, h/2-(-h/2)
	l := math.Sqrt(dx*dx + dyy*dyy)
	ux, uy = dx*(1/l), dyy*(1/l)
	nx, ny := uy, -ux
	ofs := rd / nx
	sr0 = r0 - (1+ny)*ofs
	sr1 = r1 - (1-ny)*ofs
	return
}

// lift a meridian point (rho, z) to 3D: on the x axis, the negative y axis, a Pythagorean direction, a random direction
func lift(rng *Rng, rho, z float64, stratum string, out *[]pt) {
	switch rng.Intn(5) {
	case 0:
		*out = append(*out, pt{rho, 0, z, stratum + "/dir=+x"})
	case 1:
		*out = append(*out, pt{0, -rho, z, stratum + "/dir=-y"})
	case 2:
		*out = append(*out, pt{-rho, 0, z, stratum + "/dir=-x"})
	case 3:
		a := rho / 5
		*out = append(*out, pt{-3 * a, 4 * a, z, stratum + "/dir=3-4-5"})
	default:
		f := rng.Uniform(0, 2*math.Pi)
		*out = append(*out, pt{rho * math.Cos(f), rho * math.Sin(f), z, stratum + "/dir=random"})
	}
}

func genPoints(rng *Rng, p *prim, n int) []pt {
	var out []pt
	dy := isDyadicPrim(p)
	far := func() float64 { return []float64{1e3, -1e4, 65536, -1e6}[rng.Intn(4)] }
	switch p.kind {
	case "circle", "sphere":
		r := p.a[0]
		for i := 0; i < n; i++ {
			var q pt
			switch i % 8 {
			case 0:
				q = pt{0, 0, 0, "centre"}
			case 1: // exactly on the surface, on an axis
				q = pt{0, -r, 0, "on-surface/axis"}
				if p.kind == "sphere" && rng.Bool() {
					q = pt{0, 0, r, "on-surface/axis"}
				}
			case 2: // exactly representable norm
				a := dy8(rng, 1, 40)
				q = pt{3 * a, -4 * a, 0, "pythagorean"}
				if p.kind == "sphere" && rng.Bool() {
					q = pt{2 * a, -3 * a, 6 * a, "pythagorean"} // norm 7a
				}
			case 3:
				q = pt{far(), far(), far(), "far"}
			case 4: // just inside / outside the surface
				f := rng.Uniform(0, 2*math.Pi)
				rr := r * (1 + []float64{1e-15, -1e-15, 1e-9, -1e-9, 1e-3, -1e-3}[rng.Intn(6)])
				q = pt{rr * math.Cos(f), rr * math.Sin(f), 0, "near-surface"}
			default:
				q = pt{rng.Uniform(-2, 2) * (r + 0.5), rng.Uniform(-2, 2) * (r + 0.5), rng.Uniform(-2, 2) * (r + 0.5), "random"}
				if dy && rng.Bool() {
					q = pt{rng.Dyadic(6, 3), rng.Dyadic(6, 3), rng.Dyadic(6, 3), "dyadic"}
				}
			}
			if p.dim() == 2 {
				q.z = 0
			}
			out = append(out, q)
		}
	case "box2", "box3":
		d := p.dim()
		rd := p.a[d]
		in := make([]float64, 3)
		for i := 0; i < d; i++ {
			in[i] = p.a[i]/2 - rd
		}
		nreg := 9
		if d == 3 {
			nreg = 27
		}
		for i := 0; i < n; i++ {
			var c [3]float64
			st := ""
			switch {
			case i%(nreg+5) < nreg: // every combination of inside / on / outside per axis, relative to the inset box
				reg := i % (nreg + 5)
				for a := 0; a < d; a++ {
					cl := reg % 3
					reg /= 3
					c[a] = axisVal(rng, in[a], cl, dy)
					st += fmt.Sprint(cl)
				}
				st = "region=" + st
			case i%(nreg+5) == nreg: // medial axis of the inset box: equal negative offsets
				m := math.Min(in[0], in[1])
				if d == 3 {
					m = math.Min(m, in[2])
				}
				t := m * float64(rng.Range(0, 16)) / 16
				for a := 0; a < d; a++ {
					c[a] = in[a] - t
					if rng.Bool() {
						c[a] = -c[a]
					}
				}
				st = "medial-axis"
			case i%(nreg+5) == nreg+1: // exactly on the rounded surface, along an axis
				a := rng.Intn(d)
				for b := 0; b < d; b++ {
					c[b] = axisVal(rng, in[b], 0, dy)
				}
				c[a] = p.a[a] / 2
				st = "on-surface/face"
			case i%(nreg+5) == nreg+2: // outer vertex direction of the rounded box
				for a := 0; a < d; a++ {
					c[a] = in[a] + rd*float64(rng.Range(0, 8))/8
					if rng.Bool() {
						c[a] = -c[a]
					}
				}
				st = "rounded-corner"
			case i%(nreg+5) == nreg+3:
				for a := 0; a < d; a++ {
					c[a] = far()
				}
				st = "far"
			default:
				for a := 0; a < d; a++ {
					c[a] = rng.Uniform(-1.5, 1.5) * (p.a[a] + 0.5)
				}
				st = "random"
			}
			out = append(out, pt{c[0], c[1], c[2], st})
		}
	case "line2":
		sl := p.a[0] / 2
		for i := 0; i < n; i++ {
			cl := i % 3
			x := axisVal(rng, sl, cl, dy)
			var y float64
			switch (i / 3) % 5 {
			case 0:
				y = 0
			case 1:
				y = p.a[1]
			case 2:
				y = -p.a[1] * float64(rng.Range(1, 7)) / 8
			case 3:
				y = rng.Dyadic(4, 3)
			default:
				y = rng.Uniform(-3, 3)
			}
			st := fmt.Sprintf("xclass=%d/yclass=%d", cl, (i/3)%5)
			if i%17 == 16 {
				x, y, st = far(), far(), "far"
			}
			out = append(out, pt{x, y, 0, st})
		}
	case "cyl":
		rd := p.a[2]
		sr, sh := p.a[1]-rd, p.a[0]/2-rd
		for i := 0; i < n; i++ {
			reg := i % 14
			var rho, z float64
			st := ""
			switch {
			case reg < 9:
				cr, cz := reg%3, reg/3
				rho = math.Abs(axisVal(rng, sr, cr, dy))
				z = axisVal(rng, sh, cz, dy)
				st = fmt.Sprintf("region=%d%d", cr, cz)
			case reg == 9:
				rho, z, st = 0, axisVal(rng, sh, rng.Intn(3), dy), "on-axis"
			case reg == 10:
				m := math.Min(sr, sh) * float64(rng.Range(0, 16)) / 16
				rho, z, st = sr-m, sh-m, "medial-axis"
				if rng.Bool() {
					z = -z
				}
			case reg == 11:
				rho, z, st = p.a[1], axisVal(rng, sh, 0, dy), "on-surface/side"
			case reg == 12:
				rho, z, st = math.Abs(far()), far(), "far"
			default:
				rho, z, st = rng.Uniform(0, 2)*(p.a[1]+0.5), rng.Uniform(-1.5, 1.5)*(p.a[0]+0.5), "random"
			}
			lift(rng, rho, z, st, &out)
		}
	case "cone":
		sh, sr0, sr1, ux, uy := coneFields(p)
		nx, ny := uy, -ux
		rd := p.a[3]
		l := math.Hypot(sr1-sr0, 2*sh)
		pos := func() float64 {
			if dy {
				return float64(rng.Range(1, 32)) / 8
			}
			return []float64{1e-9, 1e-4, 0.1, 1, 3}[rng.Intn(5)] * rng.Uniform(0.5, 1)
		}
		for i := 0; i < n; i++ {
			var rho, z float64
			st := ""
			switch i % 16 {
			case 0: // above the top face
				rho, z, st = sr1*float64(rng.Range(0, 16))/16, sh+pos(), "region=above-top"
			case 1: // exactly level with the top face of the inset cone / on the top surface
				rho, z, st = sr1*float64(rng.Range(0, 16))/16, sh, "region=on-top-plane"
				if rng.Bool() {
					z = p.a[0] / 2
				}
			case 2:
				rho, z, st = sr0*float64(rng.Range(0, 16))/16, -sh-pos(), "region=below-base"
			case 3:
				rho, z, st = sr0*float64(rng.Range(0, 16))/16, -sh, "region=on-base-plane"
			case 4, 5: // inside: a fraction of the slope radius at that height
				t := float64(rng.Range(1, 15)) / 16
				z = -sh + t*2*sh
				rs := sr0 + t*(sr1-sr0)
				rho, st = rs*float64(rng.Range(0, 16))/16, "region=inside"
			case 6: // inside, equidistant from slope and a cap (medial axis): walk from the rim vertex along the bisector
				bx, bz := -nx, -ny+1.0 // inward from V0: -(n) + (0,1)
				k := 0.2 * math.Min(sh, math.Max(sr0, 1e-3)) * rng.Float()
				rho, z, st = sr0+k*bx, -sh+k*bz, "region=inside/medial"
			case 7, 8: // nearest to the slope: V0 + t U + s n
				t := float64(rng.Range(1, 15)) / 16
				s := pos()
				rho, z, st = sr0+t*(sr1-sr0)+s*nx, -sh+t*2*sh+s*ny, "region=slope"
			case 9: // nearest to the base rim: V0 + a n + b (0,-1)
				a, b := pos(), pos()
				rho, z, st = sr0+a*nx, -sh+a*ny-b, "region=base-rim"
			case 10: // exactly at the rim vertices of the inset cone
				if rng.Bool() {
					rho, z, st = sr0, -sh, "region=at-base-rim"
				} else {
					rho, z, st = sr1, sh, "region=at-top-rim"
				}
			case 11:
				a, b := pos(), pos()
				rho, z, st = sr1+a*nx, sh+a*ny+b, "region=top-rim"
			case 12:
				rho, z, st = 0, rng.Uniform(-1.5, 1.5)*(p.a[0]+0.2), "on-axis"
			case 13:
				rho, z, st = math.Abs(far()), far(), "far"
			case 14: // on the rounded surface above the top face
				rho, z, st = sr1*float64(rng.Range(0, 16))/16, sh+rd, "on-surface/top"
			default:
				rho, z, st = rng.Uniform(0, 2)*(math.Max(p.a[1], p.a[2])+0.5), rng.Uniform(-1.5, 1.5)*(p.a[0]+0.5), "random"
			}
			_ = l
			if rho < 0 {
				rho = -rho
			}
			lift(rng, rho, z, st, &out)
		}
	}
	return out
}
