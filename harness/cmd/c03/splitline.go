package main

// C03, polygon stratum, the SPLIT-LINE dimension (added after mutation C03e-m1: the special cases of
// Box2.lineIntersect that reject a segment lying along a cell's top / right edge were removed, so a
// short vertical polygon edge lying exactly on a quadtree split line was stored in both neighbouring
// leaves and counted twice: Evaluate = -d at exterior points level with that edge.  The polygons of
// polygon.go have no edge on a split line of their own quadtree and no query point far outside the
// bounding box level with the inside of a short edge).
//
// Polygon2D/Mesh2D evaluates through a quadtree over the 1.01-scaled square around the bounding box.
// Which leaf owns a segment is decided by comparisons with the cell edges, so the measure-zero set
// "an edge / a vertex lies exactly on a split line" is where the primitive's closed form branches.
// The families (generators copied from harness/cmd/c04, which owns the model of the quadtree; the
// skyline family is new):
//   skyline   rectilinear polygon filling its bounding box from one of the four sides, whose free
//             profile is a step function with the breakpoints ON split lines of every level (or 0,
//             +-1..3 ulp, +-1e-12..1e-7 next to them): risers shorter than a cell (strictly inside a
//             cell edge, starting at a grid crossing, ending on the bounding box), risers spanning
//             cells, treads on split lines, collinear vertices on split lines; both orientations
//   stairs    staircases whose risers AND treads lie on the lines: short, spanning exactly 1 / 2 cells
//   step / u  edges on the centre line and on the level-2 lines of an origin-centred square, 4 rotations
//   star      star-shaped polygons with vertices on / next to split lines and their crossings
//   hull      convex hulls of grid crossings: oblique edges through corners shared by four cells
// Query points: the full grid {vertex xs, every quadtree box edge x, bounding box xs, far} x {same
// for y} with the rows / columns midway between consecutive levels (strictly inside the short edges,
// on both sides, near, far and outside the bounding box).  Oracles: exact rational signed distance
// (crossing-number parity written from the definition, exact squared distance to the nearest edge)
// at every grid point, |f(p)-f(q)| <= |p-q| for every pair of neighbouring grid points (rows and
// columns) and for random probe pairs (searchLip).

import (
	"fmt"
	"math"
	"math/big"
	"sort"

	"github.com/deadsy/sdfx/sdf"
	v2 "github.com/deadsy/sdfx/vec/v2"
	. "verifharness/kit"
)

type slPoly struct {
	name, family string
	v            []v2.Vec
	points       []v2.Vec // additional query points (corpus)
	light        bool     // grid without the quadtree's box edges (short-edge stratum: vertex levels only)
}

func slReverse(v []v2.Vec) []v2.Vec {
	n := len(v)
	out := make([]v2.Vec, n)
	for i := range v {
		out[n-1-i] = v[i]
	}
	return out
}

func slTranspose(v []v2.Vec) []v2.Vec {
	out := make([]v2.Vec, len(v))
	for i, p := range v {
		out[len(v)-1-i] = v2.Vec{X: p.Y, Y: p.X} // reversed: keeps the orientation
	}
	return out
}

func slRot90(v []v2.Vec) []v2.Vec {
	out := make([]v2.Vec, len(v))
	for i, p := range v {
		out[i] = v2.Vec{X: -p.Y, Y: p.X}
	}
	return out
}

func slDedup(v []v2.Vec) []v2.Vec {
	var out []v2.Vec
	for i, p := range v {
		if i > 0 && p == out[len(out)-1] {
			continue
		}
		out = append(out, p)
	}
	for len(out) > 1 && out[0] == out[len(out)-1] {
		out = out[:len(out)-1]
	}
	return out
}

func slUniq(xs []float64) []float64 {
	sort.Float64s(xs)
	var out []float64
	for i, x := range xs {
		if i == 0 || x != xs[i-1] {
			out = append(out, x)
		}
	}
	return out
}

// slAllLines: every box edge of the full quadtree (all levels) below the root box, computed by the
// library itself (quadrants of the root box down to qtMaxLevel)
func slAllLines(root sdf.Box2) (ax, ay []float64) {
	var rec func(b sdf.Box2, level int)
	rec = func(b sdf.Box2, level int) {
		ax = append(ax, b.Min.X, b.Max.X)
		ay = append(ay, b.Min.Y, b.Max.Y)
		if level == sdf.VerifQtMaxLevel {
			return
		}
		for _, q := range sdf.VerifQuadrants(b) {
			rec(q, level+1)
		}
	}
	rec(root, 0)
	return slUniq(ax), slUniq(ay)
}

// slSplitLines returns the quadtree split lines (all levels) strictly inside the bounding box
// [x0,x1]x[y0,y1] of a polygon with that bounding box
func slSplitLines(x0, x1, y0, y1 float64) (lx, ly []float64) {
	s, err := sdf.Polygon2D([]v2.Vec{{X: x0, Y: y0}, {X: x1, Y: y0}, {X: x1, Y: y1}, {X: x0, Y: y1}})
	if err != nil {
		panic(err)
	}
	ax, ay := slAllLines(sdf.VerifQtDump(s).Box)
	in := func(l []float64, lo, hi float64) []float64 {
		var out []float64
		for _, x := range l {
			if x > lo && x < hi {
				out = append(out, x)
			}
		}
		return out
	}
	return in(ax, x0, x1), in(ay, y0, y1)
}

// a coordinate on / next to c: 0, +-1..3 ulp, +-1e-12 .. +-1e-7, relative 1e-15..1e-12
func slNudge(rng *Rng, c float64) float64 {
	offsets := []float64{0, 1e-10, -1e-10, 5e-10, -5e-10, 9.9e-10, -9.9e-10, 1e-9, -1e-9, 2e-9, -2e-9, 1e-7, -1e-7, 1e-12, -1e-12}
	sel := rng.Intn(4)
	if math.Abs(c) < 1e-100 && sel == 0 {
		sel = 1 // no denormals
	}
	switch sel {
	case 0:
		for k := rng.Range(-3, 3); k != 0; {
			if k > 0 {
				c = math.Nextafter(c, math.Inf(1))
				k--
			} else {
				c = math.Nextafter(c, math.Inf(-1))
				k++
			}
		}
		return c
	case 1:
		return c + offsets[rng.Intn(len(offsets))]
	case 2:
		return c * (1 + float64(rng.Range(-2, 2))*1e-15*float64(rng.Intn(1000)))
	}
	return c
}

// slSkyline: the rectilinear polygon that fills [x0,x1]x[y0,y1] from one side (0 bottom, 1 top,
// 2 left, 3 right) up to a step profile.  Along the base direction s the breakpoints are split lines
// (nudged: on / next to them); across (t) the heights are drawn cell by cell of the split-line grid:
// mostly two consecutive heights in the same cell (a riser shorter than a cell, strictly inside a
// cell edge or starting on a grid crossing), sometimes in other cells (risers crossing lines); one
// height is the far side of the box, so that the bounding box (and with it the quadtree) is the
// planned one.
func slSkyline(rng *Rng, x0, x1, y0, y1 float64, lx, ly []float64, side int, nudged bool) []v2.Vec {
	s0, s1, t0, t1, ls, lt := x0, x1, y0, y1, lx, ly
	if side >= 2 {
		s0, s1, t0, t1, ls, lt = y0, y1, x0, x1, ly, lx
	}
	if len(ls) == 0 {
		return nil
	}
	// breakpoints: a sorted subset of the lines along s
	k := rng.Range(1, 5)
	if k > len(ls) {
		k = len(ls)
	}
	pick := rng.Perm(len(ls))[:k]
	sort.Ints(pick)
	var b []float64
	for _, i := range pick {
		c := ls[i]
		if nudged {
			c = slNudge(rng, c)
		}
		if c > s0 && c < s1 && (len(b) == 0 || c > b[len(b)-1]) {
			b = append(b, c)
		}
	}
	k = len(b)
	if k == 0 {
		return nil
	}
	// heights
	T := append(append([]float64{t0}, lt...), t1)
	ncell := len(T) - 1
	fracs := []float64{0, 0.25, 0.5, 0.75, 0.4, 1}
	at := func(j int) float64 {
		f := fracs[rng.Intn(len(fracs))]
		if rng.Intn(4) == 0 {
			f = rng.Float()
		}
		return T[j] + f*(T[j+1]-T[j])
	}
	h := make([]float64, k+1)
	j := rng.Intn(ncell)
	if rng.Intn(3) == 0 { // the cell next to the far side: the risers that end on the bounding box are short
		j = ncell - 1
		if side == 1 || side == 3 {
			j = 0
		}
	}
	for i := range h {
		switch rng.Intn(10) {
		case 0, 1:
			j += rng.Range(-1, 1)
		case 2:
			j = rng.Intn(ncell)
		}
		if j < 0 {
			j = 0
		}
		if j >= ncell {
			j = ncell - 1
		}
		h[i] = at(j)
	}
	far, base := t1, t0
	if side == 1 || side == 3 {
		far, base = t0, t1
	}
	for i := range h { // strictly off the base
		if h[i] == base {
			h[i] = base + 0.5*(T[1]-T[0])
			if side == 1 || side == 3 {
				h[i] = base - 0.5*(T[ncell]-T[ncell-1])
			}
		}
	}
	h[rng.Intn(k+1)] = far
	// (s,t) vertices, counterclockwise for the bottom base
	type st struct{ s, t float64 }
	var w []st
	if side == 0 || side == 2 {
		w = append(w, st{s0, t0}, st{s1, t0}, st{s1, h[k]})
		for i := k; i >= 1; i-- {
			w = append(w, st{b[i-1], h[i]}, st{b[i-1], h[i-1]})
		}
		w = append(w, st{s0, h[0]})
	} else {
		w = append(w, st{s0, t1}, st{s0, h[0]})
		for i := 1; i <= k; i++ {
			w = append(w, st{b[i-1], h[i-1]}, st{b[i-1], h[i]})
		}
		w = append(w, st{s1, h[k]}, st{s1, t1})
	}
	var v []v2.Vec
	for _, p := range w {
		if side < 2 {
			v = append(v, v2.Vec{X: p.s, Y: p.t})
		} else {
			v = append(v, v2.Vec{X: p.t, Y: p.s})
		}
	}
	return slDedup(v)
}

// slStairs (c04 stairs): the region under a staircase descending from (x1,y1) to (x0,y0).
// mode 0: at every corner (lx[i], ly[i]) a short tread ON the line y=ly[i] ends in a short riser ON
// the line x=lx[i] (both shorter than a deepest cell); mode k=1,2: every riser and tread lies on a
// split line and spans exactly k deepest cells.
func slStairs(x0, x1, y0, y1 float64, lx, ly []float64, mode int) []v2.Vec {
	m := len(lx)
	if len(ly) < m {
		m = len(ly)
	}
	v := []v2.Vec{{X: x0, Y: y0}, {X: x1, Y: y0}, {X: x1, Y: y1}}
	if m < 2 {
		return append(v, v2.Vec{X: x0, Y: y1})
	}
	cx, cy := lx[1]-lx[0], ly[1]-ly[0]
	if mode == 0 {
		cur := y1
		for i := m - 1; i >= 0; i-- {
			v = append(v, v2.Vec{X: lx[i] + 0.4*cx, Y: cur}, v2.Vec{X: lx[i] + 0.4*cx, Y: ly[i]},
				v2.Vec{X: lx[i], Y: ly[i]}, v2.Vec{X: lx[i], Y: ly[i] - 0.6*cy})
			cur = ly[i] - 0.6*cy
		}
		return append(v, v2.Vec{X: x0, Y: cur})
	}
	i := m - 1
	v = append(v, v2.Vec{X: lx[i], Y: y1}, v2.Vec{X: lx[i], Y: ly[i]})
	for i-mode >= 0 {
		v = append(v, v2.Vec{X: lx[i-mode], Y: ly[i]}, v2.Vec{X: lx[i-mode], Y: ly[i-mode]})
		i -= mode
	}
	return append(v, v2.Vec{X: x0, Y: ly[i]})
}

// slStar (c04 nearSplitStar): star-shaped (hence simple) polygon in the box, pinned by four extreme
// vertices, with vertices on / 1..3 ulp / 1e-12 .. 1e-7 next to split lines and crossings of split lines
func slStar(rng *Rng, x0, x1, y0, y1 float64, lx, ly []float64, n int) []v2.Vec {
	cx, cy := (x0+x1)/2, (y0+y1)/2
	type av struct {
		a float64
		p v2.Vec
	}
	var vs []av
	add := func(p v2.Vec) { vs = append(vs, av{math.Atan2(p.Y-cy, p.X-cx), p}) }
	add(v2.Vec{X: x0, Y: rng.Uniform(y0, y1)})
	add(v2.Vec{X: x1, Y: rng.Uniform(y0, y1)})
	add(v2.Vec{X: rng.Uniform(x0, x1), Y: y0})
	add(v2.Vec{X: rng.Uniform(x0, x1), Y: y1})
	cl := func(c, lo, hi float64) float64 { return math.Max(lo, math.Min(hi, c)) }
	for i := 0; i < n; i++ {
		var p v2.Vec
		switch rng.Intn(6) {
		case 0:
			p = v2.Vec{X: slNudge(rng, lx[rng.Intn(len(lx))]), Y: rng.Uniform(y0, y1)}
		case 1:
			p = v2.Vec{X: rng.Uniform(x0, x1), Y: slNudge(rng, ly[rng.Intn(len(ly))])}
		case 2, 3:
			p = v2.Vec{X: slNudge(rng, lx[rng.Intn(len(lx))]), Y: slNudge(rng, ly[rng.Intn(len(ly))])}
		default:
			p = v2.Vec{X: rng.Uniform(x0, x1), Y: rng.Uniform(y0, y1)}
		}
		add(v2.Vec{X: cl(p.X, x0, x1), Y: cl(p.Y, y0, y1)})
	}
	sort.Slice(vs, func(i, j int) bool { return vs[i].a < vs[j].a })
	var out []v2.Vec
	for i, v := range vs {
		if i > 0 && (v.a-vs[i-1].a < 1e-9 || v.p == out[len(out)-1]) {
			continue // one vertex per direction
		}
		out = append(out, v.p)
	}
	return out
}

// slHull: the convex hull of crossings of split lines (some next to them) and four pins on the sides of
// the box: vertices on grid crossings, oblique edges that pass exactly through corners shared by four
// cells (a run of crossings on a diagonal), edges along the lines where hull points are collinear
func slHull(rng *Rng, x0, x1, y0, y1 float64, lx, ly []float64, n int) []v2.Vec {
	pts := []v2.Vec{{X: x0, Y: ly[rng.Intn(len(ly))]}, {X: x1, Y: ly[rng.Intn(len(ly))]}, {X: lx[rng.Intn(len(lx))], Y: y0}, {X: lx[rng.Intn(len(lx))], Y: y1}}
	for i := 0; i < n; i++ {
		p := v2.Vec{X: lx[rng.Intn(len(lx))], Y: ly[rng.Intn(len(ly))]}
		if rng.Intn(5) == 0 {
			p = v2.Vec{X: slNudge(rng, p.X), Y: slNudge(rng, p.Y)}
		}
		pts = append(pts, p)
	}
	sort.Slice(pts, func(i, j int) bool { return pts[i].X < pts[j].X || (pts[i].X == pts[j].X && pts[i].Y < pts[j].Y) })
	cross := func(o, a, b v2.Vec) float64 { return (a.X-o.X)*(b.Y-o.Y) - (a.Y-o.Y)*(b.X-o.X) }
	var h []v2.Vec
	for pass := 0; pass < 2; pass++ { // lower hull, then upper hull (monotone chain; collinear points are dropped)
		start := len(h)
		for i := range pts {
			p := pts[i]
			if pass == 1 {
				p = pts[len(pts)-1-i]
			}
			for len(h) >= start+2 && cross(h[len(h)-2], h[len(h)-1], p) <= 0 {
				h = h[:len(h)-1]
			}
			h = append(h, p)
		}
		h = h[:len(h)-1]
	}
	return slDedup(h)
}

func slGen(rng *Rng, tier string) []slPoly {
	var ps []slPoly
	quick := tier == "quick"
	flip := 0
	add := func(family, name string, v []v2.Vec) {
		if len(v) < 3 {
			return
		}
		flip++
		if flip%2 == 0 {
			v, name = slReverse(v), name+"/cw"
		}
		ps = append(ps, slPoly{name: name, family: family, v: v})
	}
	// the bounding boxes: an origin-centred square (the split lines are 0 and +-1.01 exactly), a dyadic
	// box off the origin, an irrational one, a box with an inexact centre, small and large ones
	boxes := [][4]float64{{-2, 2, -2, 2}, {0, 200, 0, 200}, {-3, 5, 10, 18}, {0.1, 0.1 + math.Pi, -7, -7 + math.Pi},
		{0, 5.767822265625, 0, 16}, {-1e-3, 2e-3, 0, 1e-3}, {1e5, 3e5, -2e5, 1e5}, {0, 1000, 0, 700}}
	nb := TierN(tier, 4, len(boxes), len(boxes))
	reps := TierN(tier, 1, 6, 3)
	for rep := 0; rep < reps; rep++ {
		for bi := 0; bi < nb; bi++ {
			b := boxes[bi]
			if quick && bi >= 2 { // quick: the two fixed boxes and two random ones per run
				b = boxes[2+rng.Intn(len(boxes)-2)]
			}
			lx, ly := slSplitLines(b[0], b[1], b[2], b[3])
			if len(lx) < 2 || len(ly) < 2 {
				continue
			}
			for side := 0; side < 4; side++ {
				add("splitline/skyline-on-lines", fmt.Sprintf("skyline#%d.%d.side%d", rep, bi, side), slSkyline(rng, b[0], b[1], b[2], b[3], lx, ly, side, false))
				add("splitline/skyline-next-to-lines", fmt.Sprintf("skyline-nudged#%d.%d.side%d", rep, bi, side), slSkyline(rng, b[0], b[1], b[2], b[3], lx, ly, side, true))
			}
			for mode := 0; mode < 3; mode++ {
				if quick && (mode+bi)%2 == 1 && bi >= 2 {
					continue
				}
				nm := fmt.Sprintf("stairs#%d.%d-%s", rep, bi, []string{"short", "1cell", "2cell"}[mode])
				add("splitline/stairs-on-lines", nm, slStairs(b[0], b[1], b[2], b[3], lx, ly, mode))
				add("splitline/stairs-on-lines", nm+"/T", slTranspose(slStairs(b[2], b[3], b[0], b[1], ly, lx, mode)))
			}
			add("splitline/star-vertices-on-lines", fmt.Sprintf("star#%d.%d", rep, bi), slStar(rng, b[0], b[1], b[2], b[3], lx, ly, rng.Range(3, 24)))
			add("splitline/hull-of-crossings", fmt.Sprintf("hull#%d.%d", rep, bi), slHull(rng, b[0], b[1], b[2], b[3], lx, ly, rng.Range(2, 12)))
		}
		// bounding box [-2,2]^2: root box [-2.02,2.02]^2, centre exactly (0,0), level 2 lines at +-1.01
		step := []v2.Vec{{X: -2, Y: -2}, {X: 2, Y: -2}, {X: 2, Y: 0}, {X: 0, Y: 0}, {X: 0, Y: 2}, {X: -2, Y: 2}}
		u := []v2.Vec{{X: -2, Y: -2}, {X: 2, Y: -2}, {X: 2, Y: 2}, {X: 1.01, Y: 2}, {X: 1.01, Y: -1.01}, {X: -1.01, Y: -1.01}, {X: -1.01, Y: 2}, {X: -2, Y: 2}}
		for q := 0; q < 4; q++ {
			if rep == 0 {
				add("splitline/edge-on-centre-line", fmt.Sprintf("step-rot%d", 90*q), step)
				add("splitline/edge-on-level2-line", fmt.Sprintf("u-rot%d", 90*q), u)
			}
			step, u = slRot90(step), slRot90(u)
		}
	}
	return ps
}

// ---------------------------------------------------------------- exact reference (float filter, rational fallback)

type slSeg struct{ ax, ay, bx, by float64 }

func slSegD2Float(s slSeg, px, py float64) float64 {
	vx, vy := s.bx-s.ax, s.by-s.ay
	wx, wy := px-s.ax, py-s.ay
	c := wx*vx + wy*vy
	vv := vx*vx + vy*vy
	if c <= 0 {
		return wx*wx + wy*wy
	}
	if c >= vv {
		ux, uy := px-s.bx, py-s.by
		return ux*ux + uy*uy
	}
	k := vx*wy - vy*wx
	return k * k / vv
}

// exact squared distance from p to the outline: the candidates within the rounding slack of the
// float minimum are evaluated in rational arithmetic (segD2 of oracle.go)
func slDist2(segs []slSeg, px, py, scale float64) *big.Rat {
	est := make([]float64, len(segs))
	mn := math.Inf(1)
	wmax := scale
	for i, s := range segs {
		est[i] = slSegD2Float(s, px, py)
		if est[i] < mn {
			mn = est[i]
		}
		wmax = math.Max(wmax, math.Max(math.Abs(px-s.ax), math.Abs(py-s.ay)))
	}
	slack := mn*1e-6 + 1e-9*wmax*math.Sqrt(mn) + 1e-18*wmax*wmax
	var best *big.Rat
	for i, s := range segs {
		if est[i] <= mn+slack {
			d := segD2(rat(s.ax), rat(s.ay), rsub(rat(s.bx), rat(s.ax)), rsub(rat(s.by), rat(s.ay)), rat(px), rat(py))
			if best == nil || d.Cmp(best) < 0 {
				best = d
			}
		}
	}
	return best
}

// slPolygon runs the oracles on one polygon; returns the number of grid points
func slPolygon(r *Report, rng *Rng, viol func(key, what string, input map[string]interface{}), pl slPoly, nprobe int) int {
	s, err := sdf.Polygon2D(pl.v)
	if err != nil {
		return 0
	}
	vs := pl.v
	segs := make([]slSeg, len(vs))
	for i := range vs {
		a, b := vs[i], vs[(i+1)%len(vs)]
		segs[i] = slSeg{a.X, a.Y, b.X, b.Y}
	}
	bb := s.BoundingBox()
	size := math.Max(bb.Max.X-bb.Min.X, bb.Max.Y-bb.Min.Y)
	scale := size
	for _, p := range vs {
		scale = math.Max(scale, math.Max(math.Abs(p.X), math.Abs(p.Y)))
	}
	var xs, ys []float64
	for _, p := range vs {
		xs = append(xs, p.X)
		ys = append(ys, p.Y)
	}
	if root := sdf.VerifQtDump(s); root != nil && !pl.light {
		ax, ay := slAllLines(root.Box)
		xs, ys = append(xs, ax...), append(ys, ay...)
	}
	xs = append(xs, bb.Min.X, bb.Max.X, bb.Min.X-2.5*size, bb.Max.X+2.5*size, bb.Min.X-10*size, bb.Max.X+10*size)
	ys = append(ys, bb.Min.Y, bb.Max.Y, bb.Min.Y-2.5*size, bb.Max.Y+2.5*size, bb.Min.Y-10*size, bb.Max.Y+10*size)
	mids := func(l []float64) []float64 {
		l = slUniq(l)
		out := append([]float64{}, l...)
		for i := 0; i+1 < len(l); i++ {
			if m := l[i] + (l[i+1]-l[i])/2; m > l[i] && m < l[i+1] {
				out = append(out, m)
			}
		}
		return slUniq(out)
	}
	xs, ys = mids(xs), mids(ys)
	desc := fmt.Sprintf("Polygon2D(%v)", vs)
	nviol := map[bool]int{} // at most 3 exactness and 2 Lipschitz failures per polygon
	report := func(key, what string, input map[string]interface{}) {
		lip := len(key) > 3 && key[:3] == "lip"
		if (!lip && nviol[lip] < 3) || (lip && nviol[lip] < 2) {
			nviol[lip]++
			input["polygon"], input["vertices"] = pl.name, vs
			viol(key, what, input)
		}
	}
	// ---- exact signed distance at every grid point
	type cell struct {
		g    float64
		bdry bool
	}
	val := make([][]cell, len(ys))
	one := func(p v2.Vec, stratum string) cell {
		g := s.Evaluate(p)
		d2 := slDist2(segs, p.X, p.Y, scale)
		d2f, _ := d2.Float64()
		de := math.Sqrt(d2f)
		key := fmt.Sprintf("polygon:%s@(%x,%x)", desc, p.X, p.Y)
		r.Case("polygon/"+pl.family+"/"+stratum, key, true)
		c := cell{g: g, bdry: de <= 1e-12*scale}
		if math.IsNaN(g) || math.Abs(math.Abs(g)-de) > 1e-12*de+1e-12*math.Max(scale, math.Max(math.Abs(p.X), math.Abs(p.Y))) {
			report(key, fmt.Sprintf("Polygon2D.Evaluate(%v) = %.17g, but the exact distance to the nearest edge is %.17g", p, g, de),
				map[string]interface{}{"point": p, "value": g, "exact_distance": de})
		} else if !c.bdry {
			if in := insideExact(vs, p); (g < 0) != in {
				want := de
				if in {
					want = -de
				}
				report(key, fmt.Sprintf("Polygon2D.Evaluate(%v) = %.17g, but the exact signed distance to the polygon is %.17g (exact crossing number: inside = %v)", p, g, want, in),
					map[string]interface{}{"point": p, "value": g, "exact": want})
			}
		}
		return c
	}
	cls := func(c, lo, hi float64) string {
		switch {
		case c < lo:
			return "below"
		case c > hi:
			return "above"
		}
		return "level"
	}
	for j, y := range ys {
		val[j] = make([]cell, len(xs))
		for i, x := range xs {
			val[j][i] = one(v2.Vec{X: x, Y: y}, "grid/x-"+cls(x, bb.Min.X, bb.Max.X)+"/y-"+cls(y, bb.Min.Y, bb.Max.Y))
		}
	}
	pv := make([]cell, len(pl.points))
	for i, p := range pl.points {
		pv[i] = one(p, "corpus-point")
	}
	// ---- 1-Lipschitz between neighbouring grid points (rows and columns)
	fd := field2(s, desc)
	pair := func(x0, y0, x1, y1, f0, f1 float64) {
		d := math.Hypot(x1-x0, y1-y0)
		df := math.Abs(f0 - f1)
		if df > d*(1+1e-9)+1e-12*(scale+math.Abs(f0)+math.Abs(f1)+math.Abs(x0)+math.Abs(y0)) {
			p, q := []float64{x0, y0}, []float64{x1, y1}
			h := fd.shrink(&pairHit{p, q, f0, f1, df / d, df - d}, fd.ext())
			report(lipKey(fd, h.p, h.q), lipWhat(h), map[string]interface{}{"p": h.p, "q": h.q})
		}
	}
	for j := range ys {
		for i := range xs {
			if i+1 < len(xs) {
				pair(xs[i], ys[j], xs[i+1], ys[j], val[j][i].g, val[j][i+1].g)
			}
			if j+1 < len(ys) {
				pair(xs[i], ys[j], xs[i], ys[j+1], val[j][i].g, val[j+1][i].g)
			}
		}
	}
	// ---- and between the additional query points that share a column (neighbouring levels)
	if len(pl.points) > 1 {
		idx := make([]int, len(pl.points))
		for i := range idx {
			idx[i] = i
		}
		sort.Slice(idx, func(a, b int) bool {
			p, q := pl.points[idx[a]], pl.points[idx[b]]
			return p.X < q.X || (p.X == q.X && p.Y < q.Y)
		})
		for k := 0; k+1 < len(idx); k++ {
			p, q := pl.points[idx[k]], pl.points[idx[k+1]]
			if p.X == q.X && p.Y != q.Y {
				pair(p.X, p.Y, q.X, q.Y, pv[idx[k]].g, pv[idx[k+1]].g)
			}
		}
	}
	r.Case("polygon/"+pl.family+"/lipschitz-grid-neighbours", "lipgrid:"+desc, true)
	// ---- random probe pairs
	if nprobe > 0 {
		if hit, _ := searchLip(rng, fd, nprobe); hit != nil {
			report(lipKey(fd, hit.p, hit.q), lipWhat(hit), map[string]interface{}{"p": hit.p, "q": hit.q})
		}
	}
	return len(xs) * len(ys)
}

type corpusPolygon struct {
	Name   string       `json:"name"`
	V      [][2]float64 `json:"v"`
	Points [][2]float64 `json:"points"`
}

// splitLineStratum: corpusOnly = the polygons of the corpus (replayed first), otherwise the generated families
func splitLineStratum(c *Ctx, r *Report, viol func(key, what string, input map[string]interface{}), corpus []corpusPolygon, corpusOnly bool) {
	rng := NewRng(mixSeed(c.Seed) ^ 0x51171e5)
	var ps []slPoly
	for _, e := range corpus {
		p := slPoly{name: e.Name, family: "corpus"}
		for _, q := range e.V {
			p.v = append(p.v, v2.Vec{X: q[0], Y: q[1]})
		}
		for _, q := range e.Points {
			p.points = append(p.points, v2.Vec{X: q[0], Y: q[1]})
		}
		ps = append(ps, p)
	}
	if !corpusOnly {
		ps = append(ps, slGen(rng, c.Tier)...)
	}
	npts := 0
	fam := map[string]int{}
	for _, pl := range ps {
		npts += slPolygon(r, rng, viol, pl, TierN(c.Tier, 160, 2000, 1000))
		fam[pl.family]++
	}
	if !corpusOnly {
		r.Coverage["splitline_polygons"] = fam
		r.Coverage["splitline_grid_points"] = npts
	}
}
