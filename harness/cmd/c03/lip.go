package main

// Lipschitz pair search: |f(p) - f(q)| <= |p - q| on the implementation.

import (
	"fmt"
	"math"
	"strings"

	"github.com/deadsy/sdfx/sdf"
	v2 "github.com/deadsy/sdfx/vec/v2"
	v3 "github.com/deadsy/sdfx/vec/v3"
	. "verifharness/kit"
)

// field is a 2D or 3D distance field with the region the search looks at.
type field struct {
	dim    int
	f      func(p []float64) float64
	lo, hi []float64
	desc   string
}

func field3(s sdf.SDF3, desc string) *field {
	bb := s.BoundingBox()
	return &field{dim: 3, desc: desc,
		f:  func(p []float64) float64 { return s.Evaluate(v3.Vec{X: p[0], Y: p[1], Z: p[2]}) },
		lo: []float64{bb.Min.X, bb.Min.Y, bb.Min.Z}, hi: []float64{bb.Max.X, bb.Max.Y, bb.Max.Z}}
}
func field2(s sdf.SDF2, desc string) *field {
	bb := s.BoundingBox()
	return &field{dim: 2, desc: desc,
		f:  func(p []float64) float64 { return s.Evaluate(v2.Vec{X: p[0], Y: p[1]}) },
		lo: []float64{bb.Min.X, bb.Min.Y}, hi: []float64{bb.Max.X, bb.Max.Y}}
}

func (fd *field) ext() float64 {
	e := 1e-3
	for i := 0; i < fd.dim; i++ {
		e = math.Max(e, fd.hi[i]-fd.lo[i])
		e = math.Max(e, math.Max(math.Abs(fd.lo[i]), math.Abs(fd.hi[i])))
	}
	if math.IsInf(e, 0) || math.IsNaN(e) || e > 1e6 {
		e = 10
	}
	return e
}

func dist(p, q []float64) float64 {
	s := 0.0
	for i := range p {
		s += (p[i] - q[i]) * (p[i] - q[i])
	}
	return math.Sqrt(s)
}

// excess > 0 means the pair violates |f(p)-f(q)| <= |p-q| beyond rounding noise
func (fd *field) excess(p, q []float64, scale float64) (ex, ratio, fp, fq float64) {
	fp, fq = fd.f(p), fd.f(q)
	d := dist(p, q)
	df := math.Abs(fp - fq)
	noise := 1e-12 * (scale + math.Abs(fp) + math.Abs(fq))
	ex = df - d*(1+1e-9) - noise
	if d > 0 {
		ratio = df / d
	} else if df > 0 {
		ratio = math.Inf(1)
	}
	if math.IsNaN(fp) || math.IsNaN(fq) {
		ex, ratio = math.Inf(1), math.Inf(1)
	}
	return
}

type pairHit struct {
	p, q   []float64
	fp, fq float64
	ratio  float64
	ex     float64
}

func cp(p []float64) []float64 { return append([]float64(nil), p...) }

func pstr(p []float64) string {
	xs := make([]string, len(p))
	for i, x := range p {
		xs[i] = fmt.Sprintf("%.17g", x)
	}
	return "(" + strings.Join(xs, ",") + ")"
}

// shrink bisects the segment of a violating pair, keeping the half with the larger ratio
func (fd *field) shrink(h *pairHit, scale float64) *pairHit {
	best := h
	p, q := cp(h.p), cp(h.q)
	for it := 0; it < 48; it++ {
		if dist(p, q) < 1e-8*scale {
			break
		}
		m := make([]float64, fd.dim)
		for i := range m {
			m[i] = 0.5 * (p[i] + q[i])
		}
		e1, r1, f1p, f1q := fd.excess(p, m, scale)
		e2, r2, f2p, f2q := fd.excess(m, q, scale)
		if e1 <= 0 && e2 <= 0 {
			break
		}
		if e1 > 0 && (e2 <= 0 || r1 >= r2) {
			q = m
			best = &pairHit{cp(p), cp(q), f1p, f1q, r1, e1}
		} else {
			p = m
			best = &pairHit{cp(p), cp(q), f2p, f2q, r2, e2}
		}
	}
	return best
}

// searchLip looks for a violating pair; n = number of probe pairs
func searchLip(rng *Rng, fd *field, n int) (*pairHit, float64) {
	scale := fd.ext()
	var hit *pairHit
	maxRatio := 0.0
	consider := func(p, q []float64) {
		ex, ratio, fp, fq := fd.excess(p, q, scale)
		if ex <= 0 && dist(p, q) > 1e-7*scale && ratio > maxRatio {
			maxRatio = ratio
		}
		if ex > 0 && (hit == nil || ex > hit.ex) {
			hit = &pairHit{cp(p), cp(q), fp, fq, ratio, ex}
		}
	}
	rnd := func() []float64 {
		p := make([]float64, fd.dim)
		for i := range p {
			c, w := 0.5*(fd.lo[i]+fd.hi[i]), 0.5*(fd.hi[i]-fd.lo[i])
			if math.IsInf(c, 0) || math.IsNaN(c) || math.IsInf(w, 0) || math.IsNaN(w) {
				c, w = 0, scale
			}
			p[i] = c + rng.Uniform(-1, 1)*(1.3*w+0.1*scale)
		}
		return p
	}
	unit := func() []float64 {
		for {
			d := make([]float64, fd.dim)
			s := 0.0
			for i := range d {
				d[i] = rng.Uniform(-1, 1)
				s += d[i] * d[i]
			}
			if s > 1e-4 && s <= 1 {
				for i := range d {
					d[i] /= math.Sqrt(s)
				}
				return d
			}
		}
	}
	for k := 0; k < n; k++ {
		switch k % 8 {
		case 0, 1: // a random line through the region, consecutive samples
			a, b := rnd(), rnd()
			const m = 24
			prev := a
			for i := 1; i <= m; i++ {
				t := float64(i) / m
				x := make([]float64, fd.dim)
				for j := range x {
					x[j] = a[j] + t*(b[j]-a[j])
				}
				consider(prev, x)
				prev = x
			}
			k += 2
		case 2, 3: // near-coincident pairs
			p, d := rnd(), unit()
			h := scale * math.Pow(10, -float64(rng.Range(1, 7)))
			q := make([]float64, fd.dim)
			for j := range q {
				q[j] = p[j] + h*d[j]
			}
			consider(p, q)
		case 4: // straddling a coordinate plane (|x| folds) or a plane level with a box face
			p := rnd()
			j := rng.Intn(fd.dim)
			h := scale * math.Pow(10, -float64(rng.Range(2, 9)))
			lvl := 0.0
			switch rng.Intn(4) {
			case 1:
				lvl = fd.lo[j]
			case 2:
				lvl = fd.hi[j]
			case 3:
				lvl = float64(rng.Range(-24, 24)) / 8
			}
			if math.IsInf(lvl, 0) || math.IsNaN(lvl) {
				lvl = 0
			}
			q := cp(p)
			p[j], q[j] = lvl-h, lvl+h
			consider(p, q)
		case 5: // straddling the z axis (rotation axis): opposite points at a tiny radius
			if fd.dim == 3 {
				z := rnd()[2]
				a := rng.Uniform(0, 2*math.Pi)
				h := scale * math.Pow(10, -float64(rng.Range(2, 9)))
				consider([]float64{h * math.Cos(a), h * math.Sin(a), z}, []float64{-h * math.Cos(a), -h * math.Sin(a), z})
			} else {
				a := rng.Uniform(0, 2*math.Pi)
				h := scale * math.Pow(10, -float64(rng.Range(2, 9)))
				consider([]float64{h * math.Cos(a), h * math.Sin(a)}, []float64{-h * math.Cos(a), -h * math.Sin(a)})
			}
		case 6: // straddling a half plane through the z axis (sector boundaries): same radius, angle +-h
			r0 := rng.Uniform(0.01, 1) * scale
			a := rng.Uniform(-math.Pi, math.Pi)
			if rng.Intn(3) == 0 {
				a = []float64{0, math.Pi / 2, math.Pi, -math.Pi / 2, math.Pi / 3, 2 * math.Pi / 3, math.Pi / 4, -math.Pi, 0.3, 2, 4 - 2*math.Pi}[rng.Intn(11)]
			}
			h := math.Pow(10, -float64(rng.Range(2, 9)))
			p := []float64{r0 * math.Cos(a-h), r0 * math.Sin(a-h)}
			q := []float64{r0 * math.Cos(a+h), r0 * math.Sin(a+h)}
			if fd.dim == 3 {
				z := rnd()[2]
				p, q = append(p, z), append(q, z)
			}
			consider(p, q)
		default: // medium range pairs
			consider(rnd(), rnd())
		}
	}
	if hit != nil {
		hit = fd.shrink(hit, scale)
	}
	return hit, maxRatio
}
