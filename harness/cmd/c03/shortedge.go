package main

// Polygons with VERY SHORT edges relative to their size, and very small polygons (the dimension of
// harness/cmd/c04/shortedge.go, here for C03's own statement "the polygon's Evaluate is the Euclidean
// signed distance, 1-Lipschitz").  Added after mutation C03f-m2: Mesh2D / Mesh2DSlow dropped the
// segments that Line2.Degenerate(1e-9) calls degenerate; a simple polygon with a genuine edge shorter
// than 1e-9 lost it, the outline stayed open and every point level with the gap got the wrong sign at
// ANY distance (|f(p)-f(q)| = 80 for |p-q| = 3e-9).  No polygon of the other strata has an edge shorter
// than 1e-7 of its size, so no absolute or relative cut-off on edge length could show.
//
// The dimension: edge length / extent in {1e-9, 1e-10, 1e-12, 1e-15 (a few ulp)} x extent in {1e-3, 1,
// 1e3, 1e6} (absolute AND relative cut-offs are met) x how the short edge sits in the outline:
//   jog      one vertex doubled and the rest of the outline moved by the short vector, 8 directions
//   chamfer  a corner cut off at that distance from the vertex: one corner, several, all of them
//   split    two almost coincident vertices inserted ON an edge (a collinear short edge)
// the start of the vertex list is rotated, so the short edge is also the first, the last and the
// CLOSING edge (last vertex -> first vertex) of the list; both orientations.  Tiny polygons: whole
// outlines 1e-10 .. 1e-15 across at the origin and a few 1e-10 across far from it.
//
// The SPECIFICATION is built from the VERTEX LIST alone (edges = consecutive vertices + closing edge;
// exact rational crossing number insideExact, exact rational squared distance slDist2) - never from
// sdf.VertexToLine, Line2 methods or any other library function.  The implementations confronted with
// it: sdf.Polygon2D (full grid of vertex levels / levels midway / far columns + the probes below,
// neighbouring-level Lipschitz pairs, random pairs: slPolygon) and sdf.Mesh2D / sdf.Mesh2DSlow called
// with a segment list made here from the vertex list (probes only).  A constructor that REJECTS one of
// these simple polygons is a violation as well (all edges of a tiny polygon dropped).
// Query points: on the levels of both end points of every short edge, midway and one ulp above/below,
// far to the left and to the right (10 and 1e6 extents), at several distances inside the extent and a
// few edge lengths away; around the short edge itself.

import (
	"fmt"
	"math"

	"github.com/deadsy/sdfx/sdf"
	v2 "github.com/deadsy/sdfx/vec/v2"
	. "verifharness/kit"
)

func seExtent(v []v2.Vec) (x0, x1, y0, y1, size float64) {
	x0, x1, y0, y1 = v[0].X, v[0].X, v[0].Y, v[0].Y
	for _, p := range v {
		x0, x1, y0, y1 = math.Min(x0, p.X), math.Max(x1, p.X), math.Min(y0, p.Y), math.Max(y1, p.Y)
	}
	return x0, x1, y0, y1, math.Max(x1-x0, y1-y0)
}

// seStep returns c+d, or the neighbouring float in the direction of d where the sum rounds back to c
func seStep(c, d float64) float64 {
	if d == 0 {
		return c
	}
	if q := c + d; q != c {
		return q
	}
	return math.Nextafter(c, math.Inf(int(math.Copysign(1, d))))
}

func seMove(p, d v2.Vec) v2.Vec { return v2.Vec{X: seStep(p.X, d.X), Y: seStep(p.Y, d.Y)} }

func seUnit(a, b v2.Vec) v2.Vec {
	dx, dy := b.X-a.X, b.Y-a.Y
	l := math.Hypot(dx, dy)
	return v2.Vec{X: dx / l, Y: dy / l}
}

// jog: v0 .. vi, vi+d, vi+1+d, .. vn-1+d
func seJog(v []v2.Vec, i int, d v2.Vec) []v2.Vec {
	out := append([]v2.Vec{}, v[:i+1]...)
	for j := i; j < len(v); j++ {
		out = append(out, seMove(v[j], d))
	}
	return out
}

// chamfer: vertex i replaced by the two points at distance l from it on its two edges
func seChamfer(v []v2.Vec, i int, l float64) []v2.Vec {
	n := len(v)
	a, b, c := v[(i+n-1)%n], v[i], v[(i+1)%n]
	u1, u2 := seUnit(b, a), seUnit(b, c)
	out := append([]v2.Vec{}, v[:i]...)
	out = append(out, seMove(b, v2.Vec{X: u1.X * l, Y: u1.Y * l}), seMove(b, v2.Vec{X: u2.X * l, Y: u2.Y * l}))
	return append(out, v[i+1:]...)
}

// split: two vertices l apart inserted on the edge i -> i+1 at parameter t
func seSplit(v []v2.Vec, i int, t, l float64) []v2.Vec {
	n := len(v)
	a, b := v[i], v[(i+1)%n]
	u := seUnit(a, b)
	q := v2.Vec{X: a.X + t*(b.X-a.X), Y: a.Y + t*(b.Y-a.Y)}
	out := append([]v2.Vec{}, v[:i+1]...)
	out = append(out, q, seMove(q, v2.Vec{X: u.X * l, Y: u.Y * l}))
	return append(out, v[i+1:]...)
}

func seRotateStart(v []v2.Vec, k int) []v2.Vec {
	n := len(v)
	out := make([]v2.Vec, n)
	for i := range v {
		out[i] = v[(i+k)%n]
	}
	return out
}

func seXform(v []v2.Vec, k, dx, dy float64) []v2.Vec {
	out := make([]v2.Vec, len(v))
	for i, p := range v {
		out[i] = v2.Vec{X: p.X*k + dx, Y: p.Y*k + dy}
	}
	return out
}

func seRotate(v []v2.Vec, a float64) []v2.Vec {
	c, s := math.Cos(a), math.Sin(a)
	out := make([]v2.Vec, len(v))
	for i, p := range v {
		out[i] = v2.Vec{X: c*p.X - s*p.Y, Y: s*p.X + c*p.Y}
	}
	return out
}

func seNgon(n int, rad func(i int) float64, rot float64) []v2.Vec {
	var v []v2.Vec
	for i := 0; i < n; i++ {
		a := rot + 2*math.Pi*float64(i)/float64(n)
		v = append(v, v2.Vec{X: rad(i) * math.Cos(a), Y: rad(i) * math.Sin(a)})
	}
	return v
}

// comb: a spine with n teeth pointing up
func seComb(n int, toothW, gapW, h, spine float64) []v2.Vec {
	w := float64(n)*toothW + float64(n-1)*gapW
	v := []v2.Vec{{X: 0, Y: 0}, {X: w, Y: 0}}
	x := w
	for i := 0; i < n; i++ {
		v = append(v, v2.Vec{X: x, Y: spine + h})
		x -= toothW
		v = append(v, v2.Vec{X: x, Y: spine + h})
		if i < n-1 {
			v = append(v, v2.Vec{X: x, Y: spine})
			x -= gapW
			v = append(v, v2.Vec{X: x, Y: spine})
		}
	}
	return slDedup(v)
}

// seProbes: query points for every edge (closing edge included) shorter than 1e-6 extents
func seProbes(v []v2.Vec, maxEdges int) (pts []v2.Vec, nShort int) {
	x0, x1, _, _, size := seExtent(v)
	n := len(v)
	up, dn := math.Inf(1), math.Inf(-1)
	for i := 0; i < n; i++ {
		a, b := v[i], v[(i+1)%n]
		dx, dy := b.X-a.X, b.Y-a.Y
		l := math.Hypot(dx, dy)
		if l == 0 || l > 1e-6*size {
			continue
		}
		nShort++
		if nShort > maxEdges {
			continue
		}
		my, mx := a.Y+dy/2, a.X+dx/2
		ys := []float64{a.Y, b.Y, my, math.Nextafter(a.Y, up), math.Nextafter(a.Y, dn), math.Nextafter(b.Y, up), math.Nextafter(b.Y, dn)}
		for _, y := range ys {
			for _, x := range []float64{x0 - 1e6*size, x0 - 10*size, x1 + 10*size, x1 + 1e6*size} {
				pts = append(pts, v2.Vec{X: x, Y: y})
			}
			for _, k := range []float64{0.013, 0.11, 0.5, 1.3} {
				pts = append(pts, v2.Vec{X: a.X - k*size, Y: y}, v2.Vec{X: a.X + k*size, Y: y})
			}
			for _, k := range []float64{1, 3, 30, 1000} {
				pts = append(pts, v2.Vec{X: a.X - k*l, Y: y}, v2.Vec{X: a.X + k*l, Y: y})
			}
		}
		// around the edge itself: its midpoint, and off it along the normal
		pts = append(pts, v2.Vec{X: mx, Y: my})
		for _, k := range []float64{0.5, 3, 40} {
			pts = append(pts, v2.Vec{X: mx - k*dy, Y: my + k*dx}, v2.Vec{X: mx + k*dy, Y: my - k*dx})
		}
	}
	return pts, nShort
}

func seGen(rng *Rng, tier string) []slPoly {
	quick := tier == "quick"
	type shape struct {
		n string
		v []v2.Vec
	}
	bases := func() []shape {
		var star []v2.Vec
		rot := rng.Uniform(0, 1)
		for i := 0; i < 10; i++ {
			rad := 1.5
			if i%2 == 1 {
				rad = 0.6
			}
			a := rot + float64(i)*math.Pi/5
			star = append(star, v2.Vec{X: rad * math.Cos(a), Y: rad * math.Sin(a)})
		}
		return []shape{
			{"rect", []v2.Vec{{X: 0, Y: 0}, {X: 2, Y: 0}, {X: 2, Y: 2}, {X: 0, Y: 2}}},
			{"L", []v2.Vec{{X: 0, Y: 0}, {X: 4, Y: 0}, {X: 4, Y: 1}, {X: 1, Y: 1}, {X: 1, Y: 3}, {X: 0, Y: 3}}},
			{"arrow", []v2.Vec{{X: 0, Y: 0}, {X: 2, Y: 1}, {X: 0, Y: 2}, {X: 0.5, Y: 1}}},
			{"heptagon", seNgon(7, func(int) float64 { return 1.3 }, rng.Uniform(0, 1))},
			{"star5", star},
			{"rect-rot", seRotate([]v2.Vec{{X: -1, Y: -0.5}, {X: 1, Y: -0.5}, {X: 1, Y: 0.5}, {X: -1, Y: 0.5}}, rng.Uniform(0.1, 1.4))},
			{"triangle", []v2.Vec{{X: 0, Y: 0}, {X: rng.Dyadic(2, 3) + 3, Y: rng.Dyadic(1, 3)}, {X: rng.Dyadic(1, 3), Y: rng.Dyadic(2, 3) + 3}}},
			{"comb3", seComb(3, 0.5, 0.25, 2, 0.5)},
		}
	}
	rels := []float64{1e-9, 1e-10, 1e-12, 1e-15}
	exts := []float64{1, 1e-3, 1e3, 1e6}
	dirs := []v2.Vec{{X: 1, Y: 0}, {X: 0, Y: 1}, {X: -1, Y: 0}, {X: 0, Y: -1}, {X: 0.8, Y: 0.6}, {X: -0.6, Y: 0.8}, {X: -0.8, Y: -0.6}, {X: 0.6, Y: -0.8}}
	ops := []string{"jog", "chamfer1", "chamfer-some", "chamfer-all", "split", "jog+split"}

	var ps []slPoly
	k := 0
	phase := rng.Intn(len(ops))
	for ri, rel := range rels {
		for ei, ext := range exts {
			for oi, op := range ops {
				k++
				// quick: one operation per (relative length, extent), rotating with the seed; the jog (the shape
				// of the mutation) for every relative length at unit extent as well
				if quick && (oi+ri+ei+phase)%len(ops) != 0 && !(op == "jog" && ext == 1) {
					continue
				}
				bs := bases()
				b := bs[rng.Intn(len(bs))]
				sc := ext * rng.Uniform(0.7, 1.9)
				v := seXform(b.v, sc, 0, 0)
				if rng.Intn(3) == 0 { // off the origin by a few extents
					v = seXform(b.v, sc, rng.Uniform(-3, 3)*sc, rng.Uniform(-3, 3)*sc)
				}
				_, _, _, _, size := seExtent(v)
				l := rel * size * rng.Uniform(0.5, 1)
				n := len(v)
				d := dirs[rng.Intn(len(dirs))]
				d = v2.Vec{X: d.X * l, Y: d.Y * l}
				switch op {
				case "jog":
					v = seJog(v, rng.Intn(n), d)
				case "chamfer1":
					v = seChamfer(v, rng.Intn(n), l)
				case "chamfer-some":
					for i := n - 1; i >= 0; i-- {
						if rng.Intn(3) == 0 || i == 0 {
							v = seChamfer(v, i, l*rng.Uniform(0.3, 1))
						}
					}
				case "chamfer-all":
					for i := n - 1; i >= 0; i-- {
						v = seChamfer(v, i, l)
					}
				case "split":
					v = seSplit(v, rng.Intn(n), rng.Uniform(0.1, 0.8), l)
				case "jog+split":
					i := rng.Intn(n)
					v = seJog(seSplit(v, i, rng.Uniform(0.1, 0.8), l), (i+3)%n, d)
				}
				v = slDedup(v)
				if len(v) < 3 {
					continue
				}
				// where the list starts: anywhere; two polygons out of three right after / before a short edge,
				// so that the short edge is the closing edge or the last listed edge
				m := len(v)
				start := rng.Intn(m)
				if k%3 != 0 {
					for j := 0; j < m; j++ {
						a, c := v[j], v[(j+1)%m]
						if math.Hypot(c.X-a.X, c.Y-a.Y) <= 1e-6*size {
							start = (j + k%3) % m
							break
						}
					}
				}
				v = seRotateStart(v, start)
				if rng.Bool() {
					v = slReverse(v)
				}
				probes, nShort := seProbes(v, 6)
				if nShort == 0 {
					continue
				}
				ps = append(ps, slPoly{name: fmt.Sprintf("%s*%.3g/%s(%.3g)", b.n, sc, op, l), family: fmt.Sprintf("shortedge/%s/rel=%g", op, rel),
					v: v, points: probes, light: true})
			}
		}
	}
	// tiny polygons: a few 1e-10 across (and 1e-12, 1e-15) at the origin, a few 1e-10 across far from it
	type tiny struct {
		size, off float64
	}
	tinies := []tiny{{1e-10, 0}, {1e-10, 1}, {1e-10, 1e3}, {1e-12, 0}, {1e-15, 0}, {3e-10, 1}, {1e-9, 1}, {1e-11, 1}}
	for ti, t := range tinies {
		for rep := 0; rep < TierN(tier, 1, 4, 3); rep++ {
			bs := bases()
			b := bs[rng.Intn(len(bs))]
			_, _, _, _, bsz := seExtent(b.v)
			sc := t.size * rng.Uniform(1, 9) / bsz
			ox, oy := t.off*rng.Uniform(-2, 2), t.off*rng.Uniform(0.5, 2)
			v := slDedup(seXform(b.v, sc, ox, oy))
			if len(v) < 3 {
				continue
			}
			if (ti+rep)%2 == 1 {
				v = slReverse(v)
			}
			v = seRotateStart(v, rng.Intn(len(v)))
			x0, x1, _, _, size := seExtent(v)
			if size == 0 {
				continue
			}
			// probes: level with every vertex, far left / right
			var probes []v2.Vec
			for _, p := range v {
				for _, y := range []float64{p.Y, math.Nextafter(p.Y, math.Inf(1)), math.Nextafter(p.Y, math.Inf(-1))} {
					for _, x := range []float64{x0 - 1e6*size, x0 - 10*size, x0 - 0.4*size, x1 + 0.4*size, x1 + 10*size, x1 + 1e6*size, x0 - 1, x1 + 1} {
						probes = append(probes, v2.Vec{X: x, Y: y})
					}
				}
			}
			ps = append(ps, slPoly{name: fmt.Sprintf("tiny-%s*%.3g+(%.3g,%.3g)", b.n, sc, ox, oy), family: fmt.Sprintf("tiny/size=%g/offset=%g", t.size, t.off),
				v: v, points: probes, light: true})
		}
	}
	return ps
}

// seSimple: no two non-adjacent edges of the outline meet (exact: orientation tests in rationals); the
// constructions above keep the outline simple by design, rounding at 1e-15 could in principle not
func seSimple(v []v2.Vec) bool {
	n := len(v)
	orient := func(a, b, c v2.Vec) int {
		l := rmul(rsub(rat(b.X), rat(a.X)), rsub(rat(c.Y), rat(a.Y)))
		r := rmul(rsub(rat(b.Y), rat(a.Y)), rsub(rat(c.X), rat(a.X)))
		return l.Cmp(r)
	}
	on := func(a, b, c v2.Vec) bool { // c collinear with ab: inside its bounding box
		return math.Min(a.X, b.X) <= c.X && c.X <= math.Max(a.X, b.X) && math.Min(a.Y, b.Y) <= c.Y && c.Y <= math.Max(a.Y, b.Y)
	}
	for i := 0; i < n; i++ {
		a, b := v[i], v[(i+1)%n]
		for j := i + 1; j < n; j++ {
			c, d := v[j], v[(j+1)%n]
			adjacent := j == i+1 || (i == 0 && j == n-1)
			o1, o2, o3, o4 := orient(a, b, c), orient(a, b, d), orient(c, d, a), orient(c, d, b)
			if adjacent {
				// share one vertex; must not fold back onto each other
				if j == i+1 && o2 == 0 && on(a, b, d) && d != b {
					return false
				}
				if j != i+1 && o3 == 0 && o1 == 0 && on(a, b, c) && c != a {
					return false
				}
				continue
			}
			if o1*o2 < 0 && o3*o4 < 0 {
				return false
			}
			if (o1 == 0 && on(a, b, c)) || (o2 == 0 && on(a, b, d)) || (o3 == 0 && on(c, d, a)) || (o4 == 0 && on(c, d, b)) {
				return false
			}
		}
	}
	return true
}

// shortEdgeStratum: Polygon2D through slPolygon (grid + probes + Lipschitz), Mesh2D / Mesh2DSlow on a
// segment list built here, at the probes
func shortEdgeStratum(c *Ctx, r *Report, viol func(key, what string, input map[string]interface{})) {
	rng := NewRng(mixSeed(c.Seed) ^ 0x5807ed6e)
	fam := map[string]int{}
	npts, nmesh, nonSimple := 0, 0, 0
	for _, pl := range seGen(rng, c.Tier) {
		if !seSimple(pl.v) {
			nonSimple++
			continue
		}
		desc := fmt.Sprintf("Polygon2D(%v)", pl.v)
		fam[pl.family]++
		if _, err := sdf.Polygon2D(pl.v); err != nil {
			key := "polygon-rejected:" + desc
			r.Case("polygon/"+pl.family+"/constructor", key, true)
			viol(key, fmt.Sprintf("Polygon2D rejects the simple polygon %s (%d distinct vertices, no repeated vertex): %v", pl.name, len(pl.v), err),
				map[string]interface{}{"polygon": pl.name, "vertices": pl.v})
			continue
		}
		npts += slPolygon(r, rng, viol, pl, TierN(c.Tier, 60, 1000, 400))

		// the same outline as an explicit segment list (made here, not by sdf.VertexToLine)
		vs := pl.v
		n := len(vs)
		segs := make([]slSeg, n)
		lines := make([]*sdf.Line2, n)
		scale := 0.0
		for i := range vs {
			a, b := vs[i], vs[(i+1)%n]
			segs[i] = slSeg{a.X, a.Y, b.X, b.Y}
			lines[i] = &sdf.Line2{a, b}
			scale = math.Max(scale, math.Max(math.Abs(a.X), math.Abs(a.Y)))
		}
		_, _, _, _, size := seExtent(vs)
		scale = math.Max(scale, size)
		type impl struct {
			name string
			mk   func([]*sdf.Line2) (sdf.SDF2, error)
		}
		for _, im := range []impl{{"Mesh2D", sdf.Mesh2D}, {"Mesh2DSlow", sdf.Mesh2DSlow}} {
			cp := make([]*sdf.Line2, n)
			for i, l := range lines {
				c := *l
				cp[i] = &c
			}
			s, err := im.mk(cp)
			mdesc := fmt.Sprintf("%s(segments of %v)", im.name, vs)
			if err != nil {
				key := "mesh-rejected:" + mdesc
				r.Case("polygon/"+pl.family+"/"+im.name+"/constructor", key, true)
				viol(key, fmt.Sprintf("%s rejects the closed outline of the simple polygon %s: %v", im.name, pl.name, err), map[string]interface{}{"polygon": pl.name, "vertices": vs})
				continue
			}
			bad := 0
			for pi, p := range pl.points {
				if pi%3 != 0 && c.Tier == "quick" {
					continue
				}
				g := s.Evaluate(p)
				d2f, _ := slDist2(segs, p.X, p.Y, scale).Float64()
				de := math.Sqrt(d2f)
				key := fmt.Sprintf("mesh:%s@(%x,%x)", mdesc, p.X, p.Y)
				r.Case("polygon/"+pl.family+"/"+im.name+"/probe", key, true)
				nmesh++
				what := ""
				if math.IsNaN(g) || math.Abs(math.Abs(g)-de) > 1e-12*de+1e-12*math.Max(scale, math.Max(math.Abs(p.X), math.Abs(p.Y))) {
					what = fmt.Sprintf("%s.Evaluate(%v) = %.17g, but the exact distance to the nearest segment of the vertex list is %.17g", im.name, p, g, de)
				} else if de > 1e-12*scale {
					if in := insideExact(vs, p); (g < 0) != in {
						want := de
						if in {
							want = -de
						}
						what = fmt.Sprintf("%s.Evaluate(%v) = %.17g, but the exact signed distance to the closed outline is %.17g (exact crossing number of the vertex list: inside = %v)", im.name, p, g, want, in)
					}
				}
				if what != "" {
					if bad++; bad <= 2 {
						viol(key, what, map[string]interface{}{"polygon": pl.name, "vertices": vs, "point": p, "value": g, "exact_distance": de})
					}
				}
			}
		}
	}
	r.Coverage["shortedge_polygons"] = fam
	r.Coverage["shortedge_grid_points"] = npts
	r.Coverage["shortedge_mesh_probes"] = nmesh
	r.Coverage["shortedge_not_simple_skipped"] = nonSimple
}
