package main

// C03 lists the polygon among the exact primitives.  Its proof obligations live in C04 (fast =
// brute force = crossing-number specification); here the implementation is confronted with an
// independent exact reference: sign by the exact crossing number (rational arithmetic, half-open
// rule written from the definition, not from the code), magnitude by the exact squared distance
// to the nearest edge.  Query points include the measure-zero sets: level with a vertex, on the
// lines through edges, far away on round coordinates.

import (
	"fmt"
	"math"
	"math/big"

	"github.com/deadsy/sdfx/sdf"
	v2 "github.com/deadsy/sdfx/vec/v2"
	. "verifharness/kit"
)

// exact crossing number of the +x ray from p: an edge counts iff one end is strictly above the
// ray's line and the other is on or below it, and the crossing lies strictly right of p
func insideExact(vs []v2.Vec, p v2.Vec) bool {
	in := false
	n := len(vs)
	px, py := rat(p.X), rat(p.Y)
	for i := 0; i < n; i++ {
		a, b := vs[i], vs[(i+1)%n]
		if (a.Y > p.Y) == (b.Y > p.Y) { // comparisons of float64 values are exact
			continue
		}
		ay, by := rat(a.Y), rat(b.Y)
		// x of the crossing: ax + (py-ay)*(bx-ax)/(by-ay)
		t := rdiv(rsub(py, ay), rsub(by, ay))
		x := radd(rat(a.X), rmul(t, rsub(rat(b.X), rat(a.X))))
		if x.Cmp(px) > 0 {
			in = !in
		}
	}
	return in
}

func polyD2(vs []v2.Vec, p v2.Vec) *big.Rat {
	var best *big.Rat
	n := len(vs)
	for i := 0; i < n; i++ {
		a, b := vs[i], vs[(i+1)%n]
		d := segD2(rat(a.X), rat(a.Y), rsub(rat(b.X), rat(a.X)), rsub(rat(b.Y), rat(a.Y)), rat(p.X), rat(p.Y))
		if best == nil || d.Cmp(best) < 0 {
			best = d
		}
	}
	return best
}

func polygonStratum(c *Ctx, r *Report, rng *Rng) {
	n := TierN(c.Tier, 30, 400, 120)
	for k := 0; k < n; k++ {
		// simple polygons: convex (points on a circle, dyadic-rounded), star-shaped, rectilinear
		var vs []v2.Vec
		kind := []string{"convex", "star", "rectilinear"}[k%3]
		switch kind {
		case "convex", "star":
			m := rng.Range(3, 12)
			for i := 0; i < m; i++ {
				a := 2 * math.Pi * (float64(i) + 0.3*rng.Float()) / float64(m)
				rad := 4.0
				if kind == "star" && i%2 == 1 {
					rad = 1.5
				}
				vs = append(vs, v2.Vec{X: math.Round(rad*math.Cos(a)*8) / 8, Y: math.Round(rad*math.Sin(a)*8) / 8})
			}
		default:
			w, h := float64(rng.Range(2, 6)), float64(rng.Range(2, 6))
			vs = []v2.Vec{{X: 0, Y: 0}, {X: w, Y: 0}, {X: w, Y: 1}, {X: 1, Y: 1}, {X: 1, Y: h}, {X: 0, Y: h}} // an L
		}
		if k%2 == 1 { // both orientations
			for i, j := 0, len(vs)-1; i < j; i, j = i+1, j-1 {
				vs[i], vs[j] = vs[j], vs[i]
			}
		}
		s, err := sdf.Polygon2D(vs)
		if err != nil {
			continue
		}
		desc := fmt.Sprintf("Polygon2D(%v)", vs)
		// query points: the full grid of vertex coordinates (so: level with vertices, on vertical
		// lines through vertices), midpoints, far away on the same levels, random
		var xs, ys []float64
		for _, v := range vs {
			xs = append(xs, v.X, v.X-9.25, v.X+0.0625)
			ys = append(ys, v.Y, v.Y+0.0625)
		}
		xs = append(xs, -20, 20, rng.Uniform(-5, 5))
		ys = append(ys, -20, 20, rng.Uniform(-5, 5))
		for _, x := range xs {
			for _, y := range ys {
				p := v2.Vec{X: x, Y: y}
				g := s.Evaluate(p)
				d2 := polyD2(vs, p)
				in := insideExact(vs, p)
				key := fmt.Sprintf("polygon:%s@(%x,%x)", desc, x, y)
				r.Case("polygon/"+kind, key, true)
				d2f, _ := d2.Float64()
				want := math.Sqrt(d2f)
				if in {
					want = -want
				}
				if d2.Sign() == 0 {
					continue // on the boundary: the sign is not determined
				}
				if (g < 0) != in || math.Abs(math.Abs(g)-math.Abs(want)) > 1e-9*(1+math.Abs(want)) {
					r.Violate(key, fmt.Sprintf("Polygon2D.Evaluate(%v) = %g, but the exact signed distance to the polygon is %g (exact crossing number: inside = %v)", p, g, want, in),
						map[string]interface{}{"vertices": vs, "point": p, "value": g, "exact": want})
					break
				}
			}
		}
	}
}
