// Command stategen prints coq/Generated/StateInv.v for the source tree given as argument
// (default /repo); used to inspect what harness/stategen extracts from an edited tree.
//
//	stategen [repo]            the generated inventory
//	stategen -spec [repo]      the skeleton of the expected tables of coq/Sys/StateInvSpec.v
package main

import (
	"fmt"
	"os"

	"verifharness/stategen"
)

func main() {
	args := os.Args[1:]
	spec := false
	if len(args) > 0 && args[0] == "-spec" {
		spec = true
		args = args[1:]
	}
	repo := "/repo"
	if len(args) > 0 {
		repo = args[0]
	}
	if spec {
		b, err := stategen.SpecSkeleton(repo)
		if err != nil {
			fmt.Fprintln(os.Stderr, err)
			os.Exit(1)
		}
		os.Stdout.Write(b)
		return
	}
	_, b, err := stategen.Generate(repo)
	if err != nil {
		fmt.Fprintln(os.Stderr, err)
		os.Exit(1)
	}
	os.Stdout.Write(b)
}
