package main

import (
	"fmt"
	"math"
	"os"
	"strconv"

	"github.com/deadsy/sdfx/sdf"
	v2 "github.com/deadsy/sdfx/vec/v2"
)

func star(n int, R, r, rot float64) []v2.Vec {
	var v []v2.Vec
	for i := 0; i < 2*n; i++ {
		rad := R
		if i%2 == 1 {
			rad = r
		}
		a := rot + float64(i)*math.Pi/float64(n)
		v = append(v, v2.Vec{X: rad * math.Cos(a), Y: rad * math.Sin(a)})
	}
	return v
}

func dump(n *sdf.VerifQtNode, p v2.Vec, path string) {
	if n == nil {
		return
	}
	if n.Leaf {
		for _, l := range n.Pieces {
			lo, hi := math.Min(l[0].Y, l[1].Y), math.Max(l[0].Y, l[1].Y)
			if lo <= p.Y+1e-9 && hi >= p.Y-1e-9 {
				fmt.Printf("%s L%d box[%v %v] piece (%v,%v)->(%v,%v) w=%d\n", path, n.Level, n.Box.Min, n.Box.Max, l[0].X, l[0].Y, l[1].X, l[1].Y, sdf.VerifLineWinding(l, p))
			}
		}
		return
	}
	for i, c := range n.Child {
		dump(c, p, path+strconv.Itoa(i))
	}
}

func main() {
	n, _ := strconv.Atoi(os.Args[1])
	px, _ := strconv.ParseFloat(os.Args[2], 64)
	py, _ := strconv.ParseFloat(os.Args[3], 64)
	v := star(n, 1, 0.4, 0)
	s, _ := sdf.Polygon2D(v)
	p := v2.Vec{X: px, Y: py}
	lines := sdf.VertexToLine(v, true)
	sl, _ := sdf.Mesh2DSlow(lines)
	fmt.Println("fast", s.Evaluate(p), "slow", sl.Evaluate(p))
	for _, l := range lines {
		if w := sdf.VerifLineWinding(*l, p); w != 0 {
			fmt.Printf("orig (%v,%v)->(%v,%v) w=%d\n", l[0].X, l[0].Y, l[1].X, l[1].Y, w)
		}
	}
	dump(sdf.VerifQtDump(s), p, "")
}
