package main

// TRANSLR: the syntactic tie between the render code and its Gallina model.
// `gen` re-translates the numeric / table-driven code of package render and the helpers it calls
// (harness/rendergen -> Generated/RenderExpr.v) and the tables (harness/tabgen ->
// Generated/MarchTables.v) from the current source tree; Props/TRANSLR.v then states, per Go function, that
// the generated definition equals the hand-written model function for all arguments over an
// arbitrary Ops (Render/GenEqRender.v).  `run` only records which functions were translated
// (there is nothing to sample: the obligation is the proof).

import (
	"fmt"

	. "verifharness/kit"
	"verifharness/rendergen"
	"verifharness/tabgen"
)

func main() {
	Main("TRANSLR", check, func(c *Ctx) (string, []byte, error) { return tabgen.Gen(c.Repo) }, rendergen.Gen)
}

func check(c *Ctx, r *Report) error {
	res, err := rendergen.Translate(c.Repo)
	if err != nil {
		return err
	}
	targets := map[string]bool{}
	for _, t := range rendergen.Targets() {
		targets[t.Pkg+"."+t.Key] = true
	}
	nt := 0
	for _, d := range res.Defs {
		stratum := "callee"
		if targets[d.Pkg+"."+d.Key] {
			stratum = "target"
			if d.Prefix {
				stratum = "target-prefix"
			}
			nt++
		}
		r.Case(stratum, d.Name, true)
		r.Sample(map[string]interface{}{"go": d.Pkg + "." + d.Key, "gallina": d.Name, "at": d.Pos, "params": d.Params, "result": d.Ret})
	}
	r.Coverage["translated"] = res.Names()
	r.Coverage["targets"] = nt
	r.Rule = "one case per Go function / table / constant translated into Generated/RenderExpr.v; the obligations are the TRANSL_render_* theorems"
	r.Trusted = []string{
		"harness/rendergen (Go AST -> Gallina, syntactic, typed; literals mapped exactly) and the meaning of its vocabulary coq/Render/RgLib.v (zfor, znth, zupd, zlen, zrepeat)",
		"Ops fields stand for the float64 operations of the same name",
	}
	r.Assumptions = []string{
		"int/uint are unbounded integers (no 64-bit wrap-around; uint(i) of a negative i does not occur)",
		"an index out of range (a Go panic) is not modelled: a read yields the zero value, a write does nothing",
		"receiver methods declared opaque (dcache3.evaluate, dcache2.evaluate) are pure functions of their arguments",
		"prefix targets (marchingCubes, MarchingCubesUniform.Render, dcache3/dcache2.evaluate) tie only the statements before the named call",
		"trace targets (dcache3.processCube, dcache2.processSquare): the translation is the list of events (recursive calls, outputs) of one activation in program order; that the Go runtime performs them in that order, and that output.Write only appends, is not part of the tie",
		"package-level tables are never assigned (checked syntactically over the package) and a pointer &t stands for the value of t at that point (t is not assigned afterwards: checked)",
	}
	if nt != len(targets) {
		return fmt.Errorf("translated %d of %d targets", nt, len(targets))
	}
	return nil
}
