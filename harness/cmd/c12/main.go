package main

// C12: every render-to-file call returns (also when the output cannot be created or a
// write fails part-way) and goroutines do not accumulate.  Model: coq/Sys/Pipeline.v
// (with coq/Sys/Buffer.v for the batches the real buffer sends).
//
// Every observation is made in a child process (this binary, mode "child"): the child
// performs ONE fault-injection call or ONE history of renders and reports the outcome
// class (returned / still blocked after the time limit), the STL header it left behind
// and runtime.NumGoroutine() after each render.

import (
	"context"
	"encoding/binary"
	"encoding/json"
	"fmt"
	"hash/fnv"
	"os"
	"os/exec"
	"os/signal"
	"path/filepath"
	"runtime"
	"sort"
	"strings"
	"sync"
	"syscall"
	"time"

	"github.com/deadsy/sdfx/render"
	"github.com/deadsy/sdfx/sdf"
	. "verifharness/kit"
	"verifharness/kit/pipe"
	"verifharness/sysgen"
)

func main() {
	if len(os.Args) > 2 && os.Args[1] == "child" {
		childMain(os.Args[2])
		return
	}
	Main("C12", checkC12, stateGen, GenBufferConsts, sysgen.Gen)
}

// ---------------------------------------------------------------- what a child does

type Spec struct {
	Kind      string   `json:"kind"`                 // "fault" | "leak" | "history"
	Sink      string   `json:"sink"`                 // stl 3mf dxf svg tri
	Renderer  string   `json:"renderer,omitempty"`   // fault: script mcu octree ms quadtree dc2
	Cells     int      `json:"cells,omitempty"`      // real renderers: mesh cells
	Writes    []int    `json:"writes,omitempty"`     // script: sizes of the Writes
	Target    string   `json:"target,omitempty"`     // ok devfull nodir isdir rlimit
	Limit     int64    `json:"limit,omitempty"`      // rlimit: RLIMIT_FSIZE in bytes
	History   []string `json:"history,omitempty"`    // leak: renderer of each successive render
	CellsHist []int    `json:"cells_hist,omitempty"` // leak: mesh cells of each successive render (default Cells)
	Steps     []Step   `json:"steps,omitempty"`      // history: one process performs these calls one after the other
	Warmup    int      `json:"warmup,omitempty"`     // history: the goroutine count must not grow after this many steps
	WarmMax   bool     `json:"warm_max,omitempty"`   // history: ... beyond the LARGEST count seen during the warm-up (env.go)
	Label     string   `json:"label,omitempty"`      // history: name of the generator stratum
	TimeoutMs int      `json:"timeout_ms"`
	Dir       string   `json:"dir,omitempty"` // scratch directory (set by the parent)
}

// Step is one call of a "history": its own entry point, renderer and (failing) target.
type Step struct {
	Sink     string `json:"sink"`
	Renderer string `json:"renderer"`
	Cells    int    `json:"cells,omitempty"`
	Target   string `json:"target"`          // ok devfull nodir isdir rlimit
	Limit    int64  `json:"limit,omitempty"` // rlimit: RLIMIT_FSIZE (soft) during this step only
	// run-time environment of the call (env.go); zero values: as the step before left it
	Procs   int    `json:"procs,omitempty"`    // runtime.GOMAXPROCS(n) before the call
	Flip    string `json:"flip,omitempty"`     // GOMAXPROCS changed during the call: "2,6" by the shape under evaluation, "~2,6" by a free-running goroutine
	Par     int    `json:"par,omitempty"`      // this many concurrent calls
	Shape   string `json:"shape,omitempty"`    // box big twin flat (default: unit sphere / circle)
	GC      int    `json:"gc,omitempty"`       // debug.SetGCPercent(n) before the call
	PauseMs int    `json:"pause_ms,omitempty"` // idle time before the call
}

func (st Step) String() string {
	s := st.Sink + "/" + st.Renderer + "/" + st.Target
	if st.Target == "rlimit" {
		s += fmt.Sprint(st.Limit)
	}
	return s + st.envString()
}

type Result struct {
	Returned   bool    `json:"returned"`
	Ms         float64 `json:"ms"`
	Blocked    string  `json:"blocked,omitempty"` // where the renderer is blocked when not returned
	FileSize   int64   `json:"file_size"`         // -1: no regular file
	Count      int64   `json:"count"`             // STL header count, -1: not readable
	NumCPU     int     `json:"ncpu"`
	Base       int     `json:"base"`            // goroutines before the first render
	Goroutines []int   `json:"goroutines"`      // after each render
	Procs      []int   `json:"procs,omitempty"` // history: GOMAXPROCS in force after each call
	Err        string  `json:"err,omitempty"`
	// odd output paths (paths.go): the path handed to the entry point, and what a probing os.Create /
	// first Write of the same path said just before the call
	Path     string `json:"path,omitempty"`
	Create   string `json:"create,omitempty"`
	WriteErr string `json:"write_err,omitempty"`
}

func is3D(renderer, sink string) bool {
	switch sink {
	case "stl", "3mf", "tri":
		return true
	}
	return false
}

func renderer3(name string, cells int, writes []int) render.Render3 {
	switch name {
	case "script":
		return &pipe.Script3{Producers: [][]int{writes}}
	case "mcu":
		return render.NewMarchingCubesUniform(cells)
	case "octree":
		return render.NewMarchingCubesOctree(cells)
	}
	panic("unknown 3d renderer " + name)
}

func renderer2(name string, cells int, writes []int) render.Render2 {
	switch name {
	case "script":
		return &pipe.Script2{Producers: [][]int{writes}}
	case "ms":
		return render.NewMarchingSquaresUniform(cells)
	case "quadtree":
		return render.NewMarchingSquaresQuadtree(cells)
	case "dc2":
		return render.NewDualContouring2D(cells)
	}
	panic("unknown 2d renderer " + name)
}

func usesPool(renderer string) bool { return renderer == "mcu" }

// usesPoolBefore: does one of the first n steps run a pool-using renderer (its output was created)?
func usesPoolBefore(steps []Step, n int) bool {
	for _, st := range steps[:n] {
		if usesPool(st.Renderer) && !((st.Sink == "stl" || st.Sink == "3mf") && (st.Target == "nodir" || st.Target == "isdir")) {
			return true
		}
	}
	return false
}

func shape3() sdf.SDF3 { s, _ := sdf.Sphere3D(1.0); return s }
func shape2() sdf.SDF2 { s, _ := sdf.Circle2D(1.0); return s }

func targetPath(sp *Spec, n int) string {
	switch sp.Target {
	case "devfull":
		return "/dev/full"
	case "nodir":
		return filepath.Join(sp.Dir, "no-such-directory", "out."+sp.Sink)
	case "isdir":
		return sp.Dir
	}
	if isOdd(sp.Target) {
		return oddPath(sp.Target, sp.Dir, sp.Sink)
	}
	return filepath.Join(sp.Dir, fmt.Sprintf("out%d.%s", n, sp.Sink))
}

func callSink(sp *Spec, renderer string, path string) {
	callSinkShapes(sp, renderer, path, shape3(), shape2())
}

func callSinkShapes(sp *Spec, renderer string, path string, s3 sdf.SDF3, s2 sdf.SDF2) {
	switch sp.Sink {
	case "stl":
		render.ToSTL(s3, path, renderer3(renderer, sp.Cells, sp.Writes))
	case "3mf":
		render.To3MF(s3, path, renderer3(renderer, sp.Cells, sp.Writes))
	case "tri":
		render.ToTriangles(s3, renderer3(renderer, sp.Cells, sp.Writes))
	case "dxf":
		render.ToDXF(s2, path, renderer2(renderer, sp.Cells, sp.Writes))
	case "svg":
		render.ToSVG(s2, path, renderer2(renderer, sp.Cells, sp.Writes))
	default:
		panic("unknown sink " + sp.Sink)
	}
}

func settledGoroutines() int {
	last, same := -1, 0
	for i := 0; i < 400 && same < 5; i++ {
		runtime.Gosched()
		time.Sleep(500 * time.Microsecond)
		n := runtime.NumGoroutine()
		if n == last {
			same++
		} else {
			last, same = n, 0
		}
	}
	return last
}

// settledAfter: the settled count after one more call of a history.  A reading above everything
// seen so far is looked at again a few times (a goroutine on its way out, a finalizer running):
// goroutines that ARE left behind stay, so the smallest reading is the one that counts.
func settledAfter(before []int) int {
	n := settledGoroutines()
	if len(before) == 0 {
		return n
	}
	ref := before[0]
	for _, b := range before {
		if b > ref {
			ref = b
		}
	}
	// (up to 300 ms: under heavy machine load a writer goroutine on its way out was once still
	// counted 40 ms after the call returned - thorough tier, niced run - and gone at the next reading)
	for try := 0; try < 12 && n > ref; try++ {
		time.Sleep(25 * time.Millisecond)
		if m := settledGoroutines(); m < n {
			n = m
		}
	}
	return n
}

func childMain(arg string) {
	var sp Spec
	out := os.Stdout
	res := Result{FileSize: -1, Count: -1, NumCPU: runtime.NumCPU()}
	emit := func() {
		b, _ := json.Marshal(res)
		out.Write(append(b, '\n'))
		os.Exit(0)
	}
	if err := json.Unmarshal([]byte(arg), &sp); err != nil {
		res.Err = err.Error()
		emit()
	}
	pipe.Silence()
	if sp.Target == "rlimit" {
		// the default action of SIGXFSZ kills the process; ignored, write(2) fails with EFBIG
		signal.Ignore(syscall.SIGXFSZ)
		lim := syscall.Rlimit{Cur: uint64(sp.Limit), Max: uint64(sp.Limit)}
		if err := syscall.Setrlimit(syscall.RLIMIT_FSIZE, &lim); err != nil {
			res.Err = "setrlimit: " + err.Error()
			emit()
		}
	}
	for _, st := range sp.Steps {
		if st.Target == "rlimit" {
			signal.Ignore(syscall.SIGXFSZ)
		}
	}
	done := make(chan struct{})
	t0 := time.Now()
	var path string
	go func() {
		defer close(done)
		switch sp.Kind {
		case "history":
			res.Base = settledGoroutines()
			for i, st := range sp.Steps {
				// the file-size limit of this step only (soft limit; the hard limit stays unlimited)
				lim := syscall.Rlimit{Cur: ^uint64(0), Max: ^uint64(0)}
				if st.Target == "rlimit" {
					lim.Cur = uint64(st.Limit)
				}
				if err := syscall.Setrlimit(syscall.RLIMIT_FSIZE, &lim); err != nil {
					res.Err = "setrlimit: " + err.Error()
					return
				}
				if st.hasEnv() {
					runStep(&sp, st, i)
				} else {
					s2 := sp
					s2.Sink, s2.Target, s2.Cells = st.Sink, st.Target, st.Cells
					callSink(&s2, st.Renderer, targetPath(&s2, i))
				}
				res.Goroutines = append(res.Goroutines, settledAfter(res.Goroutines))
				res.Procs = append(res.Procs, runtime.GOMAXPROCS(0))
			}
		case "fault":
			path = targetPath(&sp, 0)
			if isOdd(sp.Target) {
				res.Path = shortPath(path)
				res.Create, res.WriteErr = probeCreate(path)
			}
			callSink(&sp, sp.Renderer, path)
		case "leak":
			res.Base = settledGoroutines()
			for i, r := range sp.History {
				if i < len(sp.CellsHist) {
					sp.Cells = sp.CellsHist[i]
				}
				callSink(&sp, r, targetPath(&sp, i))
				res.Goroutines = append(res.Goroutines, settledAfter(res.Goroutines))
			}
		}
	}()
	select {
	case <-done:
		res.Returned = true
	case <-time.After(time.Duration(sp.TimeoutMs) * time.Millisecond):
		buf := make([]byte, 1<<20)
		st := string(buf[:runtime.Stack(buf, true)])
		for _, g := range strings.Split(st, "\n\n") {
			if strings.Contains(g, "chan send") && (strings.Contains(g, "Buffer).Write") || strings.Contains(g, "Buffer).Close")) {
				res.Blocked = "renderer blocked in chan send inside " + map[bool]string{true: "Write", false: "Close"}[strings.Contains(g, "Buffer).Write")]
			}
		}
		if res.Blocked == "" {
			// the goroutine performing the call: its state and innermost frame
			for _, g := range strings.Split(st, "\n\n") {
				if ls := strings.Split(g, "\n"); strings.Contains(g, "main.callSink") && len(ls) > 1 {
					res.Blocked = strings.TrimSuffix(ls[0], ":") + " in " + strings.TrimSpace(ls[1])
				}
			}
		}
		if res.Blocked == "" {
			res.Blocked = "unknown"
		}
	}
	res.Ms = float64(time.Since(t0).Microseconds()) / 1000
	if sp.Kind == "fault" && res.Returned && (sp.Target == "ok" || sp.Target == "rlimit") {
		if fi, err := os.Stat(path); err == nil && fi.Mode().IsRegular() {
			res.FileSize = fi.Size()
			if sp.Sink == "stl" {
				if b, err := os.ReadFile(path); err == nil && len(b) >= 84 {
					res.Count = int64(binary.LittleEndian.Uint32(b[80:84]))
				}
			}
		}
	}
	emit()
}

// ---------------------------------------------------------------- parent

func runChild(sp Spec) Result {
	arg, _ := json.Marshal(sp)
	ctx, cancel := context.WithTimeout(context.Background(), time.Duration(sp.TimeoutMs+8000)*time.Millisecond)
	defer cancel()
	exe := os.Args[0]
	if e, err := os.Executable(); err == nil {
		exe = e
	}
	cmd := exec.CommandContext(ctx, exe, "child", string(arg))
	if fi, err := os.Stat(sp.Dir); err == nil && fi.IsDir() && filepath.IsAbs(sp.Dir) {
		cmd.Dir = sp.Dir // relative odd paths (".", "..", a relative name) resolve inside the scratch directory
	}
	cmd.Stderr = nil
	outb, err := cmd.Output()
	var res Result
	lines := strings.Split(strings.TrimSpace(string(outb)), "\n")
	if len(lines) == 0 || json.Unmarshal([]byte(lines[len(lines)-1]), &res) != nil {
		// the child died or was killed: the call did not return in an orderly way
		res = Result{FileSize: -1, Count: -1, Err: fmt.Sprintf("child failed: %v: %.300s", err, string(outb))}
	}
	return res
}

// first item whose binary.Write into the bufio.Writer (4096 bytes) of writeSTL returns an
// error when no byte beyond `limit` can be written: the 84-byte header and 50-byte records
// are flushed in blocks of 4096; block j (bytes [4096j, 4096(j+1))) fails iff 4096(j+1) > limit;
// it is flushed while record t is written, t the least with 84+50(t+1) > 4096(j+1).
func stlFailIndex(limit int64) int {
	j := limit / 4096
	return int((4096*(j+1) - 84) / 50)
}

func rle(xs []int) string {
	var parts []string
	for i := 0; i < len(xs); {
		j := i
		for j < len(xs) && xs[j] == xs[i] {
			j++
		}
		parts = append(parts, fmt.Sprintf("(%d, %d)", xs[i], j-i))
		i = j
	}
	return CList(parts)
}

func rleKey(xs []int) string {
	var parts []string
	for i := 0; i < len(xs); {
		j := i
		for j < len(xs) && xs[j] == xs[i] {
			j++
		}
		if j-i == 1 {
			parts = append(parts, fmt.Sprint(xs[i]))
		} else {
			parts = append(parts, fmt.Sprintf("%dx%d", xs[i], j-i))
		}
		i = j
	}
	return strings.Join(parts, ",")
}

func optNat(v int64) string {
	if v < 0 {
		return "None"
	}
	return fmt.Sprintf("(Some %d)", v)
}

func stepsKey(steps []Step) string {
	// run-length form; a block of up to 12 steps repeated is written (a,b,...)xN
	var parts []string
	for i := 0; i < len(steps); {
		bestP, bestR := 1, 1
		for p := 1; p <= 12 && i+2*p <= len(steps); p++ {
			r := 1
			for i+(r+1)*p <= len(steps) {
				same := true
				for k := 0; k < p && same; k++ {
					same = steps[i+r*p+k] == steps[i+k]
				}
				if !same {
					break
				}
				r++
			}
			if r >= 2 && p*r > bestP*bestR {
				bestP, bestR = p, r
			}
		}
		switch {
		case bestR == 1:
			parts = append(parts, steps[i].String())
		case bestP == 1:
			parts = append(parts, fmt.Sprintf("%sx%d", steps[i], bestR))
		default:
			var blk []string
			for _, st := range steps[i : i+bestP] {
				blk = append(blk, st.String())
			}
			parts = append(parts, fmt.Sprintf("(%s)x%d", strings.Join(blk, ","), bestR))
		}
		i += bestP * bestR
	}
	k := strings.Join(parts, ",")
	if len(k) > 200 {
		h := fnv.New32a()
		h.Write([]byte(k))
		k = fmt.Sprintf("%.150s...#%d-steps/%08x", k, len(steps), h.Sum32())
	}
	return k
}

func specKey(sp Spec) string {
	if sp.Kind == "history" {
		return fmt.Sprintf("history warmup=%d steps=%s", sp.Warmup, stepsKey(sp.Steps))
	}
	if sp.Kind == "leak" {
		var parts []string
		for i := 0; i < len(sp.History); {
			j := i
			for j < len(sp.History) && sp.History[j] == sp.History[i] {
				j++
			}
			parts = append(parts, fmt.Sprintf("%sx%d", sp.History[i], j-i))
			i = j
		}
		k := fmt.Sprintf("leak sink=%s history=%s cells=%d", sp.Sink, strings.Join(parts, ","), sp.Cells)
		if len(sp.CellsHist) > 0 {
			k += fmt.Sprintf(" cells_hist=%v", sp.CellsHist)
		}
		return k
	}
	k := fmt.Sprintf("hang sink=%s renderer=%s target=%s", sp.Sink, sp.Renderer, sp.Target)
	if sp.Target == "rlimit" {
		k += fmt.Sprintf(" limit=%d", sp.Limit)
	}
	if sp.Renderer == "script" {
		w := rleKey(sp.Writes)
		if len(w) > 48 {
			total := 0
			for _, n := range sp.Writes {
				total += n
			}
			h := fnv.New32a()
			h.Write([]byte(w))
			w = fmt.Sprintf("#%d-writes/%d-items/%08x", len(sp.Writes), total, h.Sum32())
		}
		k += " writes=" + w
	} else {
		k += fmt.Sprintf(" cells=%d", sp.Cells)
	}
	return k
}

type corpusC12 struct {
	Specs []Spec `json:"specs"`
}

type replayFile struct {
	Failing []struct {
		Input Spec `json:"input"`
	} `json:"failing_inputs"`
}

func checkC12(c *Ctx, r *Report) error {
	rng := NewRng(c.Seed)
	tN, lN, err := BufferConsts(c.Repo)
	if err != nil {
		return err
	}
	scratch := filepath.Join(c.Out, "scratch")
	if a, err := filepath.Abs(scratch); err == nil {
		scratch = a
	}
	if err := os.MkdirAll(scratch, 0o755); err != nil {
		return err
	}
	defer os.RemoveAll(scratch)
	timeout := TierN(c.Tier, 6000, 10000, 6000)

	// writes of the real renderers: recorded once, in this process, with the recording wrapper
	realWrites := map[string][]int{}
	writesOf := func(sp Spec) []int {
		if sp.Renderer == "script" {
			return sp.Writes
		}
		k := fmt.Sprintf("%s/%d/%v", sp.Renderer, sp.Cells, is3D(sp.Renderer, sp.Sink))
		if w, ok := realWrites[k]; ok {
			return w
		}
		restore := pipe.Silence()
		var w []int
		if is3D(sp.Renderer, sp.Sink) {
			rec := &pipe.Rec3{Inner: renderer3(sp.Renderer, sp.Cells, nil)}
			pipe.Direct3(shape3(), rec)
			w = rec.Sizes
		} else {
			rec := &pipe.Rec2{Inner: renderer2(sp.Renderer, sp.Cells, nil)}
			pipe.Direct2(shape2(), rec)
			w = rec.Sizes
		}
		restore()
		realWrites[k] = w
		return w
	}

	// ---- the list of fault-injection calls
	var specs []Spec
	var corpus corpusC12
	if b, err := os.ReadFile(filepath.Join(c.Verif, "corpus", "C12.json")); err == nil {
		if err := json.Unmarshal(b, &corpus); err != nil {
			return fmt.Errorf("corpus/C12.json: %v", err)
		}
	}
	nCorpus := 0
	if c.Replay != "" {
		var rf replayFile
		b, err := os.ReadFile(c.Replay)
		if err != nil {
			return err
		}
		if err := json.Unmarshal(b, &rf); err != nil {
			return err
		}
		for _, f := range rf.Failing {
			specs = append(specs, f.Input)
		}
	} else {
		specs = append(specs, corpus.Specs...)
		nCorpus = len(specs)
		rep := func(n, k int) []int {
			w := make([]int, k)
			for i := range w {
				w[i] = n
			}
			return w
		}
		mcLike := func(total int) []int { // marching-cubes-like: 0..5 triangles per cell, many empty
			var w []int
			for s := 0; s < total; {
				n := 0
				if rng.Intn(3) == 0 {
					n = rng.Range(1, 5)
				}
				w = append(w, n)
				s += n
			}
			return w
		}
		scripts3 := [][]int{
			rep(tN, 3),                    // three full buffers: the failing batch is followed by others
			{100},                         // one batch, sent by Close
			{50},                          // shorter than the first flush of the file writer
			{81, 300},                     // one big batch
			rep(1, 2*tN+88),               // 256, 256, 88
			{tN - 1, 1, tN + 1, 0, 0, 7},  // straddling
			mcLike(1500), rep(tN, 12), {}, // long, and nothing at all
		}
		scripts2 := [][]int{rep(lN, 3), {100}, rep(1, 2*lN+40), mcLike(700), rep(lN, 24), {}}
		add := func(sp Spec) { sp.Kind = "fault"; specs = append(specs, sp) }
		for _, w := range scripts3 {
			for _, tg := range []string{"ok", "devfull", "nodir", "isdir"} {
				add(Spec{Sink: "stl", Renderer: "script", Writes: w, Target: tg})
				add(Spec{Sink: "3mf", Renderer: "script", Writes: w, Target: tg})
			}
		}
		for _, w := range scripts2 {
			for _, tg := range []string{"ok", "devfull", "nodir", "isdir"} {
				add(Spec{Sink: "dxf", Renderer: "script", Writes: w, Target: tg})
				add(Spec{Sink: "svg", Renderer: "script", Writes: w, Target: tg})
			}
		}
		// file-size limit at every flush boundary of the STL writer (and around it)
		sweep := func(renderer string, cells int, w []int) {
			total := 0
			for _, n := range writesOf(Spec{Renderer: renderer, Cells: cells, Writes: w, Sink: "stl"}) {
				total += n
			}
			blocks := (84+50*total)/4096 + 1
			limits := map[int64]bool{0: true, 1: true, 83: true, 84: true, 85: true}
			step := 1
			if c.Tier == "quick" && blocks > 24 {
				step = blocks / 24
			}
			for j := 0; j <= blocks; j += step {
				limits[int64(4096*j)] = true
			}
			for _, j := range []int{1, 2, blocks / 2, blocks - 1, blocks} {
				if j > 0 {
					limits[int64(4096*j-1)] = true
					limits[int64(4096*j+1)] = true
				}
			}
			if c.Tier != "quick" {
				for k := 0; k < 40; k++ {
					limits[int64(rng.Intn(4096*(blocks+1)))] = true
				}
			}
			var ls []int64
			for l := range limits {
				ls = append(ls, l)
			}
			sort.Slice(ls, func(a, b int) bool { return ls[a] < ls[b] })
			for _, l := range ls {
				add(Spec{Sink: "stl", Renderer: renderer, Cells: cells, Writes: w, Target: "rlimit", Limit: l})
			}
		}
		// a failure EARLY in a LARGE mesh: hundreds of batches are still to come when the writer gives up
		for _, tg := range []string{"devfull"} {
			add(Spec{Sink: "stl", Renderer: "script", Writes: rep(tN, 300), Target: tg})
			add(Spec{Sink: "stl", Renderer: "mcu", Cells: 60, Target: tg})
			add(Spec{Sink: "stl", Renderer: "octree", Cells: 80, Target: tg})
		}
		for _, l := range []int64{4096, 40960} {
			add(Spec{Sink: "stl", Renderer: "script", Writes: rep(tN, 300), Target: "rlimit", Limit: l})
			add(Spec{Sink: "stl", Renderer: "mcu", Cells: 60, Target: "rlimit", Limit: l})
		}
		sweep("script", 0, rep(tN, 12))
		sweep("script", 0, mcLike(1200))
		sweep("mcu", 12, nil)
		sweep("octree", 16, nil)
		if c.Tier != "quick" {
			sweep("script", 0, rep(1, 3*tN+5))
			sweep("mcu", 24, nil)
			sweep("octree", 40, nil)
		}
		for _, l := range []int64{0, 100, 4096} {
			add(Spec{Sink: "3mf", Renderer: "script", Writes: rep(tN, 3), Target: "rlimit", Limit: l})
			add(Spec{Sink: "dxf", Renderer: "script", Writes: rep(lN, 3), Target: "rlimit", Limit: l})
			add(Spec{Sink: "svg", Renderer: "script", Writes: rep(lN, 3), Target: "rlimit", Limit: l})
		}
		// real renderers against failing sinks
		for _, tg := range []string{"ok", "devfull", "nodir"} {
			add(Spec{Sink: "stl", Renderer: "mcu", Cells: 12, Target: tg})
			add(Spec{Sink: "stl", Renderer: "octree", Cells: 16, Target: tg})
			add(Spec{Sink: "3mf", Renderer: "mcu", Cells: 12, Target: tg})
			add(Spec{Sink: "3mf", Renderer: "octree", Cells: 16, Target: tg})
			for _, r2 := range []string{"ms", "quadtree", "dc2"} {
				add(Spec{Sink: "dxf", Renderer: r2, Cells: 40, Target: tg})
				add(Spec{Sink: "svg", Renderer: r2, Cells: 40, Target: tg})
			}
		}
		// goroutines after k renders
		hist := func(name string, k int) []string {
			h := make([]string, k)
			for i := range h {
				h[i] = name
			}
			return h
		}
		K := TierN(c.Tier, 20, 60, 30)
		leak := func(sink string, h []string, cells int) {
			specs = append(specs, Spec{Kind: "leak", Sink: sink, History: h, Cells: cells, Target: "ok"})
		}
		leak("tri", hist("mcu", K), 8)
		leak("stl", hist("mcu", K), 8)
		leak("3mf", hist("octree", K), 8)
		leak("tri", hist("octree", K), 8)
		mixed := make([]string, K)
		for i := range mixed {
			mixed[i] = []string{"octree", "mcu", "script"}[rng.Intn(3)]
		}
		mixed[0] = "octree"
		leak("stl", mixed, 8)
		// resolutions that keep growing (each render larger than any before) and shrinking again
		grow := make([]int, K)
		for i := range grow {
			grow[i] = 20 + 6*i
			if i%5 == 4 {
				grow[i] = 12
			}
		}
		specs = append(specs, Spec{Kind: "leak", Sink: "tri", History: hist("mcu", K), CellsHist: grow, Cells: 8, Target: "ok", TimeoutMs: 120000})
		specs = append(specs, Spec{Kind: "leak", Sink: "stl", History: mixed, CellsHist: grow, Cells: 8, Target: "ok", TimeoutMs: 120000})
		leak("dxf", hist("ms", K), 20)
		leak("svg", hist("quadtree", K), 20)
		leak("dxf", hist("dc2", K), 20)

		// ---- histories of FAILING calls in one process: every entry point x every failure kind.
		// After a warm-up (one good call, one failing call) the same failing call is repeated, then
		// good calls of every entry point of that dimension follow: every call must return and the
		// goroutine count must stay where it was after the warm-up.
		R := TierN(c.Tier, 40, 120, 60)
		fails := []Step{{Target: "nodir"}, {Target: "isdir"}, {Target: "devfull"},
			{Target: "rlimit", Limit: 0}, {Target: "rlimit", Limit: 100}, {Target: "rlimit", Limit: 4096}, {Target: "rlimit", Limit: 20000}}
		if c.Tier != "quick" {
			for k := 0; k < 6; k++ {
				fails = append(fails, Step{Target: "rlimit", Limit: int64(rng.Intn(60000))})
			}
		}
		goods := map[bool][]string{true: {"stl", "3mf", "tri"}, false: {"dxf", "svg"}}
		for _, sink := range []string{"stl", "3mf", "dxf", "svg"} {
			d3 := is3D("", sink)
			for fi, f := range fails {
				renderer, cells := "script", 0
				if fi%3 == 2 { // a real renderer now and then
					renderer, cells = map[bool]string{true: "mcu", false: "ms"}[d3], 10
				}
				f.Sink, f.Renderer, f.Cells = sink, renderer, cells
				steps := []Step{{Sink: sink, Renderer: renderer, Cells: cells, Target: "ok"}, f}
				for k := 0; k < R; k++ {
					steps = append(steps, f)
				}
				for k := 0; k < 2; k++ {
					for _, g := range goods[d3] {
						steps = append(steps, Step{Sink: g, Renderer: renderer, Cells: cells, Target: "ok"})
					}
				}
				specs = append(specs, Spec{Kind: "history", Steps: steps, Warmup: 2})
			}
			// all failure kinds and both entry points of the dimension mixed
			var steps []Step
			for _, g := range goods[d3] {
				steps = append(steps, Step{Sink: g, Renderer: "script", Target: "ok"})
			}
			for _, f := range fails {
				f.Sink, f.Renderer = sink, "script"
				steps = append(steps, f)
			}
			w := len(steps)
			for k := 0; k < R; k++ {
				f := fails[rng.Intn(len(fails))]
				f.Sink, f.Renderer = goods[d3][rng.Intn(2)], "script"
				steps = append(steps, f)
			}
			for _, g := range goods[d3] {
				steps = append(steps, Step{Sink: g, Renderer: "script", Target: "ok"})
			}
			specs = append(specs, Spec{Kind: "history", Steps: steps, Warmup: w})
		}
		// ---- histories whose run-time environment changes between and during the calls (env.go)
		specs = append(specs, envHistories(c.Tier, rng, runtime.NumCPU())...)
		// ---- odd / uncreatable output paths of every kind (paths.go): single calls and histories
		specs = append(specs, oddFaultSpecs(c.Tier, tN, lN)...)
		specs = append(specs, oddHistories(c.Tier, rng)...)
	}

	// ---- run the children (a few at a time)
	results := make([]Result, len(specs))
	var wg sync.WaitGroup
	sem := make(chan struct{}, 8)
	for i := range specs {
		if specs[i].TimeoutMs == 0 {
			specs[i].TimeoutMs = timeout
		}
		specs[i].Dir = filepath.Join(scratch, fmt.Sprint(i))
		os.MkdirAll(specs[i].Dir, 0o755)
		if (specs[i].Kind == "leak" || specs[i].Kind == "history") && specs[i].Writes == nil {
			specs[i].Writes = []int{tN, 5}
		}
		wg.Add(1)
		sem <- struct{}{}
		go func(i int) {
			defer wg.Done()
			defer func() { <-sem }()
			results[i] = runChild(specs[i])
			os.RemoveAll(specs[i].Dir)
		}(i)
	}
	wg.Wait()

	// ---- compare
	model := os.Getenv("C12_MODEL") // "pinned": compare with the model of the pinned code instead (reproduction runs)
	fn := "Pipeline.mismatches_f"
	if model == "pinned" {
		fn = "Pipeline.mismatches_f_pinned"
	}
	imports := "From Sdfx Require Import Sys.Buffer Sys.Pipeline Generated.BufferConsts.\nOpen Scope nat_scope."
	cf := &Cases{Kind: "fault", Imports: imports, Type: "Pipeline.fcase", Fn: fn, PerShard: 60}
	gfn := "Pipeline.mismatches_g"
	if model == "pinned" {
		gfn = "Pipeline.mismatches_g_pinned"
	}
	cg := &Cases{Kind: "goroutines", Imports: imports, Type: "Pipeline.gcase", Fn: gfn, PerShard: 400}
	id := 0
	hung, returned := 0, 0
	poolExact, poolCases := 0, 0
	histories := 0
	oddOS := map[string]string{} // odd path kind -> what os.Create of it said
	for i, sp := range specs {
		res := results[i]
		key := specKey(sp)
		clean := sp
		clean.Dir, clean.TimeoutMs = "", 0
		stratum := "corpus"
		if i >= nCorpus {
			stratum = sp.Kind + "/" + sp.Sink + "/" + sp.Target
			if sp.Kind == "fault" && sp.Renderer != "script" {
				stratum += "/real-renderer"
			}
		}
		if res.Err != "" {
			// the child died (runtime "all goroutines are asleep - deadlock!", a panic) or had to be
			// killed: the call did not return
			r.Case(stratum, key, true)
			r.Violate(key, fmt.Sprintf("the render call did not return in an orderly way: %s", res.Err), clean)
			continue
		}
		switch sp.Kind {
		case "fault":
			id++
			w := writesOf(sp)
			total := 0
			for _, n := range w {
				total += n
			}
			thr := "tBufferSize"
			if !is3D(sp.Renderer, sp.Sink) {
				thr = "lBufferSize"
			}
			fail := "None"
			createOK := true
			count := res.Count
			switch {
			case sp.Sink == "stl" && (sp.Target == "devfull" || sp.Target == "rlimit"):
				lim := sp.Limit
				if sp.Target == "devfull" {
					lim = 0
				}
				fail = fmt.Sprintf("(Some %d)", stlFailIndex(lim))
				if lim < 84 || stlFailIndex(lim) >= total {
					// the loop never fails; whether the final flush / header rewrite succeed is the
					// file system's business (C13), not the protocol's
					count = -1
				}
			case (sp.Sink == "stl" || sp.Sink == "3mf") && (sp.Target == "nodir" || sp.Target == "isdir"):
				createOK = false
			case isOdd(sp.Target):
				// what the probing os.Create / first Write of the same path said in the child (the OS is
				// not modelled: its answer is an input of the model)
				if sp.Sink == "stl" || sp.Sink == "3mf" {
					createOK = res.Create == "ok"
				}
				if sp.Sink == "stl" && res.Create == "ok" && res.WriteErr != "ok" {
					fail = fmt.Sprintf("(Some %d)", stlFailIndex(0))
				}
				count = -1
				oddOS[sp.Target] = res.Create
			}
			cf.Add(fmt.Sprintf("(%d%%N, %s, %s, %s, %s, %s, %s)", id, thr, rle(w), fail, CB(createOK), CB(res.Returned), optNat(count)))
			r.Case(stratum, key, sp.Target != "ok" && total > 0 && !(isOdd(sp.Target) && res.Create == "ok" && res.WriteErr == "ok"))
			if res.Returned {
				returned++
			} else {
				hung++
				what := fmt.Sprintf("the call To%s(%s) did not return within %d ms: %s; the renderer wrote %d items in %d Writes",
					strings.ToUpper(sp.Sink), targetDisplay(sp.Target, sp.Sink), timeout, res.Blocked, total, len(w))
				if isOdd(sp.Target) {
					what += fmt.Sprintf("; the path was %s, os.Create of it says: %s", res.Path, res.Create)
				}
				r.Violate(key, what, clean)
			}
			if id%37 == 1 {
				r.Sample(map[string]interface{}{"case": key, "returned": res.Returned, "ms": res.Ms, "count": res.Count, "file_size": res.FileSize})
			}
		case "history":
			if sp.Label != "" {
				r.Case("history/env/"+sp.Label, key, true)
			} else {
				r.Case("history/"+sp.Steps[sp.Warmup-1].String(), key, true)
			}
			histories++
			if !res.Returned || len(res.Goroutines) != len(sp.Steps) {
				k := len(res.Goroutines)
				what := fmt.Sprintf("call %d of a history of %d calls in one process did not return within %d ms", k+1, len(sp.Steps), sp.TimeoutMs)
				if k < len(sp.Steps) {
					what += fmt.Sprintf(": To%s(%s renderer, target %s = %s) after the calls %s; %s", strings.ToUpper(sp.Steps[k].Sink), sp.Steps[k].Renderer, sp.Steps[k].Target, targetDisplay(sp.Steps[k].Target, sp.Steps[k].Sink), stepsKey(sp.Steps[:k]), res.Blocked)
				}
				r.Violate(key, what, clean)
				continue
			}
			hb := make([]string, 0, len(sp.Steps))
			for k, st := range sp.Steps {
				hb = append(hb, CB(usesPool(st.Renderer)))
				if st.maxProcs() > res.NumCPU {
					// the model's bound is NumCPU workers; a pool sized by a GOMAXPROCS above the number of
					// CPUs is not what the property forbids: from here on only the flatness oracle below judges
					break
				}
				if k%8 != 7 && k != len(sp.Steps)-1 {
					continue
				}
				id++
				extra := res.Goroutines[k] - res.Base
				if extra < 0 {
					extra = 0
				}
				cg.Add(fmt.Sprintf("(%d%%N, %d, %s, %d)", id, res.NumCPU, CList(hb), extra))
				poolCases++
			}
			// flat after the warm-up
			warm := res.Goroutines[sp.Warmup-1]
			if sp.WarmMax {
				// the warm-up has visited every setting of the history: the largest count seen there is the bound
				for _, g := range res.Goroutines[:sp.Warmup] {
					if g > warm {
						warm = g
					}
				}
			}
			for k := sp.Warmup; k < len(sp.Steps); k++ {
				// a pool-using renderer may start the pool later than the warm-up (when its earlier calls could not create their file)
				allowed := warm
				if !usesPoolBefore(sp.Steps, sp.Warmup) && usesPoolBefore(sp.Steps, k+1) {
					allowed += res.NumCPU
				}
				if res.Goroutines[k] > allowed {
					what := fmt.Sprintf("goroutines accumulate over repeated calls: %d before the history, %d after the warm-up (%d calls), %d after call %d (%s); counts after each call: %v (NumCPU=%d)",
						res.Base, warm, sp.Warmup, res.Goroutines[k], k+1, sp.Steps[k], res.Goroutines, res.NumCPU)
					if sp.WarmMax {
						what += fmt.Sprintf("; GOMAXPROCS after each call: %v; the calls: %s", res.Procs, stepsKey(sp.Steps))
					}
					r.Violate(key, what, clean)
					break
				}
			}
			if histories%9 == 1 {
				r.Sample(map[string]interface{}{"case": key, "base": res.Base, "goroutines_after_warmup": warm, "goroutines_at_end": res.Goroutines[len(res.Goroutines)-1]})
			}
		case "leak":
			r.Case(stratum, key, true)
			if !res.Returned || len(res.Goroutines) != len(sp.History) {
				r.Violate(key, fmt.Sprintf("the history of %d renders did not complete within %d ms (%d done): %s", len(sp.History), timeout, len(res.Goroutines), res.Blocked), clean)
				continue
			}
			hb := make([]string, 0, len(sp.History))
			for k, h := range sp.History {
				hb = append(hb, CB(usesPool(h)))
				id++
				extra := res.Goroutines[k] - res.Base
				if extra < 0 {
					extra = 0
				}
				cg.Add(fmt.Sprintf("(%d%%N, %d, %s, %d)", id, res.NumCPU, CList(hb), extra))
				poolCases++
				want := 0
				for _, b := range sp.History[:k+1] {
					if usesPool(b) {
						want = res.NumCPU
					}
				}
				if extra == want {
					poolExact++
				}
			}
			// the property itself: bounded by a constant independent of k
			n := len(res.Goroutines)
			last, mid := res.Goroutines[n-1], res.Goroutines[n/2-1]
			if last > mid || last-res.Base > 2*res.NumCPU+8 {
				r.Violate(key, fmt.Sprintf("goroutines keep growing with the number of renders: %d before, then %v (NumCPU=%d)", res.Base, res.Goroutines, res.NumCPU), clean)
			}
			r.Sample(map[string]interface{}{"case": key, "base": res.Base, "goroutines": res.Goroutines, "ncpu": res.NumCPU})
		}
	}
	if err := cf.Write(c.Out); err != nil {
		return err
	}
	if err := cg.Write(c.Out); err != nil {
		return err
	}
	r.Coverage["odd_path_kinds_os_create"] = oddOS
	r.Coverage["calls_returned"] = returned
	r.Coverage["calls_hung"] = hung
	r.Coverage["histories_of_failing_calls"] = histories
	r.Coverage["goroutine_observations"] = poolCases
	r.Coverage["goroutine_observations_equal_to_model"] = poolExact
	r.Coverage["model_compared"] = map[bool]string{true: "pinned (reproduction run)", false: "repaired"}[model == "pinned"]
	r.Rule = "fault cases: one child process per (sink, renderer, target); scripted renderers write numbered items in the given Write sizes through the real sdf buffers, real renderers (marching cubes uniform/octree, marching squares uniform/quadtree, dual contouring 2d) render a unit sphere/circle; targets: writable file, /dev/full, missing directory, a directory, RLIMIT_FSIZE with SIGXFSZ ignored at every 4096-byte flush boundary of the STL writer (+-1 byte, and below the header size). Observed: returned within the time limit or not (with the blocked frame), STL header count. leak cases: one child per history of k renders, runtime.NumGoroutine() (settled) after each render minus before the first. history cases: one child performs a warm-up (a good call, a failing call), then the same failing call R times (R=40 quick), then good calls of every entry point of that dimension, for every entry point (ToSTL, To3MF, ToDXF, ToSVG) x failure kind (missing directory, path is a directory, /dev/full, RLIMIT_FSIZE soft limit 0/100/4096/20000 set for that call only), scripted and real renderers, plus mixed histories; every call must return and the goroutine count must not exceed its value after the warm-up. env histories (env.go): one child performs a history whose run-time environment changes between and during the calls: runtime.GOMAXPROCS set before a call (lower-then-raise cycles, raise-then-lower, long low / long high phases, three levels in both directions, a staircase through 1,2,3,6,NumCPU-1,NumCPU,NumCPU+1,2*NumCPU,64 and back, random walks over these levels; fixed and NumCPU-relative values below, across and above the number of CPUs), GOMAXPROCS changed during a call (by the shape under evaluation every 97 evaluations, deterministic; by a free-running goroutine), several concurrent calls per step (the number in flight going up and down), the solid / resolution / entry point / renderer changing from call to call, failing sinks in between, GC percent and idle time; all 3D and 2D entry points. Oracle, NumCPU-independent: after a warm-up of two full periods (or the staircase twice) the settled goroutine count never exceeds the largest count seen during the warm-up; a reading above everything seen before is re-read up to 12 times 25 ms apart and the smallest reading counts. Steps up to the first GOMAXPROCS above NumCPU are also compared with the model's pool bound. odd output paths (paths.go): every path-taking entry point (ToSTL, To3MF, ToDXF, ToSVG) x 20 kinds of path - empty string, trailing slash, '.', '..', '/', parent is a regular file, name beyond NAME_MAX, path beyond PATH_MAX, NUL byte in the name, read-only directory and existing read-only file (for root: below /sys/kernel), /proc/version (opens, every write fails), a symbolic link to itself, a two-link loop in the parent, a dangling symbolic link, and creatable but unusual ones: /dev/null, a name with blank/newline/tab/quotes/non-ASCII/leading dash, no extension, a relative name, an unclean relative path; the child's working directory is its scratch directory; the path and whatever it needs on disk is built in the child from the kind alone. Single calls (scripted renderers with several batches and with one batch sent by Close, one real renderer) are compared with the model, create_ok being what a probing os.Create of the same path says just before the call; histories in one process: per entry point and kind a good call, the odd call, the odd call R more times (R=24 quick), then good calls of every entry point; per entry point all kinds in turn, the round repeated; per dimension entry point and kind at random with 2-3 concurrent calls now and then; every call must return within the time limit and the settled goroutine count must not exceed what it was after (during, for the rounds) the warm-up. Non-trivial = a failing target with at least one item, or a leak history; distinct by the spec."
	r.Trusted = append(r.Trusted,
		"model coq/Sys/Pipeline.v of the ToXXX / writer-goroutine protocol and of the evalRoutines pool, tied twice: by translation (harness/sysgen extracts the statement skeleton of ToTriangles / ToSTL / To3MF / ToDXF / ToSVG, WriteTriangles / writeSTL / write3MF / writeDXF / writeSVG with their goroutines, evalRoutines and marchingCubes from the current source into Generated/SysProgs.v; Sys/PipeProg.v gives a call a small-step meaning, proves it a refinement of Pipeline.next (sim_step) and proves that each of the five extracted calls always returns, C12_source_*; Sys/PoolProg.v proves the extracted pool start equal to render_pool Repaired) and by differential execution (cases_fault_*.v, cases_goroutines_*.v)",
		"harness/sysgen (classification of Data statements, helper inlining) and the reading of each primitive statement by the interpreter of PipeProg.v; inside r.Render the renderer is taken to block only in its channel sends (one rendezvous per batch)",
		"'does not return' is observed as 'not returned after "+fmt.Sprint(timeout)+" ms' plus the goroutine dump of the child; the operating system is not modelled",
		"index of the first failing STL record for a byte limit is computed by the harness from the bufio block size 4096, header 84, record 50 (stlFailIndex)")
	r.Assumptions = append(r.Assumptions,
		"RLIMIT_FSIZE children ignore SIGXFSZ so that write fails with EFBIG instead of killing the process",
		"a file whose streaming succeeded but whose final flush failed is not judged here (count field vs. content is C13)")
	return nil
}
