package main

// C12, run-time environment histories.  The property bounds the goroutines alive after k
// renders by a constant independent of k -- for every program that renders, also one that
// changes its own run-time environment between (or during) renders.  A "history" step can
// therefore carry an environment:
//
//	Procs    runtime.GOMAXPROCS(n) before the call
//	Flip     "2,6"  the shape under evaluation sets GOMAXPROCS to the next value of the list every
//	                flipEvery evaluations (deterministic: the renderer itself performs the change
//	                in the middle of its work);
//	         "~2,6" a free-running goroutine cycles through the values while the call runs
//	Par      that many concurrent calls (each its own output file)
//	Shape    the solid / outline rendered
//	GC       debug.SetGCPercent(n) before the call
//	PauseMs  idle time before the call
//
// The oracle does not mention NumCPU: after a warm-up that has visited every setting of the
// history (in the order in which the history goes on visiting them) the settled goroutine count
// after a call must never exceed the largest count seen during the warm-up.

import (
	"fmt"
	"runtime"
	"runtime/debug"
	"strconv"
	"strings"
	"sync"
	"sync/atomic"
	"time"

	"github.com/deadsy/sdfx/sdf"
	v2 "github.com/deadsy/sdfx/vec/v2"
	v3 "github.com/deadsy/sdfx/vec/v3"
	. "verifharness/kit"
)

const flipEvery = 97 // evaluations between two GOMAXPROCS changes made by a flipping shape

func (st Step) hasEnv() bool {
	return st.Procs != 0 || st.Flip != "" || st.Par > 1 || st.Shape != "" || st.GC != 0 || st.PauseMs != 0
}

func (st Step) envString() string {
	s := ""
	if st.Procs != 0 {
		s += fmt.Sprintf("@p%d", st.Procs)
	}
	if st.Flip != "" {
		s += "@flip" + st.Flip
	}
	if st.Par > 1 {
		s += fmt.Sprintf("@par%d", st.Par)
	}
	if st.Shape != "" {
		s += "@" + st.Shape
	}
	if st.GC != 0 {
		s += fmt.Sprintf("@gc%d", st.GC)
	}
	if st.PauseMs != 0 {
		s += fmt.Sprintf("@idle%dms", st.PauseMs)
	}
	return s
}

func flipVals(flip string) (vals []int, free bool) {
	free = strings.HasPrefix(flip, "~")
	for _, f := range strings.Split(strings.TrimPrefix(flip, "~"), ",") {
		if n, err := strconv.Atoi(f); err == nil && n > 0 {
			vals = append(vals, n)
		}
	}
	return
}

// largest GOMAXPROCS value a step asks for (0: none)
func (st Step) maxProcs() int {
	m := st.Procs
	vals, _ := flipVals(st.Flip)
	for _, v := range vals {
		if v > m {
			m = v
		}
	}
	return m
}

// ---- shapes

func namedShape3(name string) sdf.SDF3 {
	switch name {
	case "box":
		s, _ := sdf.Box3D(v3.Vec{X: 1.5, Y: 1.0, Z: 0.75}, 0.1)
		return s
	case "big":
		s, _ := sdf.Sphere3D(3.0)
		return s
	case "twin":
		a, _ := sdf.Sphere3D(0.75)
		return sdf.Union3D(sdf.Transform3D(a, sdf.Translate3d(v3.Vec{X: -0.5})), sdf.Transform3D(a, sdf.Translate3d(v3.Vec{X: 0.5, Y: 0.25})))
	case "flat":
		s, _ := sdf.Cylinder3D(0.25, 2.0, 0)
		return s
	}
	return shape3()
}

func namedShape2(name string) sdf.SDF2 {
	switch name {
	case "box":
		return sdf.Box2D(v2.Vec{X: 1.5, Y: 1.0}, 0.1)
	case "big":
		s, _ := sdf.Circle2D(3.0)
		return s
	case "twin":
		a, _ := sdf.Circle2D(0.75)
		return sdf.Union2D(sdf.Transform2D(a, sdf.Translate2d(v2.Vec{X: -0.5})), sdf.Transform2D(a, sdf.Translate2d(v2.Vec{X: 0.5, Y: 0.25})))
	case "flat":
		return sdf.Box2D(v2.Vec{X: 4.0, Y: 0.25}, 0)
	}
	return shape2()
}

// a shape that changes GOMAXPROCS while it is being evaluated
type flipper struct {
	vals []int
	n    int64
}

func (f *flipper) tick() {
	n := atomic.AddInt64(&f.n, 1)
	if n%flipEvery == 0 {
		runtime.GOMAXPROCS(f.vals[int(n/flipEvery)%len(f.vals)])
	}
}

type flip3 struct {
	sdf.SDF3
	f *flipper
}

func (s flip3) Evaluate(p v3.Vec) float64 { s.f.tick(); return s.SDF3.Evaluate(p) }

type flip2 struct {
	sdf.SDF2
	f *flipper
}

func (s flip2) Evaluate(p v2.Vec) float64 { s.f.tick(); return s.SDF2.Evaluate(p) }

// ---- one step of a history, with its environment (child process)

// number of steps with a flipping shape so far: successive ones start at successive values of
// their list, so that they also END at different values (the evaluation count of a render is fixed)
var flipSeq int64

func runStep(sp *Spec, st Step, i int) {
	if st.PauseMs > 0 {
		time.Sleep(time.Duration(st.PauseMs) * time.Millisecond)
	}
	if st.GC != 0 {
		debug.SetGCPercent(st.GC)
	}
	if st.Procs > 0 {
		runtime.GOMAXPROCS(st.Procs)
	}
	vals, free := flipVals(st.Flip)
	var stop, stopped chan struct{}
	if len(vals) > 0 && free {
		stop, stopped = make(chan struct{}), make(chan struct{})
		started := make(chan struct{})
		go func() {
			defer close(stopped)
			for k := 0; ; k++ {
				select {
				case <-stop:
					return
				default:
				}
				runtime.GOMAXPROCS(vals[k%len(vals)])
				if k == 0 {
					close(started)
				}
				time.Sleep(40 * time.Microsecond)
			}
		}()
		<-started
	}
	par := st.Par
	if par < 1 {
		par = 1
	}
	var wg sync.WaitGroup
	for j := 0; j < par; j++ {
		s2 := *sp
		s2.Sink, s2.Target, s2.Cells = st.Sink, st.Target, st.Cells
		path := targetPath(&s2, i)
		if par > 1 && (st.Target == "ok" || st.Target == "rlimit") {
			path += fmt.Sprintf(".%d", j)
		}
		a, b := namedShape3(st.Shape), namedShape2(st.Shape)
		if len(vals) > 0 && !free {
			f := &flipper{vals: vals, n: flipSeq * flipEvery}
			a, b = flip3{a, f}, flip2{b, f}
		}
		if par == 1 {
			callSinkShapes(&s2, st.Renderer, path, a, b)
			break
		}
		wg.Add(1)
		go func() {
			defer wg.Done()
			callSinkShapes(&s2, st.Renderer, path, a, b)
		}()
	}
	wg.Wait()
	if len(vals) > 0 && !free {
		flipSeq++
	}
	if stop != nil {
		close(stop)
		<-stopped
	}
}

// ---- generator

func cyc(period []Step, n int) []Step {
	var out []Step
	for k := 0; k < n; k++ {
		out = append(out, period...)
	}
	return out
}

// envHistories: histories of calls whose run-time environment changes between and during the
// calls.  Every history is  warm-up (two full periods, or a staircase through every setting and
// back, twice)  followed by P more periods / random settings.
func envHistories(tier string, rng *Rng, nc int) []Spec {
	P := TierN(tier, 6, 20, 10)
	var out []Spec
	label := ""
	emit := func(warm int, steps []Step) {
		out = append(out, Spec{Kind: "history", Label: label, Steps: steps, Warmup: warm, WarmMax: true, TimeoutMs: 60000})
	}
	periodic := func(period []Step) { emit(2*len(period), cyc(period, 2+P)) }
	mk := func(sink, renderer string, cells int, procs int) Step {
		return Step{Sink: sink, Renderer: renderer, Cells: cells, Target: "ok", Procs: procs}
	}
	above := func(v int) int { // keep the settings moderate on big machines
		if v > 256 {
			return 256
		}
		return v
	}
	ncm1 := nc - 1
	if ncm1 < 1 {
		ncm1 = 1
	}

	// (1) lower-then-raise cycles of GOMAXPROCS between renders, fixed and NumCPU-relative levels,
	//     below, across and above the number of CPUs; every 3D sink; the pool-using renderer
	label = "gomaxprocs-cycle"
	pairs := [][2]int{{2, 6}, {1, nc}, {nc, above(nc + 3)}, {ncm1, above(2 * nc)}, {1, 64}, {3, 4}, {above(nc + 1), above(4 * nc)}}
	sinks3 := []string{"tri", "stl", "3mf"}
	for k, pr := range pairs {
		if tier == "quick" && k >= 5 {
			break
		}
		sink := sinks3[k%3]
		periodic([]Step{mk(sink, "mcu", 8, pr[0]), mk(sink, "mcu", 8, pr[1])})
		if k < 2 {
			// raise first, then lower
			periodic([]Step{mk(sink, "mcu", 8, pr[1]), mk(sink, "mcu", 8, pr[0])})
		}
	}
	// the low part of the cycle lasts several renders; so does the high part
	periodic([]Step{mk("tri", "mcu", 8, 2), mk("tri", "mcu", 8, 0), mk("tri", "mcu", 8, 0), mk("tri", "mcu", 8, 7), mk("tri", "mcu", 8, 0)})
	// three levels, both directions
	periodic([]Step{mk("stl", "mcu", 8, 1), mk("stl", "mcu", 8, 4), mk("stl", "mcu", 8, above(nc+2))})
	periodic([]Step{mk("tri", "mcu", 8, above(nc+2)), mk("tri", "mcu", 8, 4), mk("tri", "mcu", 8, 1)})

	// (2) staircase up and down through every level
	label = "gomaxprocs-staircase"
	levels := []int{1, 2, 3, 6, ncm1, nc, above(nc + 1), above(2 * nc), 64}
	var stair []Step
	for _, v := range levels {
		stair = append(stair, mk("tri", "mcu", 8, v))
	}
	for k := len(levels) - 2; k >= 1; k-- {
		stair = append(stair, mk("tri", "mcu", 8, levels[k]))
	}
	pst := P / 3
	if pst < 2 {
		pst = 2
	}
	emit(2*len(stair), cyc(stair, 2+pst))

	// (3) random walks over the levels after a staircase warm-up (every level visited, twice)
	label = "gomaxprocs-random-walk"
	nw := TierN(tier, 2, 6, 4)
	for w := 0; w < nw; w++ {
		steps := cyc(stair, 2)
		warm := len(steps)
		for k := 0; k < 4*P; k++ {
			st := mk(sinks3[rng.Intn(3)], "mcu", 6+rng.Intn(8), levels[rng.Intn(len(levels))])
			if rng.Intn(4) == 0 {
				st.Procs = 0 // unchanged for this render
			}
			steps = append(steps, st)
		}
		emit(warm, steps)
	}

	// (4) pool-using and other renderers interleaved across the levels; failing sinks in between
	label = "gomaxprocs-cycle-mixed-renderers-and-failing-sinks"
	periodic([]Step{mk("stl", "mcu", 8, 2), mk("stl", "octree", 8, 6), mk("stl", "script", 0, 0), mk("stl", "mcu", 8, 0), mk("stl", "octree", 8, 2)})
	periodic([]Step{
		{Sink: "stl", Renderer: "mcu", Cells: 8, Target: "ok", Procs: 2},
		{Sink: "stl", Renderer: "mcu", Cells: 8, Target: "devfull", Procs: 6},
		{Sink: "stl", Renderer: "mcu", Cells: 8, Target: "nodir", Procs: 3},
		{Sink: "3mf", Renderer: "mcu", Cells: 8, Target: "rlimit", Limit: 4096, Procs: above(nc + 2)},
		{Sink: "tri", Renderer: "mcu", Cells: 8, Target: "ok", Procs: 1}})
	// the 2D entry points and renderers
	label = "gomaxprocs-cycle-2d"
	r2 := []string{"ms", "quadtree", "dc2"}
	for k, sink := range []string{"dxf", "svg"} {
		periodic([]Step{mk(sink, r2[k], 20, 2), mk(sink, r2[(k+1)%3], 20, 6), mk(sink, r2[(k+2)%3], 20, above(nc+1))})
	}

	// (5) GOMAXPROCS changed DURING the render: by the shape under evaluation (deterministic), and
	//     by a free-running goroutine; the warm-up first visits the levels between renders
	label = "gomaxprocs-changed-during-render"
	for k, fl := range []string{"2,6", fmt.Sprintf("1,%d,%d", above(nc+2), ncm1), "~2,6", fmt.Sprintf("~1,%d", above(nc+3))} {
		vals, free := flipVals(fl)
		var pre []Step
		for _, v := range vals {
			pre = append(pre, mk("tri", "mcu", 8, v))
		}
		cells := 8
		if free {
			cells = 24
		}
		sink := sinks3[k%3]
		period := []Step{{Sink: sink, Renderer: "mcu", Cells: cells, Target: "ok", Flip: fl}, {Sink: sink, Renderer: "mcu", Cells: 9, Target: "ok"}}
		if k%2 == 1 {
			period = append(period, Step{Sink: sink, Renderer: "octree", Cells: 12, Target: "ok", Flip: fl})
		}
		steps := append(cyc(pre, 2), cyc(period, 2+P)...)
		emit(2*len(pre)+2*len(period), steps)
	}
	periodic([]Step{{Sink: "dxf", Renderer: "ms", Cells: 20, Target: "ok", Flip: "2,5"}, {Sink: "svg", Renderer: "quadtree", Cells: 20, Target: "ok", Flip: "~3,1"}})

	// (6) concurrent renders: the number in flight goes up and down; alone and with GOMAXPROCS cycles
	label = "concurrent-renders"
	periodic([]Step{{Sink: "tri", Renderer: "mcu", Cells: 8, Target: "ok", Par: 4}, {Sink: "tri", Renderer: "mcu", Cells: 8, Target: "ok"}})
	periodic([]Step{{Sink: "stl", Renderer: "mcu", Cells: 8, Target: "ok", Par: 3, Procs: 2}, {Sink: "stl", Renderer: "octree", Cells: 8, Target: "ok", Par: 2, Procs: 6}, {Sink: "3mf", Renderer: "mcu", Cells: 8, Target: "ok", Par: 5}})
	periodic([]Step{{Sink: "stl", Renderer: "mcu", Cells: 8, Target: "devfull", Par: 3}, {Sink: "stl", Renderer: "script", Target: "nodir", Par: 4}, {Sink: "stl", Renderer: "mcu", Cells: 8, Target: "ok", Par: 2}})
	periodic([]Step{{Sink: "dxf", Renderer: "ms", Cells: 20, Target: "ok", Par: 4}, {Sink: "svg", Renderer: "dc2", Cells: 20, Target: "ok", Par: 2, Procs: 3}, {Sink: "svg", Renderer: "quadtree", Cells: 20, Target: "ok", Procs: 1}})

	// (7) what is rendered changes from call to call (solid, resolution), the collector setting, idle time
	label = "shape-resolution-gc-idle"
	shapes := []string{"", "box", "big", "twin", "flat"}
	var per []Step
	for k, sh := range shapes {
		per = append(per, Step{Sink: sinks3[k%3], Renderer: []string{"mcu", "mcu", "octree"}[k%3], Cells: 6 + 3*k, Target: "ok", Shape: sh})
	}
	periodic(per)
	per = nil
	for k, sh := range shapes {
		per = append(per, Step{Sink: []string{"dxf", "svg"}[k%2], Renderer: r2[k%3], Cells: 12 + 5*k, Target: "ok", Shape: sh})
	}
	periodic(per)
	periodic([]Step{{Sink: "tri", Renderer: "mcu", Cells: 8, Target: "ok", GC: 20}, {Sink: "stl", Renderer: "mcu", Cells: 8, Target: "ok", GC: 400}, {Sink: "stl", Renderer: "mcu", Cells: 8, Target: "ok", GC: -1}})
	periodic([]Step{{Sink: "tri", Renderer: "mcu", Cells: 8, Target: "ok", PauseMs: 15}, {Sink: "tri", Renderer: "mcu", Cells: 8, Target: "ok"}, {Sink: "stl", Renderer: "mcu", Cells: 8, Target: "ok", PauseMs: 40, Procs: 2}, {Sink: "stl", Renderer: "mcu", Cells: 8, Target: "ok", Procs: 5}})
	return out
}
